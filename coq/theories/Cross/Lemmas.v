From Coq Require Import Reals Lra Lia.
Require Import Clarabel.Newton.Model Clarabel.Newton.Lemmas Clarabel.Cross.Spec.
Open Scope R_scope.

Lemma dot_comm n u v : dot n u v = dot n v u.
Proof. unfold dot. apply sumn_ext. intros; ring. Qed.
Lemma dot_add_l n u v w : dot n (fun i => u i + v i) w = dot n u w + dot n v w.
Proof. unfold dot. rewrite <- sumn_plus. apply sumn_ext. intros; ring. Qed.
Lemma dot_sub_l n u v w : dot n (fun i => u i - v i) w = dot n u w - dot n v w.
Proof.
  unfold dot. replace (sumn n (fun i => u i * w i) - sumn n (fun i => v i * w i))
    with (sumn n (fun i => u i * w i) + -1 * sumn n (fun i => v i * w i)) by ring.
  rewrite <- sumn_scal, <- sumn_plus. apply sumn_ext. intros; ring.
Qed.
(** adjoint: z'(A x) = (A'z)'x *)
Lemma adjoint n m A x z : dot m z (mv n A x) = dot n (mv m (transp A) z) x.
Proof.
  unfold dot, mv, transp.
  transitivity (sumn m (fun i => sumn n (fun j => z i * (A i j * x j)))).
  { apply sumn_ext. intros i _. rewrite <- sumn_scal. reflexivity. }
  rewrite sumn_swap. apply sumn_ext. intros j _.
  rewrite <- (Rmult_comm (x j)). rewrite <- sumn_scal. apply sumn_ext. intros; ring.
Qed.

Theorem cross_identity_ok : stmt_cross_identity.
Proof.
  intros n m P A q b x1 s1 x2 z2 Psym.
  unfold pobj, dobj, rdual, rprim.
  rewrite quad_add_l, !quad_add_r, !quad_scal_l, !quad_scal_r.
  rewrite (quad_sym n P x2 x1 Psym).
  rewrite !dot_add_l, dot_sub_l, dot_add_l.
  change (dot n (fun j => mv n P x2 j) x1) with (dot n (mv n P x2) x1).
  change (dot n (fun j => mv m (transp A) z2 j) x1) with (dot n (mv m (transp A) z2) x1).
  change (dot m (fun i => mv n A x1 i) z2) with (dot m (mv n A x1) z2).
  rewrite <- (adjoint n m A x1 z2).
  rewrite (dot_comm m (mv n A x1) z2).
  rewrite (dot_comm n (mv n P x2) x1). fold (quad n P x1 x2).
  change (dot n (fun j => q j) x1) with (dot n q x1).
  change (dot m (fun i => s1 i) z2) with (dot m s1 z2).
  change (dot m (fun i => b i) z2) with (dot m b z2).
  field.
Qed.

Theorem cross_weak_duality_ok : stmt_cross_weak_duality.
Proof.
  intros n m P A q b x1 s1 x2 z2 Psym Ppsd Hsz.
  pose proof (cross_identity_ok n m P A q b x1 s1 x2 z2 Psym) as E.
  pose proof (Ppsd (vadd x1 (vscal (-1) x2))) as Hq.
  pose proof (Rle_abs (- dot n (rdual n m P A q x2 z2) x1)) as A1. rewrite Rabs_Ropp in A1.
  pose proof (Rle_abs (dot m (rprim n A b x1 s1) z2)) as A2.
  lra.
Qed.

Theorem objectives_agree_ok : stmt_objectives_agree.
Proof.
  intros n m P A q b x1 s1 z1 x2 s2 z2 Psym Ppsd H12 H21 slack12 slack21.
  pose proof (cross_weak_duality_ok n m P A q b x1 s1 x2 z2 Psym Ppsd H12) as W12.
  pose proof (cross_weak_duality_ok n m P A q b x2 s2 x1 z1 Psym Ppsd H21) as W21.
  subst slack12 slack21.
  pose proof (Rle_abs (pobj n P q x1 - dobj n m P b x1 z1)) as G1.
  pose proof (Rle_abs (pobj n P q x2 - dobj n m P b x2 z2)) as G2.
  pose proof (Rabs_pos (dot n (rdual n m P A q x2 z2) x1)).
  pose proof (Rabs_pos (dot m (rprim n A b x1 s1) z2)).
  pose proof (Rabs_pos (dot n (rdual n m P A q x1 z1) x2)).
  pose proof (Rabs_pos (dot m (rprim n A b x2 s2) z1)).
  pose proof (Rabs_pos (pobj n P q x1 - dobj n m P b x1 z1)).
  pose proof (Rabs_pos (pobj n P q x2 - dobj n m P b x2 z2)).
  apply Rabs_le. split; lra.
Qed.

Lemma sumn_scal_ext n c f g : (forall i, g i = c * f i) -> sumn n g = c * sumn n f.
Proof. intros H. rewrite <- sumn_scal. apply sumn_ext. intros i _. apply H. Qed.

Theorem scale_objective_ok : stmt_scale_objective.
Proof.
  intros n m P A q b x s z lam P' q' z'. subst P' q' z'.
  assert (Q : quad n (fun i j => lam * P i j) x x = lam * quad n P x x).
  { unfold quad, dot, mv. apply sumn_scal_ext. intros i.
    rewrite (sumn_scal_ext n lam (fun j => P i j * x j)) by (intros; ring). ring. }
  repeat split.
  - intros j. unfold rdual, mv, vscal, transp.
    rewrite (sumn_scal_ext n lam (fun j0 => P j j0 * x j0)) by (intros; ring).
    rewrite (sumn_scal_ext m lam (fun j0 => A j0 j * z j0)) by (intros; ring). ring.
  - unfold pobj. rewrite Q. unfold dot, vscal.
    rewrite (sumn_scal_ext n lam (fun i => q i * x i)) by (intros; ring). ring.
  - unfold dobj. rewrite Q. unfold dot, vscal.
    rewrite (sumn_scal_ext m lam (fun i => b i * z i)) by (intros; ring). ring.
Qed.
