(** C07 (cone part) — a damped cone step keeps NN / SOC iterates strictly interior.
    Statements: Cones/SpecInterior.v; proofs: Cones/LemmasInterior.v (built on the C15 step
    safety theorems and the convexity of the cones).  Reals, every dimension. *)
From Coq Require Import List Reals.
Require Import Clarabel.Base.Ops Clarabel.Cones.SpecC15 Clarabel.Cones.SpecInterior
               Clarabel.Cones.LemmasInterior.

Theorem C07_nn_step_keeps_interior : stmt_nn_step_keeps_interior.
Proof. exact nn_step_keeps_interior_ok. Qed.
Theorem C07_soc_step_keeps_interior : stmt_soc_step_keeps_interior.
Proof. exact soc_step_keeps_interior_ok. Qed.
Theorem C07_nn_calc_step_keeps_interior : stmt_nn_calc_step_keeps_interior.
Proof. exact nn_calc_step_keeps_interior_ok. Qed.
Theorem C07_soc_calc_step_keeps_interior : stmt_soc_calc_step_keeps_interior.
Proof. exact soc_calc_step_keeps_interior_ok. Qed.
Theorem C07_soc_convex_interior : stmt_soc_convex_interior.
Proof. exact soc_convex_interior_ok. Qed.
