(** C10 -- equilibration is an exact, bounded, cone-preserving change of variables.

    Only statements closed by [exact]; the statements are the [stmt_*] definitions of
    Equil/Spec.v (a file with nothing else in it); proofs are in Equil/Lemmas*.v.  The
    theorems are about [setup OpsR S cs P q A b] -- the Gallina model (Equil/Model.v) of what
    [DefaultSolver::new] does to the problem data, interpreted over the reals -- for EVERY
    data (P, q, A, b of any size with consistent dimensions, [WFdata]), every cone list,
    every [equilibrate_max_iter], and every 0 < min <= max ([SettingsOk]).

    Sentence of the property                          theorem
    ------------------------------------------------  ---------------------------------------
    data = c*D*P*D, E*A*D, c*D*q, E*b entry by entry  C10_equil_exact (no condition on settings)
    positive diagonal, dinv = 1/d, einv = 1/e         C10_equil_exact + C10_equil_positive
    every cumulative factor within [min,max]          C10_equil_bounds (needs min <= 1 <= max),
                                                      C10_equil_bounds_iter (any 0<min<=max, after
                                                      one pass; c possibly still 1),
                                                      C10_equil_bounds_literal_refuted (the literal
                                                      sentence fails for min > 1)
    zero rows/columns of scalar cones unscaled        C10_zero_col_unscaled, C10_zero_row_unscaled,
                                                      C10_zero_rowcol_dense (dense reading, canonical P, A)
    E constant on every non-scalar cone               C10_cone_uniform
    disabled => untouched                             C10_disabled_identity (any scalar type)
    membership in K unaffected                        C10_equil_cone_membership, C10_uniform_scaling_preserves_cones
    all equilibrate_* settings                        C10_equil_bounds_gen (min, max in either order),
                                                      C10_equil_swapped_two_valued (min > max),
                                                      C10_max_iter_zero_identity, C10_unit_bounds_identity
    binary64                                          C10_F9_*_refuted, C10_binary64_settings, C10_rect_block_const

    Binary64: the same model evaluated at OpsF is required to agree BITWISE with the implementation
    on every generated problem; the one-ulp departures from the real-number conclusions are
    stated exactly by the C10_F9_* witnesses (no rounding-error analysis for all inputs). *)
From Coq Require Import List ZArith Reals Lra Lia.
Import ListNotations.
Require Import Clarabel.Base.Ops Clarabel.Csc.Model Clarabel.Csc.Spec.
Require Import Clarabel.Equil.Model Clarabel.Equil.Spec Clarabel.Equil.Lemmas Clarabel.Equil.LemmasDense.
Require Import Clarabel.Equil.LemmasSettings Clarabel.Equil.Cones Clarabel.Equil.LemmasCones Clarabel.Equil.FloatFacts.
Local Open Scope R_scope.

Theorem C10_equil_exact : stmt_equil_exact.
Proof. exact equil_exact_ok. Qed.
Theorem C10_equil_positive : stmt_equil_positive.
Proof. exact equil_positive_ok. Qed.
Theorem C10_equil_bounds : stmt_equil_bounds.
Proof. exact equil_bounds_ok. Qed.
Theorem C10_equil_bounds_iter : stmt_equil_bounds_iter.
Proof. exact equil_bounds_iter_ok. Qed.
Theorem C10_equil_bounds_literal_refuted : stmt_equil_bounds_literal_refuted.
Proof. exact equil_bounds_literal_refuted_ok. Qed.
Theorem C10_zero_col_unscaled : stmt_zero_col_unscaled.
Proof. exact zero_col_unscaled_ok. Qed.
Theorem C10_zero_row_unscaled : stmt_zero_row_unscaled.
Proof. exact zero_row_unscaled_ok. Qed.
Theorem C10_zero_rowcol_dense : stmt_zero_rowcol_dense.
Proof. exact zero_rowcol_dense_ok. Qed.
Theorem C10_cone_uniform : stmt_cone_uniform.
Proof. exact cone_uniform_ok. Qed.
Theorem C10_disabled_identity : forall T (O : Ops T), stmt_disabled_identity O.
Proof. exact @disabled_identity_ok. Qed.

(** settings out of the ordinary (over the reals; the binary64 counterparts are in
    C10_binary64_settings below) *)
Theorem C10_equil_bounds_gen : stmt_equil_bounds_gen.
Proof. exact equil_bounds_gen_ok. Qed.
Theorem C10_equil_swapped_two_valued : stmt_equil_swapped_two_valued.
Proof. exact equil_swapped_two_valued_ok. Qed.
Theorem C10_max_iter_zero_identity : stmt_max_iter_zero_identity.
Proof. exact max_iter_zero_identity_ok. Qed.
Theorem C10_unit_bounds_identity : stmt_unit_bounds_identity.
Proof. exact unit_bounds_identity_ok. Qed.

(** cone membership (cone predicates of Term/Spec.v): a cone-uniform positive scaling maps K onto
    K and K* onto K*, and the e / einv returned by [setup] are cone-uniform *)
Theorem C10_cone_scaled : forall k mu s, 0 < mu -> Spec.in_cone k s -> Spec.in_cone k (Eval.vscale OpsR mu s).
Proof. exact cone_scaled. Qed.
Theorem C10_uniform_scaling_preserves_cones : stmt_uniform_scaling_preserves_cones.
Proof. exact uniform_scaling_preserves_cones_ok. Qed.
Theorem C10_equil_cone_membership : stmt_equil_cone_membership.
Proof. exact equil_cone_membership_ok. Qed.

(** binary64 (the arithmetic of the implementation; the correspondence run demands bitwise
    equality with this evaluation): where the real-number conclusions fail by one ulp, and which
    operation rounds; evaluated by vm_compute *)
Theorem C10_F9_clip_multiply_refuted : stmt_f9_clip_multiply.
Proof. exact f9_clip_multiply_ok. Qed.
Theorem C10_F9_rectified_mean_refuted : stmt_f9_rectified_mean.
Proof. exact f9_rectified_mean_ok. Qed.
Theorem C10_F9_not_bit_constant_refuted : stmt_f9_not_bit_constant.
Proof. exact f9_not_bit_constant_ok. Qed.
Theorem C10_rect_block_const : forall T (O : Ops T) k x n, exists v, rect_block O k (repeat x n) = repeat v n.
Proof. exact @rect_block_const. Qed.
Theorem C10_binary64_settings : stmt_f_settings.
Proof. exact f_settings_ok. Qed.

(** ** Non-vacuity: a concrete badly scaled instance meeting every hypothesis at once.
    n = 2 variables, m = 4 rows, cones [Nonneg(1); SOC(3)]; column 1 of [P;A] is all zero,
    row 0 of A (in the nonnegative cone) is all zero; entries span 1e-6 .. 1e6;
    settings: enabled, 10 passes, [1e-4, 1e4]. *)
Definition exS : @settings R := mkSettings true 10 (1 / 10000) 10000.
Definition exCones : list cone := [(KNonneg, 1%nat); (KSoc, 3%nat)].
Definition exP : cscR := mkCsc 2 2 [[(0%nat, 4)]; []].
Definition exA : cscR := mkCsc 4 2 [[(1%nat, 1000000); (2%nat, 3); (3%nat, 1 / 1000000)]; []].
Definition exq : list R := [1; 0].
Definition exb : list R := [1; 2; 3; 4].

Example C10_hypotheses_met :
  SettingsOk exS /\ OneInRange exS /\ eq_enable exS = true /\ (1 <= eq_max_iter exS)%nat /\
  WFdata exP exq exA exb /\
  (In (KSoc, 1%nat, 3%nat) (cone_ranges 0 exCones) /\ scalar_kind KSoc = false /\ (1 + 3 <= nr exA)%nat) /\
  (In (KNonneg, 0%nat, 1%nat) (cone_ranges 0 exCones) /\ scalar_kind KNonneg = true /\ row_zero exA 0) /\
  ((1 < nc exA)%nat /\ col_zero exP 1 /\ row_zero exP 1 /\ col_zero exA 1) /\
  getR exA 1 0 = 1000000.
Proof.
  unfold SettingsOk, OneInRange, exS, WFdata, WellDim, exP, exA, exq, exb, exCones.
  cbn [eq_min eq_max eq_enable eq_max_iter cols nc nr length cone_ranges Nat.add].
  repeat split; try lra; try lia; try reflexivity.
  - right. left. reflexivity.
  - left. reflexivity.
  - intros c en Hc Hen Hi. cbn [In] in Hc. destruct Hc as [<-|[<-|[]]]; cbn [In] in Hen.
    + destruct Hen as [<-|[<-|[<-|[]]]]; cbn [fst] in Hi; discriminate.
    + destruct Hen.
  - intros en Hen. cbn [nth In] in Hen. destruct Hen.
  - intros c en Hc Hen Hi. cbn [In] in Hc. destruct Hc as [<-|[<-|[]]]; cbn [In] in Hen.
    + destruct Hen as [<-|[]]. cbn [fst] in Hi. discriminate.
    + destruct Hen.
  - intros en Hen. cbn [nth In] in Hen. destruct Hen.
  - unfold getR. cbn. ring.
Qed.

(** ... and the theorems applied to it: d_1 = 1, e_0 = 1, e constant and positive on the
    second-order cone rows 1..3, all factors within [1e-4, 1e4]. *)
Example C10_instance_consequences :
  let r := setup OpsR exS exCones exP exq exA exb in
  nthR (ed (peq r)) 1 = 1 /\ nthR (ee (peq r)) 0 = 1 /\
  (exists mu, 0 < mu /\ forall i, (1 <= i < 4)%nat -> nthR (ee (peq r)) i = mu) /\
  within (1 / 10000) 10000 (nthR (ed (peq r)) 0) /\
  getR (pA r) 1 0 = nthR (ee (peq r)) 1 * 1000000 * nthR (ed (peq r)) 0.
Proof.
  destruct C10_hypotheses_met as (HS & H1 & Hen & Hit & WF & (U1 & U2 & U3) & (Z1 & Z2 & Z3) & (C0 & C1 & C2 & C3) & G).
  cbv zeta. split; [|split; [|split; [|split]]].
  - apply (C10_zero_col_unscaled exS exCones exP exq exA exb HS H1 WF 1%nat C0 C1 C2 C3).
  - apply (C10_zero_row_unscaled exS exCones exP exq exA exb HS H1 WF KNonneg 0%nat 1%nat 0%nat Z1 Z2);
      [lia | cbn; lia | exact Z3].
  - destruct (C10_cone_uniform exS exCones exP exq exA exb HS Hen WF KSoc 1%nat 3%nat U1 U2 U3) as [mu [Hmu Hall]].
    exists mu. split; [exact Hmu|]. intros i Hi. apply Hall. lia.
  - destruct (C10_equil_bounds exS exCones exP exq exA exb HS H1 WF) as (Bd & _).
    apply (Bd 0%nat). cbn. lia.
  - destruct (C10_equil_exact exS exCones exP exq exA exb WF) as (_ & _ & _ & _ & _ & _ & _ & _ & _ & XA & _).
    rewrite (XA 1%nat 0%nat) by (cbn; lia). rewrite G. reflexivity.
Qed.
