(** C14 — nonsymmetric-cone barrier calculus matches the cones' mathematical definitions.
    Only statements closed by [exact]; the statements are the [stmt_...] definitions of
    Nonsym/Spec.v (cones, dual cones and dual barriers written by hand there); proofs are in
    Nonsym/Lemmas*.v.  The model (Nonsym/Model.v, a line-by-line transcription of the Rust
    functions) is interpreted over the reals ([TOpsR]); the same terms are run at binary64
    against the Rust code by the correspondence check.

    Partial items:
    - generalised power cone: gradient, Hessian (the dense matrix D + pp' - qq' - rr' of the stored
      vectors, [gpHuu]/[gpHuw]/[gpHww]) and the degree identity <grad,z> = -(dim1+1) are proved
      in general dimension, as are H z = -grad through the model of mul_Hs ([C14_gp_Hz]) and the
      acceptance test of update_scaling.  Not proved: that [gp_mul_Hs] multiplies by exactly
      that dense matrix for arbitrary x (definitional: D x + p (p.x) - q (q.x) - r (r.x)).
      Conjugacy of the primal gradient is FALSE of the code for dim2 > 0
      ([C14_gp_primal_grad_conjugate_refuted], known finding F4); the positive statement for
      the repaired function is not proved;
    - convergence of the Newton-Raphson iterations is not proved: the conjugacy theorems take
      the equation they solve as a hypothesis; the Wright-omega iteration is enclosed on
      [0, 1000] only ([C14_wright_omega_enclosure], exact real arithmetic). *)
From Coq Require Import Reals List.
From Coquelicot Require Import Coquelicot.
Import ListNotations.
Require Import Clarabel.Base.Ops Clarabel.Nonsym.Model Clarabel.Nonsym.FloatTrans Clarabel.Nonsym.Spec.
Require Import Clarabel.Nonsym.LemmasExp Clarabel.Nonsym.LemmasPow Clarabel.Nonsym.LemmasAlg
               Clarabel.Nonsym.LemmasConj Clarabel.Nonsym.LemmasThird Clarabel.Nonsym.LemmasThirdPow
               Clarabel.Nonsym.LemmasGp Clarabel.Nonsym.LemmasPow2 Clarabel.Nonsym.LemmasPowConj
               Clarabel.Nonsym.LemmasGpD Clarabel.Nonsym.LemmasGpGen Clarabel.Nonsym.LemmasPd2
               Clarabel.Nonsym.LemmasWright Clarabel.Nonsym.LemmasStep Clarabel.Nonsym.LemmasGpHz
               Clarabel.Nonsym.LemmasGpF4.

(* membership predicates = interior of the cone / dual cone *)
Theorem C14_exp_primal_feasible_iff : stmt_exp_primal_feasible_iff.
Proof. exact exp_primal_feasible_iff_ok. Qed.
Theorem C14_exp_dual_feasible_iff : stmt_exp_dual_feasible_iff.
Proof. exact exp_dual_feasible_iff_ok. Qed.
Theorem C14_pow_primal_feasible_iff : stmt_pow_primal_feasible_iff.
Proof. exact pow_primal_feasible_iff_ok. Qed.
Theorem C14_pow_dual_feasible_iff : stmt_pow_dual_feasible_iff.
Proof. exact pow_dual_feasible_iff_ok. Qed.
Theorem C14_gp_primal_feasible_iff : stmt_gp_primal_feasible_iff.
Proof. exact gp_primal_feasible_iff_ok. Qed.
Theorem C14_gp_dual_feasible_iff : stmt_gp_dual_feasible_iff.
Proof. exact gp_dual_feasible_iff_ok. Qed.
(* the code's barrier is the documented barrier *)
Theorem C14_exp_barrier_dual_eq : stmt_exp_barrier_dual_eq.
Proof. exact exp_barrier_dual_eq_ok. Qed.
Theorem C14_pow_barrier_dual_eq : stmt_pow_barrier_dual_eq.
Proof. exact pow_barrier_dual_eq_ok. Qed.
(* stored gradient / Hessian = first / second derivatives of the dual barrier *)
Theorem C14_exp_grad_is_derivative : stmt_exp_grad_is_derivative.
Proof. exact exp_grad_is_derivative_ok. Qed.
Theorem C14_exp_hess_is_derivative : stmt_exp_hess_is_derivative.
Proof. exact exp_hess_is_derivative_ok. Qed.
Theorem C14_pow_grad_is_derivative : stmt_pow_grad_is_derivative.
Proof. exact pow_grad_is_derivative_ok. Qed.
Theorem C14_pow_hess_is_derivative : stmt_pow_hess_is_derivative.
Proof. exact pow_hess_is_derivative_ok. Qed.
(* logarithmic homogeneity: <grad,z> = -3, H z = -grad *)
Theorem C14_exp_log_homogeneous : stmt_exp_log_homogeneous.
Proof. exact exp_log_homogeneous_ok. Qed.
Theorem C14_pow_log_homogeneous : stmt_pow_log_homogeneous.
Proof. exact pow_log_homogeneous_ok. Qed.
Theorem C14_exp_hess_spd : stmt_exp_hess_spd.
Proof. exact exp_hess_spd_ok. Qed.
(* 3x3 symmetric storage and Cholesky *)
Theorem C14_sym3_mul_dense : stmt_sym3_mul_dense.
Proof. exact sym3_mul_dense_ok. Qed.
Theorem C14_cholesky_3x3 : stmt_cholesky_3x3.
Proof. exact cholesky_3x3_ok. Qed.
(* third-order correction = 1/2 D^3 f*(z)[H^{-1} ds, v] *)
Theorem C14_exp_third_order : stmt_exp_third_order.
Proof. exact exp_third_order_ok. Qed.
Theorem C14_pow_hess_spd : stmt_pow_hess_spd.
Proof. exact pow_hess_spd_ok. Qed.
Theorem C14_pow_third_order : stmt_pow_third_order.
Proof. exact pow_third_order_ok. Qed.
(* primal gradient = conjugate map, given the omega equation *)
Theorem C14_exp_primal_grad_conjugate : stmt_exp_primal_grad_conjugate.
Proof. exact exp_primal_grad_conjugate_ok. Qed.
Theorem C14_pow_primal_grad_conjugate : stmt_pow_primal_grad_conjugate.
Proof. exact pow_primal_grad_conjugate_ok. Qed.
(* generalised power cone, all dimensions: gradient, Hessian structure, degree *)
Theorem C14_gp_grad_is_derivative : stmt_gp_grad_is_derivative.
Proof. exact gp_grad_is_derivative_ok. Qed.
Theorem C14_gp_hess_is_derivative : stmt_gp_hess_is_derivative.
Proof. exact gp_hess_is_derivative_ok. Qed.
Theorem C14_gp_log_homogeneous : stmt_gp_log_homogeneous.
Proof. exact gp_log_homogeneous_ok. Qed.
(* H z = -grad through the model of mul_Hs; update_scaling accepts exactly int K* *)
Theorem C14_gp_Hz : stmt_gp_Hz.
Proof. exact gp_Hz_ok. Qed.
Theorem C14_gp_update_scaling_iff : stmt_gp_update_scaling_iff.
Proof. exact gp_update_scaling_iff_ok. Qed.
(* finding F4 on the model of the code as it is: not the conjugate map *)
Theorem C14_gp_primal_grad_conjugate_refuted :
  exists al u w stored_r, gp_interior al u w /\
    ~ gp_conjugate_w (gp_gradient_primal_F4 TOpsR stored_r al u w) al w.
Proof. exact gp_primal_grad_conjugate_refuted. Qed.
(* the Wright-omega iteration solves w + ln w = z to 1e-6 for every z in [1, 1000] *)
Theorem C14_wright_omega_enclosure : forall z, (0 <= z <= 1000)%R -> wright_residual_ok z.
Proof. exact wright_omega_enclosure. Qed.
(* primal-dual scaling: secant equations, semidefiniteness, fall-back mu H *)
Theorem C14_pd_scaling : stmt_pd_scaling.
Proof. exact pd_scaling_ok. Qed.
Theorem C14_pd_scaling_strict : stmt_pd_scaling_strict.
Proof. exact pd_scaling_strict_ok. Qed.
Theorem C14_update_Hs_dual : stmt_update_Hs_dual.
Proof. exact update_Hs_dual_ok. Qed.
(* nonsymmetric step safety: backtrack_search with the cones' membership tests *)
Theorem C14_nonsym_step_safe : stmt_nonsym_step_safe.
Proof. exact nonsym_step_safe_ok. Qed.
Theorem C14_backtrack_log_bound : stmt_backtrack_log_bound.
Proof. exact backtrack_log_bound_ok. Qed.
(* starting points *)
Theorem C14_pow_unit_init_central : stmt_pow_unit_init_central.
Proof. exact pow_unit_init_central_ok. Qed.
Theorem C14_exp_unit_init_central : stmt_exp_unit_init_central.
Proof. exact exp_unit_init_central_ok. Qed.
Theorem C14_gp_unit_init_central : stmt_gp_unit_init_central.
Proof. exact gp_unit_init_central_ok. Qed.
(* non-vacuity of the interior hypotheses *)
Theorem C14_examples :
  exp_dual_int (-1, 0, 1)%R /\ exp_primal_int (0, 1, 2)%R /\ pow_dual_int (1 / 4)%R (1, 1, 1)%R /\
  gp_interior [1 / 4; 3 / 4]%R [1; 1]%R [1]%R.
Proof.
  exact (conj exp_dual_int_example (conj exp_primal_int_example (conj pow_dual_int_example gp_interior_example))).
Qed.
