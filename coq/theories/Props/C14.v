(** C14 — nonsymmetric-cone barrier calculus matches the cones' mathematical definitions.
    Only statements closed by [exact]; the statements are the [stmt_...] definitions of
    Nonsym/Spec.v (cones, dual cones and dual barriers written by hand there); proofs are in
    Nonsym/Lemmas*.v.  The model (Nonsym/Model.v, a line-by-line transcription of the Rust
    functions) is interpreted over the reals ([TOpsR]); the same terms are run at binary64
    against the Rust code by the correspondence check.

    Partial items:
    - generalised power cone: the stored gradient is proved to be the derivative of the dual
      barrier only for (dim1, dim2) in {(2,1), (2,2), (3,1)} ([C14_gp_grad_is_derivative_d.._partial]);
      the general-dimension statement, the Hessian representation D + pp' - qq' - rr' and the
      conjugacy of its primal gradient are not proved (per-sample checks only; the primal
      gradient is in fact NOT the conjugate map for dim2 > 0: known finding F4);
    - [C14_pd_scaling]: Hs is proved symmetric positive semidefinite with kernel inside the
      {s, delta_s}-orthogonal complement; strict definiteness needs t > 0 and independence of
      the three directions and is not proved;
    - convergence of the Wright-omega / Newton-Raphson iterations is not proved: the conjugacy
      theorems take the equation they solve as a hypothesis. *)
From Coq Require Import Reals List.
From Coquelicot Require Import Coquelicot.
Import ListNotations.
Require Import Clarabel.Base.Ops Clarabel.Nonsym.Model Clarabel.Nonsym.FloatTrans Clarabel.Nonsym.Spec.
Require Import Clarabel.Nonsym.LemmasExp Clarabel.Nonsym.LemmasPow Clarabel.Nonsym.LemmasAlg
               Clarabel.Nonsym.LemmasConj Clarabel.Nonsym.LemmasThird Clarabel.Nonsym.LemmasThirdPow
               Clarabel.Nonsym.LemmasGp Clarabel.Nonsym.LemmasPow2 Clarabel.Nonsym.LemmasPowConj
               Clarabel.Nonsym.LemmasGpD.

(* membership predicates = interior of the cone / dual cone *)
Theorem C14_exp_primal_feasible_iff : stmt_exp_primal_feasible_iff.
Proof. exact exp_primal_feasible_iff_ok. Qed.
Theorem C14_exp_dual_feasible_iff : stmt_exp_dual_feasible_iff.
Proof. exact exp_dual_feasible_iff_ok. Qed.
Theorem C14_pow_primal_feasible_iff : stmt_pow_primal_feasible_iff.
Proof. exact pow_primal_feasible_iff_ok. Qed.
Theorem C14_pow_dual_feasible_iff : stmt_pow_dual_feasible_iff.
Proof. exact pow_dual_feasible_iff_ok. Qed.
Theorem C14_gp_primal_feasible_iff : stmt_gp_primal_feasible_iff.
Proof. exact gp_primal_feasible_iff_ok. Qed.
Theorem C14_gp_dual_feasible_iff : stmt_gp_dual_feasible_iff.
Proof. exact gp_dual_feasible_iff_ok. Qed.
(* the code's barrier is the documented barrier *)
Theorem C14_exp_barrier_dual_eq : stmt_exp_barrier_dual_eq.
Proof. exact exp_barrier_dual_eq_ok. Qed.
Theorem C14_pow_barrier_dual_eq : stmt_pow_barrier_dual_eq.
Proof. exact pow_barrier_dual_eq_ok. Qed.
(* stored gradient / Hessian = first / second derivatives of the dual barrier *)
Theorem C14_exp_grad_is_derivative : stmt_exp_grad_is_derivative.
Proof. exact exp_grad_is_derivative_ok. Qed.
Theorem C14_exp_hess_is_derivative : stmt_exp_hess_is_derivative.
Proof. exact exp_hess_is_derivative_ok. Qed.
Theorem C14_pow_grad_is_derivative : stmt_pow_grad_is_derivative.
Proof. exact pow_grad_is_derivative_ok. Qed.
Theorem C14_pow_hess_is_derivative : stmt_pow_hess_is_derivative.
Proof. exact pow_hess_is_derivative_ok. Qed.
(* logarithmic homogeneity: <grad,z> = -3, H z = -grad *)
Theorem C14_exp_log_homogeneous : stmt_exp_log_homogeneous.
Proof. exact exp_log_homogeneous_ok. Qed.
Theorem C14_pow_log_homogeneous : stmt_pow_log_homogeneous.
Proof. exact pow_log_homogeneous_ok. Qed.
Theorem C14_exp_hess_spd : stmt_exp_hess_spd.
Proof. exact exp_hess_spd_ok. Qed.
(* 3x3 symmetric storage and Cholesky *)
Theorem C14_sym3_mul_dense : stmt_sym3_mul_dense.
Proof. exact sym3_mul_dense_ok. Qed.
Theorem C14_cholesky_3x3 : stmt_cholesky_3x3.
Proof. exact cholesky_3x3_ok. Qed.
(* third-order correction = 1/2 D^3 f*(z)[H^{-1} ds, v] *)
Theorem C14_exp_third_order : stmt_exp_third_order.
Proof. exact exp_third_order_ok. Qed.
Theorem C14_pow_hess_spd : stmt_pow_hess_spd.
Proof. exact pow_hess_spd_ok. Qed.
Theorem C14_pow_third_order : stmt_pow_third_order.
Proof. exact pow_third_order_ok. Qed.
(* primal gradient = conjugate map, given the omega equation *)
Theorem C14_exp_primal_grad_conjugate : stmt_exp_primal_grad_conjugate.
Proof. exact exp_primal_grad_conjugate_ok. Qed.
Theorem C14_pow_primal_grad_conjugate : stmt_pow_primal_grad_conjugate.
Proof. exact pow_primal_grad_conjugate_ok. Qed.
(* genpow gradient = derivative of the dual barrier, fixed small dimensions *)
Theorem C14_gp_grad_is_derivative_d21_partial : forall a b u0 u1 w0,
  (0 < a -> 0 < b -> 0 < u0 -> 0 < u1 -> 0 < gp_zeta [a; b] [u0; u1] [w0] ->
  let d := gp_grad_H TOpsR [a; b] [u0; u1] [w0] in
  is_derive (fun t => gp_fstar [a; b] [t; u1] [w0]) u0 (nth 0 (gp_grad_u d) 0) /\
  is_derive (fun t => gp_fstar [a; b] [u0; t] [w0]) u1 (nth 1 (gp_grad_u d) 0) /\
  is_derive (fun t => gp_fstar [a; b] [u0; u1] [t]) w0 (nth 0 (gp_grad_w d) 0))%R.
Proof. exact gp_grad_is_derivative_d21_partial. Qed.
Theorem C14_gp_grad_is_derivative_d22_partial : forall a b u0 u1 w0 w1,
  (0 < a -> 0 < b -> 0 < u0 -> 0 < u1 -> 0 < gp_zeta [a; b] [u0; u1] [w0; w1] ->
  let d := gp_grad_H TOpsR [a; b] [u0; u1] [w0; w1] in
  is_derive (fun t => gp_fstar [a; b] [t; u1] [w0; w1]) u0 (nth 0 (gp_grad_u d) 0) /\
  is_derive (fun t => gp_fstar [a; b] [u0; t] [w0; w1]) u1 (nth 1 (gp_grad_u d) 0) /\
  is_derive (fun t => gp_fstar [a; b] [u0; u1] [t; w1]) w0 (nth 0 (gp_grad_w d) 0) /\
  is_derive (fun t => gp_fstar [a; b] [u0; u1] [w0; t]) w1 (nth 1 (gp_grad_w d) 0))%R.
Proof. exact gp_grad_is_derivative_d22_partial. Qed.
Theorem C14_gp_grad_is_derivative_d31_partial : forall a b c u0 u1 u2 w0,
  (0 < a -> 0 < b -> 0 < c -> 0 < u0 -> 0 < u1 -> 0 < u2 ->
  0 < gp_zeta [a; b; c] [u0; u1; u2] [w0] ->
  let d := gp_grad_H TOpsR [a; b; c] [u0; u1; u2] [w0] in
  is_derive (fun t => gp_fstar [a; b; c] [t; u1; u2] [w0]) u0 (nth 0 (gp_grad_u d) 0) /\
  is_derive (fun t => gp_fstar [a; b; c] [u0; t; u2] [w0]) u1 (nth 1 (gp_grad_u d) 0) /\
  is_derive (fun t => gp_fstar [a; b; c] [u0; u1; t] [w0]) u2 (nth 2 (gp_grad_u d) 0) /\
  is_derive (fun t => gp_fstar [a; b; c] [u0; u1; u2] [t]) w0 (nth 0 (gp_grad_w d) 0))%R.
Proof. exact gp_grad_is_derivative_d31_partial. Qed.
(* primal-dual scaling: secant equations, semidefiniteness, fall-back mu H *)
Theorem C14_pd_scaling : stmt_pd_scaling.
Proof. exact pd_scaling_ok. Qed.
Theorem C14_update_Hs_dual : stmt_update_Hs_dual.
Proof. exact update_Hs_dual_ok. Qed.
(* starting points *)
Theorem C14_pow_unit_init_central : stmt_pow_unit_init_central.
Proof. exact pow_unit_init_central_ok. Qed.
Theorem C14_exp_unit_init_central : stmt_exp_unit_init_central.
Proof. exact exp_unit_init_central_ok. Qed.
Theorem C14_gp_unit_init_central : stmt_gp_unit_init_central.
Proof. exact gp_unit_init_central_ok. Qed.
(* non-vacuity of the interior hypotheses *)
Theorem C14_example_exp_dual : exp_dual_int (-1, 0, 1)%R.
Proof. exact exp_dual_int_example. Qed.
Theorem C14_example_exp_primal : exp_primal_int (0, 1, 2)%R.
Proof. exact exp_primal_int_example. Qed.
Theorem C14_example_pow_dual : pow_dual_int (1 / 4)%R (1, 1, 1)%R.
Proof. exact pow_dual_int_example. Qed.
