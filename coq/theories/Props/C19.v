(** C19 -- saving a problem to JSON and loading it back reproduces the problem.
    Only statements closed by [exact]; the statements are the [stmt_*] definitions of
    Json/Spec.v, the proofs are in Json/Lemmas*.v.  The JSON text layer (serde_json) is
    not modelled: the theorems are about the document structure, the settings
    sanitisation, the un-scaling arithmetic and the validation / constructor assertions.

    Not proved (observed by the correspondence run only): "solving the loaded problem gives
    the same verdict and objective", and the size of the rounding error of one
    scale / unscale round trip in binary64 (bound (6k+8) 2^-52 derived by counting roundings).
    [C19_save_exact_when_disabled] is stated for any arithmetic with x*1 = x, 1/1 = 1
    ([UnitLaws]); binary64 satisfies these laws ([C19_mul_one_binary64], proved from the
    primitive-float specification through Flocq's Bmult_correct; Coq's floats have a single
    NaN, so the equality covers NaN too), hence [C19_save_exact_binary64] has no
    arithmetic hypothesis left. *)
From Coq Require Import List ZArith NArith String Floats Reals.
Require Import Clarabel.Base.Ops Clarabel.Json.Model Clarabel.Json.Spec.
Require Import Clarabel.Json.Lemmas Clarabel.Json.LemmasCodec Clarabel.Json.LemmasSave Clarabel.Json.LemmasFloat.

(** document structure *)
Theorem C19_decode_encode : stmt_decode_encode.
Proof. exact (@decode_encode_ok). Qed.
(** settings *)
Theorem C19_settings_roundtrip : stmt_settings_roundtrip.
Proof. exact (@settings_roundtrip_ok). Qed.
Theorem C19_settings_roundtrip_refuted_max : stmt_settings_roundtrip_refuted_max.
Proof. exact settings_roundtrip_refuted_max_ok. Qed.
Theorem C19_settings_nonfinite_refuted : stmt_settings_nonfinite_refuted.
Proof. exact settings_nonfinite_refuted_ok. Qed.
Theorem C19_const_laws_binary64 : ConstLaws OpsF infinity 0x1.fffffffffffffp+1023%float.
Proof. exact const_laws_binary64. Qed.
(** un-equilibration *)
Theorem C19_save_undoes_equilibration : stmt_save_undoes_equilibration.
Proof. exact (fun T O finf fmax d e c P q A b cones s F => @save_undoes_equilibration_ok T O finf fmax F d e c P q A b cones s). Qed.
Theorem C19_save_data_ignores_settings : stmt_save_data_ignores_settings.
Proof. exact save_data_ignores_settings_ok. Qed.
Theorem C19_save_exact_when_disabled : stmt_save_exact_when_disabled.
Proof. exact (@save_exact_when_disabled_ok). Qed.
Theorem C19_mul_one_binary64 : forall x : float, (x * 1)%float = x /\ (x * (1 / 1))%float = x.
Proof. exact (fun x => conj (mul_one_r_binary64 x) (mul_recip_one_binary64 x)). Qed.
Theorem C19_unit_laws_binary64 : UnitLaws OpsF.
Proof. exact unit_laws_binary64. Qed.
Theorem C19_save_exact_binary64 : stmt_save_exact_binary64.
Proof. exact save_exact_binary64_ok. Qed.
Theorem C19_field_laws_R : FieldLaws OpsR.
Proof. exact field_laws_R. Qed.
Theorem C19_unit_laws_R : UnitLaws OpsR.
Proof. exact unit_laws_R. Qed.
Theorem C19_unit_laws_Z : UnitLaws OpsZ.
Proof. exact unit_laws_Z. Qed.
(** load *)
Theorem C19_override_wins : stmt_override_wins.
Proof. exact (@override_wins_ok). Qed.
Theorem C19_stored_settings_used : stmt_stored_settings_used.
Proof. exact (@stored_settings_used_ok). Qed.
Theorem C19_load_validates_effective_settings : stmt_load_validates_effective_settings.
Proof. exact (@load_validates_effective_settings_ok). Qed.
Theorem C19_override_ignores_stored_settings : stmt_override_ignores_stored_settings.
Proof. exact (@override_ignores_stored_settings_ok). Qed.
Theorem C19_load_total_no_panic : stmt_load_total_no_panic.
Proof. exact (@load_total_no_panic_ok). Qed.
Theorem C19_load_panics_refuted : stmt_load_panics_refuted.
Proof. exact load_panics_refuted_ok. Qed.
Theorem C19_load_ok_valid : stmt_load_ok_valid.
Proof. exact (@load_ok_valid_ok). Qed.
Theorem C19_string_sites_agree : stmt_string_sites_agree.
Proof. exact string_sites_agree_ok. Qed.
Theorem C19_load_ok_consumers_accept : stmt_load_ok_consumers_accept.
Proof. exact (@load_ok_consumers_accept_ok). Qed.
(** cones as saved *)
Theorem C19_collapse_idempotent : stmt_collapse_idempotent.
Proof. exact (@collapse_idempotent_ok). Qed.
Theorem C19_collapse_nvars : stmt_collapse_nvars.
Proof. exact (@collapse_nvars_ok). Qed.
Theorem C19_collapse_identity_iff : stmt_collapse_identity_iff.
Proof. exact (@collapse_identity_iff_ok). Qed.
Theorem C19_cap_b_identity : stmt_cap_b_identity.
Proof. exact (@cap_b_identity_ok). Qed.
Theorem C19_b_literal_refuted : stmt_b_literal_refuted.
Proof. exact b_literal_refuted_ok. Qed.
Theorem C19_cones_literal_refuted : stmt_cones_literal_refuted.
Proof. exact cones_literal_refuted_ok. Qed.

(** non-vacuity: a concrete problem with every cone variant meets the hypotheses of
    [C19_decode_encode]; settings with an infinite time_limit meet those of
    [C19_settings_roundtrip] *)
Example C19_example_problem_ok : problem_ok OpsF infinity example_problem.
Proof. exact example_problem_ok. Qed.
Example C19_example_roundtrip : decode OpsF infinity (encode OpsF infinity example_problem) = Ok example_problem.
Proof. exact (C19_decode_encode _ _ _ _ example_problem_ok). Qed.
Example C19_example_settings_ok : settings_user_ok OpsF infinity FMAX (settings_tl infinity).
Proof. exact example_settings_user_ok. Qed.
