(** C03 — the solver's report about its own result is truthful.
    Statements as printed by Coq from the lemmas of Term/*.v (proofs there); each theorem is closed by
    [exact].  Spec predicates: Term/Spec.v; checkers: Term/Check.v; model: Term/Model.v. *)
From Coq Require Import List ZArith NArith Reals Bool.
Import ListNotations.
Require Import Clarabel.Base.Ops Clarabel.Base.Dyadic Clarabel.Term.Eval Clarabel.Term.Model
        Clarabel.Term.Spec Clarabel.Term.Check.
Require Import Clarabel.Term.LemmasVerdict Clarabel.Term.LemmasCheck Clarabel.Term.LemmasCheck2
        Clarabel.Term.LemmasExp Clarabel.Term.LemmasPsd Clarabel.Term.LemmasFinal
        Clarabel.Term.LemmasAlg Clarabel.Term.Farkas Clarabel.Term.LemmasMisc
        Clarabel.Term.FarkasGen Clarabel.Term.PairExp Clarabel.Term.PairPow Clarabel.Term.PairPsd Clarabel.Term.FarkasAll Clarabel.Term.LemmasRollback.

Theorem C03_case_report_sound :
  forall (p : prob) (se : setD) (o : outD),
         is_infeasible (o_st o) = false -> case_report p se o = Holds -> ReportNonInf p se o.
Proof. exact @LemmasFinal.case_report_sound. Qed.

Theorem C03_info_cost_primal :
  forall (d e : list R) (c : R),
         (0 < c)%R ->
         forall (P A : smat R) (q b : list R) (normb normq : R) (xh sh zh : list R) 
           (tau kap : R) (i0 : info) (time : R),
         (0 < tau)%R ->
         cost_primal
           (info_update OpsR i0 (equil_data d e c P A q b normb normq)
              {| vx := xh; vs := sh; vz := zh; vtau := tau; vkap := kap |}
              (residuals_update OpsR {| vx := xh; vs := sh; vz := zh; vtau := tau; vkap := kap |}
                 (equil_data d e c P A q b normb normq)) time) = (cost_p2 OpsR P q (un_x d xh tau) / 2)%R.
Proof. exact @LemmasAlg.info_cost_primal. Qed.

Theorem C03_info_cost_dual :
  forall (d e : list R) (c : R),
         (0 < c)%R ->
         forall (P A : smat R) (q b : list R) (normb normq : R) (xh sh zh : list R) 
           (tau kap : R) (i0 : info) (time : R),
         (0 < tau)%R ->
         cost_dual
           (info_update OpsR i0 (equil_data d e c P A q b normb normq)
              {| vx := xh; vs := sh; vz := zh; vtau := tau; vkap := kap |}
              (residuals_update OpsR {| vx := xh; vs := sh; vz := zh; vtau := tau; vkap := kap |}
                 (equil_data d e c P A q b normb normq)) time) =
         (cost_d2 OpsR P b (un_x d xh tau) (un_z e c zh tau) / 2)%R.
Proof. exact @LemmasAlg.info_cost_dual. Qed.

Theorem C03_info_res_primal :
  forall (d e : list R) (c : R),
         allpos e ->
         forall (P A : smat R) (q b : list R) (normb normq : R) (xh sh zh : list R) 
           (tau kap : R) (i0 : info) (time : R),
         (0 < tau)%R ->
         res_primal
           (info_update OpsR i0 (equil_data d e c P A q b normb normq)
              {| vx := xh; vs := sh; vz := zh; vtau := tau; vkap := kap |}
              (residuals_update OpsR {| vx := xh; vs := sh; vz := zh; vtau := tau; vkap := kap |}
                 (equil_data d e c P A q b normb normq)) time) =
         (norm2 (res_p OpsR A b (un_x d xh tau) (un_s e sh tau)) /
          Rmax 1 (normb + norm2 (un_x d xh tau) + norm2 (un_s e sh tau)))%R.
Proof. exact @LemmasAlg.info_res_primal. Qed.

Theorem C03_info_res_dual :
  forall (d e : list R) (c : R),
         allpos d ->
         (0 < c)%R ->
         forall (P A : smat R) (q b : list R) (normb normq : R) (xh sh zh : list R) (tau kap : R) (n : nat),
         length d = n ->
         length q = n ->
         forall (i0 : info) (time : R),
         (0 < tau)%R ->
         res_dual
           (info_update OpsR i0 (equil_data d e c P A q b normb normq)
              {| vx := xh; vs := sh; vz := zh; vtau := tau; vkap := kap |}
              (residuals_update OpsR {| vx := xh; vs := sh; vz := zh; vtau := tau; vkap := kap |}
                 (equil_data d e c P A q b normb normq)) time) =
         (norm2 (res_d OpsR P A q (un_x d xh tau) (un_z e c zh tau)) /
          Rmax 1 (normq + norm2 (un_x d xh tau) + norm2 (un_z e c zh tau)))%R.
Proof. exact @LemmasAlg.info_res_dual. Qed.

Theorem C03_almost_solved_sound :
  forall (i : info) (bz qx : R) (se : settings),
         st (info_post_process OpsR i bz qx se) = St_AlmostSolved ->
         st i <> St_AlmostSolved ->
         (ktratio i <= 1)%R /\
         ((gap_abs i < red_gap_abs se)%R \/ (gap_rel i < red_gap_rel se)%R) /\
         (res_primal i < red_feas se)%R /\ (res_dual i < red_feas se)%R.
Proof. exact @LemmasAlg.post_process_almost_sound. Qed.

Theorem C03_almost_pinf_sound :
  forall (i : info) (bz qx : R) (se : settings),
         st (info_post_process OpsR i bz qx se) = St_AlmostPrimalInfeasible ->
         st i <> St_AlmostPrimalInfeasible ->
         (bz < - red_infeas_abs se)%R /\
         (res_primal_inf i < - red_infeas_rel se * bz)%R /\ (1 / red_ktratio se * 1000 < ktratio i)%R.
Proof. exact @LemmasAlg.post_process_almost_pinf_sound. Qed.

Theorem C03_almost_dinf_sound :
  forall (i : info) (bz qx : R) (se : settings),
         st (info_post_process OpsR i bz qx se) = St_AlmostDualInfeasible ->
         st i <> St_AlmostDualInfeasible ->
         (qx < - red_infeas_abs se)%R /\
         (res_dual_inf i < - red_infeas_rel se * qx)%R /\ (1 / red_ktratio se * 1000 < ktratio i)%R.
Proof. exact @LemmasAlg.post_process_almost_dinf_sound. Qed.

Theorem C03_post_process_keeps_full :
  forall (i : info) (bz qx : R) (se : settings),
         st i = St_Solved \/ st i = St_PrimalInfeasible \/ st i = St_DualInfeasible ->
         info_post_process OpsR i bz qx se = i.
Proof. exact @LemmasAlg.post_process_keeps_full. Qed.

Theorem C03_reverse_rows_length :
  forall (X : Type) (keep : list bool) (red : list X) (fill : X),
         length (reverse_rows keep red fill) = length keep.
Proof. exact @LemmasAlg.reverse_rows_length. Qed.

Theorem C03_lengths_keep :
  forall (d : data) (v : vars) (i : info) (infb : R) (keep : list bool),
         let sol := solution_post_process OpsR d v i (Some keep) infb in
         length (sol_s sol) = length keep /\ length (sol_z sol) = length keep.
Proof. exact @LemmasAlg.solution_keep_lengths. Qed.

Theorem C03_lengths_nokeep :
  forall (d : data) (v : vars) (i : info) (infb : R),
         length (deinv d) = length (vs v) ->
         length (de_ d) = length (vz v) ->
         let sol := solution_post_process OpsR d v i None infb in
         length (sol_s sol) = length (vs v) /\ length (sol_z sol) = length (vz v).
Proof. exact @LemmasAlg.solution_nokeep_lengths. Qed.

Theorem C03_keep_sel :
  forall (d : data) (v : vars) (i : info) (infb : R) (keep : list bool),
         let u := unscale OpsR v d (is_infeasible (st i)) in
         let sol := solution_post_process OpsR d v i (Some keep) infb in
         count_true keep = length (vs u) ->
         count_true keep = length (vz u) ->
         sol_x sol = vx u /\
         sel keep (sol_s sol) = vs u /\
         sel keep (sol_z sol) = vz u /\
         Forall (fun a : R => a = infb) (sel (map negb keep) (sol_s sol)) /\
         Forall (fun a : R => a = 0%R) (sel (map negb keep) (sol_z sol)) /\ sol_status sol = st i.
Proof. exact @LemmasAlg.solution_keep_sel. Qed.

Theorem C03_report_fields :
  forall (T : Type) (O : Ops T) (d : data) (v : vars) (i : info) (keep : option (list bool)) (infb : T),
         let sol := solution_post_process O d v i keep infb in
         (obj_val sol = None <-> is_infeasible (st i) = true) /\
         (obj_val_dual sol = None <-> is_infeasible (st i) = true) /\
         sol_status sol = st i /\
         sol_iterations sol = iterations i /\ r_prim sol = res_primal i /\ r_dual sol = res_dual i.
Proof. exact @LemmasMisc.objectives_nan_iff. Qed.

Theorem C03_rollback_restores :
  forall (T : Type) (O : Ops T) (i0 : info) (d : data) (v : vars) (r : resid) 
           (time bz qx : T) (se : settings) (iter : nat),
         let i1 := save_prev_iterate i0 in
         let i2 := info_update O i1 d v r time in
         let i3 := check_termination O i2 bz qx se iter in
         let i4 := reset_to_prev_iterate i3 in
         cost_primal i4 = cost_primal i0 /\
         cost_dual i4 = cost_dual i0 /\
         res_primal i4 = res_primal i0 /\
         res_dual i4 = res_dual i0 /\ gap_abs i4 = gap_abs i0 /\ gap_rel i4 = gap_rel i0.
Proof. exact @LemmasRollback.rollback_restores. Qed.

Theorem C03_rollback_ip_ktratio :
  forall (i : info) (bz qx : R) (se : settings) (iter : nat),
         st i = St_Unsolved ->
         (eps100 se <= 1)%R ->
         st (check_termination OpsR i bz qx se iter) = St_InsufficientProgress -> (ktratio i < 1)%R.
Proof. exact @LemmasRollback.check_termination_ip_ktratio. Qed.

Theorem C03_rollback_no_almost_infeasible :
  forall (i : info) (bz qx bz' qx' : R) (se : settings) (iter : nat),
         st i = St_Unsolved ->
         (eps100 se <= 1)%R ->
         (1 <= 1 / red_ktratio se * 1000)%R ->
         st (check_termination OpsR i bz qx se iter) = St_InsufficientProgress ->
         let i2 := reset_to_prev_iterate (check_termination OpsR i bz qx se iter) in
         st (info_post_process OpsR i2 bz' qx' se) = St_AlmostSolved \/
         st (info_post_process OpsR i2 bz' qx' se) = St_InsufficientProgress.
Proof. exact @LemmasRollback.rollback_no_almost_infeasible. Qed.

Theorem C03_rollback_almost_solved_on_restored :
  forall (i : info) (bz qx bz' qx' : R) (se : settings) (iter : nat),
         st i = St_Unsolved ->
         (eps100 se <= 1)%R ->
         (1 <= 1 / red_ktratio se * 1000)%R ->
         st (check_termination OpsR i bz qx se iter) = St_InsufficientProgress ->
         let i2 := reset_to_prev_iterate (check_termination OpsR i bz qx se iter) in
         st (info_post_process OpsR i2 bz' qx' se) = St_AlmostSolved ->
         ((prev_gap_abs i < red_gap_abs se)%R \/ (prev_gap_rel i < red_gap_rel se)%R) /\
         (prev_res_primal i < red_feas se)%R /\ (prev_res_dual i < red_feas se)%R.
Proof. exact @LemmasRollback.rollback_almost_solved_on_restored. Qed.

Theorem C03_rollback_nonvacuous :
  forall bz qx bz' qx' : R,
         st
           (info_post_process OpsR (reset_to_prev_iterate (check_termination OpsR rb_i bz qx rb_se 5)) bz' qx'
              rb_se) = St_AlmostSolved.
Proof. exact @LemmasRollback.rb_rollback_almost_solved. Qed.

