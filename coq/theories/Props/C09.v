(** C09 — infinite bounds are removed and restored transparently.
    Only statements closed by [exact]; the statements are the [stmt_*] definitions of
    Presolve/Spec.v (statements only); proofs are in Presolve/Lemmas*.v.  All theorems hold for
    all cone lists, right-hand sides, matrices and histories of any size; those with a
    [Laws O] hypothesis hold over any commutative ring with decidable equality (instances:
    C16_laws_Z, C16_laws_R), the others over any scalar type with any comparison (in particular
    binary64 floats with the hardware comparison, which is what the correspondence executes).
    Non-vacuity examples: Presolve/LemmasBuild.v (ex_build_reduced, ex_capped, ex_band,
    ex_expand, ex_history). *)
From Coq Require Import List ZArith Reals.
Require Import Clarabel.Base.Ops Clarabel.Csc.Model Clarabel.Csc.Spec.
Require Import Clarabel.Presolve.Model Clarabel.Presolve.Spec Clarabel.Presolve.Lemmas.
Require Import Clarabel.Presolve.LemmasCones Clarabel.Presolve.LemmasBuild Clarabel.Presolve.LemmasUnique.
Require Import Clarabel.Presolve.LemmasGlobal Clarabel.Presolve.SemSpec Clarabel.Presolve.LemmasSem.

Theorem C09_keep_map : forall T (O : Ops T), stmt_keep_map O.
Proof. exact @keep_map_ok. Qed.
Theorem C09_at_or_above_dropped : stmt_at_or_above_dropped.
Proof. exact at_or_above_dropped_ok. Qed.
Theorem C09_collapsed : stmt_collapsed.
Proof. exact collapsed_ok. Qed.
Theorem C09_collapsed_nn_rows : stmt_collapsed_nn_rows.
Proof. exact collapsed_nn_rows_ok. Qed.
Theorem C09_reduce_cones : stmt_reduce_cones.
Proof. exact reduce_cones_ok. Qed.
Theorem C09_select : forall T (O : Ops T), stmt_select O.
Proof. exact @select_ok. Qed.
Theorem C09_expand : forall T (O : Ops T), stmt_expand O.
Proof. exact @expand_ok. Qed.
Theorem C09_cap : forall T (O : Ops T), stmt_cap O.
Proof. exact @cap_ok. Qed.
Theorem C09_build_reduced : forall T (O : Ops T), stmt_build_reduced O.
Proof. exact @build_reduced_ok. Qed.
Theorem C09_build_unreduced : forall T (O : Ops T), stmt_build_unreduced O.
Proof. exact @build_unreduced_ok. Qed.
Theorem C09_hand_reduce : stmt_hand_reduce.
Proof. exact hand_reduce_ok. Qed.
Theorem C09_hand_reduce_commutes : stmt_hand_reduce_commutes.
Proof. exact hand_reduce_commutes_ok. Qed.
Theorem C09_dual_neutral : forall T (O : Ops T), stmt_dual_neutral O.
Proof. exact @dual_neutral_ok. Qed.
Theorem C09_bound_captured_at_build : forall T, @stmt_bound_captured T.
Proof. exact @bound_captured_ok. Qed.

(** round 3: the process-global bound with several live solvers; the packaged reverse map;
    the semantic reading of cone collapsing (Presolve/SemSpec.v) *)
Theorem C09_global_cell : forall T (O : Ops T), stmt_gcell O.
Proof. exact @gcell_ok. Qed.
Theorem C09_global_solver_frozen : forall T (O : Ops T), stmt_gfrozen O.
Proof. exact @gfrozen_ok. Qed.
Theorem C09_global_solve_uses_build_bound : forall T (O : Ops T), stmt_gsolve O.
Proof. exact @gsolve_ok. Qed.
Theorem C09_global_update_b : forall T (O : Ops T), stmt_gupdate O.
Proof. exact @gupdate_ok. Qed.
Theorem C09_reverse : forall T (O : Ops T), stmt_reverse O.
Proof. exact @reverse_ok. Qed.
Theorem C09_collapseD_erase : stmt_collapseD_erase.
Proof. exact collapseD_erase_ok. Qed.
Theorem C09_collapse_sem : stmt_collapse_sem.
Proof. exact collapse_sem_ok. Qed.
Theorem C09_collapse_keeps_others : stmt_collapse_keeps_others.
Proof. exact collapse_keeps_others_ok. Qed.
Theorem C09_zero_not_absorbed : stmt_zero_not_absorbed.
Proof. exact zero_not_absorbed_ok. Qed.
