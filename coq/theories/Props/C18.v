(** C18 — chordal decomposition and its reversal preserve the problem and its solution.
    Level: translation validation backed by proved index facts.
    Proved (for EVERY valid clique tree, any size): the combinatorial facts that make the two
    transformations equivalences — every original entry lying in some clique is a non-overlap
    entry of exactly one clique (compact form places it exactly once; its other occurrences are
    overlap entries tied to the parent block), the standard-form H reaches every structural
    nonzero and every diagonal entry and stays inside the cone's rows, the packed-triangle
    index map is injective, the standard reversal returns vectors of the original length and
    reads a singly-covered row from its one block.
    NOT proved here (validated per run instead, see design.d/C18.md): the linear-algebra
    equivalence [std_equiv]/[cmp_equiv], [completion_preserves], and the Agler/Grone
    decomposition-completion theorem (a premise of "same verdict and objective", never an axiom).
    The model (Chordal/Decomp.v) is compared exactly with the implementation on integer data,
    and returned solutions are re-checked against the original problem in exact dyadic
    arithmetic (Chordal/E2E.v). *)
From Coq Require Import List Arith ZArith NArith.
Import ListNotations.
Require Import Clarabel.Chordal.TreeSpec Clarabel.Chordal.TriIndex Clarabel.Chordal.E2E
               Clarabel.Chordal.Decomp Clarabel.Chordal.DecompLemmas.
Require Clarabel.Props.C17.

Theorem C18_cmp_rows_once_unique : forall p t, ValidTree p t ->
  forall u v c d, In c (post t) -> In d (post t) ->
  In u (clique t c) -> In v (clique t c) -> In u (clique t d) -> In v (clique t d) ->
  ~ overlap_in t c u v -> ~ overlap_in t d u v -> c = d.
Proof. exact pair_top_unique. Qed.
Theorem C18_cmp_rows_once_exists : forall p t, ValidTree p t ->
  forall u v c, In c (post t) -> In u (clique t c) -> In v (clique t c) ->
  exists d, In d (post t) /\ In u (clique t d) /\ In v (clique t d) /\ ~ overlap_in t d u v.
Proof. exact pair_top_exists. Qed.
Theorem C18_std_H_covers : forall p t row0, ValidTree p t ->
  forall i j, In (i, j) (pedges p) -> (i <= j)%N ->
  exists c, In c (post t) /\ In (row0 + coord_to_idx (i, j))%N (subblock (ocl t c) row0).
Proof. exact std_H_covers. Qed.
Theorem C18_std_H_covers_diag : forall p t row0, ValidTree p t ->
  forall v, In v (vertices (pn p)) ->
  exists c, In c (post t) /\ In (row0 + coord_to_idx (ord t v, ord t v))%N (subblock (ocl t c) row0).
Proof. exact std_H_covers_diag. Qed.
Theorem C18_subblock_in_range : forall c row0 n, (forall v, In v c -> (v < n)%N) ->
  forall r, In r (subblock c row0) -> (row0 <= r < row0 + tri_number n)%N.
Proof. exact subblock_in_range. Qed.
Theorem C18_std_rev_lengths : forall m HI s1 z1,
  length (std_rev_s m HI s1) = N.to_nat m /\ length (std_rev_z m HI z1) = N.to_nat m.
Proof. exact std_rev_lengths. Qed.
Theorem C18_std_rev_s_single : forall m HI s1 r k,
  (r < m)%N -> nth_error HI k = Some r -> (forall k', k' <> k -> nth_error HI k' <> Some r) ->
  length s1 = length HI ->
  nth (N.to_nat r) (std_rev_s m HI s1) 0%Z = nth k s1 0%Z.
Proof. exact std_rev_s_single. Qed.

(** non-vacuity on the path 0-1-2 (cliques {0,1} -> {1,2}, valid by C17_example_valid):
    H of the standard form, the reversal sums the overlap row 2 and averages z there,
    the compact layout puts the root block first and ties the child's (1,1) entry to it *)
Example C18_example_std :
  std_HI [CPSD 3] [(0%N, C17.ex_tree)] 0 0 = [0;1;2;2;4;5]%N
  /\ std_rev_s 6 [0;1;2;2;4;5]%N [10;20;30;40;50;60]%Z = [10;20;70;0;50;60]%Z
  /\ std_rev_z 6 [0;1;2;2;4;5]%N [10;20;30;30;50;60]%Z = [10;20;30;0;50;60]%Z
  /\ std_cones [CPSD 3] [(0%N, C17.ex_tree)] = [CZero 6; CPSD 2; CPSD 2].
Proof. vm_compute. repeat split; reflexivity. Qed.
Example C18_example_cmp :
  cmp_layout [CPSD 3] [(0%N, C17.ex_tree)] 0 0 0
  = ([(2,0);(4,1);(5,2);(0,3);(1,4)]%N, [(5,0)]%N).
Proof. vm_compute. reflexivity. Qed.
