(** C18 — chordal decomposition and its reversal preserve the problem and its solution.
    Level: translation validation backed by proved index facts.
    Proved (for EVERY valid clique tree, any size): the combinatorial facts that make the two
    transformations equivalences — every original entry lying in some clique is a non-overlap
    entry of exactly one clique (compact form places it exactly once; its other occurrences are
    overlap entries tied to the parent block), the standard-form H reaches every structural
    nonzero and every diagonal entry and stays inside the cone's rows, the packed-triangle
    index map is injective, the standard reversal returns vectors of the original length and
    reads a singly-covered row from its one block.
    Linear algebra (over Z): [std_equiv] for the standard form and the telescoping / consistency
    theorems of the compact form (abstract in the layout; the layout hypotheses are evaluated per
    run); index statement of the PSD completion.
    NOT proved here: that the concrete compact layout satisfies the layout hypotheses for every
    valid tree (checked per run), positive semidefiniteness of the completed matrix in general
    (validated per run; proved here for two cliques sharing one vertex), i.e. the completion
    direction of the Agler/Grone theorem stays cited.  The easy direction (sum of scattered PSD
    blocks is PSD) is proved in general.
    The model (Chordal/Decomp.v) is compared exactly with the implementation on integer data,
    and returned solutions are re-checked against the original problem in exact dyadic
    arithmetic (Chordal/E2E.v). *)
From Coq Require Import List Arith ZArith NArith.
Import ListNotations.
Require Import Clarabel.Chordal.TreeSpec Clarabel.Chordal.TriIndex Clarabel.Chordal.E2E
               Clarabel.Chordal.Decomp Clarabel.Chordal.DecompLemmas Clarabel.Chordal.StdRows
               Clarabel.Chordal.CompletionIdx Clarabel.Chordal.Equiv.
Require Clarabel.Props.C17.
Require Clarabel.Chordal.PsdFacts.
From Coq Require Reals.

Theorem C18_cmp_rows_once_unique : forall p t, ValidTree p t ->
  forall u v c d, In c (post t) -> In d (post t) ->
  In u (clique t c) -> In v (clique t c) -> In u (clique t d) -> In v (clique t d) ->
  ~ overlap_in t c u v -> ~ overlap_in t d u v -> c = d.
Proof. exact pair_top_unique. Qed.
Theorem C18_cmp_rows_once_exists : forall p t, ValidTree p t ->
  forall u v c, In c (post t) -> In u (clique t c) -> In v (clique t c) ->
  exists d, In d (post t) /\ In u (clique t d) /\ In v (clique t d) /\ ~ overlap_in t d u v.
Proof. exact pair_top_exists. Qed.
Theorem C18_std_H_covers : forall p t row0, ValidTree p t ->
  forall i j, In (i, j) (pedges p) -> (i <= j)%N ->
  exists c, In c (post t) /\ In (row0 + coord_to_idx (i, j))%N (subblock (ocl t c) row0).
Proof. exact std_H_covers. Qed.
Theorem C18_std_H_covers_diag : forall p t row0, ValidTree p t ->
  forall v, In v (vertices (pn p)) ->
  exists c, In c (post t) /\ In (row0 + coord_to_idx (ord t v, ord t v))%N (subblock (ocl t c) row0).
Proof. exact std_H_covers_diag. Qed.
Theorem C18_subblock_in_range : forall c row0 n, (forall v, In v c -> (v < n)%N) ->
  forall r, In r (subblock c row0) -> (row0 <= r < row0 + tri_number n)%N.
Proof. exact subblock_in_range. Qed.
Theorem C18_std_rev_lengths : forall m HI s1 z1,
  length (std_rev_s m HI s1) = N.to_nat m /\ length (std_rev_z m HI z1) = N.to_nat m.
Proof. exact std_rev_lengths. Qed.
Theorem C18_std_rev_s_single : forall m HI s1 r k,
  (r < m)%N -> nth_error HI k = Some r -> (forall k', k' <> k -> nth_error HI k' <> Some r) ->
  length s1 = length HI ->
  nth (N.to_nat r) (std_rev_s m HI s1) 0%Z = nth k s1 0%Z.
Proof. exact std_rev_s_single. Qed.

(** standard form, rows once: the data columns and b are copied verbatim, each added column is
    exactly the unit entry of H plus the -1 of the identity block, and inside a clique block every
    entry (i, j) of the clique has its own row *)
Theorem C18_std_rows_once_data : forall m Acols HI,
  firstn (length Acols) (std_A m Acols HI) = Acols /\ length (std_A m Acols HI) = (length Acols + length HI)%nat.
Proof. intros. split; [apply std_A_keeps_data | apply std_A_length]. Qed.
Theorem C18_std_rows_once_added : forall m Acols HI k, (k < length HI)%nat ->
  nth (length Acols + k) (std_A m Acols HI) [] = [(nth k HI 0%N, 1%Z); ((m + N.of_nat k)%N, (-1)%Z)].
Proof. exact std_A_added_col. Qed.
Theorem C18_std_rows_once_b : forall b HI,
  firstn (length b) (std_b b HI) = b /\ skipn (length b) (std_b b HI) = repeat 0%Z (length HI).
Proof. exact std_b_keeps. Qed.
Theorem C18_subblock_NoDup : forall c row0, NoDup c -> NoDup (subblock c row0).
Proof. exact subblock_NoDup. Qed.

(** PSD completion, index statement: the positions (x, v) it writes (v in the supernode of a
    clique j, x beyond the supernode's first vertex and outside clique j) lie in NO clique block,
    hence outside the aggregate sparsity pattern: completion changes no constrained entry *)
Theorem C18_completion_preserves : forall p t, ValidTree p t ->
  forall j v x i0 rest, In j (post t) -> sn t j = i0 :: rest -> In v (sn t j) ->
    (i0 < x)%N -> ~ In x (clique t j) ->
    forall d, In d (post t) -> ~ (In x (clique t d) /\ In v (clique t d)).
Proof. exact completion_preserves. Qed.
Theorem C18_completion_outside_pattern : forall p t, ValidTree p t ->
  forall j v x i0 rest, In j (post t) -> sn t j = i0 :: rest -> In v (sn t j) ->
    (i0 < x)%N -> ~ In x (clique t j) -> (x < pn p)%N -> (v < pn p)%N ->
    ~ In (ord t x, ord t v) (pedges p) /\ ~ In (ord t v, ord t x) (pedges p).
Proof. exact completion_outside_pattern. Qed.

(** std_equiv — linear algebra of the standard form over Z (the ring the model computes in).
    ax stands for A x; u are the added variables, s0 the Zero-cone slack, s1 the stacked clique
    blocks; z0 the dual of the first m rows, z1 the dual of the block rows. *)
Theorem C18_std_rev_s_is_block_sum : forall m HI v r, (r < m)%N ->
  nth (N.to_nat r) (Hmul m HI v) 0%Z =
  list_sum_Z (map snd (filter (fun hv : N * Z => N.eqb (fst hv) r) (combine HI v))).
Proof. exact Hmul_spec. Qed.
Theorem C18_std_primal_equiv : forall m HI ax b u s0 s1,
  length HI = length u -> length s1 = length u ->
  (forall r, (r < m)%N ->
     (nth (N.to_nat r) ax 0 + nth (N.to_nat r) (Hmul m HI u) 0 + nth (N.to_nat r) s0 0
      = nth (N.to_nat r) b 0)%Z) ->
  (forall r', nth r' s0 0%Z = 0%Z) ->
  (forall k, (k < length u)%nat -> (- nth k u 0 + nth k s1 0 = 0)%Z) ->
  forall r, (r < m)%N ->
    (nth (N.to_nat r) ax 0 + nth (N.to_nat r) (std_rev_s m HI s1) 0 = nth (N.to_nat r) b 0)%Z.
Proof. exact std_primal_equiv. Qed.
Theorem C18_std_rev_z_agrees : forall m HI z0 z1,
  length z1 = length HI ->
  (forall k, (k < length HI)%nat -> nth k z1 0%Z = nth (N.to_nat (nth k HI 0%N)) z0 0%Z) ->
  forall r, (r < m)%N -> (exists k, (k < length HI)%nat /\ nth k HI 0%N = r) ->
  nth (N.to_nat r) (std_rev_z m HI z1) 0%Z = nth (N.to_nat r) z0 0%Z.
Proof. exact std_rev_z_agrees. Qed.
Theorem C18_std_rev_z_blocks : forall m HI z0 z1,
  length z1 = length HI ->
  (forall k, (k < length HI)%nat -> nth k z1 0%Z = nth (N.to_nat (nth k HI 0%N)) z0 0%Z) ->
  forall k, (k < length HI)%nat -> (nth k HI 0%N < m)%N ->
  nth k z1 0%Z = nth (N.to_nat (nth k HI 0%N)) (std_rev_z m HI z1) 0%Z.
Proof. exact std_rev_z_blocks. Qed.
(** A'z and b'z are unchanged: a column of A (or b) vanishing on the rows H does not reach *)
Theorem C18_std_dual_products_unchanged : forall m HI z0 z1 a,
  length z1 = length HI ->
  (forall k, (k < length HI)%nat -> nth k z1 0%Z = nth (N.to_nat (nth k HI 0%N)) z0 0%Z) ->
  length a = N.to_nat m ->
  (N.to_nat m <= length z0)%nat ->
  (forall r, (r < m)%N -> ~ (exists k, (k < length HI)%nat /\ nth k HI 0%N = r) ->
             nth (N.to_nat r) a 0%Z = 0%Z) ->
  dotZ a (std_rev_z m HI z1) = dotZ a (firstn (N.to_nat m) z0).
Proof. exact std_dual_products_unchanged. Qed.

(** cmp_equiv — the same through the overlap ties (abstract over the layout: [orig] gives the
    original row of every new row; the hypotheses on the layout are evaluated per run by
    DecompCheck.cmp_struct_ok on the model layout, which is compared exactly with the code) *)
Theorem C18_cmp_primal_equiv : forall M orig ties y dat s' b' ax b,
  (forall p q, In (p, q) ties ->
     (p < M)%nat /\ (q < M)%nat /\ nth p orig 0%nat = nth q orig 0%nat) ->
  (forall i, (i < M)%nat ->
     (nth i dat 0 + tie_contrib ties y i + nth i s' 0 = nth i b' 0)%Z) ->
  (forall r, gsum M orig r (fun i => nth i dat 0%Z) = nth r ax 0%Z) ->
  (forall r, gsum M orig r (fun i => nth i b' 0%Z) = nth r b 0%Z) ->
  forall r, (nth r ax 0 + gsum M orig r (fun i => nth i s' 0%Z) = nth r b 0)%Z.
Proof. exact cmp_primal_equiv. Qed.
Theorem C18_cmp_dual_consistent : forall ties z',
  (forall k, (k < length ties)%nat ->
     (nth (fst (nth k ties (0%nat, 0%nat))) z' 0 - nth (snd (nth k ties (0%nat, 0%nat))) z' 0 = 0)%Z) ->
  forall i j, linked ties i j -> nth i z' 0%Z = nth j z' 0%Z.
Proof. exact cmp_dual_consistent. Qed.

(** The matrix facts behind "decomposed <=> original" (over the reals; PSD n M := every quadratic
    form x' M x over indices < n is nonnegative).
    Easy direction, in general: the slack reassembled by the reversal — the sum of the scattered
    PSD clique blocks — is PSD, so a feasible point of the decomposed problem gives a feasible
    point of the original one (together with C18_std_primal_equiv / C18_cmp_primal_equiv). *)
Theorem C18_sum_of_scattered_psd_blocks_is_psd :
  forall (n : nat) (blocks : list (list nat * (nat -> nat -> Rdefinitions.R))),
    (forall c B, In (c, B) blocks ->
       NoDup c /\ (forall i, In i c -> (i < n)%nat) /\ PsdFacts.PSD (length c) B) ->
    PsdFacts.PSD n (fun i j => PsdFacts.sum_blocks blocks i j).
Proof. exact PsdFacts.sum_scatter_psd. Qed.
(** Completion direction, two cliques {0..k} and {k..n-1} sharing the single vertex k
    (supernodes of arbitrary size): the completion M_ij := M_ik M_kj / M_kk outside the pattern
    is PSD and leaves both clique blocks untouched.  The general statement (any chordal
    pattern; Grone, Johnson, Sa, Wolkowicz 1984) is cited, not proved. *)
Theorem C18_completion_two_cliques : forall n k M,
  (k < n)%nat -> (forall i j, M i j = M j i) -> Rdefinitions.Rlt (Rdefinitions.IZR 0) (M k k) ->
  PsdFacts.PSD (S k) M -> PsdFacts.PSD (n - k) (fun i j => M (k + i)%nat (k + j)%nat) ->
  PsdFacts.PSD n (PsdFacts.Mc k M).
Proof. exact PsdFacts.completion_two_cliques. Qed.
Theorem C18_completion_two_cliques_keeps_pattern : forall k M i j,
  ((i <= k)%nat /\ (j <= k)%nat) \/ ((k <= i)%nat /\ (k <= j)%nat) -> PsdFacts.Mc k M i j = M i j.
Proof. exact PsdFacts.completion_keeps_pattern. Qed.

(** non-vacuity on the path 0-1-2 (cliques {0,1} -> {1,2}, valid by C17_example_valid):
    H of the standard form, the reversal sums the overlap row 2 and averages z there,
    the compact layout puts the root block first and ties the child's (1,1) entry to it *)
Example C18_example_std :
  std_HI [CPSD 3] [(0%N, C17.ex_tree)] 0 0 = [0;1;2;2;4;5]%N
  /\ std_rev_s 6 [0;1;2;2;4;5]%N [10;20;30;40;50;60]%Z = [10;20;70;0;50;60]%Z
  /\ std_rev_z 6 [0;1;2;2;4;5]%N [10;20;30;30;50;60]%Z = [10;20;30;0;50;60]%Z
  /\ std_cones [CPSD 3] [(0%N, C17.ex_tree)] = [CZero 6; CPSD 2; CPSD 2].
Proof. vm_compute. repeat split; reflexivity. Qed.
Example C18_example_cmp :
  cmp_layout [CPSD 3] [(0%N, C17.ex_tree)] 0 0 0
  = ([(2,0);(4,1);(5,2);(0,3);(1,4)]%N, [(5,0)]%N).
Proof. vm_compute. reflexivity. Qed.
