(** C11 — the assembled KKT system is the intended matrix, for every cone layout.
    Only statements closed by [exact]; the statements are the [stmt_*] definitions of
    Kkt/Spec.v (intended layout, Schur complements) and Kkt/Stmts.v (algorithm model);
    proofs are in Kkt/Lemmas*.v.

    PROVED for both triangles — [C11_assemble_refines_spec]:
      forall P A shapes tri, wf_input P A shapes ->
        Model.assemble (encode P) (encode A) shapes tri
        = (encode (Spec.kkt_matrix P A shapes tri), Spec.kkt_maps P A shapes tri)
    (matrix and all six maps; hypotheses on the inputs only).  The correspondence run ties
    Model.assemble to the Rust code (checker [Kkt.Check.c_assemble]). *)
From Coq Require Import List ZArith Reals Permutation Lia.
Import ListNotations.
Require Import Clarabel.Base.Ops Clarabel.Csc.Model Clarabel.Kkt.Spec Clarabel.Kkt.Model Clarabel.Kkt.Stmts.
Require Import Clarabel.Kkt.LemmasSchur Clarabel.Kkt.LemmasVals Clarabel.Kkt.LemmasSpec Clarabel.Kkt.LemmasDiag.
Require Import Clarabel.Kkt.LemmasWf Clarabel.Kkt.LemmasFill Clarabel.Kkt.LemmasRefine Clarabel.Kkt.LemmasCone Clarabel.Kkt.LemmasCount Clarabel.Kkt.LemmasRaw.
Require Import Clarabel.Kkt.LemmasOrder Clarabel.Kkt.LemmasDiagPos Clarabel.Kkt.LemmasAssemble Clarabel.Kkt.LemmasTril Clarabel.Kkt.LemmasDense Clarabel.Kkt.LemmasUpdate Clarabel.Kkt.LemmasSchurDense Clarabel.Kkt.LemmasQuasidef.

(** eliminating the auxiliary variables of a sparse expansion reproduces the cone's H *)
Theorem C11_soc_expansion_schur : stmt_soc_expansion_schur.
Proof. exact soc_expansion_schur_ok. Qed.
Theorem C11_genpow_expansion_schur : stmt_genpow_expansion_schur.
Proof. exact genpow_expansion_schur_ok. Qed.

(** the recorded sign pattern *)
Theorem C11_signs_spec : stmt_signs_spec.
Proof. exact signs_spec_ok. Qed.
Theorem C11_spec_smaps_match : stmt_spec_smaps_match.
Proof. exact spec_smaps_match_ok. Qed.

(** after update: KKT copy unregularised, factored copy = KKT + sign*eps on the diagonal *)
Theorem C11_update_restores_diag : stmt_update_restores_diag.
Proof. exact update_restores_diag_ok. Qed.

(** the intended layout: CSC sorting is a permutation; recorded positions partition 0..nnz *)
Theorem C11_sorted_entries_perm : stmt_sorted_entries_perm.
Proof. exact sorted_entries_perm_ok. Qed.
Theorem C11_maps_partition_partial : stmt_maps_partition_partial.
Proof. exact maps_partition_partial_ok. Qed.
Theorem C11_boolean_hyps_sound : stmt_boolean_hyps_sound.
Proof. exact boolean_hyps_sound_ok. Qed.

(** the hypotheses of the partition theorem, derived; the partition theorem without them *)
Theorem C11_tags_nodup : stmt_tags_nodup.
Proof. exact tags_nodup_ok. Qed.
Theorem C11_cols_lt : stmt_cols_lt.
Proof. exact cols_lt_ok. Qed.
Theorem C11_maps_partition : stmt_maps_partition.
Proof. exact maps_partition_ok. Qed.

(** refinement, staged *)
Theorem C11_fill_script : stmt_fill_script.
Proof. exact fill_script_ok. Qed.
Theorem C11_cones_fill_script : stmt_cones_fill_script.
Proof. exact cones_fill_script_ok. Qed.
Theorem C11_cones_colcounts : stmt_cones_colcounts.
Proof. exact cones_colcounts_ok. Qed.
(** THE Triu refinement, from the well-formedness of the inputs alone: Model.assemble on the raw
    encodings = (Spec matrix, all Spec maps incl. diagP / diag_full) *)
Theorem C11_assemble_refines_spec_triu : stmt_assemble_refines_spec_triu.
Proof. exact assemble_refines_spec_triu_ok. Qed.
Theorem C11_assemble_refines_spec_tril : stmt_assemble_refines_spec_tril.
Proof. exact assemble_refines_spec_tril_ok. Qed.
(** THE refinement theorem of C11, both triangles *)
Theorem C11_assemble_refines_spec : stmt_assemble_refines_spec.
Proof. exact assemble_refines_spec_ok. Qed.
(** kkt_spec_dense: dense meaning of the intended matrix (Csc get) *)
Theorem C11_kkt_get_entry : stmt_kkt_get_entry.
Proof. exact kkt_get_entry_ok. Qed.
Theorem C11_kkt_get_none : stmt_kkt_get_none.
Proof. exact kkt_get_none_ok. Qed.
Theorem C11_kkt_spec_dense : stmt_kkt_spec_dense.
Proof. exact kkt_spec_dense_ok. Qed.
Theorem C11_kkt_spec_dense_tril : stmt_kkt_spec_dense_tril.
Proof. exact kkt_spec_dense_tril_ok. Qed.
(** the chain closed for the sparse SOC: Schur complement of the dense object *)
Theorem C11_soc_schur_dense : stmt_soc_schur_dense.
Proof. exact soc_schur_dense_ok. Qed.
Theorem C11_genpow_schur_dense : stmt_genpow_schur_dense.
Proof. exact genpow_schur_dense_ok. Qed.
(** inertia_matches_signs, block form: quasi-definiteness in the recorded sign pattern *)
Theorem C11_quasidef_blocks : stmt_quasidef_blocks.
Proof. exact quasidef_blocks_ok. Qed.
Theorem C11_soc_expansion_signs : stmt_soc_expansion_signs.
Proof. exact soc_expansion_signs_ok. Qed.
(** value updates through the maps *)
Theorem C11_update_values_frame : stmt_update_values_frame.
Proof. exact update_values_frame_ok. Qed.
Theorem C11_scale_values_frame : stmt_scale_values_frame.
Proof. exact scale_values_frame_ok. Qed.
Theorem C11_update_data_through_maps : stmt_update_data_through_maps.
Proof. exact update_data_through_maps_ok. Qed.
(** the sign vector of the assembled system *)
Theorem C11_dsigns_of_assemble : stmt_dsigns_of_assemble.
Proof. exact dsigns_of_assemble_ok. Qed.

(** every position stored at most once; the diagonal maps point at the diagonal entries, which
    are the last entries of their columns (Triu) *)
Theorem C11_positions_unique : stmt_positions_unique.
Proof. exact positions_unique_ok. Qed.
Theorem C11_diag_maps_triu : stmt_diag_maps_triu.
Proof. exact diag_maps_triu_ok. Qed.
Theorem C11_buckets_sortedb_sound : stmt_buckets_sortedb_sound.
Proof. exact buckets_sortedb_sound_ok. Qed.

(** a complete diagonal, for every layout and both triangles *)
Theorem C11_diag_complete : stmt_diag_complete.
Proof. exact diag_complete_ok. Qed.

(** non-vacuity: a layout with a missing P diagonal, a dense block, a sparse SOC and a GenPow
    cone meets the hypotheses of the partition theorem and of the sign theorem *)
Example C11_example_layout :
  let P := mkCsc 2 2 [[(0, 1%Z)]; [(0, 2%Z)]] in
  let A := mkCsc 11 2 [[(0, 3%Z); (4, 5%Z)]; [(10, 7%Z)]] in
  let shapes := [Dense 2; SocSparse 5; GenPow 2 2] in
  let es := entries P A shapes Tril in
  cols_ltb (kdim P A shapes) es = true /\ nodupb_tags (map etag es) = true
  /\ length es = 41
  /\ fill_signs (11 + 2 + 5) 11 2 (mSp (kkt_maps P A shapes Tril))
     = [1; 1; -1; -1; -1; -1; -1; -1; -1; -1; -1; -1; -1; -1; 1; -1; -1; 1]%Z.
Proof. vm_compute. repeat split. Qed.
(** the hypotheses of the Triu refinement step are met by the same layout *)
Example C11_example_refinement_hyps :
  let P := mkCsc 2 2 [[(0, 1%Z)]; [(0, 2%Z)]] in
  let A := mkCsc 11 2 [[(0, 3%Z); (4, 5%Z)]; [(10, 7%Z)]] in
  let shapes := [Dense 2; SocSparse 5; GenPow 2 2] in
  wf_input P A shapes /\ buckets_sorted (kdim P A shapes) (entries_triu P A shapes).
Proof.
  split.
  - repeat split; try reflexivity. intros j e He.
    destruct j as [|[|j]]; cbn in He; [| |destruct j; contradiction];
      destruct He as [<-|He]; try contradiction; cbn; lia.
  - apply buckets_sortedb_sound_ok. vm_compute. reflexivity.
Qed.
