(** C07 — iterates stay strictly interior; the trajectory does not depend on the iteration
    budget.  [C07_prefix_independent] is about the loop model (all kernel answers);
    [C07_interior_*] say what the exact snapshot test of the correspondence run certifies. *)
From Coq Require Import List NArith QArith Bool.
Import ListNotations.
Require Import Clarabel.Base.Dyadic.
Require Import Clarabel.Solver.Skeleton Clarabel.Solver.Spec Clarabel.Solver.Lemmas Clarabel.Solver.Interior.

Theorem C07_prefix_independent :
  forall A azero a_lt_switch a_le_term,
    stmt_prefix_independent A azero a_lt_switch a_le_term.
Proof. exact prefix_independent_ok. Qed.

Theorem C07_interior_nonneg_sound :
  forall v, pos_all v = true -> Forall (fun x => (0 < d2Q x)%Q) v.
Proof. exact pos_all_sound. Qed.

Theorem C07_interior_soc_sound :
  forall t r, soc_int (t :: r) = true ->
    (0 < d2Q t)%Q /\ (Qsum (map (fun x => d2Q x * d2Q x) r) < d2Q t * d2Q t)%Q.
Proof. exact soc_int_sound. Qed.

(** non-vacuity: budgets 1 and 5 on the same kernel answers — the short run stops at the
    head where the long run shows iteration 1 *)
Example C07_budget_example :
  let stepp := mkPin nat Unsolved false true true true 1%nat true 1%nat in
  let l1 := loop nat 0%nat (fun _ => false) (fun a => Nat.eqb a 0%nat) (mkEnv true 1%N)
                 (mkSt nat 0%N PrimalDual 0%nat Unsolved) [stepp; stepp; stepp] in
  let l5 := loop nat 0%nat (fun _ => false) (fun a => Nat.eqb a 0%nat) (mkEnv true 5%N)
                 (mkSt nat 0%N PrimalDual 0%nat Unsolved) [stepp; stepp; stepp] in
  option_map (fun s => (iter nat s, stat nat s)) (fst l1) = Some (1%N, MaxIterations) /\
  fst l5 = None.
Proof. vm_compute. split; reflexivity. Qed.
