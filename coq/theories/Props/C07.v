(** C07 — iterates stay strictly interior; the trajectory does not depend on the iteration
    budget.  [C07_prefix_independent] is about the loop model (all kernel answers);
    [C07_interior_*] say what the exact snapshot test of the correspondence run certifies. *)
From Coq Require Import List NArith QArith Bool Reals.
Import ListNotations.
Require Import Clarabel.Base.Dyadic.
Require Import Clarabel.Term.Eval.
Require Import Clarabel.Solver.Skeleton Clarabel.Solver.Spec Clarabel.Solver.Lemmas Clarabel.Solver.Interior Clarabel.Solver.InteriorAll Clarabel.Solver.StepLen.

Theorem C07_prefix_independent :
  forall A azero a_lt_switch a_le_term,
    stmt_prefix_independent A azero a_lt_switch a_le_term.
Proof. exact prefix_independent_ok. Qed.

Theorem C07_interior_nonneg_sound :
  forall v, pos_all v = true -> Forall (fun x => (0 < d2Q x)%Q) v.
Proof. exact pos_all_sound. Qed.

Theorem C07_interior_soc_sound :
  forall t r, soc_int (t :: r) = true ->
    (0 < d2Q t)%Q /\
    (Qsum (map (fun x => d2Q x * d2Q x) r) < d2Q t * d2Q t * (1 + d2Q soc_slack))%Q.
Proof. exact soc_int_sound. Qed.

(** every cone kind: a snapshot accepted by [c_interior_all] has positive scalars and, block by
    block, meets [cone_intP]: exact strict positivity / strict SOC inequality, and for the
    exponential, power, generalised power and PSD cones the exact sign conditions of interior
    points together with certified membership of the recorded point or of the point moved by
    the relative allowance 2^-40 along the interior direction *)
Theorem C07_interior_all_sound :
  forall (K : list coneD) (s z : list dy) (tau kappa : dy),
    c_interior_all K s z tau kappa = 0%N ->
    (0 < d2R tau)%R /\ (0 < d2R kappa)%R /\
    Forall (fun kc => cone_intP false (fst kc) (snd kc)) (chunks K s) /\
    Forall (fun kc => cone_intP true (fst kc) (snd kc)) (chunks K z).
Proof. exact c_interior_all_sound. Qed.

(** non-vacuity: an interior exponential-cone / PSD pair is accepted, a boundary point and a
    point outside are rejected *)
Example C07_interior_all_example :
  c_interior_all [KExp; KPSD 2] [D 0 0; D 1 0; D 2 0; D 2 0; D 1 0; D 2 0]
                                [D (-1) 0; D 0 0; D 1 0; D 1 0; D 0 0; D 1 0] (D 1 0) (D 1 0) = 0%N /\
  c_interior_all [KExp] [D 0 0; D 1 0; D 1 (-1)] [D (-1) 0; D 0 0; D 1 0] (D 1 0) (D 1 0) = 1%N /\
  c_interior_all [KPSD 2] [D 1 0; D 2 0; D 1 0] [D 1 0; D 0 0; D 1 0] (D 1 0) (D 1 0) = 1%N.
Proof. vm_compute. repeat split; reflexivity. Qed.

(** the damped step computed by calc_step_length keeps the homogenisation scalars positive
    (reals; [cap_R] is the cap the code passes to the cones, [az], [as_] their answers) *)
Theorem C07_step_keeps_tau_kappa_positive :
  forall tau kappa dtau dkappa big az as_ frac : R,
    (0 < tau)%R -> (0 < kappa)%R -> (0 < big)%R -> (0 <= frac < 1)%R ->
    (0 <= az <= cap_R tau kappa dtau dkappa big)%R ->
    (0 <= as_ <= cap_R tau kappa dtau dkappa big)%R ->
    let a := (Rmin az as_ * frac)%R in
    (0 < tau + a * dtau)%R /\ (0 < kappa + a * dkappa)%R.
Proof. exact step_keeps_tau_kappa_positive. Qed.

(** every step that is actually taken passed the small-step checkpoint: its length is not at
    or below the termination threshold (which is >= 0), so accepted steps are positive; with
    [C07_step_keeps_tau_kappa_positive] (length <= 1, damped) this is "length in (0,1]" *)
Theorem C07_accepted_steps :
  forall A azero a_is_zero a_lt_switch a_le_term,
    stmt_accepted_steps A azero a_is_zero a_lt_switch a_le_term.
Proof. exact accepted_steps_ok. Qed.

(** barrier backtracking of the combined step (dual scaling, nonsymmetric cones): the result is
    the given step times step^k with k <= 50 the number of failed barrier tests, hence positive
    and not longer than the step it was given *)
Theorem C07_barrier_backtrack_result :
  forall (fuel : nat) (ans : list bool) (step a : R),
    bt_gen Rmult fuel ans step a = (step ^ (bt_count fuel ans) * a)%R /\ (bt_count fuel ans <= fuel)%nat.
Proof. exact bt_barrier_result. Qed.
Theorem C07_barrier_backtrack_bounds :
  forall (fuel : nat) (ans : list bool) (step a : R),
    (0 < step <= 1)%R -> (0 < a)%R -> (0 < bt_gen Rmult fuel ans step a <= a)%R.
Proof. exact bt_barrier_bounds. Qed.

(** non-vacuity: budgets 1 and 5 on the same kernel answers — the short run stops at the
    head where the long run shows iteration 1 *)
Example C07_budget_example :
  let stepp := mkPin nat Unsolved false true true true 1%nat true 1%nat in
  let l1 := loop nat 0%nat (fun _ => false) (fun a => Nat.eqb a 0%nat) (mkEnv true 1%N)
                 (mkSt nat 0%N PrimalDual 0%nat Unsolved) [stepp; stepp; stepp] in
  let l5 := loop nat 0%nat (fun _ => false) (fun a => Nat.eqb a 0%nat) (mkEnv true 5%N)
                 (mkSt nat 0%N PrimalDual 0%nat Unsolved) [stepp; stepp; stepp] in
  option_map (fun s => (iter nat s, stat nat s)) (fst l1) = Some (1%N, MaxIterations) /\
  fst l5 = None.
Proof. vm_compute. split; reflexivity. Qed.
