(** C06 — well-posed problems are solved in few iterations.  What is provable: the search
    direction assembled by DefaultKKTSystem::solve satisfies the five linearised equations
    of the homogeneous embedding in every dimension (given exact solves with the
    quasi-definite matrix), and the centering parameter stays in [0,1].  The convergence
    rate itself is measured by the check, not proved (see DESIGN.md, C06). *)
From Coq Require Import Reals Lra.
Require Import Clarabel.Newton.Model Clarabel.Newton.Spec Clarabel.Newton.Lemmas Clarabel.Newton.Init Clarabel.Newton.Step.

Theorem C06_newton_equations : stmt_newton_equations.
Proof. exact newton_equations_ok. Qed.

Theorem C06_centering_range : stmt_centering_range.
Proof. exact centering_range_ok. Qed.

Theorem C06_centering_ends : stmt_centering_ends.
Proof. exact centering_ends_ok. Qed.

(** the starting point of symmetric-cone problems (solve_initial_point, both branches):
    primal equalities row by row (H = identity scaling, 0 on zero-cone rows) and the dual
    equality, whenever the solves with K are exact *)
Theorem C06_init_point_qp :
  forall (n m : nat) (P A H : mat) (q b : vec), stmt_init_qp n m P A H q b.
Proof. exact init_qp_ok. Qed.
Theorem C06_init_point_lp :
  forall (n m : nat) (P A H : mat) (q b : vec), stmt_init_lp n m P A H q b.
Proof. exact init_lp_ok. Qed.

(** one predictor-corrector iteration: with the combined right-hand sides of variables.rs and
    the residuals of residuals.rs, a step of length alpha multiplies the primal and dual
    residuals by  1 - alpha (1 - sigma) , in every dimension (given exact KKT solves) *)
Theorem C06_residual_reduction :
  forall (n m : nat) (P A : mat) (q b : vec), stmt_residual_reduction n m P A q b.
Proof. exact residual_reduction_ok. Qed.
Theorem C06_full_affine_step_is_feasible :
  forall (n m : nat) (P A : mat) (q b : vec) (x s z dx ds dz : vec) (tau dtau : R),
    (forall j, (j < n)%nat ->
       mv n P dx j + mv m (transp A) dz j + dtau * q j = comb_rhs_x 0 (res_x n m P A q x z tau) j) ->
    (forall i, (i < m)%nat ->
       mv n A dx i + ds i - dtau * b i = - comb_rhs_x 0 (res_z n A b x s tau) i) ->
    (forall j, (j < n)%nat -> res_x n m P A q (step_v x dx 1) (step_v z dz 1) (tau + 1 * dtau) j = 0) /\
    (forall i, (i < m)%nat -> res_z n A b (step_v x dx 1) (step_v s ds 1) (tau + 1 * dtau) i = 0).
Proof. exact full_affine_step_is_feasible. Qed.

(** non-vacuity: a 1x1 instance meeting every hypothesis of [C06_newton_equations]
    (P = 2, A = 1, H = 1, q = 1, b = 1; iterate x = 1, tau = 1, kappa = 1) *)
Example C06_newton_instance :
  let P : mat := fun _ _ => 2%R in
  let A : mat := fun _ _ => 1%R in
  let H : mat := fun _ _ => 1%R in
  tau_den 1 1 P (fun _ => 1) (fun _ => 1) (fun _ => 1) 1 1 (fun _ => -2/3) (fun _ => 1/3) <> 0%R.
Proof. unfold tau_den, quad, dot, mv, xi_minus_x2, xi, vadd, vscal. cbn [sumn]. lra. Qed.
