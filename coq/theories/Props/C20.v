(** C20 — solver output says what the solver did: structure of the progress table.
    The status lines are the [EHead] / [EExtraLine] events of the loop model. *)
From Coq Require Import List NArith Bool.
Import ListNotations.
Require Import Clarabel.Solver.Skeleton Clarabel.Solver.Spec Clarabel.Solver.Lemmas.

Theorem C20_iteration_column :
  forall A azero a_is_zero a_lt_switch a_le_term,
    stmt_iteration_column A azero a_is_zero a_lt_switch a_le_term.
Proof. exact iteration_column_ok. Qed.

Theorem C20_post_spec : stmt_post_spec.
Proof. exact post_spec_ok. Qed.

(** non-vacuity: a run that ends in a numerical failure after the counter was advanced
    prints the extra line, so the column still ends at the reported count *)
Example C20_extra_line_example :
  let stepp := mkPin nat Unsolved false true true true 1 true 1 in
  let failp := mkPin nat Unsolved false true false true 1 true 1 in
  let r := run nat 0 (Nat.eqb 0) (fun _ => false) (fun a => Nat.eqb a 0)
               (mkEnv true 50%N) true [stepp; failp] None in
  option_map (fun s => (iter nat s, stat nat s)) (fst r) = Some (2%N, NumericalError) /\
  lines nat (snd r) = [0; 1; 2]%N.
Proof. vm_compute. split; reflexivity. Qed.
