(** C20 — solver output says what the solver did: structure of the progress table.
    The status lines are the [EHead] / [EExtraLine] events of the loop model. *)
From Coq Require Import List NArith Bool.
Import ListNotations.
Require Import Clarabel.Solver.Skeleton Clarabel.Solver.Spec Clarabel.Solver.Lemmas.

Theorem C20_iteration_column :
  forall A azero a_is_zero a_lt_switch a_le_term,
    stmt_iteration_column A azero a_is_zero a_lt_switch a_le_term.
Proof. exact iteration_column_ok. Qed.

Theorem C20_post_spec : stmt_post_spec.
Proof. exact post_spec_ok. Qed.

(** non-vacuity: a run that ends in a numerical failure after the counter was advanced
    prints the extra line, so the column still ends at the reported count *)
Example C20_extra_line_example :
  let stepp := mkPin nat Unsolved false true true true 1 true 1 in
  let failp := mkPin nat Unsolved false true false true 1 true 1 in
  let r := run nat 0 (Nat.eqb 0) (fun _ => false) (fun a => Nat.eqb a 0)
               (mkEnv true 50%N) true [stepp; failp] None in
  option_map (fun s => (iter nat s, stat nat s)) (fst r) = Some (2%N, NumericalError) /\
  lines nat (snd r) = [0; 1; 2]%N.
Proof. vm_compute. split; reflexivity. Qed.

(** * routing (model of src/io/mod.rs: Solver/Route.v) *)
Require Import Clarabel.Solver.Route Clarabel.Solver.RouteLemmas.

(** every history of target switches, writes, retrievals and clones: each sink holds exactly
    the writes issued while it was the current target, in order *)
Theorem C20_route_refines :
  forall (ops : list op) (s : Route.st),
    let s' := fst (Route.run s ops) in
    (forall i, w_file (wld s') i = w_file (wld s) i ++ routed (is_file i) (akind_of (tgt s)) ops) /\
    (forall i, w_stream (wld s') i = w_stream (wld s) i ++ routed (is_stream i) (akind_of (tgt s)) ops) /\
    w_stdout (wld s') = w_stdout (wld s) ++ routed is_stdout (akind_of (tgt s)) ops.
Proof. exact route_refines. Qed.

(** the same writes deliver identical bytes to a buffer, a stream and a file *)
Theorem C20_same_bytes_all_targets :
  forall (pre : list op) (ws : list bytes) (i j : N),
    let s0 := fst (Route.run Route.init pre) in
    let sb := fst (Route.run Route.init (pre ++ ToBuffer :: map Write ws)) in
    let ss := fst (Route.run Route.init (pre ++ ToStream i :: map Write ws)) in
    let sf := fst (Route.run Route.init (pre ++ ToFile j :: map Write ws)) in
    tgt sb = TBuffer (concat ws) /\
    snd (Route.step sb GetBuffer) = OBuf (concat ws) /\
    w_stream (wld ss) i = w_stream (wld s0) i ++ concat ws /\
    w_file (wld sf) j = w_file (wld s0) j ++ concat ws.
Proof. exact same_bytes_all_targets. Qed.

Theorem C20_write_frame :
  forall (s : Route.st) (b : bytes),
    let s' := fst (Route.step s (Write b)) in
    (forall i, akind_of (tgt s) <> AFile i -> w_file (wld s') i = w_file (wld s) i) /\
    (forall i, akind_of (tgt s) <> AStream i -> w_stream (wld s') i = w_stream (wld s) i) /\
    (akind_of (tgt s) <> AStdout -> w_stdout (wld s') = w_stdout (wld s)) /\
    akind_of (tgt s') = akind_of (tgt s).
Proof. exact write_frame. Qed.

Theorem C20_sink_silent :
  forall (w : world) (ws : list bytes),
    fst (Route.run (Route.mkSt TSink w) (map Write ws)) = Route.mkSt TSink w.
Proof. exact sink_silent. Qed.

Theorem C20_cloned_stream_silent :
  forall (i : N) (w : world) (ws : list bytes),
    wld (fst (Route.run (Route.mkSt (TStream i) w) (CloneInfo :: map Write ws))) = w.
Proof. exact cloned_stream_silent. Qed.

Theorem C20_get_buffer_spec :
  forall s : Route.st,
    (snd (Route.step s GetBuffer) = OErr <-> akind_of (tgt s) <> ABuffer) /\
    (forall c, tgt s = TBuffer c -> snd (Route.step s GetBuffer) = OBuf c) /\
    fst (Route.step s GetBuffer) = s.
Proof. exact get_buffer_spec. Qed.

(** non-vacuity: a mixed history *)
Example C20_route_example :
  c_route [ToBuffer; Write [104; 105]%N; GetBuffer; ToStream 1%N; Write [33]%N; CloneInfo; Write [34]%N; GetBuffer]
          [[0]; [0]; [2; 104; 105]; [0]; [0]; [0]; [0]; [1]]%N 4%N [] [(1, [33])]%N = 0%N.
Proof. vm_compute. reflexivity. Qed.
