(** C13 — symmetric-cone scaling operators satisfy the Nesterov–Todd identities.
    Only statements closed by [exact]; the statements are the [stmt_*] definitions of
    Cones/SpecC13.v; proofs are in Cones/LemmasScal*.v.  Real-number interpretation of the
    models in Cones/{NN,SOC}.v, every dimension.

    Still PARTIAL for the PSD cone: the LAPACK factorisations themselves (Cholesky, SVD) are
    hypotheses of the PSD theorems, validated per call; λ∘/λ\, Δs offset and the Hs = skron(RRᵀ)
    block of the PSD cone are validated per call only. *)
From Coq Require Import List Reals Lra.
Require Import Clarabel.Base.Ops Clarabel.Cones.Vec Clarabel.Cones.NN Clarabel.Cones.SOC
               Clarabel.Cones.SpecC15 Clarabel.Cones.SpecC13.
Require Import Clarabel.Cones.LemmasScalNN Clarabel.Cones.LemmasScalSOC Clarabel.Cones.LemmasScalSOC2
               Clarabel.Cones.LemmasScalSOC3 Clarabel.Cones.PSDIndex Clarabel.Cones.SpecPSD
               Clarabel.Cones.LemmasPSDIndex Clarabel.Cones.Mat Clarabel.Cones.SpecPSDScal
               Clarabel.Cones.LemmasPSDScal Clarabel.Cones.LemmasPSDOps Clarabel.Cones.PSDOps
               Clarabel.Cones.LemmasTri Clarabel.Cones.SpecPSDJordan Clarabel.Cones.LemmasPSDJordan
               Clarabel.Cones.LemmasPSDSkron.
Import ListNotations.
Open Scope R_scope.

(** nonnegative cone *)
Theorem C13_nn_Wz_lambda : stmt_nn_Wz_lambda.
Proof. exact nn_Wz_lambda_ok. Qed.
Theorem C13_nn_WtWz_s : stmt_nn_WtWz_s.
Proof. exact nn_WtWz_s_ok. Qed.
Theorem C13_nn_w_pos : stmt_nn_w_pos.
Proof. exact nn_w_pos_ok. Qed.
Theorem C13_nn_W_Winv_inverse : stmt_nn_W_Winv_inverse.
Proof. exact nn_W_Winv_inverse_ok. Qed.
Theorem C13_nn_mul_W_affine : stmt_nn_mul_W_affine.
Proof. exact nn_mul_W_affine_ok. Qed.
Theorem C13_nn_get_Hs_operator : stmt_nn_get_Hs_operator.
Proof. exact nn_get_Hs_operator_ok. Qed.
Theorem C13_nn_circ_inverse : stmt_nn_circ_inverse.
Proof. exact nn_circ_inverse_ok. Qed.
Theorem C13_nn_affine_ds : stmt_nn_affine_ds.
Proof. exact nn_affine_ds_ok. Qed.
Theorem C13_nn_ds_offset : stmt_nn_ds_offset.
Proof. exact nn_ds_offset_ok. Qed.
Theorem C13_nn_combined_shift : stmt_nn_combined_shift.
Proof. exact nn_combined_shift_ok. Qed.

(** second-order cone, operator level (w normalised, η ≠ 0) *)
Theorem C13_soc_W_Winv_inverse : stmt_soc_W_Winv_inverse.
Proof. exact soc_W_Winv_inverse_ok. Qed.
Theorem C13_soc_W_symmetric : stmt_soc_W_symmetric.
Proof. exact soc_W_symmetric_ok. Qed.
Theorem C13_soc_mul_W_affine : stmt_soc_mul_W_affine.
Proof. exact soc_mul_W_affine_ok. Qed.
Theorem C13_soc_Hs_formula : stmt_soc_Hs_formula.
Proof. exact soc_Hs_formula_ok. Qed.
Theorem C13_soc_Hs_is_WW : stmt_soc_Hs_is_WW.
Proof. exact soc_Hs_is_WW_ok. Qed.
Theorem C13_soc_sparse_expansion : stmt_soc_sparse_expansion.
Proof. exact soc_sparse_expansion_ok. Qed.
(** set_identity_scaling: W = W⁻¹ = WᵀW = identity and the sparse KKT block eliminates to the
    identity, whatever the previous scaling (no stale u, v, d) *)
Theorem C13_soc_identity_scaling : stmt_soc_identity_scaling.
Proof. exact soc_identity_scaling_ok. Qed.
(** second-order cone, update_scaling level *)
Theorem C13_soc_nt_identities_partial : stmt_soc_nt_identities_partial.
Proof. exact soc_nt_identities_partial_ok. Qed.
(** W z = λ = W⁻¹ s and WᵀW z = s for the (w, η, λ) computed by update_scaling *)
Theorem C13_soc_nt_identities : stmt_soc_nt_identities.
Proof. exact soc_nt_identities_ok. Qed.
Theorem C13_soc_nt_WtWz : stmt_soc_nt_WtWz.
Proof. exact soc_nt_WtWz_ok. Qed.
(** Δs_from_Δz_offset = Wᵀ(λ \ ds) *)
Theorem C13_soc_ds_offset : stmt_soc_ds_offset.
Proof. exact soc_ds_offset_ok. Qed.
(** dense get_Hs: packed entry (row,col) sits at col(col+1)/2+row and is η²(2 w_row w_col − J) *)
Theorem C13_soc_get_Hs_dense_entries : stmt_soc_get_Hs_dense_entries.
Proof. exact soc_get_Hs_dense_entries_ok. Qed.
Theorem C13_soc_get_Hs_dense_length : stmt_soc_get_Hs_dense_length.
Proof. exact soc_get_Hs_dense_length_ok. Qed.
(** y ∘ (y \ z) = z *)
Theorem C13_soc_inv_circ : stmt_soc_inv_circ.
Proof. exact soc_inv_circ_ok. Qed.
Theorem C13_soc_affine_ds : stmt_soc_affine_ds.
Proof. exact soc_affine_ds_ok. Qed.
Theorem C13_soc_circ_def : stmt_soc_circ_def.
Proof. exact soc_circ_def_ok. Qed.

(** PSD cone: index maps of the scaled vectorisation (the scaling itself is partial) *)
Theorem C13_psd_mat_svec_inverse : stmt_psd_mat_svec_inverse.
Proof. exact psd_mat_svec_inverse_ok. Qed.
Theorem C13_psd_svec_mat_inverse : stmt_psd_svec_mat_inverse.
Proof. exact psd_svec_mat_inverse_ok. Qed.
Theorem C13_psd_svec_isometry : stmt_psd_svec_isometry.
Proof. exact psd_svec_isometry_ok. Qed.
Theorem C13_psd_diag_index : stmt_psd_diag_index.
Proof. exact psd_diag_index_ok. Qed.

(** PSD cone: the Nesterov–Todd algebra of update_scaling, every n, from the contracts of the
    LAPACK factorisations (hypothesis [psd_factors]: S = L1 L1ᵀ, Z = L2 L2ᵀ, L2ᵀ L1 = U Λ Vᵀ,
    U, V orthogonal, λ > 0); the correspondence run validates these hypotheses on every call *)
Theorem C13_psd_Rinv_R : stmt_psd_Rinv_R.
Proof. exact psd_Rinv_R_ok. Qed.
Theorem C13_psd_R_Rinv : stmt_psd_R_Rinv.
Proof. exact psd_R_Rinv_ok. Qed.
Theorem C13_psd_RtZR : stmt_psd_RtZR.
Proof. exact psd_RtZR_ok. Qed.
Theorem C13_psd_RinvSRinvt : stmt_psd_RinvSRinvt.
Proof. exact psd_RinvSRinvt_ok. Qed.
Theorem C13_psd_WZW : stmt_psd_WZW.
Proof. exact psd_WZW_ok. Qed.
(** mul_W / mul_Winv of the PSD cone in svec form: y <- α·(conjugation of x) + β·y for all α, β *)
Theorem C13_psd_mul_W_affine : stmt_psd_mul_W_affine.
Proof. exact psd_mul_W_affine_ok. Qed.

(** a lower triangular matrix with non-zero diagonal is right-invertible; hence R R⁻¹ = I from the
    shape of the Cholesky factor alone *)
Theorem C13_lower_tri_right_inverse : stmt_lower_tri_right_inverse.
Proof. exact lower_tri_right_inverse_ok. Qed.
Theorem C13_psd_R_Rinv_tri : stmt_psd_R_Rinv_tri.
Proof. exact psd_R_Rinv_tri_ok. Qed.
(** PSD Jordan operations, Δs offset and combined shift: the packed (svec) routines of PSDOps.v
    are the matrix operations; λ_inv_circ_op inverts circ_op with Λ; affine_ds = λ∘λ *)
Theorem C13_psd_mul_Wx_mat : stmt_psd_mul_Wx_mat.
Proof. exact psd_mul_Wx_mat_ok. Qed.
Theorem C13_psd_circ_mat : stmt_psd_circ_mat.
Proof. exact psd_circ_mat_ok. Qed.
Theorem C13_psd_lam_inv_circ_mat : stmt_psd_lam_inv_circ_mat.
Proof. exact psd_lam_inv_circ_mat_ok. Qed.
Theorem C13_psd_diag_vec_mat : stmt_psd_diag_vec_mat.
Proof. exact psd_diag_vec_mat_ok. Qed.
Theorem C13_psd_affine_ds : stmt_psd_affine_ds.
Proof. exact psd_affine_ds_ok. Qed.
Theorem C13_psd_lam_inv_circ_inverse : stmt_psd_lam_inv_circ_inverse.
Proof. exact psd_lam_inv_circ_inverse_ok. Qed.
Theorem C13_psd_combined_ds_shift : stmt_psd_combined_ds_shift.
Proof. exact psd_combined_ds_shift_ok. Qed.
Theorem C13_psd_ds_offset : stmt_psd_ds_offset.
Proof. exact psd_ds_offset_ok. Qed.
(** get_Hs of the PSD cone: the packed block holds skron(A), A = R Rᵀ, which is the operator X ↦ A X A *)
Theorem C13_psd_get_Hs_entries : stmt_psd_get_Hs_entries.
Proof. exact psd_get_Hs_entries_ok. Qed.
Theorem C13_psd_skron_symmetric : stmt_psd_skron_symmetric.
Proof. exact psd_skron_symmetric_ok. Qed.
Theorem C13_psd_skron_operator : stmt_psd_skron_operator.
Proof. exact psd_skron_operator_ok. Qed.
Theorem C13_psd_RRt_symmetric : stmt_psd_RRt_symmetric.
Proof. exact psd_RRt_symmetric_ok. Qed.

(** non-vacuity *)
Example C13_ex_normalised : soc_normalised [3; 2; 2].
Proof. cbn. lra. Qed.
Example C13_ex_nn : int_nn [1; 4] /\ int_nn [4; 1].
Proof. split; repeat constructor; lra. Qed.
