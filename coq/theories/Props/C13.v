(** C13 — symmetric-cone scaling operators satisfy the Nesterov–Todd identities.
    Only statements closed by [exact]; the statements are the [stmt_*] definitions of
    Cones/SpecC13.v; proofs are in Cones/LemmasScal*.v.  Real-number interpretation of the
    models in Cones/{NN,SOC}.v, every dimension.

    PARTIAL items (full statements visible in Cones/SpecC13.v, not proved, validated on every
    run by the exact dyadic checkers of Cones/Check.v):
      - [stmt_soc_nt_identities]  W z = λ = W⁻¹ s for the (w, η, λ) computed by update_scaling
        (proved part: [C13_soc_nt_identities_partial] — w is normalised, η > 0, so every
        operator-level theorem below applies to the computed scaling);
      - [stmt_soc_get_Hs_dense_entries] / [stmt_soc_get_Hs_dense_length] (packing index of the
        dense triangle), [stmt_soc_inv_circ];
      - the PSD cone as a whole (LAPACK contracts), validated per call. *)
From Coq Require Import List Reals Lra.
Require Import Clarabel.Base.Ops Clarabel.Cones.Vec Clarabel.Cones.NN Clarabel.Cones.SOC
               Clarabel.Cones.SpecC15 Clarabel.Cones.SpecC13.
Require Import Clarabel.Cones.LemmasScalNN Clarabel.Cones.LemmasScalSOC.
Import ListNotations.
Open Scope R_scope.

(** nonnegative cone *)
Theorem C13_nn_Wz_lambda : stmt_nn_Wz_lambda.
Proof. exact nn_Wz_lambda_ok. Qed.
Theorem C13_nn_WtWz_s : stmt_nn_WtWz_s.
Proof. exact nn_WtWz_s_ok. Qed.
Theorem C13_nn_w_pos : stmt_nn_w_pos.
Proof. exact nn_w_pos_ok. Qed.
Theorem C13_nn_W_Winv_inverse : stmt_nn_W_Winv_inverse.
Proof. exact nn_W_Winv_inverse_ok. Qed.
Theorem C13_nn_mul_W_affine : stmt_nn_mul_W_affine.
Proof. exact nn_mul_W_affine_ok. Qed.
Theorem C13_nn_get_Hs_operator : stmt_nn_get_Hs_operator.
Proof. exact nn_get_Hs_operator_ok. Qed.
Theorem C13_nn_circ_inverse : stmt_nn_circ_inverse.
Proof. exact nn_circ_inverse_ok. Qed.
Theorem C13_nn_affine_ds : stmt_nn_affine_ds.
Proof. exact nn_affine_ds_ok. Qed.
Theorem C13_nn_ds_offset : stmt_nn_ds_offset.
Proof. exact nn_ds_offset_ok. Qed.
Theorem C13_nn_combined_shift : stmt_nn_combined_shift.
Proof. exact nn_combined_shift_ok. Qed.

(** second-order cone, operator level (w normalised, η ≠ 0) *)
Theorem C13_soc_W_Winv_inverse : stmt_soc_W_Winv_inverse.
Proof. exact soc_W_Winv_inverse_ok. Qed.
Theorem C13_soc_W_symmetric : stmt_soc_W_symmetric.
Proof. exact soc_W_symmetric_ok. Qed.
Theorem C13_soc_Hs_formula : stmt_soc_Hs_formula.
Proof. exact soc_Hs_formula_ok. Qed.
Theorem C13_soc_Hs_is_WW : stmt_soc_Hs_is_WW.
Proof. exact soc_Hs_is_WW_ok. Qed.
Theorem C13_soc_sparse_expansion : stmt_soc_sparse_expansion.
Proof. exact soc_sparse_expansion_ok. Qed.
(** second-order cone, update_scaling level *)
Theorem C13_soc_nt_identities_partial : stmt_soc_nt_identities_partial.
Proof. exact soc_nt_identities_partial_ok. Qed.
Theorem C13_soc_affine_ds : stmt_soc_affine_ds.
Proof. exact soc_affine_ds_ok. Qed.
Theorem C13_soc_circ_def : stmt_soc_circ_def.
Proof. exact soc_circ_def_ok. Qed.

(** non-vacuity *)
Example C13_ex_normalised : soc_normalised [3; 2; 2].
Proof. cbn. lra. Qed.
Example C13_ex_nn : int_nn [1; 4] /\ int_nn [4; 1].
Proof. split; repeat constructor; lra. Qed.
