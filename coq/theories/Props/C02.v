(** C02 — infeasibility verdicts carry a valid Farkas certificate.
    Statements as printed by Coq from the lemmas of Term/*.v (proofs there); each theorem is closed by
    [exact].  Spec predicates: Term/Spec.v; checkers: Term/Check.v; model: Term/Model.v. *)
From Coq Require Import List ZArith NArith Reals Bool.
Import ListNotations.
Require Import Clarabel.Base.Ops Clarabel.Base.Dyadic Clarabel.Term.Eval Clarabel.Term.Model
        Clarabel.Term.Spec Clarabel.Term.Check.
Require Import Clarabel.Term.LemmasVerdict Clarabel.Term.LemmasCheck Clarabel.Term.LemmasCheck2
        Clarabel.Term.LemmasExp Clarabel.Term.LemmasPsd Clarabel.Term.LemmasFinal
        Clarabel.Term.LemmasAlg Clarabel.Term.Farkas Clarabel.Term.LemmasMisc
        Clarabel.Term.FarkasGen Clarabel.Term.PairExp Clarabel.Term.PairPow Clarabel.Term.PairPsd Clarabel.Term.FarkasAll Clarabel.Term.LemmasRollback.

Theorem C02_chk_farkas_p_sound :
  forall (p : prob) (ta tr c kap : dy) (z : list dy),
         chk_farkas_p p ta tr c kap z = Holds ->
         length z = p_m p /\
         dropped_zero (probR_of p) (vecR z) /\
         (0 < d2R c)%R /\ (0 < d2R kap)%R /\ FarkasP (probR_of p) (d2R ta) (d2R tr) (d2R c) (d2R kap) (vecR z).
Proof. exact @LemmasFinal.chk_farkas_p_sound_all. Qed.

Theorem C02_chk_farkas_d_sound :
  forall (p : prob) (ta tr c kap : dy) (x s : list dy),
         chk_farkas_d p ta tr c kap x s = Holds ->
         length x = p_n p /\
         length s = p_m p /\
         (0 < d2R c)%R /\
         (0 < d2R kap)%R /\ FarkasD (probR_of p) (d2R ta) (d2R tr) (d2R c) (d2R kap) (vecR x) (vecR s).
Proof. exact @LemmasFinal.chk_farkas_d_sound_all. Qed.

Theorem C02_dot_b_invariance :
  forall (e : list R) (c : R),
         (0 < c)%R ->
         forall (b zh : list R) (nu : R),
         (0 < nu)%R -> dot OpsR (eq_b e b) zh = (c * nu * dot OpsR b (un_z e c zh nu))%R.
Proof. exact @LemmasAlg.dot_b_invariance. Qed.

Theorem C02_dot_q_invariance :
  forall (d : list R) (c : R) (q xh : list R) (nu : R),
         (0 < nu)%R -> dot OpsR (eq_q d c q) xh = (c * nu * dot OpsR q (un_x d xh nu))%R.
Proof. exact @LemmasAlg.dot_q_invariance. Qed.

Theorem C02_primal_cert :
  forall (d e : list R) (c kap : R),
         allpos d ->
         (0 < c)%R ->
         (0 < kap)%R ->
         forall (A : smat R) (b zh : list R) (n : nat),
         length d = n ->
         forall ta tr rpi : R,
         let z := un_z e c zh kap in
         let bz := dot OpsR (eq_b e b) zh in
         rpi =
         (norm_scaled OpsR (map Ropp (mtv OpsR (eq_A d e A) zh n)) (map RinvImpl.Rinv d) * (1 / c) /
          Rmax 1 (norm_scaled OpsR zh e * (1 / c)))%R ->
         (bz < - ta)%R /\ (rpi < - tr * bz)%R ->
         (c * kap * dot OpsR b z < - ta)%R /\
         (norm2 (mtv OpsR A z n) < tr * c * - dot OpsR b z * Rmax 1 (kap * norm2 z))%R.
Proof. exact @LemmasAlg.C02_primal_cert. Qed.

Theorem C02_dual_cert :
  forall (d e : list R) (c kap : R),
         allpos d ->
         allpos e ->
         (0 < c)%R ->
         (0 < kap)%R ->
         forall (P A : smat R) (q xh sh : list R) (n : nat),
         length d = n ->
         forall ta tr rdi : R,
         let x := un_x d xh kap in
         let s := un_s e sh kap in
         let qx := dot OpsR (eq_q d c q) xh in
         let normx := norm_scaled OpsR xh d in
         let norms := norm_scaled OpsR sh (map RinvImpl.Rinv e) in
         length P = n ->
         rdi =
         Rmax (norm_scaled OpsR (mv OpsR (eq_P d c P) xh) (map RinvImpl.Rinv d) / Rmax 1 normx)
           (norm_scaled OpsR (vadd OpsR (mv OpsR (eq_A d e A) xh) sh) (map RinvImpl.Rinv e) /
            Rmax 1 (normx + norms)) ->
         (qx < - ta)%R /\ (rdi < - tr * qx)%R ->
         (c * kap * dot OpsR q x < - ta)%R /\
         (norm2 (mv OpsR P x) < tr * - dot OpsR q x * Rmax 1 (kap * norm2 x))%R /\
         (norm2 (vadd OpsR (mv OpsR A x) s) < tr * c * - dot OpsR q x * Rmax 1 (kap * (norm2 x + norm2 s)))%R.
Proof. exact @LemmasAlg.C02_dual_cert. Qed.

Theorem C02_primal_user :
  forall (d e : list R) (c : R),
         allpos d ->
         (0 < c)%R ->
         forall (P A : smat R) (q b : list R) (normb normq : R) (xh sh zh : list R) (tau kap : R) (n : nat),
         length d = n ->
         length q = n ->
         forall (i0 : info) (time ta tr : R),
         (0 < kap)%R ->
         is_primal_infeasible OpsR
           (info_update OpsR i0 (equil_data d e c P A q b normb normq)
              {| vx := xh; vs := sh; vz := zh; vtau := tau; vkap := kap |}
              (residuals_update OpsR {| vx := xh; vs := sh; vz := zh; vtau := tau; vkap := kap |}
                 (equil_data d e c P A q b normb normq)) time)
           (dot_bz
              (residuals_update OpsR {| vx := xh; vs := sh; vz := zh; vtau := tau; vkap := kap |}
                 (equil_data d e c P A q b normb normq))) ta tr = true ->
         let zu := un_z e c zh kap in
         (c * kap * dot OpsR b zu < - ta)%R /\
         (norm2 (mtv OpsR A zu n) < tr * c * - dot OpsR b zu * Rmax 1 (kap * norm2 zu))%R.
Proof. exact @LemmasAlg.C02_primal_user. Qed.

Theorem C02_dual_user :
  forall (d e : list R) (c : R),
         allpos d ->
         allpos e ->
         (0 < c)%R ->
         forall (P A : smat R) (q b : list R) (normb normq : R) (xh sh zh : list R) (tau kap : R) (n : nat),
         length d = n ->
         forall (i0 : info) (time ta tr : R),
         (0 < kap)%R ->
         length P = n ->
         is_dual_infeasible OpsR
           (info_update OpsR i0 (equil_data d e c P A q b normb normq)
              {| vx := xh; vs := sh; vz := zh; vtau := tau; vkap := kap |}
              (residuals_update OpsR {| vx := xh; vs := sh; vz := zh; vtau := tau; vkap := kap |}
                 (equil_data d e c P A q b normb normq)) time)
           (dot_qx
              (residuals_update OpsR {| vx := xh; vs := sh; vz := zh; vtau := tau; vkap := kap |}
                 (equil_data d e c P A q b normb normq))) ta tr = true ->
         let xu := un_x d xh kap in
         let su := un_s e sh kap in
         (c * kap * dot OpsR q xu < - ta)%R /\
         (norm2 (mv OpsR P xu) < tr * - dot OpsR q xu * Rmax 1 (kap * norm2 xu))%R /\
         (norm2 (vadd OpsR (mv OpsR A xu) su) < tr * c * - dot OpsR q xu * Rmax 1 (kap * (norm2 xu + norm2 su)))%R.
Proof. exact @LemmasAlg.C02_dual_user. Qed.

Theorem C02_check_convergence_pinf :
  forall (i : info) (bz qx tga tgr tf ta tr tk : R) (solved pinf dinf : status),
         check_convergence OpsR i bz qx tga tgr tf ta tr tk solved pinf dinf = pinf ->
         pinf <> st i ->
         pinf <> solved ->
         pinf <> dinf -> (bz < - ta)%R /\ (res_primal_inf i < - tr * bz)%R /\ (1 / tk * 1000 < ktratio i)%R.
Proof. exact @LemmasAlg.check_convergence_pinf. Qed.

Theorem C02_check_convergence_dinf :
  forall (i : info) (bz qx tga tgr tf ta tr tk : R) (solved pinf dinf : status),
         check_convergence OpsR i bz qx tga tgr tf ta tr tk solved pinf dinf = dinf ->
         dinf <> st i ->
         dinf <> solved ->
         dinf <> pinf -> (qx < - ta)%R /\ (res_dual_inf i < - tr * qx)%R /\ (1 / tk * 1000 < ktratio i)%R.
Proof. exact @LemmasAlg.check_convergence_dinf. Qed.

Theorem C02_full_status_pinf :
  forall (i : info) (bz qx : R) (se : settings) (iter : nat),
         st (check_termination OpsR i bz qx se iter) = St_PrimalInfeasible ->
         st i = St_Unsolved ->
         (bz < - tol_infeas_abs se)%R /\
         (res_primal_inf i < - tol_infeas_rel se * bz)%R /\ (1 / tol_ktratio se * 1000 < ktratio i)%R.
Proof. exact @LemmasAlg.full_status_pinf. Qed.

Theorem C02_full_status_dinf :
  forall (i : info) (bz qx : R) (se : settings) (iter : nat),
         st (check_termination OpsR i bz qx se iter) = St_DualInfeasible ->
         st i = St_Unsolved ->
         (qx < - tol_infeas_abs se)%R /\
         (res_dual_inf i < - tol_infeas_rel se * qx)%R /\ (1 / tol_ktratio se * 1000 < ktratio i)%R.
Proof. exact @LemmasAlg.full_status_dinf. Qed.

Theorem C02_nan :
  forall (T : Type) (O : Ops T) (d : data) (v : vars) (i : info) (keep : option (list bool)) (infb : T),
         let sol := solution_post_process O d v i keep infb in
         (obj_val sol = None <-> is_infeasible (st i) = true) /\
         (obj_val_dual sol = None <-> is_infeasible (st i) = true) /\
         sol_status sol = st i /\
         sol_iterations sol = iterations i /\ r_prim sol = res_primal i /\ r_dual sol = res_dual i.
Proof. exact @LemmasMisc.objectives_nan_iff. Qed.

Theorem C02_pair_exp :
  forall s z : list R, in_exp s -> in_exp_dual z -> (0 <= dot OpsR s z)%R.
Proof. exact @PairExp.pair_exp. Qed.

Theorem C02_pair_pow :
  forall (p q : nat) (s z : list R),
         (0 < p < q)%nat -> in_pow p q s -> in_pow_dual p q z -> (0 <= dot OpsR s z)%R.
Proof. exact @PairPow.pair_pow. Qed.

Theorem C02_pair_pow_real :
  forall al x y z u v w : R,
         (0 < al < 1)%R ->
         (0 <= x)%R ->
         (0 <= y)%R ->
         (0 <= u)%R ->
         (0 <= v)%R ->
         (Rabs z <= pw x al * pw y (1 - al))%R ->
         (Rabs w <= pw (u / al) al * pw (v / (1 - al)) (1 - al))%R -> (0 <= x * u + y * v + z * w)%R.
Proof. exact @PairPow.pair_pow_real. Qed.

Theorem C02_pair_genpow :
  forall (ps : list nat) (q : nat) (s z : list R),
         list_sum ps = q ->
         (0 < q)%nat ->
         (length ps <= length s)%nat ->
         length s = length z -> in_genpow ps q s -> in_genpow_dual ps q z -> (0 <= dot OpsR s z)%R.
Proof. exact @PairPow.pair_genpow. Qed.

Theorem C02_pair_psd :
  forall (n : nat) (s z : list R),
         length s = (n * (n + 1) / 2)%nat ->
         length z = (n * (n + 1) / 2)%nat -> in_psd n s -> in_psd n z -> (0 <= dot OpsR s z)%R.
Proof. exact @PairPsd.pair_psd. Qed.

Theorem C02_pair_kind_all :
  forall k : coneD, pair_kind k.
Proof. exact @FarkasAll.pair_kind_all. Qed.

Theorem C02_ray_kind_all :
  forall k : coneD, ray_kind k.
Proof. exact @FarkasAll.ray_kind_all. Qed.

Theorem C02_pair_K :
  forall (K : list coneD) (s z : list R),
         InK K s -> InKdual K z -> length s = cones_dim K -> length s = length z -> (0 <= dot OpsR s z)%R.
Proof. exact @FarkasAll.pair_K_all. Qed.

Theorem C02_farkas_sound :
  forall p : probRr,
         cols_lt (r_A p) (r_n p) ->
         length (r_A p) = r_m p ->
         cones_dim (r_K p) = r_m p ->
         forall z : list R,
         length z = r_m p ->
         InKdual (r_K p) z ->
         mtv OpsR (r_A p) z (r_n p) = repeat 0%R (r_n p) -> (dot OpsR (r_b p) z < 0)%R -> ~ primal_feasible p.
Proof. exact @FarkasAll.farkas_sound_all. Qed.

Theorem C02_farkas_quantitative :
  forall p : probRr,
         cols_lt (r_A p) (r_n p) ->
         length (r_A p) = r_m p ->
         cones_dim (r_K p) = r_m p ->
         forall (z : list R) (delta : R),
         length z = r_m p ->
         InKdual (r_K p) z ->
         (norm2 (mtv OpsR (r_A p) z (r_n p)) <= delta)%R ->
         forall x s : list R,
         length x = r_n p ->
         length s = r_m p ->
         vadd OpsR (mv OpsR (r_A p) x) s = r_b p ->
         InK (r_K p) s -> (- dot OpsR (r_b p) z <= delta * norm2 x)%R.
Proof. exact @FarkasAll.farkas_quantitative_all. Qed.

Theorem C02_unbounded_sound :
  forall p : probRr,
         length (r_A p) = r_m p ->
         smat_sym (r_P p) (r_n p) ->
         forall x s x0 s0 : list R,
         recession p x s ->
         (dot OpsR (r_q p) x < 0)%R ->
         length x0 = r_n p ->
         length s0 = r_m p ->
         vadd OpsR (mv OpsR (r_A p) x0) s0 = r_b p ->
         InK (r_K p) s0 ->
         forall t : R,
         (0 <= t)%R ->
         let x1 := vadd OpsR x0 (vscale OpsR t x) in
         let s1 := vadd OpsR s0 (vscale OpsR t s) in
         (length x1 = r_n p /\ length s1 = r_m p /\ vadd OpsR (mv OpsR (r_A p) x1) s1 = r_b p /\ InK (r_K p) s1) /\
         cost_p p x1 = (cost_p p x0 + t * dot OpsR (r_q p) x)%R.
Proof. exact @FarkasAll.unbounded_sound_all. Qed.

Theorem C02_nonvacuous_infeasible :
  ~ primal_feasible ex_p.
Proof. exact @Farkas.ex_infeasible. Qed.

Theorem C02_nonvacuous_infeasible_exp :
  ~ primal_feasible exA.
Proof. exact @FarkasAll.exA_infeasible. Qed.

Theorem C02_nonvacuous_cert :
  let z := un_z ex_e ex_c ex2_zh ex2_kap in
         (ex_c * ex2_kap * dot OpsR ex2_b z < - (1 / 10000))%R /\
         (norm2 (mtv OpsR ex_A z 1) < 1 / 10000 * ex_c * - dot OpsR ex2_b z * Rmax 1 (ex2_kap * norm2 z))%R.
Proof. exact @LemmasAlg.ex2_C02. Qed.

