(** C05 — equivalent formulations and configurations give consistent answers.
    Theorems over the reals, every dimension (statements: Cross/Spec.v).  They are what
    makes "consistent" checkable: an exact identity relating any two runs of the same data,
    weak duality across runs with the explicitly computable residual slack, the resulting
    bound on the difference of two runs' objectives, and the effect of scaling the
    objective.  Runtime variations (threads, backends, concurrency) are observed by the run,
    not proved. *)
From Coq Require Import Reals.
Require Import Clarabel.Newton.Model Clarabel.Cross.Spec Clarabel.Cross.Lemmas.

Theorem C05_cross_identity : stmt_cross_identity.
Proof. exact cross_identity_ok. Qed.
Theorem C05_cross_weak_duality : stmt_cross_weak_duality.
Proof. exact cross_weak_duality_ok. Qed.
Theorem C05_objectives_agree : stmt_objectives_agree.
Proof. exact objectives_agree_ok. Qed.
Theorem C05_scale_objective : stmt_scale_objective.
Proof. exact scale_objective_ok. Qed.

(** Permuting the variables / the constraint rows (hence: permuting rows inside a cone,
    reordering cones, splitting or merging nonnegative cones, which are row permutations
    that respect the cone structure) is a bijection between the points of the two
    formulations that preserves both objectives and maps the residuals entry to entry. *)
From Coq Require Import List Permutation.
Require Import Clarabel.Cross.Perm.

Theorem C05_perm_vars_pobj :
  forall (n : nat) (P : mat) (q : vec) (p : list nat), Permutation p (seq 0 n) ->
  forall x : vec, pobj n (Pv P p) (qv q p) (xv p x) = pobj n P q x.
Proof. exact perm_vars_pobj. Qed.
Theorem C05_perm_vars_dobj :
  forall (n m : nat) (P : mat) (b : vec) (p : list nat), Permutation p (seq 0 n) ->
  forall x z : vec, dobj n m (Pv P p) b (xv p x) z = dobj n m P b x z.
Proof. exact perm_vars_dobj. Qed.
Theorem C05_perm_vars_rprim :
  forall (n : nat) (A : mat) (b : vec) (p : list nat), Permutation p (seq 0 n) ->
  forall (x s : vec) (i : nat), rprim n (Av A p) b (xv p x) s i = rprim n A b x s i.
Proof. exact perm_vars_rprim. Qed.
Theorem C05_perm_vars_rdual :
  forall (n m : nat) (P A : mat) (q : vec) (p : list nat), Permutation p (seq 0 n) ->
  forall (x z : vec) (j : nat),
    rdual n m (Pv P p) (Av A p) (qv q p) (xv p x) z j = rdual n m P A q x z (nth j p 0%nat).
Proof. exact perm_vars_rdual. Qed.
Theorem C05_perm_rows_rprim :
  forall (n : nat) (A : mat) (b : vec) (r : list nat) (x s : vec) (i : nat),
    rprim n (Ar A r) (br b r) x (rowv r s) i = rprim n A b x s (nth i r 0%nat).
Proof. exact perm_rows_rprim. Qed.
Theorem C05_perm_rows_rdual :
  forall (n m : nat) (P A : mat) (q : vec) (r : list nat), Permutation r (seq 0 m) ->
  forall (x z : vec) (j : nat), rdual n m P (Ar A r) q x (rowv r z) j = rdual n m P A q x z j.
Proof. exact perm_rows_rdual. Qed.
Theorem C05_perm_rows_dobj :
  forall (n m : nat) (P : mat) (b : vec) (r : list nat), Permutation r (seq 0 m) ->
  forall x z : vec, dobj n m P (br b r) x (rowv r z) = dobj n m P b x z.
Proof. exact perm_rows_dobj. Qed.
Theorem C05_perm_rows_pairing :
  forall (m : nat) (r : list nat), Permutation r (seq 0 m) ->
  forall s z : vec, dot m (rowv r s) (rowv r z) = dot m s z.
Proof. exact perm_rows_pairing. Qed.
