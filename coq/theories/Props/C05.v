(** C05 — equivalent formulations and configurations give consistent answers.
    Theorems over the reals, every dimension (statements: Cross/Spec.v).  They are what
    makes "consistent" checkable: an exact identity relating any two runs of the same data,
    weak duality across runs with the explicitly computable residual slack, the resulting
    bound on the difference of two runs' objectives, and the effect of scaling the
    objective.  Runtime variations (threads, backends, concurrency) are observed by the run,
    not proved. *)
From Coq Require Import Reals.
Require Import Clarabel.Newton.Model Clarabel.Cross.Spec Clarabel.Cross.Lemmas.

Theorem C05_cross_identity : stmt_cross_identity.
Proof. exact cross_identity_ok. Qed.
Theorem C05_cross_weak_duality : stmt_cross_weak_duality.
Proof. exact cross_weak_duality_ok. Qed.
Theorem C05_objectives_agree : stmt_objectives_agree.
Proof. exact objectives_agree_ok. Qed.
Theorem C05_scale_objective : stmt_scale_objective.
Proof. exact scale_objective_ok. Qed.
