(** C08 — updating problem data in place is equivalent to rebuilding the solver.

    Only statements closed by [exact]; the statements are the [stmt_*] definitions of
    Update/Spec.v, proofs are in Update/Lemmas*.v.  The model is Update/Model.v (a
    branch-by-branch transcription of data_updating.rs, the norm caches of problemdata.rs and
    the KKT value scatter).  All theorems hold for every state, every operation of every
    argument form and every history, over any commutative ring ([RingLaws O]; instantiated
    at Z, where the correspondence's exact stream runs, and at R).

    Statement of the property, sentence by sentence:
    - "after any sequence of accepted updates ... interleaved with solves, the next solve
      behaves as a solve of a freshly constructed solver on the final data":
      [C08_history_inv] (the solver's internal problem stays the (d,e,c)-scaling of the user's
      final data, the KKT copy stays in sync, caches are empty or recomputable),
      [C08_accepted_refines] + [C08_step_frame] + [C08_step_locality] (an accepted operation
      is exactly that operation on the user's data and changes nothing else) and
      [C08_fresh_vs_updated_partial] (updated and fresh internal problems are two diagonal
      scalings of the same user problem).  PARTIAL: that two positive diagonal scalings of
      one problem have the same verdict class / objective / certificates after unscaling is
      C10's theorem and is not re-proved here; the numerical outcome of a solve is observed
      by the correspondence run (updated vs fresh solver), not proved; a fresh solver also
      caps b at the infinity bound, which update_b does not (hypothesis: the user's b is
      below the bound; reported as an observation by the check).
    - "rejected updates return an error — leaving the data untouched for whole-vector and
      matrix forms": [C08_update_result], [C08_upd_mat_result], [C08_upd_vec_result] (which
      error, when), [C08_rejected_whole_untouched], [C08_blocked_untouched]
      (presolve / chordal decomposition active: every form refused, nothing written).
      For update_data the sentence is FALSE of the code: [C08_update_data_seq] shows it is the
      cut sequence of the four updates and [C08_update_data_not_atomic_refuted] gives a
      rejected call with whole-form arguments that changed P (known finding; it is untouched
      when the first component is the rejected one: [C08_update_data_rejected_first]).
    - the exempt form: [C08_rejected_partial_prefix_witness] (F11: a rejected index-value
      update leaves a prefix applied and the KKT copy stale — observation, not a violation).
    - "empty updates are no-ops": [C08_empty_noop].
    - iterate state: [C08_default_start_fresh] (the start of a solve — x, s, z, tau, kappa — is a
      function of the problem data when the initial KKT solves succeed; tied to the code by the
      bitwise twin-trajectory comparison of the correspondence run). *)
From Coq Require Import List ZArith Reals.
Require Import Clarabel.Base.Ops Clarabel.Csc.Model Clarabel.Update.Model Clarabel.Update.Spec.
Require Import Clarabel.Update.LemmasUpd Clarabel.Update.LemmasStep Clarabel.Update.LemmasInv
               Clarabel.Update.LemmasWit Clarabel.Update.LemmasNorm
               Clarabel.Update.Start Clarabel.Update.LemmasStart.

Theorem C08_blocked_untouched : forall T (O : Ops T), stmt_blocked_untouched O.
Proof. exact @blocked_untouched_ok. Qed.
Theorem C08_step_frame : forall T (O : Ops T), stmt_step_frame O.
Proof. exact @step_frame_ok. Qed.
Theorem C08_step_locality : forall T (O : Ops T), stmt_step_locality O.
Proof. exact @step_locality_ok. Qed.
Theorem C08_upd_mat_result : forall T (O : Ops T), stmt_upd_mat_result O.
Proof. exact @upd_mat_result_ok. Qed.
Theorem C08_upd_vec_result : forall T (O : Ops T), stmt_upd_vec_result O.
Proof. exact @upd_vec_result_ok. Qed.
Theorem C08_update_result : forall T (O : Ops T), stmt_update_result O.
Proof. exact @update_result_ok. Qed.
Theorem C08_rejected_whole_untouched : forall T (O : Ops T), stmt_rejected_whole_untouched O.
Proof. exact @rejected_whole_untouched_ok. Qed.
Theorem C08_update_data_seq : forall T (O : Ops T), stmt_update_data_seq O.
Proof. exact @update_data_seq_ok. Qed.
Theorem C08_update_data_rejected_first : forall T (O : Ops T), stmt_update_data_rejected_first O.
Proof. exact @update_data_rejected_first_ok. Qed.
Theorem C08_empty_noop : forall T (O : Ops T), stmt_empty_noop O.
Proof. exact @empty_noop_ok. Qed.
Theorem C08_accepted_refines : forall T (O : Ops T), stmt_accepted_refines O.
Proof. exact @accepted_refines_ok. Qed.
Theorem C08_step_preserves_inv : forall T (O : Ops T), stmt_step_preserves_inv O.
Proof. intros T O H. exact (@step_preserves_inv_ok T O H H). Qed.
Theorem C08_history_inv : forall T (O : Ops T), stmt_history_inv O.
Proof. intros T O H. exact (@history_inv_ok T O H H). Qed.
Theorem C08_fresh_vs_updated_partial : forall T (O : Ops T), stmt_fresh_vs_updated O.
Proof. intros T O H. exact (@fresh_vs_updated_ok T O H H). Qed.
Theorem C08_rejected_partial_prefix_witness : stmt_rejected_partial_prefix_witness.
Proof. exact rejected_partial_prefix_witness_ok. Qed.
Theorem C08_update_data_not_atomic_refuted : stmt_update_data_not_atomic_refuted.
Proof. exact update_data_not_atomic_refuted_ok. Qed.

Theorem C08_norm_true_R : stmt_norm_true_R.
Proof. exact norm_true_R_ok. Qed.

(** every solve starts from the data alone (iterate state does not survive a solve) *)
Theorem C08_default_start_fresh : stmt_default_start_fresh.
Proof. exact default_start_fresh_ok. Qed.
Theorem C08_default_start_leak_witness : stmt_default_start_leak_witness.
Proof. exact default_start_leak_witness_ok. Qed.

(** the ring hypothesis is met by the integers and the reals *)
Theorem C08_laws_Z : RingLaws OpsZ. Proof. exact RingLawsZ. Qed.
Theorem C08_laws_R : RingLaws OpsR. Proof. exact RingLawsR. Qed.

(** non-vacuity: a concrete state satisfies the invariant, and a mixed history (accepted
    updates of all four items in several forms, solves, a rejected whole-vector update, a
    pattern-mismatched matrix, an update_data call) satisfies the hypotheses of
    [C08_history_inv]; its result kinds are as listed *)
Example C08_inv_nonvacuous : Inv OpsZ wS wU /\ HistOk OpsZ wS wOps.
Proof. split; [exact wInv | exact wHistOk]. Qed.
Example C08_example_results :
  map (fun sr => snd sr) (trace OpsZ wS wOps) =
  (ROk :: RSolveDone :: ROk :: RErr EDim :: ROk :: ROk :: RErr ESparsity :: RSolveDone :: nil).
Proof. exact wResults. Qed.
Example C08_example_final_inv : Inv OpsZ (run OpsZ wS wOps) (ghost_run OpsZ wS wU wOps).
Proof. exact (C08_history_inv Z OpsZ C08_laws_Z wOps wS wU wInv wHistOk). Qed.
