(** C15 — cone step lengths are safe and tight.
    Only statements closed by [exact]; the statements are the [stmt_*] definitions of
    Cones/SpecC15.v; proofs are in Cones/LemmasStep*.v.  All theorems are about the
    real-number interpretation of the models in Cones/{NN,SOC,Step}.v, for every dimension. *)
From Coq Require Import List Reals Lra.
Require Import Clarabel.Base.Ops Clarabel.Cones.Vec Clarabel.Cones.NN Clarabel.Cones.SOC
               Clarabel.Cones.Step Clarabel.Cones.SpecC15.
Require Import Clarabel.Cones.LemmasStepNN Clarabel.Cones.LemmasStepSOC Clarabel.Cones.LemmasStepMisc.
Require Import Clarabel.Cones.SpecShiftFloat Clarabel.Cones.LemmasShiftFloat.
Require Import Clarabel.Cones.SpecPSD Clarabel.Cones.Mat Clarabel.Cones.SpecPSDScal Clarabel.Cones.LemmasPSDStep
               Clarabel.Cones.LemmasPSDIndex.
Import ListNotations.
Open Scope R_scope.

(** nonnegative cone *)
Theorem C15_nn_step_le_max : stmt_nn_step_le_max.
Proof. exact nn_step_le_max_ok. Qed.
Theorem C15_nn_step_nonneg : stmt_nn_step_nonneg.
Proof. exact nn_step_nonneg_ok. Qed.
Theorem C15_nn_step_safe : stmt_nn_step_safe.
Proof. exact nn_step_safe_ok. Qed.
Theorem C15_nn_step_exact : stmt_nn_step_exact.
Proof. exact nn_step_exact_ok. Qed.

(** second-order cone, current (repaired) source *)
Theorem C15_soc_step_le_max : stmt_soc_step_le_max (soc_step OpsR).
Proof. exact soc_step_le_max_ok. Qed.
Theorem C15_soc_step_safe : stmt_soc_step_safe (soc_step OpsR).
Proof. exact soc_step_safe_ok. Qed.
Theorem C15_soc_step_exact : stmt_soc_step_exact (soc_step OpsR).
Proof. exact soc_step_exact_ok. Qed.
(** second-order cone, pinned source: safety is false (finding F3, repaired by a fix: commit) *)
Theorem C15_soc_step_refuted : stmt_soc_step_refuted (soc_step_old OpsR).
Proof. exact soc_step_refuted_ok. Qed.

(** backtracking line search of the nonsymmetric cones, for an arbitrary membership test *)
Theorem C15_backtrack_spec : stmt_backtrack_spec.
Proof. exact backtrack_spec_ok. Qed.
Theorem C15_backtrack_le_max : stmt_backtrack_le_max.
Proof. exact backtrack_le_max_ok. Qed.
Theorem C15_backtrack_terminates : stmt_backtrack_terminates.
Proof. exact backtrack_terminates_ok. Qed.

(** composite cone (order of the two passes as coded, DESIGN F10) *)
Theorem C15_composite_step_spec : stmt_composite_step_spec.
Proof. exact composite_step_spec_ok. Qed.
Theorem C15_composite_step_tight : stmt_composite_step_tight.
Proof. exact composite_step_tight_ok. Qed.

(** margins, unit shifts, interior shift *)
Theorem C15_margin_shift_nn : stmt_margin_shift_nn.
Proof. exact margin_shift_nn_ok. Qed.
Theorem C15_margin_shift_soc : stmt_margin_shift_soc.
Proof. exact margin_shift_soc_ok. Qed.
Theorem C15_margin_interior_nn : stmt_margin_interior_nn.
Proof. exact margin_interior_nn_ok. Qed.
Theorem C15_margin_interior_soc : stmt_margin_interior_soc.
Proof. exact margin_interior_soc_ok. Qed.
Theorem C15_shift_places_interior : stmt_shift_places_interior.
Proof. exact shift_places_interior_ok. Qed.

(** known finding F13: in binary64 the shift of the finite SOC vector (-1e17, 3, 4) ends at
    (1, 3, 4), outside the cone (absorption); the theorem above is about the reals *)
Theorem C15_shift_float_absorption_witness : stmt_shift_float_absorption_witness.
Proof. exact shift_float_absorption_witness_ok. Qed.

(** PSD cone, every n.  Hypotheses (validated per call): R R⁻¹ = I, RᵀZR = Λ resp. R⁻¹SR⁻ᵀ = Λ, λ > 0,
    and the eigenvalue used is a lower bound of the spectrum of the scaled direction.  Then every
    t in [0, step] keeps X + tΔX positive semidefinite and the step is in [0, α_max]. *)
Theorem C15_psd_step_safe : stmt_psd_step_safe.
Proof. exact psd_step_safe_ok. Qed.
Theorem C15_psd_step_z : stmt_psd_step_z.
Proof. exact psd_step_z_ok. Qed.
Theorem C15_psd_step_s : stmt_psd_step_s.
Proof. exact psd_step_s_ok. Qed.
(** margins / unit shift: with γ the minimum eigenvalue, M + αI is PSD iff α >= −γ and positive
    definite when α > −γ; the packed shift adds α to the diagonal and nothing else *)
Theorem C15_psd_shift_iff : stmt_psd_shift_iff.
Proof. exact psd_shift_iff_ok. Qed.
Theorem C15_psd_shift_strict : stmt_psd_shift_strict.
Proof. exact psd_shift_strict_ok. Qed.
Theorem C15_psd_unit_shift_mat : stmt_psd_unit_shift_mat.
Proof. exact psd_unit_shift_mat_ok. Qed.

(** non-vacuity: the hypotheses are met by concrete non-trivial instances, and the repaired
    routine returns the true bound 1/2 on the former witness of F3 *)
Example C15_ex_int_soc : int_soc [2; 1; 1] /\ length [2; 1; 1] = length [-1; 0; 3].
Proof. cbn. split; [lra | reflexivity]. Qed.
Example C15_ex_int_nn : in_nn [1; 2] /\ nn_step OpsR [1; 2] [-2; 1] 1 = 1 / 2.
Proof.
  split; [repeat constructor; lra|]. rewrite !nn_step_cons. cbn [nn_step].
  rewrite (proj2 (Rltb_true (-2) 0)) by lra. rewrite (proj2 (Rltb_false 1 0)) by lra.
  rewrite Rmin_right; lra.
Qed.
Example C15_ex_F3_repaired : soc_step OpsR [1; 0] [-1; 1] 1 = 1 / 2.
Proof. exact soc_step_witness_fixed. Qed.
Example C15_ex_F3_pinned : soc_step_old OpsR [1; 0] [-1; 1] 1 = 1.
Proof. exact soc_step_old_witness. Qed.
