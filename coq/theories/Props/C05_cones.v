(** C05 — the cone constraints under the equivalent formulations (Cross/Cones.v; cone
    predicates of Term/Spec.v over the reals, every dimension and every cone kind). *)
From Coq Require Import Reals List Permutation NArith.
Require Import Clarabel.Base.Ops Clarabel.Term.Eval Clarabel.Term.Spec Clarabel.Term.Farkas Clarabel.Cross.Cones.

(** the cone side of the equivalent formulations (Cross/Cones.v, cone predicates of Term/Spec.v) *)
Theorem C05_cone_nn_rows_permuted :
  forall (n : N) (v w : list R), Permutation v w -> in_cone (KNN n) v -> in_cone (KNN n) w.
Proof. exact cone_nn_rows_permuted. Qed.
Theorem C05_cone_soc_tail_permuted :
  forall (n : N) (t : R) (r r' : list R),
    Permutation r r' -> in_cone (KSOC n) (t :: r) -> in_cone (KSOC n) (t :: r').
Proof. exact cone_soc_tail_permuted. Qed.
Theorem C05_cones_reordered :
  forall (K1 K2 : list coneD) (v1 v2 : list R),
    length v1 = cones_dim K1 -> length v2 = cones_dim K2 ->
    (InK (K1 ++ K2) (v1 ++ v2) <-> InK (K2 ++ K1) (v2 ++ v1)) /\
    (InKdual (K1 ++ K2) (v1 ++ v2) <-> InKdual (K2 ++ K1) (v2 ++ v1)).
Proof. exact cones_reordered. Qed.
Theorem C05_reorder_pairing :
  forall s1 s2 z1 z2 : list R, length s1 = length z1 -> length s2 = length z2 ->
    dot OpsR (s1 ++ s2) (z1 ++ z2) = dot OpsR (s2 ++ s1) (z2 ++ z1).
Proof. exact reorder_pairing. Qed.
Theorem C05_nn_cones_merged :
  forall (a b : N) (K : list coneD) (v : list R),
    (N.to_nat a + N.to_nat b <= length v)%nat ->
    (InK (KNN a :: KNN b :: K) v <-> InK (KNN (a + b) :: K) v) /\
    (InKdual (KNN a :: KNN b :: K) v <-> InKdual (KNN (a + b) :: K) v).
Proof. exact nn_cones_merged. Qed.
Theorem C05_objective_scaled_dual_feasible :
  forall (K : list coneD) (lam : R) (z : list R),
    (0 < lam)%R -> InKdual K z -> InKdual K (vscale OpsR lam z).
Proof. exact objective_scaled_dual_feasible. Qed.
