(** C12 — the sparse LDL' engine factors, solves and refactors correctly or reports errors.
    Only statements closed by [exact]; the statements are the [stmt_*] definitions of
    Qdldl/Spec*.v (files that contain nothing else); proofs are in Qdldl/Lemmas*.v.
    All theorems are about the Gallina model Qdldl/Model.v (tied to qdldl.rs by the
    correspondence run) and hold for every input of every size.

    [C12_factor_correct]: over any commutative ring in which non-zero elements have reciprocals,
    when regularisation is off and the numeric factorisation returns Ok, (I+L) D (I+L)' equals
    the (permuted) input on the upper triangle, entrywise — no boolean hypothesis left: the
    elimination-tree lemmas ([C12_etree_ancestor], [C12_reach_closed_from_etree]) discharge the
    reach condition.  *)
From Coq Require Import List ZArith.
Require Import Clarabel.Base.Ops Clarabel.Qdldl.Model Clarabel.Qdldl.Spec.
Require Import Clarabel.Qdldl.LemmasPerm Clarabel.Qdldl.LemmasPermSym Clarabel.Qdldl.LemmasFactor
        Clarabel.Qdldl.LemmasSolve Clarabel.Qdldl.LemmasRefactor Clarabel.Qdldl.LemmasCompose.
Require Import Clarabel.Qdldl.SpecChk Clarabel.Qdldl.LemmasChk.
Require Import Clarabel.Qdldl.SpecFactorCorrect Clarabel.Qdldl.LemmasFactorCorrect.
Require Import Clarabel.Qdldl.SpecBounds Clarabel.Qdldl.LemmasBounds.
Require Import Clarabel.Qdldl.SpecEtree Clarabel.Qdldl.LemmasEtreeAnc Clarabel.Qdldl.LemmasReach
        Clarabel.Qdldl.LemmasFactorCorrect3 Clarabel.Qdldl.LemmasFactorCorrectFinal
        Clarabel.Qdldl.SpecFuel Clarabel.Qdldl.LemmasFuel Clarabel.Qdldl.SpecPermNoDup Clarabel.Qdldl.LemmasPermNoDup.
Require Import Clarabel.Qdldl.SpecLnz Clarabel.Qdldl.LemmasLnzEtree Clarabel.Qdldl.LemmasLnzFactor
        Clarabel.Qdldl.SpecPermEntries Clarabel.Qdldl.LemmasPermEntries
        Clarabel.Qdldl.SpecEndToEnd Clarabel.Qdldl.LemmasGlue Clarabel.Qdldl.LemmasEndToEnd.
Require Import Clarabel.Qdldl.ModelDriver Clarabel.Qdldl.SpecDriverIR Clarabel.Qdldl.LemmasDriverIR
        Clarabel.Qdldl.SpecDriverReg Clarabel.Qdldl.LemmasDriverReg
        Clarabel.Qdldl.SpecDriverMisc Clarabel.Qdldl.LemmasDriverMisc.
Require Import Clarabel.Qdldl.ModelHistory Clarabel.Qdldl.SpecHistory Clarabel.Qdldl.LemmasHistory.

(** (a) ordering vectors: accepted iff a permutation, the result is the inverse; the code
    before the fix is refuted (finding F1) *)
Theorem C12_invperm_ok_iff_perm : stmt_invperm_ok_iff_perm.
Proof. exact invperm_ok_iff_perm_ok. Qed.
Theorem C12_invperm_inverse : stmt_invperm_inverse.
Proof. exact invperm_inverse_ok. Qed.
Theorem C12_invperm_err_kind : stmt_invperm_err_kind.
Proof. exact invperm_err_kind_ok. Qed.
Theorem C12_invperm_refuted : stmt_invperm_refuted.
Proof. exact invperm_refuted_ok. Qed.

(** (b) structure check and symmetric permutation *)
Theorem C12_check_structure_spec : stmt_check_structure_spec.
Proof. exact check_structure_spec_ok. Qed.
Theorem C12_check_structure_total : stmt_check_structure_total.
Proof. exact check_structure_total_ok. Qed.
Theorem C12_qnew_errors : stmt_qnew_errors.
Proof. exact qnew_errors_ok. Qed.
Theorem C12_qnew_perm : stmt_qnew_perm.
Proof. exact qnew_perm_ok. Qed.
Theorem C12_counting_sort_perm : stmt_cs_pos_perm.
Proof. exact cs_pos_perm_ok. Qed.
Theorem C12_permute_symmetric_spec : stmt_permute_symmetric_spec.
Proof. exact permute_symmetric_spec_ok. Qed.
Theorem C12_permute_symmetric_structure_indep : stmt_permute_symmetric_structure_indep.
Proof. exact permute_symmetric_structure_indep_ok. Qed.
Theorem C12_update_commutes_with_permute : stmt_update_commutes_with_permute.
Proof. exact update_commutes_with_permute_ok. Qed.
Theorem C12_permute_symmetric_example : stmt_ps_example_hyps.
Proof. exact ps_example_hyps_ok. Qed.

(** (c) refactor == fresh factorisation of the updated matrix, any scalar type *)
Theorem C12_refactor_is_fresh_factor : stmt_refactor_is_fresh_factor.
Proof. exact refactor_is_fresh_factor_ok. Qed.
Theorem C12_refactor_after_update_values : stmt_refactor_after_update_values.
Proof. exact refactor_after_update_values_ok. Qed.
Theorem C12_refactor_after_scale_values : stmt_refactor_after_scale_values.
Proof. exact refactor_after_scale_values_ok. Qed.
Theorem C12_refactor_after_offset_values : stmt_refactor_after_offset_values.
Proof. exact refactor_after_offset_values_ok. Qed.

(** (d) regularisation, counts, inertia, zero pivots *)
Theorem C12_regularise_only_below_eps : stmt_regularise_only_below_eps.
Proof. exact regularise_only_below_eps_ok. Qed.
Theorem C12_factor_inner_pivots : stmt_factor_inner_pivots.
Proof. exact factor_inner_pivots_ok. Qed.
Theorem C12_zero_pivot_is_error : stmt_zero_pivot_is_error.
Proof. exact zero_pivot_is_error_ok. Qed.
Theorem C12_factor_inner_errors : stmt_factor_inner_errors.
Proof. exact factor_inner_errors_ok. Qed.
Theorem C12_factor_inner_counts_le : stmt_factor_inner_counts_le.
Proof. exact factor_inner_counts_le_ok. Qed.
Theorem C12_factor_inner_logical : stmt_factor_inner_logical.
Proof. exact factor_inner_logical_ok. Qed.
Theorem C12_factor_example : stmt_factor_example.
Proof. exact factor_example_ok. Qed.
Theorem C12_factor_example_zero_pivot : stmt_factor_example_zero_pivot.
Proof. exact factor_example_zero_pivot_ok. Qed.

(** (e) solves: (I+L) D (I+L)' x = P b, x returned in the original order *)
Theorem C12_lsolve_correct : stmt_lsolve_correct.
Proof. exact lsolve_correct_ok. Qed.
Theorem C12_dltsolve_correct : stmt_dltsolve_correct.
Proof. exact dltsolve_correct_ok. Qed.
Theorem C12_solve_factors_correct : stmt_solve_factors_correct.
Proof. exact solve_factors_correct_ok. Qed.
Theorem C12_solve_correct : stmt_solve_correct.
Proof. exact solve_correct_ok. Qed.
Theorem C12_solve_ldlt : stmt_solve_ldlt.
Proof. exact solve_ldlt_ok. Qed.

(** soundness of the exact residual checkers evaluated on every sample of the correspondence
    (backward-error sentence of the property; with c = 0: exact equality) *)
Theorem C12_chk_ldl_sound : stmt_chk_ldl_sound.
Proof. exact chk_ldl_sound. Qed.
Theorem C12_chk_ldl_exact : stmt_chk_ldl_exact.
Proof. exact chk_ldl_exact. Qed.
Theorem C12_chk_solve_sound : stmt_chk_solve_sound.
Proof. exact chk_solve_sound. Qed.

(** towards factor_correct: one elimination step and the whole second loop of a row as a
    forward substitution, under the boolean [reach_closed] (evaluated by the correspondence on
    every sample through [reach_closed_all]) — steps of the proof of [C12_factor_correct]. *)
Theorem C12_rowB_step_algebraic : stmt_rowB_step_algebraic.
Proof. exact rowB_step_algebraic_ok. Qed.
Theorem C12_rowB_forward_subst : stmt_rowB_forward_subst.
Proof. exact rowB_forward_subst_ok. Qed.

(** index bounds (the logical content of the `unsafe` safety comments): the elimination tree
    points upwards and stays in range, L is strictly lower triangular with rows in range, and
    the flattened factor satisfies the well-formedness hypothesis of the solve theorems
    (given that every column fills its Lnz slot exactly — compared on every sample) *)
Theorem C12_etree_bounds : stmt_etree_bounds.
Proof. exact etree_bounds_ok. Qed.
Theorem C12_factor_rows_in_range : stmt_factor_rows_in_range.
Proof. exact factor_rows_in_range_ok. Qed.
Theorem C12_flatten_wf_L : stmt_flatten_wf_L.
Proof. exact flatten_wf_L_ok. Qed.
Theorem C12_factor_ws_wf_L : stmt_factor_ws_wf_L.
Proof. exact factor_ws_wf_L_ok. Qed.

(** factor_correct *)
Theorem C12_factor_correct_partial : stmt_factor_correct_partial.
Proof. exact factor_correct_partial_ok. Qed.
Theorem C12_etree_ancestor : stmt_etree_ancestor.
Proof. exact etree_ancestor_ok. Qed.
Theorem C12_reach_closed_from_etree : stmt_reach_closed_from_etree.
Proof. exact reach_closed_from_etree_ok. Qed.
Theorem C12_factor_correct : stmt_factor_correct.
Proof. exact factor_correct_ok. Qed.
Theorem C12_permute_symmetric_triu_nodup : stmt_permute_symmetric_triu_nodup.
Proof. exact permute_symmetric_triu_nodup_ok. Qed.

(** fuel sufficiency: OutOfFuel is unreachable on upper-triangular input *)
Theorem C12_etree_total : stmt_etree_total.
Proof. exact etree_total_ok. Qed.
Theorem C12_reach_walk_total : stmt_reach_walk_total.
Proof. exact reach_walk_total_ok. Qed.
Theorem C12_factor_inner_no_fuel : stmt_factor_inner_no_fuel.
Proof. exact factor_inner_no_fuel_ok. Qed.
Theorem C12_factor_inner_errors_wf : stmt_factor_inner_errors_wf.
Proof. exact factor_inner_errors_wf_ok. Qed.

(** Lnz is exact: the column counts predicted by _etree are the numbers of entries the
    factorisation writes (no padding, no overflow of the flat layout) *)
Theorem C12_etree_lnz_count : stmt_etree_lnz_count.
Proof. exact etree_lnz_count_ok. Qed.
Theorem C12_factor_cols_count : stmt_factor_cols_count.
Proof. exact factor_cols_count_ok. Qed.

(** the permuted copy holds sym(A) at permuted positions; dense glue *)
Theorem C12_permuted_entries : stmt_permuted_entries.
Proof. exact permuted_entries_ok. Qed.
Theorem C12_ldlt_dense : stmt_ldlt_dense.
Proof. exact ldlt_dense_ok. Qed.
Theorem C12_flatten_lcol : stmt_flatten_lcol.
Proof. exact flatten_lcol_ok. Qed.
Theorem C12_lnz_exact : stmt_lnz_exact.
Proof. exact lnz_exact_ok. Qed.

(** END TO END: new (numeric, regularisation off) + solve returns x with sym(A) x = b *)
Theorem C12_qnew_solve_correct : stmt_qnew_solve_correct.
Proof. exact qnew_solve_correct_ok. Qed.

(** ROUND 3 — the code that drives the kernel (Qdldl/ModelDriver.v).
    Iterative refinement: at most max_iter passes; the steps are accepts followed by at most one
    stop / non-finite step; the returned x is a candidate whose residual norm was computed; ok is
    false iff a computed norm was non-finite; over the reals (stop_ratio >= 1) the residual norm of
    the returned x is <= that of the first LDL solve and the accepted norms are non-increasing *)
Theorem C12_ir_run_trace : stmt_ir_run_trace.
Proof. exact ir_run_trace_ok. Qed.
Theorem C12_ir_passes_bounded : stmt_ir_passes_bounded.
Proof. exact ir_passes_bounded_ok. Qed.
Theorem C12_ir_shape : stmt_ir_shape.
Proof. exact ir_shape_ok. Qed.
Theorem C12_ir_ok_iff_finite : stmt_ir_ok_iff_finite.
Proof. exact ir_ok_iff_finite_ok. Qed.
Theorem C12_ir_ok_field : stmt_ir_ok_field.
Proof. exact ir_ok_field_ok. Qed.
Theorem C12_ir_tolerance_exit_gen : stmt_ir_tolerance_exit_gen.
Proof. exact ir_tolerance_exit_gen_ok. Qed.
Theorem C12_ir_tolerance_exit : stmt_ir_tolerance_exit.
Proof. exact ir_tolerance_exit_ok. Qed.
Theorem C12_ir_monotone : stmt_ir_monotone.
Proof. exact ir_monotone_ok. Qed.
Theorem C12_norm_inf_nonneg : stmt_norm_inf_nonneg.
Proof. exact norm_inf_nonneg_ok. Qed.
Theorem C12_ir_examples : stmt_ir_examples.
Proof. exact ir_examples_ok. Qed.
(** static regularisation bookkeeping: both copies are written, the KKT copy is restored, the
    factorisation held afterwards is a fresh numeric factorisation of K with its diagonal shifted
    by +eps / -eps according to dsigns, and the residual of the refinement is measured against
    the UN-regularised K (d_K unchanged + refine_error_dense) *)
Theorem C12_drv_new_inv : stmt_drv_new_inv.
Proof. exact drv_new_inv_ok. Qed.
Theorem C12_drv_update_inv : stmt_drv_update_inv.
Proof. exact drv_update_inv_ok. Qed.
Theorem C12_drv_scale_inv : stmt_drv_scale_inv.
Proof. exact drv_scale_inv_ok. Qed.
Theorem C12_reg_restores_K_strong : stmt_reg_restores_K_strong.
Proof. exact reg_restores_K_strong_ok. Qed.
Theorem C12_reg_restores_K : stmt_reg_restores_K.
Proof. exact reg_restores_K_ok. Qed.
Theorem C12_reg_refactor_eq_qnew : stmt_reg_refactor_eq_qnew.
Proof. exact reg_refactor_eq_qnew_ok. Qed.
Theorem C12_reg_refactor_is_fresh : stmt_reg_refactor_is_fresh.
Proof. exact reg_refactor_is_fresh_ok. Qed.
Theorem C12_reg_refactor_failure : stmt_reg_refactor_failure.
Proof. exact reg_refactor_failure_ok. Qed.
Theorem C12_dr_example : stmt_dr_example.
Proof. exact dr_example_ok. Qed.
Theorem C12_symv_entries : stmt_symv_entries.
Proof. exact symv_entries_ok. Qed.
Theorem C12_symv_dense : stmt_symv_dense.
Proof. exact symv_dense_ok. Qed.
Theorem C12_refine_error_dense : stmt_refine_error_dense.
Proof. exact refine_error_dense_ok. Qed.
(** dynamic regularisation over the reals: every returned pivot has the sign prescribed by
    Dsigns and D[k]*s >= min(eps, delta) > 0 ("magnitude >= delta" is false in general: refuted) *)
Theorem C12_dynamic_reg_split : stmt_dynamic_reg_split.
Proof. exact dynamic_reg_split_ok. Qed.
Theorem C12_dynamic_reg_signs : stmt_dynamic_reg_signs.
Proof. exact dynamic_reg_signs_ok. Qed.
Theorem C12_dynamic_reg_sign_strict : stmt_dynamic_reg_sign_strict.
Proof. exact dynamic_reg_sign_strict_ok. Qed.
Theorem C12_dynamic_reg_delta_bound : stmt_dynamic_reg_delta_bound.
Proof. exact dynamic_reg_delta_bound_ok. Qed.
Theorem C12_dynamic_reg_delta_bound_refuted : stmt_dynamic_reg_delta_bound_refuted.
Proof. exact dynamic_reg_delta_bound_refuted_ok. Qed.
Theorem C12_dynamic_reg_example : stmt_dynamic_reg_example.
Proof. exact dynamic_reg_example_ok. Qed.
(** backend dispatch *)
Theorem C12_dispatch_valid : stmt_dispatch_valid.
Proof. exact dispatch_valid_ok. Qed.
Theorem C12_dispatch_cases : stmt_dispatch_cases.
Proof. exact dispatch_cases_ok. Qed.
Theorem C12_dispatch_faer_needs_feature : stmt_dispatch_faer_needs_feature.
Proof. exact dispatch_faer_needs_feature_ok. Qed.
Theorem C12_validate_cases : stmt_validate_cases.
Proof. exact validate_cases_ok. Qed.

(** ROUND 4 — operation histories on ONE object (Qdldl/ModelHistory.v): after ANY history of
    update_values / scale_values / offset_values / refactor / solve — failed refactors included —
    refactor succeeds iff factoring the CURRENT matrix from scratch succeeds (same error otherwise)
    and on success the held object IS the fresh factorisation; a refactor with no change in between
    gives the same verdict; a failed refactor leaves the "factors are meaningful" flag false *)
Theorem C12_hist_inv : stmt_hist_inv.
Proof. exact hist_inv_ok. Qed.
Theorem C12_hist_reach_wf : stmt_hist_reach_wf.
Proof. exact hist_reach_wf_ok. Qed.
Theorem C12_hist_reach_run : stmt_hist_reach_run.
Proof. exact hist_reach_run_ok. Qed.
Theorem C12_hist_refactor_spec : stmt_hist_refactor_spec.
Proof. exact hist_refactor_spec_ok. Qed.
Theorem C12_hist_ok_current : stmt_hist_ok_current.
Proof. exact hist_ok_current_ok. Qed.
Theorem C12_hist_refactor_twice : stmt_hist_refactor_twice.
Proof. exact hist_refactor_twice_ok. Qed.
Theorem C12_hist_restart : stmt_hist_restart.
Proof. exact hist_restart_ok. Qed.
Theorem C12_hist_solve_uses_held : stmt_hist_solve_uses_held.
Proof. exact hist_solve_uses_held_ok. Qed.
Theorem C12_hist_flag : stmt_hist_flag.
Proof. exact hist_flag_ok. Qed.
Theorem C12_hist_example : stmt_hist_example.
Proof. exact hist_example_ok. Qed.
