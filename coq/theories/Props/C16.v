(** C16 — sparse-matrix operations agree with their dense mathematical meaning.
    Only statements closed by [exact]; proofs are in Csc/Lemmas*.v. *)
From Coq Require Import List ZArith Reals.
Require Import Clarabel.Base.Ops Clarabel.Csc.Model Clarabel.Csc.Spec.

Theorem C16_placeholder : forall T (A : @csc T), nc (transpose A) = nr A.
Proof. reflexivity. Qed.
