(** C16 — sparse-matrix operations agree with their dense mathematical meaning.
    Only statements closed by [exact]; the statements themselves are the [stmt_*]
    definitions of Csc/Spec.v (a file that contains nothing else); proofs are in
    Csc/Lemmas*.v.  Every theorem holds for all matrices of all sizes over any
    commutative ring with decidable equality ([Laws O]); [C16_laws_Z]/[C16_laws_R] show the
    hypothesis is met by the integers (the ring the correspondence runs in) and the reals.
    The norms additionally need a total order compatible with [abs] ([OrdLaws O]), met by the
    same two instances ([C16_ordlaws_Z]/[C16_ordlaws_R]). *)
From Coq Require Import List ZArith Reals.
Require Import Clarabel.Base.Ops Clarabel.Csc.Model Clarabel.Csc.Spec.
Require Import Clarabel.Csc.LemmasStruct Clarabel.Csc.LemmasAlg.
Require Import Clarabel.Csc.LemmasSym Clarabel.Csc.LemmasOrd Clarabel.Csc.LemmasBlock.
Require Import Clarabel.Csc.LemmasFast Clarabel.Csc.LemmasDiag Clarabel.Csc.LemmasIdx.

Theorem C16_laws_Z : Laws OpsZ.
Proof. split; [exact RingLawsZ | exact Z.eqb_eq]. Qed.
Theorem C16_laws_R : Laws OpsR.
Proof. split; [exact RingLawsR | exact Reqb_true]. Qed.

Theorem C16_canonical_char : forall T (O : Ops T), stmt_canonical_char (T:=T).
Proof. exact @canonical_char_ok. Qed.
Theorem C16_check_format_iff : forall T, stmt_check_format_iff (T:=T).
Proof. exact @check_format_iff_ok. Qed.
Theorem C16_check_format_errors : forall T, stmt_check_format_errors (T:=T).
Proof. exact @check_format_errors_ok. Qed.
Theorem C16_decode_encode : forall T, stmt_decode_encode (T:=T).
Proof. exact @decode_encode_ok. Qed.
Theorem C16_from_rows : forall T (O : Ops T), stmt_from_rows O.
Proof. exact @from_rows_ok. Qed.
Theorem C16_from_triplets : forall T (O : Ops T), stmt_from_triplets O.
Proof. exact @from_triplets_ok. Qed.
Theorem C16_canonicalize : forall T (O : Ops T), stmt_canonicalize O.
Proof. exact @canonicalize_ok. Qed.
Theorem C16_transpose : forall T (O : Ops T), stmt_transpose O.
Proof. exact @transpose_ok. Qed.
Theorem C16_to_triu : forall T (O : Ops T), stmt_to_triu O.
Proof. exact @to_triu_ok. Qed.
Theorem C16_is_triu : forall T (O : Ops T), stmt_is_triu O.
Proof. exact @is_triu_ok. Qed.
Theorem C16_select_rows : forall T (O : Ops T), stmt_select_rows O.
Proof. exact @select_rows_ok. Qed.
Theorem C16_get_entry : forall T (O : Ops T), stmt_get_entry O.
Proof. exact @get_entry_ok. Qed.
Theorem C16_set_entry : forall T (O : Ops T), stmt_set_entry O.
Proof. exact @set_entry_ok. Qed.
Theorem C16_dropzeros : forall T (O : Ops T), stmt_dropzeros O.
Proof. exact @dropzeros_ok. Qed.
Theorem C16_index_to_coord : forall T (O : Ops T), stmt_index_to_coord O.
Proof. exact @index_to_coord_ok. Qed.
Theorem C16_hcat : forall T (O : Ops T), stmt_hcat O.
Proof. exact @hcat_ok. Qed.
Theorem C16_vcat : forall T (O : Ops T), stmt_vcat O.
Proof. exact @vcat_ok. Qed.
Theorem C16_blockdiag2 : forall T (O : Ops T), stmt_blockdiag2 O.
Proof. exact @blockdiag2_ok. Qed.
Theorem C16_hvcat_special : forall T, stmt_hvcat_special (T:=T).
Proof. exact @hvcat_special_ok. Qed.
Theorem C16_map_vals : forall T (O : Ops T), stmt_map_vals O.
Proof. exact @map_vals_ok. Qed.
Theorem C16_gemv : forall T (O : Ops T), stmt_gemv O.
Proof. exact @gemv_ok. Qed.
Theorem C16_gemv_T : forall T (O : Ops T), stmt_gemv_T O.
Proof. exact @gemv_T_ok. Qed.
Theorem C16_sums : forall T (O : Ops T), stmt_sums O.
Proof. exact @sums_ok. Qed.
Theorem C16_symv : forall T (O : Ops T), stmt_symv O.
Proof. exact @symv_ok. Qed.
Theorem C16_quad_form : forall T (O : Ops T), stmt_quad_form O.
Proof. exact @quad_form_ok. Qed.

Theorem C16_ordlaws_Z : OrdLaws OpsZ.
Proof. exact OrdLawsZ. Qed.
Theorem C16_ordlaws_R : OrdLaws OpsR.
Proof. exact OrdLawsR. Qed.
Theorem C16_maxabs_unique : forall T (O : Ops T), stmt_maxabs_unique O.
Proof. exact @maxabs_unique_ok. Qed.
Theorem C16_col_norms : forall T (O : Ops T), stmt_col_norms O.
Proof. exact @col_norms_ok. Qed.
Theorem C16_row_norms : forall T (O : Ops T), stmt_row_norms O.
Proof. exact @row_norms_ok. Qed.
Theorem C16_col_norms_sym : forall T (O : Ops T), stmt_col_norms_sym O.
Proof. exact @col_norms_sym_ok. Qed.
Theorem C16_norms_from : forall T (O : Ops T), stmt_norms_from O.
Proof. exact @norms_from_ok. Qed.

Theorem C16_zeros : forall T (O : Ops T), stmt_zeros O.
Proof. exact @zeros_ok. Qed.
Theorem C16_identity : forall T (O : Ops T), stmt_identity O.
Proof. exact @identity_ok. Qed.
Theorem C16_blockdiag : forall T (O : Ops T), stmt_blockdiag O.
Proof. exact @blockdiag_ok. Qed.
Theorem C16_blockdiag_blocks : forall T (O : Ops T), stmt_blockdiag_blocks O.
Proof. exact @blockdiag_blocks_ok. Qed.
Theorem C16_hvcat_dim_check : forall T, stmt_hvcat_dim_check (T:=T).
Proof. exact @hvcat_dim_check_ok. Qed.
Theorem C16_hvcat : forall T (O : Ops T), stmt_hvcat O.
Proof. exact @hvcat_ok. Qed.
Theorem C16_offsets_cover : stmt_offsets_cover.
Proof. exact offsets_cover_ok. Qed.

(** the coded coefficient branches of gemv / gemv_T, the coded symv, and its unchecked indexing *)
Theorem C16_scale_fast : forall T (O : Ops T), stmt_scale_fast O.
Proof. exact @scale_fast_ok. Qed.
Theorem C16_fast_paths : forall T (O : Ops T), stmt_fast_paths O.
Proof. exact @fast_paths_ok. Qed.
Theorem C16_fast_branches : forall T (O : Ops T), stmt_fast_branches O.
Proof. exact @fast_branches_ok. Qed.
Theorem C16_gemv_fast_dense : forall T (O : Ops T), stmt_gemv_fast_dense O.
Proof. exact @gemv_fast_dense_ok. Qed.
Theorem C16_symv_in_bounds : forall T, stmt_symv_in_bounds (T:=T).
Proof. exact @symv_in_bounds_ok. Qed.

(** index / structure helpers on arbitrary dimension-consistent encodings *)
Theorem C16_raw_index_to_coord : forall T, stmt_raw_index_to_coord (T:=T).
Proof. exact @raw_index_to_coord_ok. Qed.
Theorem C16_index_to_coord_raw_agree : forall T (O : Ops T), stmt_index_to_coord_raw_agree O.
Proof. exact @index_to_coord_raw_agree_ok. Qed.
Theorem C16_is_triu_iff : forall T, stmt_is_triu_iff (T:=T).
Proof. exact @is_triu_iff_ok. Qed.
Theorem C16_add_missing_diag : forall T (O : Ops T), stmt_add_missing_diag O.
Proof. exact @add_missing_diag_ok. Qed.
Theorem C16_triu_roundtrip : forall T (O : Ops T), stmt_triu_roundtrip O.
Proof. exact @triu_roundtrip_ok. Qed.
