(** C01 — a `Solved` verdict is a certified approximate optimum.
    Statements as printed by Coq from the lemmas of Term/*.v (proofs there); each theorem is closed by
    [exact].  Spec predicates: Term/Spec.v; checkers: Term/Check.v; model: Term/Model.v. *)
From Coq Require Import List ZArith NArith Reals Bool.
Import ListNotations.
Require Import Clarabel.Base.Ops Clarabel.Base.Dyadic Clarabel.Term.Eval Clarabel.Term.Model
        Clarabel.Term.Spec Clarabel.Term.Check.
Require Import Clarabel.Term.LemmasVerdict Clarabel.Term.LemmasCheck Clarabel.Term.LemmasCheck2
        Clarabel.Term.LemmasExp Clarabel.Term.LemmasPsd Clarabel.Term.LemmasFinal
        Clarabel.Term.LemmasAlg Clarabel.Term.Farkas Clarabel.Term.LemmasMisc
        Clarabel.Term.FarkasGen Clarabel.Term.PairExp Clarabel.Term.PairPow Clarabel.Term.PairPsd Clarabel.Term.FarkasAll Clarabel.Term.LemmasRollback.

Theorem C01_chk_termtest_sound :
  forall (p : prob) (tf tga tgr : dy) (x s z : list dy),
         chk_termtest p tf tga tgr x s z = Holds ->
         TermTest (probR_of p) (d2R tf) (d2R tga) (d2R tgr) (vecR x) (vecR s) (vecR z).
Proof. exact @LemmasFinal.chk_termtest_sound. Qed.

Theorem C01_run_case_solved_certified :
  forall (p : prob) (se : setD) (sf : setF) (o : outD) (g : infoF),
         run_case p se sf o g = 0%N ->
         o_st o = St_Solved ->
         TermTest (probR_of p) (d2R (s_tf se)) (d2R (s_tga se)) (d2R (s_tgr se)) (vecR (o_x o)) 
           (vecR (o_s o)) (vecR (o_z o)).
Proof. exact @LemmasFinal.run_case_solved_certified. Qed.

Theorem C01_all_cone_kinds_certified :
  forall K : list coneD, forallb (certified_kind true true true) K = true.
Proof. exact @LemmasFinal.all_kinds_certified. Qed.

Theorem C01_exp_cone_enclosure_sound :
  forall v : list dy, exp_ok v = true -> in_exp (vecR v).
Proof. exact @LemmasExp.exp_ok_sound. Qed.

Theorem C01_exp_dual_cone_enclosure_sound :
  forall v : list dy, exp_dual_ok v = true -> in_exp_dual (vecR v).
Proof. exact @LemmasExp.exp_dual_ok_sound. Qed.

Theorem C01_psd_check_sound :
  forall (n : nat) (v : list dy), psd_ok n v = true -> in_psd n (vecR v).
Proof. exact @LemmasPsd.psd_ok_sound. Qed.

Theorem C01_unscale_residual_primal :
  forall d e : list R,
         allpos e ->
         forall (A : smat R) (b xh sh : list R) (nu : R),
         (0 < nu)%R ->
         vscale OpsR (1 / nu)%R
           (hadamard OpsR (map RinvImpl.Rinv e)
              (vsub OpsR (vadd OpsR (mv OpsR (eq_A d e A) xh) sh) (vscale OpsR nu (eq_b e b)))) =
         vsub OpsR (vadd OpsR (mv OpsR A (un_x d xh nu)) (un_s e sh nu)) b.
Proof. exact @LemmasAlg.unscale_residual_primal. Qed.

Theorem C01_unscale_residual_dual :
  forall (d e : list R) (c : R),
         allpos d ->
         (0 < c)%R ->
         forall (P A : smat R) (q xh zh : list R) (nu : R),
         (0 < nu)%R ->
         forall n : nat,
         length d = n ->
         vscale OpsR (1 / (c * nu))%R
           (hadamard OpsR (map RinvImpl.Rinv d)
              (vadd OpsR (vadd OpsR (mv OpsR (eq_P d c P) xh) (mtv OpsR (eq_A d e A) zh n))
                 (vscale OpsR nu (eq_q d c q)))) =
         vadd OpsR (vadd OpsR (mv OpsR P (un_x d xh nu)) (mtv OpsR A (un_z e c zh nu) n)) q.
Proof. exact @LemmasAlg.unscale_residual_dual. Qed.

Theorem C01_xPx_invariance :
  forall (d : list R) (c : R) (P : smat R) (xh : list R) (nu : R),
         (0 < nu)%R ->
         dot OpsR xh (mv OpsR (eq_P d c P) xh) =
         (c * (nu * nu) * dot OpsR (un_x d xh nu) (mv OpsR P (un_x d xh nu)))%R.
Proof. exact @LemmasAlg.xPx_invariance. Qed.

Theorem C01_is_solved_sound :
  forall (i : info) (tga tgr tf : R),
         is_solved OpsR i tga tgr tf = true ->
         ((gap_abs i < tga)%R \/ (gap_rel i < tgr)%R) /\ (res_primal i < tf)%R /\ (res_dual i < tf)%R.
Proof. exact @LemmasAlg.is_solved_sound. Qed.

Theorem C01_check_convergence_solved :
  forall (i : info) (bz qx tga tgr tf ta tr tk : R) (solved pinf dinf : status),
         check_convergence OpsR i bz qx tga tgr tf ta tr tk solved pinf dinf = solved ->
         solved <> st i ->
         solved <> pinf ->
         solved <> dinf ->
         (ktratio i <= 1)%R /\
         ((gap_abs i < tga)%R \/ (gap_rel i < tgr)%R) /\ (res_primal i < tf)%R /\ (res_dual i < tf)%R.
Proof. exact @LemmasAlg.check_convergence_solved. Qed.

Theorem C01_full_status_solved :
  forall (i : info) (bz qx : R) (se : settings) (iter : nat),
         st (check_termination OpsR i bz qx se iter) = St_Solved ->
         st i = St_Unsolved ->
         (ktratio i <= 1)%R /\
         ((gap_abs i < tol_gap_abs se)%R \/ (gap_rel i < tol_gap_rel se)%R) /\
         (res_primal i < tol_feas se)%R /\ (res_dual i < tol_feas se)%R.
Proof. exact @LemmasAlg.full_status_solved. Qed.

Theorem C01_solved_user :
  forall (d e : list R) (c : R),
         allpos d ->
         allpos e ->
         (0 < c)%R ->
         forall (P A : smat R) (q b : list R) (normb normq : R) (xh sh zh : list R) (tau kap : R) (n : nat),
         length d = n ->
         length q = n ->
         forall (i0 : info) (time : R),
         (0 < tau)%R ->
         forall (p : probRr) (tga tgr tf : R),
         sel (r_keep p) (r_A p) = A ->
         sel (r_keep p) (r_b p) = b ->
         r_P p = P ->
         r_q p = q ->
         normb = ninf b ->
         normq = ninf q ->
         is_solved OpsR
           (info_update OpsR i0 (equil_data d e c P A q b normb normq)
              {| vx := xh; vs := sh; vz := zh; vtau := tau; vkap := kap |}
              (residuals_update OpsR {| vx := xh; vs := sh; vz := zh; vtau := tau; vkap := kap |}
                 (equil_data d e c P A q b normb normq)) time) tga tgr tf = true ->
         feas_p p tf (un_x d xh tau) (un_s e sh tau) /\
         feas_d p tf (un_x d xh tau) (un_z e c zh tau) /\ gap_ok p tga tgr (un_x d xh tau) (un_z e c zh tau).
Proof. exact @LemmasAlg.C01_solved_user. Qed.

Theorem C01_nonvacuous :
  let x := un_x ex_d ex_xh ex_tau in
         let s := un_s ex_e ex_sh ex_tau in
         let z := un_z ex_e ex_c ex_zh ex_tau in
         feas_p ex_prob (1 / 100000000) x s /\
         feas_d ex_prob (1 / 100000000) x z /\ gap_ok ex_prob (1 / 100000000) (1 / 100000000) x z.
Proof. exact @LemmasAlg.ex_C01. Qed.

