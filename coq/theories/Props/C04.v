(** C04 — every solve terminates cleanly within its limits.  Statements: Solver/Spec.v
    (nothing else in that file); proofs: Solver/Lemmas.v.  All theorems quantify over every
    answer the numeric kernels can give (the oracle lists), hence over every input, every
    rounding behaviour (NaN included) and every clock. *)
From Coq Require Import List NArith Bool.
Import ListNotations.
Require Import Clarabel.Solver.Skeleton Clarabel.Solver.Spec Clarabel.Solver.Lemmas.

Theorem C04_solve_terminates :
  forall A azero a_is_zero a_lt_switch a_le_term,
    stmt_run_terminates A azero a_is_zero a_lt_switch a_le_term.
Proof. exact run_terminates_ok. Qed.

Theorem C04_iterations_le_max_iter :
  forall A azero a_is_zero a_lt_switch a_le_term,
    stmt_iterations_le_max A azero a_is_zero a_lt_switch a_le_term.
Proof. exact iterations_le_max_ok. Qed.

Theorem C04_final_status_terminal :
  forall A azero a_is_zero a_lt_switch a_le_term,
    stmt_final_status_terminal A azero a_is_zero a_lt_switch a_le_term.
Proof. exact final_status_terminal_ok. Qed.

Theorem C04_maxtime_next_boundary :
  forall A azero a_lt_switch a_le_term,
    stmt_maxtime_next_boundary A azero a_lt_switch a_le_term.
Proof. exact maxtime_next_boundary_ok. Qed.

Theorem C04_no_maxtime_before_limit :
  forall A azero a_lt_switch a_le_term,
    stmt_no_maxtime_before_limit A azero a_lt_switch a_le_term.
Proof. exact no_maxtime_before_limit_ok. Qed.

(** non-vacuity: a concrete three-pass run (two steps, then a Solved verdict) *)
Example C04_run_example :
  let stepp := mkPin nat Unsolved false true true true 1 true 1 in
  let donep := mkPin nat Solved false true true true 1 true 1 in
  let r := run nat 0 (Nat.eqb 0) (fun _ => false) (fun a => Nat.eqb a 0)
               (mkEnv true 50%N) true [stepp; stepp; donep; stepp] None in
  option_map (fun s => (iter nat s, stat nat s)) (fst r) = Some (2%N, Solved) /\
  lines nat (snd r) = [0; 1; 2]%N.
Proof. vm_compute. split; reflexivity. Qed.

(** construction is refused exactly for inconsistent shapes (model of _check_dimensions) *)
Require Import Clarabel.Solver.Dims.
Theorem C04_dims_check_iff :
  forall (Pm Pn qn Am An bn : N) (cd : list N),
    dims_ok Pm Pn qn Am An bn cd = true <-> consistent Pm Pn qn Am An bn cd.
Proof. exact dims_ok_iff. Qed.
