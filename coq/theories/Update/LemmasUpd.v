(** C08 lemmas about the argument-form routines [upd_mat] / [upd_vec]: result kinds,
    untouched-on-rejection for whole forms, pattern preservation, and preservation of the
    scaling relation for accepted updates. *)
From Coq Require Import List Arith Lia Bool Ring.
Import ListNotations.
Require Import Clarabel.Base.Ops Clarabel.Csc.Model Clarabel.Update.Model Clarabel.Update.Spec.
Require Import Clarabel.Update.LemmasList.

Section NoRing.
Context {T : Type} (O : Ops T).
Notation raw := (@raw T).
Notation zr := (zero O).

Lemma mscale_with_nz (M : raw) v l r c k :
  mscale O (with_nz M v) l r c k = mscale O M l r c k.
Proof. reflexivity. Qed.
Lemma pattern_with_nz (M : raw) v : pattern (with_nz M v) = pattern M.
Proof. reflexivity. Qed.

(** *** result kinds *)
Lemma upd_mat_full_snd (M : raw) v l r c :
  snd (upd_mat_full O M v l r c) =
  match v with
  | [] => None
  | _ => if length v =? length (rnzval M) then None else Some EDim
  end.
Proof.
  unfold upd_mat_full. destruct v as [|a v]; [reflexivity|].
  destruct (length (a :: v) =? length (rnzval M)); reflexivity.
Qed.

Lemma upd_mat_partial_snd ps : forall (M : raw) l r c,
  snd (upd_mat_partial O M ps l r c) =
  if forallb (fun iv => fst iv <? length (rnzval M)) ps then None else Some EDim.
Proof.
  induction ps as [|[idx v] ps IH]; intros M l r c; [reflexivity|].
  cbn [upd_mat_partial forallb fst].
  destruct (length (rnzval M) <=? idx) eqn:E.
  - apply Nat.leb_le in E. replace (idx <? length (rnzval M)) with false
      by (symmetry; apply Nat.ltb_ge; lia). reflexivity.
  - apply Nat.leb_gt in E. replace (idx <? length (rnzval M)) with true
      by (symmetry; apply Nat.ltb_lt; lia). cbn [andb].
    rewrite IH. cbn [with_nz rnzval]. rewrite set_nth_len. reflexivity.
Qed.

Lemma upd_mat_result_ok : stmt_upd_mat_result O.
Proof.
  intros M l r c. repeat split.
  - intros v. cbn [upd_mat]. apply upd_mat_full_snd.
  - intros D. cbn [upd_mat]. unfold upd_mat_csc.
    destruct (negb ((rm D =? rm M) && (rn D =? rn M))); [reflexivity|].
    destruct (negb (nat_list_eqb (rcolptr D) (rcolptr M) && nat_list_eqb (rrowval D) (rrowval M)));
      reflexivity.
  - intros idx vals. cbn [upd_mat]. apply upd_mat_partial_snd.
Qed.

Lemma upd_vec_full_snd (v d s : list T) c :
  snd (upd_vec_full O v d s c) =
  match d with
  | [] => None
  | _ => if length d =? length v then None else Some EDim
  end.
Proof.
  unfold upd_vec_full. destruct d as [|a d]; [reflexivity|].
  destruct (length (a :: d) =? length v); reflexivity.
Qed.

Lemma upd_vec_partial_snd ps : forall (v s : list T) c,
  snd (upd_vec_partial O v ps s c) =
  if forallb (fun iv => fst iv <? length v) ps then None else Some EDim.
Proof.
  induction ps as [|[idx x] ps IH]; intros v s c; [reflexivity|].
  cbn [upd_vec_partial forallb fst].
  destruct (length v <=? idx) eqn:E.
  - apply Nat.leb_le in E. replace (idx <? length v) with false
      by (symmetry; apply Nat.ltb_ge; lia). reflexivity.
  - apply Nat.leb_gt in E. replace (idx <? length v) with true
      by (symmetry; apply Nat.ltb_lt; lia). cbn [andb].
    rewrite IH. rewrite set_nth_len. reflexivity.
Qed.

Lemma upd_vec_result_ok : stmt_upd_vec_result O.
Proof.
  intros v s c. repeat split.
  - intros d. cbn [upd_vec]. apply upd_vec_full_snd.
  - intros idx vals. cbn [upd_vec]. apply upd_vec_partial_snd.
Qed.

(** *** whole forms: an error leaves the argument untouched *)
Lemma upd_mat_full_err (M : raw) v l r c e :
  snd (upd_mat_full O M v l r c) = Some e -> fst (upd_mat_full O M v l r c) = M.
Proof.
  unfold upd_mat_full. destruct v as [|a v]; [discriminate|].
  destruct (negb (length (a :: v) =? length (rnzval M))); [reflexivity|discriminate].
Qed.
Lemma upd_mat_whole_err (M : raw) f l r c e :
  whole_m f = true -> snd (upd_mat O M f l r c) = Some e -> fst (upd_mat O M f l r c) = M.
Proof.
  destruct f as [v|D|idx vals|]; cbn [whole_m upd_mat]; intros Hw He; try discriminate.
  - eapply upd_mat_full_err; eauto.
  - unfold upd_mat_csc in *.
    destruct (negb ((rm D =? rm M) && (rn D =? rn M))); [reflexivity|].
    destruct (negb (nat_list_eqb (rcolptr D) (rcolptr M) && nat_list_eqb (rrowval D) (rrowval M)));
      [reflexivity|].
    eapply upd_mat_full_err; eauto.
Qed.
Lemma upd_vec_whole_err (v : list T) f s c e :
  whole_v f = true -> snd (upd_vec O v f s c) = Some e -> fst (upd_vec O v f s c) = v.
Proof.
  destruct f as [d|idx vals|]; cbn [whole_v upd_vec]; intros Hw He; try discriminate.
  unfold upd_vec_full in *. destruct d as [|a d]; [discriminate|].
  destruct (negb (length (a :: d) =? length v)); [reflexivity|discriminate].
Qed.

(** *** the sparsity pattern and the number of stored values never change *)
Lemma upd_mat_full_pat (M : raw) v l r c :
  pattern (fst (upd_mat_full O M v l r c)) = pattern M /\
  length (rnzval (fst (upd_mat_full O M v l r c))) = length (rnzval M).
Proof.
  unfold upd_mat_full. destruct v as [|a v]; [auto|].
  destruct (length (a :: v) =? length (rnzval M)) eqn:E; cbn [negb fst]; [|auto].
  apply Nat.eqb_eq in E. split; [reflexivity|].
  cbn [with_nz rnzval]. destruct c as [cv|]; rewrite ?scale_v_len;
    unfold lrscale_nz; cbn [with_nz rnzval]; rewrite map_combine_seq_len; auto.
Qed.
Lemma upd_mat_partial_pat ps : forall (M : raw) l r c,
  pattern (fst (upd_mat_partial O M ps l r c)) = pattern M /\
  length (rnzval (fst (upd_mat_partial O M ps l r c))) = length (rnzval M).
Proof.
  induction ps as [|[idx v] ps IH]; intros M l r c; [auto|].
  cbn [upd_mat_partial]. destruct (length (rnzval M) <=? idx); [auto|].
  destruct (IH (with_nz M (set_nth (rnzval M) idx
     match c with
     | Some cv => mul O (mul O (mul O (nth (fst (coord M idx)) l zr) (nth (snd (coord M idx)) r zr)) cv) v
     | None => mul O (mul O (nth (fst (coord M idx)) l zr) (nth (snd (coord M idx)) r zr)) v
     end)) l r c) as [H1 H2].
  rewrite H1, H2. cbn [with_nz rnzval]. rewrite set_nth_len. auto.
Qed.
Lemma upd_mat_pat (M : raw) f l r c :
  pattern (fst (upd_mat O M f l r c)) = pattern M /\
  length (rnzval (fst (upd_mat O M f l r c))) = length (rnzval M).
Proof.
  destruct f as [v|D|idx vals|]; cbn [upd_mat]; auto.
  - apply upd_mat_full_pat.
  - unfold upd_mat_csc.
    destruct (negb ((rm D =? rm M) && (rn D =? rn M))); [auto|].
    destruct (negb (nat_list_eqb (rcolptr D) (rcolptr M) && nat_list_eqb (rrowval D) (rrowval M)));
      [auto|]. apply upd_mat_full_pat.
  - apply upd_mat_partial_pat.
Qed.

Lemma upd_vec_partial_len ps : forall (v s : list T) c,
  length (fst (upd_vec_partial O v ps s c)) = length v.
Proof.
  induction ps as [|[idx x] ps IH]; intros v s c; [auto|].
  cbn [upd_vec_partial]. destruct (length v <=? idx); [auto|].
  rewrite IH, set_nth_len. auto.
Qed.
Lemma upd_vec_len (v : list T) f s c :
  length v <= length s -> length (fst (upd_vec O v f s c)) = length v.
Proof.
  intros Hs. destruct f as [d|idx vals|]; cbn [upd_vec]; auto.
  - unfold upd_vec_full. destruct d as [|a d]; [auto|].
    destruct (length (a :: d) =? length v) eqn:E; cbn [negb fst]; [|auto].
    apply Nat.eqb_eq in E. destruct c; rewrite ?scale_v_len, hadamard_len; auto.
  - apply upd_vec_partial_len.
Qed.

(** empty forms do nothing *)
Lemma upd_mat_empty (M : raw) f l r c :
  empty_m f = true -> upd_mat O M f l r c = (M, None).
Proof. destruct f as [[|a v]|D|idx vals|]; cbn [empty_m]; intros H; try discriminate; reflexivity. Qed.
Lemma upd_vec_empty (v : list T) f s c :
  empty_v f = true -> upd_vec O v f s c = (v, None).
Proof. destruct f as [[|a d]|idx vals|]; cbn [empty_v]; intros H; try discriminate; reflexivity. Qed.

End NoRing.

Section WithRing.
Context {T : Type} (O : Ops T).
Hypothesis RT : ring_theory (zero O) (one O) (add O) (mul O) (sub O) (neg O) (@eq T).
Add Ring Tring : RT.
Notation raw := (@raw T).
Notation zr := (zero O).

Lemma upd_mat_full_scaled (M : raw) (u v l r : list T) c :
  MatScaled O M u l r c -> snd (upd_mat_full O M v l r c) = None ->
  MatScaled O (fst (upd_mat_full O M v l r c)) (user_mat u (MFull v)) l r c.
Proof.
  intros [Hlen Hval] Hok. unfold upd_mat_full in *. destruct v as [|a v]; [split; auto|].
  destruct (length (a :: v) =? length (rnzval M)) eqn:E; cbn [negb fst snd] in *; [|discriminate].
  apply Nat.eqb_eq in E. cbn [user_mat]. set (data := a :: v) in *.
  assert (Hl1 : length (lrscale_nz O (with_nz M data) l r) = length data).
  { unfold lrscale_nz; cbn [with_nz rnzval]; apply map_combine_seq_len. }
  split.
  - cbn [with_nz rnzval]. destruct c; rewrite ?scale_v_len; auto.
  - intros k Hk. rewrite mscale_with_nz. cbn [with_nz rnzval].
    assert (Hk1 : nth k (lrscale_nz O (with_nz M data) l r) zr =
                  mul O (nth k data zr) (mul O (nth (fst (coord M k)) l zr) (nth (snd (coord M k)) r zr))).
    { unfold lrscale_nz. cbn [with_nz rnzval].
      rewrite (nth_combine_seq
        (fun kv => mul O (snd kv)
           (mul O (nth (fst (coord (with_nz M data) (fst kv))) l zr)
                  (nth (snd (coord (with_nz M data) (fst kv))) r zr))) data 0 k zr Hk).
      cbn [fst snd plus]. reflexivity. }
    unfold mscale. destruct c as [cv|].
    + rewrite nth_scale_v by (rewrite Hl1; auto). rewrite Hk1. ring.
    + rewrite Hk1. reflexivity.
Qed.

Lemma upd_mat_partial_scaled ps : forall (M : raw) (u l r : list T) c,
  MatScaled O M u l r c -> snd (upd_mat_partial O M ps l r c) = None ->
  MatScaled O (fst (upd_mat_partial O M ps l r c))
              (fold_left (fun l0 iv => set_nth l0 (fst iv) (snd iv)) ps u) l r c.
Proof.
  induction ps as [|[idx v] ps IH]; intros M u l r c HS Hok; [exact HS|].
  cbn [upd_mat_partial fold_left fst snd] in *.
  destruct (length (rnzval M) <=? idx) eqn:E; [discriminate|].
  apply Nat.leb_gt in E.
  apply IH; [|exact Hok].
  destruct HS as [Hlen Hval]. split.
  - cbn [with_nz rnzval]. rewrite !set_nth_len. exact Hlen.
  - intros k Hk. rewrite set_nth_len in Hk. rewrite mscale_with_nz. cbn [with_nz rnzval].
    destruct (Nat.eq_dec k idx) as [->|Hne].
    + rewrite !nth_set_nth_eq by lia. unfold mscale. destruct c as [cv|]; ring.
    + rewrite !nth_set_nth_neq by auto. apply Hval; auto.
Qed.

Lemma upd_mat_scaled (M : raw) f (u l r : list T) c :
  MatScaled O M u l r c -> snd (upd_mat O M f l r c) = None ->
  MatScaled O (fst (upd_mat O M f l r c)) (user_mat u f) l r c.
Proof.
  intros HS Hok. destruct f as [v|D|idx vals|]; cbn [upd_mat] in *.
  - apply upd_mat_full_scaled; auto.
  - unfold upd_mat_csc in *.
    destruct (negb ((rm D =? rm M) && (rn D =? rn M))); [discriminate|].
    destruct (negb (nat_list_eqb (rcolptr D) (rcolptr M) && nat_list_eqb (rrowval D) (rrowval M)));
      [discriminate|].
    pose proof (upd_mat_full_scaled M u (rnzval D) l r c HS Hok) as H.
    cbn [user_mat] in *. destruct (rnzval D); exact H.
  - cbn [user_mat]. apply upd_mat_partial_scaled; auto.
  - exact HS.
Qed.

Lemma upd_vec_full_scaled (v u d s : list T) c :
  length v <= length s ->
  VecScaled O v u s c -> snd (upd_vec_full O v d s c) = None ->
  VecScaled O (fst (upd_vec_full O v d s c)) (user_vec u (VFull d)) s c.
Proof.
  intros Hs [Hlen Hval] Hok. unfold upd_vec_full in *. destruct d as [|a d]; [split; auto|].
  destruct (length (a :: d) =? length v) eqn:E; cbn [negb fst snd] in *; [|discriminate].
  apply Nat.eqb_eq in E. cbn [user_vec]. set (data := a :: d) in *.
  split.
  - destruct c; rewrite ?scale_v_len, hadamard_len; auto.
  - intros i Hi. unfold vscale. destruct c as [cv|].
    + rewrite nth_scale_v by (rewrite hadamard_len; auto).
      rewrite nth_hadamard by lia. ring.
    + rewrite nth_hadamard by lia. reflexivity.
Qed.

Lemma upd_vec_partial_scaled ps : forall (v u s : list T) c,
  VecScaled O v u s c -> snd (upd_vec_partial O v ps s c) = None ->
  VecScaled O (fst (upd_vec_partial O v ps s c))
              (fold_left (fun l0 iv => set_nth l0 (fst iv) (snd iv)) ps u) s c.
Proof.
  induction ps as [|[idx x] ps IH]; intros v u s c HS Hok; [exact HS|].
  cbn [upd_vec_partial fold_left fst snd] in *.
  destruct (length v <=? idx) eqn:E; [discriminate|].
  apply Nat.leb_gt in E.
  apply IH; [|exact Hok].
  destruct HS as [Hlen Hval]. split.
  - rewrite !set_nth_len. exact Hlen.
  - intros i Hi. rewrite set_nth_len in Hi.
    destruct (Nat.eq_dec i idx) as [->|Hne].
    + rewrite !nth_set_nth_eq by lia. unfold vscale. destruct c as [cv|]; ring.
    + rewrite !nth_set_nth_neq by auto. apply Hval; auto.
Qed.

Lemma upd_vec_scaled (v : list T) f (u s : list T) c :
  length v <= length s ->
  VecScaled O v u s c -> snd (upd_vec O v f s c) = None ->
  VecScaled O (fst (upd_vec O v f s c)) (user_vec u f) s c.
Proof.
  intros Hs HS Hok. destruct f as [d|idx vals|]; cbn [upd_vec] in *.
  - apply upd_vec_full_scaled; auto.
  - cbn [user_vec]. apply upd_vec_partial_scaled; auto.
  - exact HS.
Qed.

End WithRing.
