(** C08: the invariant [Inv] is preserved by every covered step and along histories;
    updated-vs-fresh cross relation; closed witnesses. *)
From Coq Require Import List Arith ZArith Lia Bool Ring.
Import ListNotations.
Require Import Clarabel.Base.Ops Clarabel.Csc.Model Clarabel.Update.Model Clarabel.Update.Spec.
Require Import Clarabel.Update.LemmasList Clarabel.Update.LemmasUpd Clarabel.Update.LemmasStep.

Lemma nodup_app_disj {X} (a b : list X) x : NoDup (a ++ b) -> In x a -> In x b -> False.
Proof.
  induction a as [|y a IH]; cbn [app]; intros Hnd Ha Hb; [destruct Ha|].
  inversion Hnd as [|? ? Hni Hnd']; subst. destruct Ha as [->|Ha].
  - apply Hni. apply in_or_app. right; exact Hb.
  - eapply IH; eauto.
Qed.
Lemma nodup_app_l {X} (a b : list X) : NoDup (a ++ b) -> NoDup a.
Proof.
  induction a as [|y a IH]; cbn [app]; intros H; [constructor|].
  inversion H as [|? ? Hni Hnd]; subst. constructor; [|auto].
  intros Hc. apply Hni. apply in_or_app; left; auto.
Qed.
Lemma nodup_app_r {X} (a b : list X) : NoDup (a ++ b) -> NoDup b.
Proof.
  induction a as [|y a IH]; cbn [app]; intros H; [exact H|].
  inversion H; subst; auto.
Qed.
Lemma in_fst_combine {X Y} (a : list X) (b : list Y) x : In x (map fst (combine a b)) -> In x a.
Proof.
  intros H. apply in_map_iff in H. destruct H as [[x' y] [E H]]. cbn in E; subst.
  eapply in_combine_l; eauto.
Qed.

Section Inv.
Context {T : Type} (O : Ops T).
Hypothesis RT : RingLaws O.
Notation state := (@state T).
Notation op := (@op T).
Notation udata := (@udata T).
Notation zr := (zero O).

Lemma sync_written (kkt : list T) idx vals k :
  NoDup idx -> length idx = length vals -> Forall (fun i => i < length kkt) idx ->
  k < length vals ->
  nth (nth k idx 0) (scatter kkt idx vals) zr = nth k vals zr.
Proof. intros. rewrite scatter_scat. apply scat_in; auto. lia. Qed.
Lemma sync_other (kkt : list T) idx vals x :
  ~ In x idx -> nth x (scatter kkt idx vals) zr = nth x kkt zr.
Proof.
  intros H. rewrite scatter_scat. apply scat_notin. intros Hc. apply H.
  eapply in_fst_combine; eauto.
Qed.

Lemma inv_P (s : state) (u : udata) f :
  Inv O s u -> accepted O s (UpdP f) = true \/ whole_m f = true ->
  Inv O (fst (update_P O s f)) (ghost_single O s u (UpdP f)).
Proof.
  intros HI Hok. unfold ghost_single. destruct (accepted O s (UpdP f)) eqn:Ha.
  2:{ destruct Hok as [Hc|Hw]; [discriminate|]. rewrite (rejP O s f Hw Ha). exact HI. }
  clear Hok. unfold accepted in Ha. cbn [step] in Ha. rewrite update_P_eq in *.
  destruct (allowed s); [discriminate|].
  destruct (snd (pP O s f)) eqn:E; [discriminate|]. clear Ha. cbn [fst user_step].
  destruct HI as (HW & HR & HK & HC).
  destruct HW as (W1&W2&W3&W4&W5&W6).
  destruct HR as (R1&R2&R3&R4).
  destruct HK as (K1&K2).
  destruct (upd_mat_pat O (sP s) f (sd s) (sd s) (Some (sc s))) as [Hp Hl].
  fold (pP O s f) in Hp, Hl.
  assert (Hnd : NoDup (smapP s)) by (eapply nodup_app_l; eauto).
  apply Forall_app in W3. destruct W3 as [W3a W3b].
  assert (Hlen : length (scatter (skkt s) (smapP s) (rnzval (fst (pP O s f)))) = length (skkt s))
    by (rewrite scatter_scat; apply scat_len).
  split; [|split; [|split]].
  - unfold WF, set_P; cbn. rewrite Hlen, Hl.
    repeat split; auto; try (apply Forall_app; split; auto).
  - unfold Rel, set_P; cbn. split; [|split; [|split]]; auto.
    apply (upd_mat_scaled O RT (sP s) f (uP u) (sd s) (sd s) (Some (sc s))); auto.
  - unfold KktSync, set_P; cbn. split.
    + intros k Hk. apply sync_written; auto. rewrite Hl; auto.
    + intros k Hk. rewrite sync_other; [apply K2; auto|].
      intros Hin. eapply (nodup_app_disj (smapP s) (smapA s)); eauto.
      apply nth_In. rewrite W2; auto.
  - exact HC.
Qed.

Lemma inv_A (s : state) (u : udata) f :
  Inv O s u -> accepted O s (UpdA f) = true \/ whole_m f = true ->
  Inv O (fst (update_A O s f)) (ghost_single O s u (UpdA f)).
Proof.
  intros HI Hok. unfold ghost_single. destruct (accepted O s (UpdA f)) eqn:Ha.
  2:{ destruct Hok as [Hc|Hw]; [discriminate|]. rewrite (rejA O s f Hw Ha). exact HI. }
  clear Hok. unfold accepted in Ha. cbn [step] in Ha. rewrite update_A_eq in *.
  destruct (allowed s); [discriminate|].
  destruct (snd (pA O s f)) eqn:E; [discriminate|]. clear Ha. cbn [fst user_step].
  destruct HI as (HW & HR & HK & HC).
  destruct HW as (W1&W2&W3&W4&W5&W6).
  destruct HR as (R1&R2&R3&R4).
  destruct HK as (K1&K2).
  destruct (upd_mat_pat O (sA s) f (se s) (sd s) None) as [Hp Hl].
  fold (pA O s f) in Hp, Hl.
  assert (Hnd : NoDup (smapA s)) by (eapply nodup_app_r; eauto).
  apply Forall_app in W3. destruct W3 as [W3a W3b].
  assert (Hlen : length (scatter (skkt s) (smapA s) (rnzval (fst (pA O s f)))) = length (skkt s))
    by (rewrite scatter_scat; apply scat_len).
  split; [|split; [|split]].
  - unfold WF, set_A; cbn. rewrite Hlen, Hl.
    repeat split; auto; try (apply Forall_app; split; auto).
  - unfold Rel, set_A; cbn. split; [|split; [|split]]; auto.
    apply (upd_mat_scaled O RT (sA s) f (uA u) (se s) (sd s) None); auto.
  - unfold KktSync, set_A; cbn. split.
    + intros k Hk. rewrite sync_other; [apply K1; auto|].
      intros Hin. eapply (nodup_app_disj (smapP s) (smapA s)); eauto.
      apply nth_In. rewrite W1; auto.
    + intros k Hk. apply sync_written; auto. rewrite Hl; auto.
  - exact HC.
Qed.

Lemma inv_q (s : state) (u : udata) f :
  Inv O s u -> accepted O s (UpdQ f) = true \/ whole_v f = true ->
  Inv O (fst (update_q O s f)) (ghost_single O s u (UpdQ f)).
Proof.
  intros HI Hok. unfold ghost_single. destruct (accepted O s (UpdQ f)) eqn:Ha.
  2:{ destruct Hok as [Hc|Hw]; [discriminate|]. rewrite (rejq O s f Hw Ha). exact HI. }
  clear Hok. unfold accepted in Ha. cbn [step] in Ha. rewrite update_q_eq in *.
  destruct (allowed s); [discriminate|].
  destruct (snd (pq O s f)) eqn:E; [discriminate|]. clear Ha. cbn [fst user_step].
  destruct HI as (HW & HR & HK & HC).
  destruct HW as (W1&W2&W3&W4&W5&W6).
  destruct HR as (R1&R2&R3&R4).
  assert (Hle : length (sq s) <= length (sd s)) by lia.
  pose proof (upd_vec_len O (sq s) f (sd s) (Some (sc s)) Hle) as Hl. fold (pq O s f) in Hl.
  split; [|split; [|split]].
  - unfold WF, set_q; cbn. rewrite Hl. repeat split; auto.
  - unfold Rel, set_q; cbn. split; [|split; [|split]]; auto.
    apply (upd_vec_scaled O RT (sq s) f (uq u) (sd s) (Some (sc s))); auto.
  - exact HK.
  - destruct HC as [_ HCb]. split; [left; reflexivity|exact HCb].
Qed.

Lemma inv_b (s : state) (u : udata) f :
  Inv O s u -> accepted O s (UpdB f) = true \/ whole_v f = true ->
  Inv O (fst (update_b O s f)) (ghost_single O s u (UpdB f)).
Proof.
  intros HI Hok. unfold ghost_single. destruct (accepted O s (UpdB f)) eqn:Ha.
  2:{ destruct Hok as [Hc|Hw]; [discriminate|]. rewrite (rejb O s f Hw Ha). exact HI. }
  clear Hok. unfold accepted in Ha. cbn [step] in Ha. rewrite update_b_eq in *.
  destruct (allowed s); [discriminate|].
  destruct (snd (pb O s f)) eqn:E; [discriminate|]. clear Ha. cbn [fst user_step].
  destruct HI as (HW & HR & HK & HC).
  destruct HW as (W1&W2&W3&W4&W5&W6).
  destruct HR as (R1&R2&R3&R4).
  assert (Hle : length (sb s) <= length (se s)) by lia.
  pose proof (upd_vec_len O (sb s) f (se s) None Hle) as Hl. fold (pb O s f) in Hl.
  split; [|split; [|split]].
  - unfold WF, set_b; cbn. rewrite Hl. repeat split; auto.
  - unfold Rel, set_b; cbn. split; [|split; [|split]]; auto.
    apply (upd_vec_scaled O RT (sb s) f (ub u) (se s) None); auto.
  - exact HK.
  - destruct HC as [HCq _]. split; [exact HCq|left; reflexivity].
Qed.

Lemma inv_solve (s : state) (u : udata) : Inv O s u -> Inv O (fst (solve O s)) u.
Proof.
  intros (HW & HR & HK & HC). unfold solve. cbn [fst].
  split; [exact HW|split; [exact HR|split; [exact HK|]]].
  destruct HC as [HCq HCb]. unfold CacheOk, set_norms, get_normq, get_normb; cbn.
  split; right.
  - destruct HCq as [-> | ->]; reflexivity.
  - destruct HCb as [-> | ->]; reflexivity.
Qed.

Lemma accepted_solve (s : state) : accepted O s Solve = true.
Proof. reflexivity. Qed.

Lemma inv_single (s : state) (u : udata) (o : op) :
  single_op o = true -> Inv O s u -> StepOk O s o ->
  Inv O (fst (step O s o)) (ghost_single O s u o).
Proof.
  intros Hs HI Hok. destruct o as [f|f|f|f|fP fq fA fb|]; cbn [single_op step] in *;
    try discriminate.
  - apply inv_P; auto.
  - apply inv_q; auto.
  - apply inv_A; auto.
  - apply inv_b; auto.
  - unfold ghost_single. rewrite accepted_solve. cbn [user_step]. apply inv_solve; auto.
Qed.

Lemma step_preserves_inv_ok : stmt_step_preserves_inv O.
Proof.
  intros _ s u o HI Hok.
  destruct o as [f|f|f|f|fP fq fA fb|];
    try (apply (inv_single s u); [reflexivity|exact HI|exact Hok]).
  (* update_data *)
  assert (Hc : (accepted O s (UpdP fP) = true \/ whole_m fP = true) /\
               (accepted O (fst (step O s (UpdP fP))) (UpdQ fq) = true \/ whole_v fq = true) /\
               (accepted O (fst (step O (fst (step O s (UpdP fP))) (UpdQ fq))) (UpdA fA) = true \/ whole_m fA = true) /\
               (accepted O (fst (step O (fst (step O (fst (step O s (UpdP fP))) (UpdQ fq))) (UpdA fA))) (UpdB fb) = true
                \/ whole_v fb = true)).
  { destruct Hok as [Ha|Hw].
    - destruct (accepted_data_components O s fP fq fA fb Ha) as (A1&A2&A3&A4). auto.
    - cbn [whole_op] in Hw. apply andb_true_iff in Hw. destruct Hw as [Hw H4].
      apply andb_true_iff in Hw. destruct Hw as [Hw H3].
      apply andb_true_iff in Hw. destruct Hw as [H1 H2]. auto. }
  destruct Hc as (C1&C2&C3&C4).
  cbn [ghost_step]. cbn [step]. rewrite update_data_eq. unfold seq2.
  pose proof (inv_P s u fP HI C1) as I1.
  unfold accepted at 1. cbn [step].
  destruct (is_err (snd (update_P O s fP))) eqn:E1; cbn [negb].
  { exact I1. }
  cbn [step] in *.
  pose proof (inv_q _ _ fq I1 C2) as I2.
  unfold accepted at 1. cbn [step].
  destruct (is_err (snd (update_q O (fst (update_P O s fP)) fq))) eqn:E2; cbn [negb].
  { exact I2. }
  pose proof (inv_A _ _ fA I2 C3) as I3.
  unfold accepted at 1. cbn [step].
  destruct (is_err (snd (update_A O (fst (update_q O (fst (update_P O s fP)) fq)) fA))) eqn:E3; cbn [negb].
  { exact I3. }
  exact (inv_b _ _ fb I3 C4).
Qed.

Lemma history_inv_ok : stmt_history_inv O.
Proof.
  intros _ ops. induction ops as [|o ops IH]; intros s u HI HH; [exact HI|].
  cbn [HistOk] in HH. destruct HH as [Hok HH].
  cbn [run fold_left ghost_run]. apply IH.
  - apply step_preserves_inv_ok; auto.
  - exact HH.
Qed.

(** *** updated vs fresh *)
Let RTu : ring_theory (zero O) (one O) (add O) (mul O) (sub O) (neg O) (@eq T) := RT.
Add Ring Tring2 : RTu.
Lemma fresh_vs_updated_ok : stmt_fresh_vs_updated O.
Proof.
  intros _ s sf u (R1&R2&R3&R4) (F1&F2&F3&F4) HpP HpA.
  repeat split; intros k Hk.
  - destruct R1 as [_ R1], F1 as [_ F1]. rewrite (R1 k Hk), (F1 k Hk). ring.
  - destruct R3 as [_ R3], F3 as [_ F3]. rewrite (R3 k Hk), (F3 k Hk). ring.
  - destruct R2 as [_ R2], F2 as [_ F2]. rewrite (R2 k Hk), (F2 k Hk). ring.
  - destruct R4 as [_ R4], F4 as [_ F4]. rewrite (R4 k Hk), (F4 k Hk). ring.
Qed.

End Inv.
