(** C08, binary64 view of the correspondence: the same model run on Coq's primitive floats
    ([OpsF], bit-exact IEEE [* /]) from the same printed case.  A case that agrees with the
    exact-dyadic checker but is not bit-identical to the float run is reported with code 2
    (information: the implementation rounds in a different order than the model), never as a
    violation. *)
From Coq Require Import List Arith ZArith NArith Bool Floats.
Import ListNotations.
Require Import Clarabel.Base.Ops Clarabel.Base.Dyadic Clarabel.Csc.Model Clarabel.Update.Model
               Clarabel.Update.Check.
Local Open Scope nat_scope.

(** every printed number is a finite f64: |m| < 2^53, so the conversion is exact *)
Definition toF (a : dy) : float := Z.ldexp (ofZ OpsF (dm a)) (de a).
Definition lF (l : list dy) : list float := map toF l.
Definition oF (o : option dy) : option float := option_map toF o.
Definition rawF (r : @raw dy) : @raw float :=
  mkRaw (rm r) (rn r) (rcolptr r) (rrowval r) (lF (rnzval r)).
Definition stF (s : @state dy) : @state float :=
  mkState (rawF (sP s)) (lF (sq s)) (rawF (sA s)) (lF (sb s)) (lF (sd s)) (lF (sdinv s))
          (lF (se s)) (lF (seinv s)) (toF (sc s)) (oF (snq s)) (oF (snb s)) (lF (skkt s))
          (smapP s) (smapA s) (spres s) (sdecomp s).
Definition margF (f : @marg dy) : @marg float :=
  match f with
  | MFull v => MFull (lF v) | MMat r => MMat (rawF r)
  | MPartial i v => MPartial i (lF v) | MEmpty => MEmpty
  end.
Definition vargF (f : @varg dy) : @varg float :=
  match f with VFull v => VFull (lF v) | VPartial i v => VPartial i (lF v) | VEmpty => VEmpty end.
Definition opF (o : @op dy) : @op float :=
  match o with
  | UpdP f => UpdP (margF f) | UpdQ f => UpdQ (vargF f) | UpdA f => UpdA (margF f)
  | UpdB f => UpdB (vargF f)
  | UpdData a b c d => UpdData (margF a) (vargF b) (margF c) (vargF d)
  | Solve => Solve
  end.

Definition feq (a b : float) : bool := PrimFloat.eqb a b.
Definition kkt_projF (s : @state float) : list float :=
  map (fun i => nth i (skkt s) 0%float) (smapP s ++ smapA s).

Fixpoint hist_bits (s : @state float) (k : seen) (h : list (@op dy * obs)) : bool :=
  match h with
  | [] => true
  | (o, ob) :: rest =>
      let '(s', r) := step OpsF s (opF o) in
      let k' := seen_upd k ob in
      list_rel feq (lF (k_P k')) (rnzval (sP s')) && list_rel feq (lF (k_q k')) (sq s')
      && list_rel feq (lF (k_A k')) (rnzval (sA s')) && list_rel feq (lF (k_b k')) (sb s')
      && list_rel feq (lF (k_kkt k')) (kkt_projF s')
      && opt_rel feq (oF (o_nq ob)) (snq s') && opt_rel feq (oF (o_nb ob)) (snb s')
      && hist_bits s' k' rest
  end.

(** the combined verdict of a history case *)
Definition c08_history2 (exact : bool) (tol : Z) (s : stD) (h : list (@op dy * obs)) : N :=
  let c := c08_history exact tol s h in
  if negb (N.eqb c 0) then c
  else if hist_bits (stF s) (seen_of s) h then 0%N else 2%N.
