(** Model of the re-initialisation at the start of every solve (solver.rs `default_start`,
    kktsystem.rs `solve_initial_point`, variables.rs `symmetric_initialization` /
    `unit_initialization`): which parts of the iterate (x, s, z, tau, kappa) are written, and
    from what.  The linear-algebra and cone routines are parameters (external code):
      [kkt d rhsx rhsz]  = Some (lhsx, lhsz) when the refactored KKT system (identity
                           scalings, a function of the problem data alone) is solved
                           successfully, None when the solve fails — the Rust code then
                           leaves the output slices as they were;
      [shiftP], [shiftD] = `_shift_to_cone_interior` for the primal / dual cone (functions of
                           the vector and the fixed cone structure);
      [unit_z], [unit_s] = the cones' unit initialisation.
    No proofs in this file. *)
From Coq Require Import List Bool.
Import ListNotations.
Require Import Clarabel.Base.Ops.

Section StartModel.
Context {T : Type} (O : Ops T).

Record vars : Type := mkVars { vx : list T; vs : list T; vz : list T; vtau : T; vkappa : T }.

(** what default_start reads of the problem *)
Record pdata : Type := mkPD { p_is_lp : bool (* data.P.nnz() == 0 *); pq : list T; pb : list T;
                              p_symmetric : bool (* cones.is_symmetric() *) }.

Variable kkt : pdata -> list T -> list T -> option (list T * list T).
Variables shiftP shiftD : list T -> list T.
Variables unit_z unit_s : list T.

Definition negv (v : list T) : list T := map (neg O) v.
Definition zerosl (v : list T) : list T := map (fun _ => zero O) v.

(** solve_initial_point (kktsystem.rs:230-289): returns the variables and the success flag.
    On a failed KKT solve the outputs keep their old contents (and [s] is still negated /
    copied from the old [z]); tau and kappa are not touched here. *)
Definition solve_initial_point (d : pdata) (v : vars) : vars * bool :=
  if p_is_lp d then
    match kkt d (zerosl (pq d)) (pb d) with
    | None => (mkVars (vx v) (negv (vs v)) (vz v) (vtau v) (vkappa v), false)
    | Some (x, s) =>
        let v1 := mkVars x (negv s) (vz v) (vtau v) (vkappa v) in
        match kkt d (negv (pq d)) (zerosl (pb d)) with
        | None => (v1, false)
        | Some (_, z) => (mkVars x (negv s) z (vtau v) (vkappa v), true)
        end
    end
  else
    match kkt d (negv (pq d)) (pb d) with
    | None => (mkVars (vx v) (negv (vz v)) (vz v) (vtau v) (vkappa v), false)
    | Some (x, z) => (mkVars x (negv z) z (vtau v) (vkappa v), true)
    end.

(** symmetric_initialization (variables.rs:180-186) *)
Definition symmetric_initialization (v : vars) : vars :=
  mkVars (vx v) (shiftP (vs v)) (shiftD (vz v)) (one O) (one O).
(** unit_initialization (variables.rs:188-194) *)
Definition unit_initialization (v : vars) : vars :=
  mkVars (zerosl (vx v)) unit_s unit_z (one O) (one O).

(** default_start (solver.rs:495-511); the success flag of solve_initial_point is ignored there *)
Definition default_start (d : pdata) (v : vars) : vars :=
  if p_symmetric d then symmetric_initialization (fst (solve_initial_point d v))
  else unit_initialization v.
Definition start_ok (d : pdata) (v : vars) : bool :=
  if p_symmetric d then snd (solve_initial_point d v) else true.

End StartModel.
Arguments mkVars {T}. Arguments vx {T}. Arguments vs {T}. Arguments vz {T}.
Arguments vtau {T}. Arguments vkappa {T}.
Arguments mkPD {T}. Arguments p_is_lp {T}. Arguments pq {T}. Arguments pb {T}. Arguments p_symmetric {T}.
