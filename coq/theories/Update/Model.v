(** Executable model of in-place data updating
    (src/solver/implementations/default/data_updating.rs, the norm caches of
    problemdata.rs, and the KKT value scatter of
    src/solver/core/kktsolvers/direct/quasidef/directldlkktsolver.rs).

    The solver's internal matrices are kept in the literal five-field encoding of the Rust
    struct ([raw] of Csc/Model.v: m, n, colptr, rowval, nzval) because every routine
    modelled here addresses [nzval] by storage index and compares [colptr]/[rowval]
    verbatim.  Vectors are lists; mutation is a returned state; the early returns of the
    `?` operator are explicit.  Panics of the Rust code (out-of-range scale lookups,
    inconsistent internal lengths) are not reachable from well-formed states ([WF] in
    Spec.v) and are modelled by the total list functions' default values.
    No proofs in this file. *)
From Coq Require Import List Arith ZArith Lia Bool.
Import ListNotations.
Require Import Clarabel.Base.Ops Clarabel.Csc.Model.

Section UpdateModel.
Context {T : Type} (O : Ops T).
Notation raw := (@raw T).
Notation zr := (zero O).

(** ** error kinds (DataUpdateError / SparseFormatError as far as reachable here) *)
Inductive uerr : Set :=
| EPresolve      (* DataUpdateError::PresolveIsActive *)
| EChordal       (* DataUpdateError::ChordalDecompositionIsActive *)
| EDim           (* BadFormat(SparseFormatError::IncompatibleDimension) *)
| ESparsity.     (* BadFormat(SparseFormatError::SparsityMismatch) *)

Inductive result : Set := ROk | RErr (e : uerr) | RSolveDone.

(** ** argument forms
    matrix data: a slice / Vec ([MFull], empty = no-op), a CscMatrix ([MMat]), a pair of
    index and value vectors or a zip iterator ([MPartial], zipped to the shorter length),
    the zero-length array `[T;0]` ([MEmpty]).  Vector data likewise, without the matrix form. *)
Inductive marg : Type :=
| MFull (v : list T) | MMat (r : raw) | MPartial (idx : list nat) (vals : list T) | MEmpty.
Inductive varg : Type :=
| VFull (v : list T) | VPartial (idx : list nat) (vals : list T) | VEmpty.

Inductive op : Type :=
| UpdP (f : marg) | UpdQ (f : varg) | UpdA (f : marg) | UpdB (f : varg)
| UpdData (fP : marg) (fq : varg) (fA : marg) (fb : varg)
| Solve.

(** ** CscMatrix pieces on the raw encoding *)
Definition with_nz (M : raw) (v : list T) : raw :=
  mkRaw (rm M) (rn M) (rcolptr M) (rrowval M) v.

(** column of storage index [idx]: `colptr.partition_point(|&c| idx + 1 > c) - 1`
    (core.rs:609-614); on a monotone colptr the partition point is the number of
    entries [c <= idx]. *)
Definition col_of (colptr : list nat) (idx : nat) : nat :=
  length (filter (fun c => c <=? idx) colptr) - 1.
Definition coord (M : raw) (idx : nat) : nat * nat :=
  (nth idx (rrowval M) 0, col_of (rcolptr M) idx).

(** lrscale (matrix_math.rs:119-131): nzval[k] *= l[row k] * r[col k] *)
Definition lrscale_nz (M : raw) (l r : list T) : list T :=
  map (fun kv => mul O (snd kv)
                   (mul O (nth (fst (coord M (fst kv))) l zr) (nth (snd (coord M (fst kv))) r zr)))
      (combine (seq 0 (length (rnzval M))) (rnzval M)).
Definition scale_v (v : list T) (c : T) : list T := map (fun x => mul O x c) v.

Fixpoint nat_list_eqb (a b : list nat) : bool :=
  match a, b with
  | [], [] => true
  | x :: a', y :: b' => (x =? y) && nat_list_eqb a' b'
  | _, _ => false
  end.

(** ** MatrixProblemDataUpdate::update_matrix : (matrix after the call, error) *)

(** impl for [T] (and Vec<T>) — data_updating.rs:198-228 *)
Definition upd_mat_full (M : raw) (data l r : list T) (c : option T) : raw * option uerr :=
  match data with
  | [] => (M, None)
  | _ =>
      if negb (length data =? length (rnzval M)) then (M, Some EDim)
      else
        let M1 := with_nz M data in
        let v1 := lrscale_nz M1 l r in
        let v2 := match c with Some cv => scale_v v1 cv | None => v1 end in
        (with_nz M v2, None)
  end.

(** impl for CscMatrix — data_updating.rs:180-196 with check_equal_sparsity
    (core.rs:429-437): self = the new data, other = M *)
Definition upd_mat_csc (M : raw) (D : raw) (l r : list T) (c : option T) : raw * option uerr :=
  if negb ((rm D =? rm M) && (rn D =? rn M)) then (M, Some EDim)
  else if negb (nat_list_eqb (rcolptr D) (rcolptr M) && nat_list_eqb (rrowval D) (rrowval M))
  then (M, Some ESparsity)
  else upd_mat_full M (rnzval D) l r c.

(** impl for Zip<Iter<usize>,Iter<T>> — data_updating.rs:258-283.  Entries are written one
    at a time; an out-of-range index returns the error with the earlier writes in place. *)
Fixpoint upd_mat_partial (M : raw) (ps : list (nat * T)) (l r : list T) (c : option T)
  : raw * option uerr :=
  match ps with
  | [] => (M, None)
  | (idx, v) :: rest =>
      if length (rnzval M) <=? idx then (M, Some EDim)
      else
        let rc := coord M idx in
        let s := mul O (nth (fst rc) l zr) (nth (snd rc) r zr) in
        let nv := match c with
                  | Some cv => mul O (mul O s cv) v
                  | None => mul O s v
                  end in
        upd_mat_partial (with_nz M (set_nth (rnzval M) idx nv)) rest l r c
  end.

Definition upd_mat (M : raw) (f : marg) (l r : list T) (c : option T) : raw * option uerr :=
  match f with
  | MFull v => upd_mat_full M v l r c
  | MMat D => upd_mat_csc M D l r c
  | MPartial idx vals => upd_mat_partial M (combine idx vals) l r c
  | MEmpty => (M, None)
  end.

(** ** VectorProblemDataUpdate::update_vector *)

(** x.hadamard(y): zip(&mut x, y) — entries of x beyond the length of y are left alone *)
Fixpoint hadamard (x y : list T) : list T :=
  match x, y with
  | a :: x', b :: y' => mul O a b :: hadamard x' y'
  | _, _ => x
  end.

(** impl for [T] — data_updating.rs:303-331 *)
Definition upd_vec_full (v data s : list T) (c : option T) : list T * option uerr :=
  match data with
  | [] => (v, None)
  | _ =>
      if negb (length data =? length v) then (v, Some EDim)
      else
        let v1 := hadamard data s in
        (match c with Some cv => scale_v v1 cv | None => v1 end, None)
  end.

(** impl for Zip — data_updating.rs:361-383 *)
Fixpoint upd_vec_partial (v : list T) (ps : list (nat * T)) (s : list T) (c : option T)
  : list T * option uerr :=
  match ps with
  | [] => (v, None)
  | (idx, x) :: rest =>
      if length v <=? idx then (v, Some EDim)
      else
        let nv := match c with
                  | Some cv => mul O (mul O x (nth idx s zr)) cv
                  | None => mul O x (nth idx s zr)
                  end in
        upd_vec_partial (set_nth v idx nv) rest s c
  end.

Definition upd_vec (v : list T) (f : varg) (s : list T) (c : option T) : list T * option uerr :=
  match f with
  | VFull d => upd_vec_full v d s c
  | VPartial idx vals => upd_vec_partial v (combine idx vals) s c
  | VEmpty => (v, None)
  end.

(** ** KKT value scatter: _update_values_KKT (directldlkktsolver.rs:399-403) *)
Definition scatter (k : list T) (index : list nat) (vals : list T) : list T :=
  fold_left (fun k iv => set_nth k (fst iv) (snd iv)) (combine index vals) k.

(** ** solver state seen by data updating *)
Record state : Type := mkState {
  sP : raw;            (* data.P : scaled, upper triangle *)
  sq : list T;         (* data.q : scaled *)
  sA : raw;            (* data.A : scaled *)
  sb : list T;         (* data.b : scaled *)
  sd : list T; sdinv : list T; se : list T; seinv : list T; sc : T;  (* data.equilibration *)
  snq : option T; snb : option T;                                   (* normq / normb caches *)
  skkt : list T;       (* kktsolver.KKT.nzval *)
  smapP : list nat; smapA : list nat;                               (* kktsolver.map.{P,A} *)
  spres : bool;        (* data.presolver.is_some() *)
  sdecomp : bool       (* data.chordal_info.is_some() *)
}.

Definition set_P (s : state) (P : raw) (kkt : list T) : state :=
  mkState P (sq s) (sA s) (sb s) (sd s) (sdinv s) (se s) (seinv s) (sc s) (snq s) (snb s)
          kkt (smapP s) (smapA s) (spres s) (sdecomp s).
Definition set_A (s : state) (A : raw) (kkt : list T) : state :=
  mkState (sP s) (sq s) A (sb s) (sd s) (sdinv s) (se s) (seinv s) (sc s) (snq s) (snb s)
          kkt (smapP s) (smapA s) (spres s) (sdecomp s).
Definition set_q (s : state) (q : list T) (nq : option T) : state :=
  mkState (sP s) q (sA s) (sb s) (sd s) (sdinv s) (se s) (seinv s) (sc s) nq (snb s)
          (skkt s) (smapP s) (smapA s) (spres s) (sdecomp s).
Definition set_b (s : state) (b : list T) (nb : option T) : state :=
  mkState (sP s) (sq s) (sA s) b (sd s) (sdinv s) (se s) (seinv s) (sc s) (snq s) nb
          (skkt s) (smapP s) (smapA s) (spres s) (sdecomp s).
Definition set_norms (s : state) (nq nb : option T) : state :=
  mkState (sP s) (sq s) (sA s) (sb s) (sd s) (sdinv s) (se s) (seinv s) (sc s) nq nb
          (skkt s) (smapP s) (smapA s) (spres s) (sdecomp s).

(** check_data_update_allowed (data_updating.rs:158-167) *)
Definition allowed (s : state) : option uerr :=
  if spres s then Some EPresolve else if sdecomp s then Some EChordal else None.

(** update_P (data_updating.rs:94-105): on an error of update_matrix the `?` returns
    before kktsystem.update_P — whatever update_matrix already wrote stays in data.P *)
Definition update_P (s : state) (f : marg) : state * result :=
  match allowed s with
  | Some e => (s, RErr e)
  | None =>
      let '(P', r) := upd_mat (sP s) f (sd s) (sd s) (Some (sc s)) in
      match r with
      | Some e => (set_P s P' (skkt s), RErr e)
      | None => (set_P s P' (scatter (skkt s) (smapP s) (rnzval P')), ROk)
      end
  end.

(** update_A (data_updating.rs:117-129) *)
Definition update_A (s : state) (f : marg) : state * result :=
  match allowed s with
  | Some e => (s, RErr e)
  | None =>
      let '(A', r) := upd_mat (sA s) f (se s) (sd s) None in
      match r with
      | Some e => (set_A s A' (skkt s), RErr e)
      | None => (set_A s A' (scatter (skkt s) (smapA s) (rnzval A')), ROk)
      end
  end.

(** update_q (data_updating.rs:132-145): the norm cache is flushed only on success *)
Definition update_q (s : state) (f : varg) : state * result :=
  match allowed s with
  | Some e => (s, RErr e)
  | None =>
      let '(q', r) := upd_vec (sq s) f (sd s) (Some (sc s)) in
      match r with
      | Some e => (set_q s q' (snq s), RErr e)
      | None => (set_q s q' None, ROk)
      end
  end.

(** update_b (data_updating.rs:148-156) *)
Definition update_b (s : state) (f : varg) : state * result :=
  match allowed s with
  | Some e => (s, RErr e)
  | None =>
      let '(b', r) := upd_vec (sb s) f (se s) None in
      match r with
      | Some e => (set_b s b' (snb s), RErr e)
      | None => (set_b s b' None, ROk)
      end
  end.

(** the norms a solve (re)computes when the caches are empty
    (problemdata.rs get_normq / get_normb; norm_inf_scaled of vecmath.rs:145-148) *)
Definition norm_inf_scaled (x y : list T) : T :=
  fold_left (fun acc xy => omax O acc (abs O (mul O (fst xy) (snd xy)))) (combine x y) zr.
Definition recompute_normq (s : state) : T :=
  mul O (norm_inf_scaled (sq s) (sdinv s)) (div O (one O) (sc s)).
Definition recompute_normb (s : state) : T := norm_inf_scaled (sb s) (seinv s).
Definition get_normq (s : state) : T :=
  match snq s with Some v => v | None => recompute_normq s end.
Definition get_normb (s : state) : T :=
  match snb s with Some v => v | None => recompute_normb s end.

(** What a solve does to the state modelled here: it fills the two caches (info.update is
    called at least once) and leaves data, scalings and the P/A entries of the KKT matrix
    as they were (regularize_and_refactor restores the shifted diagonal).  The numerical
    outcome of the solve is not part of this model. *)
Definition solve (s : state) : state * result :=
  (set_norms s (Some (get_normq s)) (Some (get_normb s)), RSolveDone).

Definition is_err (r : result) : bool := match r with RErr _ => true | _ => false end.

(** update_data (data_updating.rs:63-83): P, q, A, b in this order, `?` after each *)
Definition update_data (s : state) (fP : marg) (fq : varg) (fA : marg) (fb : varg)
  : state * result :=
  let '(s1, r1) := update_P s fP in
  if is_err r1 then (s1, r1) else
  let '(s2, r2) := update_q s1 fq in
  if is_err r2 then (s2, r2) else
  let '(s3, r3) := update_A s2 fA in
  if is_err r3 then (s3, r3) else
  update_b s3 fb.

Definition step (s : state) (o : op) : state * result :=
  match o with
  | UpdP f => update_P s f
  | UpdQ f => update_q s f
  | UpdA f => update_A s f
  | UpdB f => update_b s f
  | UpdData fP fq fA fb => update_data s fP fq fA fb
  | Solve => solve s
  end.

Definition run (s : state) (ops : list op) : state :=
  fold_left (fun s o => fst (step s o)) ops s.

(** the sequence of (state after the op, result) along a history *)
Fixpoint trace (s : state) (ops : list op) : list (state * result) :=
  match ops with
  | [] => []
  | o :: r => let sr := step s o in sr :: trace (fst sr) r
  end.

(** ** the same operations on the user's own (unscaled) copy of the data: values only,
    the sparsity patterns never change *)
Record udata : Type := mkU { uP : list T; uq : list T; uA : list T; ub : list T }.

Definition user_mat (old : list T) (f : marg) : list T :=
  match f with
  | MFull [] => old
  | MFull v => v
  | MMat D => match rnzval D with [] => old | v => v end
  | MPartial idx vals => fold_left (fun l iv => set_nth l (fst iv) (snd iv)) (combine idx vals) old
  | MEmpty => old
  end.
Definition user_vec (old : list T) (f : varg) : list T :=
  match f with
  | VFull [] => old
  | VFull v => v
  | VPartial idx vals => fold_left (fun l iv => set_nth l (fst iv) (snd iv)) (combine idx vals) old
  | VEmpty => old
  end.
Definition user_step (u : udata) (o : op) : udata :=
  match o with
  | UpdP f => mkU (user_mat (uP u) f) (uq u) (uA u) (ub u)
  | UpdQ f => mkU (uP u) (user_vec (uq u) f) (uA u) (ub u)
  | UpdA f => mkU (uP u) (uq u) (user_mat (uA u) f) (ub u)
  | UpdB f => mkU (uP u) (uq u) (uA u) (user_vec (ub u) f)
  | UpdData fP fq fA fb =>
      mkU (user_mat (uP u) fP) (user_vec (uq u) fq) (user_mat (uA u) fA) (user_vec (ub u) fb)
  | Solve => u
  end.

End UpdateModel.

Arguments MFull {T}. Arguments MMat {T}. Arguments MPartial {T}. Arguments MEmpty {T}.
Arguments VFull {T}. Arguments VPartial {T}. Arguments VEmpty {T}.
Arguments UpdP {T}. Arguments UpdQ {T}. Arguments UpdA {T}. Arguments UpdB {T}.
Arguments UpdData {T}. Arguments Solve {T}.
Arguments mkState {T}. Arguments sP {T}. Arguments sq {T}. Arguments sA {T}. Arguments sb {T}.
Arguments sd {T}. Arguments sdinv {T}. Arguments se {T}. Arguments seinv {T}. Arguments sc {T}.
Arguments snq {T}. Arguments snb {T}. Arguments skkt {T}. Arguments smapP {T}.
Arguments smapA {T}. Arguments spres {T}. Arguments sdecomp {T}.
Arguments mkU {T}. Arguments uP {T}. Arguments uq {T}. Arguments uA {T}. Arguments ub {T}.
