(** List facts used by the C08 proofs: [set_nth], [scatter], indexed maps, [hadamard]. *)
From Coq Require Import List Arith Lia Bool.
Import ListNotations.
Require Import Clarabel.Base.Ops Clarabel.Csc.Model Clarabel.Update.Model.

Section Lists.
Context {X : Type}.

Lemma set_nth_len (l : list X) k x : length (set_nth l k x) = length l.
Proof. revert k; induction l as [|a l IH]; intros [|k]; cbn [set_nth length]; auto. Qed.

Lemma nth_set_nth_eq (l : list X) k x d : k < length l -> nth k (set_nth l k x) d = x.
Proof.
  revert k; induction l as [|a l IH]; intros k Hk; cbn [length] in Hk; [lia|].
  destruct k as [|k]; cbn [set_nth nth]; auto. apply IH; lia.
Qed.

Lemma nth_set_nth_neq (l : list X) k x i d : i <> k -> nth i (set_nth l k x) d = nth i l d.
Proof.
  revert k i; induction l as [|a l IH]; intros k i Hne.
  - destruct k; reflexivity.
  - destruct k as [|k]; destruct i as [|i]; cbn [set_nth nth]; auto; try lia.
Qed.

Lemma set_nth_same (l : list X) k d : set_nth l k (nth k l d) = l.
Proof.
  revert k; induction l as [|a l IH]; intros k.
  - destruct k; reflexivity.
  - destruct k as [|k]; cbn [set_nth nth]; auto. f_equal. apply IH.
Qed.

Lemma set_nth_oob (l : list X) k x : length l <= k -> set_nth l k x = l.
Proof.
  revert k; induction l as [|a l IH]; intros k Hk.
  - destruct k; reflexivity.
  - destruct k as [|k]; cbn [length] in Hk; [lia|]. cbn [set_nth]. f_equal. apply IH; lia.
Qed.

(** scatter on a generic carrier *)
Definition scat (k : list X) (ivs : list (nat * X)) : list X :=
  fold_left (fun k iv => set_nth k (fst iv) (snd iv)) ivs k.

Lemma scat_cons (k : list X) i v r : scat k ((i, v) :: r) = scat (set_nth k i v) r.
Proof. reflexivity. Qed.

Lemma scat_len (k : list X) ivs : length (scat k ivs) = length k.
Proof.
  revert k; induction ivs as [|[i v] r IH]; intros k; [reflexivity|].
  rewrite scat_cons, IH. apply set_nth_len.
Qed.

Lemma scat_notin (k : list X) ivs i d :
  ~ In i (map fst ivs) -> nth i (scat k ivs) d = nth i k d.
Proof.
  revert k; induction ivs as [|[j v] r IH]; intros k Hn; [reflexivity|].
  rewrite scat_cons. cbn [map fst In] in Hn.
  rewrite IH by tauto. apply nth_set_nth_neq. intros E; apply Hn; left; auto.
Qed.

Lemma scat_in (k : list X) (idx : list nat) (vals : list X) j d :
  NoDup idx -> length idx = length vals -> Forall (fun i => i < length k) idx ->
  j < length idx ->
  nth (nth j idx 0) (scat k (combine idx vals)) d = nth j vals d.
Proof.
  revert k vals j; induction idx as [|i idx IH]; intros k vals j Hnd Hlen Hin Hj;
    cbn [length] in Hj; [lia|].
  destruct vals as [|v vals]; cbn [length] in Hlen; [lia|].
  inversion Hnd as [|? ? Hni Hnd']; subst.
  inversion Hin as [|? ? Hi Hin']; subst.
  cbn [combine]. rewrite scat_cons.
  destruct j as [|j]; cbn [nth].
  - rewrite scat_notin.
    + apply nth_set_nth_eq; auto.
    + intros Hc. apply Hni. clear - Hc. revert vals Hc.
      induction idx as [|a idx IH2]; intros vals Hc; destruct vals; cbn in Hc; try tauto.
      destruct Hc as [Hc|Hc]; [left; auto|right; eapply IH2; eauto].
  - apply IH; auto; try lia.
    rewrite set_nth_len. exact Hin'.
Qed.

Lemma scat_id (k : list X) (idx : list nat) (vals : list X) d :
  (forall j, j < length idx -> j < length vals -> nth (nth j idx 0) k d = nth j vals d) ->
  scat k (combine idx vals) = k.
Proof.
  revert vals; induction idx as [|i idx IH]; intros vals H; [reflexivity|].
  destruct vals as [|v vals]; [reflexivity|].
  cbn [combine]. rewrite scat_cons.
  assert (Hv : set_nth k i v = k).
  { specialize (H 0). cbn [length nth] in H. rewrite <- H by lia. apply set_nth_same. }
  rewrite Hv. apply IH. intros j Hj1 Hj2. specialize (H (S j)). cbn [length nth] in H.
  apply H; lia.
Qed.

Lemma nth_combine_seq (f : nat * X -> X) (l : list X) (s k : nat) d :
  k < length l ->
  nth k (map f (combine (seq s (length l)) l)) d = f (s + k, nth k l d).
Proof.
  revert s k; induction l as [|a l IH]; intros s k Hk; cbn [length] in Hk; [lia|].
  cbn [length seq combine map]. destruct k as [|k]; cbn [nth].
  - rewrite Nat.add_0_r. reflexivity.
  - rewrite IH by lia. f_equal. f_equal. lia.
Qed.

Lemma map_combine_seq_len (f : nat * X -> X) (l : list X) s :
  length (map f (combine (seq s (length l)) l)) = length l.
Proof. rewrite map_length, combine_length, seq_length. lia. Qed.

Lemma nat_list_eqb_eq (a b : list nat) : nat_list_eqb a b = true <-> a = b.
Proof.
  revert b; induction a as [|x a IH]; intros [|y b]; cbn [nat_list_eqb]; split; intros H;
    try discriminate; auto.
  - apply andb_true_iff in H. destruct H as [H1 H2]. apply Nat.eqb_eq in H1.
    apply IH in H2. subst; auto.
  - inversion H; subst. apply andb_true_iff; split; [apply Nat.eqb_refl | apply IH; auto].
Qed.

End Lists.

Section Had.
Context {T : Type} (O : Ops T).

Lemma hadamard_len (x y : list T) : length (hadamard O x y) = length x.
Proof.
  revert y; induction x as [|a x IH]; intros y; cbn [hadamard]; auto.
  destruct y; cbn [length]; auto.
Qed.

Lemma nth_hadamard (x y : list T) i d :
  i < length x -> i < length y ->
  nth i (hadamard O x y) d = mul O (nth i x d) (nth i y d).
Proof.
  revert y i; induction x as [|a x IH]; intros y i Hx Hy; cbn [length] in Hx; [lia|].
  destruct y as [|b y]; cbn [length] in Hy; [lia|].
  cbn [hadamard]. destruct i as [|i]; cbn [nth]; auto. apply IH; lia.
Qed.

Lemma scatter_scat (k : list T) idx vals : scatter k idx vals = scat k (combine idx vals).
Proof. reflexivity. Qed.

Lemma scale_v_len (v : list T) c : length (scale_v O v c) = length v.
Proof. unfold scale_v. apply map_length. Qed.
Lemma nth_scale_v (v : list T) c i :
  i < length v -> nth i (scale_v O v c) (zero O) = mul O (nth i v (zero O)) c.
Proof.
  intros Hi. unfold scale_v.
  rewrite (nth_indep _ (zero O) (mul O (zero O) c)) by (rewrite map_length; auto).
  apply (map_nth (fun x => mul O x c)).
Qed.

End Had.
