(** Statements (only) of the C08 theorems and the predicates they use.
    Proofs: Update/Lemmas*.v; Props/C08.v closes each statement with [exact].

    Reading guide.  [state] (Model.v) is what data updating can see of a live solver;
    [udata] are the values of the user's own, unscaled P (upper triangle), q, A, b in the
    same sparsity patterns.  [Rel s u] says the solver's internal data are the
    (d, e, c)-scaling of [u]:  P^ = c D P D,  q^ = c D q,  A^ = E A D,  b^ = E b,
    entry by entry (division free, so it makes sense over any commutative ring).
    [Inv s u] adds: the maps into the KKT matrix are injective and in range, the KKT
    copy of P^ and A^ is in sync, and each norm cache is empty or holds what a
    recomputation from the current data would give. *)
From Coq Require Import List Arith ZArith Lia Bool.
Import ListNotations.
Require Import Clarabel.Base.Ops Clarabel.Csc.Model Clarabel.Update.Model.

Section Stmts.
Context {T : Type} (O : Ops T).
Notation state := (@state T).
Notation op := (@op T).
Notation raw := (@raw T).
Notation udata := (@udata T).
Notation zr := (zero O).

(** ** scaling relations *)
Definition mscale (M : raw) (l r : list T) (c : option T) (k : nat) : T :=
  let s := mul O (nth (fst (coord M k)) l zr) (nth (snd (coord M k)) r zr) in
  match c with Some cv => mul O s cv | None => s end.
Definition MatScaled (M : raw) (u l r : list T) (c : option T) : Prop :=
  length (rnzval M) = length u /\
  forall k, k < length u -> nth k (rnzval M) zr = mul O (nth k u zr) (mscale M l r c k).
Definition vscale (s : list T) (c : option T) (i : nat) : T :=
  match c with Some cv => mul O (nth i s zr) cv | None => nth i s zr end.
Definition VecScaled (v u s : list T) (c : option T) : Prop :=
  length v = length u /\
  forall i, i < length u -> nth i v zr = mul O (nth i u zr) (vscale s c i).

Definition Rel (s : state) (u : udata) : Prop :=
  MatScaled (sP s) (uP u) (sd s) (sd s) (Some (sc s)) /\
  VecScaled (sq s) (uq u) (sd s) (Some (sc s)) /\
  MatScaled (sA s) (uA u) (se s) (sd s) None /\
  VecScaled (sb s) (ub u) (se s) None.

Definition WF (s : state) : Prop :=
  length (smapP s) = length (rnzval (sP s)) /\
  length (smapA s) = length (rnzval (sA s)) /\
  Forall (fun i => i < length (skkt s)) (smapP s ++ smapA s) /\
  NoDup (smapP s ++ smapA s) /\
  length (sd s) = length (sq s) /\ length (se s) = length (sb s).

Definition KktSync (s : state) : Prop :=
  (forall k, k < length (rnzval (sP s)) ->
     nth (nth k (smapP s) 0) (skkt s) zr = nth k (rnzval (sP s)) zr) /\
  (forall k, k < length (rnzval (sA s)) ->
     nth (nth k (smapA s) 0) (skkt s) zr = nth k (rnzval (sA s)) zr).

Definition CacheOk (s : state) : Prop :=
  (snq s = None \/ snq s = Some (recompute_normq O s)) /\
  (snb s = None \/ snb s = Some (recompute_normb O s)).

Definition Inv (s : state) (u : udata) : Prop := WF s /\ Rel s u /\ KktSync s /\ CacheOk s.

(** ** what never changes *)
Definition pattern (M : raw) : nat * nat * list nat * list nat :=
  (rm M, rn M, rcolptr M, rrowval M).
Definition same_frame (s s' : state) : Prop :=
  sd s' = sd s /\ sdinv s' = sdinv s /\ se s' = se s /\ seinv s' = seinv s /\ sc s' = sc s /\
  smapP s' = smapP s /\ smapA s' = smapA s /\ spres s' = spres s /\ sdecomp s' = sdecomp s /\
  pattern (sP s') = pattern (sP s) /\ pattern (sA s') = pattern (sA s) /\
  length (skkt s') = length (skkt s).

(** ** classification of operations *)
Definition whole_m (f : @marg T) : bool := match f with MPartial _ _ => false | _ => true end.
Definition whole_v (f : @varg T) : bool := match f with VPartial _ _ => false | _ => true end.
Definition empty_m (f : @marg T) : bool :=
  match f with MEmpty => true | MFull [] => true | _ => false end.
Definition empty_v (f : @varg T) : bool :=
  match f with VEmpty => true | VFull [] => true | _ => false end.
(** all argument forms of the operation are whole-vector / matrix / empty forms *)
Definition whole_op (o : op) : bool :=
  match o with
  | UpdP f | UpdA f => whole_m f
  | UpdQ f | UpdB f => whole_v f
  | UpdData fP fq fA fb => whole_m fP && whole_v fq && whole_m fA && whole_v fb
  | Solve => true
  end.
Definition single_op (o : op) : bool :=
  match o with UpdData _ _ _ _ => false | _ => true end.
Definition empty_op (o : op) : bool :=
  match o with
  | UpdP f | UpdA f => empty_m f
  | UpdQ f | UpdB f => empty_v f
  | UpdData fP fq fA fb => empty_m fP && empty_v fq && empty_m fA && empty_v fb
  | Solve => false
  end.
Definition accepted (s : state) (o : op) : bool := negb (is_err (snd (step O s o))).

(** ** the user's data after an operation, given how the solver answered.
    A single operation changes the user's data iff it was accepted; update_data is the
    sequence P, q, A, b cut at the first rejection. *)
Definition ghost_single (s : state) (u : udata) (o : op) : udata :=
  if accepted s o then user_step u o else u.
Definition ghost_step (s : state) (u : udata) (o : op) : udata :=
  match o with
  | UpdData fP fq fA fb =>
      let u1 := ghost_single s u (UpdP fP) in
      if negb (accepted s (UpdP fP)) then u1 else
      let s1 := fst (step O s (UpdP fP)) in
      let u2 := ghost_single s1 u1 (UpdQ fq) in
      if negb (accepted s1 (UpdQ fq)) then u2 else
      let s2 := fst (step O s1 (UpdQ fq)) in
      let u3 := ghost_single s2 u2 (UpdA fA) in
      if negb (accepted s2 (UpdA fA)) then u3 else
      let s3 := fst (step O s2 (UpdA fA)) in
      ghost_single s3 u3 (UpdB fb)
  | _ => ghost_single s u o
  end.
Fixpoint ghost_run (s : state) (u : udata) (ops : list op) : udata :=
  match ops with
  | [] => u
  | o :: r => ghost_run (fst (step O s o)) (ghost_step s u o) r
  end.

(** a step the statement covers: accepted, or made of whole-vector / matrix forms only
    (a rejected index-value update is the exempt form, F11) *)
Definition StepOk (s : state) (o : op) : Prop := accepted s o = true \/ whole_op o = true.
Fixpoint HistOk (s : state) (ops : list op) : Prop :=
  match ops with
  | [] => True
  | o :: r => StepOk s o /\ HistOk (fst (step O s o)) r
  end.

(** ** statements *)

(** updates are refused, and nothing is written, while the presolver or the chordal
    decomposition is active — for every operation and every argument form *)
Definition is_update (o : op) : Prop := o <> Solve.
Definition stmt_blocked_untouched : Prop :=
  forall (s : state) (o : op), is_update o ->
    (spres s = true -> step O s o = (s, RErr EPresolve)) /\
    (spres s = false -> sdecomp s = true -> step O s o = (s, RErr EChordal)).

(** scalings, maps, flags, sparsity patterns and the size of the KKT matrix are never
    touched, by any operation, accepted or not *)
Definition stmt_step_frame : Prop :=
  forall (s : state) (o : op), same_frame s (fst (step O s o)).

(** an operation writes only the item it names (plus the KKT copy for P / A and the
    corresponding cache for q / b) *)
Definition stmt_step_locality : Prop :=
  forall (s : state),
    (forall f, let s' := fst (step O s (UpdP f)) in
               sq s' = sq s /\ sA s' = sA s /\ sb s' = sb s /\ snq s' = snq s /\ snb s' = snb s) /\
    (forall f, let s' := fst (step O s (UpdA f)) in
               sq s' = sq s /\ sP s' = sP s /\ sb s' = sb s /\ snq s' = snq s /\ snb s' = snb s) /\
    (forall f, let s' := fst (step O s (UpdQ f)) in
               sP s' = sP s /\ sA s' = sA s /\ sb s' = sb s /\ skkt s' = skkt s /\ snb s' = snb s) /\
    (forall f, let s' := fst (step O s (UpdB f)) in
               sP s' = sP s /\ sA s' = sA s /\ sq s' = sq s /\ skkt s' = skkt s /\ snq s' = snq s) /\
    (let s' := fst (step O s Solve) in
               sP s' = sP s /\ sA s' = sA s /\ sq s' = sq s /\ sb s' = sb s /\ skkt s' = skkt s).

(** the result kinds, form by form (matrix data) *)
Definition stmt_upd_mat_result : Prop :=
  forall (M : raw) (l r : list T) (c : option T),
    (forall v, snd (upd_mat O M (MFull v) l r c) =
               match v with
               | [] => None
               | _ => if length v =? length (rnzval M) then None else Some EDim
               end) /\
    (forall D, snd (upd_mat O M (MMat D) l r c) =
               if negb ((rm D =? rm M) && (rn D =? rn M)) then Some EDim
               else if negb (nat_list_eqb (rcolptr D) (rcolptr M) && nat_list_eqb (rrowval D) (rrowval M))
               then Some ESparsity
               else snd (upd_mat O M (MFull (rnzval D)) l r c)) /\
    (forall idx vals, snd (upd_mat O M (MPartial idx vals) l r c) =
               if forallb (fun iv => fst iv <? length (rnzval M)) (combine idx vals)
               then None else Some EDim) /\
    snd (upd_mat O M MEmpty l r c) = None.
Definition stmt_upd_vec_result : Prop :=
  forall (v s : list T) (c : option T),
    (forall d, snd (upd_vec O v (VFull d) s c) =
               match d with
               | [] => None
               | _ => if length d =? length v then None else Some EDim
               end) /\
    (forall idx vals, snd (upd_vec O v (VPartial idx vals) s c) =
               if forallb (fun iv => fst iv <? length v) (combine idx vals)
               then None else Some EDim) /\
    snd (upd_vec O v VEmpty s c) = None.
Definition res_of (e : option uerr) : result := match e with None => ROk | Some x => RErr x end.
Definition stmt_update_result : Prop :=
  forall (s : state),
    (forall f, snd (step O s (UpdP f)) =
       match allowed s with Some e => RErr e
       | None => res_of (snd (upd_mat O (sP s) f (sd s) (sd s) (Some (sc s)))) end) /\
    (forall f, snd (step O s (UpdA f)) =
       match allowed s with Some e => RErr e
       | None => res_of (snd (upd_mat O (sA s) f (se s) (sd s) None)) end) /\
    (forall f, snd (step O s (UpdQ f)) =
       match allowed s with Some e => RErr e
       | None => res_of (snd (upd_vec O (sq s) f (sd s) (Some (sc s)))) end) /\
    (forall f, snd (step O s (UpdB f)) =
       match allowed s with Some e => RErr e
       | None => res_of (snd (upd_vec O (sb s) f (se s) None)) end).

(** rejected whole-vector / matrix updates (single calls) leave the whole state untouched *)
Definition stmt_rejected_whole_untouched : Prop :=
  forall (s : state) (o : op),
    single_op o = true -> whole_op o = true -> accepted s o = false -> fst (step O s o) = s.

(** update_data is exactly the sequence update_P; update_q; update_A; update_b cut at the
    first error, whose result it returns *)
Definition seq2 (sr : state * result) (k : state -> state * result) : state * result :=
  if is_err (snd sr) then sr else k (fst sr).
Definition stmt_update_data_seq : Prop :=
  forall (s : state) fP fq fA fb,
    step O s (UpdData fP fq fA fb) =
    seq2 (step O s (UpdP fP)) (fun s1 =>
    seq2 (step O s1 (UpdQ fq)) (fun s2 =>
    seq2 (step O s2 (UpdA fA)) (fun s3 => step O s3 (UpdB fb)))).
(** hence it is untouched when its first component is the rejected one ... *)
Definition stmt_update_data_rejected_first : Prop :=
  forall (s : state) fP fq fA fb,
    whole_m fP = true -> accepted s (UpdP fP) = false ->
    step O s (UpdData fP fq fA fb) = (s, snd (step O s (UpdP fP))).

(** empty updates are no-ops: Ok, no data / KKT value changes; at most a cache is flushed *)
Definition same_but_caches (s s' : state) : Prop :=
  sP s' = sP s /\ sq s' = sq s /\ sA s' = sA s /\ sb s' = sb s /\ skkt s' = skkt s /\
  same_frame s s' /\ (snq s' = snq s \/ snq s' = None) /\ (snb s' = snb s \/ snb s' = None).
Definition stmt_empty_noop : Prop :=
  forall (s : state) (o : op),
    WF s -> KktSync s -> allowed s = None -> empty_op o = true ->
    snd (step O s o) = ROk /\ same_but_caches s (fst (step O s o)).

(** the invariant is preserved by every covered step, with the user's data moving exactly
    as [ghost_step] says *)
Definition stmt_step_preserves_inv : Prop := RingLaws O ->
  forall (s : state) (u : udata) (o : op),
    Inv s u -> StepOk s o -> Inv (fst (step O s o)) (ghost_step s u o).
Definition stmt_history_inv : Prop := RingLaws O ->
  forall (ops : list op) (s : state) (u : udata),
    Inv s u -> HistOk s ops -> Inv (run O s ops) (ghost_run s u ops).

(** an accepted operation acts on the user's data exactly as the same operation applied to
    the user's own matrices / vectors *)
Definition stmt_accepted_refines : Prop :=
  forall (s : state) (u : udata) (o : op),
    accepted s o = true -> ghost_step s u o = user_step u o.

(** updated vs fresh: two states that are scalings of the same user data have internal
    data related entry by entry by the ratio of their scalings (cross-multiplied) *)
Definition stmt_fresh_vs_updated : Prop := RingLaws O ->
  forall (s sf : state) (u : udata),
    Rel s u -> Rel sf u ->
    pattern (sP s) = pattern (sP sf) -> pattern (sA s) = pattern (sA sf) ->
    (forall k, k < length (uP u) ->
       mul O (nth k (rnzval (sP s)) zr) (mscale (sP sf) (sd sf) (sd sf) (Some (sc sf)) k) =
       mul O (nth k (rnzval (sP sf)) zr) (mscale (sP s) (sd s) (sd s) (Some (sc s)) k)) /\
    (forall k, k < length (uA u) ->
       mul O (nth k (rnzval (sA s)) zr) (mscale (sA sf) (se sf) (sd sf) None k) =
       mul O (nth k (rnzval (sA sf)) zr) (mscale (sA s) (se s) (sd s) None k)) /\
    (forall i, i < length (uq u) ->
       mul O (nth i (sq s) zr) (vscale (sd sf) (Some (sc sf)) i) =
       mul O (nth i (sq sf) zr) (vscale (sd s) (Some (sc s)) i)) /\
    (forall i, i < length (ub u) ->
       mul O (nth i (sb s) zr) (vscale (se sf) None i) =
       mul O (nth i (sb sf) zr) (vscale (se s) None i)).

End Stmts.

(** ** witnesses over the integers (closed statements, proved by computation) *)

(** F11 (exempt form): a rejected index-value update of P leaves a prefix applied and the
    KKT copy out of date *)
Definition stmt_rejected_partial_prefix_witness : Prop :=
  exists (s : @state Z) (u : @udata Z) (o : @op Z),
    Inv OpsZ s u /\ whole_op o = false /\ accepted OpsZ s o = false /\
    sP (fst (step OpsZ s o)) <> sP s /\ ~ KktSync OpsZ (fst (step OpsZ s o)).

(** update_data is not atomic: whole-form arguments, rejected, data changed *)
Definition stmt_update_data_not_atomic_refuted : Prop :=
  exists (s : @state Z) (u : @udata Z) (o : @op Z),
    Inv OpsZ s u /\ single_op o = false /\ whole_op o = true /\ accepted OpsZ s o = false /\
    fst (step OpsZ s o) <> s.

(** ** over the reals: the norm a solve recomputes is the true unscaled infinity norm of the
    user's linear term (so [CacheOk] reads "empty or the true norm" over an ordered field) *)
From Coq Require Import Reals.
Definition norm_inf_R (u : list R) : R := fold_left (fun a v => Rmax a (Rabs v)) u 0%R.
Definition stmt_norm_true_R : Prop :=
  forall (s : @state R) (u : @udata R),
    Rel OpsR s u -> WF s ->
    length (sdinv s) = length (sd s) -> length (seinv s) = length (se s) ->
    (forall i, i < length (sd s) -> (nth i (sd s) 0 * nth i (sdinv s) 0 = 1)%R) ->
    (forall i, i < length (se s) -> (nth i (se s) 0 * nth i (seinv s) 0 = 1)%R) ->
    (0 < sc s)%R ->
    recompute_normq OpsR s = norm_inf_R (uq u) /\ recompute_normb OpsR s = norm_inf_R (ub u).

(** ** the start of every solve depends on the problem data alone (Update/Start.v).
    If the initial KKT solves succeed, the iterate produced by [default_start] is the same
    whatever iterate the previous solve left behind — in particular tau = kappa = 1 — for
    symmetric cones (x, s, z from the KKT solve and the cone shift) and for non-symmetric ones
    (unit initialisation; there only the *length* of the old x is used). *)
Require Import Clarabel.Update.Start.
Definition stmt_default_start_fresh : Prop :=
  forall (T : Type) (O : Ops T) (kkt : @pdata T -> list T -> list T -> option (list T * list T))
         (shiftP shiftD : list T -> list T) (unit_z unit_s : list T)
         (d : @pdata T) (v1 v2 : @vars T),
    length (vx v1) = length (vx v2) ->
    start_ok O kkt d v1 = true ->
    default_start O kkt shiftP shiftD unit_z unit_s d v1 =
    default_start O kkt shiftP shiftD unit_z unit_s d v2 /\
    vtau (default_start O kkt shiftP shiftD unit_z unit_s d v1) = one O /\
    vkappa (default_start O kkt shiftP shiftD unit_z unit_s d v1) = one O.
(** without that success the old iterate leaks into the start (the flag is ignored by
    default_start): a witness over Z with a failing KKT solve *)
Definition stmt_default_start_leak_witness : Prop :=
  exists (d : @pdata Z) (v1 v2 : @vars Z),
    length (vx v1) = length (vx v2) /\
    default_start OpsZ (fun _ _ _ => None) (fun l => l) (fun l => l) nil nil d v1 <>
    default_start OpsZ (fun _ _ _ => None) (fun l => l) (fun l => l) nil nil d v2.
