(** C08: closed witnesses over the integers (non-vacuity of the invariant, the exempt
    form F11, and the non-atomicity of update_data). *)
From Coq Require Import List Arith ZArith Lia Bool.
Import ListNotations.
Require Import Clarabel.Base.Ops Clarabel.Csc.Model Clarabel.Update.Model Clarabel.Update.Spec.

(** user data: P = [1 2; . 3] (upper triangle), q = (1,-1), A = [1 1], b = (2);
    scalings d = (2,3), e = (7), c = 5 *)
Definition wP : @raw Z := mkRaw 2 2 [0;1;3] [0;0;1] [20;60;135]%Z.
Definition wA : @raw Z := mkRaw 1 2 [0;1;2] [0;0] [14;21]%Z.
Definition wS : @state Z :=
  mkState wP [10;-15]%Z wA [14]%Z [2;3]%Z [0;0]%Z [7]%Z [0]%Z 5%Z None None
          [20;60;135;14;0;21;0]%Z [0;1;2] [3;5] false false.
Definition wU : @udata Z := mkU [1;2;3]%Z [1;-1]%Z [1;1]%Z [2]%Z.

Ltac small k H := destruct k as [|[|[|k]]]; try (vm_compute; reflexivity); cbn in H; lia.

Lemma wInv : Inv OpsZ wS wU.
Proof.
  split; [|split; [|split]].
  - unfold WF. cbn. repeat split; auto.
    + repeat constructor.
    + repeat constructor; cbn; intuition lia.
  - unfold Rel, MatScaled, VecScaled. cbn [wS wU sP sq sA sb sd se sc uP uq uA ub].
    repeat split; try reflexivity; intros k Hk; small k Hk.
  - unfold KktSync. cbn [wS sP sA skkt smapP smapA]. split; intros k Hk; small k Hk.
  - split; left; reflexivity.
Qed.

Lemma rejected_partial_prefix_witness_ok : stmt_rejected_partial_prefix_witness.
Proof.
  exists wS, wU, (UpdP (MPartial [0;5] [7;9]%Z)).
  split; [exact wInv|]. split; [reflexivity|]. split; [vm_compute; reflexivity|]. split.
  - intros E. vm_compute in E. discriminate E.
  - intros [K _]. specialize (K 0). vm_compute in K.
    assert (H : (20 = 140)%Z) by (apply K; lia). discriminate H.
Qed.

Lemma update_data_not_atomic_refuted_ok : stmt_update_data_not_atomic_refuted.
Proof.
  exists wS, wU, (UpdData (MFull [1;1;1]%Z) (VFull [1;2;3]%Z) MEmpty VEmpty).
  split; [exact wInv|]. split; [reflexivity|]. split; [reflexivity|].
  split; [vm_compute; reflexivity|].
  intros E. apply (f_equal sP) in E. vm_compute in E. discriminate E.
Qed.

(** non-vacuity of the history theorem: a mixed history (accepted updates of every item, a
    solve, a rejected whole-vector update, an empty update) satisfies its hypotheses *)
Definition wOps : list (@op Z) :=
  [UpdP (MFull [1;1;1]%Z); Solve; UpdQ (VPartial [1] [4]%Z); UpdB (VFull [1;2]%Z);
   UpdA (MMat (mkRaw 1 2 [0;1;2] [0;0] [3;4]%Z)); UpdData MEmpty (VFull [5;6]%Z) (MPartial [1] [2]%Z) VEmpty;
   UpdA (MMat (mkRaw 1 2 [0;2;2] [0;0] [3;4]%Z)); Solve].
Lemma wHistOk : HistOk OpsZ wS wOps.
Proof.
  cbn [wOps HistOk]. repeat split; try (left; vm_compute; reflexivity); try (right; reflexivity).
Qed.
Lemma wResults :
  map (fun sr => snd sr) (trace OpsZ wS wOps) =
  [ROk; RSolveDone; ROk; RErr EDim; ROk; ROk; RErr ESparsity; RSolveDone].
Proof. vm_compute. reflexivity. Qed.
