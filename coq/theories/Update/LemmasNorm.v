(** C08: over the reals, the norm a solve recomputes from the scaled data and the inverse
    scalings is the true infinity norm of the user's q (resp. b). *)
From Coq Require Import List Arith Lia Bool Reals Lra.
Import ListNotations.
Require Import Clarabel.Base.Ops Clarabel.Csc.Model Clarabel.Update.Model Clarabel.Update.Spec.
Local Open Scope R_scope.

Lemma omax_R (a b : R) : omax OpsR a b = Rmax a b.
Proof.
  unfold omax. cbn [ltb OpsR]. unfold Rmax.
  destruct (Rltb a b) eqn:E.
  - apply Rltb_true in E. destruct (Rle_dec a b); [reflexivity|lra].
  - apply Rltb_false in E. destruct (Rle_dec a b); [|reflexivity]. lra.
Qed.

Lemma Rmax_scale (a b c : R) : 0 <= c -> Rmax (a * c) (b * c) = Rmax a b * c.
Proof. intros Hc. rewrite !(Rmult_comm _ c). apply RmaxRmult; auto. Qed.

Lemma fold_max_pointwise (x y u : list R) (c : R) : forall acc,
  length x = length u -> (length u <= length y)%nat -> 0 <= c ->
  (forall i, (i < length u)%nat -> Rabs (nth i x 0 * nth i y 0) = Rabs (nth i u 0) * c) ->
  fold_left (fun a xy => omax OpsR a (abs OpsR (mul OpsR (fst xy) (snd xy)))) (combine x y) (acc * c)
  = fold_left (fun a v => Rmax a (Rabs v)) u acc * c.
Proof.
  revert y u. induction x as [|x0 x IH]; intros y u acc Hl Hy Hc H.
  - destruct u; [reflexivity|discriminate].
  - destruct u as [|u0 u]; [discriminate|]. destruct y as [|y0 y]; [cbn in Hy; lia|].
    cbn [combine fold_left fst snd]. rewrite omax_R. cbn [abs mul OpsR].
    pose proof (H 0%nat) as H0. cbn [nth length] in H0. rewrite H0 by lia.
    rewrite Rmax_scale by auto. apply IH.
    + cbn in Hl; lia.
    + cbn in Hy; lia.
    + auto.
    + intros i Hi. specialize (H (S i)). cbn [nth length] in H. apply H. lia.
Qed.

Lemma norm_true_R_ok : stmt_norm_true_R.
Proof.
  intros s u (R1&R2&R3&R4) (W1&W2&W3&W4&W5&W6) Hdi Hei Hd He Hc.
  destruct R2 as [Lq Vq]. destruct R4 as [Lb Vb]. split.
  - unfold recompute_normq, norm_inf_scaled. cbn [zero OpsR].
    replace 0 with (0 * sc s) at 1 by ring.
    rewrite (fold_max_pointwise (sq s) (sdinv s) (uq u) (sc s) 0).
    + cbn [mul div one OpsR]. fold (norm_inf_R (uq u)). field. lra.
    + exact Lq.
    + lia.
    + lra.
    + intros i Hi. pose proof (Vq i Hi) as E. unfold vscale in E. cbn [mul zero OpsR] in E. rewrite E.
      replace (nth i (uq u) 0 * (nth i (sd s) 0 * sc s) * nth i (sdinv s) 0)
        with (nth i (uq u) 0 * sc s * (nth i (sd s) 0 * nth i (sdinv s) 0)) by ring.
      rewrite Hd by lia. rewrite Rmult_1_r, Rabs_mult, (Rabs_pos_eq (sc s)) by lra. reflexivity.
  - unfold recompute_normb, norm_inf_scaled. cbn [zero OpsR].
    replace 0 with (0 * 1) at 1 by ring.
    rewrite (fold_max_pointwise (sb s) (seinv s) (ub u) 1 0).
    + fold (norm_inf_R (ub u)). ring.
    + exact Lb.
    + lia.
    + lra.
    + intros i Hi. pose proof (Vb i Hi) as E. unfold vscale in E. cbn [mul zero OpsR] in E. rewrite E.
      replace (nth i (ub u) 0 * nth i (se s) 0 * nth i (seinv s) 0)
        with (nth i (ub u) 0 * (nth i (se s) 0 * nth i (seinv s) 0)) by ring.
      rewrite He by lia. ring_simplify (nth i (ub u) 0 * 1). ring.
Qed.
