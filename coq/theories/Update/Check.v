(** Executable correspondence checkers for C08.

    The model of Update/Model.v is run on exact dyadic numbers ([OpsD]: every finite f64 is
    a dyadic, [+ - *] are exact, [div] is rounded to 80 significant bits and only used for
    [1/c] in the norm recomputation).  The harness prints the state of a live
    [DefaultSolver] after construction (scaled data, equilibration vectors, norm caches,
    KKT values and the P/A value maps) and, after every operation of a history, the Rust
    `Result` kind and the fields that changed bitwise.  The checker replays the history in
    the model and compares after every step:
      - the result kind, exactly;
      - data.P.nzval, data.q, data.A.nzval, data.b and KKT.nzval with the model's values:
        by equality when [exact] (equilibration off: all scalings are 1, f64 arithmetic on
        the generated dyadics is exact), otherwise |rust - model| <= 2^tol * |model|
        (model = exact product, Rust = at most three rounded multiplications);
      - the norm caches (None / Some v);
      - that a rejected whole-vector / matrix update and an empty update leave every
        observed data field bitwise unchanged (the harness reports "unchanged" only for
        bitwise equality with the previous observation);
      - that the LDL backend's copy agreed with the KKT values where the harness could
        read it back.
    Codes: 0 = agree; 1000 + 16*step + field = first disagreement (a violation candidate). *)
From Coq Require Import List Arith ZArith NArith QArith Lia Bool.
Import ListNotations.
Require Import Clarabel.Base.Ops Clarabel.Base.Dyadic Clarabel.Csc.Model Clarabel.Update.Model.
Local Open Scope nat_scope.

(** division rounded towards zero to >= 80 significant bits of quotient *)
Definition ddiv (a b : dy) : dy :=
  if (dm b =? 0)%Z then d0
  else
    let k := (Z.log2 (Z.abs (dm b)) + 80)%Z in
    D (Z.quot (dm a * 2 ^ k) (dm b)) (de a - de b - k).

Definition OpsD : Ops dy := {|
  zero := d0; one := d1; add := dadd; sub := dsub; mul := dmul; div := ddiv;
  neg := dneg; abs := dabs; sqrt := fun x => x (* never used *);
  ltb := dltb; leb := dleb; eqb := deqb; ofZ := dofZ |}.

Definition stD := @state dy.
Definition rawD := @raw dy.

Definition RD (m n : N) (cp rv : list N) (nz : list dy) : rawD :=
  mkRaw (N.to_nat m) (N.to_nat n) (map N.to_nat cp) (map N.to_nat rv) nz.
Arguments RD (m n cp rv)%N nz.

Definition nats (l : list N) : list nat := map N.to_nat l.

(** initial state as printed by the harness *)
Definition ST (P : rawD) (q : list dy) (A : rawD) (b d dinv e einv : list dy) (c : dy)
              (nq nb : option dy) (kkt : list dy) (mapP mapA : list N) (pres dec : bool) : stD :=
  mkState P q A b d dinv e einv c nq nb kkt (nats mapP) (nats mapA) pres dec.

(** operations with N indices *)
Definition mpartial (idx : list N) (vals : list dy) : @marg dy := MPartial (nats idx) vals.
Definition vpartial (idx : list N) (vals : list dy) : @varg dy := VPartial (nats idx) vals.

(** observation after one operation; [None] = bitwise unchanged since the previous
    observation (or since the initial state) *)
Record obs : Type := mkObs {
  o_res : N;                       (* 0 Ok, 1 Presolve, 2 Chordal, 3 Dim, 4 Sparsity, 9 solve done *)
  o_P : option (list dy); o_q : option (list dy);
  o_A : option (list dy); o_b : option (list dy);
  o_kkt : option (list dy);         (* KKT.nzval at the positions mapP ++ mapA *)
  o_nq : option dy; o_nb : option dy;   (* caches as stored after the op *)
  o_sync : bool                    (* backend copy agrees with KKT.nzval where readable *)
}.

Definition res_code (r : result) : N :=
  match r with
  | ROk => 0 | RErr EPresolve => 1 | RErr EChordal => 2 | RErr EDim => 3 | RErr ESparsity => 4
  | RSolveDone => 9
  end%N.

(** |a - b| <= 2^tol * max(|a|,|b|)  (tol negative) *)
Definition dclose (tol : Z) (a b : dy) : bool :=
  dleb (dabs (dsub a b)) (dshift (dmax (dabs a) (dabs b)) tol).
Definition deq_mode (exact : bool) (tol : Z) (a b : dy) : bool :=
  if exact then deqb a b else dclose tol a b.

Fixpoint list_rel {X} (f : X -> X -> bool) (a b : list X) : bool :=
  match a, b with
  | [], [] => true
  | x :: a', y :: b' => f x y && list_rel f a' b'
  | _, _ => false
  end.
Definition opt_rel {X} (f : X -> X -> bool) (a b : option X) : bool :=
  match a, b with
  | Some x, Some y => f x y
  | None, None => true
  | _, _ => false
  end.

(** last fully known observation of the Rust side *)
Record seen : Type := mkSeen {
  k_P : list dy; k_q : list dy; k_A : list dy; k_b : list dy; k_kkt : list dy }.
(** the part of KKT.nzval that data updating owns: the images of the P and A maps (the other
    entries — cone blocks, structural diagonal — are rewritten by every solve) *)
Definition kkt_proj (s : stD) : list dy :=
  map (fun i => nth i (skkt s) d0) (smapP s ++ smapA s).
Definition seen_of (s : stD) : seen :=
  mkSeen (rnzval (sP s)) (sq s) (rnzval (sA s)) (sb s) (kkt_proj s).
Definition pick (o : option (list dy)) (old : list dy) : list dy :=
  match o with Some v => v | None => old end.
Definition seen_upd (k : seen) (o : obs) : seen :=
  mkSeen (pick (o_P o) (k_P k)) (pick (o_q o) (k_q k)) (pick (o_A o) (k_A k))
         (pick (o_b o) (k_b k)) (pick (o_kkt o) (k_kkt k)).

Definition is_none {X} (o : option X) : bool := match o with None => true | _ => false end.
Definition data_unchanged (o : obs) : bool :=
  is_none (o_P o) && is_none (o_q o) && is_none (o_A o) && is_none (o_b o) && is_none (o_kkt o).

(** an empty update may re-synchronise the KKT copy (it rewrites all mapped entries, which
    matters only after a rejected partial update, F11) but must not touch P, q, A, b *)
Definition pqab_unchanged (o : obs) : bool :=
  is_none (o_P o) && is_none (o_q o) && is_none (o_A o) && is_none (o_b o).

Definition whole_m (f : @marg dy) : bool :=
  match f with MPartial _ _ => false | _ => true end.
Definition whole_v (f : @varg dy) : bool :=
  match f with VPartial _ _ => false | _ => true end.
Definition empty_m (f : @marg dy) : bool :=
  match f with MEmpty => true | MFull [] => true | _ => false end.
Definition empty_v (f : @varg dy) : bool :=
  match f with VEmpty => true | VFull [] => true | _ => false end.
(** every component a whole-vector / matrix form *)
Definition whole_op (o : @op dy) : bool :=
  match o with
  | UpdP f | UpdA f => whole_m f
  | UpdQ f | UpdB f => whole_v f
  | UpdData fP fq fA fb => false   (* update_data: P may be applied before q is rejected; see design.d/C08.md *)
  | Solve => false
  end.
Definition empty_op (o : @op dy) : bool :=
  match o with
  | UpdP f | UpdA f => empty_m f
  | UpdQ f | UpdB f => empty_v f
  | UpdData fP fq fA fb => empty_m fP && empty_v fq && empty_m fA && empty_v fb
  | Solve => false
  end.

(** first failing field of one step, 0 if none *)
Definition step_check (exact : bool) (tol : Z) (o : @op dy) (s' : stD) (r : result)
           (ob : obs) (k' : seen) : N :=
  let eqv := list_rel (deq_mode exact tol) in
  let rejected := is_err r in
  (if negb (N.eqb (res_code r) (o_res ob)) then 1
  else if negb (eqv (k_P k') (rnzval (sP s'))) then 2
  else if negb (eqv (k_q k') (sq s')) then 3
  else if negb (eqv (k_A k') (rnzval (sA s'))) then 4
  else if negb (eqv (k_b k') (sb s')) then 5
  else if negb (eqv (k_kkt k') (kkt_proj s')) then 6
  else if negb (opt_rel (deq_mode exact tol) (o_nq ob) (snq s')) then 7
  else if negb (opt_rel (deq_mode exact tol) (o_nb ob) (snb s')) then 8
  else if rejected && whole_op o && negb (data_unchanged ob) then 9
  else if empty_op o && negb (pqab_unchanged ob) then 10
  else if negb (o_sync ob) then 11
  else 0)%N.

Fixpoint hist_check (exact : bool) (tol : Z) (i : N) (s : stD) (k : seen)
         (h : list (@op dy * obs)) : N :=
  match h with
  | [] => 0%N
  | (o, ob) :: rest =>
      let '(s', r) := step OpsD s o in
      let k' := seen_upd k ob in
      let c := step_check exact tol o s' r ob k' in
      if N.eqb c 0 then hist_check exact tol (N.succ i) s' k' rest
      else (1000 + 16 * i + c)%N
  end.

(** sanity of the printed initial state: lengths agree, maps in range and injective,
    KKT copy in sync with the data (this is [WF /\ KktSync] of Spec.v, decided) *)
Definition nodupb (l : list nat) : bool :=
  (fix go (l : list nat) : bool :=
     match l with [] => true | x :: r => negb (existsb (Nat.eqb x) r) && go r end) l.
Definition init_ok (s : stD) : bool :=
  let nP := length (rnzval (sP s)) in
  let nA := length (rnzval (sA s)) in
  (length (smapP s) =? nP) && (length (smapA s) =? nA)
  && forallb (fun i => i <? length (skkt s)) (smapP s ++ smapA s)
  && nodupb (smapP s ++ smapA s)
  && (length (sd s) =? rn (sP s)) && (length (sd s) =? rn (sA s)) && (length (se s) =? rm (sA s))
  && (length (sq s) =? length (sd s)) && (length (sb s) =? length (se s))
  && (length (sdinv s) =? length (sd s)) && (length (seinv s) =? length (se s))
  && (length (rrowval (sP s)) =? nP) && (length (rrowval (sA s)) =? nA)
  && list_rel deqb (map (fun i => nth i (skkt s) d0) (smapP s)) (rnzval (sP s))
  && list_rel deqb (map (fun i => nth i (skkt s) d0) (smapA s)) (rnzval (sA s)).

Definition c08_history (exact : bool) (tol : Z) (s : stD) (h : list (@op dy * obs)) : N :=
  if negb (init_ok s) then 999%N else hist_check exact tol 0%N s (seen_of s) h.

(** ** the final comparison: updated solver vs a freshly constructed solver on the final
    user data.  Status classes: 1 solved (full or reduced), 2 primal infeasible,
    3 dual infeasible, 0 anything else (limits / numerical trouble: inconclusive).
    [full] = both verdicts are full accuracy.  The objective tolerance is derived from the
    termination settings: each solver stops with |pcost - dcost| <= max(eps_abs,
    eps_rel * max(1, min(|pcost|,|dcost|))) and primal/dual residuals below eps_feas, so two
    runs on the same problem differ by at most a small multiple of
    eps * max(1, |obj|); the multiple [slack] is passed by the harness. *)
Definition c08_final (cls_upd cls_fresh : N) (obj_upd obj_fresh : dy) (eps : dy) (slack : Z) : N :=
  if N.eqb cls_upd 0 || N.eqb cls_fresh 0 then 0%N        (* inconclusive, counted by the harness *)
  else if negb (N.eqb cls_upd cls_fresh) then 1%N
  else if negb (N.eqb cls_upd 1) then 0%N                 (* infeasibility verdicts carry no objective *)
  else
    let scale := dmax d1 (dmax (dabs obj_upd) (dabs obj_fresh)) in
    if dleb (dabs (dsub obj_upd obj_fresh)) (dmul (dmul (dofZ slack) eps) scale) then 0%N else 1%N.

(** exact residual check of a returned solution against the final USER data (a light
    C01-style oracle in exact arithmetic):
    ||A x + s - b||_inf <= eps * (1 + ||b||_inf + ||s||_inf + ||A x||_inf + ||x||_inf)
    (the solver's own criterion is relative to max(1, ||b|| + ||x|| + ||s||)); the harness
    passes the dense rows of A. *)
Definition ddotl (a b : list dy) : dy := ddot a b.
Definition c08_primal_res (rows : list (list dy)) (x s b : list dy) (eps : dy) : N :=
  let ax := map (fun r => ddotl r x) rows in
  let res := map (fun t => dsub (dadd (fst (fst t)) (snd (fst t))) (snd t))
                 (combine (combine ax s) b) in
  let scale := dadd d1 (dadd (dadd (dnorminf b) (dnorminf s)) (dadd (dnorminf ax) (dnorminf x))) in
  if (length ax =? length b) && (length s =? length b)
     && dleb (dnorminf res) (dmul eps scale) then 0%N else 1%N.

(** two internal states must be bitwise equal (used Rust-vs-Rust with equilibration off:
    updated solver vs fresh solver) — values are passed through Coq so the verdict is
    evaluated here, by exact equality *)
Definition c08_same (a b : list dy) : N := if list_rel deqb a b then 0%N else 1%N.


(** ** time-limit stream (timers are observed, not modelled).
    One record per solve of a re-used solver run with a finite [time_limit] L:
    (status code — 7 = MaxTime —, wall time of the call measured by the harness, reported
    solution.solve_time), all in seconds; [tnew] = wall time of the constructor call.
    The solver's clock is the sum of its root timers "setup", "solve" and "post-process"; the
    last two are reset at the start of every solve; therefore, for a solver that behaves like a fresh one,
      reported solve_time <= tnew + tcall                       (rule 3, slack 50 us)
      MaxTime  ->  tnew + tcall > L                             (rule 1)
    whatever the machine load.  1 = MaxTime although the limit was not exceeded within this
    call; 3 = reported time exceeds the wall time available to a fresh solver; 4 = both. *)
Definition tl_early (L tnew : dy) (r : N * dy * dy) : bool :=
  let '(st, tcall, _) := r in N.eqb st 7 && dltb (dadd tnew tcall) L.
Definition tl_over (tnew slack : dy) (r : N * dy * dy) : bool :=
  let '(_, tcall, reported) := r in dltb (dadd (dadd tnew tcall) slack) reported.
(** 0 = neither rule fires on any solve; 1 = rule 1 only; 3 = rule 3 only; 4 = both *)
Definition c08_timelimit (L tnew slack : dy) (recs : list (N * dy * dy)) : N :=
  ((if existsb (tl_early L tnew) recs then 1 else 0) +
   (if existsb (tl_over tnew slack) recs then 3 else 0))%N.

(** ** start of a solve and its trajectory (iterate state is observed through the trace hook).
    [c08_start]: the first iterate handed to the termination test has tau = kappa = 1
    (Update/Start.v: default_start sets both, in the symmetric and the non-symmetric branch).
    [c08_traj]: the re-used solver's whole trajectory of raw iterates is bit-identical to that
    of a twin built from the same constructor data with the same update operations applied
    and no earlier solve (so they hold bit-identical data and scalings), and the iteration
    counts agree.  [c08_iters]: against a fresh solver with its own equilibration the
    iteration count may differ, but not by more than a generous factor. *)
Definition c08_start (tau kappa : dy) : N := if deqb tau d1 && deqb kappa d1 then 0%N else 1%N.
Definition c08_traj (same : bool) (it_u it_t : N) : N := if same && N.eqb it_u it_t then 0%N else 1%N.
Definition c08_iters (it_u it_f : N) : N := if N.leb it_u (2 * it_f + 5) then 0%N else 1%N.
Definition c08_class_is (cls expected : N) : N := if N.eqb cls expected then 0%N else 1%N.

Definition ofb (b : bool) : N := if b then 0%N else 1%N.
Definition maxl (l : list N) : N := fold_left N.max l 0%N.

Fixpoint fails (k : N) (l : list N) : list (N * N) :=
  match l with
  | [] => []
  | c :: r => if N.eqb c 0 then fails (N.succ k) r else (k, c) :: fails (N.succ k) r
  end.
