(** C08 proofs at the level of [step]: frame, locality, result kinds, rejected / empty
    updates, and preservation of the invariant by steps and histories. *)
From Coq Require Import List Arith ZArith Lia Bool Ring.
Import ListNotations.
Require Import Clarabel.Base.Ops Clarabel.Csc.Model Clarabel.Update.Model Clarabel.Update.Spec.
Require Import Clarabel.Update.LemmasList Clarabel.Update.LemmasUpd.

Section Proofs.
Context {T : Type} (O : Ops T).
Notation state := (@state T).
Notation op := (@op T).
Notation raw := (@raw T).
Notation udata := (@udata T).
Notation zr := (zero O).

(** *** unfolding the four updates into fst/snd form *)
Definition pP (s : state) f := upd_mat O (sP s) f (sd s) (sd s) (Some (sc s)).
Definition pA (s : state) f := upd_mat O (sA s) f (se s) (sd s) None.
Definition pq (s : state) f := upd_vec O (sq s) f (sd s) (Some (sc s)).
Definition pb (s : state) f := upd_vec O (sb s) f (se s) None.

Lemma update_P_eq (s : state) f :
  update_P O s f =
  match allowed s with
  | Some e => (s, RErr e)
  | None => match snd (pP s f) with
            | Some e => (set_P s (fst (pP s f)) (skkt s), RErr e)
            | None => (set_P s (fst (pP s f)) (scatter (skkt s) (smapP s) (rnzval (fst (pP s f)))), ROk)
            end
  end.
Proof.
  unfold update_P, pP. destruct (allowed s); [reflexivity|].
  destruct (upd_mat O (sP s) f (sd s) (sd s) (Some (sc s))) as [P' [e|]]; reflexivity.
Qed.
Lemma update_A_eq (s : state) f :
  update_A O s f =
  match allowed s with
  | Some e => (s, RErr e)
  | None => match snd (pA s f) with
            | Some e => (set_A s (fst (pA s f)) (skkt s), RErr e)
            | None => (set_A s (fst (pA s f)) (scatter (skkt s) (smapA s) (rnzval (fst (pA s f)))), ROk)
            end
  end.
Proof.
  unfold update_A, pA. destruct (allowed s); [reflexivity|].
  destruct (upd_mat O (sA s) f (se s) (sd s) None) as [A' [e|]]; reflexivity.
Qed.
Lemma update_q_eq (s : state) f :
  update_q O s f =
  match allowed s with
  | Some e => (s, RErr e)
  | None => match snd (pq s f) with
            | Some e => (set_q s (fst (pq s f)) (snq s), RErr e)
            | None => (set_q s (fst (pq s f)) None, ROk)
            end
  end.
Proof.
  unfold update_q, pq. destruct (allowed s); [reflexivity|].
  destruct (upd_vec O (sq s) f (sd s) (Some (sc s))) as [q' [e|]]; reflexivity.
Qed.
Lemma update_b_eq (s : state) f :
  update_b O s f =
  match allowed s with
  | Some e => (s, RErr e)
  | None => match snd (pb s f) with
            | Some e => (set_b s (fst (pb s f)) (snb s), RErr e)
            | None => (set_b s (fst (pb s f)) None, ROk)
            end
  end.
Proof.
  unfold update_b, pb. destruct (allowed s); [reflexivity|].
  destruct (upd_vec O (sb s) f (se s) None) as [b' [e|]]; reflexivity.
Qed.

Lemma set_P_id (s : state) : set_P s (sP s) (skkt s) = s. Proof. destruct s; reflexivity. Qed.
Lemma set_A_id (s : state) : set_A s (sA s) (skkt s) = s. Proof. destruct s; reflexivity. Qed.
Lemma set_q_id (s : state) : set_q s (sq s) (snq s) = s. Proof. destruct s; reflexivity. Qed.
Lemma set_b_id (s : state) : set_b s (sb s) (snb s) = s. Proof. destruct s; reflexivity. Qed.

Lemma update_data_eq (s : state) fP fq fA fb :
  update_data O s fP fq fA fb =
  seq2 (update_P O s fP) (fun s1 =>
  seq2 (update_q O s1 fq) (fun s2 =>
  seq2 (update_A O s2 fA) (fun s3 => update_b O s3 fb))).
Proof.
  unfold update_data, seq2.
  destruct (update_P O s fP) as [s1 r1]. cbn [fst snd]. destruct (is_err r1); [reflexivity|].
  destruct (update_q O s1 fq) as [s2 r2]. cbn [fst snd]. destruct (is_err r2); [reflexivity|].
  destruct (update_A O s2 fA) as [s3 r3]. cbn [fst snd]. destruct (is_err r3); reflexivity.
Qed.

(** *** blocked *)
Lemma blocked_untouched_ok : stmt_blocked_untouched O.
Proof.
  intros s o Ho. split.
  - intros Hp. destruct o as [f|f|f|f|fP fq fA fb|]; cbn [step];
      unfold update_data, update_P, update_q, update_A, update_b, allowed; rewrite ?Hp;
      cbn [is_err]; try reflexivity.
    exfalso; apply Ho; reflexivity.
  - intros Hp Hd. destruct o as [f|f|f|f|fP fq fA fb|]; cbn [step];
      unfold update_data, update_P, update_q, update_A, update_b, allowed; rewrite ?Hp, ?Hd;
      cbn [is_err]; try reflexivity.
    exfalso; apply Ho; reflexivity.
Qed.

(** *** frame *)
Lemma same_frame_refl (s : state) : same_frame s s.
Proof. unfold same_frame; repeat split; reflexivity. Qed.
Lemma same_frame_trans (a b c : state) : same_frame a b -> same_frame b c -> same_frame a c.
Proof.
  unfold same_frame. intros H1 H2.
  destruct H1 as (A1&A2&A3&A4&A5&A6&A7&A8&A9&A10&A11&A12).
  destruct H2 as (B1&B2&B3&B4&B5&B6&B7&B8&B9&B10&B11&B12).
  repeat split; congruence.
Qed.

Lemma frame_P (s : state) f : same_frame s (fst (update_P O s f)).
Proof.
  rewrite update_P_eq. destruct (allowed s); [apply same_frame_refl|].
  destruct (upd_mat_pat O (sP s) f (sd s) (sd s) (Some (sc s))) as [Hp Hl]. fold (pP s f) in Hp, Hl.
  destruct (snd (pP s f)); cbn [fst]; unfold same_frame, set_P; cbn;
    repeat split; auto. unfold scatter. fold (scat (skkt s) (combine (smapP s) (rnzval (fst (pP s f))))).
  apply scat_len.
Qed.
Lemma frame_A (s : state) f : same_frame s (fst (update_A O s f)).
Proof.
  rewrite update_A_eq. destruct (allowed s); [apply same_frame_refl|].
  destruct (upd_mat_pat O (sA s) f (se s) (sd s) None) as [Hp Hl]. fold (pA s f) in Hp, Hl.
  destruct (snd (pA s f)); cbn [fst]; unfold same_frame, set_A; cbn;
    repeat split; auto. unfold scatter. fold (scat (skkt s) (combine (smapA s) (rnzval (fst (pA s f))))).
  apply scat_len.
Qed.
Lemma frame_q (s : state) f : same_frame s (fst (update_q O s f)).
Proof.
  rewrite update_q_eq. destruct (allowed s); [apply same_frame_refl|].
  destruct (snd (pq s f)); cbn [fst]; unfold same_frame, set_q; cbn; repeat split; auto.
Qed.
Lemma frame_b (s : state) f : same_frame s (fst (update_b O s f)).
Proof.
  rewrite update_b_eq. destruct (allowed s); [apply same_frame_refl|].
  destruct (snd (pb s f)); cbn [fst]; unfold same_frame, set_b; cbn; repeat split; auto.
Qed.

Lemma seq2_frame (s0 : state) (sr : state * result) (k : state -> state * result) :
  same_frame s0 (fst sr) -> (forall s1, same_frame s0 s1 -> same_frame s0 (fst (k s1))) ->
  same_frame s0 (fst (seq2 sr k)).
Proof. intros H1 H2. unfold seq2. destruct (is_err (snd sr)); auto. Qed.

Lemma step_frame_ok : stmt_step_frame O.
Proof.
  intros s o. destruct o as [f|f|f|f|fP fq fA fb|]; cbn [step].
  - apply frame_P.
  - apply frame_q.
  - apply frame_A.
  - apply frame_b.
  - rewrite update_data_eq.
    apply seq2_frame; [apply frame_P|]. intros s1 H1.
    apply seq2_frame; [eapply same_frame_trans; [exact H1|apply frame_q]|]. intros s2 H2.
    apply seq2_frame; [eapply same_frame_trans; [exact H2|apply frame_A]|]. intros s3 H3.
    eapply same_frame_trans; [exact H3|apply frame_b].
  - unfold solve, same_frame, set_norms; cbn; repeat split; auto.
Qed.

(** *** locality *)
Lemma step_locality_ok : stmt_step_locality O.
Proof.
  intros s. repeat split; try intros f; cbn [step].
  all: try (rewrite update_P_eq; destruct (allowed s); [reflexivity|]; destruct (snd (pP s f)); reflexivity).
  all: try (rewrite update_A_eq; destruct (allowed s); [reflexivity|]; destruct (snd (pA s f)); reflexivity).
  all: try (rewrite update_q_eq; destruct (allowed s); [reflexivity|]; destruct (snd (pq s f)); reflexivity).
  all: try (rewrite update_b_eq; destruct (allowed s); [reflexivity|]; destruct (snd (pb s f)); reflexivity).
Qed.

(** *** result kinds *)
Lemma update_result_ok : stmt_update_result O.
Proof.
  intros s. repeat split; intros f; cbn [step].
  - rewrite update_P_eq. destruct (allowed s); [reflexivity|]. fold (pP s f).
    destruct (snd (pP s f)); reflexivity.
  - rewrite update_A_eq. destruct (allowed s); [reflexivity|]. fold (pA s f).
    destruct (snd (pA s f)); reflexivity.
  - rewrite update_q_eq. destruct (allowed s); [reflexivity|]. fold (pq s f).
    destruct (snd (pq s f)); reflexivity.
  - rewrite update_b_eq. destruct (allowed s); [reflexivity|]. fold (pb s f).
    destruct (snd (pb s f)); reflexivity.
Qed.

(** *** rejected whole forms *)
Lemma rejP (s : state) f : whole_m f = true -> accepted O s (UpdP f) = false -> fst (update_P O s f) = s.
Proof.
  unfold accepted. cbn [step]. rewrite update_P_eq. intros Hw Ha.
  destruct (allowed s); [reflexivity|].
  destruct (snd (pP s f)) eqn:E; cbn [fst snd is_err negb] in *; [|discriminate].
  unfold pP in *. rewrite (upd_mat_whole_err O _ _ _ _ _ _ Hw E). apply set_P_id.
Qed.
Lemma rejA (s : state) f : whole_m f = true -> accepted O s (UpdA f) = false -> fst (update_A O s f) = s.
Proof.
  unfold accepted. cbn [step]. rewrite update_A_eq. intros Hw Ha.
  destruct (allowed s); [reflexivity|].
  destruct (snd (pA s f)) eqn:E; cbn [fst snd is_err negb] in *; [|discriminate].
  unfold pA in *. rewrite (upd_mat_whole_err O _ _ _ _ _ _ Hw E). apply set_A_id.
Qed.
Lemma rejq (s : state) f : whole_v f = true -> accepted O s (UpdQ f) = false -> fst (update_q O s f) = s.
Proof.
  unfold accepted. cbn [step]. rewrite update_q_eq. intros Hw Ha.
  destruct (allowed s); [reflexivity|].
  destruct (snd (pq s f)) eqn:E; cbn [fst snd is_err negb] in *; [|discriminate].
  unfold pq in *. rewrite (upd_vec_whole_err O _ _ _ _ _ Hw E). apply set_q_id.
Qed.
Lemma rejb (s : state) f : whole_v f = true -> accepted O s (UpdB f) = false -> fst (update_b O s f) = s.
Proof.
  unfold accepted. cbn [step]. rewrite update_b_eq. intros Hw Ha.
  destruct (allowed s); [reflexivity|].
  destruct (snd (pb s f)) eqn:E; cbn [fst snd is_err negb] in *; [|discriminate].
  unfold pb in *. rewrite (upd_vec_whole_err O _ _ _ _ _ Hw E). apply set_b_id.
Qed.

Lemma rejected_whole_untouched_ok : stmt_rejected_whole_untouched O.
Proof.
  intros s o Hs Hw Ha. destruct o as [f|f|f|f|fP fq fA fb|]; cbn [single_op whole_op step] in *.
  - apply rejP; auto.
  - apply rejq; auto.
  - apply rejA; auto.
  - apply rejb; auto.
  - discriminate.
  - unfold accepted in Ha. cbn in Ha. discriminate.
Qed.

Lemma update_data_seq_ok : stmt_update_data_seq O.
Proof. intros s fP fq fA fb. cbn [step]. apply update_data_eq. Qed.

Lemma update_data_rejected_first_ok : stmt_update_data_rejected_first O.
Proof.
  intros s fP fq fA fb Hw Ha. cbn [step]. rewrite update_data_eq. unfold seq2.
  pose proof (rejP s fP Hw Ha) as H. unfold accepted in Ha. cbn [step] in Ha.
  destruct (update_P O s fP) as [s1 r1]. cbn [fst snd] in *.
  destruct (is_err r1); [subst; reflexivity|discriminate].
Qed.

(** *** empty updates *)
Lemma scatter_id_sync (k : list T) idx vals :
  length idx = length vals ->
  (forall j, j < length vals -> nth (nth j idx 0) k zr = nth j vals zr) ->
  scatter k idx vals = k.
Proof. intros Hl H. rewrite scatter_scat. apply scat_id with (d := zr). intros j _ Hj. apply H; auto. Qed.

Lemma emptyP (s : state) f : WF s -> KktSync O s -> allowed s = None -> empty_m f = true ->
  update_P O s f = (s, ROk).
Proof.
  intros HW [HK _] Ha He. rewrite update_P_eq, Ha. unfold pP. rewrite (upd_mat_empty O _ _ _ _ _ He).
  cbn [fst snd]. rewrite scatter_id_sync; [rewrite set_P_id; reflexivity| |exact HK].
  destruct HW as [H _]. exact H.
Qed.
Lemma emptyA (s : state) f : WF s -> KktSync O s -> allowed s = None -> empty_m f = true ->
  update_A O s f = (s, ROk).
Proof.
  intros HW [_ HK] Ha He. rewrite update_A_eq, Ha. unfold pA. rewrite (upd_mat_empty O _ _ _ _ _ He).
  cbn [fst snd]. rewrite scatter_id_sync; [rewrite set_A_id; reflexivity| |exact HK].
  destruct HW as [_ [H _]]. exact H.
Qed.
Lemma emptyq (s : state) f : allowed s = None -> empty_v f = true ->
  update_q O s f = (set_q s (sq s) None, ROk).
Proof. intros Ha He. rewrite update_q_eq, Ha. unfold pq. rewrite (upd_vec_empty O _ _ _ _ He). reflexivity. Qed.
Lemma emptyb (s : state) f : allowed s = None -> empty_v f = true ->
  update_b O s f = (set_b s (sb s) None, ROk).
Proof. intros Ha He. rewrite update_b_eq, Ha. unfold pb. rewrite (upd_vec_empty O _ _ _ _ He). reflexivity. Qed.

Lemma sbc_refl (s : state) : same_but_caches s s.
Proof. unfold same_but_caches. repeat split; auto; apply same_frame_refl. Qed.

Lemma empty_noop_ok : stmt_empty_noop O.
Proof.
  intros s o HW HK Ha He. destruct o as [f|f|f|f|fP fq fA fb|]; cbn [empty_op step] in *.
  - rewrite emptyP by auto. split; [reflexivity|apply sbc_refl].
  - rewrite emptyq by auto. split; [reflexivity|].
    unfold same_but_caches, same_frame, set_q; cbn. repeat split; auto.
  - rewrite emptyA by auto. split; [reflexivity|apply sbc_refl].
  - rewrite emptyb by auto. split; [reflexivity|].
    unfold same_but_caches, same_frame, set_b; cbn. repeat split; auto.
  - apply andb_true_iff in He. destruct He as [He He4].
    apply andb_true_iff in He. destruct He as [He He3].
    apply andb_true_iff in He. destruct He as [He1 He2].
    rewrite update_data_eq. unfold seq2.
    rewrite emptyP by auto. cbn [fst snd is_err].
    rewrite emptyq by auto. cbn [fst snd is_err].
    assert (HW2 : WF (set_q s (sq s) None)) by (destruct s; exact HW).
    assert (HK2 : KktSync O (set_q s (sq s) None)) by (destruct s; exact HK).
    assert (Ha2 : allowed (set_q s (sq s) None) = None) by (destruct s; exact Ha).
    rewrite emptyA by auto. cbn [fst snd is_err].
    rewrite emptyb by auto. cbn [fst snd].
    split; [reflexivity|].
    unfold same_but_caches, same_frame, set_b, set_q; cbn. repeat split; auto.
  - discriminate.
Qed.

(** *** accepted operations refine the user-level operation *)
Lemma accepted_data_components (s : state) fP fq fA fb :
  accepted O s (UpdData fP fq fA fb) = true ->
  accepted O s (UpdP fP) = true /\
  accepted O (fst (step O s (UpdP fP))) (UpdQ fq) = true /\
  accepted O (fst (step O (fst (step O s (UpdP fP))) (UpdQ fq))) (UpdA fA) = true /\
  accepted O (fst (step O (fst (step O (fst (step O s (UpdP fP))) (UpdQ fq))) (UpdA fA))) (UpdB fb) = true.
Proof.
  unfold accepted. cbn [step]. rewrite update_data_eq. unfold seq2.
  destruct (is_err (snd (update_P O s fP))) eqn:E1; cbn [negb]; [intros H; rewrite E1 in H; discriminate|].
  destruct (is_err (snd (update_q O (fst (update_P O s fP)) fq))) eqn:E2;
    [intros H; rewrite E2 in H; discriminate|].
  destruct (is_err (snd (update_A O (fst (update_q O (fst (update_P O s fP)) fq)) fA))) eqn:E3;
    [intros H; rewrite E3 in H; discriminate|].
  intros H. repeat split; auto.
Qed.

Lemma accepted_refines_ok : stmt_accepted_refines O.
Proof.
  intros s u o Ha. destruct o as [f|f|f|f|fP fq fA fb|]; cbn [ghost_step];
    try (unfold ghost_single; rewrite Ha; reflexivity).
  destruct (accepted_data_components s fP fq fA fb Ha) as (A1&A2&A3&A4).
  unfold ghost_single. rewrite A1. cbn [negb]. rewrite A2. cbn [negb]. rewrite A3. cbn [negb].
  rewrite A4. reflexivity.
Qed.

End Proofs.
