(** C08: default_start re-initialises the iterate from the data alone. *)
From Coq Require Import List ZArith Bool.
Import ListNotations.
Require Import Clarabel.Base.Ops Clarabel.Update.Start Clarabel.Update.Spec.

Lemma zerosl_len_eq {T} (O : Ops T) (a b : list T) :
  length a = length b -> zerosl O a = zerosl O b.
Proof.
  revert b; induction a as [|x a IH]; intros [|y b] H; cbn in *; try discriminate; auto.
  f_equal. apply IH. congruence.
Qed.

Lemma default_start_fresh_ok : stmt_default_start_fresh.
Proof.
  intros T O kkt shiftP shiftD unit_z unit_s d v1 v2 Hlen Hok.
  unfold default_start, start_ok in *.
  destruct (p_symmetric d).
  - unfold solve_initial_point in *. destruct (p_is_lp d).
    + destruct (kkt d (zerosl O (pq d)) (pb d)) as [[x s]|]; [|discriminate].
      destruct (kkt d (negv O (pq d)) (zerosl O (pb d))) as [[x' z]|]; [|discriminate].
      cbn. auto.
    + destruct (kkt d (negv O (pq d)) (pb d)) as [[x z]|]; [|discriminate].
      cbn. auto.
  - unfold unit_initialization. cbn. rewrite (zerosl_len_eq O _ _ Hlen). auto.
Qed.

Lemma default_start_leak_witness_ok : stmt_default_start_leak_witness.
Proof.
  exists (mkPD false [1%Z] [1%Z] true),
         (mkVars [0%Z] [0%Z] [5%Z] 1%Z 1%Z), (mkVars [0%Z] [0%Z] [7%Z] 1%Z 1%Z).
  split; [reflexivity|]. intros E. vm_compute in E. discriminate E.
Qed.
