(** PSD cone (C13, partial): the scaled vectorisation of the upper triangle used by
    psdtrianglecone.rs — [mat_to_svec] / [svec_to_mat] of algebra/dense/matrix_math.rs —
    as index maps over [Ops T].  A matrix is a function [nat -> nat -> T]; packed position of
    (row, col), row <= col, is col(col+1)/2 + row; off-diagonal entries are scaled by 1/√2
    (so that ⟨svec X, svec Y⟩ = tr(XY)).  Definitions only. *)
From Coq Require Import List ZArith Arith.
Import ListNotations.
Require Import Clarabel.Base.Ops Clarabel.Cones.Vec.

Section PSDIndex.
Context {T : Type} (O : Ops T).
(** T::FRAC_1_SQRT_2 *)
Definition isqrt2 : T := sqrt O (div O (one O) (two O)).
(** one column of mat_to_svec: rows 0..col-1 are (M[row,col] + M[col,row]) * 1/√2, then M[col,col] *)
Definition svec_col (M : nat -> nat -> T) (c : nat) : list T :=
  map (fun r => mul O (add O (M r c) (M c r)) isqrt2) (seq 0 c) ++ [M c c].
Definition mat_to_svec (n : nat) (M : nat -> nat -> T) : list T := flat_map (svec_col M) (seq 0 n).
(** svec_to_mat writes x[idx] on the diagonal and x[idx] * 1/√2 at (row,col) and (col,row) *)
Definition svec_to_mat (x : list T) (r c : nat) : T :=
  let lo := Nat.min r c in let hi := Nat.max r c in
  let v := nth (hi * (hi + 1) / 2 + lo) x (zero O) in
  if Nat.eqb r c then v else mul O v isqrt2.
(** triangular_index(k) = k(k+3)/2 : position of the k-th diagonal entry *)
Definition triangular_index (k : nat) : nat := (k * (k + 3) / 2)%nat.
(** scaled_unit_shift: `for k in 0..n { z[triangular_index(k)] += α }` — the diagonal positions are
    pairwise distinct, so the loop adds α exactly once at each of them *)
Definition is_diag_index (n i : nat) : bool := existsb (fun k => Nat.eqb i (triangular_index k)) (seq 0 n).
Definition psd_scaled_unit_shift (n : nat) (z : list T) (a : T) : list T :=
  map (fun p => if is_diag_index n (fst p) then add O (snd p) a else snd p) (combine (seq 0 (length z)) z).
End PSDIndex.
