(** C15, nonnegative cone: the ratio test is capped, safe and exact (all dimensions). *)
From Coq Require Import List Reals ZArith Lra Lia Bool Psatz.
Import ListNotations.
Require Import Clarabel.Base.Ops Clarabel.Cones.Vec Clarabel.Cones.NN Clarabel.Cones.SpecC15
               Clarabel.Cones.LemmasVec.
Open Scope R_scope.

Lemma omin_R a b : omin OpsR a b = Rmin a b.
Proof.
  unfold omin; cbn. destruct (Rltb b a) eqn:E.
  - apply Rltb_true in E. rewrite Rmin_right; lra.
  - apply Rltb_false in E. rewrite Rmin_left; lra.
Qed.
Lemma omax_R a b : omax OpsR a b = Rmax a b.
Proof.
  unfold omax; cbn. destruct (Rltb a b) eqn:E.
  - apply Rltb_true in E. rewrite Rmax_right; lra.
  - apply Rltb_false in E. rewrite Rmax_left; lra.
Qed.

Lemma nn_step_cons xi x yi y a :
  nn_step OpsR (xi :: x) (yi :: y) a
  = nn_step OpsR x y (if Rltb yi 0 then Rmin a (- xi / yi) else a).
Proof. cbn [nn_step]. rewrite omin_R. reflexivity. Qed.

Lemma nn_step_le_max_ok : stmt_nn_step_le_max.
Proof.
  intros x; induction x as [|xi x IH]; intros [|yi y] amax; try (cbn; lra).
  rewrite nn_step_cons. eapply Rle_trans; [apply IH|].
  destruct (Rltb yi 0); [apply Rmin_l | lra].
Qed.

Lemma nn_step_nonneg_ok :
  forall x y amax, length x = length y -> in_nn x -> 0 <= amax -> 0 <= nn_step OpsR x y amax.
Proof.
  intros x; induction x as [|xi x IH]; intros [|yi y] amax Hl Hx Ha; cbn in Hl; try discriminate; try (cbn; lra).
  rewrite nn_step_cons. inversion Hx as [|? ? Hxi Hx']; subst.
  apply IH; [lia | assumption |].
  destruct (Rltb yi 0) eqn:E; [|assumption].
  apply Rltb_true in E. apply Rmin_glb; [assumption|].
  unfold Rdiv. replace (- xi * / yi) with (xi * / (- yi)) by (field; lra).
  apply Rmult_le_pos; [assumption|]. apply Rlt_le, Rinv_0_lt_compat. lra.
Qed.

Lemma nn_step_safe_ok : stmt_nn_step_safe.
Proof.
  intros x; induction x as [|xi x IH]; intros [|yi y] amax Hl Hx Ha t Ht; cbn in Hl; try discriminate.
  - constructor.
  - rewrite nn_step_cons in Ht. rewrite pt_cons.
    inversion Hx as [|? ? Hxi Hx']; subst.
    set (a' := if Rltb yi 0 then Rmin amax (- xi / yi) else amax) in *.
    assert (Hle : nn_step OpsR x y a' <= a') by apply nn_step_le_max_ok.
    assert (Ha' : 0 <= a').
    { unfold a'. destruct (Rltb yi 0) eqn:E; [|assumption].
      apply Rltb_true in E. apply Rmin_glb; [assumption|].
      unfold Rdiv. replace (- xi * / yi) with (xi * / (- yi)) by (field; lra).
      apply Rmult_le_pos; [assumption|]. apply Rlt_le, Rinv_0_lt_compat. lra. }
    constructor.
    + unfold a' in Hle. destruct (Rltb yi 0) eqn:E.
      * apply Rltb_true in E.
        assert (Ht2 : t <= - xi / yi).
        { eapply Rle_trans; [apply Ht|]. eapply Rle_trans; [apply Hle|]. apply Rmin_r. }
        assert (Hm : t * (- yi) <= xi).
        { apply Rmult_le_compat_r with (r := - yi) in Ht2; [|lra].
          replace (- xi / yi * - yi) with xi in Ht2 by (field; lra). exact Ht2. }
        lra.
      * apply Rltb_false in E. assert (0 <= t * yi) by (apply Rmult_le_pos; lra). lra.
    + apply (IH y a'); [lia | assumption | assumption | assumption].
Qed.

Lemma nn_step_hits x : forall y amax, length x = length y ->
  let a := nn_step OpsR x y amax in a = amax \/ Exists (fun v => v = 0) (pt x a y).
Proof.
  induction x as [|xi x IH]; intros [|yi y] amax Hl; cbn in Hl; try discriminate.
  - left; reflexivity.
  - cbn zeta. rewrite nn_step_cons. rewrite pt_cons.
    set (a' := if Rltb yi 0 then Rmin amax (- xi / yi) else amax).
    destruct (IH y a' ltac:(lia)) as [E|E].
    + cbn zeta in E. rewrite E. unfold a'. destruct (Rltb yi 0) eqn:Ey; [|left; reflexivity].
      apply Rltb_true in Ey.
      destruct (Rle_dec amax (- xi / yi)) as [Hc|Hc].
      * left. apply Rmin_left; assumption.
      * right. rewrite Rmin_right by lra. apply Exists_cons_hd. field; lra.
    + right. apply Exists_cons_tl. exact E.
Qed.

Lemma nn_step_exact_ok : stmt_nn_step_exact.
Proof.
  intros x y amax Hl Hx Ha a.
  destruct (nn_step_hits x y amax Hl) as [E|E]; [left; exact E|].
  right. split; [|exact E].
  apply (nn_step_safe_ok x y amax Hl Hx Ha). split; [|apply Rle_refl].
  apply nn_step_nonneg_ok; assumption.
Qed.
