(** C13, second-order cone, part 3: the hand-optimised Δs_from_Δz_offset equals Wᵀ(λ \ ds). *)
From Coq Require Import List Reals ZArith Lra Lia Bool Psatz Arith.
Import ListNotations.
Require Import Clarabel.Base.Ops Clarabel.Cones.Vec Clarabel.Cones.SOC Clarabel.Cones.SpecC15
               Clarabel.Cones.SpecC13 Clarabel.Cones.LemmasVec Clarabel.Cones.LemmasStepNN
               Clarabel.Cones.LemmasStepSOC Clarabel.Cones.LemmasScalSOC Clarabel.Cones.LemmasScalSOC2.
Open Scope R_scope.
Local Notation sqrt := R_sqrt.sqrt.

(** a d + b z + c w *)
Definition lin3 (a : R) (d : list R) (b : R) (z : list R) (c : R) (w : list R) : list R :=
  map (fun p => a * fst p + b * fst (snd p) + c * snd (snd p)) (combine d (combine z w)).

Lemma lin3_ext a a' b b' c c' d z w : a = a' -> b = b' -> c = c' -> lin3 a d b z c w = lin3 a' d b' z c' w.
Proof. intros; subst; reflexivity. Qed.

Lemma lin2_of_lin2_d a b c e d : forall z w, length d = length z -> length d = length w ->
  lin2 a (lin2 b z c w) e d = lin3 e d (a * b) z (a * c) w.
Proof.
  induction d as [|di d IH]; intros [|zi z] [|wi w] Hz Hw; cbn in Hz, Hw; try discriminate; [reflexivity|].
  unfold lin2, lin3, map2 in *. cbn [combine map fst snd].
  rewrite IH by lia. f_equal. ring.
Qed.
Lemma lin2_of_lin3_w a b p q r d : forall z w, length d = length z -> length d = length w ->
  lin2 a (lin3 p d q z r w) b w = lin3 (a * p) d (a * q) z (a * r + b) w.
Proof.
  induction d as [|di d IH]; intros [|zi z] [|wi w] Hz Hw; cbn in Hz, Hw; try discriminate; [reflexivity|].
  unfold lin2, lin3, map2 in *. cbn [combine map fst snd].
  rewrite IH by lia. f_equal. ring.
Qed.
Lemma rdot_lin3 p q r d : forall z w, length d = length z -> length d = length w ->
  rdot w (lin3 p d q z r w) = p * rdot w d + q * rdot w z + r * rsumsq w.
Proof.
  revert p q r. induction d as [|di d IH]; intros p q r [|zi z] [|wi w] Hz Hw; cbn in Hz, Hw;
    try discriminate; [cbn; ring|].
  unfold lin3, rsumsq in *. cbn [combine map fst snd rdot]. rewrite IH by lia. ring.
Qed.
Lemma offset_tail e g t r d : forall z w, length d = length z -> length d = length w ->
  map (fun v => v * r)
      (map (fun q : R * (R * R) => fst q + e * (fst (snd q) + g * snd (snd q)))
           (combine (map (fun v => v * t) (map Ropp z)) (combine d w)))
  = lin3 (e * r) d (- t * r) z (e * g * r) w.
Proof.
  induction d as [|di d IH]; intros [|zi z] [|wi w] Hz Hw; cbn in Hz, Hw; try discriminate; [reflexivity|].
  unfold lin3 in *. cbn [combine map fst snd]. rewrite IH by lia. f_equal. ring.
Qed.
Lemma lin3_length a b c d z w : length d = length z -> length d = length w ->
  length (lin3 a d b z c w) = length d.
Proof. intros Hz Hw. unfold lin3. rewrite map_length, !combine_length. lia. Qed.

(** operator level: w normalised, η ≠ 0, λ = W z *)
Lemma soc_ds_offset_op w0 w1 eta z0 z1 d0 d1 y0 y1 y0' y1' :
  soc_normalised (w0 :: w1) -> eta <> 0 ->
  length z1 = length w1 -> length d1 = length w1 -> length y1 = length w1 -> length y1' = length w1 ->
  z0 * z0 - rsumsq z1 <> 0 -> w0 * z0 + rdot w1 z1 <> 0 ->
  let lam := soc_mul_W OpsR (w0 :: w1) eta (z0 :: z1) 1 0 (y0 :: y1) in
  soc_ds_from_dz_offset OpsR (w0 :: w1) lam eta (d0 :: d1) (z0 :: z1)
  = soc_mul_W OpsR (w0 :: w1) eta (soc_inv_circ_op OpsR lam (d0 :: d1)) 1 0 (y0' :: y1').
Proof.
  intros [Hw0 Hn] He Hz Hd Hy Hy' Hres Hl0. cbn zeta.
  rewrite (soc_mul_W_R w0 w1 eta z0 z1 y0 y1) by assumption.
  set (zeta := rdot w1 z1) in *. set (cz := z0 + zeta / (1 + w0)).
  set (l0 := eta * (w0 * z0 + zeta)).
  assert (Hl0n : l0 <> 0) by (unfold l0; apply Rmult_integral_contrapositive; split; assumption).
  set (lam1 := lin2 eta z1 (eta * cz) w1).
  assert (Hlam1 : length lam1 = length w1) by (apply lin2_length; assumption).
  set (S := rsumsq w1) in *. assert (HS : S = w0 * w0 - 1) by lra.
  set (Z := rsumsq z1) in *. set (delta := rdot w1 d1). set (V := rdot z1 d1).
  assert (EL1D : rdot lam1 d1 = eta * V + eta * cz * delta).
  { unfold lam1. rewrite rdot_lin2_l by lia. reflexivity. }
  assert (ELL : rsumsq lam1 = eta * eta * Z + 2 * eta * (eta * cz) * zeta + eta * cz * (eta * cz) * S).
  { unfold lam1. rewrite rsumsq_lin2 by assumption. unfold zeta. rewrite (rdot_comm z1 w1). reflexivity. }
  set (p := l0 * l0 - rsumsq lam1).
  assert (Hp : p = eta * eta * (z0 * z0 - Z)).
  { unfold p. rewrite ELL. unfold l0, cz. rewrite HS. field. lra. }
  assert (Hpn : p <> 0).
  { rewrite Hp. apply Rmult_integral_contrapositive. split; [|exact Hres].
    apply Rmult_integral_contrapositive; split; assumption. }
  (* right-hand side *)
  unfold soc_inv_circ_op. rewrite soc_residual_R. cbn [hd0 tl]. rewrite vdot_R. fold p.
  unfold recip. cbn [sub mul div one OpsR]. rewrite EL1D.
  set (v := eta * V + eta * cz * delta).
  set (x0 := (l0 * d0 - v) * (1 / p)).
  set (c1 := 1 / p * (v / l0 - d0)). set (c2 := 1 / l0).
  change (vwaxpby OpsR c1 lam1 c2 d1) with (lin2 c1 lam1 c2 d1).
  unfold lam1 at 2. rewrite lin2_of_lin2_d by lia.
  rewrite soc_mul_W_R by (rewrite ?lin3_length; lia).
  rewrite rdot_lin3 by lia. fold delta. fold zeta. fold S.
  rewrite lin2_of_lin3_w by lia.
  (* left-hand side *)
  unfold soc_ds_from_dz_offset. rewrite soc_residual_R. cbn [hd0 tl]. rewrite !vdot_R.
  fold Z. fold delta. rewrite EL1D. fold v.
  unfold recip, vneg. cbn [vscale map hd0 tl]. cbn [add sub mul div one neg OpsR].
  change (map (fun v0 : R => v0 * (1 / l0)) ?l) with (map (fun v0 : R => v0 * (1 / l0)) l).
  rewrite (offset_tail eta (delta / (1 + w0)) ((l0 * d0 - v) / (z0 * z0 - Z)) (1 / l0) d1 z1 w1) by lia.
  assert (Hz0Z : z0 * z0 - Z <> 0) by exact Hres.
  assert (H1w : 1 + w0 <> 0) by lra.
  f_equal.
  - unfold x0, c1, c2. rewrite Hp, HS. unfold v, cz, l0. field. repeat split; try assumption; try lra.
  - apply lin3_ext.
    + unfold c2. field. exact Hl0n.
    + unfold c1. rewrite Hp. field. repeat split; try assumption.
    + unfold x0, c1, c2. rewrite Hp, HS. unfold v, cz, l0. field. repeat split; try assumption; try lra.
Qed.

Lemma soc_ds_offset_ok : stmt_soc_ds_offset.
Proof.
  intros s z sc ds y Hl Hd Hy Hs Hz Hup.
  destruct (soc_scaling_w_length s z sc Hl Hs Hz Hup) as [Hwl Hll].
  destruct (proj1 soc_nt_identities_partial_ok s z sc Hup) as [Hn He].
  destruct (soc_nt_identities_ok s z sc y Hl Hy Hs Hz Hup) as [E1 _].
  destruct s as [|s0 s1]; [destruct Hs|]. destruct z as [|z0 z1]; [destruct Hz|].
  destruct ds as [|d0 d1]; [discriminate|]. destruct y as [|y0 y1]; [discriminate|].
  cbn in Hl, Hd, Hy.
  (* the head of λ is positive *)
  assert (Hl1 : length s1 = length z1) by lia.
  destruct (soc_update_scaling_closed s0 s1 z0 z1 Hl1 Hs Hz)
    as (ss & zs & ws & eta & k & sc' & Hss & Hzs & Hws & Heta & Hk & _ & _ & _ & _ & _ & Hup' & _ & _ & El).
  rewrite Hup in Hup'. inversion Hup'; subst sc'; clear Hup'.
  destruct (sc_w sc) as [|w0 w1] eqn:Ew; [destruct Hn|]. cbn in Hwl.
  assert (Hlam0 : w0 * z0 + rdot w1 z1 <> 0).
  { intros E0. rewrite (soc_mul_W_R w0 w1 (sc_eta sc) z0 z1 y0 y1) in E1 by lia.
    rewrite El in E1. inversion E1 as [[E1h E1t]]. rewrite E0 in E1h.
    assert (0 < 1 / 2 * ws * k) by (apply Rmult_lt_0_compat; [lra | exact Hk]). lra. }
  rewrite <- E1.
  apply (soc_ds_offset_op w0 w1 (sc_eta sc) z0 z1 d0 d1 y0 y1 y0 y1 Hn); try lia; try lra.
  destruct Hz as [Hz0 Hz]. lra.
Qed.

(** ** set_identity_scaling *)
Lemma rdot_zeros_l k : forall x, rdot (repeat 0 k) x = 0.
Proof. induction k as [|k IH]; intros [|xi x]; cbn; try lra. rewrite IH. lra. Qed.
Lemma rsumsq_zeros k : rsumsq (repeat 0 k) = 0.
Proof. apply rdot_zeros_l. Qed.
Lemma lin2_zeros a b : forall x k, length x = k -> a = 1 -> lin2 a x b (repeat 0 k) = x.
Proof.
  induction x as [|xi x IH]; intros k H Ha; subst k; [reflexivity|].
  cbn [length repeat]. unfold lin2, map2 in *. cbn [combine map fst snd].
  rewrite (IH (length x) eq_refl Ha). subst a. f_equal. ring.
Qed.
Lemma sparse_tail_id e c1 c2 : forall x, e = 1 ->
  rmap2 Rplus (rmap2 Rmult (repeat e (length x)) x)
        (rmap2 (fun ui vi => e * (c1 * ui - c2 * vi)) (repeat 0 (length x)) (repeat 0 (length x))) = x.
Proof.
  induction x as [|xi x IH]; intros He; [reflexivity|].
  cbn [length repeat]. unfold rmap2, map2 in *. cbn [combine map fst snd]. rewrite (IH He).
  subst e. f_equal. ring.
Qed.

Lemma soc_identity_scaling_ok : stmt_soc_identity_scaling.
Proof.
  intros prev [|x0 x1] [|y0 y1] Hn Hw Hy; cbn in Hn, Hy; try lia; try discriminate.
  cbn zeta. unfold soc_set_identity_scaling. rewrite <- Hw. cbn [length sc_w sc_eta sc_sparse].
  cbn [one zero OpsR]. set (k := length x1).
  assert (Hy1 : length y1 = k) by (unfold k; lia).
  assert (Hnorm : soc_normalised (1 :: repeat 0 k)).
  { cbn [soc_normalised]. rewrite rsumsq_zeros. lra. }
  assert (HW : forall b0 b1, length b1 = k -> soc_mul_W OpsR (1 :: repeat 0 k) 1 (x0 :: x1) 1 0 (b0 :: b1) = x0 :: x1).
  { intros b0 b1 Hb. rewrite soc_mul_W_R by (rewrite repeat_length; auto).
    rewrite rdot_zeros_l. f_equal; [ring|]. apply lin2_zeros; reflexivity. }
  split; [exact Hnorm|]. split; [reflexivity|]. split; [apply HW; exact Hy1|]. split.
  - rewrite soc_mul_Winv_R by (rewrite repeat_length; auto).
    rewrite rdot_zeros_l. f_equal; [field|]. apply lin2_zeros; [reflexivity | field].
  - split.
    + rewrite <- (soc_Hs_is_WW_ok (1 :: repeat 0 k) 1 (x0 :: x1) (y0 :: y1) (y0 :: y1) Hnorm)
        by (cbn [length]; rewrite repeat_length; unfold k; lia).
      rewrite HW by exact Hy1. apply HW. exact Hy1.
    + intros sp Hsp. destruct (sc_sparse prev); [|discriminate]. inversion Hsp; subst sp; clear Hsp.
      cbn [sp_u sp_v sp_d]. unfold soc_get_Hs_sparse. cbn [mul div one OpsR Ops.sqrt]. rewrite ?two_R.
      unfold sparse_op. cbn [repeat rdot]. rewrite !rdot_zeros_l.
      unfold rmap2 at 1 2 3, map2. cbn [combine map fst snd]. f_equal.
      * assert (Q : R_sqrt.sqrt (1 / 2) * R_sqrt.sqrt (1 / 2) = 1 / 2) by (apply sqrt_sqrt; lra).
        set (q := R_sqrt.sqrt (1 / 2)) in *.
        replace (1 * 1 * (1 / 2) * x0 + 1 * 1 * ((q * x0 + 0) * q - (0 * x0 + 0) * 0))
          with ((1 / 2) * x0 + (q * q) * x0) by ring.
        rewrite Q. lra.
      * fold k. apply (sparse_tail_id (1 * 1) _ _ x1). ring.
Qed.

(** ** y <- α W x + β y for every α, β *)
Lemma axpby2_affine a b A B A' B' : A = a * A' -> B = a * B' ->
  forall x w y, length x = length w -> length y = length w ->
  vaxpby OpsR A x 1 (vaxpby OpsR B w b y)
  = rmap2 (fun p q => a * p + b * q) (vaxpby OpsR A' x 1 (vaxpby OpsR B' w 0 y)) y.
Proof.
  intros HA HB. induction x as [|xi x IH]; intros [|wi w] [|yi y] Hx Hy; cbn in Hx, Hy; try discriminate;
    [reflexivity|].
  unfold vaxpby, rmap2, map2 in *. cbn [combine map fst snd]. rewrite IH by lia.
  cbn [add mul OpsR]. subst A B. f_equal. ring.
Qed.

Lemma soc_mul_W_affine_ok : stmt_soc_mul_W_affine.
Proof.
  intros [|w0 w1] eta [|x0 x1] a b [|y0 y1] Hn Hx Hy; cbn in Hn, Hx, Hy; try discriminate; try lia.
  unfold soc_mul_W, soc_mul_Winv. cbn [hd0 tl]. rewrite !vdot_R.
  cbn [add sub mul div neg one zero OpsR]. split.
  all: unfold rmap2 at 1; unfold map2 at 1; cbn [combine map fst snd]; f_equal; try (unfold Rdiv; ring).
  - apply (axpby2_affine a b); [ring | ring | lia | lia].
  - apply (axpby2_affine a b); [unfold Rdiv; ring | unfold Rdiv; ring | lia | lia].
Qed.
