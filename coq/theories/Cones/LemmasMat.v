(** Algebra of the matrices of Mat.v: setoid structure of [meq n], associativity, identity,
    transposes, diagonal matrices, quadratic forms under congruence. *)
From Coq Require Import List Reals ZArith Lra Lia Arith Setoid Morphisms.
Require Import Clarabel.Base.Ops Clarabel.Cones.SpecPSD Clarabel.Cones.Mat.
Open Scope R_scope.

Lemma sumn_ext f g n : (forall i, (i < n)%nat -> f i = g i) -> sumn f n = sumn g n.
Proof. induction n as [|n IH]; intros H; cbn; [reflexivity|]. rewrite IH, H by (intros; try apply H; lia). reflexivity. Qed.
Lemma sumn_plus f g n : sumn (fun i => f i + g i) n = sumn f n + sumn g n.
Proof. induction n as [|n IH]; cbn; [lra|]. rewrite IH. lra. Qed.
Lemma sumn_scal a f n : sumn (fun i => a * f i) n = a * sumn f n.
Proof. induction n as [|n IH]; cbn; [lra|]. rewrite IH. lra. Qed.
Lemma sumn_scal_r a f n : sumn (fun i => f i * a) n = sumn f n * a.
Proof. induction n as [|n IH]; cbn; [lra|]. rewrite IH. lra. Qed.
Lemma sumn_zero n : sumn (fun _ => 0) n = 0.
Proof. induction n as [|n IH]; cbn; [lra|]. rewrite IH. lra. Qed.
Lemma sumn_swap (f : nat -> nat -> R) m n :
  sumn (fun k => sumn (fun l => f k l) n) m = sumn (fun l => sumn (fun k => f k l) m) n.
Proof.
  induction m as [|m IH]; cbn [sumn].
  - rewrite sumn_zero. reflexivity.
  - rewrite IH. rewrite <- sumn_plus. reflexivity.
Qed.
Lemma sumn_nonneg f n : (forall i, (i < n)%nat -> 0 <= f i) -> 0 <= sumn f n.
Proof. induction n as [|n IH]; intros H; cbn; [lra|]. assert (0 <= sumn f n) by (apply IH; intros; apply H; lia). specialize (H n ltac:(lia)). lra. Qed.
(** Σ_k [k = j] g k = g j *)
Lemma sumn_delta (g : nat -> R) j n : (j < n)%nat ->
  sumn (fun k => (if Nat.eqb k j then 1 else 0) * g k) n = g j.
Proof.
  induction n as [|n IH]; intros H; [lia|]. cbn [sumn].
  destruct (Nat.eq_dec j n) as [E|E].
  - subst j. rewrite Nat.eqb_refl.
    rewrite (sumn_ext _ (fun _ => 0)); [rewrite sumn_zero; lra|].
    intros i Hi. rewrite (proj2 (Nat.eqb_neq i n)) by lia. lra.
  - rewrite IH by lia. rewrite (proj2 (Nat.eqb_neq n j)) by lia. lra.
Qed.

(** ** setoid *)
Global Instance meq_equiv n : Equivalence (meq n).
Proof.
  split.
  - intros A i j _ _. reflexivity.
  - intros A B H i j Hi Hj. symmetry. apply H; assumption.
  - intros A B C H1 H2 i j Hi Hj. rewrite H1, H2 by assumption. reflexivity.
Qed.
Global Instance mmul_proper n : Proper (meq n ==> meq n ==> meq n) (mmul n).
Proof.
  intros A A' HA B B' HB i j Hi Hj. unfold mmul. apply sumn_ext. intros k Hk.
  rewrite HA, HB by assumption. reflexivity.
Qed.
Global Instance mT_proper n : Proper (meq n ==> meq n) mT.
Proof. intros A A' HA i j Hi Hj. unfold mT. apply HA; assumption. Qed.
Global Instance madd_proper n : Proper (meq n ==> meq n ==> meq n) madd.
Proof. intros A A' HA B B' HB i j Hi Hj. unfold madd. rewrite HA, HB by assumption. reflexivity. Qed.
Global Instance mscal_proper n c : Proper (meq n ==> meq n) (mscal c).
Proof. intros A A' HA i j Hi Hj. unfold mscal. rewrite HA by assumption. reflexivity. Qed.

Lemma mmul_assoc n A B C : meq n (mmul n (mmul n A B) C) (mmul n A (mmul n B C)).
Proof.
  intros i j _ _. unfold mmul.
  rewrite (sumn_ext _ (fun k => sumn (fun l => A i l * B l k * C k j) n))
    by (intros k _; rewrite <- sumn_scal_r; reflexivity).
  rewrite sumn_swap. apply sumn_ext. intros l _. rewrite <- sumn_scal. apply sumn_ext. intros k _. ring.
Qed.
Lemma mmul_I_l n A : meq n (mmul n mI A) A.
Proof.
  intros i j Hi Hj. unfold mmul, mI.
  rewrite (sumn_ext _ (fun k => (if Nat.eqb k i then 1 else 0) * A k j))
    by (intros k _; rewrite (Nat.eqb_sym i k); reflexivity).
  apply (sumn_delta (fun k => A k j) i n Hi).
Qed.
Lemma mmul_I_r n A : meq n (mmul n A mI) A.
Proof.
  intros i j Hi Hj. unfold mmul, mI.
  rewrite (sumn_ext _ (fun k => (if Nat.eqb k j then 1 else 0) * A i k)) by (intros k _; ring).
  apply (sumn_delta (fun k => A i k) j n Hj).
Qed.
Lemma mT_mmul n A B : meq n (mT (mmul n A B)) (mmul n (mT B) (mT A)).
Proof. intros i j _ _. unfold mT, mmul. apply sumn_ext. intros k _. ring. Qed.
Lemma mT_mT n A : meq n (mT (mT A)) A.
Proof. intros i j _ _. reflexivity. Qed.
Lemma mT_diag n d : meq n (mT (mdiag d)) (mdiag d).
Proof.
  intros i j _ _. unfold mT, mdiag. rewrite (Nat.eqb_sym j i).
  destruct (Nat.eqb i j) eqn:E; [apply Nat.eqb_eq in E; subst; reflexivity | reflexivity].
Qed.
Lemma mT_I n : meq n (mT mI) mI.
Proof. intros i j _ _. unfold mT, mI. rewrite (Nat.eqb_sym j i). reflexivity. Qed.
(** diagonal products *)
Lemma mmul_diag_l n d A : meq n (mmul n (mdiag d) A) (fun i j => d i * A i j).
Proof.
  intros i j Hi Hj. unfold mmul, mdiag.
  rewrite (sumn_ext _ (fun k => (if Nat.eqb k i then 1 else 0) * (d i * A k j))).
  - apply (sumn_delta (fun k => d i * A k j) i n Hi).
  - intros k _. rewrite (Nat.eqb_sym i k). destruct (Nat.eqb k i); ring.
Qed.
Lemma mmul_diag_r n d A : meq n (mmul n A (mdiag d)) (fun i j => A i j * d j).
Proof.
  intros i j Hi Hj. unfold mmul, mdiag.
  rewrite (sumn_ext _ (fun k => (if Nat.eqb k j then 1 else 0) * (A i k * d j))).
  - apply (sumn_delta (fun k => A i k * d j) j n Hj).
  - intros k _. destruct (Nat.eqb k j) eqn:E; [apply Nat.eqb_eq in E; subst; ring | ring].
Qed.
Lemma mdiag_mul n d e : meq n (mmul n (mdiag d) (mdiag e)) (mdiag (fun i => d i * e i)).
Proof.
  intros i j Hi Hj. rewrite (mmul_diag_l n d (mdiag e) i j Hi Hj). unfold mdiag.
  destruct (Nat.eqb i j) eqn:E; [apply Nat.eqb_eq in E; subst; reflexivity | ring].
Qed.
Lemma mdiag_one n d : (forall i, (i < n)%nat -> d i = 1) -> meq n (mdiag d) mI.
Proof. intros H i j Hi Hj. unfold mdiag, mI. destruct (Nat.eqb i j); [apply H; exact Hi | reflexivity]. Qed.
Lemma mdiag_ext n d e : (forall i, (i < n)%nat -> d i = e i) -> meq n (mdiag d) (mdiag e).
Proof. intros H i j Hi Hj. unfold mdiag. destruct (Nat.eqb i j); [apply H; exact Hi | reflexivity]. Qed.
Lemma mmul_madd_r n A B C : meq n (mmul n A (madd B C)) (madd (mmul n A B) (mmul n A C)).
Proof. intros i j _ _. unfold mmul, madd. rewrite <- sumn_plus. apply sumn_ext. intros; ring. Qed.
Lemma mmul_madd_l n A B C : meq n (mmul n (madd A B) C) (madd (mmul n A C) (mmul n B C)).
Proof. intros i j _ _. unfold mmul, madd. rewrite <- sumn_plus. apply sumn_ext. intros; ring. Qed.
Lemma mmul_mscal_r n c A B : meq n (mmul n A (mscal c B)) (mscal c (mmul n A B)).
Proof. intros i j _ _. unfold mmul, mscal. rewrite <- sumn_scal. apply sumn_ext. intros; ring. Qed.
Lemma mmul_mscal_l n c A B : meq n (mmul n (mscal c A) B) (mscal c (mmul n A B)).
Proof. intros i j _ _. unfold mmul, mscal. rewrite <- sumn_scal. apply sumn_ext. intros; ring. Qed.

(** ** quadratic forms *)
Lemma qf_meq n A B x : meq n A B -> qf n A x = qf n B x.
Proof.
  intros H. unfold qf, mv. apply sumn_ext. intros i Hi. f_equal. apply sumn_ext. intros k Hk.
  rewrite H by assumption. reflexivity.
Qed.
Global Instance psd_proper n : Proper (meq n ==> iff) (psd n).
Proof. intros A B H. unfold psd. split; intros P x; [rewrite <- (qf_meq n A B x H) | rewrite (qf_meq n A B x H)]; apply P. Qed.
Lemma qf_madd n A B x : qf n (madd A B) x = qf n A x + qf n B x.
Proof.
  unfold qf, mv, madd. rewrite <- sumn_plus. apply sumn_ext. intros i _.
  rewrite <- Rmult_plus_distr_l. f_equal. rewrite <- sumn_plus. apply sumn_ext. intros; ring.
Qed.
Lemma qf_mscal n c A x : qf n (mscal c A) x = c * qf n A x.
Proof.
  unfold qf, mv, mscal. rewrite <- sumn_scal. apply sumn_ext. intros i _.
  rewrite (sumn_ext _ (fun k => c * (A i k * x k))) by (intros; ring). rewrite sumn_scal. ring.
Qed.
Lemma qf_I n x : qf n mI x = vdotn n x x.
Proof.
  unfold qf, mv, vdotn, mI. apply sumn_ext. intros i Hi. f_equal.
  rewrite (sumn_ext _ (fun k => (if Nat.eqb k i then 1 else 0) * x k))
    by (intros k _; rewrite (Nat.eqb_sym i k); reflexivity).
  apply (sumn_delta x i n Hi).
Qed.
Lemma vdotn_nonneg n x : 0 <= vdotn n x x.
Proof. unfold vdotn. apply sumn_nonneg. intros i _. apply Rle_0_sqr. Qed.
Lemma mv_mmul n A B x i : mv n (mmul n A B) x i = mv n A (mv n B x) i.
Proof.
  unfold mv, mmul.
  transitivity (sumn (fun k => sumn (fun l => A i l * B l k * x k) n) n).
  { apply sumn_ext. intros k _. rewrite <- sumn_scal_r. reflexivity. }
  rewrite sumn_swap. apply sumn_ext. intros l _. rewrite <- sumn_scal. apply sumn_ext. intros; ring.
Qed.
Lemma qf_mT_mmul n C D x : qf n (mmul n (mT C) D) x = vdotn n (mv n C x) (mv n D x).
Proof.
  unfold qf. rewrite (sumn_ext _ (fun i => x i * mv n (mT C) (mv n D x) i))
    by (intros; rewrite mv_mmul; reflexivity).
  set (dx := mv n D x). unfold vdotn, mv, mT.
  transitivity (sumn (fun i => sumn (fun a => x i * (C a i * dx a)) n) n).
  { apply sumn_ext. intros i _. rewrite <- sumn_scal. reflexivity. }
  rewrite sumn_swap. apply sumn_ext. intros a _. rewrite <- sumn_scal_r. apply sumn_ext. intros; ring.
Qed.
(** xᵀ (Cᵀ B C) x = (C x)ᵀ B (C x) *)
Lemma qf_congruence n B C x : qf n (mmul n (mT C) (mmul n B C)) x = qf n B (mv n C x).
Proof.
  rewrite qf_mT_mmul. unfold vdotn, qf. apply sumn_ext. intros i _. rewrite mv_mmul. reflexivity.
Qed.
Lemma psd_congruence n B C : psd n B -> psd n (mmul n (mT C) (mmul n B C)).
Proof. intros H x. rewrite qf_congruence. apply H. Qed.
Lemma psd_madd n A B : psd n A -> psd n B -> psd n (madd A B).
Proof. intros HA HB x. rewrite qf_madd. specialize (HA x). specialize (HB x). lra. Qed.
Lemma psd_mscal n c A : 0 <= c -> psd n A -> psd n (mscal c A).
Proof. intros Hc HA x. rewrite qf_mscal. apply Rmult_le_pos; [exact Hc | apply HA]. Qed.
Lemma psd_I n : psd n mI.
Proof. intros x. rewrite qf_I. apply vdotn_nonneg. Qed.
