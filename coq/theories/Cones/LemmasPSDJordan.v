(** PSD cone, C13: Jordan operations, Δs offset and combined shift in matrix form. *)
From Coq Require Import List Reals ZArith Lra Lia Arith Setoid Morphisms.
Import ListNotations.
Require Import Clarabel.Base.Ops Clarabel.Cones.Vec Clarabel.Cones.SpecC15 Clarabel.Cones.SpecPSD
               Clarabel.Cones.Mat Clarabel.Cones.LemmasMat Clarabel.Cones.PSDIndex Clarabel.Cones.PSDOps
               Clarabel.Cones.LemmasVec Clarabel.Cones.LemmasScalSOC2 Clarabel.Cones.LemmasPSDIndex
               Clarabel.Cones.SpecPSDScal Clarabel.Cones.LemmasPSDScal Clarabel.Cones.LemmasPSDOps
               Clarabel.Cones.SpecPSDJordan.
Open Scope R_scope.

(** at OpsR the generic sums / products are the ones of Mat.v *)
Lemma osum_R f n : osum OpsR f n = sumn f n.
Proof. induction n as [|n IH]; [reflexivity|]. cbn. rewrite IH. reflexivity. Qed.
Lemma omm_R n A B i j : omm OpsR n A B i j = mmul n A B i j.
Proof. unfold omm, mmul. rewrite osum_R. reflexivity. Qed.

(** symmetry (for ALL indices) *)
Lemma smat_sym x : symmetric (smat x).
Proof.
  intros r c. unfold smat, svec_to_mat. cbn zeta.
  rewrite (Nat.min_comm c r), (Nat.max_comm c r), (Nat.eqb_sym c r). reflexivity.
Qed.
Lemma conjN_sym n Rx X : symmetric X -> symmetric (mmul n (mmul n (mT Rx) X) Rx).
Proof.
  intros HX r c. unfold mmul, mT.
  transitivity (sumn (fun k => sumn (fun l => Rx l r * X l k * Rx k c) n) n).
  { apply sumn_ext. intros k _. rewrite <- sumn_scal_r. reflexivity. }
  transitivity (sumn (fun k => sumn (fun l => Rx l c * X l k * Rx k r) n) n).
  2:{ apply sumn_ext. intros k _. rewrite <- sumn_scal_r. reflexivity. }
  rewrite (sumn_swap (fun k l => Rx l c * X l k * Rx k r)).
  apply sumn_ext. intros k _. apply sumn_ext. intros l _. rewrite (HX k l). ring.
Qed.
Lemma conjT_sym n Rx X : symmetric X -> symmetric (mmul n Rx (mmul n X (mT Rx))).
Proof.
  intros HX r c. unfold mmul, mT.
  transitivity (sumn (fun k => sumn (fun l => Rx r k * X k l * Rx c l) n) n).
  { apply sumn_ext. intros k _. rewrite <- sumn_scal. apply sumn_ext. intros; ring. }
  transitivity (sumn (fun k => sumn (fun l => Rx c k * X k l * Rx r l) n) n).
  2:{ apply sumn_ext. intros k _. rewrite <- sumn_scal. apply sumn_ext. intros; ring. }
  rewrite (sumn_swap (fun k l => Rx c k * X k l * Rx r l)).
  apply sumn_ext. intros k _. apply sumn_ext. intros l _. rewrite (HX l k). ring.
Qed.
Lemma conjR_mmul tr n Rx X i j :
  conjR tr n Rx X i j = (if tr then mmul n Rx (mmul n X (mT Rx)) else mmul n (mmul n (mT Rx) X) Rx) i j.
Proof.
  unfold conjR, opsd_conj. destruct tr.
  - rewrite omm_R. unfold mmul. apply sumn_ext. intros k _. rewrite omm_R. reflexivity.
  - rewrite omm_R. unfold mmul. apply sumn_ext. intros k _. rewrite omm_R. reflexivity.
Qed.
Lemma conjR_sym tr n Rx X : symmetric X -> symmetric (conjR tr n Rx X).
Proof.
  intros HX r c. rewrite !conjR_mmul. destruct tr; [apply conjT_sym | apply conjN_sym]; exact HX.
Qed.
Lemma jcirc_sym n Y Z : symmetric Y -> symmetric Z -> symmetric (jcirc n Y Z).
Proof.
  intros HY HZ r c. unfold jcirc, mscal, madd, mmul. f_equal.
  rewrite Rplus_comm. f_equal; apply sumn_ext; intros k _; rewrite (HY _ _), (HZ _ _); ring.
Qed.

Lemma psd_mul_Wx_mat_ok : stmt_psd_mul_Wx_mat.
Proof.
  intros tr n Rx x a b y i j Hi Hj. unfold smat at 1, opsd_mul_Wx.
  rewrite mat_svec_inverse; try assumption; [reflexivity|].
  intros r c. cbn [add mul OpsR].
  pose proof (conjR_sym tr n Rx (smat x) (smat_sym x) r c) as E1. unfold conjR, smat in E1. rewrite E1.
  pose proof (smat_sym y r c) as E2. unfold smat in E2. rewrite E2. reflexivity.
Qed.

Lemma psd_circ_mat_ok : stmt_psd_circ_mat.
Proof.
  intros n y z i j Hi Hj. unfold smat at 1, opsd_circ_op. cbn zeta.
  rewrite mat_svec_inverse; try assumption.
  - unfold jcirc, mscal, madd. rewrite !omm_R. unfold half. rewrite two_R. reflexivity.
  - intros r c. cbn [add mul OpsR]. rewrite !omm_R.
    pose proof (jcirc_sym n (smat y) (smat z) (smat_sym y) (smat_sym z) r c) as E.
    unfold jcirc, mscal, madd in E. unfold half. rewrite two_R. cbn [div one OpsR]. exact E.
Qed.

Lemma psd_lam_inv_circ_mat_ok : stmt_psd_lam_inv_circ_mat.
Proof.
  intros n lam z i j Hi Hj. unfold smat at 1, opsd_lam_inv_circ. cbn zeta.
  rewrite mat_svec_inverse; try assumption.
  - unfold linv. rewrite two_R. reflexivity.
  - intros r c. cbn [add mul div OpsR]. pose proof (smat_sym z r c) as E. unfold smat in E. rewrite E, (Rplus_comm (lam r)). reflexivity.
Qed.

Lemma map_zero_seq (g : nat -> R) c : forall s, (forall r, (s <= r < s + c)%nat -> g r = 0) ->
  map g (seq s c) = repeat 0 c.
Proof.
  induction c as [|c IH]; intros s H; [reflexivity|].
  cbn [seq map repeat]. rewrite H by lia. f_equal. apply IH. intros r Hr. apply H. lia.
Qed.
Lemma diag_vec_is_svec n d : opsd_diag_vec OpsR n d = mat_to_svec OpsR n (mdiag d).
Proof.
  unfold opsd_diag_vec, mat_to_svec. induction n as [|n IH]; [reflexivity|].
  rewrite seq_S, !flat_map_app. cbn [flat_map]. rewrite !app_nil_r, IH. f_equal.
  unfold svec_col. cbn [Nat.add]. f_equal.
  - symmetry. apply map_zero_seq. intros r Hr. unfold mdiag.
    rewrite (proj2 (Nat.eqb_neq r n)) by lia. rewrite (proj2 (Nat.eqb_neq n r)) by lia.
    cbn [add mul zero OpsR]. ring.
  - unfold mdiag. rewrite Nat.eqb_refl. reflexivity.
Qed.

Lemma mdiag_sym d : symmetric (mdiag d).
Proof.
  intros r c. unfold mdiag. rewrite (Nat.eqb_sym c r).
  destruct (Nat.eqb r c) eqn:E; [apply Nat.eqb_eq in E; subst; reflexivity | reflexivity].
Qed.
Lemma psd_diag_vec_mat_ok : stmt_psd_diag_vec_mat.
Proof.
  intros n d i j Hi Hj. unfold smat. rewrite diag_vec_is_svec.
  apply mat_svec_inverse; [apply mdiag_sym | assumption | assumption].
Qed.

Global Instance jcirc_proper n : Proper (meq n ==> meq n ==> meq n) (jcirc n).
Proof. intros Y Y' HY Z Z' HZ. unfold jcirc. rewrite HY, HZ. reflexivity. Qed.

Lemma jcirc_diag_l n lam X : meq n (jcirc n (mdiag lam) X) (fun i j => X i j * (lam i + lam j) / 2).
Proof.
  intros i j Hi Hj. unfold jcirc, mscal, madd.
  rewrite (mmul_diag_l n lam X i j Hi Hj), (mmul_diag_r n lam X i j Hi Hj). field.
Qed.

(** the function packed by circ_op is the Jordan product *)
Lemma circ_fun n Y Z i j :
  mul OpsR (half OpsR) (add OpsR (omm OpsR n Y Z i j) (omm OpsR n Z Y i j)) = jcirc n Y Z i j.
Proof. unfold jcirc, mscal, madd. rewrite !omm_R. unfold half. rewrite two_R. reflexivity. Qed.

Lemma circ_op_ext n y z M : meq n (jcirc n (smat y) (smat z)) M ->
  opsd_circ_op OpsR n y z = mat_to_svec OpsR n M.
Proof.
  intros H. unfold opsd_circ_op. cbn zeta. apply mat_to_svec_ext. intros i j Hi Hj.
  rewrite circ_fun. apply H; assumption.
Qed.

Lemma psd_affine_ds_ok : stmt_psd_affine_ds.
Proof.
  intros n lam. unfold opsd_affine_ds. rewrite (diag_vec_is_svec n (fun k => mul OpsR (lam k) (lam k))).
  symmetry. apply circ_op_ext.
  rewrite (psd_diag_vec_mat_ok n lam). rewrite jcirc_diag_l.
  intros i j Hi Hj. unfold mdiag. cbn [mul OpsR].
  destruct (Nat.eqb i j) eqn:E; [apply Nat.eqb_eq in E; subst; field | field].
Qed.

Lemma psd_lam_inv_circ_inverse_ok : stmt_psd_lam_inv_circ_inverse.
Proof.
  intros n lam Hl.
  assert (Hnz : forall i j, (i < n)%nat -> (j < n)%nat -> lam i + lam j <> 0).
  { intros i j Hi Hj. pose proof (Hl i Hi). pose proof (Hl j Hj). lra. }
  assert (B1 : forall Z, meq n (jcirc n (mdiag lam) (linv lam Z)) Z).
  { intros Z. rewrite jcirc_diag_l. intros i j Hi Hj. unfold linv. field. apply Hnz; assumption. }
  split; [exact B1|]. split.
  - intros Z i j Hi Hj. unfold linv. rewrite (jcirc_diag_l n lam Z i j Hi Hj). field. apply Hnz; assumption.
  - intros z Hz. rewrite (circ_op_ext n _ _ (smat z)).
    + apply svec_mat_inverse. exact Hz.
    + rewrite (psd_diag_vec_mat_ok n lam), (psd_lam_inv_circ_mat_ok n lam z). apply B1.
Qed.

Lemma conjR_meq tr n Rx X X' : meq n X X' -> meq n (conjR tr n Rx X) (conjR tr n Rx X').
Proof.
  intros H i j Hi Hj. rewrite !conjR_mmul. destruct tr.
  - assert (E : meq n (mmul n Rx (mmul n X (mT Rx))) (mmul n Rx (mmul n X' (mT Rx)))) by (rewrite H; reflexivity).
    apply E; assumption.
  - assert (E : meq n (mmul n (mmul n (mT Rx) X) Rx) (mmul n (mmul n (mT Rx) X') Rx)) by (rewrite H; reflexivity).
    apply E; assumption.
Qed.
Lemma mul_Wx_10 tr n Rx x y :
  meq n (smat (opsd_mul_Wx OpsR tr n Rx x (one OpsR) (zero OpsR) y)) (conjR tr n Rx (smat x)).
Proof.
  rewrite (psd_mul_Wx_mat_ok tr n Rx x (one OpsR) (zero OpsR) y).
  intros i j _ _. unfold madd, mscal. cbn [one zero OpsR]. ring.
Qed.

Lemma psd_combined_ds_shift_ok : stmt_psd_combined_ds_shift.
Proof.
  intros n Rm Ri dz ds sigmamu i j Hi Hj. unfold opsd_combined_ds_shift. cbn zeta.
  set (wz := opsd_mul_Wx OpsR false n Rm dz (one OpsR) (zero OpsR) dz).
  set (ws := opsd_mul_Wx OpsR true n Ri ds (one OpsR) (zero OpsR) ds).
  unfold smat at 1.
  rewrite (psd_unit_shift_mat_ok n (opsd_circ_op OpsR n ws wz) (neg OpsR sigmamu) i j); try assumption.
  2:{ unfold opsd_circ_op, mat_to_svec. rewrite (blocks_length _ (svec_col_length _)). reflexivity. }
  unfold madd, mscal, mI. cbn [neg OpsR].
  assert (E : meq n (smat (opsd_circ_op OpsR n ws wz))
                    (jcirc n (mmul n Ri (mmul n (smat ds) (mT Ri))) (mmul n (mmul n (mT Rm) (smat dz)) Rm))).
  { rewrite (psd_circ_mat_ok n ws wz). unfold ws, wz. rewrite !mul_Wx_10.
    apply jcirc_proper; intros a b Ha Hb; rewrite conjR_mmul; reflexivity. }
  fold (smat (opsd_circ_op OpsR n ws wz)). rewrite (E i j Hi Hj).
  destruct (Nat.eqb i j); ring.
Qed.

Lemma linv_meq n lam Z Z' : meq n Z Z' -> meq n (linv lam Z) (linv lam Z').
Proof. intros H i j Hi Hj. unfold linv. rewrite H by assumption. reflexivity. Qed.

Lemma psd_ds_offset_ok : stmt_psd_ds_offset.
Proof.
  intros n Rm lam ds out. unfold opsd_ds_offset. rewrite mul_Wx_10.
  rewrite (conjR_meq true n Rm _ _ (psd_lam_inv_circ_mat_ok n lam ds)).
  intros i j Hi Hj. rewrite conjR_mmul. reflexivity.
Qed.
