(** C13, second-order cone: operator-level identities for a normalised w, and the part of
    the update_scaling-level statement that is proved (normalisation, positivity). *)
From Coq Require Import List Reals ZArith Lra Lia Bool Psatz.
Import ListNotations.
Require Import Clarabel.Base.Ops Clarabel.Cones.Vec Clarabel.Cones.SOC Clarabel.Cones.SpecC15
               Clarabel.Cones.SpecC13 Clarabel.Cones.LemmasVec Clarabel.Cones.LemmasStepNN
               Clarabel.Cones.LemmasStepSOC.
Open Scope R_scope.
Local Notation sqrt := R_sqrt.sqrt.

(** a x + b w, the normal form of every vector part *)
Definition lin2 (a : R) (x : list R) (b : R) (w : list R) : list R :=
  map2 (fun xi wi => a * xi + b * wi) x w.

Lemma lin2_ext a a' b b' x w : a = a' -> b = b' -> lin2 a x b w = lin2 a' x b' w.
Proof. intros; subst; reflexivity. Qed.
Lemma lin2_id x : forall w, length x = length w -> lin2 1 x 0 w = x.
Proof.
  induction x as [|xi x IH]; intros [|wi w] H; cbn in H; try discriminate; [reflexivity|].
  unfold lin2, map2 in *. cbn [combine map fst snd]. rewrite IH by lia. f_equal. ring.
Qed.
Lemma lin2_lin2 a a' b b' x : forall w, length x = length w ->
  lin2 a (lin2 a' x b' w) b w = lin2 (a * a') x (a * b' + b) w.
Proof.
  induction x as [|xi x IH]; intros [|wi w] H; cbn in H; try discriminate; [reflexivity|].
  unfold lin2, map2 in *. cbn [combine map fst snd]. rewrite IH by lia. f_equal. ring.
Qed.
Lemma lin2_length a b x w : length x = length w -> length (lin2 a x b w) = length w.
Proof. intros H. unfold lin2, map2. rewrite map_length, combine_length. lia. Qed.
Lemma rdot_lin2_r a b x : forall w u, length x = length w -> length u = length w ->
  rdot u (lin2 a x b w) = a * rdot u x + b * rdot u w.
Proof.
  induction x as [|xi x IH]; intros [|wi w] [|ui u] H Hu; cbn in H, Hu; try discriminate; [cbn; ring|].
  unfold lin2, map2 in *. cbn [combine map fst snd rdot]. rewrite IH by lia. ring.
Qed.
(** the two axpby calls that build a vector part: a x + 1 (b w + 0 y) *)
Lemma axpby_axpby a b x : forall w y, length x = length w -> length y = length w ->
  vaxpby OpsR a x 1 (vaxpby OpsR b w 0 y) = lin2 a x b w.
Proof.
  induction x as [|xi x IH]; intros [|wi w] [|yi y] H Hy; cbn in H, Hy; try discriminate; [reflexivity|].
  unfold vaxpby, lin2, map2 in *. cbn [combine map fst snd]. rewrite IH by lia.
  cbn [add mul OpsR]. f_equal. ring.
Qed.

Lemma soc_mul_W_R w0 w1 eta x0 x1 y0 y1 : length x1 = length w1 -> length y1 = length w1 ->
  soc_mul_W OpsR (w0 :: w1) eta (x0 :: x1) 1 0 (y0 :: y1)
  = (eta * (w0 * x0 + rdot w1 x1)) :: lin2 eta x1 (eta * (x0 + rdot w1 x1 / (1 + w0))) w1.
Proof.
  intros Hx Hy. unfold soc_mul_W. cbn [hd0 tl]. rewrite vdot_R.
  cbn [add mul div one zero OpsR]. rewrite axpby_axpby by assumption.
  f_equal; [ring|]. apply lin2_ext; ring.
Qed.
Lemma soc_mul_Winv_R w0 w1 eta x0 x1 y0 y1 : length x1 = length w1 -> length y1 = length w1 ->
  soc_mul_Winv OpsR (w0 :: w1) eta (x0 :: x1) 1 0 (y0 :: y1)
  = (1 / eta * (w0 * x0 - rdot w1 x1))
      :: lin2 (1 / eta) x1 (1 / eta * (- x0 + rdot w1 x1 / (1 + w0))) w1.
Proof.
  intros Hx Hy. unfold soc_mul_Winv. cbn [hd0 tl]. rewrite vdot_R.
  cbn [add sub mul div neg one zero OpsR]. rewrite axpby_axpby by assumption.
  f_equal. ring.
Qed.

Lemma soc_W_Winv_inverse_ok : stmt_soc_W_Winv_inverse.
Proof.
  intros [|w0 w1] eta [|x0 x1] [|y0 y1] [|y0' y1'] Hn He Hx Hy Hy'; cbn in Hn, Hx, Hy, Hy';
    try contradiction; try discriminate.
  destruct Hn as [Hw0 Hn].
  assert (Hx1 : length x1 = length w1) by lia.
  assert (Hy1 : length y1 = length w1) by lia. assert (Hy1' : length y1' = length w1) by lia.
  set (S := rsumsq w1) in *. assert (HS : S = w0 * w0 - 1) by lra.
  split.
  - rewrite soc_mul_Winv_R by assumption. rewrite soc_mul_W_R by (rewrite ?lin2_length; auto).
    rewrite rdot_lin2_r by (assumption || reflexivity). fold (rsumsq w1). fold S.
    rewrite lin2_lin2 by assumption. set (z := rdot w1 x1). rewrite HS.
    f_equal.
    + field; repeat split; lra.
    + rewrite <- (lin2_id x1 w1 Hx1) at 2. apply lin2_ext; field; repeat split; lra.
  - rewrite soc_mul_W_R by assumption. rewrite soc_mul_Winv_R by (rewrite ?lin2_length; auto).
    rewrite rdot_lin2_r by (assumption || reflexivity). fold (rsumsq w1). fold S.
    rewrite lin2_lin2 by assumption. set (z := rdot w1 x1). rewrite HS.
    f_equal.
    + field; repeat split; lra.
    + rewrite <- (lin2_id x1 w1 Hx1) at 2. apply lin2_ext; field; repeat split; lra.
Qed.

Lemma rdot_lin2_l a b x : forall w u, length x = length w -> length u = length w ->
  rdot (lin2 a x b w) u = a * rdot x u + b * rdot w u.
Proof. intros. rewrite rdot_comm, rdot_lin2_r by assumption. rewrite (rdot_comm u x), (rdot_comm u w). ring. Qed.

Lemma soc_W_symmetric_ok : stmt_soc_W_symmetric.
Proof.
  intros [|w0 w1] eta [|x0 x1] [|y0 y1] [|b0 b1] [|b0' b1'] Hx Hy Hb Hb'; cbn in Hx, Hy, Hb, Hb';
    try discriminate; try reflexivity.
  rewrite !soc_mul_W_R by lia. cbn [rdot].
  rewrite rdot_lin2_l, rdot_lin2_r by lia.
  rewrite (rdot_comm x1 w1). unfold Rdiv. ring.
Qed.

Lemma map2_hs c e : forall (w x : list R), length x = length w ->
  vscale OpsR e (vaxpby OpsR c w 1 x) = rmap2 (fun wi xi => e * (c * wi + xi)) w x.
Proof.
  induction w as [|wi w IH]; intros [|xi x] H; cbn in H; try discriminate; [reflexivity|].
  unfold vscale, vaxpby, rmap2, map2 in *. cbn [combine map fst snd]. rewrite IH by lia.
  cbn [add mul OpsR]. f_equal. ring.
Qed.
Lemma rmap2_ext (f g : R -> R -> R) : (forall a b, f a b = g a b) ->
  forall x y, rmap2 f x y = rmap2 g x y.
Proof. intros H x y. unfold rmap2, map2. apply map_ext. intros p. apply H. Qed.

Lemma soc_Hs_formula_ok : stmt_soc_Hs_formula.
Proof.
  intros [|w0 w1] eta [|x0 x1] Hx; cbn in Hx; try discriminate; try reflexivity.
  unfold soc_mul_Hs. cbn [hd0 tl]. rewrite vdot_R.
  cbn [mul neg one OpsR]. rewrite two_R.
  rewrite map2_hs by (cbn; lia).
  unfold hs_spec. cbn zeta. unfold rmap2, map2. cbn [combine map fst snd].
  f_equal; [ring|]. apply map_ext. intros p. ring.
Qed.

Lemma rmap2_as_lin2 e c : forall (w x : list R), length x = length w ->
  rmap2 (fun wi xi => e * (c * wi + xi)) w x = lin2 e x (e * c) w.
Proof.
  induction w as [|wi w IH]; intros [|xi x] H; cbn in H; try discriminate; [reflexivity|].
  unfold rmap2, lin2, map2 in *. cbn [combine map fst snd]. rewrite IH by lia. f_equal. ring.
Qed.

Lemma soc_Hs_is_WW_ok : stmt_soc_Hs_is_WW.
Proof.
  intros [|w0 w1] eta [|x0 x1] [|y0 y1] [|y0' y1'] Hn Hx Hy Hy'; cbn in Hn, Hx, Hy, Hy';
    try contradiction; try discriminate.
  destruct Hn as [Hw0 Hn].
  assert (Hx1 : length x1 = length w1) by lia.
  assert (Hy1 : length y1 = length w1) by lia. assert (Hy1' : length y1' = length w1) by lia.
  set (S := rsumsq w1) in *. assert (HS : S = w0 * w0 - 1) by lra.
  rewrite soc_Hs_formula_ok by (cbn; lia). unfold hs_spec. cbn zeta.
  rewrite (rmap2_ext (fun wi xi => eta * eta * (2 * wi * rdot (w0 :: w1) (x0 :: x1) + xi))
                     (fun wi xi => (eta * eta) * ((2 * rdot (w0 :: w1) (x0 :: x1)) * wi + xi)))
    by (intros; ring).
  rewrite rmap2_as_lin2 by assumption.
  rewrite soc_mul_W_R by assumption. rewrite soc_mul_W_R by (rewrite ?lin2_length; auto).
  rewrite rdot_lin2_r by (assumption || reflexivity). fold (rsumsq w1). fold S.
  rewrite lin2_lin2 by assumption. cbn [rdot]. set (z := rdot w1 x1). rewrite HS.
  f_equal.
  - field; repeat split; lra.
  - apply lin2_ext; field; repeat split; lra.
Qed.

(** ** update_scaling level: the proved part *)
Lemma sqrt_soc_residual_nonneg x : 0 <= sqrt_soc_residual OpsR x.
Proof.
  unfold sqrt_soc_residual. cbn [ltb zero OpsR Ops.sqrt].
  destruct (Rltb 0 (soc_residual OpsR x)); [apply sqrt_pos | lra].
Qed.
Lemma sqrt_soc_residual_int x : int_soc x -> sqrt_soc_residual OpsR x <> 0.
Proof.
  destruct x as [|x0 x1]; [intros []|]. intros [H0 H1].
  unfold sqrt_soc_residual. rewrite soc_residual_R. cbn [ltb zero OpsR Ops.sqrt].
  rewrite (proj2 (Rltb_true 0 (x0 * x0 - rsumsq x1))) by lra.
  apply Rgt_not_eq. apply sqrt_lt_R0. lra.
Qed.

Lemma soc_nt_identities_partial_ok : stmt_soc_nt_identities_partial.
Proof.
  split.
  - intros s z sc H. unfold soc_update_scaling in H.
    destruct (eqb OpsR (sqrt_soc_residual OpsR z) (zero OpsR) || eqb OpsR (sqrt_soc_residual OpsR s) (zero OpsR)) eqn:E1;
      [discriminate|].
    apply orb_false_iff in E1. destruct E1 as [Ez Es].
    cbn [eqb zero OpsR] in Ez, Es. apply Reqb_false in Ez. apply Reqb_false in Es.
    match type of H with (if ?c then _ else _) = _ => destruct c; [discriminate|] end.
    inversion H; subst; clear H. cbn [sc_w sc_eta].
    pose proof (sqrt_soc_residual_nonneg z). pose proof (sqrt_soc_residual_nonneg s).
    split.
    + cbn [soc_normalised]. rewrite vsumsq_R.
      match goal with |- context [rsumsq ?l] => set (S := rsumsq l); assert (HS : 0 <= S) by apply rsumsq_nonneg end.
      cbn [add one OpsR Ops.sqrt]. split.
      * apply sqrt_lt_R0. lra.
      * rewrite sqrt_sqrt by lra. lra.
    + cbn [div OpsR Ops.sqrt]. apply sqrt_lt_R0. apply Rdiv_lt_0_compat; lra.
  - intros s z Hs Hz. split; apply sqrt_soc_residual_int; assumption.
Qed.

Lemma soc_affine_ds_ok : stmt_soc_affine_ds.
Proof. intros lam. reflexivity. Qed.

Lemma soc_circ_def_ok : stmt_soc_circ_def.
Proof.
  intros y0 y1 z0 z1 Hl. unfold soc_circ_op. cbn [hd0 tl]. rewrite vdot_R. cbn [rdot].
  f_equal.
Qed.

(** ** sparse expansion *)
Lemma rdot_map_l c : forall w x, rdot (map (fun wi => c * wi) w) x = c * rdot w x.
Proof.
  induction w as [|wi w IH]; intros [|xi x]; cbn [map rdot]; try ring. rewrite IH. ring.
Qed.

Lemma sparse_tail (e2 v1 u1 P Q WX : R) : forall w1 x1, length x1 = length w1 ->
  (forall wi xi, - e2 * xi + (- e2 * (v1 * wi) * P - e2 * (u1 * wi) * Q) = - (e2 * (2 * wi * WX + xi))) ->
  map (fun p : R * R => fst p + snd p)
      (combine (map (fun p : R * R => - fst p * snd p) (combine (repeat e2 (length x1)) x1))
               (map (fun p : R * R => - e2 * fst p * P - e2 * snd p * Q)
                    (combine (map (fun wi => v1 * wi) w1) (map (fun wi => u1 * wi) w1))))
  = map Ropp (map (fun p : R * R => e2 * (2 * fst p * WX + snd p)) (combine w1 x1)).
Proof.
  induction w1 as [|wi w1 IH]; intros [|xi x1] Hl H; cbn in Hl; try discriminate; [reflexivity|].
  cbn [length repeat combine map fst snd]. f_equal; [apply H|]. apply IH; [lia | exact H].
Qed.

Lemma soc_sparse_expansion_ok : stmt_soc_sparse_expansion.
Proof.
  intros w0 w1 eta [|x0 x1] p q [Hw0 Hn] He Hx; cbn in Hx; [discriminate|].
  assert (Hx1 : length x1 = length w1) by lia.
  cbn zeta. unfold soc_sparse_data. cbn [sp_u sp_v sp_d].
  cbn [add sub mul div one OpsR Ops.sqrt]. rewrite two_R. unfold half, recip. rewrite two_R.
  cbn [div one OpsR].
  set (S := rsumsq w1) in *. assert (HS : S = w0 * w0 - 1) by lra.
  assert (HSn : 0 <= S) by apply rsumsq_nonneg.
  set (wsq := w0 * w0 + S). assert (Hwsq : 1 <= wsq) by (unfold wsq; nra).
  set (d := 1 / 2 * (1 / wsq)).
  assert (Hd : 0 < d <= 1 / 2).
  { unfold d. split.
    - apply Rmult_lt_0_compat; [lra|]. apply Rdiv_lt_0_compat; lra.
    - assert (1 / wsq <= 1). { apply Rmult_le_reg_r with wsq; [lra|]. unfold Rdiv. rewrite Rmult_assoc, Rinv_l by lra. lra. }
      lra. }
  set (u0 := sqrt (wsq - d)).
  assert (Hu0 : u0 * u0 = wsq - d) by (apply sqrt_sqrt; lra).
  assert (Hu0p : 0 < u0) by (apply sqrt_lt_R0; lra).
  set (u1 := 2 * w0 / u0).
  set (v1arg := 2 * (2 + 1 / wsq) / (2 * wsq - 1 / wsq)).
  assert (Hinv : 0 < 1 / wsq <= 1).
  { split; [apply Rdiv_lt_0_compat; lra|].
    apply Rmult_le_reg_r with wsq; [lra|]. unfold Rdiv. rewrite Rmult_assoc, Rinv_l by lra. lra. }
  assert (Hv1arg : 0 <= v1arg).
  { unfold v1arg. apply Rlt_le, Rdiv_lt_0_compat; lra. }
  set (v1 := sqrt v1arg). assert (Hv1 : v1 * v1 = v1arg) by (apply sqrt_sqrt; exact Hv1arg).
  intros Hp Hq.
  cbn [rdot zero OpsR] in Hp, Hq. rewrite rdot_map_l in Hp, Hq.
  set (z := rdot w1 x1) in *.
  assert (Hpv : p = - (v1 * z)).
  { assert (eta * eta <> 0) by (apply Rmult_integral_contrapositive; split; assumption).
    apply Rmult_eq_reg_l with (eta * eta); [|assumption]. lra. }
  assert (Hqv : q = u0 * x0 + u1 * z).
  { assert (eta * eta <> 0) by (apply Rmult_integral_contrapositive; split; assumption).
    apply Rmult_eq_reg_l with (eta * eta); [|assumption]. lra. }
  (* key scalar identities *)
  assert (K1 : d + u0 * u0 = 2 * w0 * w0 - 1) by (rewrite Hu0; unfold wsq; lra).
  assert (K2 : u0 * u1 = 2 * w0) by (unfold u1; field; lra).
  assert (K3 : u1 * u1 - v1 * v1 = 2).
  { rewrite Hv1. unfold u1, v1arg.
    replace (2 * w0 / u0 * (2 * w0 / u0)) with (4 * (w0 * w0) / (u0 * u0)) by (field; lra).
    rewrite Hu0. unfold d.
    assert (Hw : w0 * w0 = (wsq + 1) / 2) by (unfold wsq; lra). rewrite Hw.
    field. repeat split; try lra; intros E; nra. }
  rewrite soc_Hs_formula_ok by (cbn; lia). unfold hs_spec. cbn zeta. cbn [rdot]. fold z.
  unfold soc_get_Hs_sparse. cbn [length]. cbn [mul OpsR].
  unfold rmap2, map2. cbn [combine map fst snd]. f_equal.
  - subst p q. cbn [zero OpsR].
    replace (- (eta * eta * d) * x0 + (- (eta * eta) * 0 * - (v1 * z) - eta * eta * u0 * (u0 * x0 + u1 * z)))
      with (- (eta * eta) * ((d + u0 * u0) * x0 + (u0 * u1) * z)) by ring.
    rewrite K1, K2. ring.
  - subst p q. apply sparse_tail; [exact Hx1|]. intros wi xi.
    replace (- (eta * eta) * xi + (- (eta * eta) * (v1 * wi) * - (v1 * z) - eta * eta * (u1 * wi) * (u0 * x0 + u1 * z)))
      with (- (eta * eta) * (xi + wi * ((u0 * u1) * x0 + (u1 * u1 - v1 * v1) * z))) by ring.
    rewrite K2, K3. ring.
Qed.
