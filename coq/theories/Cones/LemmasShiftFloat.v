From Coq Require Import List Floats.
Import ListNotations.
Require Import Clarabel.Base.Ops Clarabel.Cones.Vec Clarabel.Cones.NN Clarabel.Cones.SOC Clarabel.Cones.Step
               Clarabel.Cones.SpecShiftFloat.
Lemma shift_float_absorption_witness_ok : stmt_shift_float_absorption_witness.
Proof. vm_compute. reflexivity. Qed.
