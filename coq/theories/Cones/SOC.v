(** Model of /repo/src/solver/core/cones/socone.rs over [Ops T].  A vector of the cone is
    [x0 :: x1] (scalar part, vector part).  Operation order follows the source line by
    line.  "Infinity" (used by the source for discarded negative roots) is modelled by
    skipping the corresponding [min].  Definitions only. *)
From Coq Require Import List ZArith Bool.
Import ListNotations.
Require Import Clarabel.Base.Ops Clarabel.Cones.Vec.

Section SOC.
Context {T : Type} (O : Ops T).
Local Notation "a + b" := (add O a b).
Local Notation "a - b" := (sub O a b).
Local Notation "a * b" := (mul O a b).
Local Notation "a / b" := (div O a b).
Local Notation "- a" := (neg O a).
Local Notation two := (two O).
Local Notation half := (half O).
Local Notation four := (four O).
Local Notation zr := (zero O).
Local Notation on := (one O).

Definition hd0 (x : list T) : T := match x with x0 :: _ => x0 | [] => zr end.

(** _soc_residual: (z0 - ‖z1‖)(z0 + ‖z1‖) *)
Definition soc_residual (z : list T) : T :=
  let n := vnorm O (tl z) in (hd0 z - n) * (hd0 z + n).
Definition sqrt_soc_residual (z : list T) : T :=
  let r := soc_residual z in if ltb O zr r then sqrt O r else zr.

(** ** step length *)
(** the scalar cap at the top of _step_length_soc_component *)
Definition soc_cap (x y : list T) (amax : T) : T :=
  if leb O zr (hd0 x) && ltb O (hd0 y) zr then omin O amax ((- hd0 x) / hd0 y) else amax.
Definition soc_qa (y : list T) : T := soc_residual y.
Definition soc_qb (x y : list T) : T := two * (hd0 x * hd0 y - vdot O (tl x) (tl y)).
Definition soc_qc (x : list T) : T := omax O zr (soc_residual x).
Definition soc_qd (a b c : T) : T := b * b - four * a * c.
Definition soc_t (b d : T) : T := if leb O zr b then (- b) - sqrt O d else (- b) + sqrt O d.
(** min(αmax, min(r1', r2')) with r' = ∞ for r < 0 *)
Definition soc_pick (amax r1 r2 : T) : T :=
  let m := if ltb O r1 zr then amax else omin O amax r1 in
  if ltb O r2 zr then m else omin O m r2.
Definition soc_roots (amax a b c d : T) : T :=
  let t := soc_t b d in soc_pick amax ((two * c) / t) (t / (two * a)).

(** _step_length_soc_component as found in the pinned source (before the repair of F3):
    the branch [a == 0] returns the cap unconditionally. *)
Definition soc_step_old (x y : list T) (amax : T) : T :=
  let amax := soc_cap x y amax in
  let a := soc_qa y in let b := soc_qb x y in let c := soc_qc x in
  let d := soc_qd a b c in
  if (ltb O zr a && ltb O zr b) || ltb O d zr then amax
  else if eqb O a zr then amax
  else if eqb O c zr then (if leb O zr a then amax else zr)
  else soc_roots amax a b c d.

(** _step_length_soc_component, current source (after `fix:`): in the branch [a == 0] the
    single root -c/b bounds the step when b < 0. *)
Definition soc_step (x y : list T) (amax : T) : T :=
  let amax := soc_cap x y amax in
  let a := soc_qa y in let b := soc_qb x y in let c := soc_qc x in
  let d := soc_qd a b c in
  if (ltb O zr a && ltb O zr b) || ltb O d zr then amax
  else if eqb O a zr then (if ltb O b zr then omin O amax ((- c) / b) else amax)
  else if eqb O c zr then (if leb O zr a then amax else zr)
  else soc_roots amax a b c d.

Definition soc_step_length (dz ds z s : list T) (amax : T) : T * T :=
  (soc_step z dz amax, soc_step s ds amax).

(** ** margins, shifts *)
Definition soc_margins (z : list T) : T * T :=
  let a := hd0 z - vnorm O (tl z) in (a, omax O zr a).
Definition soc_scaled_unit_shift (z : list T) (a : T) : list T :=
  match z with z0 :: z1 => (z0 + a) :: z1 | [] => [] end.
Definition soc_unit_initialization (n : nat) : list T * list T :=
  (soc_scaled_unit_shift (repeat zr n) on, soc_scaled_unit_shift (repeat zr n) on).

(** ** scaling *)
Record soc_sparse := mkSparse { sp_u : list T; sp_v : list T; sp_d : T }.
Record soc_scaling := mkScaling { sc_w : list T; sc_lam : list T; sc_eta : T;
                                  sc_sparse : option soc_sparse }.

(** the sparse-expansion threshold SOC_NO_EXPANSION_MAX_SIZE = 4 *)
Definition soc_is_sparse (dim : nat) : bool := Nat.ltb 4 dim.

(** the sparse-expansion terms u, v, d (the block under `if let Some(sparse_data)` of
    update_scaling), as a function of the normalised w and of w1sq = ‖w1‖² *)
Definition soc_sparse_data (w0n : T) (w1n : list T) (w1sq : T) : soc_sparse :=
  let alpha := two * w0n in
  let wsq := w0n * w0n + w1sq in
  let wsqinv := recip O wsq in
  let d := half * wsqinv in
  let u0 := sqrt O (wsq - d) in
  let u1 := alpha / u0 in
  let v1 := sqrt O (two * (two + wsqinv) / (two * wsq - wsqinv)) in
  mkSparse (u0 :: map (fun wi => u1 * wi) w1n) (zr :: map (fun wi => v1 * wi) w1n) d.

Definition soc_update_scaling (s z : list T) : option soc_scaling :=
  let zscale := sqrt_soc_residual z in
  let sscale := sqrt_soc_residual s in
  if eqb O zscale zr || eqb O sscale zr then None else
  let eta := sqrt O (sscale / zscale) in
  (* w = s/sscale ; w0 += z0/zscale ; w1 = -(1/zscale)*z1 + 1*w1 *)
  let ws := vscale O (recip O sscale) s in
  let w0 := hd0 ws + hd0 z / zscale in
  let w1 := vaxpby O (- (recip O zscale)) (tl z) on (tl ws) in
  let wscale := sqrt_soc_residual (w0 :: w1) in
  if eqb O wscale zr then None else
  let wn := vscale O (recip O wscale) (w0 :: w1) in
  let w1n := tl wn in
  let w1sq := vsumsq O w1n in
  let w0n := sqrt O (on + w1sq) in
  let w := w0n :: w1n in
  let gamma := half * wscale in
  let lam1 := vwaxpby O ((gamma + hd0 z / zscale) / sscale) (tl s)
                        ((gamma + hd0 s / sscale) / zscale) (tl z) in
  let lam1 := vscale O (recip O (hd0 s / sscale + hd0 z / zscale + two * gamma)) lam1 in
  let lam := vscale O (sqrt O (sscale * zscale)) (gamma :: lam1) in
  let sparse :=
    if soc_is_sparse (length s) then Some (soc_sparse_data w0n w1n w1sq) else None in
  Some (mkScaling w lam eta sparse).

(** set_identity_scaling: w = e, η = 1, and for the sparse representation d = 1/2,
    u = (1/√2, 0, …), v = 0; λ is left as it is *)
Definition soc_set_identity_scaling (prev : soc_scaling) : soc_scaling :=
  let n := length (sc_w prev) in
  mkScaling (match n with Datatypes.O => [] | S k => on :: repeat zr k end)
            (sc_lam prev) on
            (match sc_sparse prev with
             | Some _ => Some (mkSparse (match n with Datatypes.O => [] | S k => sqrt O (on / two) :: repeat zr k end)
                                        (repeat zr n) (on / two))
             | None => None
             end).

(** _soc_mul_W_inner *)
Definition soc_mul_W (w : list T) (eta : T) (x : list T) (a b : T) (y : list T) : list T :=
  let zeta := vdot O (tl w) (tl x) in
  let c := hd0 x + zeta / (on + hd0 w) in
  let y0 := (a * eta) * (hd0 w * hd0 x + zeta) + b * hd0 y in
  let y1 := vaxpby O (a * eta * c) (tl w) b (tl y) in
  let y1 := vaxpby O (a * eta) (tl x) on y1 in
  y0 :: y1.
(** _soc_mul_Winv_inner *)
Definition soc_mul_Winv (w : list T) (eta : T) (x : list T) (a b : T) (y : list T) : list T :=
  let zeta := vdot O (tl w) (tl x) in
  let c := (- hd0 x) + zeta / (on + hd0 w) in
  let y0 := (a / eta) * (hd0 w * hd0 x - zeta) + b * hd0 y in
  let y1 := vaxpby O (a / eta * c) (tl w) b (tl y) in
  let y1 := vaxpby O (a / eta) (tl x) on y1 in
  y0 :: y1.

(** mul_Hs: y = η²(2 w wᵀx − J x) *)
Definition soc_mul_Hs (w : list T) (eta : T) (x : list T) : list T :=
  let c := vdot O w x * two in
  let y := (- hd0 x) :: tl x in
  let y := vaxpby O c w on y in
  vscale O (eta * eta) y.

(** get_Hs, dense case: packed upper triangle, column by column *)
Definition soc_Hs_col (w : list T) (col : nat) : list T :=
  let wcol := nth col w zr in
  let body := map (fun row => two * nth row w zr * wcol) (seq 0 col) in
  body ++ [two * wcol * wcol + on].
Definition soc_get_Hs_dense (w : list T) (eta : T) : list T :=
  let sq2 := sqrt O two in
  let h0 := (sq2 * hd0 w - on) * (sq2 * hd0 w + on) in
  vscale O (eta * eta) (h0 :: flat_map (soc_Hs_col w) (seq 1 (length w - 1))).
(** get_Hs, sparse case: the diagonal block η²·diag(d,1,…,1) *)
Definition soc_get_Hs_sparse (dim : nat) (eta d : T) : list T :=
  match dim with
  | Datatypes.O => []
  | S k => ((eta * eta) * d) :: repeat (eta * eta) k
  end.

(** Jordan algebra *)
Definition soc_circ_op (y z : list T) : list T :=
  vdot O y z :: vwaxpby O (hd0 y) (tl z) (hd0 z) (tl y).
Definition soc_inv_circ_op (y z : list T) : list T :=
  let p := soc_residual y in
  let pinv := recip O p in
  let v := vdot O (tl y) (tl z) in
  let x0 := (hd0 y * hd0 z - v) * pinv in
  let c1 := pinv * (v / hd0 y - hd0 z) in
  let c2 := recip O (hd0 y) in
  x0 :: vwaxpby O c1 (tl y) c2 (tl z).
Definition soc_affine_ds (lam : list T) : list T := soc_circ_op lam lam.

(** Δs_from_Δz_offset *)
Definition soc_ds_from_dz_offset (w lam : list T) (eta : T) (ds z : list T) : list T :=
  let resz := soc_residual z in
  let l1ds1 := vdot O (tl lam) (tl ds) in
  let w1ds1 := vdot O (tl w) (tl ds) in
  let out := hd0 z :: vneg O (tl z) in
  let c := hd0 lam * hd0 ds - l1ds1 in
  let out := vscale O (c / resz) out in
  let out0 := hd0 out + eta * w1ds1 in
  let out1 := map (fun q => fst q + eta * (fst (snd q) + w1ds1 / (on + hd0 w) * snd (snd q)))
                   (combine (tl out) (combine (tl ds) (tl w))) in
  vscale O (recip O (hd0 lam)) (out0 :: out1).

(** _combined_ds_shift_symmetric specialised to this cone *)
Definition soc_combined_ds_shift (w : list T) (eta : T) (step_z step_s : list T) (sigmamu : T)
  : list T :=
  let wz := soc_mul_W w eta step_z on zr step_z in
  let ws := soc_mul_Winv w eta step_s on zr step_s in
  soc_scaled_unit_shift (soc_circ_op ws wz) (- sigmamu).
End SOC.
