(** Executable correspondence checkers for C13 and C15.
    (i)  model-vs-implementation: the models of NN.v / SOC.v / Step.v run at [OpsF]
         (primitive binary64, same operation order as the source) and are compared with the
         value the Rust code produced: 0 = bit-identical, 2 = within the stated tolerance
         (information only: a re-association of the source would land here), 1 = beyond.
    (ii) property-level: the Rust outputs are re-evaluated in exact dyadic arithmetic
         (every finite f64 is a dyadic) and the property is tested directly on them, with
         sqrt-free / division-free forms.  Tolerances are [2^tolexp] relative to the sum of
         the magnitudes of the terms involved (never relative to a cancelling result). *)
From Coq Require Import List ZArith NArith Floats Bool.
Import ListNotations.
Require Import Clarabel.Base.Ops Clarabel.Base.Dyadic.
Require Import Clarabel.Cones.Vec Clarabel.Cones.NN Clarabel.Cones.SOC Clarabel.Cones.Step Clarabel.Cones.PSDIndex Clarabel.Cones.PSDOps.

Definition ofb (b : bool) : N := if b then 0%N else 1%N.
(** combining codes: any 1 wins (violation candidate), then 2 (information), then 0 *)
Definition cmax (a b : N) : N :=
  if N.eqb a 0 then b else if N.eqb b 0 then a
  else if N.eqb a 2 && N.eqb b 2 then 2%N else 1%N.
Definition maxl (l : list N) : N := fold_left cmax l 0%N.
(** level (A) ties (agreement with the transcribed binary64 model where the implementation goes
    through dot / norm / running sums, whose summation order is not part of any property):
    information only — never a violation candidate *)
Definition info (n : N) : N := if N.eqb n 0 then 0%N else 2%N.
Fixpoint fails (k : N) (l : list N) : list (N * N) :=
  match l with
  | [] => []
  | c :: r => if N.eqb c 0 then fails (N.succ k) r else (k, c) :: fails (N.succ k) r
  end.

(** * (i) float comparisons *)
Open Scope float_scope.
Definition fmaxabs (l : list float) : float :=
  fold_left (fun m v => if PrimFloat.ltb m (PrimFloat.abs v) then PrimFloat.abs v else m) l 0.
Definition fmax2 (a b : float) : float := if PrimFloat.ltb a b then b else a.
Definition cmpf (tol scale a b : float) : N :=
  if PrimFloat.eqb a b then 0%N
  else if PrimFloat.leb (PrimFloat.abs (a - b)) (tol * scale) then 2%N else 1%N.
(** element-wise relative *)
Definition cmpf_rel (tol a b : float) : N := cmpf tol (fmax2 (PrimFloat.abs a) (PrimFloat.abs b)) a b.
(** vectors, norm-wise relative (scale = largest magnitude in either vector) *)
Fixpoint cmpv_sc (tol sc : float) (a b : list float) : N :=
  match a, b with
  | [], [] => 0%N
  | x :: a', y :: b' => cmax (cmpf tol sc x y) (cmpv_sc tol sc a' b')
  | _, _ => 1%N
  end.
Definition cmpv (tol : float) (a b : list float) : N :=
  cmpv_sc tol (fmax2 (fmaxabs a) (fmaxabs b)) a b.
(** vectors, element-wise relative *)
Fixpoint cmpv_el (tol : float) (a b : list float) : N :=
  match a, b with
  | [], [] => 0%N
  | x :: a', y :: b' => cmax (cmpf_rel tol x y) (cmpv_el tol a' b')
  | _, _ => 1%N
  end.
Close Scope float_scope.

Definition F := OpsF.
Definition fbig : float := 0x1.fffffffffffffp+1023%float.

(** ** C15 *)
Definition c_nn_step (tol : float) (x y : list float) (amax r : float) : N :=
  cmpf_rel tol (nn_step F x y amax) r.
Definition c_soc_step (tol : float) (x y : list float) (amax r : float) : N :=
  info (cmpf_rel tol (soc_step F x y amax) r).
(** the pinned (unrepaired) routine, used to replay F3 *)
Definition c_soc_step_old (tol : float) (x y : list float) (amax r : float) : N :=
  info (cmpf_rel tol (soc_step_old F x y amax) r).

(** membership tests used to drive the real [backtrack_search] with closures that Coq can
    evaluate too: 0 = all components > 0; 1 = second-order cone interior;
    2 = open ball of squared radius [p] around 0; 3 = never; 4 = always *)
Definition in_test (kind : N) (p : float) (w : list float) : bool :=
  match kind with
  | 0%N => forallb (fun v => PrimFloat.ltb 0 v) w
  | 1%N => PrimFloat.ltb 0 (hd0 F w) && PrimFloat.ltb (vsumsq F (tl w)) (PrimFloat.mul (hd0 F w) (hd0 F w))
  | 2%N => PrimFloat.ltb (vsumsq F w) p
  | 3%N => false
  | _ => true
  end.
Definition c_backtrack (tol : float) (kind : N) (p : float) (dq q : list float)
           (a0 amin step r : float) : N :=
  match backtrack_search F 5000 (in_test kind p) dq q a0 amin step with
  | Some m => cmpf_rel tol m r
  | None => 1%N
  end.

(** composite of symmetric cones only (the value does not depend on the visiting order):
    blocks are (kind, z, s, dz, ds) *)
Definition sym_view (b : ckind * (list float * list float * list float * list float))
  : cone_view (T:=float) :=
  let '(k, (z, s, dz, ds)) := b in
  (true, fun a => match k with
                  | KZero => (a, a)
                  | KNN => nn_step_length F dz ds z s a
                  | KSOC => soc_step_length F dz ds z s a
                  end).
Definition c_comp_sym (tol : float) (bs : list (ckind * (list float * list float * list float * list float)))
           (msf amax r : float) : N :=
  info (cmpf_rel tol (comp_step F (map sym_view bs) msf amax) r).

(** margins / shifts *)
Definition fblock := (ckind * list float)%type.
Fixpoint cmp_blocks (tol : float) (a b : list fblock) : N :=
  match a, b with
  | [], [] => 0%N
  | (_, x) :: a', (_, y) :: b' => cmax (cmpv_el tol x y) (cmp_blocks tol a' b')
  | _, _ => 1%N
  end.
Definition c_margins (tol : float) (bs : list fblock) (ra rb : float) : N :=
  info (let m := comp_margins F fbig bs in cmax (cmpf_rel tol (fst m) ra) (cmpf_rel tol (snd m) rb)).
(** [_shift_to_cone_interior]: the property's observable is "the result is strictly inside
    (margin >= 1)", checked exactly by [p_shift]; a different but valid shift amount is
    reported as information only *)
Definition soft (n : N) : N := if N.eqb n 0 then 0%N else 2%N.
Definition c_shift (tol : float) (primal : bool) (bs out : list fblock) : N :=
  soft (cmp_blocks tol (shift_to_cone_interior F fbig primal bs) out).
Definition c_unit_shift (tol : float) (primal : bool) (a : float) (bs out : list fblock) : N :=
  cmp_blocks tol (comp_shift F primal a bs) out.

(** ** C13: nonnegative cone *)
Record nn_obs := mkNNObs {
  no_w : list float; no_lam : list float;
  no_Wx : list float; no_Winvx : list float;   (* mul_W / mul_Winv of (x, α, β, y) *)
  no_Hs : list float; no_Hsx : list float;
  no_aff : list float; no_off : list float; no_shift : list float;
  no_circ : list float; no_icirc : list float }.
Definition c_nn_scaling (tol : float) (s z x y : list float) (a b sigmamu : float) (o : nn_obs) : N :=
  let '(w, lam) := nn_update_scaling F s z in
  maxl [ cmpv_el tol w (no_w o); cmpv_el tol lam (no_lam o);
         cmpv_el tol (nn_mul_W F w x a b y) (no_Wx o);
         cmpv_el tol (nn_mul_Winv F w x a b y) (no_Winvx o);
         cmpv_el tol (nn_get_Hs F w) (no_Hs o);
         cmpv_el tol (nn_mul_Hs F w x) (no_Hsx o);
         cmpv_el tol (nn_affine_ds F lam) (no_aff o);
         cmpv_el tol (nn_ds_from_dz_offset F x z) (no_off o);
         cmpv tol (nn_combined_ds_shift F w x y sigmamu) (no_shift o);
         cmpv_el tol (nn_circ_op F x y) (no_circ o);
         cmpv_el tol (nn_inv_circ_op F z y) (no_icirc o) ].

(** ** C13: second-order cone *)
Record soc_obs := mkSOCObs {
  so_ok : bool;
  so_w : list float; so_lam : list float; so_eta : float;
  so_u : list float; so_v : list float; so_d : float;   (* empty / 0 when dense *)
  so_Wx : list float; so_Winvx : list float;
  so_Hs : list float; so_Hsx : list float;
  so_aff : list float; so_off : list float; so_shift : list float;
  so_circ : list float; so_icirc : list float }.
Definition c_soc_scaling (tol : float) (s z x y : list float) (a b sigmamu : float) (o : soc_obs) : N :=
  info (match soc_update_scaling F s z with
  | None => ofb (negb (so_ok o))
  | Some sc =>
      if negb (so_ok o) then 1%N else
      let w := sc_w sc in let lam := sc_lam sc in let eta := sc_eta sc in
      maxl [ cmpv tol w (so_w o); cmpv tol lam (so_lam o); cmpf_rel tol eta (so_eta o);
             match sc_sparse sc with
             | Some sp => maxl [ cmpv tol (sp_u sp) (so_u o); cmpv tol (sp_v sp) (so_v o);
                                 cmpf_rel tol (sp_d sp) (so_d o);
                                 cmpv tol (soc_get_Hs_sparse F (length s) eta (sp_d sp)) (so_Hs o) ]
             | None => cmax (ofb (Nat.eqb (length (so_u o)) 0))
                             (cmpv tol (soc_get_Hs_dense F w eta) (so_Hs o))
             end;
             cmpv tol (soc_mul_W F w eta x a b y) (so_Wx o);
             cmpv tol (soc_mul_Winv F w eta x a b y) (so_Winvx o);
             cmpv tol (soc_mul_Hs F w eta x) (so_Hsx o);
             cmpv tol (soc_affine_ds F lam) (so_aff o);
             cmpv tol (soc_ds_from_dz_offset F w lam eta x z) (so_off o);
             cmpv tol (soc_combined_ds_shift F w eta x y sigmamu) (so_shift o);
             cmpv tol (soc_circ_op F x y) (so_circ o);
             cmpv tol (soc_inv_circ_op F z y) (so_icirc o) ]
  end).

(** * (ii) exact dyadic re-evaluation *)
Definition dpow2 (k : Z) : dy := D 1 k.
Definition dmap2 (f : dy -> dy -> dy) (x y : list dy) : list dy :=
  map (fun p => f (fst p) (snd p)) (combine x y).
Definition dstep (x : list dy) (t : dy) (y : list dy) : list dy :=
  dmap2 (fun a b => dadd a (dmul t b)) x y.
Definition dabsstep (x : list dy) (t : dy) (y : list dy) : list dy :=
  dmap2 (fun a b => dadd (dabs a) (dmul (dabs t) (dabs b))) x y.
Definition dhd (x : list dy) : dy := match x with a :: _ => a | [] => d0 end.
(** r' = r (1 + 2^-20) *)
Definition dbeyond (r : dy) : dy := dadd r (dshift r (-20)).
(** |a - b| <= tol * sc *)
Definition dclose (tol sc a b : dy) : bool := dleb (dabs (dsub a b)) (dmul tol sc).
Definition dallclose (tol sc : dy) (a b : list dy) : bool :=
  Nat.eqb (length a) (length b) && forallb (fun p => dclose tol sc (fst p) (snd p)) (combine a b).

(** ** C15 property checks on the Rust result [r] *)
(** NN: 0 <= r <= αmax; x + r y >= -tol·(|x|+r|y|) component-wise; r = αmax or some
    component is <= +tol·(…) at r(1+2^-20) *)
Definition p_nn_step (tolexp : Z) (x y : list dy) (amax r : dy) : N :=
  let tol := dpow2 tolexp in
  let safe := forallb (fun p => dleb (dneg (dmul tol (snd p))) (fst p))
                      (combine (dstep x r y) (dabsstep x r y)) in
  let r' := dbeyond r in
  let tight := deqb r amax ||
               existsb (fun p => dleb (fst p) (dmul tol (snd p)))
                       (combine (dstep x r' y) (dabsstep x r' y)) in
  ofb (dleb d0 r && dleb r amax && safe && tight).

(** SOC: with p(t) = x0 + t y0, res(t) = p(t)² − ‖x1 + t y1‖², S(t) = Σ(|xi| + t|yi|)²:
    safe: p(r) >= -tol·(|x0|+r|y0|) and res(r) >= -tol·S(r);
    tight: r = αmax, or p(r') <= tol·(…) or res(r') <= tol·S(r') at r' = r(1+2^-20) *)
Definition soc_p_res (x y : list dy) (t : dy) : dy * dy * dy * dy :=
  let v := dstep x t y in let a := dabsstep x t y in
  (dhd v, dsub (dmul (dhd v) (dhd v)) (dsumsq (tl v)), dhd a, dsumsq a).
Definition p_soc_step (tolexp : Z) (x y : list dy) (amax r : dy) : N :=
  let tol := dpow2 tolexp in
  let '(p, res, pa, Sm) := soc_p_res x y r in
  let safe := dleb (dneg (dmul tol pa)) p && dleb (dneg (dmul tol Sm)) res in
  let '(p', res', pa', Sm') := soc_p_res x y (dbeyond r) in
  let tight := deqb r amax || dleb p' (dmul tol pa') || dleb res' (dmul tol Sm') in
  ofb (dleb d0 r && dleb r amax && safe && tight).

(** nonsymmetric cones (backtracking): the feasibility tests are the implementation's own
    (evaluated through a hook at the points named here) *)
Definition p_nonsym_step (amax r : dy) (feasible_at_r infeasible_beyond : bool) : N :=
  ofb (dleb d0 r && dleb r amax && (deqb r d0 || feasible_at_r) && (deqb r amax || infeasible_beyond)).

(** composite: r <= αmax; r <= msf when a nonsymmetric cone is present; r <= the own step of
    every symmetric cone; every nonsymmetric cone is feasible at r (or r = 0); tight: r is
    αmax, or msf, or the own step of some symmetric cone (within tol), or some nonsymmetric
    cone is infeasible one backtracking factor beyond r *)
Definition p_comp_step (tolexp : Z) (amax msf r : dy) (has_nonsym : bool) (sym_steps : list dy)
           (nonsym_feasible_at_r nonsym_infeasible_beyond : list bool) : N :=
  let tol := dpow2 tolexp in
  let le := dleb d0 r && dleb r amax && (negb has_nonsym || dleb r msf) in
  let safe := forallb (fun a => dleb r (dadd a (dmul tol a))) sym_steps &&
              (deqb r d0 || forallb (fun b => b) nonsym_feasible_at_r) in
  let tight := deqb r amax || (has_nonsym && deqb r msf) ||
               existsb (fun a => dclose tol a a r) sym_steps ||
               existsb (fun b => b) nonsym_infeasible_beyond in
  ofb (le && safe && tight).

(** margins after a shift: every NN component >= m, every SOC block z0 - m >= 0 and
    (z0 - m)² >= ‖z1‖² *)
Definition p_margin_block (m : dy) (b : ckind * list dy) : bool :=
  match fst b with
  | KZero => true
  | KNN => forallb (fun v => dleb m v) (snd b)
  | KSOC => let t := dsub (dhd (snd b)) m in dleb d0 t && dleb (dsumsq (tl (snd b))) (dmul t t)
  end.
(** strictly inside, exactly: every NN component > 0; SOC z0 > 0 and z0² > ‖z1‖² *)
Definition p_strict_block (b : ckind * list dy) : bool :=
  match fst b with
  | KZero => true
  | KNN => forallb (fun v => dltb d0 v) (snd b)
  | KSOC => dltb d0 (dhd (snd b)) && dltb (dsumsq (tl (snd b))) (dmul (dhd (snd b)) (dhd (snd b)))
  end.
Definition p_shift_strict (out : list (ckind * list dy)) : N := ofb (forallb p_strict_block out).
Definition p_shift (m : dy) (out : list (ckind * list dy)) : N := ofb (forallb (p_margin_block m) out).

(** ** C13 property checks *)
(** NN: λ² = s z, w² z = s, (W z) = λ = W⁻¹ s component-wise, relative *)
Definition p_nn_nt (tolexp : Z) (s z w lam : list dy) : N :=
  let tol := dpow2 tolexp in
  let n := length s in
  let ok4 := forallb (fun q : (dy * dy) * (dy * dy) =>
     let '((si, zi), (wi, li)) := q in
     dclose tol (dmul si zi) (dmul li li) (dmul si zi) &&           (* λ² = s z *)
     dclose tol (dabs si) (dmul (dmul wi wi) zi) si &&              (* WᵀW z = s *)
     dclose tol (dabs li) (dmul wi zi) li &&                        (* W z = λ *)
     dclose tol (dabs si) (dmul wi li) si)                          (* W λ = s, i.e. λ = W⁻¹ s *)
     (combine (combine s z) (combine w lam)) in
  ofb (Nat.eqb (length z) n && Nat.eqb (length w) n && Nat.eqb (length lam) n && ok4).

(** SOC, from the stored (w, η, λ) only, sqrt- and division-free:
      w0 > 0, w0² − ‖w1‖² = 1,  η > 0;
      η²(2 w (w·z) − J z) = s                                   (WᵀW z = s)
      (1+w0)·λ = η·((1+w0) z + [ (1+w0)(w0 z0 + ζ) − (1+w0) z0 ; ((1+w0) z0 + ζ) w1 ]) … see below
    Writing k = 1+w0, ζz = w1·z1, ζs = w1·s1:
      k λ0 = k η (w0 z0 + ζz),        k λ1 = η (k z1 + (k z0 + ζz) w1)          (W z = λ)
      k η λ0 = k (w0 s0 − ζs),        k η λ1 = k s1 + (−k s0 + ζs) w1           (W⁻¹ s = λ)  *)
Definition dscale (c : dy) (x : list dy) : list dy := map (dmul c) x.
Definition dvadd (x y : list dy) : list dy := dmap2 dadd x y.
Definition dvabs (x : list dy) : list dy := map dabs x.
Definition p_soc_nt (tolexp : Z) (s z w lam : list dy) (eta : dy) : N :=
  let tol := dpow2 tolexp in
  let w0 := dhd w in let w1 := tl w in
  let k := dadd d1 w0 in
  let e2 := dmul eta eta in
  let normal := dltb d0 w0 && dltb d0 eta &&
                dclose tol (dmul w0 w0) (dsub (dmul w0 w0) (dsumsq w1)) d1 in
  (* WᵀW z = s *)
  let wz := ddot w z in
  let Jz := dhd z :: map dneg (tl z) in
  let Hz := dscale e2 (dvadd (dscale (dmul (dofZ 2) wz) w) (map dneg Jz)) in
  let Hsc := dmul e2 (dadd (dmul (dmul (dofZ 2) (ddot (dvabs w) (dvabs z))) (dnorminf w)) (dnorminf z)) in
  let hs := dallclose tol (dadd Hsc (dnorminf s)) Hz s in
  (* W z = λ, scaled by k *)
  let zz := ddot w1 (tl z) in
  let Wz0 := dmul (dmul k eta) (dadd (dmul w0 (dhd z)) zz) in
  let Wz1 := dscale eta (dvadd (dscale k (tl z)) (dscale (dadd (dmul k (dhd z)) zz) w1)) in
  let Wsc := dmul (dmul k eta) (dmul (dadd d1 (dmul (dofZ 2) (dnorminf w))) (ddot (dvabs w) (dvabs z))) in
  let wzl := dallclose tol (dadd Wsc (dmul k (dnorminf lam))) (Wz0 :: Wz1) (dscale k lam) in
  (* W⁻¹ s = λ, scaled by k η *)
  let zs := ddot w1 (tl s) in
  let Ws0 := dmul k (dsub (dmul w0 (dhd s)) zs) in
  let Ws1 := dvadd (dscale k (tl s)) (dscale (dsub zs (dmul k (dhd s))) w1) in
  let Ssc := dmul k (dmul (dadd d1 (dmul (dofZ 2) (dnorminf w))) (ddot (dvabs w) (dvabs s))) in
  let wsl := dallclose tol (dadd Ssc (dmul (dmul k eta) (dnorminf lam))) (Ws0 :: Ws1) (dscale (dmul k eta) lam) in
  ofb (normal && hs && wzl && wsl).

(** the block written into the KKT matrix is the operator applied by mul_Hs.
    dense: packed upper triangle [H], entry (i,j), i<=j, at index j(j+1)/2 + i *)
Definition tri_get (H : list dy) (i j : nat) : dy :=
  let (a, b) := if Nat.leb i j then (i, j) else (j, i) in nth (b * (b + 1) / 2 + a) H d0.
Definition tri_apply (H : list dy) (x : list dy) : list dy :=
  map (fun i => dsum (map (fun j => dmul (tri_get H i j) (nth j x d0)) (seq 0 (length x))))
      (seq 0 (length x)).
Definition tri_apply_abs (H : list dy) (x : list dy) : dy :=
  dnorminf (tri_apply (dvabs H) (dvabs x)).
Definition p_hs_dense (tolexp : Z) (H x Hx : list dy) : N :=
  let n := length x in
  ofb (Nat.eqb (length H) (n * (n + 1) / 2) &&
       dallclose (dpow2 tolexp) (dadd (tri_apply_abs H x) (dnorminf Hx)) (tri_apply H x) Hx).
(** diagonal (NN) *)
Definition p_hs_diag (tolexp : Z) (H x Hx : list dy) : N :=
  ofb (Nat.eqb (length H) (length x) &&
       forallb (fun q : (dy * dy) * dy => let '((h, xi), yi) := q in
                  dclose (dpow2 tolexp) (dabs yi) (dmul h xi) yi)
               (combine (combine H x) Hx)).
(** sparse expansion: the KKT block is
        [ -Hd   -η²v   -η²u ]
        [ -η²vᵀ  -η²    0   ]
        [ -η²uᵀ   0    +η²  ]
    eliminating the two auxiliary variables (p = -(v·x), q = u·x) gives
        Hd∘x + η²((u·x) u − (v·x) v),   which must be mul_Hs x *)
Definition p_hs_sparse (tolexp : Z) (Hd u v : list dy) (eta : dy) (x Hx : list dy) : N :=
  let e2 := dmul eta eta in
  let ux := ddot u x in let vx := ddot v x in
  let y := dvadd (dmap2 dmul Hd x) (dscale e2 (dvadd (dscale ux u) (map dneg (dscale vx v)))) in
  let sc := dadd (dnorminf (dmap2 dmul Hd x))
                 (dmul e2 (dadd (dmul (ddot (dvabs u) (dvabs x)) (dnorminf u))
                                (dmul (ddot (dvabs v) (dvabs x)) (dnorminf v)))) in
  ofb (Nat.eqb (length Hd) (length x) && Nat.eqb (length u) (length x) && Nat.eqb (length v) (length x) &&
       dallclose (dpow2 tolexp) sc y Hx).

(** W and W⁻¹ are mutually inverse and transpose-consistent, on the Rust outputs:
    W(W⁻¹x) = x = W⁻¹(W x),  ⟨W x, y⟩ = ⟨x, Wᵀ y⟩ *)
Definition p_inverse (tolexp : Z) (sc : dy) (x WWinvx WinvWx : list dy) : N :=
  ofb (dallclose (dpow2 tolexp) sc WWinvx x && dallclose (dpow2 tolexp) sc WinvWx x).
Definition p_transpose (tolexp : Z) (Wx y x WTy : list dy) : N :=
  let sc := dadd (ddot (dvabs Wx) (dvabs y)) (ddot (dvabs x) (dvabs WTy)) in
  ofb (dclose (dpow2 tolexp) sc (ddot Wx y) (ddot x WTy)).

(** ** PSD cone: per-call exact validation (the scaling rests on LAPACK chol / svd / eig) *)
Definition dmat := list (list dy).   (* list of rows *)
Definition dget (M : dmat) (r c : nat) : dy := nth c (nth r M []) d0.
Definition dmk (n : nat) (f : nat -> nat -> dy) : dmat :=
  map (fun r => map (fun c => f r c) (seq 0 n)) (seq 0 n).
(** column-major storage of an n x n matrix *)
Definition dcolmajor (n : nat) (data : list dy) : dmat := dmk n (fun r c => nth (r + n * c) data d0).
Definition dtrans (n : nat) (M : dmat) : dmat := dmk n (fun r c => dget M c r).
Definition dmm (n : nat) (A B : dmat) : dmat :=
  dmk n (fun r c => dsum (map (fun k => dmul (dget A r k) (dget B k c)) (seq 0 n))).
Definition dmabs (M : dmat) : dmat := map (map dabs) M.
Definition dmmax (M : dmat) : dy := fold_left (fun m row => dmax m (dnorminf row)) M d0.
Definition ddiag (n : nat) (l : list dy) : dmat := dmk n (fun r c => if Nat.eqb r c then nth r l d0 else d0).
Definition dmclose (tol sc : dy) (A B : dmat) : bool :=
  Nat.eqb (length A) (length B) &&
  forallb (fun p => dallclose tol sc (fst p) (snd p)) (combine A B).
(** RᵀZR = Λ = R⁻¹SR⁻ᵀ,  R R⁻¹ = I = R⁻¹ R, λ > 0; tolerance relative to |R|ᵀ|Z||R| etc. *)
Definition p_psd_nt (tolexp : Z) (n : nat) (Rcm Rinvcm lam : list dy) (S Zm : dmat) : N :=
  let tol := dpow2 tolexp in
  let R := dcolmajor n Rcm in let Ri := dcolmajor n Rinvcm in
  let L := ddiag n lam in
  let t1 := dmm n (dmm n (dtrans n R) Zm) R in
  let s1 := dmmax (dmm n (dmm n (dtrans n (dmabs R)) (dmabs Zm)) (dmabs R)) in
  let t2 := dmm n (dmm n Ri S) (dtrans n Ri) in
  let s2 := dmmax (dmm n (dmm n (dmabs Ri) (dmabs S)) (dtrans n (dmabs Ri))) in
  let I := ddiag n (repeat d1 n) in
  let s3 := dmmax (dmm n (dmabs R) (dmabs Ri)) in
  ofb (Nat.eqb (length lam) n && forallb (fun l => dltb d0 l) lam &&
       dmclose tol (dadd s1 (dnorminf lam)) t1 L &&
       dmclose tol (dadd s2 (dnorminf lam)) t2 L &&
       dmclose tol (dadd s3 d1) (dmm n R Ri) I && dmclose tol (dadd s3 d1) (dmm n Ri R) I).
(** two Rust vectors agree with an expected vector *)
Definition p_close2 (tolexp : Z) (sc : dy) (expected a b : list dy) : N :=
  ofb (dallclose (dpow2 tolexp) sc a expected && dallclose (dpow2 tolexp) sc b expected).

(** exact positive-definiteness of a symmetric dyadic matrix, division free:
    [[a bᵀ][b C]] ≻ 0  iff  a > 0 and a·C − b bᵀ ≻ 0 *)
Fixpoint dpd (fuel : nat) (M : dmat) : bool :=
  match fuel with
  | O => false
  | S f =>
      match M with
      | [] => true
      | [] :: _ => false
      | (a :: b) :: rest =>
          dltb d0 a &&
          dpd f (map (fun row => match row with
                                 | bi :: ci => dmap2 (fun cij bj => dsub (dmul a cij) (dmul bi bj)) ci b
                                 | [] => []
                                 end) rest)
      end
  end.
Definition dmaxpy (n : nat) (X : dmat) (t : dy) (Y : dmat) (shift : dy) : dmat :=
  dmk n (fun r c => dadd (dadd (dget X r c) (dmul t (dget Y r c))) (if Nat.eqb r c then shift else d0)).
(** PSD step length: 0 <= r <= αmax; X + r·dX + τI ≻ 0; r = αmax or X + r(1+2^-10)·dX + τI is
    not positive definite, with τ = 2^tolexp · n · (max|X| + r·max|dX|) *)
Definition p_psd_step (tolexp : Z) (n : nat) (X dX : dmat) (amax r : dy) : N :=
  let tau t := dmul (dmul (dpow2 tolexp) (dofZ (Z.of_nat n))) (dadd (dmmax X) (dmul t (dmmax dX))) in
  let r' := dadd r (dshift r (-10)) in
  let safe := dpd (S n) (dmaxpy n X r dX (tau r)) in
  let tight := deqb r amax || negb (dpd (S n) (dmaxpy n X r' dX (tau r'))) in
  ofb (dleb d0 r && dleb r amax && safe && tight).

(** ** operation sequences on one cone object *)
(** state after update_scaling; set_identity_scaling: model (w = e, η = 1, u, v, d) bit for bit *)
Definition c_soc_identity (n : nat) (sparse : bool) (w : list float) (eta : float)
           (u v : list float) (d : float) : N :=
  let prev := mkScaling (repeat 0%float n) [] 0%float
                        (if sparse then Some (mkSparse (repeat 0%float n) (repeat 0%float n) 0%float) else None) in
  let sc := soc_set_identity_scaling F prev in
  maxl [ cmpv_el 0%float (sc_w sc) w; cmpf_rel 0%float (sc_eta sc) eta;
         match sc_sparse sc with
         | Some sp => maxl [cmpv_el 0%float (sp_u sp) u; cmpv_el 0%float (sp_v sp) v; cmpf_rel 0%float (sp_d sp) d]
         | None => ofb (Nat.eqb (length u) 0 && Nat.eqb (length v) 0)
         end ].
Definition c_nn_identity (w : list float) : N := cmpv_el 0%float (nn_set_identity_scaling F w) w.
(** after an identity reset mul_W, mul_Winv and mul_Hs are the identity (exact dyadic, 2^tolexp
    relative to max|x|) *)
Definition p_identity_ops (tolexp : Z) (x Wx Winvx Hsx : list dy) : N :=
  let sc := dnorminf x in let tol := dpow2 tolexp in
  ofb (dallclose tol sc Wx x && dallclose tol sc Winvx x && dallclose tol sc Hsx x).
(** two states (stored scaling and operator outputs) are bit-identical *)
Definition c_bitsame (a b : list float) : N :=
  ofb (Nat.eqb (length a) (length b) &&
       forallb (fun p => PrimFloat.eqb (fst p) (snd p)) (combine a b)).

(** the gemv-like contract of mul_W / mul_Winv:  y_out = α·(W x) + β·y_in, exactly in dyadics, with
    W x taken from the implementation's own call with α = 1, β = 0; tolerance relative to
    |α||W x| + |β||y_in| *)
Definition p_affine (tolexp : Z) (a b : dy) (Wx yin yout : list dy) : N :=
  let sc := dadd (dmul (dabs a) (dnorminf Wx)) (dmul (dabs b) (dnorminf yin)) in
  let expect := dmap2 (fun p q => dadd (dmul a p) (dmul b q)) Wx yin in
  ofb (Nat.eqb (length Wx) (length yin) && dallclose (dpow2 tolexp) sc yout expect).

(** ** PSD cone: validation of the HYPOTHESES of the PSD theorems (SpecPSDScal.v) *)
(** [psd_factors]: S = L1 L1ᵀ, Z = L2 L2ᵀ, L2ᵀ L1 = U diag(σ) Vᵀ, UᵀU = I, VᵀV = I = VVᵀ, σ > 0;
    L1 lower triangular with positive diagonal (nonsingular); the assembly R = (L1 V) Λ̂, 
    R⁻¹ = Λ̂ (Uᵀ L2ᵀ) with the stored Λ̂ = Λ^(-1/2), and Λ̂² σ = 1.  All residuals in exact dyadic
    arithmetic, tolerance 2^tolexp relative to the entrywise |·| products. *)
Definition dlowerpos (n : nat) (L : dmat) : bool :=
  forallb (fun r => forallb (fun c => if Nat.ltb r c then deqb (dget L r c) d0
                                      else if Nat.eqb r c then dltb d0 (dget L r c) else true)
                            (seq 0 n)) (seq 0 n).
Definition dresid (tol : dy) (n : nat) (A B : dmat) (absA absB : dmat) : bool :=
  dmclose tol (dadd (dmmax absA) (dmmax absB)) A B.
Definition p_psd_factors (tolexp : Z) (n : nat) (S Zm : dmat)
           (L1cm L2cm Ucm sv Vtcm isqv Rcm Ricm : list dy) : N :=
  let tol := dpow2 tolexp in
  let L1 := dcolmajor n L1cm in let L2 := dcolmajor n L2cm in
  let U := dcolmajor n Ucm in let Vt := dcolmajor n Vtcm in let V := dtrans n Vt in
  let R := dcolmajor n Rcm in let Ri := dcolmajor n Ricm in
  let Lam := ddiag n sv in let Dh := ddiag n isqv in
  let I := ddiag n (repeat d1 n) in
  let ab := dmabs in
  let mm := dmm n in let T := dtrans n in
  let c1 := dresid tol n (mm L1 (T L1)) S (mm (ab L1) (T (ab L1))) (ab S) in
  let c2 := dresid tol n (mm L2 (T L2)) Zm (mm (ab L2) (T (ab L2))) (ab Zm) in
  let c3 := dresid tol n (mm (T L2) L1) (mm U (mm Lam Vt))
                   (mm (T (ab L2)) (ab L1)) (mm (ab U) (mm Lam (ab Vt))) in
  let c4 := dresid tol n (mm (T U) U) I (mm (T (ab U)) (ab U)) I &&
            dresid tol n (mm Vt V) I (mm (ab Vt) (ab V)) I &&
            dresid tol n (mm V Vt) I (mm (ab V) (ab Vt)) I in
  let c5 := Nat.eqb (length sv) n && forallb (fun l => dltb d0 l) sv in
  let c6 := dlowerpos n L1 && dlowerpos n L2 in
  let c7 := dresid tol n R (mm (mm L1 V) Dh) (ab R) (mm (mm (ab L1) (ab V)) Dh) &&
            dresid tol n Ri (mm Dh (mm (T U) (T L2))) (ab Ri) (mm Dh (mm (T (ab U)) (T (ab L2)))) in
  let c8 := Nat.eqb (length isqv) n &&
            forallb (fun p => dclose tol d1 (dmul (dmul (fst p) (fst p)) (snd p)) d1) (combine isqv sv) in
  ofb (c1 && c2 && c3 && c4 && c5 && c6 && c7 && c8).

(** hypothesis of the step theorems: γ = −1/α is a lower bound of the spectrum of the scaled
    direction M̂ = Λ̂ (Bᵀ ΔX B) Λ̂ (z-side, B = R) or Λ̂ (B ΔX Bᵀ) Λ̂ (s-side, B = R⁻¹), i.e.
    I + α·M̂ is positive semidefinite: exact division-free test of I + α M̂ + τ I ≻ 0 *)
Definition p_psd_step_hyp (tolexp : Z) (n : nat) (sside : bool) (Bcm isqv : list dy) (dX : dmat) (alpha : dy) : N :=
  let B := dcolmajor n Bcm in let Dh := ddiag n isqv in
  let mm := dmm n in let T := dtrans n in
  let inner := if sside then mm B (mm dX (T B)) else mm (T B) (mm dX B) in
  let M := mm Dh (mm inner Dh) in
  let innerabs := if sside then mm (dmabs B) (mm (dmabs dX) (T (dmabs B))) else mm (T (dmabs B)) (mm (dmabs dX) (dmabs B)) in
  let Mabs := dmmax (mm Dh (mm innerabs Dh)) in
  let tau := dmul (dmul (dpow2 tolexp) (dofZ (Z.of_nat n))) (dadd d1 (dmul alpha Mabs)) in
  ofb (dleb d0 alpha && dpd (S n) (dmaxpy n (ddiag n (repeat d1 n)) alpha M tau)).

(** ** PSD margins and shifts *)
Definition dshiftI (n : nat) (M : dmat) (a : dy) : dmat :=
  dmk n (fun r c => dadd (dget M r c) (if Nat.eqb r c then a else d0)).
(** margins(): α is the minimum eigenvalue of M up to slack: M − (α − slack)I ≻ 0 and
    M − (α + slack)I is not; slack = 2^tolexp · n · max|M| *)
Definition p_psd_margin (tolexp : Z) (n : nat) (M : dmat) (alpha : dy) : N :=
  let slack := dmul (dmul (dpow2 tolexp) (dofZ (Z.of_nat n))) (dmax (dmmax (dmabs M)) (D 1 (-1000))) in
  ofb (dpd (S n) (dshiftI n M (dneg (dsub alpha slack))) &&
       negb (dpd (S n) (dshiftI n M (dneg (dadd alpha slack))))).
(** a shifted matrix is positive definite with margin m:  M − m I ≻ 0 *)
Definition p_psd_strict (n : nat) (M : dmat) (m : dy) : N := ofb (dpd (S n) (dshiftI n M (dneg m))).
(** scaled_unit_shift on the packed vector: model (PSDIndex.v) at binary64, bit for bit *)
Definition c_psd_unit_shift (n : nat) (z : list float) (a : float) (out : list float) : N :=
  c_bitsame (PSDIndex.psd_scaled_unit_shift F n z a) out.

(** ** histories on one cone object: after every step the complete stored state must be the model
    evaluated from that step's (s, z) alone (history independence) *)
Definition c_soc_state (tol : float) (s z w lam : list float) (eta : float) (u v : list float) (d : float)
           (hs : list float) : N :=
  info (match soc_update_scaling F s z with
  | None => 1%N
  | Some sc =>
      maxl [ cmpv tol (sc_w sc) w; cmpv tol (sc_lam sc) lam; cmpf_rel tol (sc_eta sc) eta;
             match sc_sparse sc with
             | Some sp => maxl [ cmpv tol (sp_u sp) u; cmpv tol (sp_v sp) v; cmpf_rel tol (sp_d sp) d;
                                 cmpv tol (soc_get_Hs_sparse F (length s) (sc_eta sc) (sp_d sp)) hs ]
             | None => cmax (ofb (Nat.eqb (length u) 0))
                            (cmpv tol (soc_get_Hs_dense F (sc_w sc) (sc_eta sc)) hs)
             end ]
  end).
Definition c_nn_state (tol : float) (s z w lam hs : list float) : N :=
  let '(mw, ml) := nn_update_scaling F s z in
  maxl [cmpv_el tol mw w; cmpv_el tol ml lam; cmpv_el tol (nn_get_Hs F mw) hs].

(** ** PSD cone: the models of PSDOps.v at binary64 (plain triple loops instead of BLAS, hence a
    tolerance, norm-wise relative) evaluated on the hooked R, R⁻¹, λ and compared with what the
    implementation returned for mul_W, mul_Winv, get_Hs, mul_Hs, affine_ds, Δs_from_Δz_offset,
    combined_ds_shift, circ_op, λ_inv_circ_op *)
(** within tolerance = agree (bit-identity with BLAS is not achievable) *)
Definition cmpv_tol (tol : float) (a b : list float) : N := if N.eqb (cmpv tol a b) 1 then 1%N else 0%N.
Definition c_psd_model (tol : float) (n : nat) (Rcm Ricm lam x y : list float) (a b sigmamu : float)
           (wx winvx hs hsx aff off shift circ licx : list float) : N :=
  let Rm := ocm F n Rcm in let Ri := ocm F n Ricm in let lv := ovec F lam in
  let A := omm F n Rm (omT Rm) in
  maxl [ cmpv_tol tol (opsd_mul_Wx F false n Rm x a b y) wx;
         cmpv_tol tol (opsd_mul_Wx F false n Ri x a b y) winvx;
         cmpv_tol tol (opsd_get_Hs F n A) hs;
         cmpv_tol tol (opsd_mul_Wx F true n Rm (opsd_mul_Wx F false n Rm x 1%float 0%float x) 1%float 0%float x) hsx;
         cmpv_tol tol (opsd_affine_ds F n lv) aff;
         cmpv_tol tol (opsd_ds_offset F n Rm lv x x) off;
         cmpv_tol tol (opsd_combined_ds_shift F n Rm Ri x y sigmamu) shift;
         cmpv_tol tol (opsd_circ_op F n x y) circ;
         cmpv_tol tol (opsd_lam_inv_circ F n lv x) licx ].

(** ** level (B), binding: the second-order-cone operators evaluated EXACTLY on the implementation's
    outputs, from the stored (w, η, λ) only, division-free (k = 1 + w0):
      k·W x = η·U(x),  U(x) = ( k(w0 x0 + ζ) ; k x1 + (k x0 + ζ) w1 ),  ζ = w1·x1
      k·η·W⁻¹x = T(x), T(x) = ( k(w0 x0 − ζ) ; k x1 + (ζ − k x0) w1 )
      mul_Hs x = η²(2 w (w·x) − J x);  mul_W/mul_Winv(α,β,y) = α·(W x | W⁻¹x) + β·y
      affine_ds = λ∘λ;  circ_op = x∘y;  z ∘ inv_circ_op(z, y) = y
      k²(combined_ds_shift + σμ e) = T(Δs) ∘ U(Δz);  λ ∘ T(Δs_from_Δz_offset) = k·η·ds
    tolerance 2^tolexp relative to the same expressions evaluated on absolute values *)
Definition dUx (w x : list dy) : list dy :=
  let w0 := dhd w in let w1 := tl w in let k := dadd d1 w0 in
  let z := ddot w1 (tl x) in
  dmul k (dadd (dmul w0 (dhd x)) z) :: dvadd (dscale k (tl x)) (dscale (dadd (dmul k (dhd x)) z) w1).
Definition dTx (w x : list dy) : list dy :=
  let w0 := dhd w in let w1 := tl w in let k := dadd d1 w0 in
  let z := ddot w1 (tl x) in
  dmul k (dsub (dmul w0 (dhd x)) z) :: dvadd (dscale k (tl x)) (dscale (dsub z (dmul k (dhd x))) w1).
Definition dcirc (x y : list dy) : list dy :=
  ddot x y :: dvadd (dscale (dhd x) (tl y)) (dscale (dhd y) (tl x)).
Definition dclosev (tol : dy) (scale : list dy) (a b : list dy) : bool :=
  dallclose tol (dnorminf scale) a b.
Record soc_out := mkSOCOut {
  q_W1x : list dy; q_Winv1x : list dy; q_Hsx : list dy; q_Wab : list dy; q_Winvab : list dy;
  q_aff : list dy; q_circ : list dy; q_icirc : list dy; q_shift : list dy; q_off : list dy }.
Definition p_soc_ops (tolexp : Z) (w lam : list dy) (eta : dy) (x y z : list dy) (a b sigmamu : dy)
           (o : soc_out) : N :=
  let tol := dpow2 tolexp in
  let k := dadd d1 (dhd w) in
  let aw := dvabs w in let ax := dvabs x in let ay := dvabs y in let al := dvabs lam in
  let e2 := dmul eta eta in
  let c1 := dclosev tol (dvadd (dscale eta (dUx aw ax)) (dscale k (dvabs (q_W1x o))))
                    (dscale k (q_W1x o)) (dscale eta (dUx w x)) in
  let c2 := dclosev tol (dvadd (dUx aw ax) (dscale (dmul k eta) (dvabs (q_Winv1x o))))
                    (dscale (dmul k eta) (q_Winv1x o)) (dTx w x) in
  let wx := ddot w x in
  let Jx := dhd x :: map dneg (tl x) in
  let c3 := dclosev tol (dscale e2 (dvadd (dscale (dmul (dofZ 2) (ddot aw ax)) aw) ax))
                    (q_Hsx o) (dscale e2 (dvadd (dscale (dmul (dofZ 2) wx) w) (map dneg Jx))) in
  let c4 := N.eqb (p_affine tolexp a b (q_W1x o) y (q_Wab o)) 0 &&
            N.eqb (p_affine tolexp a b (q_Winv1x o) y (q_Winvab o)) 0 in
  let c5 := dclosev tol (dcirc al al) (q_aff o) (dcirc lam lam) in
  let c6 := dclosev tol (dcirc ax ay) (q_circ o) (dcirc x y) in
  let c7 := dclosev tol (dvadd (dcirc (dvabs z) (dvabs (q_icirc o))) ay) (dcirc z (q_icirc o)) y in
  let she := dadd (dhd (q_shift o)) sigmamu :: tl (q_shift o) in
  let c8 := dclosev tol (dvadd (dcirc (dUx aw ay) (dUx aw ax)) (dscale (dmul k k) (dvabs she)))
                    (dscale (dmul k k) she) (dcirc (dTx w y) (dUx w x)) in
  let c9 := dclosev tol (dvadd (dcirc al (dUx aw (dvabs (q_off o)))) (dscale (dmul k eta) ax))
                    (dcirc lam (dTx w (q_off o))) (dscale (dmul k eta) x) in
  ofb (c1 && c2 && c3 && c4 && c5 && c6 && c7 && c8 && c9).

(** margins() of a block vector, exactly: per block the margin lies in an interval (NN: the exact
    minimum; SOC: z0 − ‖z1‖ with certified square-root bounds); α must lie in the interval of the
    minimum and β in the interval of Σ max(0, ·) (NN: Σ max(z_i, 0)), up to slack 2^tolexp·max|z| *)
Definition dmargin_iv (b : ckind * list dy) : option (dy * dy * dy * dy) :=   (* (αlo, αhi, βlo, βhi) *)
  match fst b with
  | KZero => None
  | KNN => match snd b with
           | [] => None
           | v0 :: vs => let m := fold_left dmin vs v0 in
                         let bs := dsum (map (fun v => dmax v d0) (snd b)) in Some (m, m, bs, bs)
           end
  | KSOC => let ss := dsumsq (tl (snd b)) in
            let lo := dsub (dhd (snd b)) (dsqrt_up ss) in let hi := dsub (dhd (snd b)) (dsqrt_lo ss) in
            Some (lo, hi, dmax lo d0, dmax hi d0)
  end.
Definition p_margins (tolexp : Z) (bs : list (ckind * list dy)) (alpha beta : dy) : N :=
  let ivs := flat_map (fun b => match dmargin_iv b with Some q => [q] | None => [] end) bs in
  match ivs with
  | [] => 0%N
  | (l0, h0, _, _) :: rest =>
      let alo := fold_left (fun m q => dmin m (fst (fst (fst q)))) rest l0 in
      let ahi := fold_left (fun m q => dmin m (snd (fst (fst q)))) rest h0 in
      let blo := dsum (map (fun q => snd (fst q)) ivs) in
      let bhi := dsum (map (fun q => snd q) ivs) in
      let mx := fold_left (fun m b => dmax m (dnorminf (snd b))) bs d0 in
      let slack := dmul (dpow2 tolexp) (dadd mx (dadd (dabs bhi) (D 1 (-1000)))) in
      ofb (dleb (dsub alo slack) alpha && dleb alpha (dadd ahi slack) &&
           dleb (dsub blo slack) beta && dleb beta (dadd bhi slack))
  end.

(** ** scale sweeps: cones are scale invariant.  Symmetric cones: the step of (2^k x, 2^k dx) is
    bit-identical to that of (x, dx) ([c_bitsame]); nonsymmetric cones (backtracking): equal up to one
    backtracking factor: both 0, or a·step <= b(1+2^-30) and b·step <= a(1+2^-30) *)
Definition p_grid_equal (step a b : dy) : N :=
  let up v := dadd v (dshift v (-30)) in
  ofb ((deqb a d0 && deqb b d0) ||
       (dltb d0 a && dltb d0 b && dleb (dmul a step) (up b) && dleb (dmul b step) (up a))).
(** relative agreement 2^tolexp (PSD through LAPACK: square roots of odd powers of two are inexact) *)
Definition p_rel_equal (tolexp : Z) (a b : dy) : N :=
  ofb (dclose (dpow2 tolexp) (dmax (dabs a) (dabs b)) a b).
