(** PSD cone index maps — statements only (C13, PSD part; the scaling itself stays partial). *)
From Coq Require Import List Reals ZArith Arith.
Import ListNotations.
Require Import Clarabel.Base.Ops Clarabel.Cones.Vec Clarabel.Cones.SpecC15 Clarabel.Cones.PSDIndex.
Open Scope R_scope.

Definition symmetric (M : nat -> nat -> R) : Prop := forall r c, M r c = M c r.
Fixpoint sumn (f : nat -> R) (n : nat) : R :=
  match n with O => 0 | S k => sumn f k + f k end.
(** tr(XY) = Σ_r Σ_c X[r,c]·Y[c,r] *)
Definition trprod (n : nat) (X Y : nat -> nat -> R) : R :=
  sumn (fun r => sumn (fun c => X r c * Y c r) n) n.

(** svec_to_mat ∘ mat_to_svec = id on symmetric matrices, every n *)
Definition stmt_psd_mat_svec_inverse : Prop :=
  forall n (M : nat -> nat -> R) r c, symmetric M -> (r < n)%nat -> (c < n)%nat ->
    svec_to_mat OpsR (mat_to_svec OpsR n M) r c = M r c.
(** mat_to_svec ∘ svec_to_mat = id on vectors of length n(n+1)/2 *)
Definition stmt_psd_svec_mat_inverse : Prop :=
  forall n (x : list R), length x = (n * (n + 1) / 2)%nat ->
    mat_to_svec OpsR n (svec_to_mat OpsR x) = x.
(** ⟨svec X, svec Y⟩ = tr(XY) for symmetric X, Y *)
Definition stmt_psd_svec_isometry : Prop :=
  forall n (X Y : nat -> nat -> R), symmetric X -> symmetric Y ->
    rdot (mat_to_svec OpsR n X) (mat_to_svec OpsR n Y) = trprod n X Y.
(** the k-th diagonal entry sits at triangular_index(k) = k(k+3)/2 (used by scaled_unit_shift,
    affine_ds) *)
Definition stmt_psd_diag_index : Prop :=
  forall n (M : nat -> nat -> R) k, (k < n)%nat ->
    nth (triangular_index k) (mat_to_svec OpsR n M) 0 = M k k.

(** scaled_unit_shift on the packed vector adds α to the diagonal of the matrix and nothing else *)
Definition stmt_psd_unit_shift_mat : Prop :=
  forall n (z : list R) a i j, length z = (n * (n + 1) / 2)%nat -> (i < n)%nat -> (j < n)%nat ->
    svec_to_mat OpsR (psd_scaled_unit_shift OpsR n z a) i j
    = svec_to_mat OpsR z i j + (if Nat.eqb i j then a else 0).
