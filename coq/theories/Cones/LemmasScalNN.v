(** C13, nonnegative cone: Nesterov–Todd identities, every dimension. *)
From Coq Require Import List Reals ZArith Lra Lia Bool Psatz.
Import ListNotations.
Require Import Clarabel.Base.Ops Clarabel.Cones.Vec Clarabel.Cones.NN Clarabel.Cones.SpecC15
               Clarabel.Cones.SpecC13.
Open Scope R_scope.
Local Notation sqrt := R_sqrt.sqrt.

(** scalar facts *)
Lemma sc_w_pos s z : 0 < s -> 0 < z -> 0 < sqrt (s / z).
Proof. intros. apply sqrt_lt_R0. apply Rdiv_lt_0_compat; assumption. Qed.
Lemma sc_Wz s z : 0 < s -> 0 < z -> z * sqrt (s / z) = sqrt (s * z).
Proof.
  intros Hs Hz. symmetry. apply sqrt_lem_1.
  - apply Rmult_le_pos; lra.
  - apply Rmult_le_pos; [lra | apply sqrt_pos].
  - assert (H : 0 <= s / z) by (apply Rlt_le, Rdiv_lt_0_compat; assumption).
    pose proof (sqrt_sqrt _ H) as E. set (w := sqrt (s / z)) in *.
    replace (z * w * (z * w)) with (z * z * (w * w)) by ring. rewrite E. field. lra.
Qed.
Lemma sc_Winvs s z : 0 < s -> 0 < z -> s / sqrt (s / z) = sqrt (s * z).
Proof.
  intros Hs Hz. pose proof (sc_w_pos s z Hs Hz) as Hw. symmetry. apply sqrt_lem_1.
  - apply Rmult_le_pos; lra.
  - apply Rlt_le, Rdiv_lt_0_compat; assumption.
  - assert (H : 0 <= s / z) by (apply Rlt_le, Rdiv_lt_0_compat; assumption).
    pose proof (sqrt_sqrt _ H) as E. set (w := sqrt (s / z)) in *.
    replace (s / w * (s / w)) with (s * s / (w * w)) by (field; lra). rewrite E. field. lra.
Qed.
Lemma sc_WWz s z : 0 < s -> 0 < z -> sqrt (s / z) * (sqrt (s / z) * z) = s.
Proof.
  intros Hs Hz. assert (H : 0 <= s / z) by (apply Rlt_le, Rdiv_lt_0_compat; assumption).
  pose proof (sqrt_sqrt _ H) as E. set (w := sqrt (s / z)) in *.
  replace (w * (w * z)) with (w * w * z) by ring. rewrite E. field. lra.
Qed.

Lemma nn_scaling_cons si s zi z :
  nn_update_scaling OpsR (si :: s) (zi :: z)
  = (sqrt (si / zi) :: fst (nn_update_scaling OpsR s z),
     sqrt (si * zi) :: snd (nn_update_scaling OpsR s z)).
Proof. reflexivity. Qed.

Lemma nn_Wz_lambda_ok : stmt_nn_Wz_lambda.
Proof.
  intros s; induction s as [|si s IH]; intros [|zi z] [|yi y] Hl Hy Hs Hz; cbn in Hl, Hy; try discriminate.
  - cbn. split; reflexivity.
  - rewrite nn_scaling_cons. inversion Hs; inversion Hz; subst.
    specialize (IH z y ltac:(lia) ltac:(lia) H2 H6).
    destruct (nn_update_scaling OpsR s z) as [w lam] eqn:E. cbn [fst snd].
    destruct IH as [IH1 IH2]. cbn [nn_mul_W nn_mul_Winv]. rewrite IH1, IH2.
    cbn [add mul div one zero OpsR]. split; f_equal.
    + rewrite <- sc_Wz by assumption. ring.
    + rewrite <- sc_Winvs by assumption. ring.
Qed.

Lemma nn_WtWz_s_ok : stmt_nn_WtWz_s.
Proof.
  intros s; induction s as [|si s IH]; intros [|zi z] Hl Hs Hz; cbn in Hl; try discriminate; [reflexivity|].
  rewrite nn_scaling_cons. cbn [fst]. inversion Hs; inversion Hz; subst.
  unfold nn_mul_Hs, map2 in *. cbn [combine map fst snd]. rewrite IH by (assumption || lia).
  cbn [mul OpsR]. rewrite sc_WWz by assumption. reflexivity.
Qed.

Lemma nn_w_pos_ok : stmt_nn_w_pos.
Proof.
  intros s; induction s as [|si s IH]; intros [|zi z] Hl Hs Hz; cbn in Hl; try discriminate.
  - cbn. split; constructor.
  - rewrite nn_scaling_cons. cbn [fst snd]. inversion Hs; inversion Hz; subst.
    destruct (IH z ltac:(lia) H2 H6) as [I1 I2]. split; constructor; try assumption.
    + apply sc_w_pos; assumption.
    + apply sqrt_lt_R0. apply Rmult_lt_0_compat; assumption.
Qed.

Lemma nn_W_Winv_inverse_ok : stmt_nn_W_Winv_inverse.
Proof.
  intros w; induction w as [|wi w IH]; intros [|xi x] [|yi y] [|yi' y'] Hx Hy Hy' Hw;
    cbn in Hx, Hy, Hy'; try discriminate.
  - split; reflexivity.
  - inversion Hw; subst. destruct (IH x y y' ltac:(lia) ltac:(lia) ltac:(lia) H2) as [I1 I2].
    cbn [nn_mul_W nn_mul_Winv]. rewrite I1, I2. cbn [add mul div one zero OpsR].
    split; f_equal; field; assumption.
Qed.

Lemma nn_mul_W_affine_ok : stmt_nn_mul_W_affine.
Proof.
  intros w; induction w as [|wi w IH]; intros [|xi x] a b [|yi y] Hx Hy; cbn in Hx, Hy; try discriminate.
  - reflexivity.
  - cbn [nn_mul_W]. unfold rmap2, map2 in *. cbn [combine map fst snd].
    rewrite IH by lia. cbn [add mul one zero OpsR]. f_equal. ring.
Qed.

Lemma nn_get_Hs_operator_ok : stmt_nn_get_Hs_operator.
Proof.
  intros w; induction w as [|wi w IH]; intros [|xi x] Hx; cbn in Hx; try discriminate.
  - split; reflexivity.
  - destruct (IH x ltac:(lia)) as [I1 I2].
    unfold nn_mul_Hs, nn_get_Hs, rmap2, map2 in *. cbn [combine map fst snd nn_mul_W].
    split.
    + rewrite I1. cbn [mul OpsR]. f_equal. ring.
    + rewrite I2. cbn [add mul one zero OpsR]. f_equal. ring.
Qed.

Lemma nn_circ_inverse_ok : stmt_nn_circ_inverse.
Proof.
  intros y; induction y as [|yi y IH]; intros [|zi z] Hl Hy; cbn in Hl; try discriminate.
  - split; reflexivity.
  - inversion Hy; subst. destruct (IH z ltac:(lia) H2) as [I1 I2].
    unfold nn_inv_circ_op, nn_circ_op, map2 in *. cbn [combine map fst snd].
    rewrite I1, I2. cbn [mul div OpsR]. split; f_equal; field; assumption.
Qed.

Lemma nn_affine_ds_ok : stmt_nn_affine_ds.
Proof.
  intros lam; induction lam as [|l lam IH]; [reflexivity|].
  unfold nn_affine_ds, nn_circ_op, map2 in *. cbn [combine map fst snd]. rewrite IH. reflexivity.
Qed.

Lemma nn_ds_offset_ok : stmt_nn_ds_offset.
Proof.
  intros s; induction s as [|si s IH]; intros [|zi z] [|di ds] [|yi y] Hl Hd Hy Hs Hz;
    cbn in Hl, Hd, Hy; try discriminate.
  - reflexivity.
  - rewrite nn_scaling_cons. inversion Hs; inversion Hz; subst.
    specialize (IH z ds y ltac:(lia) ltac:(lia) ltac:(lia) H2 H6).
    destruct (nn_update_scaling OpsR s z) as [w lam] eqn:E. cbn [fst snd].
    unfold nn_ds_from_dz_offset, nn_inv_circ_op, map2 in *. cbn [combine map fst snd nn_mul_W].
    rewrite <- IH. cbn [add mul div one zero OpsR]. f_equal.
    rewrite <- (sc_Wz si zi) by assumption.
    pose proof (sc_w_pos si zi H1 H5). field. split; lra.
Qed.

Lemma nn_combined_shift_ok : stmt_nn_combined_shift.
Proof.
  intros w dz ds sigmamu Hz Hs. unfold nn_combined_ds_shift, vtranslate.
  apply map_ext. intros v. cbn. lra.
Qed.
