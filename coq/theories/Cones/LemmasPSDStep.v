(** PSD cone, C15: step length from a spectral lower bound; shift lemma. *)
From Coq Require Import List Reals ZArith Lra Lia Arith Setoid Morphisms Psatz.
Require Import Clarabel.Base.Ops Clarabel.Cones.SpecPSD Clarabel.Cones.Mat Clarabel.Cones.LemmasMat
               Clarabel.Cones.SpecPSDScal Clarabel.Cones.LemmasPSDScal.
Open Scope R_scope.

Lemma psd_step_range gamma amax : 0 <= amax -> 0 <= psd_step gamma amax <= amax.
Proof.
  intros Ha. unfold psd_step. destruct (Rltb gamma 0) eqn:E; [|lra].
  apply Rltb_true in E. assert (0 < - / gamma). { assert (/ gamma < 0) by (apply Rinv_lt_0_compat; exact E). lra. }
  split; [apply Rmin_glb; lra | apply Rmin_r].
Qed.
Lemma psd_step_bound gamma amax t : 0 <= amax -> 0 <= t <= psd_step gamma amax -> 0 <= 1 + t * gamma.
Proof.
  intros Ha Ht. unfold psd_step in Ht. destruct (Rltb gamma 0) eqn:E.
  - apply Rltb_true in E. assert (t <= - / gamma) by (pose proof (Rmin_l (- / gamma) amax); lra).
    assert (t * (- gamma) <= (- / gamma) * (- gamma)) by (apply Rmult_le_compat_r; lra).
    replace (- / gamma * - gamma) with 1 in H0 by (field; lra). lra.
  - apply Rltb_false in E. assert (0 <= t * gamma) by (apply Rmult_le_pos; lra). lra.
Qed.

(** I + tM is PSD when M − γI is and 1 + tγ >= 0, t >= 0 *)
Lemma psd_I_plus n M gamma t : spectrum_lower_bound n M gamma -> 0 <= t -> 0 <= 1 + t * gamma ->
  psd n (madd mI (mscal t M)).
Proof.
  intros HM Ht H1 x.
  assert (E : qf n (madd mI (mscal t M)) x
              = (1 + t * gamma) * qf n mI x + t * qf n (madd M (mscal (- gamma) mI)) x).
  { rewrite !qf_madd, !qf_mscal. ring. }
  rewrite E. pose proof (psd_I n x). pose proof (HM x).
  assert (0 <= (1 + t * gamma) * qf n mI x) by (apply Rmult_le_pos; assumption).
  assert (0 <= t * qf n (madd M (mscal (- gamma) mI)) x) by (apply Rmult_le_pos; assumption). lra.
Qed.

Lemma lsqrt_sq n lam : (forall i, (i < n)%nat -> 0 < lam i) ->
  meq n (mmul n (mdiag (lsqrt lam)) (mdiag (lsqrt lam))) (mdiag lam).
Proof.
  intros Hl. rewrite mdiag_mul. apply mdiag_ext. intros i Hi. unfold lsqrt.
  apply sqrt_sqrt. apply Rlt_le, Hl, Hi.
Qed.
Lemma lsqrt_isq n lam : (forall i, (i < n)%nat -> 0 < lam i) ->
  meq n (mmul n (mdiag (lsqrt lam)) (mdiag (isq lam))) mI.
Proof.
  intros Hl. rewrite mdiag_mul. apply mdiag_one. intros i Hi. unfold lsqrt, isq.
  assert (0 < R_sqrt.sqrt (lam i)) by (apply sqrt_lt_R0, Hl, Hi). field. lra.
Qed.
Lemma isq_lsqrt n lam : (forall i, (i < n)%nat -> 0 < lam i) ->
  meq n (mmul n (mdiag (isq lam)) (mdiag (lsqrt lam))) mI.
Proof.
  intros Hl. rewrite mdiag_mul. apply mdiag_one. intros i Hi. unfold lsqrt, isq.
  assert (0 < R_sqrt.sqrt (lam i)) by (apply sqrt_lt_R0, Hl, Hi). field. lra.
Qed.

Lemma psd_step_safe_ok : stmt_psd_step_safe.
Proof.
  intros n X dX A B lam gamma amax t Hl HBA HL HM Ha Ht.
  split; [apply psd_step_range; exact Ha|].
  set (Lh := mdiag (lsqrt lam)). set (D := mdiag (isq lam)).
  set (C := mmul n Lh A).
  set (M := psd_scaled_dir n B dX lam) in *.
  assert (HAB : meq n (mmul n (mT A) (mT B)) mI).
  { rewrite <- mT_mmul. rewrite HBA. apply mT_I. }
  assert (HCT : meq n (mT C) (mmul n (mT A) Lh)).
  { unfold C, Lh. rewrite mT_mmul, mT_diag. reflexivity. }
  (* X = Cᵀ C *)
  assert (HX : meq n X (mmul n (mT C) C)).
  { rewrite HCT. unfold C. rassoc. rewrite <- (mmul_assoc n Lh Lh A). unfold Lh. rewrite (lsqrt_sq n lam Hl).
    rewrite <- HL. rassoc. rewrite HBA. rewrite mmul_I_r.
    rewrite <- (mmul_assoc n (mT A) (mT B)). rewrite HAB. rewrite mmul_I_l. reflexivity. }
  (* ΔX = Cᵀ M C *)
  assert (HdX : meq n dX (mmul n (mT C) (mmul n M C))).
  { rewrite HCT. unfold C, M, psd_scaled_dir. fold D. rassoc.
    rewrite <- (mmul_assoc n D Lh A). unfold D, Lh. rewrite (isq_lsqrt n lam Hl). rewrite mmul_I_l.
    rewrite <- (mmul_assoc n (mdiag (lsqrt lam)) (mdiag (isq lam))). rewrite (lsqrt_isq n lam Hl). rewrite mmul_I_l.
    rewrite HBA. rewrite mmul_I_r.
    rewrite <- (mmul_assoc n (mT A) (mT B)). rewrite HAB. rewrite mmul_I_l. reflexivity. }
  (* X + tΔX = Cᵀ (I + tM) C *)
  assert (E : meq n (madd X (mscal t dX)) (mmul n (mT C) (mmul n (madd mI (mscal t M)) C))).
  { rewrite mmul_madd_l, mmul_madd_r. rewrite mmul_I_l. rewrite mmul_mscal_l, mmul_mscal_r.
    rewrite <- HX, <- HdX. reflexivity. }
  rewrite E. apply psd_congruence. apply (psd_I_plus n M gamma t HM); [lra|].
  apply (psd_step_bound gamma amax t Ha Ht).
Qed.

Lemma psd_step_z_ok : stmt_psd_step_z.
Proof.
  intros n Z dZ Rm Ri lam gamma amax t Hl HRR HL HM Ha Ht.
  apply (psd_step_safe_ok n Z dZ Ri Rm lam gamma amax t Hl HRR HL HM Ha Ht).
Qed.
Lemma psd_step_s_ok : stmt_psd_step_s.
Proof.
  intros n S dS Rm Ri lam gamma amax t Hl HRR HL HM Ha Ht.
  assert (H1 : meq n (mmul n (mT Ri) (mT Rm)) mI) by (rewrite <- mT_mmul; rewrite HRR; apply mT_I).
  assert (H2 : meq n (mmul n (mT (mT Ri)) (mmul n S (mT Ri))) (mdiag lam)) by (rewrite mT_mT; exact HL).
  apply (psd_step_safe_ok n S dS (mT Rm) (mT Ri) lam gamma amax t Hl H1 H2 HM Ha Ht).
Qed.

Lemma psd_shift_iff_ok : stmt_psd_shift_iff.
Proof.
  intros n M gamma v alpha HM Hv Hq. split.
  - intros H. specialize (H v). rewrite qf_madd, qf_mscal, qf_I, Hv, Hq in H. lra.
  - intros H x.
    assert (E : qf n (madd M (mscal alpha mI)) x
                = qf n (madd M (mscal (- gamma) mI)) x + (alpha + gamma) * qf n mI x).
    { rewrite !qf_madd, !qf_mscal. ring. }
    rewrite E. pose proof (HM x). pose proof (psd_I n x).
    assert (0 <= (alpha + gamma) * qf n mI x) by (apply Rmult_le_pos; assumption). lra.
Qed.
Lemma psd_shift_strict_ok : stmt_psd_shift_strict.
Proof.
  intros n M gamma alpha HM H x Hx.
  assert (E : qf n (madd M (mscal alpha mI)) x
              = qf n (madd M (mscal (- gamma) mI)) x + (alpha + gamma) * qf n mI x).
  { rewrite !qf_madd, !qf_mscal. ring. }
  rewrite E. pose proof (HM x). rewrite qf_I.
  assert (0 < (alpha + gamma) * vdotn n x x) by (apply Rmult_lt_0_compat; assumption). lra.
Qed.
