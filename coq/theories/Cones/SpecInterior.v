(** C07 support — statements only: a damped cone step keeps the iterate strictly interior.
    [calc_step_length] (variables.rs) computes α = min(αz, αs) from the cones' step_length
    (called with α_max = min(ατ, ακ, 1)) and, for the combined direction, multiplies it by
    max_step_fraction ∈ (0,1).  Any t ∈ [0, step_length] damped by a fraction f ∈ (0,1)
    (this covers the min over z/s, over several cones and over τ, κ) stays strictly inside. *)
From Coq Require Import List Reals.
Import ListNotations.
Require Import Clarabel.Base.Ops Clarabel.Cones.Vec Clarabel.Cones.NN Clarabel.Cones.SOC
               Clarabel.Cones.SpecC15.
Open Scope R_scope.

Definition stmt_nn_step_keeps_interior : Prop :=
  forall x y amax frac t, length x = length y -> int_nn x -> 0 <= amax -> 0 < frac < 1 ->
    0 <= t <= nn_step OpsR x y amax -> int_nn (pt x (t * frac) y).
Definition stmt_soc_step_keeps_interior : Prop :=
  forall x y amax frac t, length x = length y -> int_soc x -> 0 <= amax -> 0 < frac < 1 ->
    0 <= t <= soc_step OpsR x y amax -> int_soc (pt x (t * frac) y).
(** as used by calc_step_length on one cone: α = min(αz, αs) * max_step_fraction *)
Definition stmt_nn_calc_step_keeps_interior : Prop :=
  forall z s dz ds amax frac, length z = length dz -> length s = length ds ->
    int_nn z -> int_nn s -> 0 <= amax -> 0 < frac < 1 ->
    let a := Rmin (fst (nn_step_length OpsR dz ds z s amax)) (snd (nn_step_length OpsR dz ds z s amax)) * frac in
    int_nn (pt z a dz) /\ int_nn (pt s a ds).
Definition stmt_soc_calc_step_keeps_interior : Prop :=
  forall z s dz ds amax frac, length z = length dz -> length s = length ds ->
    int_soc z -> int_soc s -> 0 <= amax -> 0 < frac < 1 ->
    let a := Rmin (fst (soc_step_length OpsR dz ds z s amax)) (snd (soc_step_length OpsR dz ds z s amax)) * frac in
    int_soc (pt z a dz) /\ int_soc (pt s a ds).
(** convexity facts used: a strict convex combination of an interior point and a point of the
    cone is interior *)
Definition stmt_soc_convex_interior : Prop :=
  forall u v f, length u = length v -> int_soc u -> in_soc v -> 0 <= f < 1 ->
    int_soc (map2 (fun a b => (1 - f) * a + f * b) u v).
