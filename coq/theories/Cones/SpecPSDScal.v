(** PSD cone — statements only (C13 scaling algebra; C15 step length, margins and shift).
    Real matrices of Mat.v.  The factorisations computed by LAPACK (Cholesky, SVD, symmetric
    eigenvalues) enter as HYPOTHESES of the theorems; the correspondence run validates exactly
    these hypotheses on every call (exact dyadic arithmetic on the hooked factors). *)
From Coq Require Import List Reals ZArith Arith.
Require Import Clarabel.Base.Ops Clarabel.Cones.Vec Clarabel.Cones.SpecC15 Clarabel.Cones.SpecPSD Clarabel.Cones.Mat
               Clarabel.Cones.PSDIndex.
Open Scope R_scope.

(** the contracts of chol1.factor(S), chol2.factor(Z), SVD.factor(L2ᵀL1) as used by
    PSDTriangleCone::update_scaling *)
Record psd_factors (n : nat) (S Z L1 L2 U V : mat) (lam : vec) : Prop := mkFactors {
  f_chol1 : meq n S (mmul n L1 (mT L1));
  f_chol2 : meq n Z (mmul n L2 (mT L2));
  f_svd : meq n (mmul n (mT L2) L1) (mmul n U (mmul n (mdiag lam) (mT V)));
  f_UtU : meq n (mmul n (mT U) U) mI;
  f_VtV : meq n (mmul n (mT V) V) mI;
  f_VVt : meq n (mmul n V (mT V)) mI;
  f_lam : forall i, (i < n)%nat -> 0 < lam i }.
(** Λisqrt = λ^(-1/2);  R = (L1 V) Λ^(-1/2);  Rinv = Λ^(-1/2) (Uᵀ L2ᵀ)   (as assembled in the code) *)
Definition isq (lam : vec) : vec := fun i => / R_sqrt.sqrt (lam i).
Definition psd_R (n : nat) (L1 V : mat) (lam : vec) : mat := mmul n (mmul n L1 V) (mdiag (isq lam)).
Definition psd_Rinv (n : nat) (L2 U : mat) (lam : vec) : mat :=
  mmul n (mdiag (isq lam)) (mmul n (mT U) (mT L2)).

(** ** C13: Nesterov–Todd identities of the PSD scaling, every n *)
Definition stmt_psd_Rinv_R : Prop :=
  forall n S Z L1 L2 U V lam, psd_factors n S Z L1 L2 U V lam ->
    meq n (mmul n (psd_Rinv n L2 U lam) (psd_R n L1 V lam)) mI.
(** R R⁻¹ = I additionally needs L1 nonsingular (it is: lower triangular, positive diagonal) *)
Definition stmt_psd_R_Rinv : Prop :=
  forall n S Z L1 L2 U V lam L1i, psd_factors n S Z L1 L2 U V lam -> meq n (mmul n L1 L1i) mI ->
    meq n (mmul n (psd_R n L1 V lam) (psd_Rinv n L2 U lam)) mI.
(** W z = λ:  Rᵀ Z R = Λ *)
Definition stmt_psd_RtZR : Prop :=
  forall n S Z L1 L2 U V lam, psd_factors n S Z L1 L2 U V lam ->
    let R := psd_R n L1 V lam in meq n (mmul n (mT R) (mmul n Z R)) (mdiag lam).
(** W⁻ᵀ s = λ:  R⁻¹ S R⁻ᵀ = Λ *)
Definition stmt_psd_RinvSRinvt : Prop :=
  forall n S Z L1 L2 U V lam, psd_factors n S Z L1 L2 U V lam ->
    let Ri := psd_Rinv n L2 U lam in meq n (mmul n Ri (mmul n S (mT Ri))) (mdiag lam).
(** the scaling point W = R Rᵀ maps z to s:  W Z W = S *)
Definition stmt_psd_WZW : Prop :=
  forall n S Z L1 L2 U V lam, psd_factors n S Z L1 L2 U V lam ->
    let W := mmul n (psd_R n L1 V lam) (mT (psd_R n L1 V lam)) in
    meq n (mmul n W (mmul n Z W)) S.

(** mul_Wx_inner (mul_W / mul_Winv of the PSD cone, with Rx = R or R⁻¹) in svec form:
      N:  Y <- α·(Rxᵀ X Rx) + β·Y        T:  Y <- α·(Rx X Rxᵀ) + β·Y
    with X = svec_to_mat x, Y = svec_to_mat y, result mat_to_svec Y *)
Definition psd_conj (tr : bool) (n : nat) (Rx X : mat) : mat :=
  if tr then mmul n Rx (mmul n X (mT Rx)) else mmul n (mmul n (mT Rx) X) Rx.
Definition psd_mul_Wx (tr : bool) (n : nat) (Rx : mat) (x : list R) (a b : R) (y : list R) : list R :=
  mat_to_svec OpsR n (fun i j => a * psd_conj tr n Rx (svec_to_mat OpsR x) i j + b * svec_to_mat OpsR y i j).
(** the gemv contract for every α, β and output buffer *)
Definition stmt_psd_mul_W_affine : Prop :=
  forall tr n Rx x a b y, length y = (n * (n + 1) / 2)%nat ->
    psd_mul_Wx tr n Rx x a b y
    = map2 (fun p q => a * p + b * q) (psd_mul_Wx tr n Rx x 1 0 y) y.

(** ** C15: PSD step length.
    step_length_psd_component: γ = λmin(Λ^(-1/2) (W Δ) Λ^(-1/2)); α = min(-1/γ, αmax) if γ < 0 else αmax *)
Definition psd_step (gamma amax : R) : R :=
  if Rltb gamma 0 then Rmin (- (/ gamma)) amax else amax.
Definition lsqrt (lam : vec) : vec := fun i => R_sqrt.sqrt (lam i).
(** the scaled direction  M = Λ^(-1/2) (Bᵀ ΔX B) Λ^(-1/2)  (B = R for z, B = R⁻ᵀ for s) *)
Definition psd_scaled_dir (n : nat) (B dX : mat) (lam : vec) : mat :=
  mmul n (mdiag (isq lam)) (mmul n (mmul n (mT B) (mmul n dX B)) (mdiag (isq lam))).
(** [gamma] is a lower bound of the spectrum of M:  M − γ I is positive semidefinite (this is
    what the eigenvalue routine is trusted for, and what the per-call check validates) *)
Definition spectrum_lower_bound (n : nat) (M : mat) (gamma : R) : Prop :=
  psd n (madd M (mscal (- gamma) mI)).
(** generic form: B A = I, Bᵀ X B = Λ (λ > 0), γ a lower bound of the spectrum of the scaled
    direction ⇒ X + tΔX is PSD for every t in [0, psd_step γ αmax], and the step is in [0, αmax] *)
Definition stmt_psd_step_safe : Prop :=
  forall n X dX A B lam gamma amax t,
    (forall i, (i < n)%nat -> 0 < lam i) ->
    meq n (mmul n B A) mI -> meq n (mmul n (mT B) (mmul n X B)) (mdiag lam) ->
    spectrum_lower_bound n (psd_scaled_dir n B dX lam) gamma ->
    0 <= amax -> 0 <= t <= psd_step gamma amax ->
    0 <= psd_step gamma amax <= amax /\ psd n (madd X (mscal t dX)).
(** z-side (d = W Δz = Rᵀ ΔZ R) and s-side (d = W⁻ᵀ Δs = R⁻¹ ΔS R⁻ᵀ) as in PSDTriangleCone::step_length *)
Definition stmt_psd_step_z : Prop :=
  forall n Z dZ Rm Ri lam gamma amax t,
    (forall i, (i < n)%nat -> 0 < lam i) ->
    meq n (mmul n Rm Ri) mI -> meq n (mmul n (mT Rm) (mmul n Z Rm)) (mdiag lam) ->
    spectrum_lower_bound n (psd_scaled_dir n Rm dZ lam) gamma ->
    0 <= amax -> 0 <= t <= psd_step gamma amax -> psd n (madd Z (mscal t dZ)).
Definition stmt_psd_step_s : Prop :=
  forall n S dS Rm Ri lam gamma amax t,
    (forall i, (i < n)%nat -> 0 < lam i) ->
    meq n (mmul n Rm Ri) mI -> meq n (mmul n Ri (mmul n S (mT Ri))) (mdiag lam) ->
    spectrum_lower_bound n (psd_scaled_dir n (mT Ri) dS lam) gamma ->
    0 <= amax -> 0 <= t <= psd_step gamma amax -> psd n (madd S (mscal t dS)).

(** ** C15: PSD margins and unit shift.  margins() returns α = λmin(mat z); scaled_unit_shift adds
    α to the diagonal.  With γ the minimum eigenvalue of M (a lower bound that is attained by a
    unit vector v):  M + αI is PSD iff α >= −γ,  and positive definite if α > −γ *)
Definition stmt_psd_shift_iff : Prop :=
  forall n M gamma v alpha, spectrum_lower_bound n M gamma -> vdotn n v v = 1 -> qf n M v = gamma ->
    (psd n (madd M (mscal alpha mI)) <-> 0 <= alpha + gamma).
Definition stmt_psd_shift_strict : Prop :=
  forall n M gamma alpha, spectrum_lower_bound n M gamma -> 0 < alpha + gamma ->
    forall x, 0 < vdotn n x x -> 0 < qf n (madd M (mscal alpha mI)) x.

(** ** lower triangular with non-zero diagonal ⇒ (right-)invertible; so R R⁻¹ = I needs no
    invertibility hypothesis beyond the shape of the Cholesky factor (which the per-call check
    validates: strictly upper part exactly 0, diagonal > 0) *)
Definition lower_tri (n : nat) (L : mat) : Prop := forall i j, (i < j)%nat -> (j < n)%nat -> L i j = 0.
Definition diag_nz (n : nat) (L : mat) : Prop := forall i, (i < n)%nat -> L i i <> 0.
Definition stmt_lower_tri_right_inverse : Prop :=
  forall n L, lower_tri n L -> diag_nz n L -> exists Li, meq n (mmul n L Li) mI.
Definition stmt_psd_R_Rinv_tri : Prop :=
  forall n S Z L1 L2 U V lam, psd_factors n S Z L1 L2 U V lam -> lower_tri n L1 -> diag_nz n L1 ->
    meq n (mmul n (psd_R n L1 V lam) (psd_Rinv n L2 U lam)) mI.
