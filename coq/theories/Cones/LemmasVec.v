(** Facts about the vector helpers at [OpsR]: the left folds of the source equal the
    structural sums used in the specifications. *)
From Coq Require Import List Reals ZArith Lra Lia Bool.
Import ListNotations.
Require Import Clarabel.Base.Ops Clarabel.Cones.Vec Clarabel.Cones.SpecC15.
Open Scope R_scope.

Lemma fold_dot_acc (l : list (R * R)) (acc : R) :
  fold_left (fun a p => add OpsR a (mul OpsR (fst p) (snd p))) l acc
  = acc + fold_left (fun a p => add OpsR a (mul OpsR (fst p) (snd p))) l 0.
Proof.
  revert acc; induction l as [|p l IH]; intros acc; cbn [fold_left].
  - cbn; lra.
  - rewrite IH. rewrite (IH (add OpsR 0 _)). cbn. lra.
Qed.

Lemma vdot_R x y : vdot OpsR x y = rdot x y.
Proof.
  revert y; induction x as [|a x IH]; intros [|b y]; try reflexivity.
  unfold vdot in *. cbn [combine fold_left]. rewrite fold_dot_acc.
  cbn [zero OpsR fst snd]. rewrite IH. cbn. lra.
Qed.
Lemma vsumsq_R x : vsumsq OpsR x = rsumsq x.
Proof. apply vdot_R. Qed.
Lemma vnorm_R x : vnorm OpsR x = R_sqrt.sqrt (rsumsq x).
Proof. unfold vnorm. rewrite vsumsq_R. reflexivity. Qed.

Lemma rsumsq_nonneg x : 0 <= rsumsq x.
Proof. induction x as [|a x IH]; cbn; [lra|]. unfold rsumsq in IH. nra. Qed.

Lemma rdot_comm x y : rdot x y = rdot y x.
Proof. revert y; induction x as [|a x IH]; intros [|b y]; cbn; try lra. rewrite IH; lra. Qed.

Lemma two_R : two OpsR = 2. Proof. reflexivity. Qed.
Lemma four_R : four OpsR = 4. Proof. reflexivity. Qed.

Lemma pt_cons a x b y t : pt (a :: x) t (b :: y) = (a + t * b) :: pt x t y.
Proof. reflexivity. Qed.
Lemma pt_length x t y : length x = length y -> length (pt x t y) = length x.
Proof.
  unfold pt, vstep, map2. intros H. rewrite map_length, combine_length. lia.
Qed.

(** ‖x + t y‖² = ‖x‖² + 2t⟨x,y⟩ + t²‖y‖² *)
Lemma rsumsq_pt x y t : length x = length y ->
  rsumsq (pt x t y) = rsumsq x + 2 * t * rdot x y + t * t * rsumsq y.
Proof.
  revert y; induction x as [|a x IH]; intros [|b y] H; cbn in H; try discriminate.
  - cbn. lra.
  - rewrite pt_cons. unfold rsumsq in *. cbn [rdot]. rewrite IH by lia. ring.
Qed.

(** Cauchy–Schwarz: ⟨x,y⟩² <= ‖x‖²‖y‖² *)
Lemma cauchy_schwarz x y : length x = length y ->
  rdot x y * rdot x y <= rsumsq x * rsumsq y.
Proof.
  intros H.
  destruct (Req_dec (rsumsq y) 0) as [Hy|Hy].
  - (* y = 0 *)
    assert (Hd : rdot x y = 0).
    { clear - H Hy. revert y H Hy; induction x as [|a x IH]; intros [|b y] H Hy; cbn in *; try lra; try discriminate.
      unfold rsumsq in *. cbn in Hy.
      pose proof (rsumsq_nonneg y) as Hn. unfold rsumsq in Hn.
      assert (b = 0) by nra. assert (rdot y y = 0) by nra.
      rewrite IH; [subst; lra | lia | assumption]. }
    rewrite Hd, Hy. lra.
  - pose proof (rsumsq_nonneg y) as Hn.
    set (t := - rdot x y / rsumsq y).
    pose proof (rsumsq_nonneg (pt x t y)) as Hp.
    rewrite rsumsq_pt in Hp by assumption.
    assert (Hpos : 0 < rsumsq y) by lra.
    assert (E : rsumsq x + 2 * t * rdot x y + t * t * rsumsq y
                = (rsumsq x * rsumsq y - rdot x y * rdot x y) / rsumsq y).
    { unfold t. field. lra. }
    rewrite E in Hp.
    assert (0 <= (rsumsq x * rsumsq y - rdot x y * rdot x y)).
    { apply Rmult_le_reg_r with (/ rsumsq y). apply Rinv_0_lt_compat; lra.
      unfold Rdiv in Hp. lra. }
    lra.
Qed.
