(** C15 — statements only.  All statements are about the real-number interpretation
    [OpsR] of the models in NN.v / SOC.v / Step.v. *)
From Coq Require Import List Reals ZArith Bool.
Import ListNotations.
Require Import Clarabel.Base.Ops Clarabel.Cones.Vec Clarabel.Cones.NN Clarabel.Cones.SOC
               Clarabel.Cones.Step.
Open Scope R_scope.

(** Σ xᵢ yᵢ and Σ xᵢ², structurally (the specification's own sums) *)
Fixpoint rdot (x y : list R) : R :=
  match x, y with a :: x', b :: y' => a * b + rdot x' y' | _, _ => 0 end.
Definition rsumsq (x : list R) : R := rdot x x.

(** x + t y *)
Definition pt (x : list R) (t : R) (y : list R) : list R := vstep OpsR x t y.

(** cones *)
Definition in_nn (x : list R) : Prop := Forall (fun v => 0 <= v) x.
Definition int_nn (x : list R) : Prop := Forall (fun v => 0 < v) x.
Definition bd_nn (x : list R) : Prop := in_nn x /\ Exists (fun v => v = 0) x.
Definition in_soc (x : list R) : Prop :=
  match x with x0 :: x1 => 0 <= x0 /\ rsumsq x1 <= x0 * x0 | [] => True end.
Definition int_soc (x : list R) : Prop :=
  match x with x0 :: x1 => 0 < x0 /\ rsumsq x1 < x0 * x0 | [] => False end.
Definition bd_soc (x : list R) : Prop :=
  match x with x0 :: x1 => 0 <= x0 /\ rsumsq x1 = x0 * x0 | [] => False end.

(** ** nonnegative cone *)
Definition stmt_nn_step_le_max : Prop :=
  forall x y amax, nn_step OpsR x y amax <= amax.
Definition stmt_nn_step_nonneg : Prop :=
  forall x y amax, length x = length y -> in_nn x -> 0 <= amax -> 0 <= nn_step OpsR x y amax.
Definition stmt_nn_step_safe : Prop :=
  forall x y amax, length x = length y -> in_nn x -> 0 <= amax ->
  forall t, 0 <= t <= nn_step OpsR x y amax -> in_nn (pt x t y).
Definition stmt_nn_step_exact : Prop :=
  forall x y amax, length x = length y -> in_nn x -> 0 <= amax ->
  let a := nn_step OpsR x y amax in a = amax \/ bd_nn (pt x a y).

(** ** second-order cone *)
Definition stmt_soc_step_le_max (step : list R -> list R -> R -> R) : Prop :=
  forall x y amax, length x = length y -> int_soc x -> 0 <= amax -> 0 <= step x y amax <= amax.
Definition stmt_soc_step_safe (step : list R -> list R -> R -> R) : Prop :=
  forall x y amax, length x = length y -> int_soc x -> 0 <= amax ->
  forall t, 0 <= t <= step x y amax -> in_soc (pt x t y).
Definition stmt_soc_step_exact (step : list R -> list R -> R -> R) : Prop :=
  forall x y amax, length x = length y -> int_soc x -> 0 <= amax ->
  let a := step x y amax in a = amax \/ bd_soc (pt x a y).
(** the statement that is FALSE of the pinned source (finding F3) *)
Definition stmt_soc_step_refuted (step : list R -> list R -> R -> R) : Prop :=
  exists x y amax, length x = length y /\ int_soc x /\ 0 < amax /\
                   ~ in_soc (pt x (step x y amax) y).

(** ** backtracking line search of the nonsymmetric cones *)
Definition stmt_backtrack_spec : Prop :=
  forall fuel (inc : R -> bool) a0 amin step r,
    0 < step -> backtrack OpsR fuel inc a0 amin step = Some r ->
    (r = 0 \/ inc r = true) /\
    (r = a0 \/ exists prev, inc prev = false /\ (r = prev * step \/ (r = 0 /\ prev * step < amin))).
Definition stmt_backtrack_le_max : Prop :=
  forall fuel (inc : R -> bool) a0 amin step r,
    0 <= a0 -> 0 < step <= 1 -> backtrack OpsR fuel inc a0 amin step = Some r -> 0 <= r <= a0.
Definition stmt_backtrack_terminates : Prop :=
  forall (inc : R -> bool) a0 amin step,
    0 < step < 1 -> 0 < amin -> 0 <= a0 ->
    exists fuel r, backtrack OpsR fuel inc a0 amin step = Some r.

(** ** composite cone *)
(** every cone (of either class) was consulted with some incoming α between the result and
    α_max, and the result does not exceed what that cone answered; the result never exceeds
    α_max, nor max_step_fraction when a nonsymmetric cone is present *)
Definition stmt_composite_step_spec : Prop :=
  forall (cones : list cone_view) msf amax,
    let r := comp_step OpsR cones msf amax in
    r <= amax /\
    (forallb (fun c : cone_view => fst c) cones = false -> r <= msf) /\
    Forall (fun c : cone_view => exists a, r <= a <= amax /\ r <= fst (snd c a) /\ r <= snd (snd c a)) cones.
(** tightness: the result is α_max, or the cap, or the answer of one of the cones *)
Definition stmt_composite_step_tight : Prop :=
  forall (cones : list cone_view) msf amax,
    let r := comp_step OpsR cones msf amax in
    r = amax \/ r = msf \/
    Exists (fun c : cone_view => exists a, r = fst (snd c a) \/ r = snd (snd c a)) cones.

(** ** margins and shifts *)
Definition stmt_margin_shift_nn : Prop :=
  forall z0 z a, fst (nn_margins OpsR (nn_scaled_unit_shift OpsR (z0 :: z) a))
                 = fst (nn_margins OpsR (z0 :: z)) + a.
Definition stmt_margin_shift_soc : Prop :=
  forall z0 z a, fst (soc_margins OpsR (soc_scaled_unit_shift OpsR (z0 :: z) a))
                 = fst (soc_margins OpsR (z0 :: z)) + a.
(** a positive margin means strictly inside *)
Definition stmt_margin_interior_nn : Prop :=
  forall z0 z, 0 < fst (nn_margins OpsR (z0 :: z)) -> int_nn (z0 :: z).
Definition stmt_margin_interior_soc : Prop :=
  forall z0 z, 0 < fst (soc_margins OpsR (z0 :: z)) -> int_soc (z0 :: z).
(** after _shift_to_cone_interior every NN / SOC block has margin >= target >= 1, whatever
    the input vector and whatever the value used for T::max_value() *)
Definition good_block (b : block (T:=R)) : Prop :=
  match fst b with KZero => True | _ => snd b <> [] end.
Definition stmt_shift_places_interior : Prop :=
  forall big primal (bs : list block), Forall good_block bs ->
    let m := comp_margins OpsR big bs in
    let target := shift_target OpsR (snd m) (comp_degree bs) in
    1 <= target /\
    Forall (fun b : block => match fst b with
                             | KZero => True
                             | _ => target <= fst (cone_margins OpsR big b)
                             end)
           (shift_to_cone_interior OpsR big primal bs).
