(** C15, finding F13 — statement only.  The binary64 reading of the model of
    [_shift_to_cone_interior] maps the finite vector (-1e17, 3, 4) of a second-order cone to
    (1, 3, 4), which is OUTSIDE the cone (‖(3,4)‖ = 5 > 1): the margin z0 − ‖z1‖ = −1e17 − 5 rounds
    to −1e17.  The real-number theorem [stmt_shift_places_interior] is unaffected. *)
From Coq Require Import List Floats.
Import ListNotations.
Require Import Clarabel.Base.Ops Clarabel.Cones.Vec Clarabel.Cones.NN Clarabel.Cones.SOC Clarabel.Cones.Step.

Definition stmt_shift_float_absorption_witness : Prop :=
  shift_to_cone_interior OpsF 0x1.fffffffffffffp+1023%float true
    [(KSOC, [(-0x1.6345785d8a000p+56)%float; 3%float; 4%float])]
  = [(KSOC, [1%float; 3%float; 4%float])].
