(** PSD cone — statements only: Jordan-algebra operations, Δs offset, combined shift (C13) in
    matrix form, for the real reading of the models of PSDOps.v; every n. *)
From Coq Require Import List Reals ZArith Arith.
Import ListNotations.
Require Import Clarabel.Base.Ops Clarabel.Cones.Vec Clarabel.Cones.SpecC15 Clarabel.Cones.SpecPSD
               Clarabel.Cones.Mat Clarabel.Cones.PSDIndex Clarabel.Cones.PSDOps Clarabel.Cones.SpecPSDScal.
Open Scope R_scope.

Definition smat (x : list R) : mat := svec_to_mat OpsR x.
(** X∘Y = (XY + YX)/2 *)
Definition jcirc (n : nat) (Y Z : mat) : mat := mscal (1 / 2) (madd (mmul n Y Z) (mmul n Z Y)).
(** the inverse of Λ∘· for diagonal Λ: entrywise division by (λ_i + λ_j)/2 *)
Definition linv (lam : vec) (Z : mat) : mat := fun i j => 2 * Z i j / (lam i + lam j).
Definition conjR (tr : bool) (n : nat) (Rx X : mat) : mat := opsd_conj OpsR tr n Rx X.

(** (a) the svec / mat round trip commutes with the operators *)
Definition stmt_psd_mul_Wx_mat : Prop :=
  forall tr n Rx x a b y,
    meq n (smat (opsd_mul_Wx OpsR tr n Rx x a b y))
          (madd (mscal a (conjR tr n Rx (smat x))) (mscal b (smat y))).
Definition stmt_psd_circ_mat : Prop :=
  forall n y z, meq n (smat (opsd_circ_op OpsR n y z)) (jcirc n (smat y) (smat z)).
Definition stmt_psd_lam_inv_circ_mat : Prop :=
  forall n lam z, meq n (smat (opsd_lam_inv_circ OpsR n lam z)) (linv lam (smat z)).
Definition stmt_psd_diag_vec_mat : Prop :=
  forall n d, meq n (smat (opsd_diag_vec OpsR n d)) (mdiag d).
(** affine_ds = λ∘λ *)
Definition stmt_psd_affine_ds : Prop :=
  forall n lam, opsd_affine_ds OpsR n lam
                = opsd_circ_op OpsR n (opsd_diag_vec OpsR n lam) (opsd_diag_vec OpsR n lam).
(** (b) λ_inv_circ_op inverts circ_op with Λ, λ > 0: in matrix form and on packed vectors *)
Definition stmt_psd_lam_inv_circ_inverse : Prop :=
  forall n lam, (forall i, (i < n)%nat -> 0 < lam i) ->
    (forall Z, meq n (jcirc n (mdiag lam) (linv lam Z)) Z) /\
    (forall Z, meq n (linv lam (jcirc n (mdiag lam) Z)) Z) /\
    (forall z, length z = (n * (n + 1) / 2)%nat ->
       opsd_circ_op OpsR n (opsd_diag_vec OpsR n lam) (opsd_lam_inv_circ OpsR n lam z) = z).
(** (c) combined_ds_shift = (W⁻ᵀΔs) ∘ (WΔz) − σμ I  with WΔz = RᵀΔZ R, W⁻ᵀΔs = R⁻¹ΔS R⁻ᵀ;
    Δs_from_Δz_offset = Wᵀ(λ \ ds) = R (Λ \ dS) Rᵀ *)
Definition stmt_psd_combined_ds_shift : Prop :=
  forall n Rm Ri dz ds sigmamu,
    meq n (smat (opsd_combined_ds_shift OpsR n Rm Ri dz ds sigmamu))
          (madd (jcirc n (mmul n Ri (mmul n (smat ds) (mT Ri))) (mmul n (mmul n (mT Rm) (smat dz)) Rm))
                (mscal (- sigmamu) mI)).
Definition stmt_psd_ds_offset : Prop :=
  forall n Rm lam ds out,
    meq n (smat (opsd_ds_offset OpsR n Rm lam ds out))
          (mmul n Rm (mmul n (linv lam (smat ds)) (mT Rm))).

(** ** get_Hs of the PSD cone: Hs = skron(A), A = R Rᵀ.  The packed block holds the skron entries
    (upper triangle, column by column), the entries are symmetric under exchange of the row and
    column pair, and every row applied to svec(X) gives the corresponding entry of svec(A X A):
    the block written into the KKT matrix is the operator X ↦ W X Wᵀ of mul_Hs. *)
Definition pair_at (n c : nat) : nat * nat := nth c (opsd_pairs n) (0, 0)%nat.
Definition stmt_psd_get_Hs_entries : Prop :=
  forall n (A : mat) r c, (r <= c)%nat -> (c < length (opsd_pairs n))%nat ->
    nth (c * (c + 1) / 2 + r) (opsd_get_Hs OpsR n A) 0
    = oskron_entry OpsR A (fst (pair_at n r)) (snd (pair_at n r)) (fst (pair_at n c)) (snd (pair_at n c)).
Definition stmt_psd_skron_symmetric : Prop :=
  forall (A : mat) i j k l, symmetric A ->
    oskron_entry OpsR A k l i j = oskron_entry OpsR A i j k l.
Definition stmt_psd_skron_operator : Prop :=
  forall n (A X : mat) i j, symmetric A -> symmetric X -> (i <= j)%nat -> (j < n)%nat ->
    rdot (oskron_row OpsR n A i j) (mat_to_svec OpsR n X)
    = nth (j * (j + 1) / 2 + i) (mat_to_svec OpsR n (mmul n A (mmul n X A))) 0.
(** W = R Rᵀ is symmetric, so the three statements apply to the Hs of update_scaling *)
Definition stmt_psd_RRt_symmetric : Prop :=
  forall n (Rm : mat), symmetric (mmul n Rm (mT Rm)).
