(** C15: backtracking search, composite step length, margins and the interior shift. *)
From Coq Require Import List Reals ZArith Lra Lia Bool Psatz.
Import ListNotations.
Require Import Clarabel.Base.Ops Clarabel.Cones.Vec Clarabel.Cones.NN Clarabel.Cones.SOC
               Clarabel.Cones.Step Clarabel.Cones.SpecC15 Clarabel.Cones.LemmasVec
               Clarabel.Cones.LemmasStepNN.
Open Scope R_scope.

(** ** backtracking *)
Lemma backtrack_spec_ok : stmt_backtrack_spec.
Proof.
  intros fuel; induction fuel as [|f IH]; intros inc a0 amin step r Hs H; cbn in H; [discriminate|].
  destruct (inc a0) eqn:E0.
  - inversion H; subst. split; [right; exact E0 | left; reflexivity].
  - destruct (Rltb (a0 * step) amin) eqn:E1.
    + inversion H; subst. split; [left; reflexivity|].
      right. exists a0. split; [exact E0|]. right. split; [reflexivity|]. apply Rltb_true; exact E1.
    + destruct (IH inc (a0 * step) amin step r Hs H) as [H1 H2]. split; [exact H1|].
      destruct H2 as [H2|H2]; [|right; exact H2].
      right. exists a0. split; [exact E0|]. left. exact H2.
Qed.

Lemma backtrack_le_max_ok : stmt_backtrack_le_max.
Proof.
  intros fuel; induction fuel as [|f IH]; intros inc a0 amin step r Ha Hs H; cbn in H; [discriminate|].
  destruct (inc a0).
  - inversion H; subst. lra.
  - destruct (Rltb (a0 * step) amin).
    + inversion H; subst. lra.
    + assert (0 <= a0 * step) by (apply Rmult_le_pos; lra).
      assert (a0 * step <= a0) by nra.
      destruct (IH inc (a0 * step) amin step r H0 Hs H). lra.
Qed.

Lemma backtrack_fuel_enough (inc : R -> bool) amin step : 0 < step <= 1 -> 0 < amin ->
  forall n a0, 0 <= a0 -> a0 * step ^ n < amin ->
  exists r, backtrack OpsR (S n) inc a0 amin step = Some r.
Proof.
  intros Hs Hm n; induction n as [|n IH]; intros a0 Ha Hlt; cbn [backtrack].
  - destruct (inc a0); [eexists; reflexivity|].
    cbn in Hlt. cbn [mul OpsR ltb].
    assert (a0 * step < amin) by nra.
    rewrite (proj2 (Rltb_true _ _) H). eexists; reflexivity.
  - destruct (inc a0); [eexists; reflexivity|].
    cbn [mul OpsR ltb].
    destruct (Rltb (a0 * step) amin); [eexists; reflexivity|].
    apply IH.
    + apply Rmult_le_pos; lra.
    + cbn in Hlt. lra.
Qed.

Lemma backtrack_terminates_ok : stmt_backtrack_terminates.
Proof.
  intros inc a0 amin step Hs Hm Ha.
  destruct (Req_dec a0 0) as [E|E].
  - exists 1%nat. apply (backtrack_fuel_enough inc amin step ltac:(lra) Hm 0%nat a0 Ha).
    subst. cbn. lra.
  - assert (Hpos : 0 < a0) by lra.
    destruct (pow_lt_1_zero step ltac:(rewrite Rabs_right; lra) (amin / a0)
                ltac:(apply Rdiv_lt_0_compat; lra)) as [N HN].
    exists (S N). apply (backtrack_fuel_enough inc amin step ltac:(lra) Hm N a0 Ha).
    specialize (HN N (Nat.le_refl N)).
    rewrite Rabs_right in HN by (apply Rle_ge, pow_le; lra).
    apply Rmult_lt_compat_l with (r := a0) in HN; [|exact Hpos].
    replace (a0 * (amin / a0)) with amin in HN by (field; lra). exact HN.
Qed.

(** ** composite *)
Section Comp.
Local Notation cv := (cone_view (T:=R)).
Definition cstep (symcond : bool) (a : R) (c : cv) : R :=
  if Bool.eqb (fst c) symcond then a
  else Rmin a (Rmin (fst (snd c a)) (snd (snd c a))).
Lemma comp_inner_fold cones a symcond :
  comp_inner OpsR cones a symcond = fold_left (cstep symcond) cones a.
Proof.
  unfold comp_inner. revert a; induction cones as [|c cs IH]; intros a; [reflexivity|].
  cbn [fold_left]. rewrite <- IH. f_equal. unfold cstep.
  destruct (Bool.eqb (fst c) symcond); [reflexivity|]. rewrite !omin_R. reflexivity.
Qed.
Lemma cstep_le symcond a c : cstep symcond a c <= a.
Proof. unfold cstep. destruct (Bool.eqb _ _); [lra | apply Rmin_l]. Qed.
Lemma fold_cstep_le symcond cones : forall a, fold_left (cstep symcond) cones a <= a.
Proof.
  induction cones as [|c cs IH]; intros a; cbn [fold_left]; [lra|].
  eapply Rle_trans; [apply IH | apply cstep_le].
Qed.
(** every cone of the visited class bounded the result with the α it was handed *)
Lemma fold_cstep_visits symcond cones : forall a0,
  let r := fold_left (cstep symcond) cones a0 in
  Forall (fun c : cv => fst c = negb symcond ->
             exists a, r <= a <= a0 /\ r <= fst (snd c a) /\ r <= snd (snd c a)) cones.
Proof.
  induction cones as [|c cs IH]; intros a0; cbn zeta; cbn [fold_left]; constructor.
  - intros Hc. exists a0.
    pose proof (fold_cstep_le symcond cs (cstep symcond a0 c)) as H1.
    pose proof (cstep_le symcond a0 c) as H2.
    unfold cstep in H1. assert (E : Bool.eqb (fst c) symcond = false).
    { rewrite Hc. destruct symcond; reflexivity. }
    unfold cstep in H2 |- *. rewrite E in *.
    pose proof (Rmin_r a0 (Rmin (fst (snd c a0)) (snd (snd c a0)))) as M1.
    pose proof (Rmin_l (fst (snd c a0)) (snd (snd c a0))) as M2.
    pose proof (Rmin_r (fst (snd c a0)) (snd (snd c a0))) as M3.
    repeat split; lra.
  - specialize (IH (cstep symcond a0 c)). cbn zeta in IH.
    eapply Forall_impl; [|exact IH]. intros c' Hc' Hs. destruct (Hc' Hs) as [a [Ha Hb]].
    exists a. split; [|exact Hb]. pose proof (cstep_le symcond a0 c). lra.
Qed.
(** the fold returns its start value or the answer of a visited cone *)
Lemma fold_cstep_tight symcond cones : forall a0,
  let r := fold_left (cstep symcond) cones a0 in
  r = a0 \/ Exists (fun c : cv => exists a, r = fst (snd c a) \/ r = snd (snd c a)) cones.
Proof.
  induction cones as [|c cs IH]; intros a0; cbn zeta; cbn [fold_left]; [left; reflexivity|].
  destruct (IH (cstep symcond a0 c)) as [E|E]; cbn zeta in E.
  - rewrite E. unfold cstep. destruct (Bool.eqb (fst c) symcond); [left; reflexivity|].
    destruct (Rle_dec a0 (Rmin (fst (snd c a0)) (snd (snd c a0)))) as [H|H].
    + left. apply Rmin_left; exact H.
    + right. apply Exists_cons_hd. exists a0. rewrite Rmin_right by lra.
      destruct (Rle_dec (fst (snd c a0)) (snd (snd c a0))) as [H2|H2].
      * left. apply Rmin_left; exact H2.
      * right. apply Rmin_right; lra.
  - right. apply Exists_cons_tl. exact E.
Qed.

Lemma composite_step_spec_ok : stmt_composite_step_spec.
Proof.
  intros cones msf amax. cbn zeta. unfold comp_step. rewrite !comp_inner_fold.
  set (allsym := forallb (fun c : cv => fst c) cones).
  set (a1 := fold_left (cstep true) cones amax).
  set (a2 := if allsym then a1 else omin OpsR msf a1).
  set (r := fold_left (cstep false) cones a2).
  assert (H1 : a1 <= amax) by apply fold_cstep_le.
  assert (H2 : a2 <= a1).
  { unfold a2. destruct allsym; [lra|]. rewrite omin_R. apply Rmin_r. }
  assert (H3 : r <= a2) by apply fold_cstep_le.
  split; [lra|]. split.
  - intros Hns. unfold a2 in H3. fold allsym in Hns. rewrite Hns in H3. rewrite omin_R in H3.
    pose proof (Rmin_l msf a1). lra.
  - pose proof (fold_cstep_visits true cones amax) as V1.
    pose proof (fold_cstep_visits false cones a2) as V2. cbn zeta in V1, V2.
    fold a1 in V1. fold r in V2.
    rewrite Forall_forall in *. intros c Hc.
    destruct (fst c) eqn:Ec.
    + destruct (V2 c Hc Ec) as [a [Ha Hb]]. exists a. split; [lra | exact Hb].
    + destruct (V1 c Hc Ec) as [a [Ha [Hb1 Hb2]]]. exists a. repeat split; lra.
Qed.

Lemma composite_step_tight_ok : stmt_composite_step_tight.
Proof.
  intros cones msf amax. cbn zeta. unfold comp_step. rewrite !comp_inner_fold.
  set (allsym := forallb (fun c : cv => fst c) cones).
  set (a1 := fold_left (cstep true) cones amax).
  set (a2 := if allsym then a1 else omin OpsR msf a1).
  set (r := fold_left (cstep false) cones a2).
  destruct (fold_cstep_tight false cones a2) as [E|E]; cbn zeta in E; fold r in E;
    [|right; right; exact E].
  rewrite E. unfold a2. 
  assert (Ha1 : a1 = amax \/ Exists (fun c : cv => exists a, a1 = fst (snd c a) \/ a1 = snd (snd c a)) cones)
    by apply fold_cstep_tight.
  destruct allsym.
  - destruct Ha1 as [Ha1|Ha1]; [left; exact Ha1 | right; right; exact Ha1].
  - rewrite omin_R. destruct (Rle_dec msf a1) as [H|H].
    + right; left. apply Rmin_left; exact H.
    + rewrite Rmin_right by lra.
      destruct Ha1 as [Ha1|Ha1]; [left; exact Ha1 | right; right; exact Ha1].
Qed.
End Comp.

(** ** margins and shifts *)
Lemma Rmin_plus a b c : Rmin (a + c) (b + c) = Rmin a b + c.
Proof. unfold Rmin. destruct (Rle_dec (a + c) (b + c)), (Rle_dec a b); lra. Qed.

Lemma fold_min_translate (z : list R) a : forall m,
  fold_left (fun r s => omin OpsR r s) (map (fun v => add OpsR v a) z) (m + a)
  = fold_left (fun r s => omin OpsR r s) z m + a.
Proof.
  induction z as [|zi z IH]; intros m; cbn [fold_left map]; [reflexivity|].
  rewrite !omin_R. cbn [add OpsR]. rewrite Rmin_plus. apply IH.
Qed.
Lemma margin_shift_nn_ok : stmt_margin_shift_nn.
Proof.
  intros z0 z a. unfold nn_scaled_unit_shift, vtranslate. cbn [map nn_margins fst vmin1].
  unfold vmin1. apply fold_min_translate.
Qed.
Lemma margin_shift_soc_ok : stmt_margin_shift_soc.
Proof.
  intros z0 z a. unfold soc_scaled_unit_shift, soc_margins. cbn [fst hd0 tl sub add OpsR]. lra.
Qed.

Lemma fold_min_le (z : list R) : forall m,
  let r := fold_left (fun r s => omin OpsR r s) z m in
  r <= m /\ Forall (fun v => r <= v) z.
Proof.
  induction z as [|zi z IH]; intros m; cbn zeta; cbn [fold_left]; [split; [lra|constructor]|].
  destruct (IH (omin OpsR m zi)) as [H1 H2]. cbn zeta in H1, H2. rewrite omin_R in *.
  pose proof (Rmin_l m zi). pose proof (Rmin_r m zi).
  split; [lra|]. constructor; [lra | exact H2].
Qed.
Lemma margin_interior_nn_ok : stmt_margin_interior_nn.
Proof.
  intros z0 z H. cbn [nn_margins fst] in H. unfold vmin1 in H.
  destruct (fold_min_le z z0) as [H1 H2]. cbn zeta in H1, H2.
  constructor; [lra|]. eapply Forall_impl; [|exact H2]. intros v Hv. cbn in Hv. lra.
Qed.
Lemma margin_interior_soc_ok : stmt_margin_interior_soc.
Proof.
  intros z0 z H. unfold soc_margins in H. cbn [fst hd0 tl sub OpsR] in H. rewrite vnorm_R in H.
  cbn [int_soc].
  pose proof (sqrt_pos (rsumsq z)) as Hp.
  pose proof (sqrt_sqrt _ (rsumsq_nonneg z)) as Hs.
  set (n := R_sqrt.sqrt (rsumsq z)) in *. split; [lra|]. nra.
Qed.

Section Shift.
Local Notation blk := (block (T:=R)).
Variable big : R.

Lemma cone_shift_kind primal a (b : blk) : fst (cone_shift OpsR primal a b) = fst b.
Proof. unfold cone_shift. destruct (fst b); reflexivity. Qed.

Lemma block_margin_shift primal a (b : blk) : good_block b -> fst b <> KZero ->
  fst (cone_margins OpsR big (cone_shift OpsR primal a b)) = fst (cone_margins OpsR big b) + a
  /\ good_block (cone_shift OpsR primal a b).
Proof.
  destruct b as [k z]. unfold good_block, cone_shift, cone_margins. cbn [fst snd].
  intros Hg Hk. destruct k; [contradiction | |]; destruct z as [|z0 z]; try contradiction; cbn [fst snd].
  - split; [apply margin_shift_nn_ok | discriminate].
  - split; [apply margin_shift_soc_ok | discriminate].
Qed.

Lemma comp_margins_fold_le (bs : list blk) : forall init,
  let r := fold_left (fun ab b => let m := cone_margins OpsR big b in
                                  (omin OpsR (fst ab) (fst m), add OpsR (snd ab) (snd m))) bs init in
  fst r <= fst init /\ Forall (fun b => fst r <= fst (cone_margins OpsR big b)) bs.
Proof.
  induction bs as [|b bs IH]; intros init; lazy zeta; cbn [fold_left]; [split; [lra|constructor]|].
  specialize (IH (omin OpsR (fst init) (fst (cone_margins OpsR big b)),
                  add OpsR (snd init) (snd (cone_margins OpsR big b)))).
  lazy zeta in IH. destruct IH as [H1 H2]. cbn [fst] in H1.
  set (x := omin OpsR (fst init) (fst (cone_margins OpsR big b))) in *.
  assert (Hx1 : x <= fst init) by (unfold x; rewrite omin_R; apply Rmin_l).
  assert (Hx2 : x <= fst (cone_margins OpsR big b)) by (unfold x; rewrite omin_R; apply Rmin_r).
  split; [lra|]. constructor; [lra | exact H2].
Qed.

Lemma shift_places_interior_ok' : forall primal (bs : list blk), Forall good_block bs ->
    let m := comp_margins OpsR big bs in
    let target := shift_target OpsR (snd m) (comp_degree bs) in
    1 <= target /\
    Forall (fun b : blk => match fst b with
                           | KZero => True
                           | _ => target <= fst (cone_margins OpsR big b)
                           end)
           (shift_to_cone_interior OpsR big primal bs).
Proof.
  intros primal bs Hg m target.
  assert (Ht : 1 <= target).
  { unfold target, shift_target. rewrite omax_R. apply Rmax_l. }
  split; [exact Ht|].
  destruct (comp_margins_fold_le bs (big, zero OpsR)) as [_ Hle]. cbn zeta in Hle.
  change (fold_left _ bs (big, zero OpsR)) with (comp_margins OpsR big bs) in Hle. fold m in Hle.
  unfold shift_to_cone_interior. fold m. fold target.
  assert (Hall : forall a, target <= fst m + a ->
     Forall (fun b : blk => match fst b with KZero => True | _ => target <= fst (cone_margins OpsR big b) end)
            (comp_shift OpsR primal a bs)).
  { intros a Ha. unfold comp_shift. rewrite Forall_map. rewrite Forall_forall in *.
    intros b Hb. rewrite cone_shift_kind. destruct (fst b) eqn:Ek; [exact I| |].
    - destruct (block_margin_shift primal a b (Hg b Hb) ltac:(rewrite Ek; discriminate)) as [E _].
      rewrite E. specialize (Hle b Hb). lra.
    - destruct (block_margin_shift primal a b (Hg b Hb) ltac:(rewrite Ek; discriminate)) as [E _].
      rewrite E. specialize (Hle b Hb). lra. }
  destruct (leb OpsR (fst m) (zero OpsR)) eqn:E1.
  - (* two-stage shift *)
    unfold comp_shift. rewrite map_map. rewrite Forall_map. rewrite Forall_forall in *.
    intros b Hb. rewrite !cone_shift_kind. destruct (fst b) eqn:Ek; [exact I| |].
    + destruct (block_margin_shift primal (neg OpsR (fst m)) b (Hg b Hb) ltac:(rewrite Ek; discriminate)) as [Ea Hga].
      destruct (block_margin_shift primal target (cone_shift OpsR primal (neg OpsR (fst m)) b) Hga
                  ltac:(rewrite cone_shift_kind, Ek; discriminate)) as [Eb _].
      rewrite Eb, Ea. specialize (Hle b Hb). cbn [neg OpsR]. lra.
    + destruct (block_margin_shift primal (neg OpsR (fst m)) b (Hg b Hb) ltac:(rewrite Ek; discriminate)) as [Ea Hga].
      destruct (block_margin_shift primal target (cone_shift OpsR primal (neg OpsR (fst m)) b) Hga
                  ltac:(rewrite cone_shift_kind, Ek; discriminate)) as [Eb _].
      rewrite Eb, Ea. specialize (Hle b Hb). cbn [neg OpsR]. lra.
  - destruct (ltb OpsR (fst m) target) eqn:E2.
    + apply Hall. cbn [sub OpsR]. lra.
    + apply Hall. cbn [ltb OpsR] in E2. apply Rltb_false in E2. cbn [zero OpsR]. lra.
Qed.
End Shift.

Lemma shift_places_interior_ok : stmt_shift_places_interior.
Proof. intros big primal bs Hg. apply shift_places_interior_ok'. exact Hg. Qed.
