(** PSD cone, C13: the symmetric Kronecker product block of get_Hs is the operator X ↦ A X A. *)
From Coq Require Import List Reals ZArith Lra Lia Arith Setoid Morphisms.
Import ListNotations.
Require Import Clarabel.Base.Ops Clarabel.Cones.Vec Clarabel.Cones.SpecC15 Clarabel.Cones.SpecPSD
               Clarabel.Cones.Mat Clarabel.Cones.LemmasMat Clarabel.Cones.PSDIndex Clarabel.Cones.PSDOps
               Clarabel.Cones.LemmasVec Clarabel.Cones.LemmasScalSOC2 Clarabel.Cones.LemmasPSDIndex
               Clarabel.Cones.SpecPSDScal Clarabel.Cones.LemmasPSDOps Clarabel.Cones.SpecPSDJordan
               Clarabel.Cones.LemmasPSDJordan.
Open Scope R_scope.
Local Notation sqrt := R_sqrt.sqrt.

Lemma s2_isq : sqrt 2 * isqrt2 OpsR = 1.
Proof.
  unfold isqrt2. cbn [Ops.sqrt div one OpsR]. rewrite two_R. rewrite <- sqrt_mult by lra.
  replace (2 * (1 / 2)) with 1 by field. apply sqrt_1.
Qed.
Lemma s2_sq : sqrt 2 * sqrt 2 = 2.
Proof. apply sqrt_sqrt. lra. Qed.

Lemma psd_RRt_symmetric_ok : stmt_psd_RRt_symmetric.
Proof. intros n Rm r c. unfold mmul, mT. apply sumn_ext. intros; ring. Qed.

Lemma psd_skron_symmetric_ok : stmt_psd_skron_symmetric.
Proof.
  intros A i j k l HA. unfold oskron_entry. cbn [add mul OpsR Ops.sqrt].
  destruct (Nat.eqb i j) eqn:E1; destruct (Nat.eqb k l) eqn:E2;
    try (apply Nat.eqb_eq in E1; subst j); try (apply Nat.eqb_eq in E2; subst l).
  - rewrite (HA k i). ring.
  - rewrite (HA k i), (HA l i). ring.
  - rewrite (HA k i), (HA k j). ring.
  - rewrite (HA k i), (HA l j), (HA k j), (HA l i). ring.
Qed.

(** the packed block *)
Lemma get_Hs_block_length n (A : mat) c :
  length (map (fun r : nat => oskron_entry OpsR A (fst (pair_at n r)) (snd (pair_at n r))
                                         (fst (pair_at n c)) (snd (pair_at n c))) (seq 0 (S c))) = S c.
Proof. rewrite map_length, seq_length. reflexivity. Qed.
Lemma psd_get_Hs_entries_ok : stmt_psd_get_Hs_entries.
Proof.
  intros n A r c Hr Hc. unfold opsd_get_Hs. fold (tri c).
  rewrite (blocks_nth (fun c0 => map (fun r0 : nat => oskron_entry OpsR A (fst (pair_at n r0)) (snd (pair_at n r0))
                                                   (fst (pair_at n c0)) (snd (pair_at n c0))) (seq 0 (S c0)))
                      (get_Hs_block_length n A)) by assumption.
  rewrite nth_map_seq by lia. reflexivity.
Qed.

(** a row of the operator is the packed form of a symmetric matrix *)
Definition rowmat (A : mat) (i j : nat) : mat :=
  fun k l => (if Nat.eqb i j then 1 else sqrt 2) * ((A i k * A j l + A i l * A j k) / 2).
Lemma rowmat_sym A i j : symmetric (rowmat A i j).
Proof. intros k l. unfold rowmat. f_equal. field. Qed.

Lemma skron_row_is_svec n A i j : oskron_row OpsR n A i j = mat_to_svec OpsR n (rowmat A i j).
Proof.
  unfold oskron_row, mat_to_svec. induction n as [|n IH]; [reflexivity|].
  rewrite seq_S, !flat_map_app. cbn [flat_map Nat.add]. rewrite !app_nil_r, IH. f_equal.
  unfold svec_col. rewrite seq_S, map_app. cbn [map Nat.add]. f_equal.
  - apply map_ext_in. intros k Hk. apply in_seq in Hk. unfold oskron_entry, rowmat.
    rewrite (proj2 (Nat.eqb_neq k n)) by lia. cbn [add mul OpsR Ops.sqrt]. rewrite two_R.
    pose proof s2_isq as Q. pose proof s2_sq as Q2. set (q := isqrt2 OpsR) in *. set (s := sqrt 2) in *.
    destruct (Nat.eqb i j) eqn:E.
    + apply Nat.eqb_eq in E. subst j.
      replace ((1 * ((A i k * A i n + A i n * A i k) / 2) + 1 * ((A i n * A i k + A i k * A i n) / 2)) * q)
        with (2 * q * (A i n * A i k)) by field.
      replace (2 * q) with s by (rewrite <- Q2; rewrite <- (Rmult_1_r s) at 1; rewrite <- Q; ring). ring.
    + replace ((s * ((A i k * A j n + A i n * A j k) / 2) + s * ((A i n * A j k + A i k * A j n) / 2)) * q)
        with ((s * q) * (A i k * A j n + A i n * A j k)) by field.
      rewrite Q. ring.
  - f_equal. unfold oskron_entry, rowmat. rewrite Nat.eqb_refl. cbn [add mul OpsR Ops.sqrt]. rewrite two_R.
    destruct (Nat.eqb i j) eqn:E; [apply Nat.eqb_eq in E; subst j; field | field].
Qed.

Lemma psd_skron_operator_ok : stmt_psd_skron_operator.
Proof.
  intros n A X i j HA HX Hij Hj.
  rewrite skron_row_is_svec. rewrite (svec_isometry n _ X (rowmat_sym A i j) HX).
  fold (tri j). rewrite svec_nth by assumption.
  set (M := mmul n A (mmul n X A)).
  (* tr(rowmat X) = c (A X A)_ij *)
  assert (E : trprod n (rowmat A i j) X = (if Nat.eqb i j then 1 else sqrt 2) * M i j).
  { unfold trprod, rowmat. set (c := if Nat.eqb i j then 1 else sqrt 2).
    rewrite (sumn_ext _ (fun k => c * (sumn (fun l => A i k * X k l * A j l) n / 2 + sumn (fun l => A i l * X l k * A j k) n / 2))).
    2:{ intros k _. unfold Rdiv. rewrite <- !sumn_scal_r, <- sumn_plus, <- sumn_scal. apply sumn_ext.
        intros l _. rewrite (HX l k). field. }
    rewrite sumn_scal. f_equal. rewrite sumn_plus.
    assert (E1 : sumn (fun k => sumn (fun l => A i k * X k l * A j l) n) n = M i j).
    { unfold M, mmul. apply sumn_ext. intros k _. rewrite <- sumn_scal. apply sumn_ext. intros l _.
      rewrite (HA l j). ring. }
    assert (E2 : sumn (fun k => sumn (fun l => A i l * X l k * A j k) n) n = M i j).
    { rewrite sumn_swap. exact E1. }
    unfold Rdiv. rewrite !sumn_scal_r, E1, E2. field. }
  rewrite E.
  assert (HM : M j i = M i j).
  { unfold M. pose proof (conjT_sym n A X HX j i) as S. unfold mT in S.
    assert (E3 : forall a b, mmul n A (mmul n X A) a b = mmul n A (mmul n X (fun p q => A q p)) a b).
    { intros a b. unfold mmul. apply sumn_ext. intros k _. f_equal. apply sumn_ext. intros l _. rewrite (HA l b). reflexivity. }
    rewrite !E3. exact S. }
  destruct (Nat.eqb i j) eqn:Eij.
  - apply Nat.eqb_eq in Eij. subst j. ring.
  - rewrite HM. pose proof s2_isq as Q. pose proof s2_sq as Q2. cbn [add mul OpsR].
    set (q := isqrt2 OpsR) in *. set (s := sqrt 2) in *.
    replace ((M i j + M i j) * q) with ((2 * q) * M i j) by ring.
    replace (2 * q) with s by (rewrite <- Q2; rewrite <- (Rmult_1_r s) at 1; rewrite <- Q; ring). reflexivity.
Qed.
