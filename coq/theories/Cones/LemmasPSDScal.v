(** PSD cone, C13: the algebra of update_scaling from the factorisation contracts. *)
From Coq Require Import List Reals ZArith Lra Lia Arith Setoid Morphisms.
Require Import Clarabel.Base.Ops Clarabel.Cones.SpecPSD Clarabel.Cones.Mat Clarabel.Cones.LemmasMat
               Clarabel.Cones.SpecPSDScal.
Open Scope R_scope.

Ltac rassoc := repeat rewrite mmul_assoc.
Ltac pushT := repeat (rewrite mT_mmul || rewrite mT_mT || rewrite mT_diag || rewrite mT_I).

Lemma mmul_cancel n A B X : meq n (mmul n A B) mI -> meq n (mmul n A (mmul n B X)) X.
Proof. intros H. rewrite <- mmul_assoc, H. apply mmul_I_l. Qed.

Lemma isq_lam_isq n lam : (forall i, (i < n)%nat -> 0 < lam i) ->
  meq n (mmul n (mdiag (isq lam)) (mmul n (mdiag lam) (mdiag (isq lam)))) mI.
Proof.
  intros Hl. rewrite !mdiag_mul. apply mdiag_one. intros i Hi. unfold isq.
  pose proof (Hl i Hi) as Hp. pose proof (sqrt_sqrt (lam i) (Rlt_le _ _ Hp)) as Q.
  assert (Hs : 0 < R_sqrt.sqrt (lam i)) by (apply sqrt_lt_R0; exact Hp).
  set (q := R_sqrt.sqrt (lam i)) in *. rewrite <- Q. field. lra.
Qed.
Lemma isq_lam2_isq n lam : (forall i, (i < n)%nat -> 0 < lam i) ->
  meq n (mmul n (mdiag (isq lam)) (mmul n (mdiag lam) (mmul n (mdiag lam) (mdiag (isq lam))))) (mdiag lam).
Proof.
  intros Hl. rewrite !mdiag_mul. apply mdiag_ext. intros i Hi. unfold isq.
  pose proof (Hl i Hi) as Hp. pose proof (sqrt_sqrt (lam i) (Rlt_le _ _ Hp)) as Q.
  assert (Hs : 0 < R_sqrt.sqrt (lam i)) by (apply sqrt_lt_R0; exact Hp).
  set (q := R_sqrt.sqrt (lam i)) in *. rewrite <- Q. field. lra.
Qed.

Lemma mmul_cancel3 n A B C X : meq n (mmul n A (mmul n B C)) mI ->
  meq n (mmul n A (mmul n B (mmul n C X))) X.
Proof. intros H. rewrite <- (mmul_assoc n B C X), <- (mmul_assoc n A (mmul n B C) X), H. apply mmul_I_l. Qed.
Lemma isq_isq_lam n lam : (forall i, (i < n)%nat -> 0 < lam i) ->
  meq n (mmul n (mdiag (isq lam)) (mmul n (mdiag (isq lam)) (mdiag lam))) mI.
Proof.
  intros Hl. rewrite !mdiag_mul. apply mdiag_one. intros i Hi. unfold isq.
  pose proof (Hl i Hi) as Hp. pose proof (sqrt_sqrt (lam i) (Rlt_le _ _ Hp)) as Q.
  assert (Hs : 0 < R_sqrt.sqrt (lam i)) by (apply sqrt_lt_R0; exact Hp).
  set (q := R_sqrt.sqrt (lam i)) in *. rewrite <- Q. field. lra.
Qed.

Section NT.
Variables (n : nat) (S Z L1 L2 U V : mat) (lam : vec).
Hypothesis F : psd_factors n S Z L1 L2 U V lam.
Let D := mdiag (isq lam).
Let Lm := mdiag lam.
Let R := psd_R n L1 V lam.
Let Ri := psd_Rinv n L2 U lam.

Lemma svd_T : meq n (mmul n (mT L1) L2) (mmul n V (mmul n Lm (mT U))).
Proof.
  transitivity (mT (mmul n (mT L2) L1)).
  - rewrite mT_mmul, mT_mT. reflexivity.
  - rewrite (f_svd _ _ _ _ _ _ _ _ F). pushT. rassoc. reflexivity.
Qed.
Lemma R_T : meq n (mT R) (mmul n D (mmul n (mT V) (mT L1))).
Proof. unfold R, psd_R. pushT. reflexivity. Qed.
Lemma Ri_T : meq n (mT Ri) (mmul n L2 (mmul n U D)).
Proof. unfold Ri, psd_Rinv. pushT. rassoc. reflexivity. Qed.

Lemma psd_Rinv_R_sec : meq n (mmul n Ri R) mI.
Proof.
  unfold Ri, R, psd_Rinv, psd_R. rassoc.
  rewrite <- (mmul_assoc n (mT L2) L1). rewrite (f_svd _ _ _ _ _ _ _ _ F). rassoc.
  rewrite (mmul_cancel n (mT U) U _ (f_UtU _ _ _ _ _ _ _ _ F)).
  rewrite (mmul_cancel n (mT V) V _ (f_VtV _ _ _ _ _ _ _ _ F)).
  apply isq_lam_isq. exact (f_lam _ _ _ _ _ _ _ _ F).
Qed.

Lemma psd_RtZR_sec : meq n (mmul n (mT R) (mmul n Z R)) Lm.
Proof.
  rewrite R_T. rewrite (f_chol2 _ _ _ _ _ _ _ _ F). unfold R, psd_R. rassoc.
  rewrite <- (mmul_assoc n (mT L2) L1). rewrite (f_svd _ _ _ _ _ _ _ _ F).
  rewrite <- (mmul_assoc n (mT L1) L2). rewrite svd_T. rassoc.
  rewrite (mmul_cancel n (mT V) V _ (f_VtV _ _ _ _ _ _ _ _ F)).
  rewrite (mmul_cancel n (mT U) U _ (f_UtU _ _ _ _ _ _ _ _ F)).
  rewrite (mmul_cancel n (mT V) V _ (f_VtV _ _ _ _ _ _ _ _ F)).
  apply isq_lam2_isq. exact (f_lam _ _ _ _ _ _ _ _ F).
Qed.

Lemma psd_RinvSRinvt_sec : meq n (mmul n Ri (mmul n S (mT Ri))) Lm.
Proof.
  rewrite Ri_T. rewrite (f_chol1 _ _ _ _ _ _ _ _ F). unfold Ri, psd_Rinv. rassoc.
  rewrite <- (mmul_assoc n (mT L2) L1). rewrite (f_svd _ _ _ _ _ _ _ _ F).
  rewrite <- (mmul_assoc n (mT L1) L2). rewrite svd_T. rassoc.
  rewrite (mmul_cancel n (mT U) U _ (f_UtU _ _ _ _ _ _ _ _ F)).
  rewrite (mmul_cancel n (mT V) V _ (f_VtV _ _ _ _ _ _ _ _ F)).
  rewrite (mmul_cancel n (mT U) U _ (f_UtU _ _ _ _ _ _ _ _ F)).
  apply isq_lam2_isq. exact (f_lam _ _ _ _ _ _ _ _ F).
Qed.

(** W Z W = R (Rᵀ Z R) Rᵀ = R Λ Rᵀ = L1 V (DΛD) Vᵀ L1ᵀ = L1 L1ᵀ = S *)
Lemma psd_WZW_sec : meq n (mmul n (mmul n R (mT R)) (mmul n Z (mmul n R (mT R)))) S.
Proof.
  rassoc. rewrite <- (mmul_assoc n Z R), <- (mmul_assoc n (mT R) (mmul n Z R)).
  rewrite psd_RtZR_sec. rewrite R_T. unfold R, psd_R. rassoc. unfold D, Lm.
  rewrite (mmul_cancel3 n _ _ _ _ (isq_lam_isq n lam (f_lam _ _ _ _ _ _ _ _ F))).
  rewrite (mmul_cancel n V (mT V) _ (f_VVt _ _ _ _ _ _ _ _ F)).
  symmetry. exact (f_chol1 _ _ _ _ _ _ _ _ F).
Qed.

Lemma psd_R_Rinv_sec L1i : meq n (mmul n L1 L1i) mI -> meq n (mmul n R Ri) mI.
Proof.
  intros HL.
  set (N := mmul n V (mmul n D (mmul n D (mmul n (mT U) (mT L2))))).
  assert (HN : meq n (mmul n N L1) mI).
  { unfold N. rassoc. rewrite (f_svd _ _ _ _ _ _ _ _ F). rassoc. unfold D.
    rewrite (mmul_cancel n (mT U) U _ (f_UtU _ _ _ _ _ _ _ _ F)).
    rewrite (mmul_cancel3 n _ _ _ _ (isq_isq_lam n lam (f_lam _ _ _ _ _ _ _ _ F))).
    exact (f_VVt _ _ _ _ _ _ _ _ F). }
  assert (E : meq n (mmul n R Ri) (mmul n L1 N)).
  { unfold R, Ri, psd_R, psd_Rinv, N. rassoc. reflexivity. }
  rewrite E.
  transitivity (mmul n (mmul n L1 N) (mmul n L1 L1i)).
  - rewrite HL. rewrite mmul_I_r. reflexivity.
  - rassoc. rewrite (mmul_cancel n N L1 _ HN). exact HL.
Qed.
End NT.

Lemma psd_Rinv_R_ok : stmt_psd_Rinv_R.
Proof. intros n S Z L1 L2 U V lam F. apply (psd_Rinv_R_sec n S Z L1 L2 U V lam F). Qed.
Lemma psd_R_Rinv_ok : stmt_psd_R_Rinv.
Proof. intros n S Z L1 L2 U V lam L1i F H. apply (psd_R_Rinv_sec n S Z L1 L2 U V lam F L1i H). Qed.
Lemma psd_RtZR_ok : stmt_psd_RtZR.
Proof. intros n S Z L1 L2 U V lam F. apply (psd_RtZR_sec n S Z L1 L2 U V lam F). Qed.
Lemma psd_RinvSRinvt_ok : stmt_psd_RinvSRinvt.
Proof. intros n S Z L1 L2 U V lam F. apply (psd_RinvSRinvt_sec n S Z L1 L2 U V lam F). Qed.
Lemma psd_WZW_ok : stmt_psd_WZW.
Proof. intros n S Z L1 L2 U V lam F. apply (psd_WZW_sec n S Z L1 L2 U V lam F). Qed.
