(** A lower triangular matrix with non-zero diagonal has a right inverse (induction on n). *)
From Coq Require Import List Reals ZArith Lra Lia Arith Setoid Morphisms.
Require Import Clarabel.Base.Ops Clarabel.Cones.SpecPSD Clarabel.Cones.Mat Clarabel.Cones.LemmasMat
               Clarabel.Cones.SpecPSDScal Clarabel.Cones.LemmasPSDScal.
Open Scope R_scope.

Lemma lower_tri_right_inverse_ok : stmt_lower_tri_right_inverse.
Proof.
  intros n; induction n as [|n IH]; intros L HL HD.
  - exists mI. intros i j Hi. lia.
  - assert (HLn : lower_tri n L) by (intros i j Hij Hj; apply HL; lia).
    assert (HDn : diag_nz n L) by (intros i Hi; apply HD; lia).
    destruct (IH L HLn HDn) as [Li HLi].
    set (d := L n n). assert (Hd : d <> 0) by (apply HD; lia).
    set (X := fun i j : nat =>
                if Nat.ltb i n then (if Nat.ltb j n then Li i j else 0)
                else if Nat.eqb i n then
                       (if Nat.ltb j n then - (/ d) * sumn (fun k => L n k * Li k j) n
                        else if Nat.eqb j n then / d else 0)
                     else 0).
    exists X. intros i j Hi Hj. unfold mmul. cbn [sumn].
    assert (Xnn : X n n = / d).
    { unfold X. rewrite Nat.ltb_irrefl, Nat.eqb_refl. reflexivity. }
    assert (Xkn : forall k, (k < n)%nat -> X k n = 0).
    { intros k Hk. unfold X. rewrite (proj2 (Nat.ltb_lt k n) Hk), Nat.ltb_irrefl. reflexivity. }
    assert (Xkj : forall k j', (k < n)%nat -> (j' < n)%nat -> X k j' = Li k j').
    { intros k j' Hk Hj'. unfold X. rewrite (proj2 (Nat.ltb_lt k n) Hk), (proj2 (Nat.ltb_lt j' n) Hj'). reflexivity. }
    assert (Xnj : forall j', (j' < n)%nat -> X n j' = - (/ d) * sumn (fun k => L n k * Li k j') n).
    { intros j' Hj'. unfold X. rewrite Nat.ltb_irrefl, Nat.eqb_refl, (proj2 (Nat.ltb_lt j' n) Hj'). reflexivity. }
    destruct (Nat.eq_dec i n) as [Ei|Ei]; destruct (Nat.eq_dec j n) as [Ej|Ej]; subst.
    + (* (n, n) *)
      rewrite (sumn_ext _ (fun _ => 0)) by (intros k Hk; rewrite Xkn by exact Hk; ring).
      rewrite sumn_zero, Xnn. unfold mI. rewrite Nat.eqb_refl. fold d. field. exact Hd.
    + (* (n, j), j < n *)
      assert (Hjn : (j < n)%nat) by lia.
      rewrite (sumn_ext _ (fun k => L n k * Li k j)) by (intros k Hk; rewrite Xkj by assumption; reflexivity).
      rewrite Xnj by exact Hjn. fold d. unfold mI. rewrite (proj2 (Nat.eqb_neq n j)) by lia. field. exact Hd.
    + (* (i, n), i < n *)
      assert (Hin : (i < n)%nat) by lia.
      rewrite (sumn_ext _ (fun _ => 0)) by (intros k Hk; rewrite Xkn by exact Hk; ring).
      rewrite sumn_zero. rewrite (HL i n Hin ltac:(lia)). unfold mI. rewrite (proj2 (Nat.eqb_neq i n)) by lia. ring.
    + (* (i, j), both < n *)
      assert (Hin : (i < n)%nat) by lia. assert (Hjn : (j < n)%nat) by lia.
      rewrite (sumn_ext _ (fun k => L i k * Li k j)) by (intros k Hk; rewrite Xkj by assumption; reflexivity).
      rewrite (HL i n Hin ltac:(lia)). pose proof (HLi i j Hin Hjn) as E. unfold mmul in E. rewrite E. ring.
Qed.

Lemma psd_R_Rinv_tri_ok : stmt_psd_R_Rinv_tri.
Proof.
  intros n S Z L1 L2 U V lam F HL HD.
  destruct (lower_tri_right_inverse_ok n L1 HL HD) as [L1i H].
  apply (psd_R_Rinv_ok n S Z L1 L2 U V lam L1i F H).
Qed.
