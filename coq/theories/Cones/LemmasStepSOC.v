(** C15, second-order cone: [_step_length_soc_component] reduced to a scalar function of
    the quadratic's coefficients, then capped / safe / exact for the repaired source, and the
    refutation of safety for the pinned source (F3). *)
From Coq Require Import List Reals ZArith Lra Lia Bool Psatz.
Import ListNotations.
Require Import Clarabel.Base.Ops Clarabel.Cones.Vec Clarabel.Cones.SOC Clarabel.Cones.SpecC15
               Clarabel.Cones.LemmasVec Clarabel.Cones.LemmasStepNN.
Open Scope R_scope.
Local Notation sqrt := R_sqrt.sqrt.

(** the scalar skeleton of the step-length routine *)
Definition spick (am r1 r2 : R) : R :=
  let m := if Rltb r1 0 then am else Rmin am r1 in
  if Rltb r2 0 then m else Rmin m r2.
Definition scap (x0 y0 amax : R) : R :=
  if Rleb 0 x0 && Rltb y0 0 then Rmin amax (- x0 / y0) else amax.
Definition sroots (am a b c : R) : R :=
  let d := b * b - 4 * a * c in
  let t := if Rleb 0 b then - b - sqrt d else - b + sqrt d in
  spick am (2 * c / t) (t / (2 * a)).
Definition sstep (fixed : bool) (x0 y0 a b c amax : R) : R :=
  let am := scap x0 y0 amax in
  let d := b * b - 4 * a * c in
  if (Rltb 0 a && Rltb 0 b) || Rltb d 0 then am
  else if Reqb a 0 then (if fixed && Rltb b 0 then Rmin am (- c / b) else am)
  else if Reqb c 0 then (if Rleb 0 a then am else 0)
  else sroots am a b c.

Lemma soc_residual_R x0 x1 : soc_residual OpsR (x0 :: x1) = x0 * x0 - rsumsq x1.
Proof.
  unfold soc_residual. cbn [hd0 tl]. rewrite vnorm_R. cbn [sub add mul OpsR].
  pose proof (sqrt_sqrt _ (rsumsq_nonneg x1)) as H.
  set (n := sqrt (rsumsq x1)) in *. nra.
Qed.

Definition qa (y0 : R) (y1 : list R) := y0 * y0 - rsumsq y1.
Definition qb (x0 : R) (x1 : list R) (y0 : R) (y1 : list R) := 2 * (x0 * y0 - rdot x1 y1).
Definition qc (x0 : R) (x1 : list R) := Rmax 0 (x0 * x0 - rsumsq x1).

Lemma soc_step_unfold x0 x1 y0 y1 amax :
  soc_step OpsR (x0 :: x1) (y0 :: y1) amax
  = sstep true x0 y0 (qa y0 y1) (qb x0 x1 y0 y1) (qc x0 x1) amax.
Proof.
  unfold soc_step, soc_cap, soc_qa, soc_qb, soc_qc, soc_qd, soc_roots, soc_pick, soc_t.
  rewrite !soc_residual_R. cbn [hd0 tl]. rewrite !vdot_R. rewrite !omin_R, !omax_R.
  unfold sstep, scap, sroots, spick, qa, qb, qc.
  cbn [sub add mul div neg ltb leb eqb zero one OpsR Ops.sqrt]. rewrite two_R, four_R.
  cbn [andb]. reflexivity.
Qed.
Lemma soc_step_old_unfold x0 x1 y0 y1 amax :
  soc_step_old OpsR (x0 :: x1) (y0 :: y1) amax
  = sstep false x0 y0 (qa y0 y1) (qb x0 x1 y0 y1) (qc x0 x1) amax.
Proof.
  unfold soc_step_old, soc_cap, soc_qa, soc_qb, soc_qc, soc_qd, soc_roots, soc_pick, soc_t.
  rewrite !soc_residual_R. cbn [hd0 tl]. rewrite !vdot_R. rewrite !omin_R, !omax_R.
  unfold sstep, scap, sroots, spick, qa, qb, qc.
  cbn [sub add mul div neg ltb leb eqb zero one OpsR Ops.sqrt]. rewrite two_R, four_R.
  cbn [andb]. reflexivity.
Qed.

Lemma scap_spec x0 y0 amax : 0 < x0 -> 0 <= amax ->
  let am := scap x0 y0 amax in
  0 <= am <= amax /\ (forall t, 0 <= t <= am -> 0 <= x0 + t * y0) /\
  (am = amax \/ x0 + am * y0 = 0).
Proof.
  intros Hx Ha. unfold scap.
  destruct (Rleb 0 x0) eqn:E1; destruct (Rltb y0 0) eqn:E2; cbn [andb].
  - apply Rltb_true in E2.
    assert (Hq : 0 < - x0 / y0).
    { unfold Rdiv. replace (- x0 * / y0) with (x0 * / (- y0)) by (field; lra).
      apply Rmult_lt_0_compat; [lra|]. apply Rinv_0_lt_compat; lra. }
    assert (Hqe : x0 + (- x0 / y0) * y0 = 0) by (field; lra).
    destruct (Rle_dec amax (- x0 / y0)) as [Hc|Hc].
    + rewrite Rmin_left by assumption. repeat split; try lra.
      intros t Ht. assert (t * (- y0) <= (- x0 / y0) * (- y0)) by (apply Rmult_le_compat_r; lra). lra.
    + rewrite Rmin_right by lra. repeat split; try lra.
      intros t Ht. assert (t * (- y0) <= (- x0 / y0) * (- y0)) by (apply Rmult_le_compat_r; lra). lra.
  - apply Rltb_false in E2. repeat split; try lra.
    intros t Ht. assert (0 <= t * y0) by (apply Rmult_le_pos; lra). lra.
  - apply Rleb_false in E1. lra.
  - apply Rleb_false in E1. lra.
Qed.

Lemma sroots_spec am a b c : 0 <= am -> 0 < c -> a <> 0 -> 0 <= b * b - 4 * a * c ->
  ~ (0 < a /\ 0 < b) ->
  let r := sroots am a b c in
  0 <= r <= am /\ (forall t, 0 <= t <= r -> 0 <= a * t * t + b * t + c) /\
  (r = am \/ a * r * r + b * r + c = 0).
Proof.
  intros Ham Hc Ha Hd Hab. unfold sroots.
  set (d := b * b - 4 * a * c) in *.
  pose proof (sqrt_sqrt d Hd) as Hs. pose proof (sqrt_pos d) as Hsp.
  set (s := sqrt d) in *.
  set (t0 := if Rleb 0 b then - b - s else - b + s).
  assert (Ht0 : t0 * t0 + 2 * b * t0 + 4 * a * c = 0).
  { unfold t0. destruct (Rleb 0 b); unfold d in Hs; nra. }
  assert (Ht0nz : t0 <> 0).
  { intros E. rewrite E in Ht0. assert (a * c = 0) by lra.
    apply Rmult_integral in H. destruct H; lra. }
  set (r1 := 2 * c / t0). set (r2 := t0 / (2 * a)).
  assert (Hfac : forall t, a * t * t + b * t + c = a * (t - r1) * (t - r2)).
  { intros t. unfold r1, r2.
    assert (E : a * (t - 2 * c / t0) * (t - t0 / (2 * a))
                = a * t * t - (t0 * t0 + 4 * a * c) / (2 * t0) * t + c) by (field; split; lra).
    rewrite E.
    replace (t0 * t0 + 4 * a * c) with (- 2 * b * t0) by lra.
    field. exact Ht0nz. }
  assert (Hr1 : r1 * t0 = 2 * c) by (unfold r1; field; exact Ht0nz).
  assert (Hr2 : r2 * (2 * a) = t0) by (unfold r2; field; exact Ha).
  unfold spick. fold r1 r2.
  destruct (Rleb 0 b) eqn:Eb.
  - (* b >= 0: t0 < 0, r1 < 0, a < 0, r2 > 0 *)
    apply Rleb_true in Eb.
    assert (Hneg : t0 < 0).
    { assert (t0 <= 0) by (unfold t0; lra). lra. }
    assert (Han : a < 0).
    { destruct (Rlt_dec 0 a) as [Hp|Hp]; [|lra].
      assert (b = 0) by (destruct (Rlt_dec 0 b); [exfalso; apply Hab; split; assumption | lra]).
      subst b. unfold d in Hd. nra. }
    assert (Hr1n : r1 < 0) by nra.
    assert (Hr2p : 0 < r2) by nra.
    rewrite (proj2 (Rltb_true r1 0) Hr1n).
    rewrite (proj2 (Rltb_false r2 0)) by lra.
    assert (Hq : forall t, 0 <= t <= r2 -> 0 <= a * t * t + b * t + c).
    { intros t Ht. rewrite Hfac.
      assert (0 <= (- a) * (t - r1) * (r2 - t)).
      { apply Rmult_le_pos; [apply Rmult_le_pos|]; lra. }
      lra. }
    destruct (Rle_dec am r2) as [Hc2|Hc2].
    + rewrite Rmin_left by assumption. split; [lra | split].
      * intros t Ht. apply Hq. lra.
      * left; reflexivity.
    + rewrite Rmin_right by lra. split; [lra | split].
      * intros t Ht. apply Hq. lra.
      * right. rewrite Hfac. ring.
  - (* b < 0: t0 > 0, r1 > 0 *)
    apply Rleb_false in Eb.
    assert (Hpos : 0 < t0) by (unfold t0; lra).
    assert (Hr1p : 0 < r1) by nra.
    rewrite (proj2 (Rltb_false r1 0)) by lra.
    destruct (Rlt_dec 0 a) as [Hp|Hp].
    + (* a > 0: both roots positive *)
      assert (Hr2p : 0 < r2) by nra.
      rewrite (proj2 (Rltb_false r2 0)) by lra.
      assert (Hq : forall t, 0 <= t -> t <= r1 -> t <= r2 -> 0 <= a * t * t + b * t + c).
      { intros t Ht H1 H2. rewrite Hfac.
        assert (0 <= a * (r1 - t) * (r2 - t)).
        { apply Rmult_le_pos; [apply Rmult_le_pos|]; lra. }
        lra. }
      pose proof (Rmin_l am r1) as M1. pose proof (Rmin_r am r1) as M2.
      pose proof (Rmin_l (Rmin am r1) r2) as M3. pose proof (Rmin_r (Rmin am r1) r2) as M4.
      assert (M0 : 0 <= Rmin (Rmin am r1) r2) by (apply Rmin_glb; [apply Rmin_glb|]; lra).
      split; [lra | split].
      * intros t Ht. apply Hq; lra.
      * destruct (Rle_dec (Rmin am r1) r2) as [Hc2|Hc2].
        -- rewrite (Rmin_left _ _ Hc2).
           destruct (Rle_dec am r1) as [Hc1|Hc1].
           ++ left. apply Rmin_left; assumption.
           ++ right. rewrite Rmin_right by lra. rewrite Hfac. ring.
        -- right. rewrite Rmin_right by lra. rewrite Hfac. ring.
    + (* a < 0: r2 < 0 *)
      assert (Han : a < 0) by lra.
      assert (Hr2n : r2 < 0) by nra.
      rewrite (proj2 (Rltb_true r2 0) Hr2n).
      assert (Hq : forall t, 0 <= t <= r1 -> 0 <= a * t * t + b * t + c).
      { intros t Ht. rewrite Hfac.
        assert (0 <= (- a) * (r1 - t) * (t - r2)).
        { apply Rmult_le_pos; [apply Rmult_le_pos|]; lra. }
        lra. }
      destruct (Rle_dec am r1) as [Hc1|Hc1].
      * rewrite Rmin_left by assumption. split; [lra | split].
        -- intros t Ht. apply Hq. lra.
        -- left; reflexivity.
      * rewrite Rmin_right by lra. split; [lra | split].
        -- intros t Ht. apply Hq. lra.
        -- right. rewrite Hfac. ring.
Qed.

Lemma sstep_spec x0 y0 a b c amax : 0 < x0 -> 0 < c -> 0 <= amax ->
  let r := sstep true x0 y0 a b c amax in
  0 <= r <= amax /\
  (forall t, 0 <= t <= r -> 0 <= x0 + t * y0 /\ 0 <= a * t * t + b * t + c) /\
  (r = amax \/ x0 + r * y0 = 0 \/ a * r * r + b * r + c = 0).
Proof.
  intros Hx Hc Ha.
  destruct (scap_spec x0 y0 amax Hx Ha) as [Ham [Hcap Hex]].
  unfold sstep. set (am := scap x0 y0 amax) in *.
  set (d := b * b - 4 * a * c).
  destruct ((Rltb 0 a && Rltb 0 b) || Rltb d 0) eqn:EA.
  - (* all roots negative or complex *)
    split; [lra|]. split; [|destruct Hex; [left|right; left]; assumption].
    intros t Ht. split; [apply Hcap; lra|].
    apply orb_true_iff in EA. destruct EA as [EA|EA].
    + apply andb_true_iff in EA. destruct EA as [E1 E2].
      apply Rltb_true in E1. apply Rltb_true in E2.
      assert (0 <= a * t * t) by (assert (0 <= t * t) by nra; nra).
      assert (0 <= b * t) by nra. lra.
    + apply Rltb_true in EA. unfold d in EA.
      assert (Hap : 0 < a) by nra.
      assert (0 < 4 * a * (a * t * t + b * t + c)).
      { replace (4 * a * (a * t * t + b * t + c))
          with ((2 * a * t + b) * (2 * a * t + b) + (4 * a * c - b * b)) by ring.
        pose proof (Rle_0_sqr (2 * a * t + b)) as Hsq. unfold Rsqr in Hsq. lra. }
      nra.
  - apply orb_false_iff in EA. destruct EA as [EA1 EA2].
    apply Rltb_false in EA2.
    assert (Hnab : ~ (0 < a /\ 0 < b)).
    { intros [H1 H2]. apply andb_false_iff in EA1.
      destruct EA1 as [E|E]; apply Rltb_false in E; lra. }
    destruct (Reqb a 0) eqn:Ea0.
    + apply Reqb_true in Ea0. subst a. cbn [andb].
      destruct (Rltb b 0) eqn:Eb.
      * apply Rltb_true in Eb.
        assert (Hq : 0 < - c / b).
        { unfold Rdiv. replace (- c * / b) with (c * / (- b)) by (field; lra).
          apply Rmult_lt_0_compat; [lra|]. apply Rinv_0_lt_compat; lra. }
        assert (Hqe : b * (- c / b) + c = 0) by (field; lra).
        assert (Hlin : forall t, t <= - c / b -> 0 <= 0 * t * t + b * t + c).
        { intros t Ht.
          assert (t * (- b) <= (- c / b) * (- b)) by (apply Rmult_le_compat_r; lra). lra. }
        destruct (Rle_dec am (- c / b)) as [Hc1|Hc1].
        -- rewrite Rmin_left by assumption. split; [lra|]. split.
           ++ intros t Ht. split; [apply Hcap; lra | apply Hlin; lra].
           ++ destruct Hex; [left|right; left]; assumption.
        -- rewrite Rmin_right by lra. split; [lra|]. split.
           ++ intros t Ht. split; [apply Hcap; lra | apply Hlin; lra].
           ++ right; right. lra.
      * apply Rltb_false in Eb. split; [lra|]. split.
        -- intros t Ht. split; [apply Hcap; lra|].
           assert (0 <= b * t) by (apply Rmult_le_pos; lra). lra.
        -- destruct Hex; [left|right; left]; assumption.
    + apply Reqb_false in Ea0.
      destruct (Reqb c 0) eqn:Ec0; [apply Reqb_true in Ec0; lra|].
      destruct (sroots_spec am a b c ltac:(lra) Hc Ea0 EA2 Hnab) as [Hr [Hsafe Hroot]].
      cbn zeta in Hr, Hsafe, Hroot.
      split; [lra|]. split.
      * intros t Ht. split; [apply Hcap; lra | apply Hsafe; lra].
      * destruct Hroot as [E|E].
        -- rewrite E. destruct Hex; [left|right; left]; assumption.
        -- right; right; exact E.
Qed.

(** from the quadratic to the cone *)
Lemma quad_pt x0 x1 y0 y1 t : length x1 = length y1 ->
  (x0 + t * y0) * (x0 + t * y0) - rsumsq (pt x1 t y1)
  = qa y0 y1 * t * t + qb x0 x1 y0 y1 * t + (x0 * x0 - rsumsq x1).
Proof. intros H. rewrite rsumsq_pt by assumption. unfold qa, qb. ring. Qed.

Lemma soc_step_all x y amax : length x = length y -> int_soc x -> 0 <= amax ->
  let r := soc_step OpsR x y amax in
  0 <= r <= amax /\ (forall t, 0 <= t <= r -> in_soc (pt x t y)) /\
  (r = amax \/ bd_soc (pt x r y)).
Proof.
  destruct x as [|x0 x1]; [intros _ []|]. destruct y as [|y0 y1]; [discriminate|].
  intros Hl [Hx0 Hint] Ha. cbn in Hl. assert (Hl1 : length x1 = length y1) by lia.
  cbn zeta. rewrite soc_step_unfold.
  assert (Hc : qc x0 x1 = x0 * x0 - rsumsq x1) by (unfold qc; apply Rmax_right; lra).
  assert (Hcp : 0 < qc x0 x1) by lra.
  destruct (sstep_spec x0 y0 (qa y0 y1) (qb x0 x1 y0 y1) (qc x0 x1) amax Hx0 Hcp Ha)
    as [Hr [Hsafe Hex]].
  cbn zeta in Hr, Hsafe, Hex. set (r := sstep _ _ _ _ _ _ _) in *.
  assert (Hin : forall t, 0 <= t <= r -> in_soc (pt (x0 :: x1) t (y0 :: y1))).
  { intros t Ht. rewrite pt_cons. cbn [in_soc].
    destruct (Hsafe t Ht) as [H1 H2]. split; [exact H1|].
    pose proof (quad_pt x0 x1 y0 y1 t Hl1) as Q. rewrite Hc in H2. lra. }
  split; [exact Hr|]. split; [exact Hin|].
  destruct Hex as [E|[E|E]]; [left; exact E| |].
  - right. pose proof (Hin r ltac:(lra)) as Hb. rewrite pt_cons in *. cbn [in_soc bd_soc] in *.
    destruct Hb as [Hb1 Hb2]. split; [exact Hb1|].
    pose proof (rsumsq_nonneg (pt x1 r y1)). rewrite E in *. lra.
  - right. pose proof (Hin r ltac:(lra)) as Hb. rewrite pt_cons in *. cbn [in_soc bd_soc] in *.
    destruct Hb as [Hb1 Hb2]. split; [exact Hb1|].
    pose proof (quad_pt x0 x1 y0 y1 r Hl1) as Q. rewrite Hc in E. lra.
Qed.

Lemma soc_step_le_max_ok : stmt_soc_step_le_max (soc_step OpsR).
Proof. intros x y amax Hl Hx Ha. apply (soc_step_all x y amax Hl Hx Ha). Qed.
Lemma soc_step_safe_ok : stmt_soc_step_safe (soc_step OpsR).
Proof. intros x y amax Hl Hx Ha. apply (soc_step_all x y amax Hl Hx Ha). Qed.
Lemma soc_step_exact_ok : stmt_soc_step_exact (soc_step OpsR).
Proof. intros x y amax Hl Hx Ha. apply (soc_step_all x y amax Hl Hx Ha). Qed.

(** deciding the comparisons of a concrete real computation *)
Ltac rdec := repeat (match goal with
  | |- context [Rltb ?a ?b] =>
      first [rewrite (proj2 (Rltb_true a b)) by lra | rewrite (proj2 (Rltb_false a b)) by lra]
  | |- context [Rleb ?a ?b] =>
      first [rewrite (proj2 (Rleb_true a b)) by lra | rewrite (proj2 (Rleb_false a b)) by lra]
  | |- context [Reqb ?a ?b] =>
      first [rewrite (proj2 (Reqb_true a b)) by lra | rewrite (proj2 (Reqb_false a b)) by lra]
  end; cbn [andb orb]).

(** F3: x = (1,0), y = (-1,1), alpha_max = 1.  The direction lies on the boundary of -K, so
    a = 0 and b = -2 < 0; the pinned source returns 1, and x + y = (0,1) is outside. *)
Lemma soc_step_old_witness : soc_step_old OpsR [1; 0] [-1; 1] 1 = 1.
Proof.
  rewrite soc_step_old_unfold.
  replace (qa (-1) [1]) with 0 by (unfold qa, rsumsq; cbn; lra).
  replace (qb 1 [0] (-1) [1]) with (-2) by (unfold qb; cbn; lra).
  replace (qc 1 [0]) with 1 by (unfold qc, rsumsq; cbn; rewrite Rmax_right; lra).
  unfold sstep, scap. rdec. apply Rmin_left. lra.
Qed.
Lemma soc_step_refuted_ok : stmt_soc_step_refuted (soc_step_old OpsR).
Proof.
  exists [1; 0], [-1; 1], 1. split; [reflexivity|]. split; [cbn; lra|]. split; [lra|].
  rewrite soc_step_old_witness. cbn. lra.
Qed.
(** the same input on the repaired source: the step is the single root -c/b = 1/2 *)
Lemma soc_step_witness_fixed : soc_step OpsR [1; 0] [-1; 1] 1 = 1 / 2.
Proof.
  rewrite soc_step_unfold.
  replace (qa (-1) [1]) with 0 by (unfold qa, rsumsq; cbn; lra).
  replace (qb 1 [0] (-1) [1]) with (-2) by (unfold qb; cbn; lra).
  replace (qc 1 [0]) with 1 by (unfold qc, rsumsq; cbn; rewrite Rmax_right; lra).
  unfold sstep, scap. rdec.
  replace (Rmin 1 (- (1) / -1)) with 1 by (rewrite Rmin_left; lra).
  rewrite Rmin_right; lra.
Qed.
