(** PSD index maps: svec and mat are mutually inverse on symmetric matrices, and svec is an
    isometry ⟨svec X, svec Y⟩ = tr(XY); any n. *)
From Coq Require Import List Reals ZArith Lra Lia Bool Psatz Arith.
Import ListNotations.
Require Import Clarabel.Base.Ops Clarabel.Cones.Vec Clarabel.Cones.SpecC15 Clarabel.Cones.SpecC13
               Clarabel.Cones.LemmasVec Clarabel.Cones.LemmasScalSOC2 Clarabel.Cones.PSDIndex Clarabel.Cones.SpecPSD.
Open Scope R_scope.
Local Notation sqrt := R_sqrt.sqrt.

Lemma isqrt2_sq : isqrt2 OpsR * isqrt2 OpsR = 1 / 2.
Proof. unfold isqrt2. cbn [Ops.sqrt div one OpsR]. rewrite two_R. apply sqrt_sqrt. lra. Qed.

Lemma svec_col_length (M : nat -> nat -> R) c : length (svec_col OpsR M c) = S c.
Proof. unfold svec_col. rewrite app_length, map_length, seq_length. cbn. lia. Qed.

Lemma triangular_index_diag k : triangular_index k = (tri k + k)%nat.
Proof.
  unfold triangular_index, tri. replace (k * (k + 3))%nat with (k * (k + 1) + k * 2)%nat by lia.
  rewrite Nat.div_add by lia. reflexivity.
Qed.

Lemma svec_nth n (M : nat -> nat -> R) c r : (c < n)%nat -> (r <= c)%nat ->
  nth (tri c + r) (mat_to_svec OpsR n M) 0
  = if Nat.eqb r c then M c c else (M r c + M c r) * isqrt2 OpsR.
Proof.
  intros Hc Hr. unfold mat_to_svec. rewrite (blocks_nth _ (svec_col_length M)) by assumption.
  unfold svec_col. destruct (Nat.eqb r c) eqn:E.
  - apply Nat.eqb_eq in E. subst r. rewrite app_nth2 by (rewrite map_length, seq_length; lia).
    rewrite map_length, seq_length, Nat.sub_diag. reflexivity.
  - apply Nat.eqb_neq in E. rewrite app_nth1 by (rewrite map_length, seq_length; lia).
    rewrite nth_map_seq by lia. reflexivity.
Qed.


(** svec_to_mat ∘ mat_to_svec = id on symmetric matrices *)
Lemma mat_svec_inverse n (M : nat -> nat -> R) r c : symmetric M -> (r < n)%nat -> (c < n)%nat ->
  svec_to_mat OpsR (mat_to_svec OpsR n M) r c = M r c.
Proof.
  intros Hs Hr Hc. unfold svec_to_mat. cbn zeta. fold (tri (Nat.max r c)). cbn [zero OpsR].
  rewrite svec_nth by lia.
  destruct (Nat.eqb r c) eqn:E.
  - apply Nat.eqb_eq in E. subst c. rewrite Nat.min_id, Nat.max_id, Nat.eqb_refl. reflexivity.
  - apply Nat.eqb_neq in E.
    assert (Hne : Nat.eqb (Nat.min r c) (Nat.max r c) = false) by (apply Nat.eqb_neq; lia).
    rewrite Hne. cbn [mul OpsR]. pose proof isqrt2_sq as Q.
    destruct (Nat.le_ge_cases r c) as [L|L].
    + rewrite Nat.min_l, Nat.max_r by lia. rewrite (Hs c r).
      replace ((M r c + M r c) * isqrt2 OpsR * isqrt2 OpsR) with ((M r c + M r c) * (isqrt2 OpsR * isqrt2 OpsR)) by ring.
      rewrite Q. lra.
    + rewrite Nat.min_r, Nat.max_l by lia. rewrite (Hs r c).
      replace ((M c r + M c r) * isqrt2 OpsR * isqrt2 OpsR) with ((M c r + M c r) * (isqrt2 OpsR * isqrt2 OpsR)) by ring.
      rewrite Q. lra.
Qed.

(** every packed index is tri c + r for a unique column c < n and row r <= c *)
Lemma packed_index n : forall i, (i < tri n)%nat -> exists c r, (c < n)%nat /\ (r <= c)%nat /\ i = (tri c + r)%nat.
Proof.
  induction n as [|n IH]; intros i Hi; [rewrite tri_0 in Hi; lia|].
  rewrite tri_S in Hi. destruct (Nat.lt_ge_cases i (tri n)) as [L|L].
  - destruct (IH i L) as (c & r & Hc & Hr & E). exists c, r. repeat split; (lia || assumption).
  - exists n, (i - tri n)%nat. repeat split; lia.
Qed.

(** mat_to_svec ∘ svec_to_mat = id on vectors of length n(n+1)/2 *)
Lemma svec_mat_inverse n (x : list R) : length x = tri n ->
  mat_to_svec OpsR n (svec_to_mat OpsR x) = x.
Proof.
  intros Hl. apply (nth_ext _ _ 0 0).
  - unfold mat_to_svec. rewrite (blocks_length _ (svec_col_length _)). lia.
  - unfold mat_to_svec at 1. rewrite (blocks_length _ (svec_col_length _)). intros i Hi.
    destruct (packed_index n i Hi) as (c & r & Hc & Hr & E). subst i.
    rewrite svec_nth by assumption. unfold svec_to_mat. cbn zeta. cbn [zero OpsR mul OpsR].
    destruct (Nat.eqb r c) eqn:Erc.
    + apply Nat.eqb_eq in Erc. subst r. rewrite Nat.min_id, Nat.max_id, Nat.eqb_refl. reflexivity.
    + apply Nat.eqb_neq in Erc. assert (Hlt : (r < c)%nat) by lia.
      rewrite (proj2 (Nat.eqb_neq c r)) by lia.
      rewrite (Nat.min_l r c), (Nat.max_r r c), (Nat.min_r c r), (Nat.max_l c r) by lia.
      fold (tri c). pose proof isqrt2_sq as Q.
      set (v := nth (tri c + r) x 0).
      replace ((v * isqrt2 OpsR + v * isqrt2 OpsR) * isqrt2 OpsR) with (2 * v * (isqrt2 OpsR * isqrt2 OpsR)) by ring.
      rewrite Q. lra.
Qed.

(** ** isometry *)
Lemma sumn_ext f g n : (forall i, (i < n)%nat -> f i = g i) -> sumn f n = sumn g n.
Proof. induction n as [|n IH]; intros H; cbn; [reflexivity|]. rewrite IH, H by (intros; try apply H; lia). reflexivity. Qed.
Lemma sumn_plus f g n : sumn (fun i => f i + g i) n = sumn f n + sumn g n.
Proof. induction n as [|n IH]; cbn; [lra|]. rewrite IH. lra. Qed.
Lemma sumn_scal a f n : sumn (fun i => a * f i) n = a * sumn f n.
Proof. induction n as [|n IH]; cbn; [lra|]. rewrite IH. lra. Qed.

Lemma rdot_app x1 : forall x2 y1 y2, length x1 = length y1 ->
  rdot (x1 ++ x2) (y1 ++ y2) = rdot x1 y1 + rdot x2 y2.
Proof.
  induction x1 as [|a x1 IH]; intros x2 [|b y1] y2 H; cbn in H; try discriminate; [cbn; lra|].
  cbn [app rdot]. rewrite IH by lia. lra.
Qed.
Lemma rdot_map_seq (f g : nat -> R) k :
  rdot (map f (seq 0 k)) (map g (seq 0 k)) = sumn (fun r => f r * g r) k.
Proof.
  induction k as [|k IH]; [reflexivity|].
  rewrite seq_S, !map_app, rdot_app by (rewrite !map_length; reflexivity).
  rewrite IH. cbn. lra.
Qed.


Lemma svec_isometry n (X Y : nat -> nat -> R) : symmetric X -> symmetric Y ->
  rdot (mat_to_svec OpsR n X) (mat_to_svec OpsR n Y) = trprod n X Y.
Proof.
  intros HX HY. unfold trprod. induction n as [|n IH]; [reflexivity|].
  unfold mat_to_svec in *. rewrite seq_S, !flat_map_app. cbn [flat_map]. rewrite !app_nil_r.
  rewrite rdot_app by (rewrite !(blocks_length _ (svec_col_length _)); reflexivity).
  rewrite IH. unfold svec_col.
  rewrite rdot_app by (rewrite !map_length; reflexivity).
  rewrite rdot_map_seq. cbn [rdot sumn]. cbn [add mul OpsR].
  (* the full double sum, split off row n and column n *)
  rewrite sumn_plus.
  pose proof isqrt2_sq as Q.
  rewrite (sumn_ext (fun r => (X r n + X n r) * isqrt2 OpsR * ((Y r n + Y n r) * isqrt2 OpsR))
                    (fun r => 2 * (X r n * Y n r))).
  2:{ intros i _. rewrite (HX n i), (HY n i), (HY i n).
      replace ((X i n + X i n) * isqrt2 OpsR * ((Y n i + Y n i) * isqrt2 OpsR))
        with (4 * (X i n * Y n i) * (isqrt2 OpsR * isqrt2 OpsR)) by ring.
      rewrite Q. rewrite (HY n i). lra. }
  rewrite sumn_scal.
  rewrite (sumn_ext (fun c => X n c * Y c n) (fun c => X c n * Y n c)) by (intros; rewrite (HX n i), (HY i n); reflexivity).
  change (0 + n)%nat with n. lra.
Qed.

Lemma psd_mat_svec_inverse_ok : stmt_psd_mat_svec_inverse.
Proof. intros n M r c. apply mat_svec_inverse. Qed.
Lemma psd_svec_mat_inverse_ok : stmt_psd_svec_mat_inverse.
Proof. intros n x H. apply svec_mat_inverse. exact H. Qed.
Lemma psd_svec_isometry_ok : stmt_psd_svec_isometry.
Proof. intros n X Y. apply svec_isometry. Qed.
Lemma psd_diag_index_ok : stmt_psd_diag_index.
Proof.
  intros n M k Hk. rewrite triangular_index_diag. rewrite svec_nth by lia. rewrite Nat.eqb_refl. reflexivity.
Qed.

(** ** scaled_unit_shift *)
Lemma packed_unique c r c' r' : (r <= c)%nat -> (r' <= c')%nat -> (tri c + r = tri c' + r')%nat -> c = c' /\ r = r'.
Proof.
  intros Hr Hr' E.
  destruct (Nat.lt_trichotomy c c') as [L|[L|L]].
  - assert (tri (S c) <= tri c')%nat by (apply tri_mono; lia). rewrite tri_S in H. lia.
  - subst. split; lia.
  - assert (tri (S c') <= tri c)%nat by (apply tri_mono; lia). rewrite tri_S in H. lia.
Qed.
Lemma is_diag_spec n c r : (c < n)%nat -> (r <= c)%nat -> is_diag_index n (tri c + r) = Nat.eqb r c.
Proof.
  intros Hc Hr. unfold is_diag_index. destruct (Nat.eqb r c) eqn:E.
  - apply Nat.eqb_eq in E. subst r. apply existsb_exists. exists c. split; [apply in_seq; lia|].
    apply Nat.eqb_eq. rewrite triangular_index_diag. reflexivity.
  - apply Nat.eqb_neq in E. apply not_true_is_false. intros H. apply existsb_exists in H.
    destruct H as [k [Hk Hk2]]. apply Nat.eqb_eq in Hk2. rewrite triangular_index_diag in Hk2.
    destruct (packed_unique c r k k Hr (Nat.le_refl k) Hk2). lia.
Qed.
Lemma nth_unit_shift n (z : list R) a i : (i < length z)%nat ->
  nth i (psd_scaled_unit_shift OpsR n z a) 0
  = if is_diag_index n i then nth i z 0 + a else nth i z 0.
Proof.
  intros Hi. unfold psd_scaled_unit_shift.
  set (f := fun p : nat * R => if is_diag_index n (fst p) then add OpsR (snd p) a else snd p).
  rewrite (nth_indep _ 0 (f (0%nat, 0))) by (rewrite map_length, combine_length, seq_length; lia).
  rewrite map_nth. rewrite combine_nth by (rewrite seq_length; reflexivity).
  rewrite seq_nth by exact Hi. unfold f. cbn [fst snd add OpsR Nat.add]. reflexivity.
Qed.
Lemma psd_unit_shift_mat_ok : stmt_psd_unit_shift_mat.
Proof.
  intros n z a i j Hl Hi Hj. unfold svec_to_mat. cbn zeta. cbn [zero mul OpsR].
  set (lo := Nat.min i j). set (hi := Nat.max i j). fold (tri hi).
  assert (Hhi : (hi < n)%nat) by (unfold hi; lia). assert (Hlo : (lo <= hi)%nat) by (unfold lo, hi; lia).
  assert (Hidx : (tri hi + lo < length z)%nat).
  { rewrite Hl. fold (tri n). assert (tri (S hi) <= tri n)%nat by (apply tri_mono; lia). rewrite tri_S in H. lia. }
  rewrite nth_unit_shift by exact Hidx. rewrite is_diag_spec by assumption.
  destruct (Nat.eqb i j) eqn:E.
  - apply Nat.eqb_eq in E. subst j. unfold lo, hi. rewrite Nat.min_id, Nat.max_id, Nat.eqb_refl. reflexivity.
  - apply Nat.eqb_neq in E. assert (Hne : Nat.eqb lo hi = false) by (apply Nat.eqb_neq; unfold lo, hi; lia).
    rewrite Hne. lra.
Qed.
