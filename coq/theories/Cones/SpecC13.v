(** C13 — statements only.  Real-number interpretation [OpsR] of the models in NN.v / SOC.v. *)
From Coq Require Import List Reals ZArith Bool.
Import ListNotations.
Require Import Clarabel.Base.Ops Clarabel.Cones.Vec Clarabel.Cones.NN Clarabel.Cones.SOC
               Clarabel.Cones.SpecC15.
Open Scope R_scope.

Definition rmap2 (f : R -> R -> R) (x y : list R) : list R := map2 f x y.
Definition all_nz (x : list R) : Prop := Forall (fun v => v <> 0) x.

(** ** nonnegative cone: s, z > 0 component-wise, every dimension *)
(** W z = λ = W⁻¹ s  (mul_W / mul_Winv called with α = 1, β = 0 and any output buffer) *)
Definition stmt_nn_Wz_lambda : Prop :=
  forall s z y, length s = length z -> length y = length z -> int_nn s -> int_nn z ->
    let '(w, lam) := nn_update_scaling OpsR s z in
    nn_mul_W OpsR w z 1 0 y = lam /\ nn_mul_Winv OpsR w s 1 0 y = lam.
(** WᵀW z = s *)
Definition stmt_nn_WtWz_s : Prop :=
  forall s z, length s = length z -> int_nn s -> int_nn z ->
    nn_mul_Hs OpsR (fst (nn_update_scaling OpsR s z)) z = s.
(** the scaling is positive, so the next statements apply to it *)
Definition stmt_nn_w_pos : Prop :=
  forall s z, length s = length z -> int_nn s -> int_nn z ->
    int_nn (fst (nn_update_scaling OpsR s z)) /\ int_nn (snd (nn_update_scaling OpsR s z)).
(** mul_W and mul_Winv are mutually inverse; both ignore the transpose flag (W diagonal),
    so they are trivially transpose-consistent *)
Definition stmt_nn_W_Winv_inverse : Prop :=
  forall w x y y', length x = length w -> length y = length w -> length y' = length w -> all_nz w ->
    nn_mul_W OpsR w (nn_mul_Winv OpsR w x 1 0 y) 1 0 y' = x /\
    nn_mul_Winv OpsR w (nn_mul_W OpsR w x 1 0 y) 1 0 y' = x.
(** general α, β: y <- α W x + β y *)
Definition stmt_nn_mul_W_affine : Prop :=
  forall w x a b y, length x = length w -> length y = length w ->
    nn_mul_W OpsR w x a b y
    = rmap2 (fun p q => a * p + b * q) (nn_mul_W OpsR w x 1 0 y) y.
(** the diagonal block written into the KKT matrix is the operator applied by mul_Hs *)
Definition stmt_nn_get_Hs_operator : Prop :=
  forall w x, length x = length w ->
    nn_mul_Hs OpsR w x = rmap2 Rmult (nn_get_Hs OpsR w) x /\
    nn_mul_Hs OpsR w x = nn_mul_W OpsR w (nn_mul_W OpsR w x 1 0 x) 1 0 x.
(** Jordan product and its inverse *)
Definition stmt_nn_circ_inverse : Prop :=
  forall y z, length y = length z -> all_nz y ->
    nn_inv_circ_op OpsR y (nn_circ_op OpsR y z) = z /\
    nn_circ_op OpsR y (nn_inv_circ_op OpsR y z) = z.
(** affine_ds = λ∘λ *)
Definition stmt_nn_affine_ds : Prop :=
  forall lam, nn_affine_ds OpsR lam = nn_circ_op OpsR lam lam.
(** Δs_from_Δz_offset = Wᵀ(λ \ ds) = ds / z *)
Definition stmt_nn_ds_offset : Prop :=
  forall s z ds y, length s = length z -> length ds = length z -> length y = length z ->
    int_nn s -> int_nn z ->
    let '(w, lam) := nn_update_scaling OpsR s z in
    nn_ds_from_dz_offset OpsR ds z = nn_mul_W OpsR w (nn_inv_circ_op OpsR lam ds) 1 0 y.
(** combined_ds_shift = W⁻¹Δs ∘ WΔz − σμ e *)
Definition stmt_nn_combined_shift : Prop :=
  forall w dz ds sigmamu, length dz = length w -> length ds = length w ->
    nn_combined_ds_shift OpsR w dz ds sigmamu
    = map (fun v => v - sigmamu)
          (nn_circ_op OpsR (nn_mul_Winv OpsR w ds 1 0 ds) (nn_mul_W OpsR w dz 1 0 dz)).

(** ** second-order cone, operator level: w normalised, η ≠ 0 *)
Definition soc_normalised (w : list R) : Prop :=
  match w with w0 :: w1 => 0 < w0 /\ w0 * w0 - rsumsq w1 = 1 | [] => False end.
(** η²(2 w wᵀx − J x) *)
Definition hs_spec (w : list R) (eta : R) (x : list R) : list R :=
  match w, x with
  | w0 :: w1, x0 :: x1 =>
      let wx := rdot w x in
      (eta * eta * (2 * w0 * wx - x0)) :: rmap2 (fun wi xi => eta * eta * (2 * wi * wx + xi)) w1 x1
  | _, _ => []
  end.
Definition stmt_soc_W_Winv_inverse : Prop :=
  forall w eta x y y', soc_normalised w -> eta <> 0 -> length x = length w ->
    length y = length w -> length y' = length w ->
    soc_mul_W OpsR w eta (soc_mul_Winv OpsR w eta x 1 0 y) 1 0 y' = x /\
    soc_mul_Winv OpsR w eta (soc_mul_W OpsR w eta x 1 0 y) 1 0 y' = x.
(** W is symmetric, the transpose flag is ignored by both routines; transpose consistency
    ⟨W x, y⟩ = ⟨x, W y⟩ *)
Definition stmt_soc_W_symmetric : Prop :=
  forall w eta x y b b', length x = length w -> length y = length w ->
    length b = length w -> length b' = length w ->
    rdot (soc_mul_W OpsR w eta x 1 0 b) y = rdot x (soc_mul_W OpsR w eta y 1 0 b').
(** the gemv contract for every α, β and every output buffer:  y <- α·(W x) + β·y, where W x is
    the result for α = 1, β = 0 (same for W⁻¹); no normalisation needed *)
Definition stmt_soc_mul_W_affine : Prop :=
  forall w eta x a b y, (1 <= length w)%nat -> length x = length w -> length y = length w ->
    soc_mul_W OpsR w eta x a b y
    = rmap2 (fun p q => a * p + b * q) (soc_mul_W OpsR w eta x 1 0 y) y /\
    soc_mul_Winv OpsR w eta x a b y
    = rmap2 (fun p q => a * p + b * q) (soc_mul_Winv OpsR w eta x 1 0 y) y.
Definition stmt_soc_Hs_formula : Prop :=
  forall w eta x, length x = length w -> soc_mul_Hs OpsR w eta x = hs_spec w eta x.
Definition stmt_soc_Hs_is_WW : Prop :=
  forall w eta x y y', soc_normalised w -> length x = length w -> length y = length w ->
    length y' = length w ->
    soc_mul_W OpsR w eta (soc_mul_W OpsR w eta x 1 0 y) 1 0 y' = soc_mul_Hs OpsR w eta x.
(** dense get_Hs: the packed upper triangle holds entry (row,col), row <= col, at index
    col(col+1)/2 + row, and that entry is η²(2 w_row w_col − J(row,col)) *)
Definition Jent (row col : nat) : R :=
  if Nat.eqb row col then (if Nat.eqb row 0 then 1 else -1) else 0.
Definition stmt_soc_get_Hs_dense_entries : Prop :=
  forall w eta row col, (row <= col)%nat -> (col < length w)%nat -> (1 <= length w)%nat ->
    nth (col * (col + 1) / 2 + row) (soc_get_Hs_dense OpsR w eta) 0
    = eta * eta * (2 * nth row w 0 * nth col w 0 - Jent row col).
Definition stmt_soc_get_Hs_dense_length : Prop :=
  forall w eta, (1 <= length w)%nat ->
    length (soc_get_Hs_dense OpsR w eta) = (length w * (length w + 1) / 2)%nat.
(** sparse get_Hs + (u, v, d): the KKT block
        [ -Hd    -η²v   -η²u ]
        [ -η²vᵀ  -η²     0   ]
        [ -η²uᵀ   0     +η²  ]
    applied to (x, p, q) with the two auxiliary rows equal to zero gives -mul_Hs x in the
    first block row *)
Definition stmt_soc_sparse_expansion : Prop :=
  forall w0 w1 eta x p q, soc_normalised (w0 :: w1) -> eta <> 0 -> length x = S (length w1) ->
    let sp := soc_sparse_data OpsR w0 w1 (rsumsq w1) in
    let Hd := soc_get_Hs_sparse OpsR (length x) eta (sp_d sp) in
    let e2 := eta * eta in
    - e2 * rdot (sp_v sp) x - e2 * p = 0 ->
    - e2 * rdot (sp_u sp) x + e2 * q = 0 ->
    rmap2 (fun a b => a + b)
          (rmap2 (fun h xi => - h * xi) Hd x)
          (rmap2 (fun vi ui => - e2 * vi * p - e2 * ui * q) (sp_v sp) (sp_u sp))
    = map Ropp (soc_mul_Hs OpsR (w0 :: w1) eta x).

(** set_identity_scaling: afterwards w = e, η = 1, mul_W = mul_Winv = mul_Hs = identity, and the
    sparse KKT block  Hd∘x + η²((u·x)u − (v·x)v)  (auxiliary variables eliminated) is the identity
    too — whatever scaling the cone held before *)
Definition sparse_op (Hd u v : list R) (eta : R) (x : list R) : list R :=
  rmap2 Rplus (rmap2 Rmult Hd x)
        (rmap2 (fun ui vi => eta * eta * (rdot u x * ui - rdot v x * vi)) u v).
Definition stmt_soc_identity_scaling : Prop :=
  forall prev x y, (1 <= length x)%nat -> length x = length (sc_w prev) -> length y = length x ->
    let sc := soc_set_identity_scaling OpsR prev in
    soc_normalised (sc_w sc) /\ sc_eta sc = 1 /\
    soc_mul_W OpsR (sc_w sc) (sc_eta sc) x 1 0 y = x /\
    soc_mul_Winv OpsR (sc_w sc) (sc_eta sc) x 1 0 y = x /\
    soc_mul_Hs OpsR (sc_w sc) (sc_eta sc) x = x /\
    (forall sp, sc_sparse sc = Some sp ->
       sparse_op (soc_get_Hs_sparse OpsR (length x) (sc_eta sc) (sp_d sp)) (sp_u sp) (sp_v sp)
                 (sc_eta sc) x = x).

(** ** second-order cone, update_scaling level *)
(** FULL statement (proved: [C13_soc_nt_identities]; also checked numerically on every run by [p_soc_nt]):
    for interior s, z the computed (w, η, λ) satisfy W z = λ = W⁻¹ s *)
Definition stmt_soc_nt_identities : Prop :=
  forall s z sc y, length s = length z -> length y = length z -> int_soc s -> int_soc z ->
    soc_update_scaling OpsR s z = Some sc ->
    soc_mul_W OpsR (sc_w sc) (sc_eta sc) z 1 0 y = sc_lam sc /\
    soc_mul_Winv OpsR (sc_w sc) (sc_eta sc) s 1 0 y = sc_lam sc.
(** WᵀW z = s for the computed scaling *)
Definition stmt_soc_nt_WtWz : Prop :=
  forall s z sc, length s = length z -> int_soc s -> int_soc z ->
    soc_update_scaling OpsR s z = Some sc ->
    soc_mul_Hs OpsR (sc_w sc) (sc_eta sc) z = s.
(** Δs_from_Δz_offset = Wᵀ(λ \ ds) = W(λ \ ds), for the computed scaling *)
Definition stmt_soc_ds_offset : Prop :=
  forall s z sc ds y, length s = length z -> length ds = length z -> length y = length z ->
    int_soc s -> int_soc z -> soc_update_scaling OpsR s z = Some sc ->
    soc_ds_from_dz_offset OpsR (sc_w sc) (sc_lam sc) (sc_eta sc) ds z
    = soc_mul_W OpsR (sc_w sc) (sc_eta sc) (soc_inv_circ_op OpsR (sc_lam sc) ds) 1 0 y.
(** proved part: whenever update_scaling succeeds, w is normalised and η > 0 (so all the
    operator-level theorems apply to the computed scaling); it succeeds on interior points *)
Definition stmt_soc_nt_identities_partial : Prop :=
  (forall s z sc, soc_update_scaling OpsR s z = Some sc ->
     soc_normalised (sc_w sc) /\ 0 < sc_eta sc) /\
  (forall s z, int_soc s -> int_soc z ->
     sqrt_soc_residual OpsR s <> 0 /\ sqrt_soc_residual OpsR z <> 0).
(** affine_ds = λ∘λ (by definition of the routine) *)
Definition stmt_soc_affine_ds : Prop :=
  forall lam, soc_affine_ds OpsR lam = soc_circ_op OpsR lam lam.
(** Jordan product: x∘y = (⟨x,y⟩, x0 y1 + y0 x1), commutative *)
Definition stmt_soc_circ_def : Prop :=
  forall y0 y1 z0 z1, length y1 = length z1 ->
    soc_circ_op OpsR (y0 :: y1) (z0 :: z1)
    = (y0 * z0 + rdot y1 z1) :: rmap2 (fun zi yi => y0 * zi + z0 * yi) z1 y1.
(** inverse Jordan product: y ∘ (y \ z) = z for y in the interior *)
Definition stmt_soc_inv_circ : Prop :=
  forall y z, length y = length z -> int_soc y ->
    soc_circ_op OpsR y (soc_inv_circ_op OpsR y z) = z.
