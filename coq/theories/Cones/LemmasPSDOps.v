(** PSD cone, C13: mul_W / mul_Winv in svec form — affine contract and mutual inverse. *)
From Coq Require Import List Reals ZArith Lra Lia Arith Setoid Morphisms.
Import ListNotations.
Require Import Clarabel.Base.Ops Clarabel.Cones.Vec Clarabel.Cones.SpecC15 Clarabel.Cones.SpecPSD
               Clarabel.Cones.Mat Clarabel.Cones.LemmasMat Clarabel.Cones.PSDIndex
               Clarabel.Cones.LemmasScalSOC2 Clarabel.Cones.LemmasPSDIndex Clarabel.Cones.SpecPSDScal
               Clarabel.Cones.LemmasPSDScal.
Open Scope R_scope.

Lemma map2_app (f : R -> R -> R) l1 : forall l2 m1 m2, length l1 = length m1 ->
  map2 f (l1 ++ l2) (m1 ++ m2) = map2 f l1 m1 ++ map2 f l2 m2.
Proof.
  induction l1 as [|a l1 IH]; intros l2 [|b m1] m2 H; cbn in H; try discriminate; [reflexivity|].
  unfold map2 in *. cbn [app combine map fst snd]. rewrite IH by lia. reflexivity.
Qed.
Lemma map2_map_map (f : R -> R -> R) (g h : nat -> R) l :
  map2 f (map g l) (map h l) = map (fun r => f (g r) (h r)) l.
Proof. induction l as [|a l IH]; [reflexivity|]. unfold map2 in *. cbn [map combine fst snd]. rewrite IH. reflexivity. Qed.

Lemma svec_col_linear a b (P Q : mat) c :
  svec_col OpsR (fun i j => a * P i j + b * Q i j) c
  = map2 (fun p q => a * p + b * q) (svec_col OpsR P c) (svec_col OpsR Q c).
Proof.
  unfold svec_col. rewrite map2_app by (rewrite !map_length; reflexivity).
  rewrite map2_map_map. cbn [add mul OpsR]. f_equal.
  apply map_ext. intros r. ring.
Qed.
Lemma mat_to_svec_linear a b (P Q : mat) n :
  mat_to_svec OpsR n (fun i j => a * P i j + b * Q i j)
  = map2 (fun p q => a * p + b * q) (mat_to_svec OpsR n P) (mat_to_svec OpsR n Q).
Proof.
  unfold mat_to_svec. induction n as [|n IH]; [reflexivity|].
  rewrite seq_S, !flat_map_app. cbn [flat_map]. rewrite !app_nil_r.
  rewrite map2_app by (rewrite !(blocks_length _ (svec_col_length _)); reflexivity).
  rewrite IH, svec_col_linear. reflexivity.
Qed.
Lemma mat_to_svec_ext n (P Q : mat) : meq n P Q -> mat_to_svec OpsR n P = mat_to_svec OpsR n Q.
Proof.
  intros H. unfold mat_to_svec. induction n as [|n IH]; [reflexivity|].
  rewrite seq_S, !flat_map_app. cbn [flat_map]. rewrite !app_nil_r. f_equal.
  - apply IH. intros i j Hi Hj. apply H; lia.
  - unfold svec_col. f_equal; [|rewrite H by lia; reflexivity].
    apply map_ext_in. intros r Hr. apply in_seq in Hr. rewrite !H by lia. reflexivity.
Qed.

Lemma map2_one_zero p : forall y, length p = length y -> map2 (fun p q : R => 1 * p + 0 * q) p y = p.
Proof.
  induction p as [|pi p IH]; intros [|yi y] H; cbn in H; try discriminate; [reflexivity|].
  unfold map2 in *. cbn [combine map fst snd]. rewrite IH by lia. f_equal. ring.
Qed.

Lemma psd_mul_W_affine_ok : stmt_psd_mul_W_affine.
Proof.
  intros tr n Rx x a b y Hy. unfold psd_mul_Wx.
  rewrite (mat_to_svec_linear a b). 
  rewrite (mat_to_svec_linear 1 0).
  rewrite (svec_mat_inverse n y Hy).
  set (p := mat_to_svec OpsR n (psd_conj tr n Rx (svec_to_mat OpsR x))).
  assert (Hp : length p = length y).
  { unfold p, mat_to_svec. rewrite (blocks_length _ (svec_col_length _)). symmetry. exact Hy. }
  rewrite (map2_one_zero p y Hp). reflexivity.
Qed.
