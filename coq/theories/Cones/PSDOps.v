(** Model of the PSD-cone operations of psdtrianglecone.rs in svec coordinates over [Ops T]
    (matrices as functions [nat -> nat -> T]; BLAS products as plain triple loops, so the binary64
    reading agrees with the implementation only up to rounding).  Definitions only. *)
From Coq Require Import List ZArith Arith.
Import ListNotations.
Require Import Clarabel.Base.Ops Clarabel.Cones.Vec Clarabel.Cones.PSDIndex.

Section PSDOps.
Context {T : Type} (O : Ops T).
Definition omat := nat -> nat -> T.
Fixpoint osum (f : nat -> T) (n : nat) : T :=
  match n with Datatypes.O => zero O | S k => add O (osum f k) (f k) end.
Definition omm (n : nat) (A B : omat) : omat := fun i j => osum (fun k => mul O (A i k) (B k j)) n.
Definition omT (A : omat) : omat := fun i j => A j i.
(** n x n matrix stored column major / vector stored as a list *)
Definition ocm (n : nat) (data : list T) : omat := fun i j => nth (i + n * j) data (zero O).
Definition ovec (l : list T) : nat -> T := fun i => nth i l (zero O).

(** mul_Wx_inner:  N: Y <- α(RxᵀX Rx) + βY,  T: Y <- α(Rx X Rxᵀ) + βY *)
Definition opsd_conj (tr : bool) (n : nat) (Rx X : omat) : omat :=
  if tr then omm n Rx (omm n X (omT Rx)) else omm n (omm n (omT Rx) X) Rx.
Definition opsd_mul_Wx (tr : bool) (n : nat) (Rx : omat) (x : list T) (a b : T) (y : list T) : list T :=
  mat_to_svec O n (fun i j => add O (mul O a (opsd_conj tr n Rx (svec_to_mat O x) i j))
                                    (mul O b (svec_to_mat O y i j))).
(** circ_op:  X = (YZ + ZY)/2  (syr2k with α = 1/2) *)
Definition opsd_circ_op (n : nat) (y z : list T) : list T :=
  let Y := svec_to_mat O y in let Z := svec_to_mat O z in
  mat_to_svec O n (fun i j => mul O (half O) (add O (omm n Y Z i j) (omm n Z Y i j))).
(** λ_inv_circ_op:  X[i,j] = 2 Z[i,j] / (λ_i + λ_j) *)
Definition opsd_lam_inv_circ (n : nat) (lam : nat -> T) (z : list T) : list T :=
  let Z := svec_to_mat O z in
  mat_to_svec O n (fun i j => div O (mul O (two O) (Z i j)) (add O (lam i) (lam j))).
(** packed vector of a diagonal matrix: zeros, d_c at the end of column block c *)
Definition opsd_diag_vec (n : nat) (d : nat -> T) : list T :=
  flat_map (fun c => repeat (zero O) c ++ [d c]) (seq 0 n).
(** affine_ds: λ_k² at the diagonal positions *)
Definition opsd_affine_ds (n : nat) (lam : nat -> T) : list T :=
  opsd_diag_vec n (fun k => mul O (lam k) (lam k)).
(** _combined_ds_shift_symmetric:  Δz <- WΔz; Δs <- W⁻ᵀΔs; shift = Δs∘Δz; shift -= σμ·e *)
Definition opsd_combined_ds_shift (n : nat) (Rm Ri : omat) (dz ds : list T) (sigmamu : T) : list T :=
  let wz := opsd_mul_Wx false n Rm dz (one O) (zero O) dz in
  let ws := opsd_mul_Wx true n Ri ds (one O) (zero O) ds in
  psd_scaled_unit_shift O n (opsd_circ_op n ws wz) (neg O sigmamu).
(** _Δs_from_Δz_offset_symmetric:  work = λ \ ds;  out = Wᵀ work *)
Definition opsd_ds_offset (n : nat) (Rm : omat) (lam : nat -> T) (ds out : list T) : list T :=
  opsd_mul_Wx true n Rm (opsd_lam_inv_circ n lam ds) (one O) (zero O) out.

(** skron(A), A = R Rᵀ symmetric: entry with row pair (i,j), i <= j and column pair (k,l), k <= l *)
Definition oskron_entry (A : omat) (i j k l : nat) : T :=
  let s2 := sqrt O (two O) in
  match Nat.eqb i j, Nat.eqb k l with
  | false, false => add O (mul O (A i k) (A j l)) (mul O (A i l) (A j k))
  | true, false => mul O (mul O s2 (A j l)) (A j k)
  | false, true => mul O (mul O s2 (A i l)) (A j k)
  | true, true => mul O (A j l) (A j l)
  end.
(** one row of the operator in packed column order (l outer, k <= l inner) *)
Definition oskron_row (n : nat) (A : omat) (i j : nat) : list T :=
  flat_map (fun l => map (fun k => oskron_entry A i j k l) (seq 0 (S l))) (seq 0 n).
(** get_Hs: the upper triangle of Hs packed column by column; column (k,l), rows (i,j) up to and
    including the column itself *)
Definition opsd_pairs (n : nat) : list (nat * nat) :=
  flat_map (fun l => map (fun k => (k, l)) (seq 0 (S l))) (seq 0 n).
Definition opsd_get_Hs (n : nat) (A : omat) : list T :=
  flat_map (fun c : nat => let kl := nth c (opsd_pairs n) (0, 0)%nat in
                     map (fun r : nat => let ij := nth r (opsd_pairs n) (0, 0)%nat in
                                         oskron_entry A (fst ij) (snd ij) (fst kl) (snd kl)) (seq 0 (S c)))
           (seq 0 (length (opsd_pairs n))).
End PSDOps.
