(** Model of /repo/src/solver/core/cones/nonnegativecone.rs over [Ops T].
    Mutation through [&mut] becomes a returned value; the operation order of every scalar
    expression is the one in the source.  Definitions only. *)
From Coq Require Import List ZArith.
Import ListNotations.
Require Import Clarabel.Base.Ops Clarabel.Cones.Vec.

Section NN.
Context {T : Type} (O : Ops T).

(** update_scaling: λ = sqrt(s*z), w = sqrt(s/z); returns (w, λ) *)
Definition nn_update_scaling (s z : list T) : list T * list T :=
  (map2 (fun si zi => sqrt O (div O si zi)) s z,
   map2 (fun si zi => sqrt O (mul O si zi)) s z).

(** set_identity_scaling: w = 1 (λ untouched) *)
Definition nn_set_identity_scaling (w : list T) : list T := map (fun _ => one O) w.

(** mul_W / mul_Winv: y[i] = α*(x[i]*w[i]) + β*y[i]   (the transpose flag is ignored) *)
Fixpoint nn_mul_W (w x : list T) (a b : T) (y : list T) : list T :=
  match w, x, y with
  | wi :: w', xi :: x', yi :: y' =>
      add O (mul O a (mul O xi wi)) (mul O b yi) :: nn_mul_W w' x' a b y'
  | _, _, _ => []
  end.
Fixpoint nn_mul_Winv (w x : list T) (a b : T) (y : list T) : list T :=
  match w, x, y with
  | wi :: w', xi :: x', yi :: y' =>
      add O (mul O a (div O xi wi)) (mul O b yi) :: nn_mul_Winv w' x' a b y'
  | _, _, _ => []
  end.

(** get_Hs (diagonal block): w*w;   mul_Hs: w*(w*x) *)
Definition nn_get_Hs (w : list T) : list T := map (fun wi => mul O wi wi) w.
Definition nn_mul_Hs (w x : list T) : list T := map2 (fun wi xi => mul O wi (mul O wi xi)) w x.

Definition nn_affine_ds (lam : list T) : list T := map (fun l => mul O l l) lam.
Definition nn_circ_op (y z : list T) : list T := map2 (fun yi zi => mul O yi zi) y z.
Definition nn_inv_circ_op (y z : list T) : list T := map2 (fun yi zi => div O zi yi) y z.
Definition nn_ds_from_dz_offset (ds z : list T) : list T := map2 (fun d zi => div O d zi) ds z.

(** _combined_ds_shift_symmetric specialised to this cone:
    tmp <- step_z; step_z <- W tmp (α=1, β=0, y = old step_z); tmp <- step_s;
    step_s <- W⁻¹ tmp; shift <- step_s ∘ step_z; shift <- shift + (-σμ) *)
Definition nn_combined_ds_shift (w step_z step_s : list T) (sigmamu : T) : list T :=
  let wz := nn_mul_W w step_z (one O) (zero O) step_z in
  let ws := nn_mul_Winv w step_s (one O) (zero O) step_s in
  vtranslate O (neg O sigmamu) (nn_circ_op ws wz).

(** margins: (minimum, Σ max(z_i,0)); the slice is non-empty (dimension >= 1) *)
Definition nn_margins (z : list T) : T * T :=
  match z with
  | [] => (zero O, zero O)   (* dimension 0 is not modelled *)
  | z0 :: z' =>
      (vmin1 O z0 z',
       fold_left (fun b zi => add O b (omax O zi (zero O))) z (zero O))
  end.
Definition nn_scaled_unit_shift (z : list T) (a : T) : list T := vtranslate O a z.
Definition nn_unit_initialization (n : nat) : list T * list T :=
  (repeat (one O) n, repeat (one O) n).

(** step_length, one of the two identical ratio tests:
    for i: if y[i] < 0 { α = min(α, -x[i]/y[i]) } *)
Fixpoint nn_step (x y : list T) (alpha : T) : T :=
  match x, y with
  | xi :: x', yi :: y' =>
      nn_step x' y' (if ltb O yi (zero O) then omin O alpha (div O (neg O xi) yi) else alpha)
  | _, _ => alpha
  end.
Definition nn_step_length (dz ds z s : list T) (amax : T) : T * T :=
  (nn_step z dz amax, nn_step s ds amax).
End NN.
