(** C13, second-order cone, part 2: packing index of the dense get_Hs block, inverse Jordan
    product, and the update_scaling-level Nesterov–Todd identities. *)
From Coq Require Import List Reals ZArith Lra Lia Bool Psatz Arith.
Import ListNotations.
Require Import Clarabel.Base.Ops Clarabel.Cones.Vec Clarabel.Cones.SOC Clarabel.Cones.SpecC15
               Clarabel.Cones.SpecC13 Clarabel.Cones.LemmasVec Clarabel.Cones.LemmasStepNN
               Clarabel.Cones.LemmasStepSOC Clarabel.Cones.LemmasScalSOC.
Open Scope R_scope.
Local Notation sqrt := R_sqrt.sqrt.

(** ** packed upper triangle: blocks of lengths 1, 2, 3, … *)
Definition tri (c : nat) : nat := (c * (c + 1) / 2)%nat.
Lemma tri_S c : tri (S c) = (tri c + c + 1)%nat.
Proof.
  unfold tri. replace (S c * (S c + 1))%nat with (c * (c + 1) + (c + 1) * 2)%nat by lia.
  rewrite Nat.div_add by lia. lia.
Qed.
Lemma tri_0 : tri 0 = 0%nat. Proof. reflexivity. Qed.
Lemma tri_mono a b : (a <= b)%nat -> (tri a <= tri b)%nat.
Proof.
  induction b as [|b IH]; intros H.
  - assert (a = 0)%nat by lia. subst. lia.
  - destruct (Nat.eq_dec a (S b)) as [E|E]; [subst; lia|].
    rewrite tri_S. assert (tri a <= tri b)%nat by (apply IH; lia). lia.
Qed.

Section Blocks.
Variable f : nat -> list R.
Hypothesis f_len : forall c, length (f c) = S c.
Lemma blocks_length n : length (flat_map f (seq 0 n)) = tri n.
Proof.
  induction n as [|n IH]; [reflexivity|].
  rewrite seq_S, flat_map_app, app_length, IH. cbn [flat_map]. rewrite app_nil_r, f_len, tri_S. lia.
Qed.
Lemma blocks_nth n : forall c r d, (c < n)%nat -> (r <= c)%nat ->
  nth (tri c + r) (flat_map f (seq 0 n)) d = nth r (f c) d.
Proof.
  induction n as [|n IH]; intros c r d Hc Hr; [lia|].
  rewrite seq_S, flat_map_app. cbn [flat_map Nat.add]. rewrite app_nil_r.
  destruct (Nat.eq_dec c n) as [E|E].
  - subst c. rewrite app_nth2 by (rewrite blocks_length; lia).
    rewrite blocks_length. rewrite (Nat.add_comm (tri n) r), Nat.add_sub. reflexivity.
  - rewrite app_nth1.
    + apply IH; lia.
    + rewrite blocks_length. assert (H : (tri (S c) <= tri n)%nat) by (apply tri_mono; lia).
      rewrite tri_S in H. lia.
Qed.
End Blocks.

Lemma flat_map_seq_shift (g : nat -> list R) k :
  flat_map g (seq 1 k) = flat_map (fun c => g (S c)) (seq 0 k).
Proof. rewrite <- seq_shift. rewrite flat_map_concat_map, map_map, <- flat_map_concat_map. reflexivity. Qed.

Lemma sqrt2_sq : sqrt 2 * sqrt 2 = 2.
Proof. apply sqrt_sqrt. lra. Qed.

Lemma soc_Hs_col_length w c : length (soc_Hs_col OpsR w c) = S c.
Proof. unfold soc_Hs_col. rewrite app_length, map_length, seq_length. cbn. lia. Qed.

Definition hs_block (w : list R) (c : nat) : list R :=
  match c with
  | O => [(sqrt 2 * hd0 OpsR w - 1) * (sqrt 2 * hd0 OpsR w + 1)]
  | S _ => soc_Hs_col OpsR w c
  end.
Lemma hs_block_length w c : length (hs_block w c) = S c.
Proof. destruct c; [reflexivity | apply soc_Hs_col_length]. Qed.

Lemma soc_get_Hs_dense_blocks w eta : (1 <= length w)%nat ->
  soc_get_Hs_dense OpsR w eta
  = map (fun v => v * (eta * eta)) (flat_map (hs_block w) (seq 0 (length w))).
Proof.
  intros Hn. unfold soc_get_Hs_dense, vscale. cbn [mul OpsR]. f_equal.
  destruct (length w) as [|k] eqn:E; [lia|]. cbn [seq flat_map hs_block app]. rewrite two_R.
  cbn [sub add mul one OpsR Ops.sqrt]. f_equal.
  replace (S k - 1)%nat with k by lia.
  rewrite (flat_map_seq_shift (soc_Hs_col OpsR w)), (flat_map_seq_shift (hs_block w)). reflexivity.
Qed.

Lemma soc_get_Hs_dense_length_ok : stmt_soc_get_Hs_dense_length.
Proof.
  intros w eta Hn. rewrite soc_get_Hs_dense_blocks by assumption.
  rewrite map_length, (blocks_length _ (hs_block_length w)). reflexivity.
Qed.

Lemma nth_map_seq (g : nat -> R) k r d : (r < k)%nat -> nth r (map g (seq 0 k)) d = g r.
Proof.
  intros H. rewrite (nth_indep _ d (g 0%nat)) by (rewrite map_length, seq_length; exact H).
  rewrite map_nth, seq_nth by exact H. reflexivity.
Qed.

Lemma hs_block_nth w c r : (r <= c)%nat -> (c < length w)%nat ->
  nth r (hs_block w c) 0 = 2 * nth r w 0 * nth c w 0 - Jent r c.
Proof.
  intros Hr Hc. destruct c as [|c].
  - assert (r = 0)%nat by lia. subst r. cbn [hs_block nth]. unfold Jent. cbn [Nat.eqb].
    destruct w as [|w0 w1]; [cbn in Hc; lia|]. cbn [hd0 nth].
    pose proof sqrt2_sq as Hq. nra.
  - cbn [hs_block]. unfold soc_Hs_col. rewrite two_R. cbn [mul add one zero OpsR].
    destruct (Nat.eq_dec r (S c)) as [E|E].
    + subst r. rewrite app_nth2 by (rewrite map_length, seq_length; lia).
      rewrite map_length, seq_length, Nat.sub_diag. cbn [nth].
      unfold Jent. rewrite Nat.eqb_refl. cbn [Nat.eqb]. lra.
    + rewrite app_nth1 by (rewrite map_length, seq_length; lia).
      rewrite nth_map_seq by lia.
      unfold Jent. rewrite (proj2 (Nat.eqb_neq r (S c)) E). lra.
Qed.

Lemma nth_map_scale e l i : nth i (map (fun v => v * e) l) 0 = nth i l 0 * e.
Proof.
  pose proof (map_nth (fun v => v * e) l 0 i) as H. cbv beta in H. rewrite Rmult_0_l in H. exact H.
Qed.

Lemma soc_get_Hs_dense_entries_ok : stmt_soc_get_Hs_dense_entries.
Proof.
  intros w eta row col Hr Hc Hn. rewrite soc_get_Hs_dense_blocks by assumption.
  rewrite nth_map_scale. fold (tri col).
  rewrite (blocks_nth _ (hs_block_length w)) by assumption.
  rewrite hs_block_nth by assumption. ring.
Qed.

(** ** inverse Jordan product *)
Lemma lin2_lin2_same a b c1 c2 y : forall z, length y = length z ->
  lin2 a (lin2 c1 y c2 z) b y = lin2 (a * c2) z (a * c1 + b) y.
Proof.
  induction y as [|yi y IH]; intros [|zi z] H; cbn in H; try discriminate; [reflexivity|].
  unfold lin2, map2 in *. cbn [combine map fst snd]. rewrite IH by lia. f_equal. ring.
Qed.

Lemma soc_inv_circ_ok : stmt_soc_inv_circ.
Proof.
  intros [|y0 y1] [|z0 z1] Hl Hy; cbn in Hl; try discriminate; [destruct Hy|].
  destruct Hy as [Hy0 Hy]. assert (Hl1 : length y1 = length z1) by lia.
  unfold soc_inv_circ_op. rewrite soc_residual_R. cbn [hd0 tl]. rewrite vdot_R.
  unfold recip. cbn [sub mul div one OpsR].
  set (p := y0 * y0 - rsumsq y1). assert (Hp : p <> 0) by (unfold p; lra).
  set (v := rdot y1 z1).
  unfold soc_circ_op. cbn [hd0 tl]. rewrite vdot_R. cbn [rdot].
  change (vwaxpby OpsR ?a ?x ?b ?y) with (lin2 a x b y).
  rewrite rdot_lin2_r by (lia || reflexivity). fold (rsumsq y1). fold v.
  rewrite lin2_lin2_same by assumption.
  assert (HS : rsumsq y1 = y0 * y0 - p) by (unfold p; lra). rewrite HS.
  f_equal.
  - field. split; lra.
  - rewrite <- (lin2_id z1 y1 (eq_sym Hl1)) at 2. apply lin2_ext; field; repeat split; lra.
Qed.

(** ** update_scaling level *)
Lemma vscale_R c x : vscale OpsR c x = map (fun v => v * c) x.
Proof. reflexivity. Qed.
Lemma vscale_lin2 c a b x : forall y, vscale OpsR c (lin2 a x b y) = lin2 (a * c) x (b * c) y.
Proof.
  induction x as [|xi x IH]; intros [|yi y]; try reflexivity.
  unfold vscale, lin2, map2 in *. cbn [combine map fst snd]. rewrite IH. cbn [mul OpsR]. f_equal. ring.
Qed.
Lemma axpby_scaled a c s : forall z, length s = length z ->
  vaxpby OpsR a z 1 (vscale OpsR c s) = lin2 c s a z.
Proof.
  induction s as [|si s IH]; intros [|zi z] H; cbn in H; try discriminate; [reflexivity|].
  unfold vaxpby, vscale, lin2, map2 in *. cbn [combine map fst snd]. rewrite IH by lia.
  cbn [add mul OpsR]. f_equal. ring.
Qed.
Lemma rsumsq_lin2 a b x : forall y, length x = length y ->
  rsumsq (lin2 a x b y) = a * a * rsumsq x + 2 * a * b * rdot x y + b * b * rsumsq y.
Proof.
  induction x as [|xi x IH]; intros [|yi y] H; cbn in H; try discriminate; [cbn; ring|].
  unfold rsumsq, lin2, map2 in *. cbn [combine map fst snd rdot]. rewrite IH by lia. ring.
Qed.
Lemma lin2_nest al be a b s : forall z, length s = length z ->
  lin2 al z be (lin2 a s b z) = lin2 (be * a) s (al + be * b) z.
Proof.
  induction s as [|si s IH]; intros [|zi z] H; cbn in H; try discriminate; [reflexivity|].
  unfold lin2, map2 in *. cbn [combine map fst snd]. rewrite IH by lia. f_equal. ring.
Qed.
Lemma lin2_nest_l al be a b s : forall z, length s = length z ->
  lin2 al s be (lin2 a s b z) = lin2 (al + be * a) s (be * b) z.
Proof.
  induction s as [|si s IH]; intros [|zi z] H; cbn in H; try discriminate; [reflexivity|].
  unfold lin2, map2 in *. cbn [combine map fst snd]. rewrite IH by lia. f_equal. ring.
Qed.
Lemma rdot_lin2_self_l a b s : forall z, length s = length z ->
  rdot (lin2 a s b z) s = a * rsumsq s + b * rdot s z.
Proof.
  intros z H. rewrite rdot_lin2_l by (auto || lia). fold (rsumsq s). rewrite (rdot_comm z s). ring.
Qed.

Lemma sqrt_soc_residual_R_int x0 x1 : int_soc (x0 :: x1) ->
  sqrt_soc_residual OpsR (x0 :: x1) = sqrt (x0 * x0 - rsumsq x1).
Proof.
  intros [H0 H1]. unfold sqrt_soc_residual. rewrite soc_residual_R. cbn [ltb zero OpsR Ops.sqrt].
  rewrite (proj2 (Rltb_true 0 (x0 * x0 - rsumsq x1))) by lra. reflexivity.
Qed.

(** ⟨s,z⟩ > 0 for interior points (self-duality), from Cauchy–Schwarz *)
Lemma soc_int_dot_pos s0 s1 z0 z1 : length s1 = length z1 ->
  int_soc (s0 :: s1) -> int_soc (z0 :: z1) -> 0 < s0 * z0 + rdot s1 z1.
Proof.
  intros Hl [Hs0 Hs] [Hz0 Hz]. pose proof (cauchy_schwarz s1 z1 Hl) as CS.
  pose proof (rsumsq_nonneg s1). pose proof (rsumsq_nonneg z1).
  assert (rdot s1 z1 * rdot s1 z1 < (s0 * z0) * (s0 * z0)).
  { eapply Rle_lt_trans; [exact CS|]. 
    apply Rle_lt_trans with (rsumsq s1 * (z0 * z0)).
    - apply Rmult_le_compat_l; lra.
    - replace (s0 * z0 * (s0 * z0)) with (s0 * s0 * (z0 * z0)) by ring.
      apply Rmult_lt_compat_r; [nra | lra]. }
  assert (0 < s0 * z0) by nra. nra.
Qed.

(** closed form of the scaling computed by update_scaling on interior points *)
Lemma soc_update_scaling_closed s0 s1 z0 z1 : length s1 = length z1 ->
  int_soc (s0 :: s1) -> int_soc (z0 :: z1) ->
  exists ss zs ws eta k sc,
    0 < ss /\ 0 < zs /\ 0 < ws /\ 0 < eta /\ 0 < k /\
    ss * ss = s0 * s0 - rsumsq s1 /\ zs * zs = z0 * z0 - rsumsq z1 /\
    ws * ws = 2 + 2 * (s0 * z0 + rdot s1 z1) / (ss * zs) /\
    k = eta * zs /\ eta * k = ss /\
    soc_update_scaling OpsR (s0 :: s1) (z0 :: z1) = Some sc /\
    sc_eta sc = eta /\
    sc_w sc = ((s0 * (1 / ss) + z0 / zs) * (1 / ws))
                :: lin2 (1 / ss * (1 / ws)) s1 (- (1 / zs) * (1 / ws)) z1 /\
    sc_lam sc = (1 / 2 * ws * k)
                :: lin2 ((1 / 2 * ws + z0 / zs) / ss * (1 / (s0 / ss + z0 / zs + 2 * (1 / 2 * ws))) * k) s1
                        ((1 / 2 * ws + s0 / ss) / zs * (1 / (s0 / ss + z0 / zs + 2 * (1 / 2 * ws))) * k) z1.
Proof.
  intros Hl Hs Hz.
  pose proof (soc_int_dot_pos s0 s1 z0 z1 Hl Hs Hz) as Hdot.
  pose proof (sqrt_soc_residual_R_int s0 s1 Hs) as Ess.
  pose proof (sqrt_soc_residual_R_int z0 z1 Hz) as Ezs.
  destruct Hs as [Hs0 Hs]. destruct Hz as [Hz0 Hz].
  set (ss := sqrt (s0 * s0 - rsumsq s1)) in *. set (zs := sqrt (z0 * z0 - rsumsq z1)) in *.
  assert (Hss : 0 < ss) by (apply sqrt_lt_R0; lra).
  assert (Hzs : 0 < zs) by (apply sqrt_lt_R0; lra).
  assert (Hss2 : ss * ss = s0 * s0 - rsumsq s1) by (apply sqrt_sqrt; lra).
  assert (Hzs2 : zs * zs = z0 * z0 - rsumsq z1) by (apply sqrt_sqrt; lra).
  set (w0u := s0 * (1 / ss) + z0 / zs).
  set (w1u := lin2 (1 / ss) s1 (- (1 / zs)) z1).
  set (rw := 2 + 2 * (s0 * z0 + rdot s1 z1) / (ss * zs)).
  assert (Hrw : 0 < rw).
  { unfold rw. assert (0 < (s0 * z0 + rdot s1 z1) / (ss * zs)).
    { apply Rdiv_lt_0_compat; [lra|]. apply Rmult_lt_0_compat; lra. } lra. }
  assert (Hres : w0u * w0u - rsumsq w1u = rw).
  { unfold w1u. rewrite rsumsq_lin2 by assumption. unfold w0u, rw.
    replace (rsumsq s1) with (s0 * s0 - ss * ss) by lra.
    replace (rsumsq z1) with (z0 * z0 - zs * zs) by lra. field. split; lra. }
  assert (Hw0u : 0 < w0u).
  { unfold w0u. assert (0 < s0 * (1 / ss)) by (apply Rmult_lt_0_compat; [lra | apply Rdiv_lt_0_compat; lra]).
    assert (0 < z0 / zs) by (apply Rdiv_lt_0_compat; lra). lra. }
  assert (Hint : int_soc (w0u :: w1u)) by (split; [exact Hw0u | lra]).
  pose proof (sqrt_soc_residual_R_int w0u w1u Hint) as Ews. rewrite Hres in Ews.
  set (ws := sqrt rw) in *.
  assert (Hws : 0 < ws) by (apply sqrt_lt_R0; exact Hrw).
  assert (Hws2 : ws * ws = rw) by (apply sqrt_sqrt; lra).
  set (eta := sqrt (ss / zs)).
  assert (Heta : 0 < eta) by (apply sqrt_lt_R0, Rdiv_lt_0_compat; lra).
  assert (Heta2 : eta * eta = ss / zs) by (apply sqrt_sqrt, Rlt_le, Rdiv_lt_0_compat; lra).
  set (k := sqrt (ss * zs)).
  assert (Hk : 0 < k) by (apply sqrt_lt_R0, Rmult_lt_0_compat; lra).
  assert (Hk2 : k * k = ss * zs) by (apply sqrt_sqrt, Rlt_le, Rmult_lt_0_compat; lra).
  assert (Hk1 : k = eta * zs).
  { unfold k. apply sqrt_lem_1; [apply Rlt_le, Rmult_lt_0_compat; lra | apply Rlt_le, Rmult_lt_0_compat; lra|].
    replace (eta * zs * (eta * zs)) with (eta * eta * (zs * zs)) by ring. rewrite Heta2. field. lra. }
  assert (Hk3 : eta * k = ss).
  { rewrite Hk1. replace (eta * (eta * zs)) with (eta * eta * zs) by ring. rewrite Heta2. field. lra. }
  (* the normalised w *)
  set (w1n := lin2 (1 / ss * (1 / ws)) s1 (- (1 / zs) * (1 / ws)) z1).
  assert (Ew1n : map (fun v : R => v * (1 / ws)) w1u = w1n).
  { change (map (fun v : R => v * (1 / ws)) w1u) with (vscale OpsR (1 / ws) w1u).
    unfold w1u. rewrite vscale_lin2. reflexivity. }
  assert (Ew0n : sqrt (1 + rsumsq w1n) = w0u * (1 / ws)).
  { apply sqrt_lem_1.
    - pose proof (rsumsq_nonneg w1n). lra.
    - apply Rlt_le, Rmult_lt_0_compat; [lra | apply Rdiv_lt_0_compat; lra].
    - unfold w1n. rewrite rsumsq_lin2 by assumption.
      assert (Hr : rsumsq w1u = w0u * w0u - ws * ws) by lra.
      unfold w1u in Hr. rewrite rsumsq_lin2 in Hr by assumption.
      assert (rsumsq s1 * (1 / ss * (1 / ss)) - 2 * (1 / ss * (1 / zs)) * rdot s1 z1 + rsumsq z1 * (1 / zs * (1 / zs))
              = w0u * w0u - ws * ws) by lra.
      assert (Hq : (1 / ws) * (1 / ws) * (ws * ws) = 1) by (field; lra).
      nra. }
  eexists ss, zs, ws, eta, k, _.
  repeat (split; [first [assumption | lra] |]).
  unfold soc_update_scaling. rewrite Ess, Ezs.
  cbn [eqb zero OpsR orb]. 
  rewrite (proj2 (Reqb_false zs 0)) by lra. rewrite (proj2 (Reqb_false ss 0)) by lra. cbn [orb].
  unfold recip. cbn [hd0 tl vscale map]. 
  change (map (fun v => mul OpsR v (div OpsR (one OpsR) ss)) s1) with (vscale OpsR (1 / ss) s1).
  cbn [neg div one OpsR]. rewrite axpby_scaled by assumption.
  cbn [add mul div one OpsR]. fold w0u. fold w1u. rewrite Ews.
  rewrite (proj2 (Reqb_false ws 0)) by lra.
  rewrite Ew1n. rewrite vsumsq_R. cbn [Ops.sqrt OpsR]. rewrite Ew0n.
  split; [reflexivity|]. cbn [sc_eta sc_w sc_lam]. split; [reflexivity|]. split; [reflexivity|].
  unfold half, vwaxpby. rewrite two_R. cbn [div one mul OpsR].
  change (vaxpby OpsR ?a ?x ?b ?y) with (lin2 a x b y).
  rewrite vscale_lin2. fold k.
  change (map (fun v : R => v * k) (lin2 ?a ?x ?b ?y)) with (vscale OpsR k (lin2 a x b y)).
  rewrite vscale_lin2. reflexivity.
Qed.

Ltac pos_side :=
  repeat split; try lra; try (apply Rgt_not_eq; nra); try nra.

Lemma soc_nt_identities_ok : stmt_soc_nt_identities.
Proof.
  intros [|s0 s1] [|z0 z1] sc [|y0 y1] Hl Hy Hs Hz Hup; cbn in Hl, Hy; try discriminate;
    try (destruct Hs; fail).
  assert (Hl1 : length s1 = length z1) by lia. assert (Hy1 : length y1 = length z1) by lia.
  destruct (soc_update_scaling_closed s0 s1 z0 z1 Hl1 Hs Hz)
    as (ss & zs & ws & eta & k & sc' & Hss & Hzs & Hws & Heta & Hk & Hss2 & Hzs2 & Hws2 & Hk1 & Hk3 & Hup' & Ee & Ew & El).
  rewrite Hup in Hup'. inversion Hup'; subst sc'; clear Hup'.
  rewrite Ew, El, Ee. destruct Hs as [Hs0 Hs]. destruct Hz as [Hz0 Hz].
  set (a := 1 / ss * (1 / ws)) in *. set (b := - (1 / zs) * (1 / ws)) in *.
  set (w0n := (s0 * (1 / ss) + z0 / zs) * (1 / ws)) in *.
  set (w1n := lin2 a s1 b z1).
  assert (Hw1l : length w1n = length z1) by (apply lin2_length; exact Hl1).
  assert (Hw0n : 0 < w0n).
  { unfold w0n. apply Rmult_lt_0_compat; [|apply Rdiv_lt_0_compat; lra].
    assert (0 < s0 * (1 / ss)) by (apply Rmult_lt_0_compat; [lra | apply Rdiv_lt_0_compat; lra]).
    assert (0 < z0 / zs) by (apply Rdiv_lt_0_compat; lra). lra. }
  assert (P1 : 0 < s0 * zs) by (apply Rmult_lt_0_compat; lra).
  assert (P2 : 0 < z0 * ss) by (apply Rmult_lt_0_compat; lra).
  assert (P3 : 0 < ss * zs) by (apply Rmult_lt_0_compat; lra).
  assert (P4 : 0 < ss * zs * ws) by (apply Rmult_lt_0_compat; lra).
  assert (HA : rsumsq s1 = s0 * s0 - ss * ss) by lra.
  assert (HB : rsumsq z1 = z0 * z0 - zs * zs) by lra.
  assert (HC : rdot s1 z1 = (ws * ws - 2) * (ss * zs) / 2 - s0 * z0).
  { assert (E : (ws * ws - 2) * (ss * zs) / 2 = s0 * z0 + rdot s1 z1).
    { rewrite Hws2. field. split; lra. } lra. }
  assert (Hden : 0 < 1 + w0n) by lra.
  split.
  - rewrite soc_mul_W_R by (rewrite ?Hw1l; auto).
    unfold w1n.
    rewrite rdot_lin2_l by (auto || lia). fold (rsumsq z1).
    rewrite lin2_nest by exact Hl1.
    rewrite HB, HC, Hk1. unfold w0n, a, b in *.
    f_equal.
    + field. pos_side.
    + apply lin2_ext; field; pos_side.
  - rewrite soc_mul_Winv_R by (rewrite ?Hw1l; auto).
    unfold w1n.
    rewrite rdot_lin2_self_l by exact Hl1.
    rewrite lin2_nest_l by exact Hl1.
    assert (Hk4 : k = ss / eta) by (rewrite <- Hk3; field; lra).
    rewrite HA, HC, Hk4. unfold w0n, a, b in *.
    f_equal.
    + field. pos_side.
    + apply lin2_ext; field; pos_side.
Qed.

Lemma soc_scaling_w_length s z sc : length s = length z -> int_soc s -> int_soc z ->
  soc_update_scaling OpsR s z = Some sc -> length (sc_w sc) = length z /\ length (sc_lam sc) = length z.
Proof.
  intros Hl Hs Hz Hup. destruct s as [|s0 s1]; [destruct Hs|]. destruct z as [|z0 z1]; [destruct Hz|].
  cbn in Hl. assert (Hl1 : length s1 = length z1) by lia.
  destruct (soc_update_scaling_closed s0 s1 z0 z1 Hl1 Hs Hz)
    as (ss & zs & ws & eta & k & sc' & _ & _ & _ & _ & _ & _ & _ & _ & _ & _ & Hup' & _ & Ew & El).
  rewrite Hup in Hup'. inversion Hup'; subst sc'. rewrite Ew, El. cbn [length].
  rewrite !lin2_length by exact Hl1. split; reflexivity.
Qed.

Lemma soc_nt_WtWz_ok : stmt_soc_nt_WtWz.
Proof.
  intros s z sc Hl Hs Hz Hup.
  destruct (soc_scaling_w_length s z sc Hl Hs Hz Hup) as [Hwl _].
  destruct (proj1 soc_nt_identities_partial_ok s z sc Hup) as [Hn He].
  destruct (soc_nt_identities_ok s z sc z Hl eq_refl Hs Hz Hup) as [E1 E2].
  rewrite <- (soc_Hs_is_WW_ok (sc_w sc) (sc_eta sc) z z z Hn) by (symmetry; exact Hwl).
  rewrite E1, <- E2.
  apply (soc_W_Winv_inverse_ok (sc_w sc) (sc_eta sc) s z z Hn); try lra; try (symmetry; exact Hwl).
  rewrite Hwl. exact Hl.
Qed.
