(** Models of
      - nonsymmetric_common.rs  [backtrack_search]  (as a function of an abstract membership
        test),
      - compositecone.rs        [step_length], [margins], [scaled_unit_shift],
      - variables.rs            [_shift_to_cone_interior],
      - zerocone.rs             step length / margins / shift.
    Definitions only. *)
From Coq Require Import List ZArith Bool.
Import ListNotations.
Require Import Clarabel.Base.Ops Clarabel.Cones.Vec Clarabel.Cones.NN Clarabel.Cones.SOC.

Section Step.
Context {T : Type} (O : Ops T).

(** ** backtrack_search
    loop { work = q + α dq; if in_cone(work) {break}; α *= step; if α < α_min {α = 0; break} }
    [in_cone_at α] abstracts [is_in_cone_fcn(1*q + α*dq)].  The loop becomes recursion on
    fuel; [None] = fuel exhausted (excluded by [backtrack_terminates]). *)
Fixpoint backtrack (fuel : nat) (in_cone_at : T -> bool) (alpha alpha_min step : T) : option T :=
  match fuel with
  | Datatypes.O => None
  | S f =>
      if in_cone_at alpha then Some alpha
      else let alpha' := mul O alpha step in
           if ltb O alpha' alpha_min then Some (zero O)
           else backtrack f in_cone_at alpha' alpha_min step
  end.
Definition backtrack_search (fuel : nat) (in_cone : list T -> bool) (dq q : list T)
           (alpha_init alpha_min step : T) : option T :=
  backtrack fuel (fun a => in_cone (vaxpby O (one O) q a dq)) alpha_init alpha_min step.

(** ** composite cone *)
(** A constituent cone as seen by [CompositeCone::step_length]: its [is_symmetric()] flag and
    its step-length function of the incoming α (the four vectors and the settings are fixed
    during one call, so they are part of the closure). *)
Definition cone_view : Type := bool * (T -> T * T).

(** innerfcn: `if cone.is_symmetric() == symcond { continue }` *)
Definition comp_inner (cones : list cone_view) (alpha : T) (symcond : bool) : T :=
  fold_left (fun a (c : cone_view) =>
               if Bool.eqb (fst c) symcond then a
               else let r := snd c a in omin O a (omin O (fst r) (snd r)))
            cones alpha.
(** step_length: first pass with symcond = true (which, as coded, visits the NONsymmetric
    cones — DESIGN F10), cap by max_step_fraction when some cone is nonsymmetric, second pass
    with symcond = false. *)
Definition comp_step (cones : list cone_view) (max_step_fraction amax : T) : T :=
  let all_sym := forallb (fun c : cone_view => fst c) cones in
  let a := comp_inner cones amax true in
  let a := if all_sym then a else omin O max_step_fraction a in
  comp_inner cones a false.

(** ** margins and shifts over a block vector *)
Inductive ckind := KZero | KNN | KSOC.
Definition block : Type := ckind * list T.
(** primal = true, dual = false *)
Definition cone_margins (big : T) (b : block) : T * T :=
  match fst b with
  | KZero => (big, zero O)
  | KNN => nn_margins O (snd b)
  | KSOC => soc_margins O (snd b)
  end.
Definition cone_shift (primal : bool) (a : T) (b : block) : block :=
  match fst b with
  | KZero => (KZero, if primal then map (fun _ => zero O) (snd b) else snd b)
  | KNN => (KNN, nn_scaled_unit_shift O (snd b) a)
  | KSOC => (KSOC, soc_scaled_unit_shift O (snd b) a)
  end.
Definition cone_degree (b : block) : nat :=
  match fst b with KZero => 0 | KNN => length (snd b) | KSOC => 1 end.
(** CompositeCone::margins: α starts at T::max_value() = [big] *)
Definition comp_margins (big : T) (bs : list block) : T * T :=
  fold_left (fun ab b => let m := cone_margins big b in
                         (omin O (fst ab) (fst m), add O (snd ab) (snd m)))
            bs (big, zero O).
Definition comp_shift (primal : bool) (a : T) (bs : list block) : list block :=
  map (cone_shift primal a) bs.
Definition comp_degree (bs : list block) : nat := fold_left (fun d b => d + cone_degree b)%nat bs 0%nat.

Definition shift_target (pos_margin : T) (degree : nat) : T :=
  omax O (one O) (div O (mul O pos_margin (div O (one O) (ofZ O 10))) (ofZ O (Z.of_nat degree))).

Definition shift_to_cone_interior (big : T) (primal : bool) (bs : list block) : list block :=
  let m := comp_margins big bs in
  let target := shift_target (snd m) (comp_degree bs) in
  if leb O (fst m) (zero O) then
    comp_shift primal target (comp_shift primal (neg O (fst m)) bs)
  else if ltb O (fst m) target then comp_shift primal (sub O target (fst m)) bs
  else comp_shift primal (zero O) bs.
End Step.
