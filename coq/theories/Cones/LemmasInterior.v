(** C07 support: damped steps keep NN / SOC iterates strictly interior (reals, any dimension). *)
From Coq Require Import List Reals ZArith Lra Lia Bool Psatz.
Import ListNotations.
Require Import Clarabel.Base.Ops Clarabel.Cones.Vec Clarabel.Cones.NN Clarabel.Cones.SOC
               Clarabel.Cones.SpecC15 Clarabel.Cones.SpecInterior Clarabel.Cones.LemmasVec
               Clarabel.Cones.LemmasStepNN Clarabel.Cones.LemmasStepSOC Clarabel.Cones.LemmasScalSOC
               Clarabel.Cones.LemmasScalSOC2.
Open Scope R_scope.

(** x + (t f) y = (1-f) x + f (x + t y) *)
Lemma pt_damped x : forall y t f, length x = length y ->
  pt x (t * f) y = lin2 (1 - f) x f (pt x t y).
Proof.
  induction x as [|xi x IH]; intros [|yi y] t f H; cbn in H; try discriminate; [reflexivity|].
  rewrite !pt_cons. unfold lin2, map2 in *. cbn [combine map fst snd]. rewrite <- IH by lia.
  f_equal. ring.
Qed.

Lemma nn_convex_interior x : forall v f, length x = length v -> int_nn x -> in_nn v -> 0 <= f < 1 ->
  int_nn (lin2 (1 - f) x f v).
Proof.
  induction x as [|xi x IH]; intros [|vi v] f H Hx Hv Hf; cbn in H; try discriminate; [constructor|].
  inversion Hx; inversion Hv; subst. unfold lin2, map2 in *. cbn [combine map fst snd].
  constructor; [|apply IH; (assumption || lia)].
  assert (0 < (1 - f) * xi) by (apply Rmult_lt_0_compat; lra).
  assert (0 <= f * vi) by (apply Rmult_le_pos; lra). lra.
Qed.

Lemma nn_step_keeps_interior_ok : stmt_nn_step_keeps_interior.
Proof.
  intros x y amax frac t Hl Hx Ha Hf Ht.
  assert (Hin : in_nn x) by (eapply Forall_impl; [|exact Hx]; intros; cbn in *; lra).
  rewrite pt_damped by exact Hl. apply nn_convex_interior; try lra; try assumption.
  - rewrite pt_length; auto.
  - apply (nn_step_safe_ok x y amax Hl Hin Ha t Ht).
Qed.

Lemma soc_convex_interior_ok : stmt_soc_convex_interior.
Proof.
  intros [|u0 u1] [|v0 v1] f Hl Hu Hv Hf; cbn in Hl; try discriminate; [destruct Hu|].
  destruct Hu as [Hu0 Hu]. destruct Hv as [Hv0 Hv]. assert (Hl1 : length u1 = length v1) by lia.
  unfold map2. cbn [combine map fst snd].
  change (map (fun p : R * R => (1 - f) * fst p + f * snd p) (combine u1 v1)) with (lin2 (1 - f) u1 f v1).
  cbn [int_soc]. rewrite rsumsq_lin2 by exact Hl1.
  pose proof (cauchy_schwarz u1 v1 Hl1) as CS.
  pose proof (rsumsq_nonneg u1) as HA. pose proof (rsumsq_nonneg v1) as HB.
  set (A := rsumsq u1) in *. set (B := rsumsq v1) in *. set (C := rdot u1 v1) in *.
  assert (HC : C <= u0 * v0).
  { destruct (Rle_dec C (u0 * v0)) as [H|H]; [exact H|]. exfalso.
    assert (0 <= u0 * v0) by (apply Rmult_le_pos; lra).
    assert (u0 * v0 * (u0 * v0) < C * C) by nra.
    assert (A * B <= u0 * u0 * (v0 * v0)).
    { apply Rle_trans with (A * (v0 * v0)); [apply Rmult_le_compat_l; lra|].
      apply Rmult_le_compat_r; nra. }
    nra. }
  set (a := 1 - f). assert (Ha : 0 < a) by (unfold a; lra).
  split.
  - assert (0 < a * u0) by (apply Rmult_lt_0_compat; lra).
    assert (0 <= f * v0) by (apply Rmult_le_pos; lra). lra.
  - assert (T1 : 0 < a * a * (u0 * u0 - A)) by (apply Rmult_lt_0_compat; [nra | lra]).
    assert (T2 : 0 <= 2 * a * f * (u0 * v0 - C)).
    { apply Rmult_le_pos; [|lra]. apply Rmult_le_pos; [lra | lra]. }
    assert (T3 : 0 <= f * f * (v0 * v0 - B)) by (apply Rmult_le_pos; [nra | lra]).
    nra.
Qed.

Lemma soc_step_keeps_interior_ok : stmt_soc_step_keeps_interior.
Proof.
  intros x y amax frac t Hl Hx Ha Hf Ht.
  rewrite pt_damped by exact Hl.
  apply (soc_convex_interior_ok x (pt x t y) frac); try lra; try assumption.
  - rewrite pt_length; auto.
  - apply (soc_step_safe_ok x y amax Hl Hx Ha t Ht).
Qed.

Lemma nn_calc_step_keeps_interior_ok : stmt_nn_calc_step_keeps_interior.
Proof.
  intros z s dz ds amax frac Hz Hs Iz Is Ha Hf. cbn zeta. unfold nn_step_length. cbn [fst snd].
  set (az := nn_step OpsR z dz amax). set (as_ := nn_step OpsR s ds amax).
  assert (Iz' : in_nn z) by (eapply Forall_impl; [|exact Iz]; intros; cbn in *; lra).
  assert (Is' : in_nn s) by (eapply Forall_impl; [|exact Is]; intros; cbn in *; lra).
  pose proof (nn_step_nonneg_ok z dz amax Hz Iz' Ha). pose proof (nn_step_nonneg_ok s ds amax Hs Is' Ha).
  pose proof (Rmin_l az as_). pose proof (Rmin_r az as_).
  assert (0 <= Rmin az as_) by (apply Rmin_glb; assumption).
  split; [apply (nn_step_keeps_interior_ok z dz amax) | apply (nn_step_keeps_interior_ok s ds amax)];
    try assumption; unfold az, as_ in *; lra.
Qed.

Lemma soc_calc_step_keeps_interior_ok : stmt_soc_calc_step_keeps_interior.
Proof.
  intros z s dz ds amax frac Hz Hs Iz Is Ha Hf. cbn zeta. unfold soc_step_length. cbn [fst snd].
  set (az := soc_step OpsR z dz amax). set (as_ := soc_step OpsR s ds amax).
  pose proof (soc_step_le_max_ok z dz amax Hz Iz Ha). pose proof (soc_step_le_max_ok s ds amax Hs Is Ha).
  pose proof (Rmin_l az as_). pose proof (Rmin_r az as_).
  assert (0 <= Rmin az as_) by (apply Rmin_glb; unfold az, as_ in *; lra).
  split; [apply (soc_step_keeps_interior_ok z dz amax) | apply (soc_step_keeps_interior_ok s ds amax)];
    try assumption; unfold az, as_ in *; lra.
Qed.
