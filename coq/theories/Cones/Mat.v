(** Real n x n matrices as functions [nat -> nat -> R] (entries outside 0..n-1 are irrelevant),
    with the finite sums of SpecPSD.v.  Specification-level definitions used by the PSD-cone
    theorems (C13 scaling algebra, C15 step length and shift).  Definitions only. *)
From Coq Require Import List Reals ZArith Arith.
Require Import Clarabel.Base.Ops Clarabel.Cones.SpecPSD.
Open Scope R_scope.

Definition mat := nat -> nat -> R.
Definition vec := nat -> R.
(** equality of the n x n blocks *)
Definition meq (n : nat) (A B : mat) : Prop := forall i j, (i < n)%nat -> (j < n)%nat -> A i j = B i j.
Definition mmul (n : nat) (A B : mat) : mat := fun i j => sumn (fun k => A i k * B k j) n.
Definition mT (A : mat) : mat := fun i j => A j i.
Definition mI : mat := fun i j => if Nat.eqb i j then 1 else 0.
Definition mdiag (d : vec) : mat := fun i j => if Nat.eqb i j then d i else 0.
Definition madd (A B : mat) : mat := fun i j => A i j + B i j.
Definition mscal (c : R) (A : mat) : mat := fun i j => c * A i j.
Definition mv (n : nat) (A : mat) (x : vec) : vec := fun i => sumn (fun k => A i k * x k) n.
(** quadratic form xᵀ A x and positive semidefiniteness / definiteness *)
Definition qf (n : nat) (A : mat) (x : vec) : R := sumn (fun i => x i * mv n A x i) n.
Definition psd (n : nat) (A : mat) : Prop := forall x, 0 <= qf n A x.
Definition vnz (n : nat) (x : vec) : Prop := exists i, (i < n)%nat /\ x i <> 0.
Definition pd (n : nat) (A : mat) : Prop := forall x, vnz n x -> 0 < qf n A x.
Definition vdotn (n : nat) (x y : vec) : R := sumn (fun i => x i * y i) n.
