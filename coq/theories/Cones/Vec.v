(** Vector helpers over [Ops T], mirroring the operation order of
    /repo/src/algebra/vecmath.rs (folds from the left starting at zero, [a*x + b*y] for
    axpby/waxpby, [x*c] for scale).  Definitions only. *)
From Coq Require Import List ZArith.
Import ListNotations.
Require Import Clarabel.Base.Ops.

Section Vec.
Context {T : Type} (O : Ops T).

Definition two : T := ofZ O 2.
Definition four : T := ofZ O 4.
Definition half : T := div O (one O) two.
Definition recip (x : T) : T := div O (one O) x.

Definition map2 (f : T -> T -> T) (x y : list T) : list T :=
  map (fun p => f (fst p) (snd p)) (combine x y).

(** [dot]: zip(self,y).fold(0, |acc,(x,y)| acc + x*y) *)
Definition vdot (x y : list T) : T :=
  fold_left (fun acc p => add O acc (mul O (fst p) (snd p))) (combine x y) (zero O).
Definition vsumsq (x : list T) : T := vdot x x.
Definition vnorm (x : list T) : T := sqrt O (vsumsq x).
(** [scale c]: x <- x*c *)
Definition vscale (c : T) (x : list T) : list T := map (fun v => mul O v c) x.
(** [y.axpby(a,x,b)]: y <- a*x + b*y *)
Definition vaxpby (a : T) (x : list T) (b : T) (y : list T) : list T :=
  map2 (fun xi yi => add O (mul O a xi) (mul O b yi)) x y.
(** [w.waxpby(a,x,b,y)]: w <- a*x + b*y  (same arithmetic as axpby) *)
Definition vwaxpby (a : T) (x : list T) (b : T) (y : list T) : list T := vaxpby a x b y.
Definition vtranslate (c : T) (x : list T) : list T := map (fun v => add O v c) x.
Definition vneg (x : list T) : list T := map (neg O) x.
(** [minimum]: fold from +infinity; for a non-empty slice that is the fold from the head *)
Definition vmin1 (x0 : T) (x : list T) : T := fold_left (fun r s => omin O r s) x x0.

(** x + t*y, the point reached by a step of length t (specification helper, also used by
    the float checkers) *)
Definition vstep (x : list T) (t : T) (y : list T) : list T :=
  map2 (fun xi yi => add O xi (mul O t yi)) x y.
End Vec.
