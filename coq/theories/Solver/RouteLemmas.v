(** Proofs about the routing model [Solver/Route.v] (C20). *)
From Coq Require Import List NArith Bool Arith Lia.
Import ListNotations.
Require Import Clarabel.Solver.Route.

Lemma upd_same f i v : upd f i v i = v.
Proof. unfold upd. rewrite N.eqb_refl. reflexivity. Qed.
Lemma upd_other f i v j : j <> i -> upd f i v j = f j.
Proof. unfold upd. intros H. apply N.eqb_neq in H. rewrite H. reflexivity. Qed.

Lemma run_app s a b :
  run s (a ++ b) =
  let '(s1, x1) := run s a in let '(s2, x2) := run s1 b in (s2, x1 ++ x2).
Proof.
  revert s. induction a as [|o a IH]; intros s; cbn [app run].
  - destruct (run s b) as [s2 x2]. reflexivity.
  - destruct (step s o) as [s1 x]. rewrite IH.
    destruct (run s1 a) as [s2 x1]. destruct (run s2 b) as [s3 x2]. reflexivity.
Qed.

Lemma run_cons s o r :
  run s (o :: r) = let '(s1, x) := step s o in let '(s2, xs) := run s1 r in (s2, x :: xs).
Proof. reflexivity. Qed.

Lemma step_kind s o : akind_of (tgt (fst (step s o))) = astep (akind_of (tgt s)) o.
Proof.
  destruct s as [t w]. destruct o; cbn [step fst tgt akind_of astep]; try reflexivity.
  - unfold write_to. cbn [tgt wld]. destruct t; reflexivity.
  - destruct t; reflexivity.
Qed.

(** effect of one step on the three kinds of external sinks *)
Lemma step_file s o i :
  w_file (wld (fst (step s o))) i =
  w_file (wld s) i ++ routed (is_file i) (akind_of (tgt s)) [o].
Proof.
  destruct s as [t w]. cbn [routed]. rewrite app_nil_r.
  destruct o; cbn [step fst wld tgt]; try (rewrite app_nil_r; reflexivity).
  unfold write_to. cbn [tgt wld]. destruct t as [|j|c|j|]; cbn [wld w_file akind_of is_file];
    try (rewrite app_nil_r; reflexivity).
  destruct (N.eqb j i) eqn:E.
  - apply N.eqb_eq in E. subst j. rewrite upd_same. reflexivity.
  - apply N.eqb_neq in E. rewrite upd_other by congruence. rewrite app_nil_r. reflexivity.
Qed.

Lemma step_stream s o i :
  w_stream (wld (fst (step s o))) i =
  w_stream (wld s) i ++ routed (is_stream i) (akind_of (tgt s)) [o].
Proof.
  destruct s as [t w]. cbn [routed]. rewrite app_nil_r.
  destruct o; cbn [step fst wld tgt]; try (rewrite app_nil_r; reflexivity).
  unfold write_to. cbn [tgt wld]. destruct t as [|j|c|j|]; cbn [wld w_stream akind_of is_stream];
    try (rewrite app_nil_r; reflexivity).
  destruct (N.eqb j i) eqn:E.
  - apply N.eqb_eq in E. subst j. rewrite upd_same. reflexivity.
  - apply N.eqb_neq in E. rewrite upd_other by congruence. rewrite app_nil_r. reflexivity.
Qed.

Lemma step_stdout s o :
  w_stdout (wld (fst (step s o))) =
  w_stdout (wld s) ++ routed is_stdout (akind_of (tgt s)) [o].
Proof.
  destruct s as [t w]. cbn [routed]. rewrite app_nil_r.
  destruct o; cbn [step fst wld tgt]; try (rewrite app_nil_r; reflexivity).
  unfold write_to. cbn [tgt wld]. destruct t as [|j|c|j|]; cbn [wld w_stdout akind_of is_stdout];
    try (rewrite app_nil_r; reflexivity). reflexivity.
Qed.

(** * refinement: every sink holds exactly the writes issued while it was the target *)
Theorem route_refines ops : forall s,
  let s' := fst (run s ops) in
  (forall i, w_file (wld s') i = w_file (wld s) i ++ routed (is_file i) (akind_of (tgt s)) ops) /\
  (forall i, w_stream (wld s') i = w_stream (wld s) i ++ routed (is_stream i) (akind_of (tgt s)) ops) /\
  w_stdout (wld s') = w_stdout (wld s) ++ routed is_stdout (akind_of (tgt s)) ops.
Proof.
  induction ops as [|o r IH]; intros s; cbn zeta.
  - cbn [run fst routed]. repeat split; intros; rewrite app_nil_r; reflexivity.
  - rewrite run_cons. destruct (step s o) as [s1 x] eqn:Es.
    specialize (IH s1). cbn zeta in IH. destruct (run s1 r) as [s2 xs] eqn:Er.
    cbn [fst] in *. destruct IH as (IHf & IHs & IHo).
    assert (Hk : akind_of (tgt s1) = astep (akind_of (tgt s)) o).
    { pose proof (step_kind s o) as H. rewrite Es in H. exact H. }
    repeat split.
    + intros i. rewrite IHf, Hk. pose proof (step_file s o i) as H. rewrite Es in H. cbn [fst] in H.
      rewrite H. cbn [routed]. rewrite !app_nil_r, app_assoc. reflexivity.
    + intros i. rewrite IHs, Hk. pose proof (step_stream s o i) as H. rewrite Es in H. cbn [fst] in H.
      rewrite H. cbn [routed]. rewrite !app_nil_r, app_assoc. reflexivity.
    + rewrite IHo, Hk. pose proof (step_stdout s o) as H. rewrite Es in H. cbn [fst] in H.
      rewrite H. cbn [routed]. rewrite !app_nil_r, app_assoc. reflexivity.
Qed.

(** * the same writes deliver the same bytes to a buffer, a stream and a file *)
Lemma routed_writes sel k ws :
  routed sel k (map Write ws) = if sel k then concat ws else [].
Proof.
  induction ws as [|b ws IH]; cbn [map routed concat astep].
  - destruct (sel k); reflexivity.
  - rewrite IH. destruct (sel k); reflexivity.
Qed.

Lemma run_writes_buffer c w ws :
  tgt (fst (run (mkSt (TBuffer c) w) (map Write ws))) = TBuffer (c ++ concat ws) /\
  wld (fst (run (mkSt (TBuffer c) w) (map Write ws))) = w.
Proof.
  revert c. induction ws as [|b ws IH]; intros c; cbn [map concat].
  - cbn [run fst tgt wld]. rewrite app_nil_r. auto.
  - rewrite run_cons. cbn [step]. unfold write_to. cbn [tgt wld].
    specialize (IH (c ++ b)). destruct (run (mkSt (TBuffer (c ++ b)) w) (map Write ws)) as [s2 xs].
    cbn [fst] in *. rewrite app_assoc. exact IH.
Qed.

Theorem same_bytes_all_targets (pre : list op) (ws : list bytes) (i j : N) :
  let s0 := fst (run init pre) in
  let sb := fst (run init (pre ++ ToBuffer :: map Write ws)) in
  let ss := fst (run init (pre ++ ToStream i :: map Write ws)) in
  let sf := fst (run init (pre ++ ToFile j :: map Write ws)) in
  tgt sb = TBuffer (concat ws) /\
  snd (step sb GetBuffer) = OBuf (concat ws) /\
  w_stream (wld ss) i = w_stream (wld s0) i ++ concat ws /\
  w_file (wld sf) j = w_file (wld s0) j ++ concat ws.
Proof.
  cbn zeta. rewrite !run_app. destruct (run init pre) as [s0 x0] eqn:E0. cbn [fst].
  rewrite !run_cons. cbn [step].
  pose proof (run_writes_buffer [] (wld s0) ws) as Hb.
  destruct (run (mkSt (TBuffer []) (wld s0)) (map Write ws)) as [sb xb] eqn:Eb.
  pose proof (route_refines (map Write ws) (mkSt (TStream i) (wld s0))) as Hs.
  destruct (run (mkSt (TStream i) (wld s0)) (map Write ws)) as [ss xs] eqn:Es.
  pose proof (route_refines (map Write ws) (mkSt (TFile j) (wld s0))) as Hf.
  destruct (run (mkSt (TFile j) (wld s0)) (map Write ws)) as [sf xf] eqn:Ef.
  cbn [fst] in *. cbn zeta in Hs, Hf. cbn [tgt wld akind_of] in Hs, Hf.
  destruct Hb as [Hb1 Hb2]. cbn [app] in Hb1.
  destruct Hs as (_ & Hs & _). destruct Hf as (Hf & _ & _).
  repeat split.
  - exact Hb1.
  - cbn [step snd]. rewrite Hb1. reflexivity.
  - rewrite Hs, routed_writes. cbn [is_stream]. rewrite N.eqb_refl. reflexivity.
  - rewrite Hf, routed_writes. cbn [is_file]. rewrite N.eqb_refl. reflexivity.
Qed.

(** * frame: a write touches only the current target *)
Theorem write_frame s b :
  let s' := fst (step s (Write b)) in
  (forall i, akind_of (tgt s) <> AFile i -> w_file (wld s') i = w_file (wld s) i) /\
  (forall i, akind_of (tgt s) <> AStream i -> w_stream (wld s') i = w_stream (wld s) i) /\
  (akind_of (tgt s) <> AStdout -> w_stdout (wld s') = w_stdout (wld s)) /\
  akind_of (tgt s') = akind_of (tgt s).
Proof.
  cbn zeta. repeat split.
  - intros i H. rewrite step_file. cbn [routed]. destruct (is_file i (akind_of (tgt s))) eqn:E.
    + unfold is_file in E. destruct (akind_of (tgt s)); try discriminate.
      apply N.eqb_eq in E. subst. congruence.
    + rewrite !app_nil_r. reflexivity.
  - intros i H. rewrite step_stream. cbn [routed]. destruct (is_stream i (akind_of (tgt s))) eqn:E.
    + unfold is_stream in E. destruct (akind_of (tgt s)); try discriminate.
      apply N.eqb_eq in E. subst. congruence.
    + rewrite !app_nil_r. reflexivity.
  - intros H. rewrite step_stdout. cbn [routed]. destruct (akind_of (tgt s)); try congruence;
      cbn [is_stdout]; rewrite !app_nil_r; reflexivity.
  - rewrite step_kind. reflexivity.
Qed.

(** * the sink (what verbose = false amounts to for the routing layer) delivers nothing *)
Theorem sink_silent w ws :
  fst (run (mkSt TSink w) (map Write ws)) = mkSt TSink w.
Proof.
  induction ws as [|b ws IH]; [reflexivity|].
  cbn [map]. rewrite run_cons. cbn [step]. unfold write_to. cbn [tgt].
  destruct (run (mkSt TSink w) (map Write ws)) as [s2 xs]. cbn [fst] in *. exact IH.
Qed.

(** a cloned stream target is the sink: later writes reach no stream *)
Theorem cloned_stream_silent i w ws :
  wld (fst (run (mkSt (TStream i) w) (CloneInfo :: map Write ws))) = w.
Proof.
  rewrite run_cons. cbn [step clone_target tgt wld].
  pose proof (sink_silent w ws) as H.
  destruct (run (mkSt TSink w) (map Write ws)) as [s2 xs]. cbn [fst] in *. rewrite H. reflexivity.
Qed.

(** * buffer retrieval *)
Theorem get_buffer_spec s :
  (snd (step s GetBuffer) = OErr <-> akind_of (tgt s) <> ABuffer) /\
  (forall c, tgt s = TBuffer c -> snd (step s GetBuffer) = OBuf c) /\
  fst (step s GetBuffer) = s.
Proof.
  cbn [step fst snd]. repeat split.
  - destruct (tgt s); cbn [akind_of]; intros H; try discriminate; congruence.
  - destruct (tgt s); cbn [akind_of]; intros H; try reflexivity. congruence.
  - intros c H. rewrite H. reflexivity.
Qed.
