(** Proofs of the skeleton statements (Solver/Spec.v). *)
From Coq Require Import List NArith Bool Lia.
Import ListNotations.
Require Import Clarabel.Solver.Skeleton Clarabel.Solver.Spec.

Section Proofs.
Variable A : Type.
Variable azero : A.
Variable a_is_zero a_lt_switch a_le_term : A -> bool.

Notation pass := (pass A azero a_lt_switch a_le_term).
Notation loop := (loop A azero a_lt_switch a_le_term).
Notation steps := (steps A azero a_lt_switch a_le_term).
Notation finish := (finish A a_is_zero).
Notation run := (run A azero a_is_zero a_lt_switch a_le_term).
Notation st := (st A).
Notation pin := (pin A).
Notation iter := (iter A).
Notation scaling := (scaling A).
Notation alpha := (alpha A).
Notation stat := (stat A).
Notation lines := (lines A).
Notation nonsym_pd := (nonsym_pd A).

Lemma status_eqb_eq a b : status_eqb a b = true <-> a = b.
Proof. destruct a, b; cbn; split; intros H; try reflexivity; try discriminate. Qed.
Lemma status_eqb_neq a b : status_eqb a b = false <-> a <> b.
Proof.
  split; intros H.
  - intros E. apply status_eqb_eq in E. congruence.
  - destruct (status_eqb a b) eqn:E; [|reflexivity]. apply status_eqb_eq in E. contradiction.
Qed.

Lemma limits_unsolved e it pre over :
  limits e it pre over = Unsolved ->
  pre = Unsolved /\ N.eqb (max_iter e) it = false /\ over = false.
Proof.
  unfold limits. destruct pre; try discriminate.
  destruct (N.eqb (max_iter e) it); [discriminate|].
  destruct over; [discriminate|]. auto.
Qed.

Lemma limits_pre e it pre over : pre <> Unsolved -> limits e it pre over = pre.
Proof. destruct pre; cbn; intros H; try reflexivity. contradiction. Qed.

(** The complete case analysis of one pass. *)
Definition pd_bit (e : env) (s : st) : nat := if nonsym_pd e s then 1 else 0.

Lemma nonsym_pd_dual e it a x : nonsym_pd e (mkSt A it Dual a x) = false.
Proof. unfold Skeleton.nonsym_pd. cbn. apply andb_false_r. Qed.

Lemma pass_spec e s p s' ev c :
  pass e s p = (s', ev, c) ->
  lines ev = [iter s] /\
  (c = true ->
     stat s' = Unsolved /\
     ((iter s' = N.succ (iter s) /\ N.eqb (max_iter e) (iter s) = false /\ p_pre A p = Unsolved /\
       (pd_bit e s' <= pd_bit e s)%nat)
      \/ (iter s' = iter s /\ alpha s' = alpha s /\ pd_bit e s = 1%nat /\ pd_bit e s' = 0%nat))) /\
  (c = false ->
     stat s' <> Unsolved /\
     (iter s' = iter s \/
      (iter s' = N.succ (iter s) /\ N.eqb (max_iter e) (iter s) = false /\ alpha s' = azero))).
Proof.
  unfold Skeleton.pass. intros H.
  destruct (limits e (iter s) (p_pre A p) (p_over A p)) eqn:L;
    [apply limits_unsolved in L; destruct L as [Lp [Lm Lo]] | ..];
    cbn [status_eqb negb] in H;
    repeat match type of H with
           | context [if ?b then _ else _] => destruct b eqn:?
           end;
    inversion H; subst; clear H;
    (split; [unfold Skeleton.lines; rewrite ?flat_map_app; cbn; reflexivity|]);
    (split; intros C; try discriminate C; clear C);
    (split; [cbn; try reflexivity; try discriminate|]);
    unfold pd_bit, Skeleton.nonsym_pd in *;
    cbn [Skeleton.scaling Skeleton.iter Skeleton.alpha Skeleton.stat strategy_eqb] in *;
    rewrite ?andb_false_r in *;
    first [ left; reflexivity
          | left; repeat split; auto;
            repeat match goal with |- context [if ?b then _ else _] => destruct b end; lia
          | right; repeat split; auto;
            repeat match goal with
                   | HH : _ = true |- _ => rewrite HH
                   | HH : _ = false |- _ => rewrite HH
                   end; try reflexivity; try lia ].
Qed.

(** * Termination, iteration bound, terminal status *)
Definition potential (e : env) (s : st) : nat :=
  (N.to_nat (max_iter e - iter s) + pd_bit e s)%nat.

Lemma loop_terminates e : forall pins s,
  (iter s <= max_iter e)%N -> (potential e s < length pins)%nat ->
  fst (loop e s pins) <> None.
Proof.
  induction pins as [|p ps IH]; intros s Hi Hl; [cbn in Hl; lia|].
  cbn [Skeleton.loop]. destruct (pass e s p) as [[s' ev] c] eqn:P.
  destruct c; [|cbn; discriminate].
  apply pass_spec in P. destruct P as [_ [Pc _]]. specialize (Pc eq_refl).
  destruct Pc as [_ Pc].
  specialize (IH s'). destruct (loop e s' ps) as [r ev'] eqn:L. cbn [fst] in *.
  apply IH.
  - destruct Pc as [[Hs [Hm _]] | [Hs _]]; [|lia].
    apply N.eqb_neq in Hm. lia.
  - cbn [length] in Hl. unfold potential in *.
    destruct Pc as [[Hs [Hm [_ Hb]]] | [Hs [_ [Hb1 Hb0]]]].
    + apply N.eqb_neq in Hm. rewrite Hs. lia.
    + rewrite Hs. lia.
Qed.

Lemma loop_iter_bound e : forall pins s,
  (iter s <= max_iter e)%N ->
  (forall s', fst (loop e s pins) = Some s' -> (iter s' <= max_iter e)%N) /\
  (forall k, In k (lines (snd (loop e s pins))) -> (k <= max_iter e)%N).
Proof.
  induction pins as [|p ps IH]; intros s Hi.
  - cbn. split; [discriminate | contradiction].
  - cbn [Skeleton.loop]. destruct (pass e s p) as [[s' ev] c] eqn:P.
    apply pass_spec in P. destruct P as [Pl [Pc Pb]].
    destruct c.
    + specialize (Pc eq_refl). destruct Pc as [_ Pc].
      assert (Hi' : (iter s' <= max_iter e)%N).
      { destruct Pc as [[Hs [Hm _]] | [Hs _]]; [|lia]. apply N.eqb_neq in Hm. lia. }
      specialize (IH s' Hi'). destruct (loop e s' ps) as [r ev'] eqn:L. cbn [fst snd] in *.
      destruct IH as [IH1 IH2]. split; [exact IH1|].
      intros k Hk. unfold Skeleton.lines in Hk. rewrite flat_map_app in Hk.
      apply in_app_or in Hk. destruct Hk as [Hk|Hk].
      * fold (lines ev) in Hk. rewrite Pl in Hk. destruct Hk as [Hk|[]]. lia.
      * apply IH2. exact Hk.
    + specialize (Pb eq_refl). destruct Pb as [_ Pb]. cbn [fst snd].
      split.
      * intros s'' E. inversion E; subst s''.
        destruct Pb as [Hs | [Hs [Hm _]]]; [lia|]. apply N.eqb_neq in Hm. lia.
      * intros k Hk. rewrite Pl in Hk. destruct Hk as [Hk|[]]. lia.
Qed.

Lemma loop_final_status e : forall pins s s',
  fst (loop e s pins) = Some s' -> stat s' <> Unsolved.
Proof.
  induction pins as [|p ps IH]; intros s s'; [cbn; discriminate|].
  cbn [Skeleton.loop]. destruct (pass e s p) as [[s1 ev] c] eqn:P.
  destruct c.
  - specialize (IH s1 s'). destruct (loop e s1 ps) as [r ev']. cbn [fst] in *. exact IH.
  - cbn [fst]. intros E; inversion E; subst s1.
    apply pass_spec in P. destruct P as [_ [_ Pb]]. exact (proj1 (Pb eq_refl)).
Qed.

Lemma post_not_unsolved s almost : s <> Unsolved -> post s almost <> Unsolved.
Proof.
  unfold post. intros H.
  destruct (is_errored s || status_eqb s MaxIterations || status_eqb s MaxTime); [|exact H].
  destruct almost as [a|]; [destruct a; discriminate | exact H].
Qed.

Lemma run_some e pd pins almost s :
  fst (run e pd pins almost) = Some s ->
  exists s1, fst (loop e (start A azero pd) pins) = Some s1 /\
             s = fst (finish s1 almost) /\
             snd (run e pd pins almost) = snd (loop e (start A azero pd) pins) ++ snd (finish s1 almost).
Proof.
  unfold Skeleton.run, start.
  destruct (loop e _ pins) as [[s1|] ev] eqn:L; cbn [fst snd].
  - destruct (finish s1 almost) as [s2 ev2] eqn:F. cbn [fst snd].
    intros E; inversion E; subst. exists s1. rewrite F. cbn [fst snd]. auto.
  - discriminate.
Qed.

Theorem run_terminates_ok : stmt_run_terminates A azero a_is_zero a_lt_switch a_le_term.
Proof.
  intros e pd pins almost Hl.
  unfold Skeleton.run.
  pose proof (loop_terminates e pins (start A azero pd)) as T.
  destruct (loop e _ pins) as [[s1|] ev] eqn:L; cbn [fst snd] in *.
  - destruct (Skeleton.finish A a_is_zero s1 almost). cbn. discriminate.
  - exfalso. apply T; [cbn; lia | | reflexivity].
    unfold potential, pd_bit, start. cbn [Skeleton.iter].
    destruct (nonsym_pd e _); rewrite N.sub_0_r; lia.
Qed.

Theorem iterations_le_max_ok : stmt_iterations_le_max A azero a_is_zero a_lt_switch a_le_term.
Proof.
  intros e pd pins almost.
  pose proof (loop_iter_bound e pins (start A azero pd)) as B.
  assert (H0 : (iter (start A azero pd) <= max_iter e)%N) by (cbn; lia).
  specialize (B H0). destruct B as [B1 B2].
  split.
  - intros s Hs. apply run_some in Hs. destruct Hs as [s1 [L [E _]]]. subst s.
    unfold Skeleton.finish. cbn. apply B1. exact L.
  - intros k Hk. unfold Skeleton.run in Hk.
    destruct (loop e (start A azero pd) pins) as [[s1|] ev] eqn:L; cbn [fst snd] in *;
      fold (start A azero pd) in Hk; rewrite L in Hk.
    + unfold Skeleton.finish in Hk. cbn [fst snd] in Hk.
      unfold Skeleton.lines in Hk. rewrite !flat_map_app in Hk.
      apply in_app_or in Hk. destruct Hk as [Hk|Hk]; [apply B2; exact Hk|].
      apply in_app_or in Hk. destruct Hk as [Hk|Hk].
      * cbn in Hk. destruct (a_is_zero (alpha s1)); cbn in Hk; try contradiction.
        destruct Hk as [Hk|[]]. subst k. apply B1. reflexivity.
      * cbn in Hk. contradiction.
    + cbn [snd] in Hk. apply B2. exact Hk.
Qed.

Theorem final_status_terminal_ok :
  stmt_final_status_terminal A azero a_is_zero a_lt_switch a_le_term.
Proof.
  intros e pd pins almost s Hs. apply run_some in Hs. destruct Hs as [s1 [L [E _]]]. subst s.
  unfold Skeleton.finish. cbn. apply post_not_unsolved.
  eapply loop_final_status. exact L.
Qed.

Theorem maxtime_next_boundary_ok : stmt_maxtime_next_boundary A azero a_lt_switch a_le_term.
Proof.
  intros e s p Hp Ho Hi. unfold Skeleton.pass, limits. rewrite Hp, Ho.
  destruct (N.eqb (max_iter e) (iter s)) eqn:E; [apply N.eqb_eq in E; congruence|].
  cbn. eexists. reflexivity.
Qed.

Theorem no_maxtime_before_limit_ok : stmt_no_maxtime_before_limit A azero a_lt_switch a_le_term.
Proof.
  intros e s s' p ev c Ho Hp. unfold Skeleton.pass.
  assert (L : limits e (iter s) (p_pre A p) (p_over A p) <> MaxTime).
  { unfold limits. rewrite Ho. destruct (p_pre A p); try discriminate; try exact Hp.
    destruct (N.eqb (max_iter e) (iter s)); discriminate. }
  destruct (limits e (iter s) (p_pre A p) (p_over A p)) eqn:L'; try congruence;
    cbn [status_eqb negb];
    repeat match goal with
    | |- context [if ?b then _ else _] => destruct b
    end; intros H; inversion H; subst; cbn; discriminate.
Qed.

Theorem post_spec_ok : stmt_post_spec.
Proof.
  intros s almost. unfold post.
  destruct (is_errored s || status_eqb s MaxIterations || status_eqb s MaxTime) eqn:E.
  - destruct almost as [a|]; [|left; reflexivity].
    right. split.
    + apply orb_true_iff in E. destruct E as [E|E].
      * apply orb_true_iff in E. destruct E as [E|E]; [left; exact E|].
        right; left. apply status_eqb_eq; exact E.
      * right; right. apply status_eqb_eq; exact E.
    + exists a. auto.
  - left; reflexivity.
Qed.

(** * Budget independence *)
Lemma pass_budget sym k K s p :
  (N.eqb k (iter s) = false \/ p_pre A p <> Unsolved) ->
  (N.eqb K (iter s) = false \/ p_pre A p <> Unsolved) ->
  pass (mkEnv sym k) s p = pass (mkEnv sym K) s p.
Proof.
  intros Hk HK. unfold Skeleton.pass.
  assert (L : limits (mkEnv sym k) (iter s) (p_pre A p) (p_over A p) =
              limits (mkEnv sym K) (iter s) (p_pre A p) (p_over A p)).
  { unfold limits. cbn [max_iter].
    destruct (p_pre A p); try reflexivity.
    destruct Hk as [Hk|Hk]; [|congruence]. destruct HK as [HK|HK]; [|congruence].
    rewrite Hk, HK. reflexivity. }
  rewrite L. reflexivity.
Qed.

Theorem prefix_independent_ok : stmt_prefix_independent A azero a_lt_switch a_le_term.
Proof.
  intros sym k K s pins. revert s.
  induction pins as [|p ps IH]; intros s Hs HkK; [left; reflexivity|].
  destruct (N.eq_dec k K) as [->|Hne]; [left; reflexivity|].
  destruct (N.eqb k (iter s)) eqn:Ek.
  - (* head with iter = k *)
    apply N.eqb_eq in Ek.
    destruct (status_eqb (p_pre A p) Unsolved) eqn:Ep.
    + apply status_eqb_eq in Ep.
      right. exists 0%nat, s, p. cbn [nth_error firstn Skeleton.steps].
      repeat split; auto.
      cbn [Skeleton.loop]. unfold Skeleton.pass, limits. cbn [max_iter].
      rewrite Ep. rewrite Ek, N.eqb_refl. cbn. unfold with_stat. rewrite <- Ek. reflexivity.
    + apply status_eqb_neq in Ep.
      cbn [Skeleton.loop].
      rewrite (pass_budget sym k K s p) by (right; exact Ep).
      destruct (pass (mkEnv sym K) s p) as [[s' ev] c] eqn:P.
      destruct c; [|left; reflexivity].
      pose proof P as P'. apply pass_spec in P'. destruct P' as [_ [Pc _]].
      specialize (Pc eq_refl). destruct Pc as [_ Pc].
      destruct Pc as [[_ [_ [Hpre _]]] | [Hit _]]; [congruence|].
      assert (Hs' : (iter s' <= k)%N) by lia.
      destruct (IH s' Hs' HkK) as [E | [n [sh [q [Hn [SK [Sk [Hi [Hq Hl]]]]]]]]].
      * left. rewrite E. reflexivity.
      * right. exists (S n), sh, q. cbn [nth_error firstn Skeleton.steps].
        rewrite (pass_budget sym k K s p) by (right; exact Ep).
        rewrite P. repeat split; auto.
        cbn [Skeleton.loop]. try rewrite (pass_budget sym k K s p) by (right; exact Ep).
        try rewrite P. destruct (loop (mkEnv sym k) s' ps). cbn [fst] in *. exact Hl.
  - (* iter < k *)
    assert (EK : N.eqb K (iter s) = false).
    { apply N.eqb_neq in Ek. apply N.eqb_neq. lia. }
    cbn [Skeleton.loop].
    rewrite (pass_budget sym k K s p) by (left; assumption).
    destruct (pass (mkEnv sym K) s p) as [[s' ev] c] eqn:P.
    destruct c; [|left; reflexivity].
    pose proof P as P'. apply pass_spec in P'. destruct P' as [_ [Pc _]].
    specialize (Pc eq_refl). destruct Pc as [_ Pc].
    assert (Hs' : (iter s' <= k)%N).
    { apply N.eqb_neq in Ek. destruct Pc as [[Hit _] | [Hit _]]; lia. }
    destruct (IH s' Hs' HkK) as [E | [n [sh [q [Hn [SK [Sk [Hi [Hq Hl]]]]]]]]].
    + left. rewrite E. reflexivity.
    + right. exists (S n), sh, q. cbn [nth_error firstn Skeleton.steps].
      rewrite (pass_budget sym k K s p) by (left; assumption).
      rewrite P. repeat split; auto.
      cbn [Skeleton.loop]. try rewrite (pass_budget sym k K s p) by (left; assumption).
      try rewrite P. destruct (loop (mkEnv sym k) s' ps). cbn [fst] in *. exact Hl.
Qed.

(** * The iteration column *)
Lemma chain_app a l x :
  chain a l -> (x = last (a :: l) 0%N \/ x = N.succ (last (a :: l) 0%N)) ->
  chain a (l ++ [x]).
Proof.
  revert a. induction l as [|y l IH]; intros a Hc Hx.
  - cbn in *. auto.
  - cbn [chain app] in *. destruct Hc as [Hy Hc]. split; [exact Hy|].
    apply IH; [exact Hc|].
    change (last (a :: y :: l) 0%N) with (last (y :: l) 0%N) in Hx. exact Hx.
Qed.

Lemma last_cons_app (a : N) l1 l2 d :
  last ((a :: l1) ++ l2) d = last (last (a :: l1) d :: l2) d.
Proof.
  revert a. induction l1 as [|y l IH]; intros a.
  - cbn [app]. destruct l2; reflexivity.
  - change ((a :: y :: l) ++ l2) with (a :: ((y :: l) ++ l2)).
    change (last (a :: (y :: l) ++ l2) d) with (last ((y :: l) ++ l2) d).
    rewrite IH. reflexivity.
Qed.

(** from a head state: the lines are [iter s :: rest], a chain, and the final loop state
    has either the last shown number, or its successor together with alpha = 0 *)
Lemma loop_lines e : forall pins s s',
  fst (loop e s pins) = Some s' ->
  exists rest, lines (snd (loop e s pins)) = iter s :: rest /\ chain (iter s) rest /\
    (iter s' = last (iter s :: rest) 0%N \/
     (iter s' = N.succ (last (iter s :: rest) 0%N) /\ alpha s' = azero)).
Proof.
  induction pins as [|p ps IH]; intros s s'; [cbn; discriminate|].
  cbn [Skeleton.loop]. destruct (pass e s p) as [[s1 ev] c] eqn:P.
  apply pass_spec in P. destruct P as [Pl [Pc Pb]].
  destruct c.
  - specialize (Pc eq_refl). destruct Pc as [_ Pc].
    specialize (IH s1 s'). destruct (loop e s1 ps) as [r ev'] eqn:L. cbn [fst snd] in *.
    intros Hr. destruct (IH Hr) as [rest [Hl [Hc Hf]]].
    exists (iter s1 :: rest).
    unfold Skeleton.lines. rewrite flat_map_app. fold (lines ev) (lines ev'). rewrite Pl, Hl.
    split; [reflexivity|]. split.
    + cbn [chain]. split; [|exact Hc].
      destruct Pc as [[Hs _] | [Hs _]]; auto.
    + exact Hf.
  - specialize (Pb eq_refl). destruct Pb as [_ Pb]. cbn [fst snd].
    intros E; inversion E; subst s1. exists []. rewrite Pl.
    split; [reflexivity|]. split; [exact I|]. cbn [last].
    destruct Pb as [Hs | [Hs [_ Ha]]]; auto.
Qed.

Theorem iteration_column_ok : stmt_iteration_column A azero a_is_zero a_lt_switch a_le_term.
Proof.
  intros Hz e pd pins almost s Hs.
  apply run_some in Hs. destruct Hs as [s1 [L [E Hev]]]. subst s. rewrite Hev.
  destruct (loop_lines e pins (start A azero pd) s1 L) as [rest [Hl [Hc Hf]]].
  change (iter (start A azero pd)) with 0%N in *.
  unfold Skeleton.lines. rewrite flat_map_app.
  fold (lines (snd (loop e (start A azero pd) pins))). rewrite Hl.
  unfold Skeleton.finish. cbn [fst snd Skeleton.iter].
  rewrite !flat_map_app. cbn [flat_map app].
  destruct Hf as [Hf | [Hf Ha]].
  - destruct (a_is_zero (alpha s1)).
    + cbn [flat_map app]. exists (rest ++ [iter s1]). split; [reflexivity|]. split.
      * apply chain_app; [exact Hc|]. left. exact Hf.
      * change (0%N :: rest ++ [iter s1]) with ((0%N :: rest) ++ [iter s1]).
        rewrite last_cons_app. reflexivity.
    + cbn [flat_map app]. rewrite app_nil_r. exists rest. split; [reflexivity|].
      split; [exact Hc|]. symmetry; exact Hf.
  - rewrite Ha, Hz. cbn [flat_map app].
    exists (rest ++ [iter s1]). split; [reflexivity|]. split.
    + apply chain_app; [exact Hc|]. right. exact Hf.
    + change (0%N :: rest ++ [iter s1]) with ((0%N :: rest) ++ [iter s1]).
      rewrite last_cons_app. reflexivity.
Qed.

(** every taken step passed the small-step checkpoint *)
Lemma pass_addstep e s p a :
  In (EAddStep A a) (snd (fst (pass e s p))) -> a_le_term a = false.
Proof.
  unfold Skeleton.pass.
  repeat match goal with
  | |- context [if ?c then _ else _] => destruct c eqn:?
  end; cbn [fst snd]; rewrite ?in_app_iff; cbn [In];
  intros H; repeat (destruct H as [H|H]); try discriminate; try contradiction;
  try (injection H as <-; assumption).
Qed.

Lemma loop_addstep e : forall pins s a,
  In (EAddStep A a) (snd (loop e s pins)) -> a_le_term a = false.
Proof.
  induction pins as [|p ps IH]; intros s a H; cbn [Skeleton.loop snd] in H; [contradiction|].
  destruct (pass e s p) as [[s1 ev] c] eqn:E. destruct c.
  - destruct (loop e s1 ps) as [r ev'] eqn:El. cbn [snd] in H. apply in_app_or in H.
    destruct H as [H|H].
    + apply (pass_addstep e s p a). rewrite E. exact H.
    + apply (IH s1 a). rewrite El. exact H.
  - cbn [snd] in H. apply (pass_addstep e s p a). rewrite E. exact H.
Qed.

Lemma accepted_steps_ok : stmt_accepted_steps A azero a_is_zero a_lt_switch a_le_term.
Proof.
  intros e pd pins almost a H. unfold Skeleton.run in H.
  destruct (loop e _ pins) as [[s|] ev] eqn:El.
  - destruct (Skeleton.finish A a_is_zero s almost) as [s' ev'] eqn:Ef. cbn [snd] in H.
    apply in_app_or in H. destruct H as [H|H].
    + eapply loop_addstep. rewrite El. exact H.
    + unfold Skeleton.finish in Ef. injection Ef as _ <-.
      destruct (a_is_zero (Skeleton.alpha A s)); cbn [app In] in H;
        repeat (destruct H as [H|H]); try discriminate; try contradiction.
  - cbn [snd] in H. eapply loop_addstep. rewrite El. exact H.
Qed.

End Proofs.
