(** Executable correspondence checker for the solve-loop skeleton (C04, C07, C20).

    The instrumented Rust solver records a list of events per solve ([oev], one
    constructor per variant of [verif_hooks::trace::Event] that matters here).  From it
    [extract] recovers what the kernels answered in each pass (the oracle [pin]s), the model
    [run] is executed on those answers with binary64 step lengths, and the control events it
    predicts are compared, one by one, with what the implementation did. *)
From Coq Require Import List NArith Bool Floats.
Import ListNotations.
Require Import Clarabel.Solver.Skeleton.

Definition fzero : float := 0%float.
Definition f_is_zero (x : float) : bool := PrimFloat.eqb x 0%float.
Definition is_nan (x : float) : bool := negb (PrimFloat.eqb x x).
(** f64::max (the non-NaN argument wins) *)
Definition fmax (a b : float) : float :=
  if is_nan a then b else if is_nan b then a else if PrimFloat.ltb a b then b else a.
Definition f_lt_switch (min_switch : float) (x : float) : bool := PrimFloat.ltb x min_switch.
Definition f_le_term (min_term : float) (x : float) : bool := PrimFloat.leb x (fmax 0%float min_term).
(** same value (NaN = NaN, +0 = -0) *)
Definition feqb (a b : float) : bool := PrimFloat.eqb a b || (is_nan a && is_nan b).

Definition status_of_N (n : N) : status :=
  match n with
  | 0 => Unsolved | 1 => Solved | 2 => PrimalInfeasible | 3 => DualInfeasible
  | 4 => AlmostSolved | 5 => AlmostPrimalInfeasible | 6 => AlmostDualInfeasible
  | 7 => MaxIterations | 8 => MaxTime | 9 => NumericalError | _ => InsufficientProgress
  end%N.

(** observed events *)
Inductive oev : Type :=
| OHead (iter : N) (alpha : float)
| OPreLimit (status iterations max_iter : N) (solve_time time_limit : float)
| OTerm (done : bool) (status : N)
| ORollback
| OCk (kind code : N)
| OScale (ok : bool) (scaling : N)
| OIterInc (iter : N)
| OKkt (ok : bool)
| OAff (ok : bool)
| OAlphaAff (alpha : float)
| OComb (ok : bool)
| OAlpha (alpha : float)
| OSavePrev
| OAddStep (alpha : float)
| OEnd (alpha : float) (iter status : N)
| OExtraLine (iter : N)
| OPost (sin sout : N).

Definition pinF := pin float.
Definition default_pin : pinF :=
  mkPin float Unsolved false true true true fzero true fzero.

Definition set_pin (p : pinF) (e : oev) : pinF :=
  match e with
  | OPreLimit s _ _ t tl =>
      mkPin float (status_of_N s) (PrimFloat.ltb tl t) (p_scale _ p) (p_kkt _ p) (p_aff _ p)
            (p_aalpha _ p) (p_comb _ p) (p_alpha _ p)
  | OScale ok _ =>
      mkPin float (p_pre _ p) (p_over _ p) ok (p_kkt _ p) (p_aff _ p) (p_aalpha _ p) (p_comb _ p) (p_alpha _ p)
  | OKkt ok =>
      mkPin float (p_pre _ p) (p_over _ p) (p_scale _ p) ok (p_aff _ p) (p_aalpha _ p) (p_comb _ p) (p_alpha _ p)
  | OAff ok =>
      mkPin float (p_pre _ p) (p_over _ p) (p_scale _ p) (p_kkt _ p) ok (p_aalpha _ p) (p_comb _ p) (p_alpha _ p)
  | OAlphaAff a =>
      mkPin float (p_pre _ p) (p_over _ p) (p_scale _ p) (p_kkt _ p) (p_aff _ p) a (p_comb _ p) (p_alpha _ p)
  | OComb ok =>
      mkPin float (p_pre _ p) (p_over _ p) (p_scale _ p) (p_kkt _ p) (p_aff _ p) (p_aalpha _ p) ok (p_alpha _ p)
  | OAlpha a =>
      mkPin float (p_pre _ p) (p_over _ p) (p_scale _ p) (p_kkt _ p) (p_aff _ p) (p_aalpha _ p) (p_comb _ p) a
  | _ => p
  end.

(** one pin per observed loop head *)
Fixpoint extract_aux (cur : option pinF) (evs : list oev) : list pinF :=
  match evs with
  | [] => match cur with Some p => [p] | None => [] end
  | OHead _ _ :: r =>
      match cur with
      | Some p => p :: extract_aux (Some default_pin) r
      | None => extract_aux (Some default_pin) r
      end
  | e :: r =>
      match cur with
      | Some p => extract_aux (Some (set_pin p e)) r
      | None => extract_aux None r
      end
  end.
Definition extract (evs : list oev) : list pinF := extract_aux None evs.

Definition almost_of (evs : list oev) : option almostv :=
  fold_left (fun acc e =>
    match e with
    | OPost i o => if N.eqb i o then None
                   else match o with
                        | 4 => Some ASolved | 5 => Some APrimalInf | 6 => Some ADualInf
                        | _ => None end%N
    | _ => acc
    end) evs None.

Definition ck_of (k c : N) : option (ckkind * ckpt) :=
  match (match k with 0 => Some CkInsufficient | 1 => Some CkNumerical | 2 => Some CkSmallStep | _ => None end)%N,
        (match c with 0 => Some NoUpdate | 1 => Some UpdateDual | 2 => Some Fail | _ => None end)%N with
  | Some k', Some c' => Some (k', c')
  | _, _ => None
  end.

(** comparison of a predicted event with an observed one *)
Definition strat_N (s : strategy) : N := match s with PrimalDual => 0 | Dual => 1 end%N.
Definition status_N (s : status) : N :=
  match s with
  | Unsolved => 0 | Solved => 1 | PrimalInfeasible => 2 | DualInfeasible => 3
  | AlmostSolved => 4 | AlmostPrimalInfeasible => 5 | AlmostDualInfeasible => 6
  | MaxIterations => 7 | MaxTime => 8 | NumericalError => 9 | InsufficientProgress => 10
  end%N.

Definition ev_match (m : event float) (o : oev) : bool :=
  match m, o with
  | EHead _ i a, OHead i' a' => N.eqb i i' && feqb a a'
  | EPre _ i, OPreLimit _ i' _ _ _ => N.eqb i i'
  | ETerm _ d s, OTerm d' s' => Bool.eqb d d' && N.eqb (status_N s) s'
  | ERollback _, ORollback => true
  | ECk _ k c, OCk k' c' =>
      match ck_of k' c' with
      | Some (k2, c2) =>
          (match k, k2 with CkInsufficient, CkInsufficient | CkNumerical, CkNumerical
                          | CkSmallStep, CkSmallStep => true | _, _ => false end)
          && (match c, c2 with NoUpdate, NoUpdate | UpdateDual, UpdateDual | Fail, Fail => true
                             | _, _ => false end)
      | None => false
      end
  | EScale _ ok sc, OScale ok' sc' => Bool.eqb ok ok' && N.eqb (strat_N sc) sc'
  | EIterInc _ i, OIterInc i' => N.eqb i i'
  | EKkt _ ok, OKkt ok' => Bool.eqb ok ok'
  | EAff _ ok, OAff ok' => Bool.eqb ok ok'
  | EAlphaAff _ a, OAlphaAff a' => feqb a a'
  | EComb _ ok, OComb ok' => Bool.eqb ok ok'
  | EAlpha _ a, OAlpha a' => feqb a a'
  | ESavePrev _, OSavePrev => true
  | EAddStep _ a, OAddStep a' => feqb a a'
  | EEnd _ a i s, OEnd a' i' s' => feqb a a' && N.eqb i i' && N.eqb (status_N s) s'
  | EExtraLine _ i, OExtraLine i' => N.eqb i i'
  | EPost _ si so, OPost si' so' => N.eqb (status_N si) si' && N.eqb (status_N so) so'
  | _, _ => false
  end.

Fixpoint first_mismatch (k : N) (ms : list (event float)) (os : list oev) : option N :=
  match ms, os with
  | [], [] => None
  | m :: mr, o :: or_ => if ev_match m o then first_mismatch (N.succ k) mr or_ else Some k
  | _, _ => Some k
  end.

Definition runF (sym pd : bool) (max_it : N) (min_switch min_term : float)
           (pins : list pinF) (almost : option almostv) :=
  run float fzero f_is_zero (f_lt_switch min_switch) (f_le_term min_term)
      (mkEnv sym max_it) pd pins almost.

(** 0 = the implementation's control flow is exactly what the model predicts from the
    kernel answers; otherwise 1 + index of the first differing event *)
Definition c_trace (sym pd : bool) (max_it : N) (min_switch min_term : float) (evs : list oev) : N :=
  let r := runF sym pd max_it min_switch min_term (extract evs) (almost_of evs) in
  match fst r with
  | None => 1%N
  | Some _ =>
      match first_mismatch 0%N (snd r) evs with
      | None => 0%N
      | Some k => (1 + k)%N
      end
  end.

(** the facts C04 promises about what the user sees, evaluated on the final report:
    terminal status, iteration count within the budget and equal to the loop counter *)
Definition c_final (max_it iterations status : N) (evs : list oev) : N :=
  let last_iter := fold_left (fun acc e => match e with OEnd _ i _ => Some i | _ => acc end) evs None in
  if N.eqb status 0 then 1%N
  else if N.ltb max_it iterations then 1%N
  else match last_iter with
       | Some i => if N.eqb i iterations then 0%N else 1%N
       | None => 1%N
       end.

(** C20: the iteration column parsed from the printed table equals the model's [lines],
    and the footer status equals the final status *)
Fixpoint nlist_eqb (a b : list N) : bool :=
  match a, b with
  | [], [] => true
  | x :: a', y :: b' => N.eqb x y && nlist_eqb a' b'
  | _, _ => false
  end.
Definition c_column (sym pd : bool) (max_it : N) (min_switch min_term : float) (evs : list oev)
           (column : list N) (footer_status final_status final_iter : N) : N :=
  let r := runF sym pd max_it min_switch min_term (extract evs) (almost_of evs) in
  match fst r with
  | None => 1%N
  | Some s =>
      if nlist_eqb (lines float (snd r)) column
         && N.eqb (status_N (stat float s)) footer_status
         && N.eqb footer_status final_status
         && N.eqb (iter float s) final_iter
      then 0%N else 1%N
  end.

Fixpoint fails (k : N) (l : list N) : list (N * N) :=
  match l with
  | [] => []
  | c :: r => if N.eqb c 0 then fails (N.succ k) r else (k, c) :: fails (N.succ k) r
  end.
