(** C20: routing of solver output.  Model of [src/io/mod.rs] ([PrintTarget], its [Write] and
    [Clone] implementations and [ConfigurablePrintTarget]) as a state machine over byte lists.

    External sinks (files, streams) are identified by a number; the model records, per sink,
    every byte delivered to it.  The theorems say that routing is faithful for EVERY history of
    target switches, writes, buffer retrievals and clones:
      - the bytes a sink has received are exactly the writes issued while it was the current
        target, in order (refinement to the filtered history);
      - hence the same writes sent to a buffer, a stream or a file deliver identical bytes;
      - a write changes nothing but the current target; the sink target delivers nothing;
      - the buffer is readable exactly when the target is a buffer and then holds the writes
        since it was installed.
    No proofs in the definitions part (it is evaluated by the correspondence run). *)
From Coq Require Import List NArith Bool Arith Lia.
Import ListNotations.

Definition bytes := list N.

Inductive target : Type :=
| TStdout | TFile (id : N) | TBuffer (content : bytes) | TStream (id : N) | TSink.

Inductive op : Type :=
| ToStdout | ToFile (id : N) | ToStream (id : N) | ToSink | ToBuffer
| Write (b : bytes) | GetBuffer | CloneInfo.

(** what is observable outside the solver: bytes delivered to stdout, to each file, to each stream *)
Record world := mkWorld {
  w_stdout : bytes;
  w_file : N -> bytes;
  w_stream : N -> bytes }.

Record st := mkSt { tgt : target; wld : world }.

Definition upd (f : N -> bytes) (i : N) (v : bytes) : N -> bytes :=
  fun j => if N.eqb j i then v else f j.

Definition world0 : world := mkWorld [] (fun _ => []) (fun _ => []).
Definition init : st := mkSt TStdout world0.

Inductive out : Type := ONone | OBuf (b : bytes) | OErr.

(** [PrintTarget::clone]: stdout and files are re-opened on the same sink, a buffer is copied,
    an arbitrary stream cannot be cloned and becomes the sink *)
Definition clone_target (t : target) : target :=
  match t with
  | TStream _ => TSink
  | t => t
  end.

Definition write_to (s : st) (b : bytes) : st :=
  let w := wld s in
  match tgt s with
  | TStdout => mkSt TStdout (mkWorld (w_stdout w ++ b) (w_file w) (w_stream w))
  | TFile i => mkSt (TFile i) (mkWorld (w_stdout w) (upd (w_file w) i (w_file w i ++ b)) (w_stream w))
  | TBuffer c => mkSt (TBuffer (c ++ b)) w
  | TStream i => mkSt (TStream i) (mkWorld (w_stdout w) (w_file w) (upd (w_stream w) i (w_stream w i ++ b)))
  | TSink => s
  end.

Definition step (s : st) (o : op) : st * out :=
  match o with
  | ToStdout => (mkSt TStdout (wld s), ONone)
  | ToFile i => (mkSt (TFile i) (wld s), ONone)
  | ToStream i => (mkSt (TStream i) (wld s), ONone)
  | ToSink => (mkSt TSink (wld s), ONone)
  | ToBuffer => (mkSt (TBuffer []) (wld s), ONone)
  | Write b => (write_to s b, ONone)
  | GetBuffer => (s, match tgt s with TBuffer c => OBuf c | _ => OErr end)
  | CloneInfo => (mkSt (clone_target (tgt s)) (wld s), ONone)
  end.

Fixpoint run (s : st) (ops : list op) : st * list out :=
  match ops with
  | [] => (s, [])
  | o :: r => let '(s1, x) := step s o in let '(s2, xs) := run s1 r in (s2, x :: xs)
  end.

(** * The abstract specification: filter the history *)
(** kind of target in force, tracked abstractly: 0 stdout, 1 file i, 2 buffer, 3 stream i, 4 sink *)
Inductive akind : Type := AStdout | AFile (i : N) | ABuffer | AStream (i : N) | ASink.
Definition akind_of (t : target) : akind :=
  match t with TStdout => AStdout | TFile i => AFile i | TBuffer _ => ABuffer | TStream i => AStream i | TSink => ASink end.
Definition astep (k : akind) (o : op) : akind :=
  match o with
  | ToStdout => AStdout | ToFile i => AFile i | ToStream i => AStream i | ToSink => ASink
  | ToBuffer => ABuffer
  | Write _ | GetBuffer => k
  | CloneInfo => match k with AStream _ => ASink | k => k end
  end.
(** the writes of a history that were issued while [sel] held of the target in force *)
Fixpoint routed (sel : akind -> bool) (k : akind) (ops : list op) : bytes :=
  match ops with
  | [] => []
  | o :: r =>
      (match o with Write b => if sel k then b else [] | _ => [] end) ++ routed sel (astep k o) r
  end.
Definition is_file (i : N) (k : akind) : bool := match k with AFile j => N.eqb j i | _ => false end.
Definition is_stream (i : N) (k : akind) : bool := match k with AStream j => N.eqb j i | _ => false end.
Definition is_stdout (k : akind) : bool := match k with AStdout => true | _ => false end.

(** * executable comparison used by the correspondence run *)
Definition beq_bytes (a b : bytes) : bool :=
  (length a =? length b)%nat && forallb (fun p => N.eqb (fst p) (snd p)) (combine a b).
Definition out_code (o : out) : bytes :=
  match o with ONone => [0%N] | OErr => [1%N] | OBuf b => 2%N :: b end.
Definition kind_code (t : target) : N :=
  match t with TStdout => 0 | TFile _ => 1 | TBuffer _ => 2 | TStream _ => 3 | TSink => 4 end%N.

(** observed: the outputs of the operations, the final target kind, the final contents of the
    files and streams with the given identifiers.  0 = agreement. *)
Definition c_route (ops : list op) (outs : list bytes) (kind : N)
           (files : list (N * bytes)) (streams : list (N * bytes)) : N :=
  let '(s, xs) := run init ops in
  if negb ((length xs =? length outs)%nat && forallb (fun p => beq_bytes (out_code (fst p)) (snd p)) (combine xs outs)) then 1%N
  else if negb (N.eqb (kind_code (tgt s)) kind) then 5%N
  else if negb (forallb (fun p => beq_bytes (w_file (wld s) (fst p)) (snd p)) files) then 3%N
  else if negb (forallb (fun p => beq_bytes (w_stream (wld s) (fst p)) (snd p)) streams) then 4%N
  else 0%N.
