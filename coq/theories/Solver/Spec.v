(** Statements about the solve-loop skeleton (C04, C07, C20).  Proofs: Solver/Lemmas.v.
    Every statement quantifies over the step-length type, over all kernel answers
    ([pins], [almost]) and over all settings, i.e. over every input and every
    floating-point behaviour of the numeric code. *)
From Coq Require Import List NArith Bool Lia.
Import ListNotations.
Require Import Clarabel.Solver.Skeleton.

Section Stmts.
Variable A : Type.
Variable azero : A.
Variable a_is_zero a_lt_switch a_le_term : A -> bool.

Notation pass := (pass A azero a_lt_switch a_le_term).
Notation loop := (loop A azero a_lt_switch a_le_term).
Notation steps := (steps A azero a_lt_switch a_le_term).
Notation run := (run A azero a_is_zero a_lt_switch a_le_term).
Notation st := (st A).
Notation pin := (pin A).

Definition start (pd : bool) : st := mkSt A 0%N (if pd then PrimalDual else Dual) azero Unsolved.

(** C04: the loop exits after at most max_iter + 2 passes, whatever the kernels answer. *)
Definition stmt_run_terminates : Prop :=
  forall (e : env) (pd : bool) (pins : list pin) (almost : option almostv),
    (N.to_nat (max_iter e) + 2 <= length pins)%nat ->
    fst (run e pd pins almost) <> None.

(** C04: the reported iteration count never exceeds max_iter, and no status line shows a
    larger number. *)
Definition stmt_iterations_le_max : Prop :=
  forall (e : env) (pd : bool) (pins : list pin) (almost : option almostv),
    (forall s, fst (run e pd pins almost) = Some s -> (iter A s <= max_iter e)%N) /\
    (forall k, In k (lines A (snd (run e pd pins almost))) -> (k <= max_iter e)%N).

(** C04: a finished solve carries one of the ten terminal statuses. *)
Definition stmt_final_status_terminal : Prop :=
  forall (e : env) (pd : bool) (pins : list pin) (almost : option almostv) (s : st),
    fst (run e pd pins almost) = Some s -> stat A s <> Unsolved.

(** C04: once the clock has passed the limit, the loop stops with MaxTime at that very
    head, unless another verdict (or the iteration limit) applies there. *)
Definition stmt_maxtime_next_boundary : Prop :=
  forall (e : env) (s : st) (p : pin),
    p_pre A p = Unsolved -> p_over A p = true -> iter A s <> max_iter e ->
    exists ev, pass e s p = (mkSt A (iter A s) (scaling A s) (alpha A s) MaxTime, ev, false).
(** ... and if the limit has not passed, time alone never stops the loop *)
Definition stmt_no_maxtime_before_limit : Prop :=
  forall (e : env) (s s' : st) (p : pin) (ev : list (event A)) (c : bool),
    p_over A p = false -> p_pre A p <> MaxTime -> pass e s p = (s', ev, c) -> stat A s' <> MaxTime.

(** C07: the trajectory does not depend on the iteration budget.  With budgets k <= K and
    the same kernel answers, either the two runs of the loop coincide, or the K-run
    passes through a loop head with iter = k at which no verdict applies, and the k-run
    stops exactly there, in exactly that state, with MaxIterations. *)
Definition with_stat (s : st) (x : status) : st := mkSt A (iter A s) (scaling A s) (alpha A s) x.
Definition stmt_prefix_independent : Prop :=
  forall (sym : bool) (k K : N) (s : st) (pins : list pin),
    (iter A s <= k)%N -> (k <= K)%N ->
    loop (mkEnv sym k) s pins = loop (mkEnv sym K) s pins \/
    exists (n : nat) (sh : st) (p : pin),
      nth_error pins n = Some p /\
      steps (mkEnv sym K) s (firstn n pins) = Some sh /\
      steps (mkEnv sym k) s (firstn n pins) = Some sh /\
      iter A sh = k /\ p_pre A p = Unsolved /\
      fst (loop (mkEnv sym k) s pins) = Some (with_stat sh MaxIterations).

(** C20: the iteration column.  The numbers shown by the status lines start at 0, never
    decrease, never jump by more than one, and the last one is the reported count. *)
Fixpoint chain (a : N) (l : list N) : Prop :=
  match l with
  | [] => True
  | x :: r => (x = a \/ x = N.succ a) /\ chain x r
  end.
Definition stmt_iteration_column : Prop :=
  a_is_zero azero = true ->
  forall (e : env) (pd : bool) (pins : list pin) (almost : option almostv) (s : st),
    fst (run e pd pins almost) = Some s ->
    exists rest, lines A (snd (run e pd pins almost)) = 0%N :: rest /\ chain 0%N rest /\
                 last (0%N :: rest) 0%N = iter A s.

(** C20 / C03: post-processing only ever turns an error or limit status into an Almost*
    status; every other status is reported as it left the loop. *)
Definition stmt_post_spec : Prop :=
  forall (s : status) (almost : option almostv),
    post s almost = s \/
    ((is_errored s = true \/ s = MaxIterations \/ s = MaxTime) /\
     exists a, almost = Some a /\ post s almost = almost_status a).

(** C07: every step that is actually taken (an [EAddStep] event of any run) was accepted by
    the small-step checkpoint: it is not at or below the termination threshold, and under
    primal-dual scaling of nonsymmetric cones it is not below the switching threshold. *)
Definition stmt_accepted_steps : Prop :=
  forall (e : env) (pd : bool) (pins : list pin) (almost : option almostv) (a : A),
    In (EAddStep A a) (snd (run e pd pins almost)) -> a_le_term a = false.

End Stmts.
