(** C04: the dimension check of [DefaultSolver::new] ([_check_dimensions],
    src/solver/implementations/default/solver.rs): construction is refused (documented panic)
    exactly when the shapes of P, q, A, b and the cones do not fit together. *)
From Coq Require Import List NArith Bool Lia.
Import ListNotations.

Definition nsum (l : list N) : N := fold_left N.add l 0%N.

(** Pm x Pn : shape of P; qn, bn : lengths; Am x An : shape of A; cd : cone dimensions *)
Definition dims_ok (Pm Pn qn Am An bn : N) (cd : list N) : bool :=
  N.eqb bn Am && N.eqb (nsum cd) bn && N.eqb qn An && N.eqb qn Pn && N.eqb Pm Pn.

Definition consistent (Pm Pn qn Am An bn : N) (cd : list N) : Prop :=
  Pm = qn /\ Pn = qn /\ An = qn /\ Am = bn /\ nsum cd = bn.

Lemma dims_ok_iff Pm Pn qn Am An bn cd :
  dims_ok Pm Pn qn Am An bn cd = true <-> consistent Pm Pn qn Am An bn cd.
Proof.
  unfold dims_ok, consistent. rewrite !andb_true_iff, !N.eqb_eq. split.
  - intros ((((H1 & H2) & H3) & H4) & H5). subst. repeat split; congruence.
  - intros (H1 & H2 & H3 & H4 & H5). subst. repeat split; reflexivity.
Qed.

(** observed: did the constructor panic?  0 = agreement with the model *)
Definition c_dims (Pm Pn qn Am An bn : N) (cd : list N) (panicked : bool) : N :=
  if Bool.eqb (negb (dims_ok Pm Pn qn Am An bn cd)) panicked then 0%N else 1%N.
