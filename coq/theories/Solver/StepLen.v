(** Model of [DefaultVariables::calc_step_length] (variables.rs): the cap that the
    homogenisation scalars tau, kappa put on the step, the combination with the cones'
    answers and the damping by max_step_fraction — over an ordered field for the theorem,
    over binary64 for the correspondence. *)
From Coq Require Import Reals Lra Floats List NArith Bool.
Import ListNotations.

(** * real-valued model and the safety theorem (C07: tau and kappa stay positive) *)
Open Scope R_scope.
Definition ratio (v dv : R) (big : R) : R := if Rlt_dec dv 0 then - v / dv else big.
Definition cap_R (tau kappa dtau dkappa big : R) : R :=
  Rmin (Rmin (ratio tau dtau big) (ratio kappa dkappa big)) 1.

Lemma neg_ratio_pos v dv : 0 < v -> dv < 0 -> 0 < - v / dv.
Proof. intros Hv Hd. assert (E : (- v / dv) * dv = - v) by (field; lra). nra. Qed.

(** any step not longer than [frac * cap] with 0 <= frac < 1 keeps a positive scalar positive *)
Lemma ratio_keeps_positive v dv big a frac :
  0 < v -> 0 < big -> 0 <= frac < 1 -> 0 <= a <= frac * ratio v dv big -> 0 < v + a * dv.
Proof.
  intros Hv Hb [Hf0 Hf1] [Ha0 Ha]. unfold ratio in Ha. destruct (Rlt_dec dv 0) as [Hd|Hd].
  - assert (Hr : 0 < - v / dv) by (apply neg_ratio_pos; assumption).
    assert (Ha' : a < - v / dv) by nra.
    assert (E : v + a * dv = (- dv) * (- v / dv - a)) by (field; lra).
    rewrite E. apply Rmult_lt_0_compat; lra.
  - assert (0 <= dv) by lra. nra.
Qed.

Theorem step_keeps_tau_kappa_positive tau kappa dtau dkappa big az as_ frac :
  0 < tau -> 0 < kappa -> 0 < big -> 0 <= frac < 1 ->
  0 <= az <= cap_R tau kappa dtau dkappa big ->
  0 <= as_ <= cap_R tau kappa dtau dkappa big ->
  let a := Rmin az as_ * frac in
  0 < tau + a * dtau /\ 0 < kappa + a * dkappa.
Proof.
  intros Ht Hk Hb Hf [Hz0 Hz] [Hs0 Hs] a.
  assert (Hm : 0 <= Rmin az as_ <= cap_R tau kappa dtau dkappa big).
  { split; [apply Rmin_glb; assumption|]. eapply Rle_trans; [apply Rmin_l|exact Hz]. }
  assert (Hrt : 0 <= ratio tau dtau big).
  { unfold ratio. destruct (Rlt_dec dtau 0); [|lra]. apply Rlt_le, neg_ratio_pos; assumption. }
  assert (Hrk : 0 <= ratio kappa dkappa big).
  { unfold ratio. destruct (Rlt_dec dkappa 0); [|lra]. apply Rlt_le, neg_ratio_pos; assumption. }
  unfold cap_R in Hm.
  assert (C1 : Rmin az as_ <= ratio tau dtau big).
  { eapply Rle_trans; [exact (proj2 Hm)|]. eapply Rle_trans; [apply Rmin_l|apply Rmin_l]. }
  assert (C2 : Rmin az as_ <= ratio kappa dkappa big).
  { eapply Rle_trans; [exact (proj2 Hm)|]. eapply Rle_trans; [apply Rmin_l|apply Rmin_r]. }
  destruct Hf as [Hf0 Hf1]. destruct Hm as [Hm0 _].
  split.
  - apply (ratio_keeps_positive tau dtau big a frac Ht Hb (conj Hf0 Hf1)).
    unfold a. split; [apply Rmult_le_pos; assumption|]. rewrite Rmult_comm. apply Rmult_le_compat_l; assumption.
  - apply (ratio_keeps_positive kappa dkappa big a frac Hk Hb (conj Hf0 Hf1)).
    unfold a. split; [apply Rmult_le_pos; assumption|]. rewrite Rmult_comm. apply Rmult_le_compat_l; assumption.
Qed.
Close Scope R_scope.

(** * binary64 instance (mirrors the operation order of the Rust code) *)
Definition fnan (x : float) : bool := negb (PrimFloat.eqb x x).
(** f64::min *)
Definition fmin (a b : float) : float :=
  if fnan a then b else if fnan b then a else if PrimFloat.ltb b a then b else a.
Definition fmaxv : float := 0x1.fffffffffffffp+1023%float.
Definition cap_F (tau kappa dtau dkappa : float) : float :=
  let at_ := if PrimFloat.ltb dtau 0%float then PrimFloat.div (PrimFloat.opp tau) dtau else fmaxv in
  let ak := if PrimFloat.ltb dkappa 0%float then PrimFloat.div (PrimFloat.opp kappa) dkappa else fmaxv in
  fold_left fmin [at_; ak; 1%float] infinity.
Definition out_F (az as_ frac : float) (combined : bool) : float :=
  let a := fmin az as_ in if combined then PrimFloat.mul a frac else a.
Definition fsame (a b : float) : bool := PrimFloat.eqb a b || (fnan a && fnan b).

(** 0 iff the recorded cap and result are exactly what the model computes from the recorded
    inputs, and (for a combined step with positive tau, kappa and a direction that is not NaN) both
    stay positive after it *)
Definition c_steplen (tau kappa dtau dkappa cap az as_ out frac : float) (combined : bool) : N :=
  if fsame cap (cap_F tau kappa dtau dkappa) && fsame out (out_F az as_ frac combined)
     && (negb combined
         || negb (PrimFloat.ltb 0%float tau && PrimFloat.ltb 0%float kappa)
         || fnan dtau || fnan dkappa || fnan out
         || (PrimFloat.ltb 0%float (PrimFloat.add tau (PrimFloat.mul out dtau))
             && PrimFloat.ltb 0%float (PrimFloat.add kappa (PrimFloat.mul out dkappa))))
  then 0%N else 1%N.

(** * barrier backtracking of the combined step under dual scaling
    ([backtrack_step_to_barrier], solver.rs): at most 50 trials; the step is multiplied by
    [step] after every trial whose barrier value is not below 1.  [ans] lists the answers of
    the [barrier < 1] tests in order. *)
Fixpoint bt_gen {T} (mul : T -> T -> T) (fuel : nat) (ans : list bool) (step a : T) : T :=
  match fuel with
  | O => a
  | S f => match ans with
           | [] => a
           | true :: _ => a
           | false :: r => bt_gen mul f r step (mul step a)
           end
  end.
(** number of shrinkings: position of the first [true], at most [fuel] *)
Fixpoint bt_count (fuel : nat) (ans : list bool) : nat :=
  match fuel with
  | O => O
  | S f => match ans with
           | [] => O
           | true :: _ => O
           | false :: r => S (bt_count f r)
           end
  end.

Open Scope R_scope.
Theorem bt_barrier_result (fuel : nat) (ans : list bool) (step a : R) :
  bt_gen Rmult fuel ans step a = step ^ (bt_count fuel ans) * a /\ (bt_count fuel ans <= fuel)%nat.
Proof.
  revert ans a. induction fuel as [|f IH]; intros ans a; cbn [bt_gen bt_count].
  - split; [ring|apply le_n].
  - destruct ans as [|[|] r]; cbn [pow]; try (split; [ring|apply Nat.le_0_l]).
    destruct (IH r (step * a)) as [E L]. rewrite E. split; [cbn [pow]; ring|apply le_n_S; exact L].
Qed.

(** hence the returned step is positive and not longer than the one it was given *)
Theorem bt_barrier_bounds (fuel : nat) (ans : list bool) (step a : R) :
  0 < step <= 1 -> 0 < a -> 0 < bt_gen Rmult fuel ans step a <= a.
Proof.
  intros [Hs0 Hs1] Ha. destruct (bt_barrier_result fuel ans step a) as [E _]. rewrite E.
  set (k := bt_count fuel ans).
  assert (Hp : 0 < step ^ k <= 1).
  { split; [apply pow_lt; exact Hs0|].
    induction k as [|k IHk]; cbn [pow]; [lra|]. assert (0 < step ^ k) by (apply pow_lt; exact Hs0). nra. }
  destruct Hp as [Hp0 Hp1]. split; [apply Rmult_lt_0_compat; assumption|nra].
Qed.
Close Scope R_scope.

(** well-formed answer list: every answer before the last is [false]; a run that stops before
    50 trials ends on [true] *)
Fixpoint ans_wf (ans : list bool) : bool :=
  match ans with
  | [] => false
  | [b] => true
  | b :: r => negb b && ans_wf r
  end.
Definition c_barrier_bt (step ainit aout : float) (ans : list bool) : N :=
  let n := length ans in
  if ans_wf ans && Nat.leb n 50 && (Nat.eqb n 50 || last ans false)
     && (let mdl := bt_gen PrimFloat.mul 50 ans step ainit in
         (* equal up to the rounding of at most 50 multiplications (relative 2^-40): the
            code may form step^k in another order *)
         fsame aout mdl
         || PrimFloat.leb (PrimFloat.abs (PrimFloat.sub aout mdl)) (PrimFloat.mul (PrimFloat.abs mdl) 0x1p-40%float))
  then 0%N else 1%N.
