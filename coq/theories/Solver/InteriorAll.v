(** C07: interior test of iterate snapshots for EVERY cone kind.

    Zero / nonnegative / second-order cones are decided exactly as in [Solver/Interior.v].
    For the exponential, power, generalised power and PSD triangle cones the recorded binary64
    values (dyadic rationals) are run through the certified membership tests of [Term/Check.v]
    (an exponential enclosure, root-free power inequalities, exact elimination in Q), first at
    the recorded point and, if that fails, at the point moved by the relative amount [2^-40]
    along the cone's interior direction ("strictly inside up to rounding").  In addition the
    sign conditions every strictly interior point satisfies are tested exactly (no slack).

    [cone_int_sound] states what a positive answer means over the reals. *)
From Coq Require Import List NArith ZArith QArith Bool Lia Reals.
Import ListNotations.
Require Import Clarabel.Base.Ops Clarabel.Base.Dyadic Clarabel.Term.Eval Clarabel.Term.Spec
        Clarabel.Term.Hom Clarabel.Term.Check Clarabel.Term.LemmasCheck Clarabel.Term.LemmasExp
        Clarabel.Term.LemmasPsd Clarabel.Solver.Interior.

(** relative rounding allowance: 2^-40 of the largest entry of the cone's block *)
Definition rslack (v : list dy) : dy := dshift (dninf v) (-40).

Definition is_diag (n idx : nat) : bool := existsb (fun j => Nat.eqb idx (tri_idx j j)) (seq 0 n).
Definition bump_diag (n : nat) (dl : dy) (v : list dy) : list dy :=
  map (fun iv => if is_diag n (fst iv) then dadd (snd iv) dl else snd iv) (combine (seq 0 (length v)) v).

(** the recorded point moved by [rslack] towards the interior *)
Definition bump (dual : bool) (k : coneD) (v : list dy) : list dy :=
  let dl := rslack v in
  match k with
  | KExp => match v with
            | [a; b; c] => if dual then [dsub a dl; dadd b dl; dadd c dl] else [dsub a dl; b; dadd c dl]
            | _ => v end
  | KPow _ => match v with [a; b; c] => [dadd a dl; dadd b dl; dmul c rel40m] | _ => v end
  | KGenPow al _ => shiftv dl (firstn (length al) v) ++ map (fun a => dmul a rel40m) (skipn (length al) v)
  | KPSD n => bump_diag (N.to_nat n) dl v
  | _ => v
  end.

(** certified (closed) membership test; [None]: the kind is outside the exact fragment
    (a power cone whose exponent is not a short dyadic) or is decided exactly elsewhere *)
Definition mem (dual : bool) (k : coneD) (v : list dy) : option bool :=
  match k with
  | KExp => Some (if dual then exp_dual_ok v else exp_ok v)
  | KPow a => match alpha_pq a with
              | Some (p, q) => Some (if dual then pow_dual_ok p q v else pow_ok p q v)
              | None => None end
  | KGenPow al _ => match alphas_pq al with
                    | Some (ps, q) => Some (if dual then genpow_dual_ok ps q v else genpow_ok ps q v)
                    | None => None end
  | KPSD n => Some (psd_ok (N.to_nat n) v)
  | _ => None
  end.

(** sign conditions of strictly interior points, tested exactly *)
Definition signs (dual : bool) (k : coneD) (v : list dy) : bool :=
  match k with
  | KExp => match v with
            | [a; b; c] => if dual then dltb a d0 && dltb d0 c else dltb d0 b && dltb d0 c
            | _ => false end
  | KPow _ => match v with [a; b; _] => dltb d0 a && dltb d0 b | _ => false end
  | KGenPow al _ => pos_all (firstn (length al) v)
  | KPSD n => forallb (fun j => dltb d0 (nth (tri_idx j j) v d0)) (seq 0 (N.to_nat n))
  | _ => true
  end.

Definition near_mem (dual : bool) (k : coneD) (v : list dy) : bool :=
  match mem dual k v with
  | None => true
  | Some true => true
  | Some false => match mem dual k (bump dual k v) with Some b => b | None => true end
  end.

Definition cone_int (dual : bool) (k : coneD) (v : list dy) : bool :=
  Nat.eqb (length v) (cone_dim k) &&
  match k with
  | KZero _ => true
  | KNN _ => pos_all v
  | KSOC _ => soc_int v
  | _ => signs dual k v && near_mem dual k v
  end.

Definition cones_int (dual : bool) (K : list coneD) (v : list dy) : bool :=
  forallb (fun kc => cone_int dual (fst kc) (snd kc)) (chunks K v).

Definition c_interior_all (K : list coneD) (s z : list dy) (tau kappa : dy) : N :=
  if dltb d0 tau && dltb d0 kappa && cones_int false K s && cones_int true K z then 0%N else 1%N.

(** how many cone blocks of a snapshot were decided by a certified test (for the evidence) *)
Definition decided (k : coneD) : bool :=
  match k with
  | KZero _ => false
  | KNN _ | KSOC _ | KExp | KPSD _ => true
  | KPow a => match alpha_pq a with Some _ => true | None => false end
  | KGenPow al _ => match alphas_pq al with Some _ => true | None => false end
  end.

(** * Meaning over the reals *)
Local Open Scope R_scope.

Definition memP (dual : bool) (k : coneD) (v : list R) : Prop :=
  match k with
  | KExp => if dual then in_exp_dual v else in_exp v
  | KPow a => match alpha_pq a with
              | Some (p, q) => if dual then in_pow_dual p q v else in_pow p q v
              | None => True end
  | KGenPow al _ => match alphas_pq al with
                    | Some (ps, q) => if dual then in_genpow_dual ps q v else in_genpow ps q v
                    | None => True end
  | KPSD n => in_psd (N.to_nat n) v
  | _ => True
  end.

Definition signsP (dual : bool) (k : coneD) (v : list dy) : Prop :=
  match k with
  | KExp => match v with
            | [a; b; c] => if dual then d2R a < 0 /\ 0 < d2R c else 0 < d2R b /\ 0 < d2R c
            | _ => False end
  | KPow _ => match v with [a; b; _] => 0 < d2R a /\ 0 < d2R b | _ => False end
  | KGenPow al _ => Forall (fun x => 0 < d2R x) (firstn (length al) v)
  | KPSD n => forall j, (j < N.to_nat n)%nat -> 0 < d2R (nth (tri_idx j j) v d0)
  | _ => True
  end.

Lemma mem_sound dual k v : mem dual k v = Some true -> memP dual k (vecR v).
Proof.
  destruct k as [n|n|n| |a|al d2|n]; cbn [mem memP]; try discriminate.
  - destruct dual; intros H; injection H as H; [apply exp_dual_ok_sound|apply exp_ok_sound]; exact H.
  - destruct (alpha_pq a) as [[p q]|]; [|discriminate].
    destruct dual; intros H; injection H as H; [apply pow_dual_ok_sound|apply pow_ok_sound]; exact H.
  - destruct (alphas_pq al) as [[ps q]|]; [|discriminate].
    destruct dual; intros H; injection H as H; [apply genpow_dual_ok_sound|apply genpow_ok_sound]; exact H.
  - intros H; injection H as H. apply psd_ok_sound. exact H.
Qed.

Lemma mem_none_memP dual k v w : mem dual k v = None -> memP dual k w.
Proof.
  destruct k as [n|n|n| |a|al d2|n]; cbn [mem memP]; try discriminate; auto.
  - destruct (alpha_pq a) as [[p q]|]; [discriminate|auto].
  - destruct (alphas_pq al) as [[ps q]|]; [discriminate|auto].
Qed.

Lemma near_mem_sound dual k v :
  near_mem dual k v = true -> memP dual k (vecR v) \/ memP dual k (vecR (bump dual k v)).
Proof.
  unfold near_mem. destruct (mem dual k v) as [[|]|] eqn:E.
  - intros _. left. apply mem_sound. exact E.
  - destruct (mem dual k (bump dual k v)) as [b|] eqn:E2.
    + intros H. subst b. right. apply mem_sound. exact E2.
    + intros _. right. eapply mem_none_memP. exact E2.
  - intros _. left. eapply mem_none_memP. exact E.
Qed.

Lemma pos_all_R v : pos_all v = true -> Forall (fun x => 0 < d2R x) v.
Proof.
  unfold pos_all. intros H. rewrite forallb_forall in H. apply Forall_forall.
  intros x Hx. specialize (H x Hx). apply dltb_R in H. rewrite d2R_0 in H. exact H.
Qed.

Lemma signs_sound dual k v : signs dual k v = true -> signsP dual k v.
Proof.
  destruct k as [n|n|n| |a|al d2|n]; cbn [signs signsP]; auto.
  - destruct v as [|a [|b [|c [|? ?]]]]; try discriminate.
    destruct dual; intros H; apply andb_prop in H; destruct H as [H1 H2];
      apply dltb_R in H1; apply dltb_R in H2; rewrite d2R_0 in *; auto.
  - destruct v as [|x [|b [|c [|? ?]]]]; try discriminate.
    intros H; apply andb_prop in H; destruct H as [H1 H2];
      apply dltb_R in H1; apply dltb_R in H2; rewrite d2R_0 in *; auto.
  - apply pos_all_R.
  - intros H j Hj. rewrite forallb_forall in H.
    assert (Hin : In j (seq 0 (N.to_nat n))) by (apply in_seq; lia).
    specialize (H j Hin). apply dltb_R in H. rewrite d2R_0 in H. exact H.
Qed.

(** what a positive per-cone answer means *)
Definition cone_intP (dual : bool) (k : coneD) (v : list dy) : Prop :=
  length v = cone_dim k /\
  match k with
  | KZero _ => True
  | KNN _ => Forall (fun x => 0 < d2R x) v
  | KSOC _ => match v with
              | [] => True
              | t :: r => (0 < d2Q t)%Q /\
                  (Qsum (map (fun x => d2Q x * d2Q x)%Q r) < d2Q t * d2Q t * (1 + d2Q soc_slack))%Q
              end
  | _ => signsP dual k v /\ (memP dual k (vecR v) \/ memP dual k (vecR (bump dual k v)))
  end.

Theorem cone_int_sound dual k v : cone_int dual k v = true -> cone_intP dual k v.
Proof.
  unfold cone_int, cone_intP. intros H. apply andb_prop in H. destruct H as [Hl H].
  apply Nat.eqb_eq in Hl. split; [exact Hl|].
  destruct k as [n|n|n| |a|al d2|n]; auto.
  - apply pos_all_R. exact H.
  - destruct v as [|t r]; [exact I|]. apply soc_int_sound. exact H.
  - apply andb_prop in H. destruct H as [H1 H2]. split; [apply signs_sound|apply near_mem_sound]; assumption.
  - apply andb_prop in H. destruct H as [H1 H2]. split; [apply signs_sound|apply near_mem_sound]; assumption.
  - apply andb_prop in H. destruct H as [H1 H2]. split; [apply signs_sound|apply near_mem_sound]; assumption.
  - apply andb_prop in H. destruct H as [H1 H2]. split; [apply signs_sound|apply near_mem_sound]; assumption.
Qed.

Theorem c_interior_all_sound K s z tau kappa :
  c_interior_all K s z tau kappa = 0%N ->
  0 < d2R tau /\ 0 < d2R kappa /\
  Forall (fun kc => cone_intP false (fst kc) (snd kc)) (chunks K s) /\
  Forall (fun kc => cone_intP true (fst kc) (snd kc)) (chunks K z).
Proof.
  unfold c_interior_all.
  destruct (dltb d0 tau) eqn:Ht; cbn [andb]; [|discriminate].
  destruct (dltb d0 kappa) eqn:Hk; cbn [andb]; [|discriminate].
  destruct (cones_int false K s) eqn:Hs; cbn [andb]; [|discriminate].
  destruct (cones_int true K z) eqn:Hz; [|discriminate].
  intros _. apply dltb_R in Ht. apply dltb_R in Hk. rewrite d2R_0 in *.
  repeat split; try assumption.
  - unfold cones_int in Hs. rewrite forallb_forall in Hs. apply Forall_forall.
    intros kc Hin. apply cone_int_sound. apply Hs. exact Hin.
  - unfold cones_int in Hz. rewrite forallb_forall in Hz. apply Forall_forall.
    intros kc Hin. apply cone_int_sound. apply Hz. exact Hin.
Qed.

(** the moved point differs from the recorded one only by the stated allowance: for the
    exponential cone (the other kinds are analogous and only evaluated) *)
Lemma bump_exp_primal a b c :
  bump false KExp [a; b; c] = [dsub a (rslack [a; b; c]); b; dadd c (rslack [a; b; c])].
Proof. reflexivity. Qed.
