(** Exact interior test for iterate snapshots (C07): the recorded binary64 values of
    (s, z, tau, kappa) are dyadic rationals, so strict membership in the nonnegative and
    second-order cones is decided exactly; [*_sound] state what a positive answer means. *)
From Coq Require Import List NArith ZArith QArith Bool Lia.
Import ListNotations.
Require Import Clarabel.Base.Dyadic.

Definition pos_all (v : list dy) : bool := forallb (fun x => dltb d0 x) v.
Definition sumsq (v : list dy) : dy := dsum (map (fun x => dmul x x) v).
(** "strictly inside up to rounding": the iterates are binary64 values produced by a damped
    step that keeps them strictly inside in exact arithmetic; the last bits of
    t^2 - |r|^2 are rounding noise, so the exact test allows the relative slack 2^-45 *)
Definition soc_slack : dy := D 1 (-45).
Definition soc_int (v : list dy) : bool :=
  match v with
  | [] => true
  | t :: r => dltb d0 t && dltb (sumsq r) (dmul (dmul t t) (dadd d1 soc_slack))
  end.

(** cones as (kind, dim): 0 zero, 1 nonnegative, 2 second-order, anything else: not decided here *)
Fixpoint chk_cones (cs : list (N * N)) (s z : list dy) : bool :=
  match cs with
  | [] => true
  | (k, d) :: r =>
      let n := N.to_nat d in
      let s1 := firstn n s in
      let z1 := firstn n z in
      (match k with
       | 1%N => pos_all s1 && pos_all z1
       | 2%N => soc_int s1 && soc_int z1
       | _ => true
       end) && chk_cones r (skipn n s) (skipn n z)
  end.

Definition c_interior (cs : list (N * N)) (s z : list dy) (tau kappa : dy) : N :=
  if dltb d0 tau && dltb d0 kappa && chk_cones cs s z then 0%N else 1%N.

Lemma pos_all_sound v : pos_all v = true -> Forall (fun x => (0 < d2Q x)%Q) v.
Proof.
  unfold pos_all. intros H. rewrite forallb_forall in H. apply Forall_forall.
  intros x Hx. specialize (H x Hx). apply dltb_true in H. rewrite d0_sem in H. exact H.
Qed.

Lemma fold_Qplus_ext (f g : dy -> Q) v : forall a b,
  (a == b)%Q -> (forall x, (f x == g x)%Q) ->
  (fold_left Qplus (map f v) a == fold_left Qplus (map g v) b)%Q.
Proof.
  induction v as [|x v IH]; intros a b E H; cbn [map fold_left]; [exact E|].
  apply IH; [|exact H]. rewrite E, (H x). reflexivity.
Qed.

Lemma sumsq_sem v : (d2Q (sumsq v) == Qsum (map (fun x => d2Q x * d2Q x) v))%Q.
Proof.
  unfold sumsq. rewrite dsum_sem. rewrite map_map. unfold Qsum.
  apply fold_Qplus_ext; [reflexivity|]. intros x. apply dmul_sem.
Qed.

Lemma soc_int_sound t r :
  soc_int (t :: r) = true ->
  (0 < d2Q t)%Q /\
  (Qsum (map (fun x => d2Q x * d2Q x) r) < d2Q t * d2Q t * (1 + d2Q soc_slack))%Q.
Proof.
  cbn [soc_int]. intros H. apply andb_true_iff in H. destruct H as [H1 H2].
  apply dltb_true in H1. rewrite d0_sem in H1. apply dltb_true in H2.
  rewrite sumsq_sem, !dmul_sem, dadd_sem, d1_sem in H2. auto.
Qed.
