(** Executable model of the control flow of [IPSolver::solve] (src/solver/core/solver.rs,
    lines 196-410) and of the limit logic of [DefaultInfo::check_termination]
    (src/solver/implementations/default/info.rs).

    The numeric kernels (residuals, convergence tests on the figures, cone scaling, KKT
    update / solves, step lengths, the "almost" test of post_process) are NOT modelled
    here: their outcomes are supplied pass by pass by an oracle record [pin], so every
    theorem about [run] quantifies over all kernel behaviours (all inputs, all rounding,
    NaNs included, all clocks).  The control flow itself - termination test order, the
    four strategy checkpoints with roll-back, where [iter] is incremented, where alpha is
    zeroed, the extra status line, post-processing - is transcribed branch for branch.

    The step-length type [A] is abstract with three boolean observations, so the model
    can be run on binary64 values ([Check.v]) and reasoned about for any [A].
    No proofs in this file. *)
From Coq Require Import List NArith Bool.
Import ListNotations.

Inductive status : Set :=
| Unsolved | Solved | PrimalInfeasible | DualInfeasible
| AlmostSolved | AlmostPrimalInfeasible | AlmostDualInfeasible
| MaxIterations | MaxTime | NumericalError | InsufficientProgress.

Definition status_eqb (a b : status) : bool :=
  match a, b with
  | Unsolved, Unsolved | Solved, Solved | PrimalInfeasible, PrimalInfeasible
  | DualInfeasible, DualInfeasible | AlmostSolved, AlmostSolved
  | AlmostPrimalInfeasible, AlmostPrimalInfeasible
  | AlmostDualInfeasible, AlmostDualInfeasible | MaxIterations, MaxIterations
  | MaxTime, MaxTime | NumericalError, NumericalError
  | InsufficientProgress, InsufficientProgress => true
  | _, _ => false
  end.

Inductive strategy : Set := PrimalDual | Dual.
Definition strategy_eqb (a b : strategy) : bool :=
  match a, b with PrimalDual, PrimalDual | Dual, Dual => true | _, _ => false end.

(** StrategyCheckpoint; [Update(s)] only ever carries [Dual] in the code *)
Inductive ckpt : Set := NoUpdate | UpdateDual | Fail.
Inductive ckkind : Set := CkInsufficient | CkNumerical | CkSmallStep.

Definition is_errored (s : status) : bool :=
  match s with NumericalError | InsufficientProgress => true | _ => false end.

(** the three verdicts check_convergence_almost can write *)
Inductive almostv : Set := ASolved | APrimalInf | ADualInf.
Definition almost_status (a : almostv) : status :=
  match a with ASolved => AlmostSolved | APrimalInf => AlmostPrimalInfeasible
             | ADualInf => AlmostDualInfeasible end.

Section Model.
Variable A : Type.                 (* step lengths *)
Variable azero : A.                (* T::zero() *)
Variable a_is_zero : A -> bool.    (* α == T::zero() *)
Variable a_lt_switch : A -> bool.  (* α < settings.min_switch_step_length *)
Variable a_le_term : A -> bool.    (* α <= max(0, settings.min_terminate_step_length) *)

Record env : Type := mkEnv {
  is_sym : bool;          (* cones.is_symmetric() *)
  max_iter : N;           (* settings.max_iter *)
}.

(** what the kernels answer during one pass of the loop *)
Record pin : Type := mkPin {
  p_pre : status;    (* info.status after the convergence and poor-progress tests of
                        check_termination, i.e. just before the limit tests *)
  p_over : bool;     (* info.solve_time > settings.time_limit at this head *)
  p_scale : bool;    (* variables.scale_cones(..) succeeded *)
  p_kkt : bool;      (* kktsystem.update(..) succeeded *)
  p_aff : bool;      (* affine kktsystem.solve(..) succeeded (only consulted if p_kkt) *)
  p_aalpha : A;      (* affine step length *)
  p_comb : bool;     (* combined kktsystem.solve(..) succeeded *)
  p_alpha : A;       (* combined step length *)
}.

Record st : Type := mkSt {
  iter : N;
  scaling : strategy;
  alpha : A;
  stat : status;
}.

(** control-relevant events, in the order the instrumented Rust code emits them *)
Inductive event : Type :=
| EHead (iter : N) (alpha : A)          (* save_scalars + status line at the loop head *)
| EPre (iterations : N)                 (* info.iterations seen by the limit test *)
| ETerm (done : bool) (s : status)
| ERollback
| ECk (k : ckkind) (c : ckpt)
| EScale (ok : bool) (sc : strategy)
| EIterInc (iter : N)
| EKkt (ok : bool)
| EAff (ok : bool)
| EAlphaAff (alpha : A)
| EComb (ok : bool)
| EAlpha (alpha : A)
| ESavePrev
| EAddStep (alpha : A)
| EEnd (alpha : A) (iter : N) (s : status)
| EExtraLine (iter : N)
| EPost (sin sout : status).

(** the limit tests of check_termination (info.rs: "time or iteration limits") *)
Definition limits (e : env) (it : N) (pre : status) (over : bool) : status :=
  match pre with
  | Unsolved => if N.eqb (max_iter e) it then MaxIterations
                else if over then MaxTime else Unsolved
  | s => s
  end.

Definition nonsym_pd (e : env) (s : st) : bool :=
  negb (is_sym e) && strategy_eqb (scaling s) PrimalDual.

(** One pass of [loop { .. }]: new state, events, and [true] = continue / [false] = break. *)
Definition pass (e : env) (s : st) (p : pin) : st * list event * bool :=
  let it := iter s in
  let st2 := limits e it (p_pre p) (p_over p) in
  let done := negb (status_eqb st2 Unsolved) in
  let ev0 := [EHead it (alpha s); EPre it; ETerm done st2] in
  if done then
    (* strategy_checkpoint_insufficient_progress *)
    if negb (status_eqb st2 InsufficientProgress) then
      (mkSt it (scaling s) (alpha s) st2, ev0 ++ [ECk CkInsufficient NoUpdate], false)
    else if nonsym_pd e s then
      (mkSt it Dual (alpha s) Unsolved, ev0 ++ [ERollback; ECk CkInsufficient UpdateDual], true)
    else
      (mkSt it (scaling s) (alpha s) st2, ev0 ++ [ERollback; ECk CkInsufficient Fail], false)
  else
    let ev1 := ev0 ++ [EScale (p_scale p) (scaling s)] in
    if negb (p_scale p) then
      (mkSt it (scaling s) (alpha s) NumericalError, ev1, false)
    else
      let it' := N.succ it in
      let ok1 := p_kkt p && p_aff p in
      let ev2 := ev1 ++ [EIterInc it'; EKkt (p_kkt p); EAff ok1] in
      let a1 := if ok1 then p_aalpha p else alpha s in
      let ok2 := if ok1 then p_comb p else false in
      let ev3 := if ok1 then ev2 ++ [EAlphaAff (p_aalpha p); EComb (p_comb p)] else ev2 in
      (* strategy_checkpoint_numerical_error *)
      if negb ok2 then
        if nonsym_pd e s then
          (mkSt it' Dual azero Unsolved, ev3 ++ [ECk CkNumerical UpdateDual], true)
        else
          (mkSt it' (scaling s) azero NumericalError, ev3 ++ [ECk CkNumerical Fail], false)
      else
        let a2 := p_alpha p in
        let ev4 := ev3 ++ [ECk CkNumerical NoUpdate; EAlpha a2] in
        (* strategy_checkpoint_small_step *)
        if nonsym_pd e s && a_lt_switch a2 then
          (mkSt it' Dual azero Unsolved, ev4 ++ [ECk CkSmallStep UpdateDual], true)
        else if a_le_term a2 then
          (mkSt it' (scaling s) azero InsufficientProgress, ev4 ++ [ECk CkSmallStep Fail], false)
        else
          (mkSt it' (scaling s) a2 Unsolved,
           ev4 ++ [ECk CkSmallStep NoUpdate; ESavePrev; EAddStep a2], true).

(** [info.post_process]: the "almost" test is consulted only for error / limit statuses;
    [almost] is the kernel's answer (None = no reduced-accuracy verdict applies). *)
Definition post (s : status) (almost : option almostv) : status :=
  if is_errored s || status_eqb s MaxIterations || status_eqb s MaxTime then
    match almost with Some a => almost_status a | None => s end
  else s.

(** what follows the loop: extra status line when alpha == 0, post-processing *)
Definition finish (s : st) (almost : option almostv) : st * list event :=
  let ev := [EEnd (alpha s) (iter s) (stat s)] ++
            (if a_is_zero (alpha s) then [EExtraLine (iter s)] else []) in
  let s' := post (stat s) almost in
  (mkSt (iter s) (scaling s) (alpha s) s', ev ++ [EPost (stat s) s']).

(** the state after [ps] if every one of those passes continues *)
Fixpoint steps (e : env) (s : st) (ps : list pin) : option st :=
  match ps with
  | [] => Some s
  | p :: r => match pass e s p with
              | (s', _, true) => steps e s' r
              | (_, _, false) => None
              end
  end.

(** iteration numbers shown by the status lines (one per loop head, plus the extra line) *)
Definition lines (ev : list event) : list N :=
  flat_map (fun x => match x with EHead i _ => [i] | EExtraLine i => [i] | _ => [] end) ev.

(** The loop, driven by the oracle list.  [None] = the oracle list ran out before the loop
    exited (excluded by theorem [run_terminates] when the list is long enough). *)
Fixpoint loop (e : env) (s : st) (pins : list pin) : option st * list event :=
  match pins with
  | [] => (None, [])
  | p :: ps =>
      match pass e s p with
      | (s', ev, true) => let (r, ev') := loop e s' ps in (r, ev ++ ev')
      | (s', ev, false) => (Some s', ev)
      end
  end.

Definition run (e : env) (pd_allowed : bool) (pins : list pin) (almost : option almostv)
  : option st * list event :=
  let s0 := mkSt 0%N (if pd_allowed then PrimalDual else Dual) azero Unsolved in
  match loop e s0 pins with
  | (Some s, ev) => let (s', ev') := finish s almost in (Some s', ev ++ ev')
  | (None, ev) => (None, ev)
  end.

End Model.

