(** Statements for C06: the search direction assembled by [DefaultKKTSystem::solve]
    satisfies the five linearised equations of the homogeneous embedding whenever the two
    solves with K = [P A'; A -H] are exact, in every dimension; and the centering parameter
    stays in [0,1].  Proofs: Newton/Lemmas.v. *)
From Coq Require Import Reals.
Require Import Clarabel.Newton.Model.
Open Scope R_scope.

Definition stmt_newton_equations : Prop :=
  forall (n m : nat) (P A H : mat) (q b x : vec) (tau kappa : R)
         (x1 z1 x2 z2 cst rx rz : vec) (rtau rkappa : R),
    (forall i j, (i < n)%nat -> (j < n)%nat -> P i j = P j i) ->
    tau <> 0 ->
    tau_den n m P q b x tau kappa x2 z2 <> 0 ->
    (* the variable solve:  K [x1; z1] = [rx; cst - rz] *)
    (forall i, (i < n)%nat -> mv n P x1 i + mv m (transp A) z1 i = rx i) ->
    (forall i, (i < m)%nat -> mv n A x1 i - mv m H z1 i = cst i - rz i) ->
    (* the constant solve:  K [x2; z2] = [-q; b] *)
    (forall i, (i < n)%nat -> mv n P x2 i + mv m (transp A) z2 i = - q i) ->
    (forall i, (i < m)%nat -> mv n A x2 i - mv m H z2 i = b i) ->
    let d := assemble n m P H q b x tau kappa x1 z1 x2 z2 cst rtau rkappa in
    let xi := xi x tau in
    (forall i, (i < n)%nat -> mv n P (dx d) i + mv m (transp A) (dz d) i + dtau d * q i = rx i) /\
    (forall i, (i < m)%nat -> mv n A (dx d) i + ds d i - dtau d * b i = - rz i) /\
    (forall i, (i < m)%nat -> mv m H (dz d) i + ds d i = - cst i) /\
    (dot n q (dx d) + dot m b (dz d) + 2 * quad n P xi (dx d) - quad n P xi xi * dtau d
       + dkappa d = - rtau) /\
    (kappa * dtau d + tau * dkappa d = - rkappa).

Definition stmt_centering_range : Prop :=
  forall alpha, 0 <= alpha <= 1 -> 0 <= centering alpha <= 1.

(** sigma = 1 exactly when no affine progress is possible, 0 for a full affine step *)
Definition stmt_centering_ends : Prop := centering 0 = 1 /\ centering 1 = 0.
