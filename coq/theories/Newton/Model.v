(** Model of the reduced-KKT elimination in [DefaultKKTSystem::solve]
    (src/solver/implementations/default/kktsystem.rs): how the search direction
    (dx, dz, ds, dtau, dkappa) is assembled from the two solves with the quasi-definite matrix
    K = [P A'; A -H], and of the scalar step rules of solver.rs (centering parameter).
    Vectors are functions nat -> R read on indices < n (resp. < m); matrices are
    nat -> nat -> R.  No proofs in this file. *)
From Coq Require Import Reals.
Open Scope R_scope.

Definition vec := nat -> R.
Definition mat := nat -> nat -> R.

Fixpoint sumn (n : nat) (f : nat -> R) : R :=
  match n with O => 0 | S k => sumn k f + f k end.

Definition dot (n : nat) (u v : vec) : R := sumn n (fun i => u i * v i).
Definition vadd (u v : vec) : vec := fun i => u i + v i.
Definition vscal (c : R) (u : vec) : vec := fun i => c * u i.
Definition vneg (u : vec) : vec := fun i => - u i.
(** (M u)_i = sum_{j<n} M i j * u j *)
Definition mv (n : nat) (M : mat) (u : vec) : vec := fun i => sumn n (fun j => M i j * u j).
Definition transp (M : mat) : mat := fun i j => M j i.
(** u' M v over indices < n *)
Definition quad (n : nat) (M : mat) (u v : vec) : R := dot n u (mv n M v).

Record dir := mkDir { dx : vec; dz : vec; ds : vec; dtau : R; dkappa : R }.

(** [assemble]: the code after the variable solve.  x1,z1 / x2,z2 are the two KKT solutions,
    cst the constant term of the slack equation (Δs_const_term), x, tau, kappa the iterate,
    rtau, rkappa the scalar right-hand sides. *)
Section Assemble.
Variables (n m : nat) (P A H : mat) (q b : vec).
Variables (x : vec) (tau kappa : R).
Variables (x1 z1 x2 z2 cst : vec) (rtau rkappa : R).

Definition xi : vec := vscal (/ tau) x.
Definition tau_num : R :=
  rtau - rkappa / tau + dot n q x1 + dot m b z1 + 2 * quad n P xi x1.
Definition xi_minus_x2 : vec := vadd (vscal (-1) x2) xi.
Definition tau_den : R :=
  kappa / tau - dot n q x2 - dot m b z2
  + (quad n P xi_minus_x2 xi_minus_x2 - quad n P x2 x2).
Definition dtau_v : R := tau_num / tau_den.
Definition dx_v : vec := vadd x1 (vscal dtau_v x2).
Definition dz_v : vec := vadd z1 (vscal dtau_v z2).
Definition ds_v : vec := fun i => -1 * (mv m H dz_v i) + -1 * cst i.
Definition dkappa_v : R := - (rkappa + kappa * dtau_v) / tau.
Definition assemble : dir := mkDir dx_v dz_v ds_v dtau_v dkappa_v.
End Assemble.

(** centering parameter of solver.rs: sigma = (1 - alpha)^3 *)
Definition centering (alpha : R) : R := (1 - alpha) ^ 3.
