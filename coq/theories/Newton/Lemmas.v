From Coq Require Import Reals Lra Lia.
Require Import Clarabel.Newton.Model Clarabel.Newton.Spec.
Open Scope R_scope.

Lemma sumn_ext n f g : (forall i, (i < n)%nat -> f i = g i) -> sumn n f = sumn n g.
Proof.
  induction n as [|n IH]; intros H; cbn [sumn]; [reflexivity|].
  rewrite IH by (intros i Hi; apply H; lia). rewrite (H n) by lia. reflexivity.
Qed.
Lemma sumn_plus n f g : sumn n (fun i => f i + g i) = sumn n f + sumn n g.
Proof. induction n as [|n IH]; cbn [sumn]; [lra|]. rewrite IH. lra. Qed.
Lemma sumn_scal n c f : sumn n (fun i => c * f i) = c * sumn n f.
Proof. induction n as [|n IH]; cbn [sumn]; [lra|]. rewrite IH. lra. Qed.
Lemma sumn_swap n m (f : nat -> nat -> R) :
  sumn n (fun i => sumn m (fun j => f i j)) = sumn m (fun j => sumn n (fun i => f i j)).
Proof.
  induction n as [|n IH]; cbn [sumn].
  - induction m as [|m IHm]; cbn [sumn]; [reflexivity|]. rewrite <- IHm. lra.
  - rewrite IH. rewrite <- sumn_plus. reflexivity.
Qed.

Lemma mv_lin n M u c v i :
  mv n M (vadd u (vscal c v)) i = mv n M u i + c * mv n M v i.
Proof.
  unfold mv, vadd, vscal. rewrite <- sumn_scal, <- sumn_plus.
  apply sumn_ext. intros j _. ring.
Qed.
Lemma dot_lin_r n u v c w : dot n u (vadd v (vscal c w)) = dot n u v + c * dot n u w.
Proof.
  unfold dot, vadd, vscal. rewrite <- sumn_scal, <- sumn_plus.
  apply sumn_ext. intros j _. ring.
Qed.
Lemma dot_lin_l n u v c w : dot n (vadd v (vscal c w)) u = dot n v u + c * dot n w u.
Proof.
  unfold dot, vadd, vscal. rewrite <- sumn_scal, <- sumn_plus.
  apply sumn_ext. intros j _. ring.
Qed.
Lemma dot_ext n u v v' : (forall i, (i < n)%nat -> v i = v' i) -> dot n u v = dot n u v'.
Proof. intros H. unfold dot. apply sumn_ext. intros i Hi. rewrite H by exact Hi. reflexivity. Qed.

Lemma quad_lin_r n M u v c w : quad n M u (vadd v (vscal c w)) = quad n M u v + c * quad n M u w.
Proof.
  unfold quad. rewrite <- dot_lin_r. apply dot_ext. intros i _. apply mv_lin.
Qed.
Lemma quad_lin_l n M u v c w : quad n M (vadd v (vscal c w)) u = quad n M v u + c * quad n M w u.
Proof. unfold quad. apply dot_lin_l. Qed.
Lemma quad_scal_l n M c u v : quad n M (vscal c u) v = c * quad n M u v.
Proof.
  unfold quad, dot, vscal. rewrite <- sumn_scal. apply sumn_ext. intros; ring.
Qed.
Lemma quad_add_l n M u v w : quad n M (vadd u v) w = quad n M u w + quad n M v w.
Proof. unfold quad, dot, vadd. rewrite <- sumn_plus. apply sumn_ext. intros; ring. Qed.
Lemma quad_add_r n M u v w : quad n M u (vadd v w) = quad n M u v + quad n M u w.
Proof.
  unfold quad, dot. rewrite <- sumn_plus. apply sumn_ext. intros i _.
  unfold mv, vadd. rewrite <- Rmult_plus_distr_l. f_equal. rewrite <- sumn_plus.
  apply sumn_ext. intros; ring.
Qed.
Lemma quad_scal_r n M c u v : quad n M u (vscal c v) = c * quad n M u v.
Proof.
  unfold quad, dot. rewrite <- sumn_scal. apply sumn_ext. intros i _.
  unfold mv, vscal. rewrite <- Rmult_assoc, (Rmult_comm c), Rmult_assoc. f_equal.
  rewrite <- sumn_scal. apply sumn_ext. intros; ring.
Qed.
Lemma quad_sym n M u v :
  (forall i j, (i < n)%nat -> (j < n)%nat -> M i j = M j i) -> quad n M u v = quad n M v u.
Proof.
  intros Hs. unfold quad, dot, mv.
  transitivity (sumn n (fun i => sumn n (fun j => u i * (M i j * v j)))).
  { apply sumn_ext. intros i _. rewrite <- sumn_scal. reflexivity. }
  rewrite sumn_swap. apply sumn_ext. intros j Hj. rewrite <- sumn_scal.
  apply sumn_ext. intros i Hi. rewrite (Hs i j Hi Hj). ring.
Qed.

Theorem newton_equations_ok : stmt_newton_equations.
Proof.
  intros n m P A H q b x tau kappa x1 z1 x2 z2 cst rx rz rtau rkappa
         Psym Htau Hden K1x K1z K2x K2z d xi0.
  subst d xi0. unfold assemble. cbn [dx dz ds dtau dkappa].
  set (dt := dtau_v n m P q b x tau kappa x1 z1 x2 z2 rtau rkappa).
  unfold ds_v. unfold dx_v, dz_v. fold dt.
  repeat split.
  - intros i Hi. rewrite !mv_lin. rewrite <- (K1x i Hi).
    assert (E : q i = - (mv n P x2 i + mv m (transp A) z2 i)) by (rewrite (K2x i Hi); ring).
    rewrite E. ring.
  - intros i Hi. rewrite !mv_lin.
    assert (E1 : rz i = cst i - (mv n A x1 i - mv m H z1 i)) by (rewrite (K1z i Hi); ring).
    rewrite E1, <- (K2z i Hi). ring.
  - intros i Hi. ring.
  - (* the tau equation *)
    rewrite !dot_lin_r, !quad_lin_r.
    unfold dkappa_v. fold dt.
    assert (Hd : dt * tau_den n m P q b x tau kappa x2 z2 =
                 tau_num n m P q b x tau x1 z1 rtau rkappa).
    { unfold dt, dtau_v. field. exact Hden. }
    unfold tau_den, tau_num in Hd.
    unfold xi_minus_x2 in Hd.
    rewrite quad_add_l, !quad_add_r, !quad_scal_l, !quad_scal_r in Hd.
    rewrite (quad_sym n P x2 (Model.xi x tau) Psym) in Hd.
    set (a1 := dot n q x1) in *. set (a2 := dot n q x2) in *.
    set (b1 := dot m b z1) in *. set (b2 := dot m b z2) in *.
    set (B1 := quad n P (Model.xi x tau) x1) in *.
    set (B2 := quad n P (Model.xi x tau) x2) in *.
    set (B0 := quad n P (Model.xi x tau) (Model.xi x tau)) in *.
    set (B22 := quad n P x2 x2) in *.
    assert (E : rtau = dt * (kappa / tau - a2 - b2 + (B0 - 2 * B2))
                        + rkappa / tau - a1 - b1 - 2 * B1) by lra.
    rewrite E. field. exact Htau.
  - unfold dkappa_v. fold dt. field. exact Htau.
Qed.

Theorem centering_range_ok : stmt_centering_range.
Proof.
  intros a [H0 H1]. unfold centering.
  assert (0 <= 1 - a <= 1) by lra.
  set (t := 1 - a) in *. split.
  - apply pow_le. lra.
  - replace 1 with (1 ^ 3) by ring. apply pow_incr. lra.
Qed.

Theorem centering_ends_ok : stmt_centering_ends.
Proof. unfold stmt_centering_ends, centering. split; ring. Qed.
