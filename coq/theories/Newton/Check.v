(** Exact re-evaluation (dyadic arithmetic) of the four H-free Newton equations of
    [Newton/Spec.v] on a direction recorded from the implementation.  Inputs are the
    solver's internal data (P upper triangle and A as triplets, q, b), the iterate
    (x, tau, kappa), the right-hand side it was given and the direction it returned.
    Verdict 0 = every residual is below 2^-tolbits times the size of the terms it is made
    of; 1 = some equation is violated beyond that. *)
From Coq Require Import List NArith ZArith Bool Floats.
Import ListNotations.
Require Import Clarabel.Base.Dyadic.

Definition trip := (N * N * dy)%type.

Definition nthd (l : list dy) (i : N) : dy := nth (N.to_nat i) l d0.
Definition symT (T : list trip) : list trip :=
  T ++ flat_map (fun t => let '(i, j, v) := t in if N.eqb i j then [] else [(j, i, v)]) T.
Definition absT (T : list trip) : list trip := map (fun t => let '(i, j, v) := t in (i, j, dabs v)) T.
Definition absv (x : list dy) : list dy := map dabs x.

(** (T x)_i for i < m *)
Definition spmv (m : N) (T : list trip) (x : list dy) : list dy :=
  map (fun i => dsum (flat_map (fun t => let '(r, c, v) := t in
                                 if N.eqb r (N.of_nat i) then [dmul v (nthd x c)] else []) T))
      (seq 0 (N.to_nat m)).
Definition spmv_t (n : N) (T : list trip) (z : list dy) : list dy :=
  map (fun j => dsum (flat_map (fun t => let '(r, c, v) := t in
                                 if N.eqb c (N.of_nat j) then [dmul v (nthd z r)] else []) T))
      (seq 0 (N.to_nat n)).

Fixpoint vzip (f : dy -> dy -> dy) (a b : list dy) : list dy :=
  match a, b with
  | x :: a', y :: b' => f x y :: vzip f a' b'
  | _, _ => []
  end.
Definition vaddd := vzip dadd.
Definition vsubd := vzip dsub.
Definition vscald (c : dy) (x : list dy) : list dy := map (dmul c) x.
Definition norminf (x : list dy) : dy := dnorminf x.

(** |r| <= 2^-tolbits * scale + floor *)
Definition small (tolbits : Z) (fl : dy) (r scale : dy) : bool :=
  dleb (dabs r) (dadd (dshift scale (- tolbits)) fl).

Definition vsmall (tolbits : Z) (fl : dy) (r scale : list dy) : bool :=
  dleb (norminf r) (dadd (dshift (norminf scale) (- tolbits)) fl).

Definition c_newton_eq (tolbits : Z) (n m : N) (Ptriu A : list trip) (q b : list dy)
           (x : list dy) (tau kappa : dy)
           (rx rz : list dy) (rtau rkappa : dy)
           (dx dz ds : list dy) (dtau dkappa : dy) : N :=
  let P := symT Ptriu in
  (* absolute floor for quantities at rounding level: 2^-30 * max(1, |q|_inf, |b|_inf) *)
  let fl := dshift (dmax d1 (dmax (norminf q) (norminf b))) (-30) in
  let vsmall := fun t r s => vsmall t fl r s in
  let small := fun t r s => small t (dmul fl (dmax d1 (dmul tau tau))) r s in
  (* x-equation: P dx + A' dz + dtau q - rx *)
  let Pdx := spmv n P dx in
  let Atdz := spmv_t n A dz in
  let ex := vsubd (vaddd (vaddd Pdx Atdz) (vscald dtau q)) rx in
  let sx := vaddd (vaddd (vaddd (spmv n (absT P) (absv dx)) (spmv_t n (absT A) (absv dz)))
                         (absv (vscald dtau q))) (absv rx) in
  (* z-equation: A dx + ds - dtau b + rz *)
  let Adx := spmv m A dx in
  let ez := vaddd (vsubd (vaddd Adx ds) (vscald dtau b)) rz in
  let sz := vaddd (vaddd (vaddd (spmv m (absT A) (absv dx)) (absv ds)) (absv (vscald dtau b))) (absv rz) in
  (* kappa-equation: kappa dtau + tau dkappa + rkappa *)
  let ek := dadd (dadd (dmul kappa dtau) (dmul tau dkappa)) rkappa in
  let sk := dadd (dadd (dabs (dmul kappa dtau)) (dabs (dmul tau dkappa))) (dabs rkappa) in
  (* tau-equation times tau^2:
     tau^2 (q.dx + b.dz + dkappa + rtau) + 2 tau x'P dx - x'Px dtau *)
  let t2 := dmul tau tau in
  let xPdx := ddot x Pdx in
  let xPx := ddot x (spmv n P x) in
  let et := dadd (dadd (dmul t2 (dadd (dadd (dadd (ddot q dx) (ddot b dz)) dkappa) rtau))
                       (dmul (dmul (dofZ 2) tau) xPdx))
                 (dneg (dmul xPx dtau)) in
  let st := dadd (dadd (dmul t2 (dadd (dadd (dadd (ddot (absv q) (absv dx)) (ddot (absv b) (absv dz)))
                                            (dabs dkappa)) (dabs rtau)))
                       (dmul (dmul (dofZ 2) (dabs tau)) (ddot (absv x) (spmv n (absT P) (absv dx)))))
                 (dmul (ddot (absv x) (spmv n (absT P) (absv x))) (dabs dtau)) in
  if vsmall tolbits ex sx && vsmall tolbits ez sz && small tolbits ek sk && small tolbits et st
  then 0%N
  else if negb (vsmall tolbits ex sx) then 1%N
  else if negb (vsmall tolbits ez sz) then 2%N
  else if negb (small tolbits ek sk) then 3%N
  else 4%N.

(** 0 = all four equations hold to the tolerance, 1 = one of them does not
    ([c_newton_eq] says which: 1 x-, 2 z-, 3 kappa-, 4 tau-equation) *)
Definition c_newton tolbits n m Ptriu A q b x tau kappa rx rz rtau rkappa dx dz ds dtau dkappa : N :=
  if N.eqb (c_newton_eq tolbits n m Ptriu A q b x tau kappa rx rz rtau rkappa dx dz ds dtau dkappa) 0
  then 0%N else 1%N.

(** the centering parameter recorded by the solver is (1 - alpha)^3 (binary64, within 4 ulp:
    the order in which powi multiplies is not fixed) *)
Definition c_sigma (alpha sigma : float) : N :=
  let m := PrimFloat.sub 1%float alpha in
  let p := PrimFloat.mul (PrimFloat.mul m m) m in
  let err := PrimFloat.abs (PrimFloat.sub sigma p) in
  if PrimFloat.leb err (PrimFloat.mul (PrimFloat.abs p) 0x1p-50%float) then 0%N else 1%N.

Fixpoint fails (k : N) (l : list N) : list (N * N) :=
  match l with
  | [] => []
  | c :: r => if N.eqb c 0 then fails (N.succ k) r else (k, c) :: fails (N.succ k) r
  end.

(** * the starting point of symmetric-cone problems ([Newton/Init.v])
    [h] = diagonal of the identity scaling (0 on zero-cone rows, 1 elsewhere).
    0 = both equalities hold to the tolerance, 1 = primal rows, 3 = dual equality *)
Definition c_init (tolbits : Z) (n m : N) (Ptriu A : list trip) (q b h : list dy)
           (x s z : list dy) : N :=
  let P := symT Ptriu in
  let fl := dshift (dmax d1 (dmax (norminf q) (norminf b))) (-30) in
  let hs := vzip dmul h s in
  let ep := vsubd (vaddd (spmv m A x) hs) b in
  let sp := vaddd (vaddd (spmv m (absT A) (absv x)) (absv hs)) (absv b) in
  let ed := vaddd (vaddd (spmv n P x) (spmv_t n A z)) q in
  let sd := vaddd (vaddd (spmv n (absT P) (absv x)) (spmv_t n (absT A) (absv z))) (absv q) in
  if negb (vsmall tolbits fl ep sp) then 1%N
  else if negb (vsmall tolbits fl ed sd) then 3%N
  else 0%N.

(** * one predictor-corrector iteration ([Newton/Step.v]): residual definitions, the affine and
    combined right-hand sides (x, z, tau, kappa components), mu, and the step update, all
    re-evaluated exactly on the recorded binary64 values.
    Result: 0 ok; 11..14 affine rhs (x, z, tau, kappa); 21..24 combined rhs; 30 mu;
    41..45 iterate update (x, s, z, tau, kappa). *)
Definition vclose (tolbits : Z) (fl : dy) (u v scale : list dy) : bool :=
  Nat.eqb (length u) (length v) && vsmall tolbits fl (vsubd u v) scale.
Definition sclose (tolbits : Z) (fl : dy) (u v scale : dy) : bool :=
  small tolbits fl (dsub u v) scale.

Definition c_step (n m deg : N) (Ptriu A : list trip) (q b : list dy)
           (x s z : list dy) (tau kappa : dy)
           (r0x r0z : list dy) (r0t r0k : dy)
           (sigma mu mfac dta dka : dy)
           (r1x r1z : list dy) (r1t r1k : dy)
           (dx dz ds : list dy) (dt dk alpha : dy)
           (x' s' z' : list dy) (tau' kappa' : dy) : N :=
  let P := symT Ptriu in
  let tb := 30%Z in
  let fl := dshift (dmax d1 (dmax (norminf q) (norminf b))) (-60) in
  let Px := spmv n P x in
  let Atz := spmv_t n A z in
  let Ax := spmv m A x in
  (* residuals *)
  let rx := vsubd (vsubd (map dneg Atz) Px) (vscald tau q) in
  let sx := vaddd (vaddd (spmv_t n (absT A) (absv z)) (spmv n (absT P) (absv x))) (absv (vscald tau q)) in
  let rz := vsubd (vaddd Ax s) (vscald tau b) in
  let sz := vaddd (vaddd (spmv m (absT A) (absv x)) (absv s)) (absv (vscald tau b)) in
  (* tau * rtau = tau (q.x + b.z + kappa) + x'Px *)
  let xPx := ddot x Px in
  let lt := dmul tau r0t in
  let rt := dadd (dmul tau (dadd (dadd (ddot q x) (ddot b z)) kappa)) xPx in
  let st := dadd (dmul (dabs tau) (dadd (dadd (ddot (absv q) (absv x)) (ddot (absv b) (absv z))) (dabs kappa)))
                 (ddot (absv x) (spmv n (absT P) (absv x))) in
  let one_m_sigma := dsub d1 sigma in
  if negb (vclose tb fl r0x rx sx) then 11%N
  else if negb (vclose tb fl r0z rz sz) then 12%N
  else if negb (sclose tb fl lt rt st) then 13%N
  else if negb (sclose tb fl r0k (dmul tau kappa) (dabs (dmul tau kappa))) then 14%N
  else if negb (vclose tb fl r1x (vscald one_m_sigma r0x) (absv r0x)) then 21%N
  else if negb (vclose tb fl r1z (vscald one_m_sigma r0z) (absv r0z)) then 22%N
  else if negb (sclose tb fl r1t (dmul one_m_sigma r0t) (dabs r0t)) then 23%N
  else if negb (sclose tb fl r1k (dadd (dadd (dneg (dmul sigma mu)) (dmul (dmul mfac dta) dka)) (dmul tau kappa))
                       (dadd (dadd (dabs (dmul sigma mu)) (dabs (dmul (dmul mfac dta) dka))) (dabs (dmul tau kappa)))) then 24%N
  else if negb (sclose tb fl (dmul mu (dofZ (Z.of_N deg + 1))) (dadd (ddot s z) (dmul tau kappa))
                       (dadd (ddot (absv s) (absv z)) (dabs (dmul tau kappa)))) then 30%N
  else if negb (vclose 45 fl x' (vaddd x (vscald alpha dx)) (vaddd (absv x) (absv (vscald alpha dx)))) then 41%N
  else if negb (vclose 45 fl s' (vaddd s (vscald alpha ds)) (vaddd (absv s) (absv (vscald alpha ds)))) then 42%N
  else if negb (vclose 45 fl z' (vaddd z (vscald alpha dz)) (vaddd (absv z) (absv (vscald alpha dz)))) then 43%N
  else if negb (sclose 45 fl tau' (dadd tau (dmul alpha dt)) (dadd (dabs tau) (dabs (dmul alpha dt)))) then 44%N
  else if negb (sclose 45 fl kappa' (dadd kappa (dmul alpha dk)) (dadd (dabs kappa) (dabs (dmul alpha dk)))) then 45%N
  else 0%N.
