(** Model of [DefaultKKTSystem::solve_initial_point] (kktsystem.rs) for symmetric cones:
    with the identity scaling (H = I on every row except the zero-cone rows, where it is 0)
    the starting point is read off one (QP) or two (LP) solves with K = [P A'; A -H].
    Statement and proof: whenever those solves are exact, the point handed to the shift step
    satisfies the primal equalities row by row and the dual equality; in every dimension. *)
From Coq Require Import Reals Lra Lia.
Require Import Clarabel.Newton.Model Clarabel.Newton.Lemmas.
Open Scope R_scope.

Section Init.
Variables (n m : nat) (P A H : mat) (q b : vec).

(** QP branch: K [x; z] = [-q; b],  s := -z *)
Definition init_qp_s (z : vec) : vec := vneg z.
(** LP branch (P = 0): K [x; u] = [0; b], s := -u ;  K [w; z] = [-q; 0] *)
Definition init_lp_s (u : vec) : vec := vneg u.

Definition stmt_init_qp : Prop :=
  forall x z : vec,
    (forall j, (j < n)%nat -> mv n P x j + mv m (transp A) z j = - q j) ->
    (forall i, (i < m)%nat -> mv n A x i - mv m H z i = b i) ->
    let s := init_qp_s z in
    (forall i, (i < m)%nat -> mv n A x i + mv m H s i = b i) /\
    (forall j, (j < n)%nat -> mv n P x j + mv m (transp A) z j + q j = 0).

Definition stmt_init_lp : Prop :=
  forall x u w z : vec,
    (forall i j, P i j = 0) ->
    (forall j, (j < n)%nat -> mv n P x j + mv m (transp A) u j = 0) ->
    (forall i, (i < m)%nat -> mv n A x i - mv m H u i = b i) ->
    (forall j, (j < n)%nat -> mv n P w j + mv m (transp A) z j = - q j) ->
    (forall i, (i < m)%nat -> mv n A w i - mv m H z i = 0) ->
    let s := init_lp_s u in
    (forall i, (i < m)%nat -> mv n A x i + mv m H s i = b i) /\
    (forall j, (j < n)%nat -> mv n P x j + mv m (transp A) z j + q j = 0).

Lemma mv_neg k M u i : mv k M (vneg u) i = - mv k M u i.
Proof.
  unfold mv, vneg. replace (- sumn k (fun j => M i j * u j)) with (-1 * sumn k (fun j => M i j * u j)) by ring.
  rewrite <- sumn_scal. apply sumn_ext. intros j _. ring.
Qed.

Lemma init_qp_ok : stmt_init_qp.
Proof.
  intros x z H1 H2 s. split.
  - intros i Hi. unfold s, init_qp_s. rewrite mv_neg. specialize (H2 i Hi). lra.
  - intros j Hj. specialize (H1 j Hj). lra.
Qed.

Lemma mv_zero k x j : (forall i l, P i l = 0) -> mv k P x j = 0.
Proof.
  intros HP. unfold mv. rewrite (sumn_ext k _ (fun _ => 0 * 0)).
  - rewrite sumn_scal. lra.
  - intros l _. rewrite HP. ring.
Qed.

Lemma init_lp_ok : stmt_init_lp.
Proof.
  intros x u w z HP H1 H2 H3 H4 s. split.
  - intros i Hi. unfold s, init_lp_s. rewrite mv_neg. specialize (H2 i Hi). lra.
  - intros j Hj. specialize (H3 j Hj). rewrite (mv_zero n w j HP) in H3.
    rewrite (mv_zero n x j HP). lra.
Qed.
End Init.
