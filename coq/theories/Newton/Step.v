(** One predictor-corrector iteration around the KKT solves (C06): model of the right-hand
    sides of variables.rs ([affine_step_rhs], [combined_step_rhs] for the x-, z-, tau- and
    kappa-components, which are the same for every cone kind), of the residuals of
    residuals.rs and of [add_step]; and the consequence that makes the method converge in the
    linear residuals: after a combined step of length alpha the primal and dual residuals are
    the old ones times  1 - alpha (1 - sigma) , in every dimension. *)
From Coq Require Import Reals Lra Lia.
Require Import Clarabel.Newton.Model Clarabel.Newton.Lemmas.
Open Scope R_scope.

Section Step.
Variables (n m : nat) (P A : mat) (q b : vec).

(** residuals.rs *)
Definition res_x (x z : vec) (tau : R) : vec :=
  fun j => - mv m (transp A) z j - mv n P x j - q j * tau.
Definition res_z (x s : vec) (tau : R) : vec :=
  fun i => mv n A x i + s i - b i * tau.
Definition res_tau (x z : vec) (tau kappa : R) : R :=
  dot n q x + dot m b z + kappa + quad n P x x / tau.

(** variables.rs: right-hand sides (x, z, tau, kappa components) *)
Definition aff_rhs_kappa (tau kappa : R) : R := tau * kappa.
Definition comb_rhs_x (sigma : R) (rx : vec) : vec := vscal (1 - sigma) rx.
Definition comb_rhs_tau (sigma rt : R) : R := (1 - sigma) * rt.
Definition comb_rhs_kappa (sigma mu mfac dta dka tau kappa : R) : R :=
  - (sigma * mu) + mfac * dta * dka + tau * kappa.
(** add_step *)
Definition step_v (u du : vec) (alpha : R) : vec := vadd u (vscal alpha du).

(** the direction solves the x- and z-equations with the combined right-hand side *)
Definition stmt_residual_reduction : Prop :=
  forall (x s z dx ds dz : vec) (tau dtau alpha sigma : R),
    (forall j, (j < n)%nat ->
       mv n P dx j + mv m (transp A) dz j + dtau * q j = comb_rhs_x sigma (res_x x z tau) j) ->
    (forall i, (i < m)%nat ->
       mv n A dx i + ds i - dtau * b i = - comb_rhs_x sigma (res_z x s tau) i) ->
    (forall j, (j < n)%nat ->
       res_x (step_v x dx alpha) (step_v z dz alpha) (tau + alpha * dtau) j
       = (1 - alpha * (1 - sigma)) * res_x x z tau j) /\
    (forall i, (i < m)%nat ->
       res_z (step_v x dx alpha) (step_v s ds alpha) (tau + alpha * dtau) i
       = (1 - alpha * (1 - sigma)) * res_z x s tau i).

Lemma residual_reduction_ok : stmt_residual_reduction.
Proof.
  intros x s z dx ds dz tau dtau alpha sigma Hx Hz. split.
  - intros j Hj. specialize (Hx j Hj). unfold res_x, step_v in *.
    rewrite !mv_lin. unfold comb_rhs_x, vscal in Hx. unfold res_x in Hx. nra.
  - intros i Hi. specialize (Hz i Hi). unfold res_z, step_v in *.
    rewrite !mv_lin. unfold comb_rhs_x, vscal in Hz. unfold res_z in Hz.
    unfold vadd, vscal. nra.
Qed.

(** in particular a full step ( alpha = 1 ) without centering ( sigma = 0 ) removes them *)
Corollary full_affine_step_is_feasible :
  forall (x s z dx ds dz : vec) (tau dtau : R),
    (forall j, (j < n)%nat ->
       mv n P dx j + mv m (transp A) dz j + dtau * q j = comb_rhs_x 0 (res_x x z tau) j) ->
    (forall i, (i < m)%nat ->
       mv n A dx i + ds i - dtau * b i = - comb_rhs_x 0 (res_z x s tau) i) ->
    (forall j, (j < n)%nat -> res_x (step_v x dx 1) (step_v z dz 1) (tau + 1 * dtau) j = 0) /\
    (forall i, (i < m)%nat -> res_z (step_v x dx 1) (step_v s ds 1) (tau + 1 * dtau) i = 0).
Proof.
  intros x s z dx ds dz tau dtau Hx Hz.
  destruct (residual_reduction_ok x s z dx ds dz tau dtau 1 0 Hx Hz) as [H1 H2]. split.
  - intros j Hj. rewrite (H1 j Hj). ring.
  - intros i Hi. rewrite (H2 i Hi). ring.
Qed.
End Step.
