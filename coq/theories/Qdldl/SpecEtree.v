(** Elimination-tree statements (statements only): the tree computed by [_etree] makes every
    stored entry A[b,k] (b < k) a descendant of k, and from that the elimination reach computed
    by every row of [factor_inner] is closed and topologically ordered ([reach_closed_all]),
    which is the hypothesis of [stmt_factor_correct_partial].  Together: [stmt_factor_correct]. *)
From Coq Require Import List Arith Lia Bool.
Import ListNotations.
Require Import Clarabel.Base.Ops Clarabel.Qdldl.Model Clarabel.Qdldl.SpecSolve
        Clarabel.Qdldl.SpecFactorCorrect.

(** m-fold parent *)
Fixpoint anc_iter (et : list (option nat)) (m i : nat) : option nat :=
  match m with
  | 0 => Some i
  | S m' => match nth i et None with Some p => anc_iter et m' p | None => None end
  end.
(** [r] is an ancestor of [i] (or [i] itself) *)
Definition is_anc (et : list (option nat)) (i r : nat) : Prop := exists m, anc_iter et m i = Some r.

Definition etree_in_range_p (n : nat) (et : list (option nat)) : Prop :=
  length et = n /\ forall i p, i < n -> nth i et None = Some p -> i < p < n.

(** the stored entries of column k above the diagonal are descendants of k *)
Definition entries_descend (n : nat) (Ap Ai : list nat) (et : list (option nat)) : Prop :=
  forall k idx, k < n -> In idx (col_range Ap k) -> is_anc et (nth idx Ai 0) k.

Definition upper_tri_e (n : nat) (Ap Ai : list nat) : Prop :=
  forall j idx, j < n -> nth j Ap 0 <= idx < nth (S j) Ap 0 -> nth idx Ai 0 <= j.

(** E2: Liu's algorithm as transcribed in [etree] *)
Definition stmt_etree_ancestor : Prop :=
  forall n Ap Ai lnz et,
    upper_tri_e n Ap Ai -> etree n Ap Ai = Ok (lnz, et) -> entries_descend n Ap Ai et.

(** ET: the reach test holds in every row, for any scalar type and any parameters *)
Definition stmt_reach_closed_from_etree : Prop :=
  forall T (O : Ops T) n Ap Ai Ax et P,
    upper_tri_e n Ap Ai -> etree_in_range_p n et -> entries_descend n Ap Ai et ->
    reach_closed_all O n Ap Ai Ax et P = true.

(** the end-to-end statement: no boolean hypothesis left *)
Definition stmt_factor_correct : Prop :=
  forall (T : Type) (O : Ops T) n Ap Ai Ax lnz et P st,
    RingLaws O ->
    (forall a, eqb O a (zero O) = false -> mul O a (div O (one O) a) = one O) ->
    fp_logical P = false -> fp_reg_enable P = false ->
    triu_nodup n Ap Ai ->
    etree n Ap Ai = Ok (lnz, et) ->
    factor_inner O n Ap Ai Ax et P = Ok st ->
    forall i j, i <= j -> j < n ->
      isum O (seq 0 (S i))
           (fun c => mul O (mul O (Ment O (fs_cols st) i c) (nth c (fs_D st) (zero O)))
                           (Ment O (fs_cols st) j c))
      = Aent O Ap Ai Ax i j.
