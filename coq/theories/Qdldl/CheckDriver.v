(** Correspondence checkers for the QDLDL driver (round 3): regularize_and_refactor +
    solve with iterative refinement replayed on the model at binary64 (exact match expected:
    the model performs the same operations in the same order), and the backend dispatch. *)
From Coq Require Import List Arith ZArith NArith Lia Bool String Floats.
Import ListNotations.
Require Import Clarabel.Base.Ops Clarabel.Qdldl.Model Clarabel.Qdldl.ModelDriver Clarabel.Qdldl.Check.
Local Open Scope nat_scope.

Definition feq (a b : float) : bool := PrimFloat.eqb a b || (PrimFloat.is_nan a && PrimFloat.is_nan b).
Definition flist_eq := list_eqb feq.
Definition step_eq (a b : ir_step (T:=float)) : bool :=
  match a, b with
  | IrNonFinite x, IrNonFinite y => feq x y
  | IrAccept x, IrAccept y => feq x y
  | IrStopAccept x, IrStopAccept y => feq x y
  | IrStopReject x, IrStopReject y => feq x y
  | _, _ => false
  end.

(** what the Rust driver reported for one update+solve *)
Record drv_out : Type := mkDO
  { o_refactor_ok : bool; o_eps : float;
    o_solve_ok : bool; o_x : list float; o_norm0 : float; o_has_ir : bool;
    o_steps : list (ir_step (T:=float)) }.

Definition c_driver (K : spm (T:=float)) (dsigns : list Z) (diag perm : list N)
           (dyn_enable : bool) (dyn_eps dyn_delta : float)
           (static_enable : bool) (rconst rprop : float)
           (b : list float) (ir_enable : bool) (reltol abstol stopratio : float) (maxiter : N)
           (out : drv_out) : N :=
  match drv_new OpsF K dsigns (nats diag) (nats perm) dyn_enable dyn_eps dyn_delta with
  | Err _ => 1%N
  | Ok st0 =>
      let '(st1, ok) := regularize_and_refactor OpsF FlF st0 static_enable rconst rprop in
      if negb (Bool.eqb ok (o_refactor_ok out)) then 1%N
      else if static_enable && negb (feq (d_eps st1) (o_eps out)) then 1%N
      else if negb ok then 0%N
      else
        match drv_solve OpsF FlF st1 b ir_enable (mkIR reltol abstol stopratio (N.to_nat maxiter)) with
        | Err _ => 1%N
        | Ok r =>
            ofb (Bool.eqb (irr_ok r) (o_solve_ok out)
                 && (if ir_enable then feq (irr_norm0 r) (o_norm0 out) && list_eqb step_eq (irr_steps r) (o_steps out) else true)
                 && flist_eq (irr_x r) (o_x out))
        end
  end.

(** backend dispatch: settings validation verdict and the backend that ends up factoring
    (0 qdldl, 1 faer, 2 panic); the AMD statistics decide "auto" *)
Definition c_dispatch (faer : bool) (s : string) (ndiv nmult lnz : float) (valid : bool) (bk : N) : N :=
  let r := auto_ratio_lt OpsF ndiv nmult lnz 40%float in
  andc (ofb (Bool.eqb (validate_method faer s) valid))
       (ofb (match dispatch faer s r, bk with
             | DOk BQdldl, 0%N => true
             | DOk BFaer, 1%N => true
             | DPanic, 2%N => true
             | _, _ => false
             end)).
