(** Correspondence checkers for the QDLDL driver (round 3): regularize_and_refactor +
    solve with iterative refinement replayed on the model at binary64 (exact match expected:
    the model performs the same operations in the same order), and the backend dispatch. *)
From Coq Require Import List Arith ZArith NArith Lia Bool String Floats.
Import ListNotations.
Require Import Clarabel.Base.Ops Clarabel.Base.Dyadic Clarabel.Qdldl.Model Clarabel.Qdldl.ModelDriver Clarabel.Qdldl.Check.
Local Open Scope nat_scope.

Definition feq (a b : float) : bool := PrimFloat.eqb a b || (PrimFloat.is_nan a && PrimFloat.is_nan b).
Definition flist_eq := list_eqb feq.
Definition step_eq (a b : ir_step (T:=float)) : bool :=
  match a, b with
  | IrNonFinite x, IrNonFinite y => feq x y
  | IrAccept x, IrAccept y => feq x y
  | IrStopAccept x, IrStopAccept y => feq x y
  | IrStopReject x, IrStopReject y => feq x y
  | _, _ => false
  end.

(** what the Rust driver reported for one update+solve *)
Record drv_out : Type := mkDO
  { o_refactor_ok : bool; o_eps : float;
    o_solve_ok : bool; o_x : list float; o_norm0 : float; o_has_ir : bool;
    o_steps : list (ir_step (T:=float)) }.

Definition c_driver (K : spm (T:=float)) (dsigns : list Z) (diag perm : list N)
           (dyn_enable : bool) (dyn_eps dyn_delta : float)
           (static_enable : bool) (rconst rprop : float)
           (b : list float) (ir_enable : bool) (reltol abstol stopratio : float) (maxiter : N)
           (out : drv_out) : N :=
  match drv_new OpsF K dsigns (nats diag) (nats perm) dyn_enable dyn_eps dyn_delta with
  | Err _ => 1%N
  | Ok st0 =>
      let '(st1, ok) := regularize_and_refactor OpsF FlF st0 static_enable rconst rprop in
      if negb (Bool.eqb ok (o_refactor_ok out)) then 1%N
      else if static_enable && negb (feq (d_eps st1) (o_eps out)) then 1%N
      else if negb ok then 0%N
      else
        match drv_solve OpsF FlF st1 b ir_enable (mkIR reltol abstol stopratio (N.to_nat maxiter)) with
        | Err _ => 1%N
        | Ok r =>
            ofb (Bool.eqb (irr_ok r) (o_solve_ok out)
                 && (if ir_enable then feq (irr_norm0 r) (o_norm0 out) && list_eqb step_eq (irr_steps r) (o_steps out) else true)
                 && flist_eq (irr_x r) (o_x out))
        end
  end.

(** backend dispatch: settings validation verdict and the backend that ends up factoring
    (0 qdldl, 1 faer, 2 panic); the AMD statistics decide "auto" *)
Definition c_dispatch (faer : bool) (s : string) (ndiv nmult lnz : float) (valid : bool) (bk : N) : N :=
  let r := auto_ratio_lt OpsF ndiv nmult lnz 40%float in
  andc (ofb (Bool.eqb (validate_method faer s) valid))
       (ofb (match dispatch faer s r, bk with
             | DOk BQdldl, 0%N => true
             | DOk BFaer, 1%N => true
             | DPanic, 2%N => true
             | _, _ => false
             end)).

(** * Two-level tie (round 4)
    LEVEL B (binding): statements about the Rust outputs that do not depend on the order in which
    sums are evaluated: the backend factor is an LDL' of the shifted K to backward-stable accuracy
    (exact dyadic arithmetic), the first solve reproduces b likewise, pivot signs / regularisation
    count / inertia, the shifted values are K +- eps, eps is const + prop*max|diag| (to closeF),
    the recorded residual norms are truthful (exact recomputation from the recorded candidates),
    every decision of the loop is the one the code's thresholds dictate FOR THE RECORDED NORMS,
    the trace has the right shape, the returned x is the right recorded candidate, success iff all
    recorded norms finite, K restored.
    LEVEL A (information, code 2): bitwise identity with the transcribed-order model [c_driver]. *)

Definition fnats := nats.
Definition is_fin_f := PrimFloat.is_finite.

(** ** the refinement trace replayed on the RECORDED norms *)
Fixpoint trace_go (fuel : nat) (tol stopratio last : float) (steps : list (ir_step (T:=float))) : bool :=
  match steps with
  | [] => (fuel =? 0) || PrimFloat.leb last tol
  | s :: rest =>
      match fuel with
      | 0 => false
      | S f =>
          negb (PrimFloat.leb last tol) &&
          match s with
          | IrNonFinite nrm => negb (is_fin_f nrm) && match rest with [] => true | _ => false end
          | IrAccept nrm =>
              is_fin_f nrm && negb (PrimFloat.ltb (PrimFloat.div last nrm) stopratio)
              && trace_go f tol stopratio nrm rest
          | IrStopAccept nrm =>
              is_fin_f nrm && PrimFloat.ltb (PrimFloat.div last nrm) stopratio
              && PrimFloat.ltb 1%float (PrimFloat.div last nrm) && match rest with [] => true | _ => false end
          | IrStopReject nrm =>
              is_fin_f nrm && PrimFloat.ltb (PrimFloat.div last nrm) stopratio
              && negb (PrimFloat.ltb 1%float (PrimFloat.div last nrm)) && match rest with [] => true | _ => false end
          end
      end
  end.
Definition step_is_nonfinite (s : ir_step (T:=float)) : bool := match s with IrNonFinite _ => true | _ => false end.
Definition step_is_accept (s : ir_step (T:=float)) : bool := match s with IrAccept _ => true | _ => false end.
Definition step_normf (s : ir_step (T:=float)) : float :=
  match s with IrNonFinite x | IrAccept x | IrStopAccept x | IrStopReject x => x end.
(** index of the candidate that must be returned *)
Definition final_index (steps : list (ir_step (T:=float))) : nat :=
  List.length (filter step_is_accept steps)
  + match rev steps with IrStopAccept _ :: _ => 1 | _ => 0 end.

Definition trace_ok (reltol abstol stopratio : float) (maxiter : nat) (normb norm0 : float)
           (steps : list (ir_step (T:=float))) (solve_ok : bool)
           (cands : list (list float)) (xfinal : list float) : bool :=
  let tol := PrimFloat.add abstol (PrimFloat.mul reltol normb) in
  if negb (is_fin_f norm0) then
    match steps with [] => negb solve_ok | _ => false end
  else
    trace_go maxiter tol stopratio norm0 steps
    && Bool.eqb solve_ok (negb (existsb step_is_nonfinite steps))
    && (List.length cands =? S (List.length steps))
    && (if solve_ok then flist_eq xfinal (nth (final_index steps) cands []) else true).

(** ** truthful norms: | recorded - exact | <= g * max_i (|b_i| + sum_j |K_ij||x_j|), exact in dyadics *)
Definition exact_resid (n : nat) (Kcp Krv : list nat) (Knz b x : list dy) : dy * dy :=
  fold_left (fun acc i =>
               let ai := map (fun j => uget Kcp Krv Knz i j) (seq 0 n) in
               let r := dabs (dsub (nth i b d0) (ddot ai x)) in
               let s := dadd (dabs (nth i b d0)) (ddot (map dabs ai) (map dabs x)) in
               (dmax (fst acc) r, dmax (snd acc) s))
            (seq 0 n) (d0, d0).
Definition norm_truthful (c : Z) (n : nat) (Kcp Krv : list nat) (Knz b x : list dy) (rec : dy) : bool :=
  let '(r, s) := exact_resid n Kcp Krv Knz b x in
  dleb (dabs (dsub rec r)) (dmul (D (c * Z.of_nat (n + 2)) (-53)) s).

(** ** pivots *)
Definition pivots_ok (dyn_enable : bool) (eps delta : float) (Dg : list float) (signs : list Z)
           (regcount pos : nat) : bool :=
  let sf k := match nth k signs 1%Z with 1%Z => 1%float | _ => (-1)%float end in
  let ks := seq 0 (List.length Dg) in
  let perturbed k := feq (nth k Dg 0%float) (PrimFloat.mul delta (sf k)) in
  (pos =? List.length (filter (fun k => PrimFloat.ltb 0%float (nth k Dg 0%float)) ks))
  && (if dyn_enable then
        forallb (fun k => perturbed k || negb (PrimFloat.ltb (PrimFloat.mul (nth k Dg 0%float) (sf k)) eps)) ks
        && (regcount <=? List.length (filter perturbed ks))
      else regcount =? 0).

(** | PK_sP' - LDL' | entrywise as in [chk_ldl], except on the diagonal entries listed in [skip]
    (pivots replaced by the dynamic regularisation) *)
Definition chk_ldl_skip (c : Z) (n : N) (perm Acp Arv : list N) (Anz : list dy)
           (Lp Li : list N) (Lx Dg : list dy) (skip : list bool) : N :=
  let n' := N.to_nat n in
  let p := nats perm in
  let Acp' := nats Acp in let Arv' := nats Arv in let Lp' := nats Lp in let Li' := nats Li in
  let rows := map (lrow n' Lp' Li' Lx) (seq 0 n') in
  let g := D (c * Z.of_N n) (-53) in
  ofb (forallb (fun i =>
        forallb (fun j =>
          if (i =? j) && nth i skip false then true else
          let ri := nth i rows [] in let rj := nth j rows [] in
          let terms := map (fun t => dmul (dmul (fst (fst t)) (snd t)) (snd (fst t))) (combine (combine ri rj) Dg) in
          dleb (dabs (dsub (uget Acp' Arv' Anz (nth i p 0) (nth j p 0)) (dsum terms))) (dmul g (dsum (map dabs terms))))
          (seq i (n' - i))) (seq 0 n')).

(** ** the shifted values held by the backend: K +- eps on diag_full, K elsewhere (float add) *)
Definition shifted_ok (static_enable : bool) (Knz Ksnz : list float) (diag : list nat) (dsigns : list Z) (eps : float) : bool :=
  let expected :=
    if static_enable then
      fold_left (fun v td => let '(idx, s) := td in
                             upd v idx (if Z.eqb s 1 then PrimFloat.add (nth idx Knz 0%float) eps
                                        else PrimFloat.sub (nth idx Knz 0%float) eps))
                (combine diag dsigns) Knz
    else Knz in
  flist_eq expected Ksnz.

Record drv_sem : Type := mkDS2
  { s_Ksnz_f : list float; s_Ksnz : list dy; s_Knz : list dy;             (* shifted (f, dy), unshifted (dy) *)
    s_Lp : list N; s_Li : list N; s_Lx : list dy; s_D : list dy; s_Df : list float;
    s_psigns : list Z; s_reg : N; s_pos : N;
    s_b : list dy; s_cands_f : list (list float); s_cands : list (list dy);  (* x0 :: candidates *)
    s_norms : list dy;                                                      (* norm0 :: step norms, when finite *)
    s_normb : float; s_restored : bool }.

Definition c_driver_sem (K : spm (T:=float)) (dsigns : list Z) (diag perm : list N)
           (dyn_enable : bool) (dyn_eps dyn_delta : float)
           (static_enable : bool) (rconst rprop : float)
           (ir_enable : bool) (reltol abstol stopratio : float) (maxiter : N)
           (out : drv_out) (sem : drv_sem) : N :=
  let n := sn K in
  let nN := N.of_nat n in
  let Kcp := map N.of_nat (colptr K) in let Krv := map N.of_nat (rowval K) in
  let diag' := nats diag in
  let diag_kkt := map (fun idx => nth idx (nzval K) 0%float) diag' in
  let eps_model := compute_regularizer OpsF FlF diag_kkt rconst rprop in
  let regc := N.to_nat (s_reg sem) in
  let sf k := match nth k (s_psigns sem) 1%Z with 1%Z => 1%float | _ => (-1)%float end in
  let skip := map (fun k => feq (nth k (s_Df sem) 0%float) (PrimFloat.mul dyn_delta (sf k))) (seq 0 n) in
  maxl
    [ ofb (s_restored sem);
      ofb (negb static_enable || closeF (o_eps out) eps_model);
      ofb (shifted_ok static_enable (nzval K) (s_Ksnz_f sem) diag' dsigns (o_eps out));
      (if o_refactor_ok out then
         maxl [ ofb (pivots_ok dyn_enable dyn_eps dyn_delta (s_Df sem) (s_psigns sem) regc (N.to_nat (s_pos sem)));
                (if regc =? 0 then chk_ldl 8 nN perm Kcp Krv (s_Ksnz sem) (s_Lp sem) (s_Li sem) (s_Lx sem) (s_D sem)
                 else chk_ldl_skip 8 nN perm Kcp Krv (s_Ksnz sem) (s_Lp sem) (s_Li sem) (s_Lx sem) (s_D sem) skip);
                (* the first LDL solve reproduces b for the SHIFTED matrix *)
                (match s_cands sem with
                 | x0 :: _ => if (regc =? 0) && (List.length x0 =? n) then
                                chk_solve 16 nN perm Kcp Krv (s_Ksnz sem) (s_Lp sem) (s_Li sem) (s_Lx sem) (s_D sem) (s_b sem) x0
                              else 0%N
                 | [] => 0%N
                 end);
                (if ir_enable then
                   ofb (trace_ok reltol abstol stopratio (N.to_nat maxiter) (s_normb sem) (o_norm0 out) (o_steps out)
                                 (o_solve_ok out) (s_cands_f sem) (o_x out))
                 else 0%N);
                (* recorded norms are truthful w.r.t. the UN-regularised K *)
                ofb (forallb (fun xc => norm_truthful 8 n (colptr K) (rowval K) (s_Knz sem) (s_b sem) (fst xc) (snd xc))
                             (combine (s_cands sem) (s_norms sem))) ]
       else 0%N) ].

(** the two levels together: B binding; A (bitwise identity with the transcribed-order model)
    is information only (code 2) unless the case is a crafted exact-arithmetic one ([strict]) *)
Definition c_driver2 (strict : bool) (K : spm (T:=float)) (dsigns : list Z) (diag perm : list N)
           (dyn_enable : bool) (dyn_eps dyn_delta : float)
           (static_enable : bool) (rconst rprop : float)
           (b : list float) (ir_enable : bool) (reltol abstol stopratio : float) (maxiter : N)
           (out : drv_out) (sem : drv_sem) : N :=
  let cb := c_driver_sem K dsigns diag perm dyn_enable dyn_eps dyn_delta static_enable rconst rprop
                         ir_enable reltol abstol stopratio maxiter out sem in
  let ca := c_driver K dsigns diag perm dyn_enable dyn_eps dyn_delta static_enable rconst rprop
                     b ir_enable reltol abstol stopratio maxiter out in
  if negb (N.eqb cb 0) then 1%N
  else if N.eqb ca 0 then 0%N
  else if strict then 1%N else 2%N.
