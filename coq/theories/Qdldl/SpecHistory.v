(** Operation histories on one QDLDLFactorisation object (statements only).

    After ANY sequence of update_values / scale_values / offset_values / refactor / solve calls
    on an object created by [qnew] — including refactors that failed in between — a refactor
    succeeds iff factoring the CURRENT input matrix from scratch (with the same settings, numeric
    mode) succeeds, reports the same error otherwise, and on success the held object IS the fresh
    factorisation, as a value (bit for bit for floats).  A failed refactor clears the "factors are
    meaningful" flag, and a solve is only specified while the flag is set.

    All statements hold for ANY [Ops T] (binary64 included): no arithmetic law is used. *)
From Coq Require Import List Arith ZArith QArith Lia Bool.
Import ListNotations.
Require Import Clarabel.Base.Ops Clarabel.Qdldl.Model Clarabel.Qdldl.ModelHistory Clarabel.Qdldl.Spec.
Local Open Scope nat_scope.

Section SpecHistory.
Context {T : Type} (O : Ops T).

(** states reachable from a fresh object, together with the input matrix the same value
    operations produce ([hop_on_A]); every value operation addresses stored entries of [A0] *)
Inductive Reach (A0 : spm (T:=T)) (S0 : settings (T:=T)) : hstate (T:=T) -> spm (T:=T) -> Prop :=
  | reach_new F0 : qnew O A0 S0 = Ok F0 -> Reach A0 S0 (mkH F0 true) A0
  | reach_step st A o :
      Reach A0 S0 st A -> hop_in_range (nnz A0) o ->
      Reach A0 S0 (fst (h_step O st o)) (hop_on_A O A o).

(** the invariant carried along a history: the object is [F1 = qnew K0 S1] (the last successful
    (re)factorisation, or the initial one) with a batch [us] of in-range point updates applied
    through the AtoPAPt index map, and the current input matrix is [K0] with the same batch
    applied directly; [S1] differs from [S0] at most in the [logical] flag *)
Definition HInv (A0 : spm (T:=T)) (S0 : settings (T:=T)) (st : hstate (T:=T)) (A : spm (T:=T)) : Prop :=
  exists (K0 : spm (T:=T)) (S1 : settings (T:=T)) (F1 : fact (T:=T)) (us : list (nat * (T -> T))),
    wf_csc K0 /\ qnew O K0 S1 = Ok F1 /\ nonlogical S1 = nonlogical S0 /\
    (forall u, In u us -> fst u < nnz K0) /\ nnz K0 = nnz A0 /\
    A = set_nzval K0 (apply_updates O us (nzval K0)) /\
    h_F st = set_triu_vals F1 (apply_updates O (map (fun u => (amap F1 (fst u), snd u)) us) (triu_vals F1)).

(** running a list of operations: final state and the outputs in order *)
Fixpoint h_run (st : hstate (T:=T)) (ops : list (hop (T:=T))) : hstate (T:=T) * list (hout (T:=T)) :=
  match ops with
  | [] => (st, [])
  | o :: ops' => let r := h_step O st o in
                 let r' := h_run (fst r) ops' in (fst r', snd r :: snd r')
  end.
Definition h_run_A (A : spm (T:=T)) (ops : list (hop (T:=T))) : spm (T:=T) :=
  fold_left (hop_on_A O) ops A.
End SpecHistory.

(** 0. the invariant holds in every reachable state; every reachable input matrix is well formed
    and has the structure size of [A0] *)
Definition stmt_hist_inv : Prop :=
  forall T (O : Ops T) (A0 : spm (T:=T)) S0 st A,
    wf_csc A0 -> Reach O A0 S0 st A -> HInv O A0 S0 st A.
Definition stmt_hist_reach_wf : Prop :=
  forall T (O : Ops T) (A0 : spm (T:=T)) S0 st A,
    wf_csc A0 -> Reach O A0 S0 st A -> wf_csc A /\ nnz A = nnz A0.
(** running any list of in-range operations stays reachable *)
Definition stmt_hist_reach_run : Prop :=
  forall T (O : Ops T) (A0 : spm (T:=T)) S0 ops st A,
    Reach O A0 S0 st A -> (forall o, In o ops -> hop_in_range (nnz A0) o) ->
    Reach O A0 S0 (fst (h_run O st ops)) (h_run_A O A ops).

(** 1. MAIN: refactor after any history = fresh factorisation of the current matrix *)
Definition stmt_hist_refactor_spec : Prop :=
  forall T (O : Ops T) (A0 : spm (T:=T)) S0 st A,
    wf_csc A0 -> Reach O A0 S0 st A ->
    h_step O st HRefactor
    = match qnew O A (nonlogical S0) with
      | Ok F' => (mkH F' true, HoRefactor (Ok tt))
      | Err e => (mkH (h_F st) false, HoRefactor (Err e))
      end.

(** 2. the flag after a refactor tells whether the held object is current: flag set <-> the
    refactor reported Ok <-> the object is the fresh factorisation of the current matrix; an
    error report leaves the flag cleared, the object untouched, and is the error of the fresh
    factorisation *)
Definition stmt_hist_ok_current : Prop :=
  forall T (O : Ops T) (A0 : spm (T:=T)) S0,
    wf_csc A0 ->
    forall st A, Reach O A0 S0 st A ->
    forall st' out, h_step O st HRefactor = (st', out) ->
      (h_ok st' = true ->
         qnew O A (nonlogical S0) = Ok (h_F st') /\ out = HoRefactor (Ok tt)) /\
      (out = HoRefactor (Ok tt) -> h_ok st' = true /\ qnew O A (nonlogical S0) = Ok (h_F st')) /\
      (forall e, out = HoRefactor (Err e) ->
         h_ok st' = false /\ h_F st' = h_F st /\ qnew O A (nonlogical S0) = Err e).
(** a second refactor with no value change in between: same state, same verdict *)
Definition stmt_hist_refactor_twice : Prop :=
  forall T (O : Ops T) (A0 : spm (T:=T)) S0 st A,
    wf_csc A0 -> Reach O A0 S0 st A ->
    h_step O (fst (h_step O st HRefactor)) HRefactor = h_step O st HRefactor.
(** a successful refactor is a restart: the state is a FRESH object for the current matrix
    (settings [nonlogical S0]), so every continuation is a history from that fresh object *)
Definition stmt_hist_restart : Prop :=
  forall T (O : Ops T) (A0 : spm (T:=T)) S0 st A F' out,
    wf_csc A0 -> Reach O A0 S0 st A ->
    h_step O st HRefactor = (mkH F' true, out) ->
    wf_csc A /\ nnz A = nnz A0 /\ qnew O A (nonlogical S0) = Ok F' /\
    Reach O A (nonlogical S0) (mkH F' true) A /\
    HInv O A0 S0 (mkH F' true) A.

(** 3. solve never changes the state, uses the held object, and is unspecified (HoStale) while
    the flag is cleared *)
Definition stmt_hist_solve_uses_held : Prop :=
  forall T (O : Ops T) (st : hstate (T:=T)) b,
    fst (h_step O st (HSolve b)) = st /\
    (h_ok st = false -> snd (h_step O st (HSolve b)) = HoStale) /\
    (h_ok st = true -> snd (h_step O st (HSolve b)) = HoSolve (solve O (h_F st) b)).
(** the flag is only changed by refactor *)
Definition stmt_hist_flag : Prop :=
  forall T (O : Ops T) (st : hstate (T:=T)) o,
    o <> HRefactor -> h_ok (fst (h_step O st o)) = h_ok st.

(** 4. non-vacuity over Q: A = [[2,1],[1,3]] (upper CSC), identity ordering, regularisation off.
    Offsetting entry 0 by -2 makes the first pivot 0: two refactors fail with ZeroPivot, the
    solve in between is stale; after the repair the refactor succeeds and the solve returns the
    solution (1/5, 3/5) of the original system with b = (1, 2). *)
Definition hx_A : spm (T:=Q) := mkSpm 2 2 [0; 1; 3] [0; 0; 1] [2#1; 1#1; 3#1]%Q.
Definition hx_S : settings (T:=Q) := mkSet [0; 1] false None false 0%Q 0%Q.
Definition hx_b : list Q := [1#1; 2#1]%Q.
Definition hx_ops : list (hop (T:=Q)) :=
  [HOffset [0] (2#1)%Q [(-1)%Z]; HRefactor; HRefactor; HSolve hx_b;
   HOffset [0] (2#1)%Q [1%Z]; HRefactor; HSolve hx_b].
Definition hx_F0 : fact (T:=Q) :=
  match qnew OpsQ hx_A hx_S with
  | Ok F => F
  | Err _ => mkF [] [] [] [] [] [] [] (mkW [] [] hx_A [] [] false 0%Q 0%Q 0 0) true
  end.
Definition hout_red (o : hout (T:=Q)) : hout (T:=Q) :=
  match o with HoSolve (Ok x) => HoSolve (Ok (map Qred x)) | _ => o end.
Definition stmt_hist_example : Prop :=
  wf_csc hx_A /\
  qnew OpsQ hx_A hx_S = Ok hx_F0 /\
  (forall o, In o hx_ops -> hop_in_range (nnz hx_A) o) /\
  Reach OpsQ hx_A hx_S (fst (h_run OpsQ (mkH hx_F0 true) hx_ops)) (h_run_A OpsQ hx_A hx_ops) /\
  map hout_red (snd (h_run OpsQ (mkH hx_F0 true) hx_ops))
  = [HoNone; HoRefactor (Err ZeroPivot); HoRefactor (Err ZeroPivot); HoStale;
     HoNone; HoRefactor (Ok tt); HoSolve (Ok [1#5; 3#5]%Q)] /\
  map Qred (nzval (h_run_A OpsQ hx_A hx_ops)) = map Qred (nzval hx_A) /\
  h_ok (fst (h_run OpsQ (mkH hx_F0 true) hx_ops)) = true /\
  (* a mismatched offset call panics and changes nothing *)
  h_step OpsQ (mkH hx_F0 true) (HOffset [0; 1] (2#1)%Q [1%Z]) = (mkH hx_F0 true, HoPanic).
