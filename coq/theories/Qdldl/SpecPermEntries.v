(** Statement: the permuted copy P holds sym(A) at permuted positions:
    P[i,j] = sym(A)[perm i, perm j] for i <= j.  Statements only. *)
From Coq Require Import List Arith Lia Bool.
Import ListNotations.
Require Import Clarabel.Base.Ops Clarabel.Qdldl.Model Clarabel.Qdldl.SpecSolve
        Clarabel.Qdldl.SpecPermSym Clarabel.Qdldl.SpecFactorCorrect.

(** symmetric reading of an upper-triangular CSC *)
Definition Asym {T} (O : Ops T) (Ap Ai : list nat) (Ax : list T) (a b : nat) : T :=
  if a <=? b then Aent O Ap Ai Ax a b else Aent O Ap Ai Ax b a.

Definition stmt_permuted_entries : Prop :=
  forall T (O : Ops T) (A : spm (T:=T)) perm iperm,
    wf_csc A -> sm A = sn A -> upper_tri_ps A ->
    triu_nodup (sn A) (colptr A) (rowval A) ->
    length perm = sn A -> invperm perm = Ok iperm ->
    let P := fst (permute_symmetric O A iperm) in
    forall i j, i <= j -> j < sn A ->
      Aent O (colptr P) (rowval P) (nzval P) i j
      = Asym O (colptr A) (rowval A) (nzval A) (nth i perm 0) (nth j perm 0).
