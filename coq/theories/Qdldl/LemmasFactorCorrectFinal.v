(** factor_correct: composition of the elimination-tree lemmas with the numeric induction. *)
From Coq Require Import List Arith Lia Bool.
Import ListNotations.
Require Import Clarabel.Base.Ops Clarabel.Qdldl.Model Clarabel.Qdldl.SpecSolve
        Clarabel.Qdldl.SpecFactorCorrect Clarabel.Qdldl.SpecEtree Clarabel.Qdldl.SpecBounds.
Require Import Clarabel.Qdldl.LemmasBounds Clarabel.Qdldl.LemmasEtreeAnc Clarabel.Qdldl.LemmasReach
        Clarabel.Qdldl.LemmasFactorCorrect3.

Lemma triu_nodup_upper {n Ap Ai} : triu_nodup n Ap Ai -> upper_tri_e n Ap Ai.
Proof.
  intros [Hu _] j idx Hj Hr. apply Hu; [exact Hj|]. unfold col_range. apply in_seq. lia.
Qed.

Lemma factor_correct_ok : stmt_factor_correct.
Proof.
  intros T O n Ap Ai Ax lnz et P st RL Hrec Hlog Hreg Htn Het HF i j Hij Hj.
  pose proof (triu_nodup_upper Htn) as Hut.
  assert (Hrange : etree_in_range_p n et).
  { destruct (etree_bounds_ok n Ap Ai lnz et Hut Het) as (_ & Hl & Hb). split; [exact Hl|exact Hb]. }
  pose proof (etree_ancestor_ok n Ap Ai lnz et Hut Het) as Hdesc.
  pose proof (reach_closed_from_etree_ok T O n Ap Ai Ax et P Hut Hrange Hdesc) as Hreach.
  exact (factor_correct_partial_ok T O n Ap Ai Ax et P st RL Hrec Hlog Hreg Htn HF Hreach i j Hij Hj).
Qed.
