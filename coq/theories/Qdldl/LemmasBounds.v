(** Proofs of the statements in SpecBounds.v.  Purely structural: valid for any [Ops T]. *)
From Coq Require Import List Arith ZArith QArith Lia Bool.
Import ListNotations.
Require Import Clarabel.Base.Ops Clarabel.Qdldl.Model Clarabel.Qdldl.SpecFactor
               Clarabel.Qdldl.LemmasFactor Clarabel.Qdldl.SpecSolve Clarabel.Qdldl.SpecBounds.
Local Close Scope Q_scope.

(** ** helpers *)
Lemma bd_foldM_pres_in {S X} (f : S -> X -> res S) (I : S -> Prop) :
  forall l,
  (forall s x s', In x l -> I s -> f s x = Ok s' -> I s') ->
  forall s s', I s -> foldM f l (Ok s) = Ok s' -> I s'.
Proof.
  induction l as [|x l IH]; intros Hstep s s' HI Hf.
  - rewrite fa_foldM_nil in Hf. inversion Hf; subst. exact HI.
  - rewrite fa_foldM_cons in Hf. destruct (f s x) as [s1|e] eqn:E.
    + eapply IH; [|  |exact Hf].
      * intros s2 x2 s2' Hin H2 Hf2. eapply Hstep; eauto. right; exact Hin.
      * eapply Hstep; eauto. left; reflexivity.
    + rewrite fa_foldM_err in Hf. discriminate.
Qed.

Lemma bd_in_col_range Ap j idx :
  In idx (col_range Ap j) -> nth j Ap 0 <= idx < nth (S j) Ap 0.
Proof. unfold col_range. intros H. apply in_seq in H. lia. Qed.

Lemma bd_nth_repeat_nil {X} n c : nth c (repeat (@nil X) n) [] = [].
Proof. revert c; induction n as [|n IH]; intros [|c]; simpl; auto. Qed.

(** ** _etree *)
Section Etree.
Variables (n : nat) (Ap Ai : list nat).
Hypothesis Htri : upper_tri n Ap Ai.

(** lengths, and every parent stored so far is above its child and below [k] *)
Definition et_inv (k : nat) (st : estate) : Prop :=
  let '(work, lnz, et) := st in
  length work = n /\ length lnz = n /\ length et = n /\
  forall i p, nth i et None = Some p -> i < p < k.

Lemma bd_etree_walk j : j < n -> forall fuel i work lnz et st',
  i <= j -> et_inv (S j) (work, lnz, et) -> nth j work 0 = j ->
  etree_walk fuel j i (work, lnz, et) = Ok st' ->
  et_inv (S j) st' /\ nth j (fst (fst st')) 0 = j.
Proof.
  intros Hj. induction fuel as [|f IH]; intros i work lnz et st' Hi HI Hw H.
  - simpl in H. discriminate.
  - simpl in H. destruct (nth i work 0 =? j) eqn:E.
    + inversion H; subst. split; [exact HI|exact Hw].
    + apply Nat.eqb_neq in E.
      assert (Hij : i < j).
      { destruct (Nat.eq_dec i j) as [->|Hne]; [congruence|lia]. }
      destruct HI as (Hlw & Hll & Hle & Het).
      set (et' := match nth i et None with None => upd et i (Some j) | Some _ => et end) in *.
      assert (HI' : et_inv (S j) (upd work i j, upd lnz i (S (nth i lnz 0)), et')).
      { unfold et_inv. rewrite !fa_upd_length.
        split; [exact Hlw|]. split; [exact Hll|].
        unfold et'. destruct (nth i et None) as [q|] eqn:Eq.
        - split; [exact Hle|exact Het].
        - rewrite fa_upd_length. split; [exact Hle|].
          intros i0 p Hp. destruct (Nat.eq_dec i i0) as [<-|Hne].
          + rewrite fa_nth_upd_eq in Hp by lia. inversion Hp; subst. lia.
          + rewrite fa_nth_upd_neq in Hp by exact Hne. apply Het; exact Hp. }
      destruct (nth i et' None) as [i'|] eqn:Ei; [|discriminate].
      eapply IH; [| exact HI' | | exact H].
      * destruct HI' as (_ & _ & _ & Het'). apply Het' in Ei. lia.
      * rewrite fa_nth_upd_neq by lia. exact Hw.
Qed.

Lemma bd_etree_col j st st' :
  j < n -> et_inv j st -> etree_col n Ap Ai st j = Ok st' -> et_inv (S j) st'.
Proof.
  intros Hj HI H. destruct st as [[work lnz] et]. unfold etree_col in H.
  pose (J := fun s : estate => et_inv (S j) s /\ nth j (fst (fst s)) 0 = j).
  assert (HJ : J st').
  { eapply (bd_foldM_pres_in _ J); [| |exact H].
    - intros s x s' Hin [HIs Hws] Hs. destruct s as [[w l] e]. simpl in Hws.
      eapply bd_etree_walk; [exact Hj| |exact HIs|exact Hws|exact Hs].
      apply Htri; [exact Hj|]. apply bd_in_col_range; exact Hin.
    - unfold J. simpl. destruct HI as (Hlw & Hll & Hle & Het).
      split.
      + rewrite fa_upd_length. split; [exact Hlw|]. split; [exact Hll|]. split; [exact Hle|].
        intros i p Hp. apply Het in Hp. lia.
      + apply fa_nth_upd_eq. lia. }
  exact (proj1 HJ).
Qed.

Lemma bd_nth_repeat_none {X} m i (p : X) : nth i (repeat None m) None = Some p -> False.
Proof. revert i; induction m as [|m IH]; intros [|i] H; simpl in H; try discriminate. eapply IH; eauto. Qed.
End Etree.

Lemma etree_bounds_ok : stmt_etree_bounds.
Proof.
  intros n Ap Ai lnz et Htri H. unfold etree in H.
  destruct (foldM (etree_col n Ap Ai) (seq 0 n) (Ok (repeat 0 n, repeat 0 n, repeat None n)))
    as [st|e] eqn:E; [|discriminate].
  cbn [bind] in H. destruct st as [[work lnz'] et']. inversion H; subst; clear H.
  pose proof (fa_foldM_seq_inv (etree_col n Ap Ai) (et_inv n) n) as HF.
  specialize (HF (fun k s s' Hk HI Hs => bd_etree_col n Ap Ai Htri k s s' Hk HI Hs)).
  specialize (HF n 0 (repeat 0 n, repeat 0 n, repeat None n) (work, lnz, et) (le_n _)).
  simpl in HF.
  destruct HF as (_ & Hl & He & Het); [|exact E|].
  - rewrite !repeat_length. split; [reflexivity|]. split; [reflexivity|]. split; [reflexivity|].
    intros i p Hp. exfalso. eapply bd_nth_repeat_none; exact Hp.
  - split; [exact Hl|]. split; [exact He|]. intros i p _ Hp. apply Het; exact Hp.
Qed.

(** ** _factor_inner *)
Lemma bd_reach_walk_lt fuel k et : forall next marks elim marks' elim',
  Forall (fun c => c < k) elim ->
  reach_walk fuel k et next marks elim = Ok (marks', elim') ->
  Forall (fun c => c < k) elim'.
Proof.
  induction fuel as [|f IH]; intros next marks elim marks' elim' HF H; simpl in H.
  - discriminate.
  - destruct next as [nx|]; [|inversion H; subst; exact HF].
    destruct (nx <? k) eqn:E; [|inversion H; subst; exact HF].
    apply Nat.ltb_lt in E.
    destruct (nth nx marks false); [inversion H; subst; exact HF|].
    eapply IH; [|exact H]. constructor; [exact E|exact HF].
Qed.

Section FactorCols.
Context {T : Type} (O : Ops T).
Variables (n : nat) (Ap Ai : list nat).
Hypothesis Htri : upper_tri n Ap Ai.

(** [n] columns, each holding only rows strictly between its own index and [k] *)
Definition cols_inv (k : nat) (cols : list (list (nat * T))) : Prop :=
  length cols = n /\ forall c e, In e (nth c cols []) -> c < fst e < k.

Lemma bd_cols_inv_mono k k' cols : k <= k' -> cols_inv k cols -> cols_inv k' cols.
Proof.
  intros Hk [Hl H]. split; [exact Hl|]. intros c e Hin. apply H in Hin. lia.
Qed.

Lemma bd_rowA_step_lt k Ax et st i st' :
  k < n -> In i (col_range Ap k) ->
  Forall (fun c => c < k) (snd st) ->
  rowA_step O n k Ai Ax et st i = Ok st' ->
  Forall (fun c => c < k) (snd st').
Proof.
  intros Hk Hin HF H. destruct st as [[[dk yv] marks] yidx]. simpl in HF.
  unfold rowA_step in H. cbv zeta in H.
  destruct (nth i Ai 0 =? k) eqn:E; [inversion H; subst; exact HF|].
  apply Nat.eqb_neq in E.
  assert (Hb : nth i Ai 0 < k).
  { pose proof (Htri k i Hk (bd_in_col_range Ap k i Hin)) as Hle. lia. }
  destruct (nth (nth i Ai 0) marks false); [inversion H; subst; exact HF|].
  destruct (reach_walk _ _ _ _ _ _) as [[m el]|e1] eqn:ER; cbn [bind] in H; [|discriminate].
  inversion H; subst; clear H. simpl.
  apply Forall_app. split; [exact HF|].
  eapply bd_reach_walk_lt; [|exact ER]. constructor; [exact Hb|constructor].
Qed.

Definition colsof (s : rowB_state (T:=T)) : list (list (nat * T)) := fst (fst (fst s)).

Lemma bd_rowB_step_cols lg k Dinv s cidx :
  exists v, colsof (rowB_step O lg k Dinv s cidx)
            = upd (colsof s) cidx (nth cidx (colsof s) [] ++ [(k, v)]).
Proof.
  destruct s as [[[cols yv] marks] dk]. unfold rowB_step, colsof.
  destruct lg; simpl; eexists; reflexivity.
Qed.

Lemma bd_rowB_fold lg k Dinv : k < n -> forall l s,
  Forall (fun c => c < k) l -> cols_inv (S k) (colsof s) ->
  cols_inv (S k) (colsof (fold_left (rowB_step O lg k Dinv) l s)).
Proof.
  intros Hk. induction l as [|cidx l IH]; intros s HF HI; simpl.
  - exact HI.
  - inversion HF as [|x l' Hc HF']; subst. apply IH; [exact HF'|].
    destruct (bd_rowB_step_cols lg k Dinv s cidx) as [v Hv]. rewrite Hv.
    destruct HI as [Hl HI]. split; [rewrite fa_upd_length; exact Hl|].
    intros c e Hin. destruct (Nat.eq_dec cidx c) as [<-|Hne].
    + rewrite fa_nth_upd_eq in Hin by lia.
      apply in_app_or in Hin. destruct Hin as [Hin|[<-|[]]].
      * apply HI; exact Hin.
      * simpl. lia.
    + rewrite fa_nth_upd_neq in Hin by exact Hne. apply HI; exact Hin.
Qed.

Lemma bd_pivot_finish_cols P k d st st' :
  pivot_finish O P k d st = Ok st' -> fs_cols st' = fs_cols st.
Proof.
  intros H. apply pivot_finish_ok_ok in H. cbv zeta in H.
  destruct H as (_ & Hc & _). exact Hc.
Qed.

Lemma bd_row_step_cols Ax et P k st st' :
  k < n -> cols_inv k (fs_cols st) ->
  row_step O n Ap Ai Ax et P st k = Ok st' -> cols_inv (S k) (fs_cols st').
Proof.
  intros Hk HI H. unfold row_step in H.
  destruct (foldM (rowA_step O n k Ai Ax et) (col_range Ap k)
                  (Ok (zero O, fs_yvals st, fs_marks st, []))) as [a|e] eqn:EA; [|discriminate].
  cbn [bind] in H.
  assert (HFa : Forall (fun c => c < k) (snd a)).
  { eapply (bd_foldM_pres_in _ (fun s : rowA_state => Forall (fun c => c < k) (snd s)));
      [| |exact EA].
    - intros s x s' Hin HFs Hs. eapply bd_rowA_step_lt; eauto.
    - simpl. constructor. }
  destruct a as [[[dk yv] marks] yidx]. simpl in HFa.
  pose proof (bd_rowB_fold (fp_logical P) k (fs_Dinv st) Hk (rev yidx)
                (fs_cols st, yv, marks, dk) (Forall_rev HFa)
                (bd_cols_inv_mono k (S k) _ (Nat.le_succ_diag_r k) HI)) as HB.
  destruct (fold_left _ _ _) as [[[cols yv'] marks'] dk']. unfold colsof in HB. simpl in HB.
  destruct (fp_logical P).
  - inversion H; subst. simpl. exact HB.
  - apply bd_pivot_finish_cols in H. rewrite H. simpl. exact HB.
Qed.
End FactorCols.

Lemma factor_rows_in_range_ok : stmt_factor_rows_in_range.
Proof.
  intros T O n Ap Ai Ax et P st Htri H. unfold factor_inner in H. cbv zeta in H.
  set (st0 := mkFS (repeat [] n) (repeat (zero O) n)
                   (repeat (if fp_logical P then one O else zero O) n)
                   (repeat false n) (repeat (zero O) n) 0 0) in *.
  assert (H0 : forall k, cols_inv n k (fs_cols st0)).
  { intros k. split; [simpl; apply repeat_length|].
    intros c e Hin. simpl in Hin. rewrite bd_nth_repeat_nil in Hin. destruct Hin. }
  assert (Hmain : forall st1, cols_inv n 1 (fs_cols st1) ->
            foldM (row_step O n Ap Ai Ax et P) (seq 1 (n - 1)) (Ok st1) = Ok st ->
            cols_inv n n (fs_cols st)).
  { intros st1 HI1 Hf. destruct n as [|m].
    - change (seq 1 (0 - 1)) with (@nil nat) in Hf. rewrite fa_foldM_nil in Hf.
      inversion Hf; subst.
      destruct HI1 as [Hl HI]. split; [exact Hl|].
      intros c e Hin. destruct (fs_cols st) as [|x r]; [|discriminate].
      destruct c; destruct Hin.
    - pose proof (fa_foldM_seq_inv (row_step O (S m) Ap Ai Ax et P)
                    (fun k s => cols_inv (S m) k (fs_cols s)) (S m)) as HF.
      specialize (HF (fun k s s' Hk HI Hs =>
                        bd_row_step_cols O (S m) Ap Ai Htri Ax et P k s s' Hk HI Hs)).
      specialize (HF (S m - 1) 1 st1 st).
      replace (1 + (S m - 1)) with (S m) in HF by lia.
      apply HF; [lia|exact HI1|exact Hf]. }
  assert (Hfin : cols_inv n n (fs_cols st)).
  { destruct (fp_logical P).
    - cbn [bind] in H. eapply Hmain; [|exact H]. apply H0.
    - destruct (n =? 0); [discriminate|].
      destruct (pivot_finish O P 0 _ st0) as [st1|e] eqn:E1; [|discriminate].
      cbn [bind] in H. eapply Hmain; [|exact H].
      apply bd_pivot_finish_cols in E1. rewrite E1. apply H0. }
  destruct Hfin as [Hl HI]. split; [exact Hl|]. intros c e _ Hin. apply HI; exact Hin.
Qed.

(** ** flatten_cols *)
Lemma bd_cumsum_from_length l : forall acc, length (cumsum_from acc l) = length l.
Proof. induction l as [|x l IH]; intros acc; simpl; auto. Qed.

Lemma bd_cumsum_mono l : forall acc j, j < length l ->
  nth j (acc :: cumsum_from acc l) 0 <= nth (S j) (acc :: cumsum_from acc l) 0.
Proof.
  induction l as [|x l IH]; intros acc j Hj; simpl in Hj; [lia|].
  destruct j as [|j].
  - simpl. lia.
  - change (nth j (cumsum_from acc (x :: l)) 0 <= nth (S j) (cumsum_from acc (x :: l)) 0).
    simpl cumsum_from. apply IH. lia.
Qed.

Section Flatten.
Context {T : Type}.
Variable pad : T.

Definition flat_step (acc : list nat * list T) (lc : nat * list (nat * T))
  : res (list nat * list T) :=
  let '(li, lx) := acc in
  let '(l, c) := lc in
  if length c <=? l
  then Ok (li ++ map fst c ++ repeat 0 (l - length c),
           lx ++ map snd c ++ repeat pad (l - length c))
  else Err LayoutOverflow.

Lemma bd_flatten_gen : forall lnz (cols : list (list (nat * T))) li0 lx0 li lx base,
  length lnz = length cols -> length li0 = base ->
  (forall c, c < length cols -> length (nth c cols []) = nth c lnz 0) ->
  foldM flat_step (combine lnz cols) (Ok (li0, lx0)) = Ok (li, lx) ->
  (forall idx, idx < base -> nth idx li 0 = nth idx li0 0) /\
  (forall c idx, c < length cols ->
     nth c (base :: cumsum_from base lnz) 0 <= idx < nth (S c) (base :: cumsum_from base lnz) 0 ->
     exists e, In e (nth c cols []) /\ nth idx li 0 = fst e).
Proof.
  induction lnz as [|l lnz IH]; intros cols li0 lx0 li lx base Hlen Hb Hnp Hf.
  - destruct cols as [|c0 cols]; [|discriminate]. simpl combine in Hf. rewrite fa_foldM_nil in Hf.
    inversion Hf; subst. split; [auto|]. intros c idx Hc. simpl in Hc. lia.
  - destruct cols as [|c0 cols]; [discriminate|]. simpl in Hlen.
    simpl combine in Hf. rewrite fa_foldM_cons in Hf.
    pose proof (Hnp 0 (Nat.lt_0_succ _)) as Hc0. simpl in Hc0.
    unfold flat_step at 2 in Hf. rewrite Hc0, Nat.leb_refl, Nat.sub_diag in Hf.
    simpl repeat in Hf. rewrite !app_nil_r in Hf.
    specialize (IH cols (li0 ++ map fst c0) (lx0 ++ map snd c0) li lx (base + l)).
    destruct IH as [IHpre IHcol]; [lia| | |exact Hf|].
    + rewrite app_length, map_length. lia.
    + intros c Hc. apply (Hnp (S c)). simpl. lia.
    + split.
      * intros idx Hidx. rewrite IHpre by lia. apply app_nth1. lia.
      * intros c idx Hc Hr. destruct c as [|c].
        -- simpl in Hr. exists (nth (idx - base) c0 (0, pad)). split.
           ++ simpl. apply nth_In. lia.
           ++ rewrite IHpre by lia. rewrite app_nth2 by lia. rewrite Hb.
              change 0 with (fst (0, pad)) at 1. apply map_nth.
        -- simpl in Hc.
           change (nth (S c) (c0 :: cols) []) with (nth c cols []).
           apply IHcol; [lia|]. exact Hr.
Qed.
End Flatten.

Lemma flatten_wf_L_ok : stmt_flatten_wf_L.
Proof.
  intros T lnz cols pad li lx n Hln Hcn Hrows Hf Hnp.
  unfold flatten_cols in Hf.
  destruct (bd_flatten_gen pad lnz cols [] [] li lx 0) as [_ Hcol].
  - lia.
  - reflexivity.
  - intros c Hc. apply Hnp. lia.
  - exact Hf.
  - unfold wf_L, cumsum0. split; [|split].
    + simpl. rewrite bd_cumsum_from_length. lia.
    + intros j Hj. apply bd_cumsum_mono. lia.
    + intros j idx Hj Hr. destruct (Hcol j idx) as (e & Hin & He); [lia|exact Hr|].
      rewrite He. apply Hrows; [exact Hj|exact Hin].
Qed.

Lemma factor_ws_wf_L_ok : stmt_factor_ws_wf_L.
Proof.
  intros T O perm iperm w logical F A P Htri Hlnz Hnp H.
  unfold factor_ws in H. fold A in H. fold P in H.
  destruct (factor_inner O (sn A) (colptr A) (rowval A) (nzval A) (w_etree w) P)
    as [st|e] eqn:E; [|discriminate].
  cbn [bind] in H.
  destruct (flatten_cols (w_Lnz w) (fs_cols st) (if logical then one O else zero O))
    as [[li lx]|e] eqn:EF; [|discriminate].
  cbn [bind] in H. inversion H; subst; clear H. simpl.
  destruct (factor_rows_in_range_ok T O _ _ _ _ _ _ st Htri E) as [Hl Hrows].
  eapply flatten_wf_L_ok; [exact Hlnz|exact Hl|exact Hrows|exact EF|].
  apply Hnp. reflexivity.
Qed.

(** ** non-vacuity *)
Example bounds_example_etree_ok : stmt_bounds_example_etree.
Proof.
  split; [|vm_compute; reflexivity].
  intros j idx Hj Hr. unfold ex_Ap, ex_Ai in *.
  destruct j as [|[|[|j]]]; simpl in Hr; try lia;
    repeat (destruct idx as [|idx]; simpl; try lia).
Qed.

Example bounds_example_factor_ok : stmt_bounds_example_factor.
Proof.
  unfold stmt_bounds_example_factor.
  destruct (factor_inner OpsQ 3 ex_Ap ex_Ai ex_Ax ex_et ex_P) as [st|e] eqn:E;
    vm_compute in E; [|discriminate].
  inversion E; subst; clear E.
  split; [vm_compute; reflexivity|]. split; [|vm_compute; split; reflexivity].
  intros c Hc. destruct c as [|[|[|c]]]; [reflexivity|reflexivity|reflexivity|lia].
Qed.

(** the example meets the hypotheses and the conclusion of the bound theorems *)
Example bounds_example_etree_in_range :
  exists lnz et, etree 3 ex_Ap ex_Ai = Ok (lnz, et) /\ etree_in_range 3 et.
Proof.
  destruct bounds_example_etree_ok as [Htri He].
  exists [2; 1; 0], [Some 1; Some 2; None]. split; [exact He|].
  intros i p Hi Hp. eapply etree_bounds_ok; eauto.
Qed.
