(** Proofs of SpecHistory: refactor after any operation history (any Ops). *)
From Coq Require Import List Arith ZArith QArith Lia Bool.
Import ListNotations.
Require Import Clarabel.Base.Ops Clarabel.Qdldl.Model Clarabel.Qdldl.ModelHistory Clarabel.Qdldl.Spec.
Require Import Clarabel.Qdldl.LemmasRefactor Clarabel.Qdldl.LemmasCompose.
Require Import Clarabel.Qdldl.SpecDriverReg Clarabel.Qdldl.LemmasDriverReg.
Require Import Clarabel.Qdldl.SpecHistory.
Local Open Scope nat_scope.

Section L.
Context {T : Type} (O : Ops T).

(** the offset fold on the input entries is the [ups_offset] batch *)
Lemma fold_offset_eq (off : T) (l : list (nat * Z)) : forall nz : list T,
  fold_left (fun nz is_ =>
               let i := fst is_ in
               match Z.sgn (snd is_) with
               | 1%Z => upd nz i (add O (nth i nz (zero O)) off)
               | (-1)%Z => upd nz i (sub O (nth i nz (zero O)) off)
               | _ => nz
               end) l nz
  = apply_updates O (map (fun is_ => (fst is_, fun x : T => match Z.sgn (snd is_) with
                                         | 1%Z => add O x off
                                         | (-1)%Z => sub O x off
                                         | _ => x
                                         end)) l) nz.
Proof.
  induction l as [|[i sg] l IH]; intro nz; [reflexivity|].
  cbn [fold_left map fst snd]. rewrite au_cons. cbn [fst snd]. rewrite IH. f_equal.
  destruct (Z.sgn sg) as [|p|p]; try (symmetry; apply rf_upd_same);
    destruct p; try reflexivity; symmetry; apply rf_upd_same.
Qed.

Lemma ups_offset_in (idx : list nat) (off : T) (signs : list Z) u :
  In u (ups_offset O idx off signs) -> In (fst u) idx.
Proof.
  unfold ups_offset. intro Hu. apply in_map_iff in Hu. destruct Hu as [[i x] [Hu Hc]]. subst u. cbn.
  apply in_combine_l in Hc. exact Hc.
Qed.

Lemma wf_csc_set_nzval (A : spm (T:=T)) (v : list T) :
  length v = length (nzval A) -> wf_csc A -> wf_csc (set_nzval A v).
Proof.
  intros HL Hwf. unfold wf_csc in *. unfold set_nzval. cbn [sm sn colptr rowval nzval].
  rewrite HL. exact Hwf.
Qed.

(** ** the invariant survives any in-range batch applied to both copies *)
Lemma hinv_batch (A0 : spm (T:=T)) S0 (st st' : hstate (T:=T)) (A A' : spm (T:=T))
      (us2 : list (nat * (T -> T))) :
  HInv O A0 S0 st A ->
  (forall u, In u us2 -> fst u < nnz A0) ->
  A' = set_nzval A (apply_updates O us2 (nzval A)) ->
  h_F st' = set_triu_vals (h_F st)
              (apply_updates O (map (fun u => (amap (h_F st) (fst u), snd u)) us2) (triu_vals (h_F st))) ->
  HInv O A0 S0 st' A'.
Proof.
  intros [K0 [S1 [F1 [us [Hwf [HQ [HS [Hin [Hn [HA HF]]]]]]]]]] Hr EA EF.
  exists K0, S1, F1, (us ++ us2).
  split; [exact Hwf|]. split; [exact HQ|]. split; [exact HS|]. split.
  { intros u Hu. apply in_app_or in Hu. destruct Hu as [Hu|Hu]; [apply Hin; exact Hu|].
    rewrite Hn. apply Hr. exact Hu. }
  split; [exact Hn|]. split.
  - rewrite EA, HA. unfold set_nzval. cbn [sm sn colptr rowval nzval]. rewrite au_app. reflexivity.
  - rewrite EF. apply (F_step O (h_F st) F1 us us2). exact HF.
Qed.

Lemma hinv_A_facts (A0 : spm (T:=T)) S0 (st : hstate (T:=T)) (A : spm (T:=T)) :
  HInv O A0 S0 st A -> wf_csc A /\ nnz A = nnz A0.
Proof.
  intros [K0 [S1 [F1 [us [Hwf [HQ [HS [Hin [Hn [HA HF]]]]]]]]]].
  subst A. split.
  - apply wf_csc_set_nzval; [apply apply_updates_length|exact Hwf].
  - unfold nnz, set_nzval in *. cbn [nzval]. rewrite apply_updates_length. exact Hn.
Qed.

(** ** refactor in a state satisfying the invariant *)
Lemma hinv_refactor (A0 : spm (T:=T)) S0 (st : hstate (T:=T)) (A : spm (T:=T)) :
  HInv O A0 S0 st A -> refactor O (h_F st) = qnew O A (nonlogical S0).
Proof.
  intros [K0 [S1 [F1 [us [Hwf [HQ [HS [Hin [Hn [HA HF]]]]]]]]]].
  rewrite HF, HA, <- HS.
  apply (refactor_is_fresh_factor_ok T O K0 S1 F1 us Hwf HQ Hin).
Qed.

Lemma hinv_restart (A0 : spm (T:=T)) S0 (st : hstate (T:=T)) (A : spm (T:=T)) F' b :
  HInv O A0 S0 st A -> qnew O A (nonlogical S0) = Ok F' -> HInv O A0 S0 (mkH F' b) A.
Proof.
  intros Hinv HQ'. destruct (hinv_A_facts A0 S0 st A Hinv) as [HwfA HnA].
  exists A, (nonlogical S0), F', [].
  split; [exact HwfA|]. split; [exact HQ'|]. split; [reflexivity|].
  split; [intros u []|]. split; [exact HnA|]. split.
  - cbn. symmetry. apply set_nzval_self.
  - cbn. symmetry. apply stv_self.
Qed.

Lemma hinv_flag (A0 : spm (T:=T)) S0 (st : hstate (T:=T)) (A : spm (T:=T)) b :
  HInv O A0 S0 st A -> HInv O A0 S0 (mkH (h_F st) b) A.
Proof.
  intros [K0 [S1 [F1 [us H]]]]. exists K0, S1, F1, us. exact H.
Qed.

Lemma hinv_step (A0 : spm (T:=T)) S0 (st : hstate (T:=T)) (A : spm (T:=T)) o :
  HInv O A0 S0 st A -> hop_in_range (nnz A0) o ->
  HInv O A0 S0 (fst (h_step O st o)) (hop_on_A O A o).
Proof.
  intros Hinv Hr. destruct o as [idx vals|idx s|idx off signs| |b].
  - (* update_values *)
    cbn [h_step fst hop_on_A].
    apply (hinv_batch A0 S0 st _ A _ (ups_update idx vals) Hinv).
    + intros u Hu. apply Hr. apply (ups_update_in _ _ _ Hu).
    + unfold set_nzval. f_equal. apply fold_update_eq.
    + cbn [h_F]. apply update_values_is_batch_ok.
  - (* scale_values *)
    cbn [h_step fst hop_on_A].
    apply (hinv_batch A0 S0 st _ A _ (ups_scale O idx s) Hinv).
    + intros u Hu. apply Hr. apply (ups_scale_in O _ _ _ Hu).
    + unfold set_nzval. f_equal. apply fold_scale_eq.
    + cbn [h_F]. apply scale_values_is_batch_ok.
  - (* offset_values *)
    cbn [h_step hop_on_A].
    destruct (length idx =? length signs) eqn:EL.
    + apply Nat.eqb_eq in EL.
      rewrite (offset_values_is_batch_ok T O (h_F st) idx off signs EL). cbn [fst].
      apply (hinv_batch A0 S0 st _ A _ (ups_offset O idx off signs) Hinv).
      * intros u Hu. apply Hr. apply (ups_offset_in _ _ _ _ Hu).
      * unfold set_nzval. f_equal. unfold ups_offset. apply fold_offset_eq.
      * cbn [h_F]. reflexivity.
    + unfold offset_values. rewrite EL. cbn [negb fst]. exact Hinv.
  - (* refactor *)
    cbn [h_step hop_on_A]. rewrite (hinv_refactor A0 S0 st A Hinv).
    destruct (qnew O A (nonlogical S0)) as [F'|e] eqn:HQ'; cbn [fst].
    + apply (hinv_restart A0 S0 st A F' true Hinv HQ').
    + apply hinv_flag. exact Hinv.
  - (* solve *)
    cbn [h_step hop_on_A]. destruct (h_ok st); cbn [fst]; exact Hinv.
Qed.
End L.

(** ** 0 *)
Lemma hist_inv_ok : stmt_hist_inv.
Proof.
  intros T O A0 S0 st A Hwf HR.
  induction HR as [F0 HQ|st A o HR IH Hr].
  - exists A0, S0, F0, [].
    split; [exact Hwf|]. split; [exact HQ|]. split; [reflexivity|].
    split; [intros u []|]. split; [reflexivity|]. split.
    + cbn. symmetry. apply set_nzval_self.
    + cbn. symmetry. apply stv_self.
  - apply hinv_step; assumption.
Qed.

Lemma hist_reach_wf_ok : stmt_hist_reach_wf.
Proof.
  intros T O A0 S0 st A Hwf HR.
  apply (hinv_A_facts O A0 S0 st A). apply hist_inv_ok; assumption.
Qed.

Lemma hist_reach_run_ok : stmt_hist_reach_run.
Proof.
  intros T O A0 S0 ops. induction ops as [|o ops IH]; intros st A HR Hops.
  - exact HR.
  - cbn [h_run fst]. unfold h_run_A. cbn [fold_left]. apply IH.
    + apply reach_step; [exact HR|]. apply Hops. left. reflexivity.
    + intros o' Ho'. apply Hops. right. exact Ho'.
Qed.

(** ** 1 *)
Lemma hist_refactor_spec_ok : stmt_hist_refactor_spec.
Proof.
  intros T O A0 S0 st A Hwf HR.
  pose proof (hist_inv_ok T O A0 S0 st A Hwf HR) as Hinv.
  cbn [h_step]. rewrite (hinv_refactor O A0 S0 st A Hinv). reflexivity.
Qed.

(** ** 2 *)
Lemma hist_ok_current_ok : stmt_hist_ok_current.
Proof.
  intros T O A0 S0 Hwf st A HR st' out Hstep.
  rewrite (hist_refactor_spec_ok T O A0 S0 st A Hwf HR) in Hstep.
  destruct (qnew O A (nonlogical S0)) as [F'|e] eqn:HQ'; injection Hstep as Hst Hout; subst st' out;
    cbn [h_ok h_F].
  - split; [intros _; split; reflexivity|]. split; [intros _; split; reflexivity|].
    intros e He. discriminate He.
  - split; [intro Hf; discriminate Hf|]. split; [intro Hf; discriminate Hf|].
    intros e' He. injection He as He. subst e'. repeat split.
Qed.

Lemma hist_refactor_twice_ok : stmt_hist_refactor_twice.
Proof.
  intros T O A0 S0 st A Hwf HR.
  assert (HR' : Reach O A0 S0 (fst (h_step O st HRefactor)) A).
  { apply (reach_step O A0 S0 st A HRefactor HR). exact I. }
  rewrite (hist_refactor_spec_ok T O A0 S0 _ A Hwf HR').
  rewrite (hist_refactor_spec_ok T O A0 S0 st A Hwf HR).
  destruct (qnew O A (nonlogical S0)) as [F'|e]; reflexivity.
Qed.

Lemma hist_restart_ok : stmt_hist_restart.
Proof.
  intros T O A0 S0 st A F' out Hwf HR Hstep.
  pose proof (hist_inv_ok T O A0 S0 st A Hwf HR) as Hinv.
  destruct (hinv_A_facts O A0 S0 st A Hinv) as [HwfA HnA].
  rewrite (hist_refactor_spec_ok T O A0 S0 st A Hwf HR) in Hstep.
  destruct (qnew O A (nonlogical S0)) as [F''|e] eqn:HQ'.
  2:{ assert (Hb : h_ok (fst (mkH (h_F st) false, HoRefactor (T:=T) (Err e))) = h_ok (fst (mkH F' true, out)))
        by (rewrite Hstep; reflexivity).
      cbn in Hb. discriminate Hb. }
  assert (HF : h_F (fst (mkH F'' true, HoRefactor (T:=T) (Ok tt))) = h_F (fst (mkH F' true, out)))
    by (rewrite Hstep; reflexivity).
  cbn in HF. subst F''.
  split; [exact HwfA|]. split; [exact HnA|]. split; [reflexivity|]. split.
  - apply reach_new. exact HQ'.
  - apply (hinv_restart O A0 S0 st A F' true Hinv HQ').
Qed.

(** ** 3 *)
Lemma hist_solve_uses_held_ok : stmt_hist_solve_uses_held.
Proof.
  intros T O st b. cbn [h_step]. destruct (h_ok st); cbn [fst snd].
  - split; [reflexivity|]. split; [intro H; discriminate H|intros _; reflexivity].
  - split; [reflexivity|]. split; [intros _; reflexivity|intro H; discriminate H].
Qed.

Lemma hist_flag_ok : stmt_hist_flag.
Proof.
  intros T O st o Ho. destruct o as [idx vals|idx s|idx off signs| |b]; cbn [h_step].
  - reflexivity.
  - reflexivity.
  - destruct (offset_values O (h_F st) idx off signs); reflexivity.
  - exfalso. apply Ho. reflexivity.
  - destruct (h_ok st) eqn:E; cbn [fst]; [exact E|exact E].
Qed.

(** ** 4 *)
Example hist_example_ok : stmt_hist_example.
Proof.
  unfold stmt_hist_example.
  assert (Hwf : wf_csc hx_A).
  { unfold wf_csc, hx_A. cbn [sm sn colptr rowval nzval length].
    repeat split; try reflexivity.
    - intros j Hj. do 2 (destruct j as [|j]; [cbn; lia|]). lia.
    - intros k Hk. do 3 (destruct k as [|k]; [cbn; lia|]). lia. }
  assert (HQ : qnew OpsQ hx_A hx_S = Ok hx_F0) by (vm_compute; reflexivity).
  assert (Hops : forall o, In o hx_ops -> hop_in_range (nnz hx_A) o).
  { intros o Ho. unfold hx_ops in Ho. cbn [In] in Ho.
    destruct Ho as [<-|[<-|[<-|[<-|[<-|[<-|[<-|[]]]]]]]]; cbn [hop_in_range]; try exact I;
      intros i [<-|[]]; vm_compute; lia. }
  split; [exact Hwf|]. split; [exact HQ|]. split; [exact Hops|]. split.
  { apply hist_reach_run_ok; [apply reach_new; exact HQ|exact Hops]. }
  split; [vm_compute; reflexivity|].
  split; [vm_compute; reflexivity|].
  split; [vm_compute; reflexivity|].
  vm_compute. reflexivity.
Qed.
