(** Statements about three pieces of the code that drives the QDLDL kernel
    (Qdldl/ModelDriver.v, Qdldl/Model.v):
    A. dynamic regularisation of the pivots (over the reals);
    B. [symv] is the symmetric matrix-vector product, [refine_error] the residual
       b - sym(K) xi of the matrix handed to it (any commutative ring);
    C. the backend dispatch / settings validation.
    Statements and spec predicates only; the proofs are in LemmasDriverMisc.v. *)
From Coq Require Import String.
From Coq Require Import List Arith ZArith Reals Lia Bool.
Import ListNotations.
Require Import Clarabel.Base.Ops Clarabel.Qdldl.Model Clarabel.Qdldl.ModelDriver
        Clarabel.Qdldl.SpecSolve Clarabel.Qdldl.SpecFactor Clarabel.Qdldl.SpecFactorCorrect
        Clarabel.Qdldl.SpecPermSym Clarabel.Qdldl.SpecPermEntries.
Local Open Scope nat_scope.

(** * A. dynamic regularisation, O := OpsR *)

(** the prescribed sign of pivot k as a real *)
Definition sgnR (P : fparams (T:=R)) (k : nat) : R := IZR (nth k (fp_Dsigns P) 1%Z).
(** every prescribed sign is +1 or -1 *)
Definition signs_pm1 (n : nat) (ds : list Z) : Prop :=
  forall k, k < n -> nth k ds 1%Z = 1%Z \/ nth k ds 1%Z = (-1)%Z.

(** every pivot of the returned D has the prescribed sign and magnitude at least
    min(eps, delta).  (Not delta in general: an unperturbed pivot only satisfies
    d*s >= eps; see [stmt_dynamic_reg_delta_bound_refuted].) *)
Definition stmt_dynamic_reg_signs : Prop :=
  forall n Ap Ai Ax et (P : fparams (T:=R)) st,
    fp_logical P = false -> fp_reg_enable P = true ->
    (0 < fp_eps P)%R -> (0 < fp_delta P)%R ->
    (forall k, k < n -> nth k (fp_Dsigns P) 1%Z = 1%Z \/ nth k (fp_Dsigns P) 1%Z = (-1)%Z) ->
    factor_inner OpsR n Ap Ai Ax et P = Ok st ->
    forall k, k < n ->
      let s := IZR (nth k (fp_Dsigns P) 1%Z) in
      (Rmin (fp_eps P) (fp_delta P) <= nth k (fs_D st) 0 * s)%R.

(** same hypotheses: the signed pivot is strictly positive, i.e. D[k] has exactly the
    sign Dsigns[k] *)
Definition stmt_dynamic_reg_sign_strict : Prop :=
  forall n Ap Ai Ax et (P : fparams (T:=R)) st,
    fp_logical P = false -> fp_reg_enable P = true ->
    (0 < fp_eps P)%R -> (0 < fp_delta P)%R -> signs_pm1 n (fp_Dsigns P) ->
    factor_inner OpsR n Ap Ai Ax et P = Ok st ->
    forall k, k < n ->
      (0 < nth k (fs_D st) 0 * sgnR P k)%R /\
      (nth k (fp_Dsigns P) 1%Z = 1%Z -> 0 < nth k (fs_D st) 0)%R /\
      (nth k (fp_Dsigns P) 1%Z = (-1)%Z -> nth k (fs_D st) 0 < 0)%R.

(** the sharper split (no positivity of eps, delta needed): [piv] are the pivots before
    regularisation, [pert] says which were perturbed.  A perturbed pivot was below the
    threshold and becomes delta*s exactly; an unperturbed one is returned unchanged and
    satisfies d*s >= eps.  regularize_count = number of perturbed pivots. *)
Definition stmt_dynamic_reg_split : Prop :=
  forall n Ap Ai Ax et (P : fparams (T:=R)) st,
    fp_logical P = false -> fp_reg_enable P = true -> signs_pm1 n (fp_Dsigns P) ->
    factor_inner OpsR n Ap Ai Ax et P = Ok st ->
    exists (piv : list R) (pert : list bool),
      length piv = n /\ length pert = n /\ length (fs_D st) = n /\
      fs_reg st = count_true pert /\
      forall k, k < n ->
        let s := sgnR P k in
        (nth k pert false = true ->
           (nth k piv 0 * s < fp_eps P)%R /\
           nth k (fs_D st) 0%R = (fp_delta P * s)%R /\
           (nth k (fs_D st) 0 * s = fp_delta P)%R) /\
        (nth k pert false = false ->
           nth k (fs_D st) 0%R = nth k piv 0%R /\
           (fp_eps P <= nth k (fs_D st) 0 * s)%R).

(** corollary: when delta <= eps the magnitude bound is delta *)
Definition stmt_dynamic_reg_delta_bound : Prop :=
  forall n Ap Ai Ax et (P : fparams (T:=R)) st,
    fp_logical P = false -> fp_reg_enable P = true ->
    (fp_delta P <= fp_eps P)%R -> signs_pm1 n (fp_Dsigns P) ->
    factor_inner OpsR n Ap Ai Ax et P = Ok st ->
    forall k, k < n -> (fp_delta P <= nth k (fs_D st) 0 * sgnR P k)%R.

(** the 2x2 diagonal matrix diag(0, -3/2) with signs (+,-), eps = 1, delta = 2:
    D = (2, -3/2); pivot 0 is perturbed, pivot 1 is not *)
Definition dr_exP : fparams (T:=R) := mkFP false [1; -1]%Z true 1%R 2%R.
Definition dr_exAp : list nat := [0; 1; 2].
Definition dr_exAi : list nat := [0; 1].
Definition dr_exAx : list R := [0; -(3/2)]%R.
Definition dr_exEt : list (option nat) := [None; None].
Definition stmt_dynamic_reg_example : Prop :=
  exists st, factor_inner OpsR 2 dr_exAp dr_exAi dr_exAx dr_exEt dr_exP = Ok st /\
    fp_logical dr_exP = false /\ fp_reg_enable dr_exP = true /\
    (0 < fp_eps dr_exP)%R /\ (0 < fp_delta dr_exP)%R /\ signs_pm1 2 (fp_Dsigns dr_exP) /\
    fs_D st = [2 * 1; -(3/2)]%R /\ fs_reg st = 1.
(** ... so "magnitude >= delta" is false without delta <= eps *)
Definition stmt_dynamic_reg_delta_bound_refuted : Prop :=
  exists n Ap Ai Ax et (P : fparams (T:=R)) st k,
    fp_logical P = false /\ fp_reg_enable P = true /\
    (0 < fp_eps P)%R /\ (0 < fp_delta P)%R /\ signs_pm1 n (fp_Dsigns P) /\
    factor_inner OpsR n Ap Ai Ax et P = Ok st /\ k < n /\
    ~ (fp_delta P <= nth k (fs_D st) 0 * sgnR P k)%R.

(** * B. symv *)

(** stored rows of column j are <= j (duplicates allowed) *)
Definition upper_cols (n : nat) (Ap Ai : list nat) : Prop :=
  forall j idx, j < n -> In idx (col_range Ap j) -> nth idx Ai 0 <= j.
(** stored rows of the first n columns are < n (any triangle, duplicates allowed) *)
Definition rows_in_range (n : nat) (Ap Ai : list nat) : Prop :=
  forall j idx, j < n -> In idx (col_range Ap j) -> nth idx Ai 0 < n.

Section SymvSpec.
Context {T : Type} (O : Ops T).

(** what the stored entry [idx] of column [col] adds to y[i] (before the factor a is
    pulled out): a*v*x[col] on its row, and a*v*x[row] on its column when off-diagonal *)
Definition symv_contrib (K : spm (T:=T)) (x : list T) (a : T) (i col idx : nat) : T :=
  let row := nth idx (rowval K) 0 in
  let av := mul O a (nth idx (nzval K) (zero O)) in
  add O (if row =? i then mul O av (nth col x (zero O)) else zero O)
        (if negb (row =? col) && (col =? i) then mul O av (nth row x (zero O)) else zero O).

(** row i of sym(K) x, K read as the upper triangle of a symmetric matrix *)
Definition symrow (K : spm (T:=T)) (n : nat) (x : list T) (i : nat) : T :=
  vsum O n (fun j => mul O (Asym O (colptr K) (rowval K) (nzval K) i j) (nth j x (zero O))).
End SymvSpec.

(** entry-sum form: valid for either triangle (only index ranges are assumed) *)
Definition stmt_symv_entries : Prop :=
  forall (T : Type) (O : Ops T) (K : spm (T:=T)) n (y x : list T) a b,
    RingLaws O -> length x = n -> length y = n ->
    rows_in_range n (colptr K) (rowval K) ->
    length (symv O K y x a b) = n /\
    forall i, i < n ->
      nth i (symv O K y x a b) (zero O)
      = add O (mul O (nth i y (zero O)) b)
              (vsum O n (fun col => isum O (col_range (colptr K) col)
                                         (fun idx => symv_contrib O K x a i col idx))).

(** the length is preserved whatever the matrix *)
Definition stmt_symv_length : Prop :=
  forall (T : Type) (O : Ops T) (K : spm (T:=T)) (y x : list T) a b,
    length (symv O K y x a b) = length y.

(** dense form: y' = a * sym(K) x + b * y, for an upper-triangular K (duplicates add,
    exactly as in [Aent]/[Asym]) *)
Definition stmt_symv_dense : Prop :=
  forall (T : Type) (O : Ops T) (K : spm (T:=T)) n (y x : list T) a b,
    RingLaws O -> length x = n -> length y = n ->
    upper_cols n (colptr K) (rowval K) ->
    length (symv O K y x a b) = n /\
    forall i, i < n ->
      nth i (symv O K y x a b) (zero O)
      = add O (mul O a (symrow O K n x i)) (mul O b (nth i y (zero O))).

(** the same with the hypotheses in the vocabulary of SpecPermSym.v *)
Definition stmt_symv_dense_wf : Prop :=
  forall (T : Type) (O : Ops T) (K : spm (T:=T)) n (y x : list T) a b,
    RingLaws O -> wf_csc K -> sm K = n -> sn K = n -> upper_tri_ps K ->
    length x = n -> length y = n ->
    length (symv O K y x a b) = n /\
    forall i, i < n ->
      nth i (symv O K y x a b) (zero O)
      = add O (mul O a (vsum O n (fun j => mul O (Asym O (colptr K) (rowval K) (nzval K) i j)
                                               (nth j x (zero O)))))
              (mul O b (nth i y (zero O))).

(** _get_refine_error: e = b - sym(K) xi for THE matrix K passed in; the second
    component is the infinity norm of that e ([FL] arbitrary) *)
Definition stmt_refine_error_dense : Prop :=
  forall (T : Type) (O : Ops T) (FL : FlOps T) (K : spm (T:=T)) n (b xi : list T),
    RingLaws O -> length xi = n -> length b = n ->
    upper_cols n (colptr K) (rowval K) ->
    length (fst (refine_error O FL K b xi)) = n /\
    snd (refine_error O FL K b xi) = norm_inf O FL (fst (refine_error O FL K b xi)) /\
    forall i, i < n ->
      nth i (fst (refine_error O FL K b xi)) (zero O)
      = sub O (nth i b (zero O)) (symrow O K n xi i).

(** * C. dispatch *)
Local Open Scope string_scope.

Definition stmt_dispatch_valid : Prop :=
  forall f s r, validate_method f s = true <-> dispatch f s r <> DPanic.

Definition stmt_dispatch_cases : Prop :=
  (forall f r, dispatch f "qdldl" r = DOk BQdldl) /\
  (forall r, dispatch true "faer" r = DOk BFaer) /\
  (forall r, dispatch false "faer" r = DPanic) /\
  (forall f r, dispatch f "auto" r = DOk (if f && negb r then BFaer else BQdldl)) /\
  (forall f s r, s <> "auto" -> s <> "qdldl" -> s <> "faer" -> dispatch f s r = DPanic).

(** faer is only ever selected when the feature is compiled in *)
Definition stmt_dispatch_faer_needs_feature : Prop :=
  forall f s r, dispatch f s r = DOk BFaer -> f = true.

(** validation accepts exactly the three names (faer only with the feature) *)
Definition stmt_validate_cases : Prop :=
  forall f s, validate_method f s = true <->
              (s = "auto" \/ s = "qdldl" \/ (s = "faer" /\ f = true)).
