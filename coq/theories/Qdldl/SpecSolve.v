(** Statements about the sparse triangular solves of clarabel::qdldl
    ([lsolve], [dltsolve], [solve_factors], [solve] of Qdldl/Model.v), over any
    commutative ring in which the pivots have reciprocals.  Statements only. *)
From Coq Require Import List Arith Lia Bool Ring.
Import ListNotations.
Require Import Clarabel.Base.Ops Clarabel.Qdldl.Model.

Section SolveSpec.
Context {T : Type} (O : Ops T).

(** dense sums over index lists / ranges *)
Definition isum (l : list nat) (f : nat -> T) : T :=
  fold_right (fun k acc => add O (f k) acc) (zero O) l.
(** sum_{k < n} f k *)
Definition vsum (n : nat) (f : nat -> T) : T := isum (seq 0 n) f.
(** sum_{a <= k < b} f k *)
Definition vsum_range (a b : nat) (f : nat -> T) : T := isum (seq a (b - a)) f.

(** dense reading of one stored column: the sum of the values stored with row [i]
    (duplicates add) *)
Definition colent (es : list (nat * T)) (i : nat) : T :=
  fold_right (fun e acc => add O (snd e) acc) (zero O) (filter (fun e => fst e =? i) es).
(** dense reading L[i,j] of the factor stored by columns in (Lp, Li, Lx) *)
Definition lent (Lp Li : list nat) (Lx : list T) (i j : nat) : T :=
  colent (lcol O Lp Li Lx j) i.
(** the unit lower triangular matrix I + L *)
Definition unit_lower (Lp Li : list nat) (Lx : list T) (i j : nat) : T :=
  if i =? j then one O else lent Lp Li Lx i j.

(** column pointers monotone, every stored row index strictly below the diagonal and
    in range *)
Definition wf_L (n : nat) (Lp Li : list nat) : Prop :=
  length Lp = S n /\
  (forall j, j < n -> nth j Lp 0 <= nth (S j) Lp 0) /\
  (forall j idx, j < n -> nth j Lp 0 <= idx < nth (S j) Lp 0 -> j < nth idx Li 0 < n).

(** row [i] of (I+L) y *)
Definition lrow (Lp Li : list nat) (Lx y : list T) (i : nat) : T :=
  add O (nth i y (zero O))
        (vsum i (fun j => mul O (lent Lp Li Lx i j) (nth j y (zero O)))).
(** row [i] of (I+L)' x *)
Definition ltrow (n : nat) (Lp Li : list nat) (Lx x : list T) (i : nat) : T :=
  add O (nth i x (zero O))
        (vsum_range (S i) n (fun j => mul O (lent Lp Li Lx j i) (nth j x (zero O)))).

(** (I+L) y = b *)
Definition lsolve_spec (n : nat) (Lp Li : list nat) (Lx b y : list T) : Prop :=
  length y = n /\ forall i, i < n -> lrow Lp Li Lx y i = nth i b (zero O).
(** D (I+L)' x = y *)
Definition dltsolve_spec (n : nat) (Lp Li : list nat) (Lx Dg y x : list T) : Prop :=
  length x = n /\
  forall i, i < n -> mul O (nth i Dg (zero O)) (ltrow n Lp Li Lx x i) = nth i y (zero O).

(** row [i] of D (I+L)' x *)
Definition dltrow (n : nat) (Lp Li : list nat) (Lx Dg x : list T) (i : nat) : T :=
  mul O (nth i Dg (zero O)) (ltrow n Lp Li Lx x i).
(** (I+L) D (I+L)' x = b, row-wise with dense sums *)
Definition ldlt_spec (n : nat) (Lp Li : list nat) (Lx Dg b x : list T) : Prop :=
  length x = n /\
  forall i, i < n ->
    add O (dltrow n Lp Li Lx Dg x i)
          (vsum i (fun j => mul O (lent Lp Li Lx i j) (dltrow n Lp Li Lx Dg x j)))
    = nth i b (zero O).

(** [Dg] is a list of pivots whose reciprocals are [Dinv] *)
Definition recip_of (n : nat) (Dg Dinv : list T) : Prop :=
  length Dinv = n /\ length Dg = n /\
  forall k, k < n -> mul O (nth k Dg (zero O)) (nth k Dinv (zero O)) = one O.

(** [p] lists 0..n-1 without repetition *)
Definition is_perm (n : nat) (p : list nat) : Prop :=
  length p = n /\ NoDup p /\ forall j, In j p -> j < n.

(** P b : (P b)[i] = b[p[i]] *)
Definition perm_vec (n : nat) (p : list nat) (b : list T) : list T :=
  map (fun i => nth (nth i p 0) b (zero O)) (seq 0 n).

End SolveSpec.

(** forward substitution: (I+L) y = b *)
Definition stmt_lsolve_correct : Prop :=
  forall (T : Type) (O : Ops T) n Lp Li Lx b,
    RingLaws O -> wf_L n Lp Li -> length b = n ->
    let y := lsolve O Lp Li Lx b in
    length y = n /\
    forall i, i < n ->
      add O (nth i y (zero O))
            (vsum O i (fun j => mul O (lent O Lp Li Lx i j) (nth j y (zero O))))
      = nth i b (zero O).

(** backward substitution with the diagonal: D (I+L)' x = y *)
Definition stmt_dltsolve_correct : Prop :=
  forall (T : Type) (O : Ops T) n Lp Li Lx Dinv Dg y,
    RingLaws O -> wf_L n Lp Li -> length y = n -> length Dinv = n -> length Dg = n ->
    (forall k, k < n -> mul O (nth k Dg (zero O)) (nth k Dinv (zero O)) = one O) ->
    let x := dltsolve O Lp Li Lx Dinv y in
    length x = n /\
    forall i, i < n ->
      mul O (nth i Dg (zero O))
            (add O (nth i x (zero O))
                   (vsum_range O (S i) n
                      (fun j => mul O (lent O Lp Li Lx j i) (nth j x (zero O)))))
      = nth i y (zero O).

(** composition: there is y with (I+L) y = b and D (I+L)' x = y, and the unfolded
    row-wise equation (I+L) D (I+L)' x = b *)
Definition stmt_solve_factors_correct : Prop :=
  forall (T : Type) (O : Ops T) n Lp Li Lx Dinv Dg b,
    RingLaws O -> wf_L n Lp Li -> length b = n -> recip_of O n Dg Dinv ->
    let x := solve_factors O Lp Li Lx Dinv b in
    (exists y, lsolve_spec O n Lp Li Lx b y /\ dltsolve_spec O n Lp Li Lx Dg y x) /\
    ldlt_spec O n Lp Li Lx Dg b x.

(** the solves never change the length (no hypotheses on the factor) *)
Definition stmt_solve_factors_length : Prop :=
  forall (T : Type) (O : Ops T) Lp Li Lx Dinv (b : list T),
    length (solve_factors O Lp Li Lx Dinv b) = length b.

(** the permutation wrapper: x = P' (solve_factors (P b)), pointwise *)
Definition stmt_solve_correct : Prop :=
  forall (T : Type) (O : Ops T) (F : @fact T) (b : list T) n,
    f_symbolic F = false -> length (f_D F) = n -> length b = n -> is_perm n (f_perm F) ->
    exists x, solve O F b = Ok x /\ length x = n /\
      forall i, i < n ->
        nth (nth i (f_perm F) 0) x (zero O)
        = nth i (solve_factors O (f_Lp F) (f_Li F) (f_Lx F) (f_Dinv F)
                   (perm_vec O n (f_perm F) b)) (zero O).

(** end to end: with z = solve_factors (P b), solve returns x with x[p[i]] = z[i] and
    (I+L) D (I+L)' z = P b *)
Definition stmt_solve_ldlt : Prop :=
  forall (T : Type) (O : Ops T) (F : @fact T) (Dg b : list T) n,
    RingLaws O ->
    f_symbolic F = false -> length (f_D F) = n -> length b = n -> is_perm n (f_perm F) ->
    wf_L n (f_Lp F) (f_Li F) -> recip_of O n Dg (f_Dinv F) ->
    exists x z, solve O F b = Ok x /\ length x = n /\
      (forall i, i < n -> nth (nth i (f_perm F) 0) x (zero O) = nth i z (zero O)) /\
      ldlt_spec O n (f_Lp F) (f_Li F) (f_Lx F) Dg (perm_vec O n (f_perm F) b) z.
