(** Operation histories on ONE QDLDLFactorisation object: the small state machine
    (object with its current permuted values, "the held factors are meaningful" flag).
    update_values / scale_values / offset_values change the values only (the held factors stay
    those of the last successful (re)factorisation and [solve] keeps using them); [refactor]
    either succeeds — new factors — or fails with an error and leaves NO meaningful factors: a
    later [solve] is unspecified until a refactor succeeds.  No proofs in this file. *)
From Coq Require Import List Arith ZArith Lia Bool.
Import ListNotations.
Require Import Clarabel.Base.Ops Clarabel.Qdldl.Model.

Section History.
Context {T : Type} (O : Ops T).

Inductive hop : Type :=
  | HUpdate (idx : list nat) (vals : list T)
  | HScale (idx : list nat) (s : T)
  | HOffset (idx : list nat) (off : T) (signs : list Z)
  | HRefactor
  | HSolve (b : list T).

Record hstate : Type := mkH { h_F : fact (T:=T); h_ok : bool }.

Inductive hout : Type :=
  | HoNone
  | HoRefactor (r : res unit)
  | HoSolve (x : res (list T))
  | HoStale        (* solve after a failed refactor: unspecified *)
  | HoPanic.       (* offset_values with |indices| <> |signs| *)

Definition h_step (st : hstate) (o : hop) : hstate * hout :=
  match o with
  | HUpdate idx vals => (mkH (update_values (h_F st) idx vals) (h_ok st), HoNone)
  | HScale idx s => (mkH (scale_values O (h_F st) idx s) (h_ok st), HoNone)
  | HOffset idx off signs =>
      match offset_values O (h_F st) idx off signs with
      | Ok F' => (mkH F' (h_ok st), HoNone)
      | Err _ => (st, HoPanic)
      end
  | HRefactor =>
      match refactor O (h_F st) with
      | Ok F' => (mkH F' true, HoRefactor (Ok tt))
      | Err e => (mkH (h_F st) false, HoRefactor (Err e))
      end
  | HSolve b => if h_ok st then (st, HoSolve (solve O (h_F st) b)) else (st, HoStale)
  end.

(** the same operation applied to the stored entries of the INPUT matrix *)
Definition hop_on_A (A : spm (T:=T)) (o : hop) : spm (T:=T) :=
  let setv v := mkSpm (sm A) (sn A) (colptr A) (rowval A) v in
  match o with
  | HUpdate idx vals => setv (fold_left (fun nz iv => upd nz (fst iv) (snd iv)) (combine idx vals) (nzval A))
  | HScale idx s => setv (fold_left (fun nz i => upd nz i (mul O (nth i nz (zero O)) s)) idx (nzval A))
  | HOffset idx off signs =>
      if length idx =? length signs then
        setv (fold_left (fun nz is_ =>
                           let i := fst is_ in
                           match Z.sgn (snd is_) with
                           | 1%Z => upd nz i (add O (nth i nz (zero O)) off)
                           | (-1)%Z => upd nz i (sub O (nth i nz (zero O)) off)
                           | _ => nz
                           end) (combine idx signs) (nzval A))
      else A
  | HRefactor | HSolve _ => A
  end.

Definition hop_in_range (n : nat) (o : hop) : Prop :=
  match o with
  | HUpdate idx _ | HScale idx _ | HOffset idx _ _ => forall i, In i idx -> i < n
  | _ => True
  end.
End History.
