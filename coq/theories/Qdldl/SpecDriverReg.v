(** The KKT-solver driver and static regularisation (statements only).

    Rust: DirectLDLKKTSolver::{_update_values, _scale_values, regularize_and_refactor} keep TWO
    copies of the KKT values: the unpermuted matrix K ([d_K]) and the permuted upper triangle
    inside the QDLDL object ([d_F]).  regularize_and_refactor writes the shifted diagonal into
    both, refactors, and puts the un-shifted diagonal back into K ONLY.  So between calls the two
    copies agree everywhere except (possibly) on the entries listed in [d_diag], and the next
    regularize_and_refactor overwrites every one of those entries in both copies.

    All statements hold for ANY [Ops T] / [FlOps T] (binary64 included): no arithmetic law is
    used, everything is an equation between executable terms. *)
From Coq Require Import List Arith ZArith QArith Lia Bool.
Import ListNotations.
Require Import Clarabel.Base.Ops Clarabel.Qdldl.Model Clarabel.Qdldl.ModelDriver Clarabel.Qdldl.Spec.
Local Open Scope nat_scope.

Section SpecDriverReg.
Context {T : Type} (O : Ops T).

(** same length, same entries outside the index list [diag] *)
Definition agree_off (diag : list nat) (v w : list T) : Prop :=
  length v = length w /\ forall i, ~ In i diag -> nth i v (zero O) = nth i w (zero O).

(** the batch [us] of point updates of INPUT entries, routed through the AtoPAPt map of [F] *)
Definition routed (F : fact (T:=T)) (us : list (nat * (T -> T))) : list (nat * (T -> T)) :=
  map (fun u => (amap F (fst u), snd u)) us.

(** The driver invariant, relative to the settings [S0] the current QDLDL object was built with:
    there are a well-formed matrix [K0], the object [F0 = qnew K0 S0] and a history [us] of
    in-range point updates such that
      - [d_K] has the structure of [K0] and its values agree with [us] applied to [K0]
        everywhere OFF the diagonal index list [d_diag] (nothing is said about those entries);
      - the backend copy [d_F] is exactly [F0] with [us] applied through the index map. *)
Definition InvD (S0 : settings (T:=T)) (st : dstate (T:=T)) : Prop :=
  exists (K0 : spm (T:=T)) (F0 : fact (T:=T)) (us : list (nat * (T -> T))),
    wf_csc K0 /\ qnew O K0 S0 = Ok F0 /\ (forall u, In u us -> fst u < nnz K0) /\
    sm (d_K st) = sm K0 /\ sn (d_K st) = sn K0 /\
    colptr (d_K st) = colptr K0 /\ rowval (d_K st) = rowval K0 /\
    agree_off (d_diag st) (nzval (d_K st)) (apply_updates O us (nzval K0)) /\
    d_F st = set_triu_vals F0 (apply_updates O (routed F0 us) (triu_vals F0)).

(** the settings QDLDLDirectLDLSolver::new passes to QDLDLFactorisation::new *)
Definition drv_settings (perm : list nat) (dsigns : list Z) (en : bool) (eps delta : T)
  : settings (T:=T) := mkSet perm true (Some dsigns) en eps delta.

(** what regularize_and_refactor computes from the KKT copy *)
Definition reg_diag_kkt (st : dstate (T:=T)) : list T :=
  map (fun idx => nth idx (nzval (d_K st)) (zero O)) (d_diag st).
End SpecDriverReg.

Section SpecDriverReg2.
Context {T : Type} (O : Ops T) (FL : FlOps T).
Definition reg_eps (st : dstate (T:=T)) (rc rp : T) : T :=
  compute_regularizer O FL (reg_diag_kkt O st) rc rp.
(** K with every [d_diag] entry shifted by +eps where dsigns = 1 and by -eps elsewhere *)
Definition reg_shifted_K (st : dstate (T:=T)) (rc rp : T) : spm (T:=T) :=
  kkt_update_vals (d_K st) (d_diag st)
                  (shift_diag O (reg_diag_kkt O st) (d_dsigns st) (reg_eps st rc rp)).
End SpecDriverReg2.

(** 1. a new driver object satisfies the invariant (K0 = K, empty history) *)
Definition stmt_drv_new_inv : Prop :=
  forall T (O : Ops T) (K : spm (T:=T)) dsigns diag perm en eps delta st,
    drv_new O K dsigns diag perm en eps delta = Ok st -> wf_csc K ->
    InvD O (drv_settings perm dsigns en eps delta) st /\
    d_K st = K /\ d_dsigns st = dsigns /\ d_diag st = diag.

(** 2. _update_values / _scale_values preserve it.  No disjointness from [d_diag] is needed for
    the scale call: [InvD] says nothing about the [d_diag] entries of K, and the backend copy
    follows the common history (the next regularize_and_refactor overwrites those entries). *)
Definition stmt_drv_update_inv : Prop :=
  forall T (O : Ops T) S0 (st : dstate (T:=T)) idx vals,
    InvD O S0 st -> (forall i, In i idx -> i < nnz (d_K st)) ->
    InvD O S0 (drv_update_values st idx vals).
Definition stmt_drv_scale_inv : Prop :=
  forall T (O : Ops T) S0 (st : dstate (T:=T)) idx s,
    InvD O S0 st -> (forall i, In i idx -> i < nnz (d_K st)) ->
    InvD O S0 (drv_scale_values O st idx s).

(** 3. regularize_and_refactor gives K back, as a record, whatever the index list, the signs
    and the outcome of the factorisation (so iterative refinement measures the residual against
    the UN-regularised K); the recorded regulariser is the computed one *)
Definition stmt_reg_restores_K_strong : Prop :=
  forall T (O : Ops T) (FL : FlOps T) (st : dstate (T:=T)) en rc rp,
    d_K (fst (regularize_and_refactor O FL st en rc rp)) = d_K st /\
    d_diag (fst (regularize_and_refactor O FL st en rc rp)) = d_diag st /\
    d_dsigns (fst (regularize_and_refactor O FL st en rc rp)) = d_dsigns st /\
    d_eps (fst (regularize_and_refactor O FL st en rc rp))
    = (if en then reg_eps O FL st rc rp else d_eps st).
(** the form asked for (the three hypotheses are not used) *)
Definition stmt_reg_restores_K : Prop :=
  forall T (O : Ops T) (FL : FlOps T) (st : dstate (T:=T)) en rc rp,
    NoDup (d_diag st) -> (forall i, In i (d_diag st) -> i < length (nzval (d_K st))) ->
    length (d_dsigns st) = length (d_diag st) ->
    d_K (fst (regularize_and_refactor O FL st en rc rp)) = d_K st /\
    (en = true ->
     d_eps (fst (regularize_and_refactor O FL st en rc rp))
     = compute_regularizer O FL (map (fun idx => nth idx (nzval (d_K st)) (zero O)) (d_diag st)) rc rp).

(** 4. with static regularisation on, the numeric refactorisation inside regularize_and_refactor
    IS a fresh numeric factorisation of the shifted K: as values of [res fact] *)
Definition stmt_reg_refactor_eq_qnew : Prop :=
  forall T (O : Ops T) (FL : FlOps T) S0 (st : dstate (T:=T)) rc rp,
    InvD O S0 st ->
    (forall i, In i (d_diag st) -> i < nnz (d_K st)) ->
    length (d_dsigns st) = length (d_diag st) ->
    refactor O (update_values (d_F st) (d_diag st)
                  (shift_diag O (reg_diag_kkt O st) (d_dsigns st) (reg_eps O FL st rc rp)))
    = qnew O (reg_shifted_K O FL st rc rp) (nonlogical S0).
(** hence, when that factorisation succeeds, the object held afterwards is its result, the
    reported flag is Dinv.is_finite(), and the invariant holds again for the settings
    [nonlogical S0] (K0 := shifted K, empty history).  [nonlogical (nonlogical S0)] is
    [nonlogical S0] by computation, so the statement chains over any number of calls. *)
Definition stmt_reg_refactor_is_fresh : Prop :=
  forall T (O : Ops T) (FL : FlOps T) S0 (st : dstate (T:=T)) rc rp F',
    InvD O S0 st ->
    (forall i, In i (d_diag st) -> i < nnz (d_K st)) ->
    length (d_dsigns st) = length (d_diag st) ->
    qnew O (reg_shifted_K O FL st rc rp) (nonlogical S0) = Ok F' ->
    regularize_and_refactor O FL st true rc rp
    = (mkDS (d_K st) F' (d_dsigns st) (d_diag st) (reg_eps O FL st rc rp),
       all_finite FL (f_Dinv F')) /\
    d_F (fst (regularize_and_refactor O FL st true rc rp)) = F' /\
    InvD O (nonlogical S0) (fst (regularize_and_refactor O FL st true rc rp)).
(** and when it fails, the call reports failure *)
Definition stmt_reg_refactor_failure : Prop :=
  forall T (O : Ops T) (FL : FlOps T) S0 (st : dstate (T:=T)) rc rp e,
    InvD O S0 st ->
    (forall i, In i (d_diag st) -> i < nnz (d_K st)) ->
    length (d_dsigns st) = length (d_diag st) ->
    qnew O (reg_shifted_K O FL st rc rp) (nonlogical S0) = Err e ->
    snd (regularize_and_refactor O FL st true rc rp) = false.
Definition stmt_nonlogical_idem : Prop :=
  forall T (S0 : settings (T:=T)), nonlogical (nonlogical S0) = nonlogical S0.

(** 5. non-vacuity: 3x3 quasidefinite upper triangle over Q, non-identity ordering,
    signs (+,+,-), eps = 1/2 *)
Definition dr_exK : spm (T:=Q) :=
  mkSpm 3 3 [0; 1; 2; 4] [0; 1; 0; 2] [2#1; 3#1; 1#1; (-4)#1]%Q.
Definition dr_exDiag : list nat := [0; 1; 3].
Definition dr_exSigns : list Z := [1; 1; -1]%Z.
Definition dr_exPerm : list nat := [1; 2; 0].
Definition dr_exNew : res (dstate (T:=Q)) :=
  drv_new OpsQ dr_exK dr_exSigns dr_exDiag dr_exPerm false 0%Q 0%Q.
Definition dr_exSt : dstate (T:=Q) :=
  match dr_exNew with Ok st => st | Err _ => mkDS dr_exK (mkF [] [] [] [] [] [] [] (mkW [] [] dr_exK [] [] false 0%Q 0%Q 0 0) true) [] [] 0%Q end.
Definition dr_exReg (en : bool) : dstate (T:=Q) * bool :=
  regularize_and_refactor OpsQ (FlField 0%Q) dr_exSt en (1#2)%Q 0%Q.
Definition stmt_dr_example : Prop :=
  wf_csc dr_exK /\
  (exists st, dr_exNew = Ok st) /\
  (forall i, In i (d_diag dr_exSt) -> i < nnz (d_K dr_exSt)) /\
  length (d_dsigns dr_exSt) = length (d_diag dr_exSt) /\
  (* static regularisation on: K is restored, the factorisation is the one of the shifted K *)
  snd (dr_exReg true) = true /\
  nzval (d_K (fst (dr_exReg true))) = nzval dr_exK /\
  map Qred (nzval (reg_shifted_K OpsQ (FlField 0%Q) dr_exSt (1#2)%Q 0%Q))
  = [5#2; 7#2; 1#1; (-9)#2]%Q /\
  map Qred (triu_vals (d_F (fst (dr_exReg true)))) <> map Qred (triu_vals (d_F (fst (dr_exReg false)))) /\
  map Qred (f_D (d_F (fst (dr_exReg true)))) <> map Qred (f_D (d_F (fst (dr_exReg false)))) /\
  qnew OpsQ (reg_shifted_K OpsQ (FlField 0%Q) dr_exSt (1#2)%Q 0%Q)
       (nonlogical (drv_settings dr_exPerm dr_exSigns false 0%Q 0%Q))
  = Ok (d_F (fst (dr_exReg true))).
