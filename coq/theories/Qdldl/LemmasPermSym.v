(** Proofs of the statements in SpecPermSym.v. *)
From Coq Require Import List Arith ZArith Lia Bool Permutation.
Import ListNotations.
Require Import Clarabel.Base.Ops Clarabel.Qdldl.Model Clarabel.Qdldl.SpecPermSym.

(** * [upd] *)
Lemma ps_upd_length {X} (l : list X) i v : length (upd l i v) = length l.
Proof.
  revert i; induction l as [|x r IH]; intros i; [reflexivity|].
  destruct i as [|i]; simpl; [reflexivity|]. now rewrite IH.
Qed.
Lemma ps_nth_upd_eq {X} (l : list X) i v d : i < length l -> nth i (upd l i v) d = v.
Proof.
  revert i; induction l as [|x r IH]; intros i Hi; simpl in Hi; [lia|].
  destruct i as [|i]; simpl; [reflexivity|]. apply IH; lia.
Qed.
Lemma ps_nth_upd_neq {X} (l : list X) i j v d : i <> j -> nth j (upd l i v) d = nth j l d.
Proof.
  revert i j; induction l as [|x r IH]; intros i j Hij; [reflexivity|].
  destruct i as [|i]; destruct j as [|j]; simpl; try reflexivity; try lia.
  apply IH; lia.
Qed.
Lemma ps_upd_oob {X} (l : list X) i v : length l <= i -> upd l i v = l.
Proof.
  revert i; induction l as [|x r IH]; intros i Hi; [reflexivity|].
  simpl in Hi. destruct i as [|i]; [lia|]. simpl. rewrite IH; [reflexivity|lia].
Qed.

Lemma ps_nth_firstn {X} (l : list X) n i d : i < n -> nth i (firstn n l) d = nth i l d.
Proof.
  revert n i; induction l as [|x r IH]; intros n i Hi.
  - rewrite firstn_nil. reflexivity.
  - destruct n as [|n]; [lia|]. destruct i as [|i]; simpl; [reflexivity|]. apply IH; lia.
Qed.

Lemma ps_mono_steps (f : nat -> nat) n :
  (forall j, j < n -> f j <= f (S j)) -> forall i j, i <= j -> j <= n -> f i <= f j.
Proof.
  intros Hstep i j Hij. induction Hij as [|j Hij IH]; intros Hj; [lia|].
  specialize (Hstep j). lia.
Qed.

(** * list_sum and cumsum *)
Lemma ps_list_sum_upd (l : list nat) c v :
  c < length l -> list_sum (upd l c v) + nth c l 0 = list_sum l + v.
Proof.
  revert c; induction l as [|x r IH]; intros c Hc; simpl in Hc; [lia|].
  destruct c as [|c]; simpl; [lia|]. specialize (IH c). lia.
Qed.

Lemma ps_list_sum_repeat0 n : list_sum (repeat 0 n) = 0.
Proof. induction n as [|n IH]; simpl; auto. Qed.

Lemma ps_cumsum_from_length a l : length (cumsum_from a l) = length l.
Proof. revert a; induction l as [|x r IH]; intros a; simpl; [reflexivity|]. now rewrite IH. Qed.

Lemma ps_cumsum_from_nth l : forall a i, i < length l ->
  nth i (cumsum_from a l) 0 = a + list_sum (firstn (S i) l).
Proof.
  induction l as [|x r IH]; intros a i Hi; simpl in Hi; [lia|].
  destruct i as [|i].
  - simpl. destruct r; simpl; lia.
  - cbn [cumsum_from nth]. rewrite IH by lia.
    change (firstn (S (S i)) (x :: r)) with (x :: firstn (S i) r).
    remember (firstn (S i) r) as fr. simpl. lia.
Qed.

Lemma ps_cumsum0_nth l i : i <= length l -> nth i (cumsum0 l) 0 = list_sum (firstn i l).
Proof.
  intros Hi. unfold cumsum0. destruct i as [|i]; [reflexivity|].
  cbn [nth]. rewrite ps_cumsum_from_nth by lia. lia.
Qed.

Lemma ps_list_sum_firstn_S (l : list nat) : forall i, i < length l ->
  list_sum (firstn (S i) l) = list_sum (firstn i l) + nth i l 0.
Proof.
  induction l as [|x r IH]; intros i Hi; simpl in Hi; [lia|].
  destruct i as [|i].
  - simpl. lia.
  - specialize (IH i ltac:(lia)).
    change (firstn (S (S i)) (x :: r)) with (x :: firstn (S i) r).
    change (firstn (S i) (x :: r)) with (x :: firstn i r).
    change (nth (S i) (x :: r) 0) with (nth i r 0).
    remember (firstn (S i) r) as fr. remember (firstn i r) as fr'. simpl. lia.
Qed.

(** * A. abstract counting sort *)
Definition cs_step (cnt : list nat) (c : nat) : list nat := upd cnt c (S (nth c cnt 0)).

Lemma ps_count_fold cs : forall cnt,
  (forall c, In c cs -> c < length cnt) ->
  length (fold_left cs_step cs cnt) = length cnt /\
  (forall c, nth c (fold_left cs_step cs cnt) 0 = nth c cnt 0 + count_occ Nat.eq_dec cs c) /\
  list_sum (fold_left cs_step cs cnt) = list_sum cnt + length cs.
Proof.
  induction cs as [|x r IH]; intros cnt Hin.
  - simpl. repeat split; intros; lia.
  - cbn [fold_left].
    assert (Hx : x < length cnt) by (apply Hin; now left).
    assert (Hlen : length (cs_step cnt x) = length cnt) by (unfold cs_step; apply ps_upd_length).
    destruct (IH (cs_step cnt x)) as (IH1 & IH2 & IH3).
    { intros c Hc. rewrite Hlen. apply Hin. now right. }
    split; [lia|]. split.
    + intros c. rewrite IH2. unfold cs_step. simpl count_occ.
      destruct (Nat.eq_dec x c) as [E|E].
      * subst c. rewrite ps_nth_upd_eq by assumption. lia.
      * rewrite ps_nth_upd_neq by assumption. lia.
    + rewrite IH3. unfold cs_step.
      pose proof (ps_list_sum_upd cnt x (S (nth x cnt 0)) Hx) as Hs. simpl length. lia.
Qed.

Lemma ps_cs_count_facts n cs : (forall c, In c cs -> c < n) ->
  length (cs_count n cs) = n /\
  (forall c, nth c (cs_count n cs) 0 = count_occ Nat.eq_dec cs c) /\
  list_sum (cs_count n cs) = length cs.
Proof.
  intros Hin. unfold cs_count.
  destruct (ps_count_fold cs (repeat 0 n)) as (H1 & H2 & H3).
  { intros c Hc. rewrite repeat_length. now apply Hin. }
  rewrite repeat_length in H1. split; [exact H1|]. split.
  - intros c. change (fun cnt c0 => upd cnt c0 (S (nth c0 cnt 0))) with cs_step. rewrite H2.
    assert (Hz : nth c (repeat 0 n) 0 = 0).
    { destruct (Nat.lt_ge_cases c n) as [L|L].
      - apply nth_repeat.
      - apply nth_overflow. rewrite repeat_length. lia. }
    lia.
  - change (fun cnt c0 => upd cnt c0 (S (nth c0 cnt 0))) with cs_step. rewrite H3.
    pose proof (ps_list_sum_repeat0 n) as Hz.
    lia.
Qed.

Lemma cs_count_ok : stmt_cs_count.
Proof.
  intros n cs Hin. destruct (ps_cs_count_facts n cs Hin) as (H1 & H2 & _). now split.
Qed.

Lemma cs_ptr_ok : stmt_cs_ptr.
Proof.
  intros n cs Hin. destruct (ps_cs_count_facts n cs Hin) as (H1 & H2 & H3).
  unfold cs_ptr.
  assert (Hstep : forall c, c < n ->
            nth (S c) (cumsum0 (cs_count n cs)) 0
            = nth c (cumsum0 (cs_count n cs)) 0 + count_occ Nat.eq_dec cs c).
  { intros c Hc. rewrite !ps_cumsum0_nth by lia.
    rewrite ps_list_sum_firstn_S by lia. now rewrite H2. }
  split. { unfold cumsum0. simpl. rewrite ps_cumsum_from_length. now rewrite H1. }
  split. { reflexivity. }
  split. { exact Hstep. }
  split.
  { apply (ps_mono_steps (fun j => nth j (cumsum0 (cs_count n cs)) 0) n).
    intros j Hj. rewrite Hstep by assumption. lia. }
  rewrite ps_cumsum0_nth by lia. rewrite <- H1 at 1. now rewrite firstn_all.
Qed.

Lemma ps_scan_length cs : forall starts, length (cs_scan starts cs) = length cs.
Proof. induction cs as [|c r IH]; intros starts; simpl; [reflexivity|]. now rewrite IH. Qed.

Lemma ps_scan_nth cs : forall starts i,
  (forall c, In c cs -> c < length starts) -> i < length cs ->
  nth i (cs_scan starts cs) 0
  = nth (nth i cs 0) starts 0 + count_occ Nat.eq_dec (firstn i cs) (nth i cs 0).
Proof.
  induction cs as [|c r IH]; intros starts i Hin Hi; simpl in Hi; [lia|].
  assert (Hc : c < length starts) by (apply Hin; now left).
  destruct i as [|i].
  - simpl. lia.
  - cbn [cs_scan nth firstn]. rewrite IH.
    + simpl count_occ. destruct (Nat.eq_dec c (nth i r 0)) as [E|E].
      * rewrite <- E. rewrite ps_nth_upd_eq by assumption. lia.
      * rewrite ps_nth_upd_neq by assumption. lia.
    + intros c' Hc'. rewrite ps_upd_length. apply Hin. now right.
    + lia.
Qed.

Lemma ps_count_prefix_lt cs : forall i, i < length cs ->
  count_occ Nat.eq_dec (firstn i cs) (nth i cs 0) < count_occ Nat.eq_dec cs (nth i cs 0).
Proof.
  induction cs as [|c r IH]; intros i Hi; simpl in Hi; [lia|].
  destruct i as [|i].
  - simpl. destruct (Nat.eq_dec c c); [lia|contradiction].
  - cbn [firstn nth]. simpl count_occ. specialize (IH i).
    destruct (Nat.eq_dec c (nth i r 0)); lia.
Qed.

Lemma ps_count_prefix_lt2 cs i j : i < j -> j <= length cs ->
  count_occ Nat.eq_dec (firstn i cs) (nth i cs 0) < count_occ Nat.eq_dec (firstn j cs) (nth i cs 0).
Proof.
  intros Hij Hj.
  pose proof (ps_count_prefix_lt (firstn j cs) i) as H.
  rewrite firstn_length in H. rewrite firstn_firstn in H.
  rewrite ps_nth_firstn in H by lia.
  replace (Nat.min i j) with i in H by lia. apply H. lia.
Qed.

Lemma ps_cs_pos_nth n cs i : (forall c, In c cs -> c < n) -> i < length cs ->
  nth i (cs_pos n cs) 0
  = nth (nth i cs 0) (cs_ptr n cs) 0 + count_occ Nat.eq_dec (firstn i cs) (nth i cs 0).
Proof.
  intros Hin Hi. destruct (cs_ptr_ok n cs Hin) as (Hl & _).
  assert (Hci : nth i cs 0 < n) by (apply Hin; now apply nth_In).
  unfold cs_pos. rewrite ps_scan_nth.
  - rewrite ps_nth_firstn by assumption. reflexivity.
  - intros c Hc. rewrite firstn_length, Hl. specialize (Hin c Hc). lia.
  - assumption.
Qed.

Lemma cs_pos_ok : stmt_cs_pos.
Proof.
  intros n cs Hin. split; [apply ps_scan_length|].
  intros i Hi c.
  destruct (cs_ptr_ok n cs Hin) as (Hl & H0 & Hstep & Hmono & Hn).
  assert (Hci : c < n) by (apply Hin; now apply nth_In).
  pose proof (ps_cs_pos_nth n cs i Hin Hi) as Hp. fold c in Hp.
  pose proof (ps_count_prefix_lt cs i Hi) as Hlt. fold c in Hlt.
  pose proof (Hstep c Hci) as Hs.
  pose proof (Hmono (S c) n ltac:(lia) ltac:(lia)) as Hm.
  repeat split; lia.
Qed.

Lemma ps_cs_pos_inj n cs i j : (forall c, In c cs -> c < n) ->
  i < j -> j < length cs -> nth i (cs_pos n cs) 0 <> nth j (cs_pos n cs) 0.
Proof.
  intros Hin Hij Hj.
  destruct (cs_ptr_ok n cs Hin) as (Hl & H0 & Hstep & Hmono & Hn).
  destruct (cs_pos_ok n cs Hin) as (_ & Hpos).
  destruct (Hpos i ltac:(lia)) as (Ei & Li & Ui & _).
  destruct (Hpos j Hj) as (Ej & Lj & Uj & _).
  cbv zeta in *.
  assert (Hci : nth i cs 0 < n) by (apply Hin; apply nth_In; lia).
  assert (Hcj : nth j cs 0 < n) by (apply Hin; apply nth_In; lia).
  destruct (Nat.lt_total (nth i cs 0) (nth j cs 0)) as [L|[E|L]].
  - pose proof (Hmono (S (nth i cs 0)) (nth j cs 0) ltac:(lia) ltac:(lia)). lia.
  - pose proof (ps_count_prefix_lt2 cs i j Hij ltac:(lia)) as Hc. rewrite E in *. lia.
  - pose proof (Hmono (S (nth j cs 0)) (nth i cs 0) ltac:(lia) ltac:(lia)). lia.
Qed.

Lemma ps_NoDup_full (l : list nat) m :
  NoDup l -> length l = m -> (forall x, In x l -> x < m) -> forall q, q < m -> In q l.
Proof.
  intros Hnd Hlen Hlt q Hq.
  assert (Hincl : incl (seq 0 m) l).
  { apply NoDup_length_incl; [assumption|rewrite seq_length; lia|].
    intros x Hx. apply in_seq. specialize (Hlt x Hx). lia. }
  apply Hincl. apply in_seq. lia.
Qed.

Lemma cs_pos_perm_ok : stmt_cs_pos_perm.
Proof.
  intros n cs Hin.
  destruct (cs_pos_ok n cs Hin) as (Hlen & Hpos).
  assert (Hnd : NoDup (cs_pos n cs)).
  { apply (NoDup_nth (cs_pos n cs) 0). intros i j Hi Hj E. rewrite Hlen in Hi, Hj.
    destruct (Nat.lt_total i j) as [L|[L|L]]; [|assumption|].
    - exfalso. now apply (ps_cs_pos_inj n cs i j Hin L Hj).
    - exfalso. symmetry in E. now apply (ps_cs_pos_inj n cs j i Hin L Hi). }
  assert (Hlt : forall x, In x (cs_pos n cs) -> x < length cs).
  { intros x Hx. destruct (In_nth _ _ 0 Hx) as (i & Hi & Ei). rewrite Hlen in Hi.
    destruct (Hpos i Hi) as (_ & _ & U1 & U2). cbv zeta in *. lia. }
  split; [assumption|].
  apply NoDup_Permutation; [assumption|apply seq_NoDup|].
  intros x. split.
  - intros Hx. apply in_seq. specialize (Hlt x Hx). lia.
  - intros Hx. apply in_seq in Hx. apply (ps_NoDup_full _ (length cs)); auto. lia.
Qed.

(** * scatter: a sequence of writes l[k] := v *)
Definition ps_scatter {X} (l : list X) (kvs : list (nat * X)) : list X :=
  fold_left (fun l kv => upd l (fst kv) (snd kv)) kvs l.

Lemma ps_scatter_length {X} kvs : forall (l : list X), length (ps_scatter l kvs) = length l.
Proof.
  induction kvs as [|kv r IH]; intros l; [reflexivity|].
  unfold ps_scatter in *. cbn [fold_left]. rewrite IH. apply ps_upd_length.
Qed.

Lemma ps_scatter_notin {X} keys : forall (vals : list X) l q d,
  ~ In q keys -> nth q (ps_scatter l (combine keys vals)) d = nth q l d.
Proof.
  induction keys as [|k ks IH]; intros vals l q d Hq; [reflexivity|].
  destruct vals as [|v vs]; [reflexivity|].
  change (ps_scatter l (combine (k :: ks) (v :: vs))) with (ps_scatter (upd l k v) (combine ks vs)).
  rewrite IH.
  - apply ps_nth_upd_neq. intro E. apply Hq. now left.
  - intro I. apply Hq. now right.
Qed.

Lemma ps_scatter_in {X} keys : forall (vals : list X) l i d,
  NoDup keys -> length keys = length vals -> (forall k, In k keys -> k < length l) ->
  i < length keys ->
  nth (nth i keys 0) (ps_scatter l (combine keys vals)) d = nth i vals d.
Proof.
  induction keys as [|k ks IH]; intros vals l i d Hnd Hlen Hlt Hi; simpl in Hi; [lia|].
  destruct vals as [|v vs]; simpl in Hlen; [lia|].
  inversion Hnd as [|k0 ks0 Hnotin Hnd' E0]; subst.
  change (ps_scatter l (combine (k :: ks) (v :: vs))) with (ps_scatter (upd l k v) (combine ks vs)).
  destruct i as [|i]; cbn [nth].
  - rewrite ps_scatter_notin by assumption. apply ps_nth_upd_eq. apply Hlt. now left.
  - apply IH; auto; try lia. intros k' Hk'. rewrite ps_upd_length. apply Hlt. now right.
Qed.

Lemma ps_scatter_upd {X} keys (vals : list X) l k v :
  NoDup keys -> length keys = length vals -> (forall q, In q keys -> q < length l) ->
  k < length keys ->
  ps_scatter l (combine keys (upd vals k v))
  = upd (ps_scatter l (combine keys vals)) (nth k keys 0) v.
Proof.
  intros Hnd Hlen Hlt Hk.
  assert (Hlen' : length keys = length (upd vals k v)) by (now rewrite ps_upd_length).
  apply nth_ext with (d := v) (d' := v).
  { now rewrite ps_upd_length, !ps_scatter_length. }
  intros q Hq. rewrite ps_scatter_length in Hq.
  destruct (Nat.eq_dec q (nth k keys 0)) as [E|E].
  - subst q. rewrite ps_scatter_in by assumption.
    rewrite ps_nth_upd_eq by lia. rewrite ps_nth_upd_eq; [reflexivity|].
    now rewrite ps_scatter_length.
  - rewrite (ps_nth_upd_neq _ (nth k keys 0) q) by auto.
    destruct (in_dec Nat.eq_dec q keys) as [I|I].
    + destruct (In_nth _ _ 0 I) as (i & Hi & Ei). rewrite <- Ei.
      rewrite !ps_scatter_in by assumption.
      apply ps_nth_upd_neq. intro Eki. subst i. now apply E.
    + now rewrite !ps_scatter_notin by assumption.
Qed.

Lemma ps_nth_map {X Y} (f : X -> Y) l i d d' :
  i < length l -> nth i (map f l) d = f (nth i l d').
Proof.
  intros Hi. rewrite nth_indep with (d' := f d') by (now rewrite map_length). apply map_nth.
Qed.

Lemma ps_map_nth_seq {X} (l : list X) d : map (fun i => nth i l d) (seq 0 (length l)) = l.
Proof.
  apply nth_ext with (d := d) (d' := d).
  { now rewrite map_length, seq_length. }
  intros i Hi. rewrite map_length, seq_length in Hi.
  rewrite (ps_nth_map _ _ _ _ 0) by (now rewrite seq_length).
  now rewrite seq_nth.
Qed.

Lemma ps_scatter_seq (ps : list nat) :
  ps_scatter (repeat 0 (length ps)) (combine (seq 0 (length ps)) ps) = ps.
Proof.
  apply nth_ext with (d := 0) (d' := 0).
  { now rewrite ps_scatter_length, repeat_length. }
  intros i Hi. rewrite ps_scatter_length, repeat_length in Hi.
  assert (H : nth (nth i (seq 0 (length ps)) 0)
                (ps_scatter (repeat 0 (length ps)) (combine (seq 0 (length ps)) ps)) 0
              = nth i ps 0).
  { apply ps_scatter_in.
    - apply seq_NoDup.
    - apply seq_length.
    - intros k Hk. apply in_seq in Hk. rewrite repeat_length. lia.
    - now rewrite seq_length. }
  rewrite seq_nth in H by assumption. exact H.
Qed.

Lemma ps_fold_left_map {X Y Z} (f : Z -> Y -> Z) (g : X -> Y) l : forall a,
  fold_left f (map g l) a = fold_left (fun a x => f a (g x)) l a.
Proof. induction l as [|x r IH]; intros a; simpl; [reflexivity|]. apply IH. Qed.

(** * the placement fold in closed form *)
Lemma ps_place_fold {T} (O : Ops T) (A : spm (T:=T)) iperm ts : forall s,
  let ps := cs_scan (ps_starts s) (map (task_col A iperm) ts) in
  let s' := fold_left (place_step O A iperm) ts s in
  ps_Pr s' = ps_scatter (ps_Pr s) (combine ps (map (task_row A iperm) ts)) /\
  ps_Pv s' = ps_scatter (ps_Pv s)
               (combine ps (map (fun t => nth (fst t) (nzval A) (zero O)) ts)) /\
  ps_map s' = ps_scatter (ps_map s) (combine (map fst ts) ps).
Proof.
  induction ts as [|t r IH]; intros s; cbv zeta.
  - repeat split; reflexivity.
  - cbn [fold_left map cs_scan combine].
    destruct (IH (place_step O A iperm s t)) as (H1 & H2 & H3). cbv zeta in H1, H2, H3.
    rewrite H1, H2, H3. unfold place_step. cbn [ps_Pr ps_Pv ps_map ps_starts].
    repeat split; reflexivity.
Qed.

Lemma ps_permute_symmetric_unfold {T} (O : Ops T) (A : spm (T:=T)) iperm :
  let ts := triu_tasks A in
  let cs := map (task_col A iperm) ts in
  let ps := cs_pos (sm A) cs in
  permute_symmetric O A iperm
  = (mkSpm (sn A) (sn A) (cs_ptr (sm A) cs)
       (ps_scatter (repeat 0 (nnz A)) (combine ps (map (task_row A iperm) ts)))
       (ps_scatter (repeat (zero O) (nnz A))
          (combine ps (map (fun t => nth (fst t) (nzval A) (zero O)) ts))),
     ps_scatter (repeat 0 (nnz A)) (combine (map fst ts) ps)).
Proof.
  cbv zeta. unfold permute_symmetric.
  assert (Hc : count_entries A iperm = cs_count (sm A) (map (task_col A iperm) (triu_tasks A))).
  { unfold count_entries, cs_count. now rewrite ps_fold_left_map. }
  rewrite Hc.
  match goal with |- context [fold_left (place_step O A iperm) ?ts ?s0] =>
    destruct (ps_place_fold O A iperm ts s0) as (H1 & H2 & H3) end.
  cbv zeta in H1, H2, H3. cbn [ps_Pr ps_Pv ps_map ps_starts] in H1, H2, H3.
  rewrite H1, H2, H3. reflexivity.
Qed.

(** * the task list under wf_csc + upper_tri *)
Lemma ps_filter_all {X} (f : X -> bool) l : (forall x, In x l -> f x = true) -> filter f l = l.
Proof.
  induction l as [|x r IH]; intros H; [reflexivity|].
  simpl. rewrite (H x) by (now left). rewrite IH; [reflexivity|].
  intros y Hy. apply H. now right.
Qed.

Lemma ps_flat_map_ext_in {X Y} (f g : X -> list Y) l :
  (forall x, In x l -> f x = g x) -> flat_map f l = flat_map g l.
Proof.
  induction l as [|x r IH]; intros H; [reflexivity|].
  simpl. rewrite (H x) by (now left). rewrite IH; [reflexivity|].
  intros y Hy. apply H. now right.
Qed.

Lemma ps_map_fst_flat_map (h : nat -> list nat) l :
  map fst (flat_map (fun c => map (fun idx => (idx, c)) (h c)) l) = flat_map h l.
Proof.
  induction l as [|x r IH]; [reflexivity|].
  simpl. rewrite map_app, IH, map_map. cbn [fst]. now rewrite map_id.
Qed.

Lemma ps_flat_col_range cp m :
  (forall j, j < m -> nth j cp 0 <= nth (S j) cp 0) ->
  flat_map (col_range cp) (seq 0 m) = seq (nth 0 cp 0) (nth m cp 0 - nth 0 cp 0).
Proof.
  induction m as [|m IH]; intros Hstep.
  - simpl. now rewrite Nat.sub_diag.
  - rewrite seq_S, flat_map_app. cbn [plus flat_map]. rewrite app_nil_r.
    rewrite IH by (intros j Hj; apply Hstep; lia).
    unfold col_range.
    pose proof (ps_mono_steps (fun j => nth j cp 0) m
                  (fun j Hj => Hstep j (Nat.lt_lt_succ_r _ _ Hj)) 0 m (Nat.le_0_l _) (le_n _)) as H0m.
    pose proof (Hstep m (Nat.lt_succ_diag_r m)) as Hm. cbv beta in H0m.
    set (a := nth 0 cp 0) in *. set (b := nth m cp 0) in *. set (c := nth (S m) cp 0) in *.
    replace (c - a) with ((b - a) + (c - b)) by lia.
    rewrite seq_app. replace (a + (b - a)) with b by lia. reflexivity.
Qed.

Lemma ps_colptr_mono {T} (A : spm (T:=T)) : wf_csc A ->
  forall i j, i <= j -> j <= sn A -> nth i (colptr A) 0 <= nth j (colptr A) 0.
Proof.
  intros (_ & _ & Hstep & _) i j Hij Hj.
  now apply (ps_mono_steps (fun j => nth j (colptr A) 0) (sn A) Hstep).
Qed.

Lemma ps_col_of_lt {T} (A : spm (T:=T)) k c : wf_csc A -> col_of A k c -> k < nnz A.
Proof.
  intros Hwf (Hc & Hk). pose proof (ps_colptr_mono A Hwf (S c) (sn A) ltac:(lia) ltac:(lia)) as Hm.
  destruct Hwf as (_ & _ & _ & Hn & Hl & _). unfold nnz. lia.
Qed.

Lemma ps_col_of_unique {T} (A : spm (T:=T)) k c c' :
  wf_csc A -> col_of A k c -> col_of A k c' -> c = c'.
Proof.
  intros Hwf (Hc & Hk) (Hc' & Hk').
  destruct (Nat.lt_total c c') as [L|[E|L]]; [|assumption|].
  - pose proof (ps_colptr_mono A Hwf (S c) c' ltac:(lia) ltac:(lia)). lia.
  - pose proof (ps_colptr_mono A Hwf (S c') c ltac:(lia) ltac:(lia)). lia.
Qed.

Lemma ps_tasks_simpl {T} (A : spm (T:=T)) :
  sm A = sn A -> upper_tri_ps A ->
  triu_tasks A
  = flat_map (fun c => map (fun idx => (idx, c)) (col_range (colptr A) c)) (seq 0 (sn A)).
Proof.
  intros Hsq Hut. unfold triu_tasks. rewrite Hsq.
  apply ps_flat_map_ext_in. intros c Hc. apply in_seq in Hc.
  rewrite ps_filter_all; [reflexivity|].
  intros idx Hidx. unfold col_range in Hidx. apply in_seq in Hidx.
  apply Nat.leb_le. apply Hut; lia.
Qed.

Lemma triu_tasks_all_ok : stmt_triu_tasks_all.
Proof.
  intros T A Hwf Hsq Hut.
  pose proof (ps_tasks_simpl A Hsq Hut) as Hts.
  assert (Hfst : map fst (triu_tasks A) = seq 0 (nnz A)).
  { rewrite Hts, ps_map_fst_flat_map.
    destruct Hwf as (_ & H0 & Hstep & Hn & Hl & _).
    rewrite ps_flat_col_range by assumption. rewrite H0, Hn, Nat.sub_0_r. unfold nnz. now rewrite Hl. }
  assert (Hcol : forall k c, In (k, c) (triu_tasks A) -> col_of A k c).
  { intros k c Hin. rewrite Hts in Hin. apply in_flat_map in Hin.
    destruct Hin as (c' & Hc' & Hin). apply in_map_iff in Hin.
    destruct Hin as (idx & E & Hidx). inversion E; subst. apply in_seq in Hc'.
    unfold col_range in Hidx. apply in_seq in Hidx. unfold col_of. lia. }
  split; [exact Hfst|]. split; [exact Hcol|].
  intros k c Hk Hkc.
  assert (Hlen : length (triu_tasks A) = nnz A).
  { rewrite <- (map_length fst), Hfst. apply seq_length. }
  pose proof (nth_In (triu_tasks A) (0, 0) ltac:(rewrite Hlen; exact Hk)) as Hin.
  pose proof (map_nth fst (triu_tasks A) (0, 0) k) as Hf.
  rewrite Hfst in Hf. cbn [fst] in Hf. rewrite seq_nth in Hf by assumption.
  destruct (nth k (triu_tasks A) (0, 0)) as (k', c'). cbn [fst] in Hf. subst k'.
  f_equal. apply (ps_col_of_unique A k c' c Hwf); [now apply Hcol|assumption].
Qed.

Lemma ps_permute_symmetric_eq {T} (O : Ops T) (A : spm (T:=T)) iperm :
  wf_csc A -> sm A = sn A -> upper_tri_ps A ->
  let ts := triu_tasks A in
  let cs := map (task_col A iperm) ts in
  let ps := cs_pos (sn A) cs in
  permute_symmetric O A iperm
  = (mkSpm (sn A) (sn A) (cs_ptr (sn A) cs)
       (ps_scatter (repeat 0 (nnz A)) (combine ps (map (task_row A iperm) ts)))
       (ps_scatter (repeat (zero O) (nnz A)) (combine ps (nzval A))),
     ps).
Proof.
  intros Hwf Hsq Hut. cbv zeta.
  destruct (triu_tasks_all_ok T A Hwf Hsq Hut) as (Hfst & _ & _).
  rewrite ps_permute_symmetric_unfold. cbv zeta. rewrite Hsq.
  assert (Hlen : length (triu_tasks A) = nnz A).
  { rewrite <- (map_length fst), Hfst. apply seq_length. }
  assert (Hv : map (fun t => nth (fst t) (nzval A) (zero O)) (triu_tasks A) = nzval A).
  { rewrite <- (map_map fst (fun i => nth i (nzval A) (zero O))). rewrite Hfst.
    apply ps_map_nth_seq. }
  rewrite Hv, Hfst.
  assert (Hpl : length (cs_pos (sn A) (map (task_col A iperm) (triu_tasks A))) = nnz A).
  { unfold cs_pos. now rewrite ps_scan_length, map_length. }
  rewrite <- Hpl at 3 4. rewrite ps_scatter_seq. reflexivity.
Qed.

Lemma permute_symmetric_amap_ok : stmt_permute_symmetric_amap.
Proof.
  intros T O A iperm Hwf Hsq Hut.
  pose proof (ps_permute_symmetric_eq O A iperm Hwf Hsq Hut) as Heq. cbv zeta in Heq.
  now rewrite Heq.
Qed.

(** * B. main specification *)
Lemma permute_symmetric_spec_ok : stmt_permute_symmetric_spec.
Proof.
  intros T O A iperm Hwf Hsq Hut Hlen Hip.
  destruct (triu_tasks_all_ok T A Hwf Hsq Hut) as (Hfst & Hcol & Hnth).
  pose proof (ps_permute_symmetric_eq O A iperm Hwf Hsq Hut) as Heq. cbv zeta in Heq.
  cbv zeta. rewrite Heq. cbn [fst snd]. clear Heq.
  set (ts := triu_tasks A) in *. set (n := sn A) in *.
  set (cs := map (task_col A iperm) ts) in *.
  set (ps := cs_pos n cs) in *.
  assert (Hlts : length ts = nnz A).
  { rewrite <- (map_length fst), Hfst. apply seq_length. }
  assert (Hlcs : length cs = nnz A) by (unfold cs; now rewrite map_length).
  assert (Hrow : forall k c, col_of A k c -> nth k (rowval A) 0 < n).
  { intros k c Hkc. pose proof (ps_col_of_lt A k c Hwf Hkc) as Hk.
    destruct Hwf as (_ & _ & _ & _ & Hl & Hr). rewrite <- Hsq. apply Hr. unfold nnz in Hk. lia. }
  assert (Htask : forall i, i < nnz A -> exists c, nth i ts (0, 0) = (i, c) /\ col_of A i c).
  { intros i Hi.
    pose proof (nth_In ts (0, 0) ltac:(rewrite Hlts; exact Hi)) as Hin.
    pose proof (map_nth fst ts (0, 0) i) as Hf.
    rewrite Hfst in Hf. cbn [fst] in Hf. rewrite seq_nth in Hf by assumption.
    destruct (nth i ts (0, 0)) as (k', c'). cbn [fst] in Hf. subst k'.
    exists c'. split; [reflexivity|]. now apply Hcol. }
  assert (Hkey : forall k c, col_of A k c ->
             task_col A iperm (k, c) < n /\ task_row A iperm (k, c) < n /\
             task_row A iperm (k, c) <= task_col A iperm (k, c)).
  { intros k c Hkc. pose proof (Hrow k c Hkc) as Hr. destruct Hkc as (Hc & _).
    unfold task_col, task_row. cbn [fst snd].
    pose proof (Hip _ Hr). pose proof (Hip _ Hc). lia. }
  assert (Hin : forall c, In c cs -> c < n).
  { intros c Hc. unfold cs in Hc. apply in_map_iff in Hc. destruct Hc as ((k, c0) & E & Ht).
    subst c. apply Hkey. now apply Hcol. }
  destruct (cs_ptr_ok n cs Hin) as (Hl & H0 & Hstep & Hmono & Hn).
  destruct (cs_pos_ok n cs Hin) as (Hplen & Hpos). fold ps in Hplen, Hpos.
  destruct (cs_pos_perm_ok n cs Hin) as (Hnd & _). fold ps in Hnd.
  rewrite Hlcs in *.
  assert (Hps_lt : forall x, In x ps -> x < nnz A).
  { intros x Hx. destruct (In_nth _ _ 0 Hx) as (i & Hi & Ei). rewrite Hplen in Hi.
    destruct (Hpos i Hi) as (_ & _ & U1 & U2). cbv zeta in *. lia. }
  assert (Hfull : forall q, q < nnz A -> exists i, i < nnz A /\ nth i ps 0 = q).
  { intros q Hq. pose proof (ps_NoDup_full ps (nnz A) Hnd Hplen Hps_lt q Hq) as Hi.
    destruct (In_nth _ _ 0 Hi) as (i & Hi' & Ei). exists i. split; [lia|assumption]. }
  assert (Hcsi : forall i, i < nnz A -> nth i cs 0 = task_col A iperm (nth i ts (0, 0))).
  { intros i Hi. unfold cs. apply ps_nth_map. lia. }
  set (Pr := ps_scatter (repeat 0 (nnz A)) (combine ps (map (task_row A iperm) ts))).
  set (Pv := ps_scatter (repeat (zero O) (nnz A)) (combine ps (nzval A))).
  assert (HlPr : length Pr = nnz A) by (unfold Pr; now rewrite ps_scatter_length, repeat_length).
  assert (HlPv : length Pv = nnz A) by (unfold Pv; now rewrite ps_scatter_length, repeat_length).
  assert (HPr : forall i, i < nnz A -> nth (nth i ps 0) Pr 0 = task_row A iperm (nth i ts (0, 0))).
  { intros i Hi. unfold Pr. rewrite ps_scatter_in.
    - apply ps_nth_map. lia.
    - assumption.
    - rewrite map_length. lia.
    - intros k Hk. rewrite repeat_length. now apply Hps_lt.
    - lia. }
  assert (HPv : forall i d, i < nnz A -> nth (nth i ps 0) Pv d = nth i (nzval A) d).
  { intros i d Hi. unfold Pv. apply ps_scatter_in.
    - assumption.
    - unfold nnz in Hplen. assumption.
    - intros k Hk. rewrite repeat_length. now apply Hps_lt.
    - lia. }
  split.
  { (* wf_csc P *)
    unfold wf_csc. cbn [colptr rowval nzval sm sn]. fold Pr Pv.
    split; [exact Hl|]. split; [exact H0|]. split.
    { intros j Hj. apply Hmono; lia. }
    split; [lia|]. split; [lia|].
    intros q Hq. rewrite HlPr in Hq. destruct (Hfull q Hq) as (i & Hi & Ei). subst q.
    rewrite HPr by assumption. destruct (Htask i Hi) as (c & Et & Hc). rewrite Et.
    now apply Hkey. }
  split; [reflexivity|]. split; [reflexivity|]. split.
  { (* upper_tri_ps P *)
    unfold upper_tri_ps. cbn [colptr rowval sn]. fold Pr. intros j idx Hj Hidx.
    pose proof (Hmono (S j) n ltac:(lia) ltac:(lia)) as Hm.
    destruct (Hfull idx ltac:(lia)) as (i & Hi & Ei).
    destruct (Hpos i Hi) as (_ & L1 & U1 & _). cbv zeta in L1, U1. rewrite Ei in L1, U1.
    destruct (Htask i Hi) as (c & Et & Hc).
    pose proof (Hcsi i Hi) as Hci. rewrite Et in Hci.
    destruct (Hkey i c Hc) as (K1 & K2 & K3). rewrite <- Hci in K1, K3.
    assert (Ej : nth i cs 0 = j).
    { destruct (Nat.lt_total (nth i cs 0) j) as [L|[E|L]]; [|assumption|].
      - pose proof (Hmono (S (nth i cs 0)) j ltac:(lia) ltac:(lia)). lia.
      - pose proof (Hmono (S j) (nth i cs 0) ltac:(lia) ltac:(lia)). lia. }
    rewrite <- Ei. rewrite HPr by assumption. rewrite Et. lia. }
  split; [exact HlPv|]. split; [exact Hplen|]. split; [exact Hnd|].
  intros k c Hk Hkc. set (r := nth k (rowval A) 0). cbn [colptr rowval nzval sm sn]. fold Pr Pv.
  pose proof (Hnth k c Hk Hkc) as Et.
  pose proof (Hcsi k Hk) as Hck. rewrite Et in Hck.
  destruct (Hpos k Hk) as (_ & L1 & U1 & _). cbv zeta in L1, U1.
  destruct (Hkey k c Hkc) as (K1 & _ & _).
  split. { apply Hps_lt. apply nth_In. lia. }
  split. { now apply HPv. }
  split. { rewrite HPr by assumption. rewrite Et. reflexivity. }
  unfold col_of. cbn [colptr sn].
  assert (Em : Nat.max (nth r iperm 0) (nth c iperm 0) = nth k cs 0).
  { rewrite Hck. reflexivity. }
  rewrite Em. rewrite Hck at 1. split; [exact K1|]. lia.
Qed.

(** * C. values do not influence structure *)
Lemma permute_symmetric_structure_indep_ok : stmt_permute_symmetric_structure_indep.
Proof.
  intros T O A iperm v Hv. cbv zeta.
  rewrite !ps_permute_symmetric_unfold. cbv zeta. cbn [fst snd sm sn colptr rowval].
  assert (En : nnz (set_nz A v) = nnz A) by (unfold nnz, set_nz; cbn [nzval]; exact Hv).
  rewrite En.
  repeat split; reflexivity.
Qed.

Lemma update_commutes_with_permute_ok : stmt_update_commutes_with_permute.
Proof.
  intros T O A iperm k v Hwf Hsq Hut Hlen Hip Hk.
  set (A' := set_nz A (upd (nzval A) k v)).
  assert (Hwf' : wf_csc A').
  { destruct Hwf as (W1 & W2 & W3 & W4 & W5 & W6).
    unfold wf_csc, A', set_nz. cbn [colptr rowval nzval sm sn]. rewrite ps_upd_length.
    repeat split; assumption. }
  assert (Hut' : upper_tri_ps A') by exact Hut.
  assert (Hsq' : sm A' = sn A') by exact Hsq.
  pose proof (ps_permute_symmetric_eq O A iperm Hwf Hsq Hut) as Heq.
  pose proof (ps_permute_symmetric_eq O A' iperm Hwf' Hsq' Hut') as Heq'.
  cbv zeta in Heq, Heq'. rewrite Heq, Heq'. cbn [fst snd nzval]. clear Heq Heq'.
  change (triu_tasks A') with (triu_tasks A).
  change (task_col A' iperm) with (task_col A iperm).
  change (task_row A' iperm) with (task_row A iperm).
  change (sn A') with (sn A).
  assert (En : nnz A' = nnz A) by (unfold nnz, A', set_nz; cbn [nzval]; apply ps_upd_length).
  rewrite En. change (nzval A') with (upd (nzval A) k v).
  unfold set_nz. cbn [sm sn colptr rowval].
  set (ts := triu_tasks A). set (cs := map (task_col A iperm) ts). set (ps := cs_pos (sn A) cs).
  (* facts about ps *)
  destruct (triu_tasks_all_ok T A Hwf Hsq Hut) as (Hfst & Hcol & _). fold ts in Hfst, Hcol.
  assert (Hlts : length ts = nnz A).
  { rewrite <- (map_length fst), Hfst. apply seq_length. }
  assert (Hin : forall c, In c cs -> c < sn A).
  { intros c Hc. unfold cs in Hc. apply in_map_iff in Hc. destruct Hc as ((k0, c0) & E & Ht).
    subst c. pose proof (Hcol k0 c0 Ht) as Hkc.
    pose proof (ps_col_of_lt A k0 c0 Hwf Hkc) as Hk0. destruct Hkc as (Hc0 & _).
    destruct Hwf as (_ & _ & _ & _ & Hl & Hr).
    assert (Hrk : nth k0 (rowval A) 0 < sn A) by (rewrite <- Hsq; apply Hr; unfold nnz in Hk0; lia).
    unfold task_col. cbn [fst snd]. pose proof (Hip _ Hrk). pose proof (Hip _ Hc0). lia. }
  destruct (cs_pos_ok (sn A) cs Hin) as (Hplen & Hpos). fold ps in Hplen, Hpos.
  destruct (cs_pos_perm_ok (sn A) cs Hin) as (Hnd & _). fold ps in Hnd.
  assert (Hlcs : length cs = nnz A) by (unfold cs; now rewrite map_length).
  rewrite Hlcs in *.
  f_equal. f_equal.
  apply ps_scatter_upd.
  - assumption.
  - unfold nnz in Hplen. assumption.
  - intros q Hq. rewrite repeat_length.
    destruct (In_nth _ _ 0 Hq) as (i & Hi & Ei). rewrite Hplen in Hi.
    destruct (Hpos i Hi) as (_ & _ & U1 & U2). cbv zeta in *. lia.
  - lia.
Qed.

(** * non-vacuity *)
Example ps_example_hyps_ok : stmt_ps_example_hyps.
Proof.
  unfold stmt_ps_example_hyps, wf_csc, upper_tri_ps, ps_exA, ps_exIperm.
  cbn [sm sn colptr rowval nzval length].
  repeat split; try reflexivity.
  - intros j Hj. do 3 (destruct j as [|j]; [cbn; lia|]). lia.
  - intros k Hk. do 4 (destruct k as [|k]; [cbn; lia|]). lia.
  - intros j idx Hj Hidx.
    do 3 (destruct j as [|j]; [cbn in Hidx; do 4 (destruct idx as [|idx]; [cbn; lia|]); lia|]). lia.
  - intros i Hi. do 3 (destruct i as [|i]; [cbn; lia|]). lia.
Qed.

Example ps_example_run :
  permute_symmetric OpsZ ps_exA ps_exIperm
  = (mkSpm 3 3 [0; 1; 2; 4] [0; 1; 2; 1] [3; 4; 2; 1]%Z, [2; 0; 3; 1]).
Proof. vm_compute. reflexivity. Qed.
