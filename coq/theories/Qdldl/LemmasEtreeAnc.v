(** Proof of [stmt_etree_ancestor] (SpecEtree.v): Liu's algorithm as transcribed in [etree]
    makes every stored entry A[b,k] of an upper-triangular pattern a descendant of k in the
    final elimination tree.

    Structure.
    - parents are only ever written over [None], so the tree only grows ([et_le]) and
      [anc_iter] paths are stable ([ea_anc_mono]);
    - walk lemma [ea_walk]: during column j, every node x <= j marked [work[x] = j] is a
      descendant of j, except the nodes on the chain of the walk in progress, which are
      descendants of the current node; when the walk stops (at a node marked j) the whole chain
      is connected to j;
    - column lemma [ea_col] and the fold over the columns. *)
From Coq Require Import List Arith Lia Bool.
Import ListNotations.
Require Import Clarabel.Base.Ops Clarabel.Qdldl.Model Clarabel.Qdldl.LemmasFactor
        Clarabel.Qdldl.SpecBounds Clarabel.Qdldl.LemmasBounds Clarabel.Qdldl.SpecEtree.

(** ** the tree only grows *)
Definition et_le (et et' : list (option nat)) : Prop :=
  forall i p, nth i et None = Some p -> nth i et' None = Some p.

Lemma ea_et_le_refl et : et_le et et.
Proof. intros i p H. exact H. Qed.

Lemma ea_et_le_trans a b c : et_le a b -> et_le b c -> et_le a c.
Proof. intros Hab Hbc i p H. apply Hbc. apply Hab. exact H. Qed.

Lemma ea_et_le_upd et i v : nth i et None = None -> et_le et (upd et i v).
Proof.
  intros Hn x p Hx. destruct (Nat.eq_dec i x) as [<-|Hne].
  - rewrite Hn in Hx. discriminate.
  - rewrite fa_nth_upd_neq by exact Hne. exact Hx.
Qed.

Lemma ea_anc_mono et et' : et_le et et' -> forall m i r,
  anc_iter et m i = Some r -> anc_iter et' m i = Some r.
Proof.
  intros Hle. induction m as [|m IH]; intros i r H; simpl in *.
  - exact H.
  - destruct (nth i et None) as [p|] eqn:E; [|discriminate].
    rewrite (Hle i p E). apply IH. exact H.
Qed.

Lemma ea_is_anc_mono et et' i r : et_le et et' -> is_anc et i r -> is_anc et' i r.
Proof. intros Hle [m Hm]. exists m. eapply ea_anc_mono; eauto. Qed.

Lemma ea_is_anc_refl et i : is_anc et i i.
Proof. exists 0. reflexivity. Qed.

Lemma ea_is_anc_step et i p : nth i et None = Some p -> is_anc et i p.
Proof. intros H. exists 1. simpl. rewrite H. reflexivity. Qed.

Lemma ea_anc_iter_app et : forall m k a b c,
  anc_iter et m a = Some b -> anc_iter et k b = Some c -> anc_iter et (m + k) a = Some c.
Proof.
  induction m as [|m IH]; intros k a b c Hab Hbc; simpl in *.
  - inversion Hab; subst. exact Hbc.
  - destruct (nth a et None) as [p|]; [|discriminate]. eapply IH; eauto.
Qed.

Lemma ea_is_anc_trans et a b c : is_anc et a b -> is_anc et b c -> is_anc et a c.
Proof. intros [m Hm] [k Hk]. exists (m + k). eapply ea_anc_iter_app; eauto. Qed.

(** fold with the processed prefix made visible to the invariant *)
Lemma ea_foldM_prefix {S X} (f : S -> X -> res S) (I : list X -> S -> Prop) :
  forall l pre s s',
  (forall pre' x s1 s2, In x l -> I pre' s1 -> f s1 x = Ok s2 -> I (pre' ++ [x]) s2) ->
  I pre s -> foldM f l (Ok s) = Ok s' -> I (pre ++ l) s'.
Proof.
  induction l as [|x l IH]; intros pre s s' Hstep HI Hf.
  - rewrite fa_foldM_nil in Hf. inversion Hf; subst. rewrite app_nil_r. exact HI.
  - rewrite fa_foldM_cons in Hf. destruct (f s x) as [s1|e] eqn:E.
    + replace (pre ++ x :: l) with ((pre ++ [x]) ++ l) by (rewrite <- app_assoc; reflexivity).
      eapply IH; [| |exact Hf].
      * intros pre' x2 s2 s3 Hin H2 Hf2. eapply Hstep; eauto. right; exact Hin.
      * eapply Hstep; eauto. left; reflexivity.
    + rewrite fa_foldM_err in Hf. discriminate.
Qed.

Section EtreeAnc.
Variables (n : nat) (Ap Ai : list nat).
Hypothesis Htri : upper_tri_e n Ap Ai.

(** ** one walk *)
Lemma ea_walk j : j < n -> forall fuel i work lnz et work' lnz' et',
  i <= j -> et_inv n (S j) (work, lnz, et) -> nth j work 0 = j ->
  (forall x, x < S j -> nth x work 0 < S j) ->
  (forall x, x <= j -> nth x work 0 = j -> is_anc et x j \/ (x < i /\ is_anc et x i)) ->
  etree_walk fuel j i (work, lnz, et) = Ok (work', lnz', et') ->
  et_inv n (S j) (work', lnz', et') /\ nth j work' 0 = j /\
  (forall x, x < S j -> nth x work' 0 < S j) /\
  (forall x, x <= j -> nth x work' 0 = j -> is_anc et' x j) /\
  et_le et et' /\ is_anc et' i j.
Proof.
  intros Hj. induction fuel as [|f IH]; intros i work lnz et work' lnz' et' Hi HI Hw HB HV H.
  - simpl in H. discriminate.
  - simpl in H. destruct (nth i work 0 =? j) eqn:E.
    + inversion H; subst; clear H. apply Nat.eqb_eq in E.
      assert (Hij : is_anc et' i j).
      { destruct (HV i Hi E) as [Ha|[Hlt _]]; [exact Ha|lia]. }
      split; [exact HI|]. split; [exact Hw|]. split; [exact HB|].
      split; [|split; [apply ea_et_le_refl|exact Hij]].
      intros x Hx Hwx. destruct (HV x Hx Hwx) as [Ha|[_ Ha]]; [exact Ha|].
      eapply ea_is_anc_trans; eauto.
    + apply Nat.eqb_neq in E.
      assert (Hij : i < j).
      { destruct (Nat.eq_dec i j) as [->|Hne]; [congruence|lia]. }
      destruct HI as (Hlw & Hll & Hle & Het).
      set (et1 := match nth i et None with None => upd et i (Some j) | Some _ => et end) in *.
      assert (HI1 : et_inv n (S j) (upd work i j, upd lnz i (S (nth i lnz 0)), et1)).
      { unfold et_inv. rewrite !fa_upd_length.
        split; [exact Hlw|]. split; [exact Hll|].
        unfold et1. destruct (nth i et None) as [q|] eqn:Eq.
        - split; [exact Hle|exact Het].
        - rewrite fa_upd_length. split; [exact Hle|].
          intros i0 p Hp. destruct (Nat.eq_dec i i0) as [<-|Hne].
          + rewrite fa_nth_upd_eq in Hp by lia. inversion Hp; subst. lia.
          + rewrite fa_nth_upd_neq in Hp by exact Hne. apply Het; exact Hp. }
      assert (Hle1 : et_le et et1).
      { unfold et1. destruct (nth i et None) as [q|] eqn:Eq.
        - apply ea_et_le_refl.
        - apply ea_et_le_upd. exact Eq. }
      destruct (nth i et1 None) as [i1|] eqn:Ei; [|discriminate].
      assert (Hi1 : i < i1 < S j).
      { destruct HI1 as (_ & _ & _ & Het1). apply Het1 in Ei. exact Ei. }
      assert (Hstep : is_anc et1 i i1) by (apply ea_is_anc_step; exact Ei).
      specialize (IH i1 (upd work i j) (upd lnz i (S (nth i lnz 0))) et1 work' lnz' et').
      destruct IH as (R1 & R2 & R3 & R4 & R5 & R6); [lia|exact HI1| | | |exact H|].
      * rewrite fa_nth_upd_neq by lia. exact Hw.
      * intros x Hx. destruct (Nat.eq_dec i x) as [<-|Hne].
        -- rewrite fa_nth_upd_eq by lia. lia.
        -- rewrite fa_nth_upd_neq by exact Hne. apply HB; exact Hx.
      * intros x Hx Hwx. destruct (Nat.eq_dec i x) as [<-|Hne].
        -- right. split; [lia|exact Hstep].
        -- rewrite fa_nth_upd_neq in Hwx by exact Hne.
           destruct (HV x Hx Hwx) as [Ha|[Hlt Ha]].
           ++ left. eapply ea_is_anc_mono; eauto.
           ++ right. split; [lia|].
              eapply ea_is_anc_trans; [eapply ea_is_anc_mono; eauto|exact Hstep].
      * split; [exact R1|]. split; [exact R2|]. split; [exact R3|]. split; [exact R4|].
        split; [eapply ea_et_le_trans; eauto|].
        eapply ea_is_anc_trans; [eapply ea_is_anc_mono; [exact R5|exact Hstep]|exact R6].
Qed.

(** ** one column *)
Definition desc_upto (k : nat) (et : list (option nat)) : Prop :=
  forall k' idx, k' < k -> In idx (col_range Ap k') -> is_anc et (nth idx Ai 0) k'.

Lemma ea_desc_mono k et et' : et_le et et' -> desc_upto k et -> desc_upto k et'.
Proof. intros Hle H k' idx Hk Hin. eapply ea_is_anc_mono; [exact Hle|]. apply H; assumption. Qed.

(** the invariant before column [k] *)
Definition ginv (k : nat) (st : estate) : Prop :=
  et_inv n k st /\
  (forall x, x < k -> nth x (fst (fst st)) 0 < k) /\
  desc_upto k (snd st).

(** the invariant inside column [j], after the stored indices [pre] *)
Definition cinv (j : nat) (pre : list nat) (st : estate) : Prop :=
  et_inv n (S j) st /\ nth j (fst (fst st)) 0 = j /\
  (forall x, x < S j -> nth x (fst (fst st)) 0 < S j) /\
  (forall x, x <= j -> nth x (fst (fst st)) 0 = j -> is_anc (snd st) x j) /\
  desc_upto j (snd st) /\
  (forall idx, In idx pre -> is_anc (snd st) (nth idx Ai 0) j).

Lemma ea_col j st st' :
  j < n -> ginv j st -> etree_col n Ap Ai st j = Ok st' -> ginv (S j) st'.
Proof.
  intros Hj (HI & HB & HD) H. destruct st as [[work lnz] et]. unfold etree_col in H.
  cbn [fst snd] in HB, HD.
  assert (HC : cinv j ([] ++ col_range Ap j) st').
  { eapply (ea_foldM_prefix _ (cinv j)); [| |exact H].
    - intros pre idx s1 s2 Hin (C1 & C2 & C3 & C4 & C5 & C6) Hs.
      destruct s1 as [[w1 l1] e1]. destruct s2 as [[w2 l2] e2]. cbn [fst snd] in *.
      assert (Hb : nth idx Ai 0 <= j).
      { apply Htri; [exact Hj|]. apply bd_in_col_range; exact Hin. }
      destruct (ea_walk j Hj (S n) (nth idx Ai 0) w1 l1 e1 w2 l2 e2 Hb C1 C2 C3)
        as (R1 & R2 & R3 & R4 & R5 & R6); [|exact Hs|].
      + intros x Hx Hwx. left. apply C4; assumption.
      + unfold cinv. cbn [fst snd].
        split; [exact R1|]. split; [exact R2|]. split; [exact R3|]. split; [exact R4|].
        split; [eapply ea_desc_mono; eauto|].
        intros idx' Hin'. apply in_app_or in Hin'. destruct Hin' as [Hin'|[<-|[]]].
        * eapply ea_is_anc_mono; [exact R5|]. apply C6; exact Hin'.
        * exact R6.
    - unfold cinv. cbn [fst snd]. destruct HI as (Hlw & Hll & Hle & Het).
      split.
      { unfold et_inv. rewrite fa_upd_length. split; [exact Hlw|]. split; [exact Hll|].
        split; [exact Hle|]. intros i p Hp. apply Het in Hp. lia. }
      split; [apply fa_nth_upd_eq; lia|].
      split.
      { intros x Hx. destruct (Nat.eq_dec j x) as [<-|Hne].
        - rewrite fa_nth_upd_eq by lia. lia.
        - rewrite fa_nth_upd_neq by exact Hne. assert (Hx' : x < j) by lia.
          apply HB in Hx'. lia. }
      split.
      { intros x Hx Hwx. destruct (Nat.eq_dec j x) as [<-|Hne].
        - apply ea_is_anc_refl.
        - rewrite fa_nth_upd_neq in Hwx by exact Hne. assert (Hx' : x < j) by lia.
          apply HB in Hx'. lia. }
      split; [exact HD|]. intros idx [] . }
  destruct HC as (C1 & C2 & C3 & C4 & C5 & C6). simpl app in C6.
  split; [exact C1|]. split; [exact C3|].
  intros k' idx Hk Hin. destruct (Nat.eq_dec k' j) as [->|Hne].
  - apply C6; exact Hin.
  - apply C5; [lia|exact Hin].
Qed.
End EtreeAnc.

(** ** all columns *)
Lemma ea_main : stmt_etree_ancestor.
Proof.
  intros n Ap Ai lnz et Htri H. unfold etree in H.
  destruct (foldM (etree_col n Ap Ai) (seq 0 n) (Ok (repeat 0 n, repeat 0 n, repeat None n)))
    as [st|e] eqn:E; [|discriminate].
  cbn [bind] in H. destruct st as [[work lnz'] et']. inversion H; subst; clear H.
  pose proof (fa_foldM_seq_inv (etree_col n Ap Ai) (ginv n Ap Ai) n) as HF.
  specialize (HF (fun k s s' Hk HI Hs => ea_col n Ap Ai Htri k s s' Hk HI Hs)).
  specialize (HF n 0 (repeat 0 n, repeat 0 n, repeat None n) (work, lnz, et) (le_n _)).
  simpl plus in HF.
  destruct HF as (_ & _ & HD); [|exact E|].
  - split.
    + unfold et_inv. rewrite !repeat_length.
      split; [reflexivity|]. split; [reflexivity|]. split; [reflexivity|].
      intros i p Hp. exfalso. eapply bd_nth_repeat_none; exact Hp.
    + split.
      * intros x Hx. lia.
      * intros k' idx Hk. lia.
  - intros k idx Hk Hin. apply HD; assumption.
Qed.

(** non-vacuity: the dense 3x3 upper triangle; the tree is the chain 0 -> 1 -> 2 *)
Example ea_example_hyps :
  upper_tri_e 3 [0; 1; 3; 6] [0; 0; 1; 0; 1; 2] /\
  etree 3 [0; 1; 3; 6] [0; 0; 1; 0; 1; 2] = Ok ([2; 1; 0], [Some 1; Some 2; None]).
Proof.
  split; [|reflexivity].
  intros j idx Hj Hidx.
  destruct j as [|[|[|j]]]; [| | |lia]; cbn [nth] in Hidx;
    do 6 (destruct idx as [|idx]; [cbn [nth]; lia|]); lia.
Qed.

Example ea_example : entries_descend 3 [0; 1; 3; 6] [0; 0; 1; 0; 1; 2] [Some 1; Some 2; None].
Proof.
  destruct ea_example_hyps as [Htri He].
  exact (ea_main 3 _ _ _ _ Htri He).
Qed.

(** the instance says something: row 0 of column 2 reaches 2 in two steps *)
Example ea_example_use : is_anc [Some 1; Some 2; None] 0 2.
Proof.
  apply (ea_example 2 3); [lia|]. unfold col_range. cbn. tauto.
Qed.

Lemma etree_ancestor_ok : stmt_etree_ancestor.
Proof. exact ea_main. Qed.
