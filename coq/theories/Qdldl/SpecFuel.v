(** Fuel sufficiency (statements only).  The two [while] loops of clarabel::qdldl ([_etree] and
    the elimination-reach walk of [_factor_inner]) are modelled on explicit fuel ([S n]) and
    return [Err OutOfFuel] when it runs out.  On well-formed input (upper-triangular pattern,
    strictly increasing in-range elimination tree) that constructor is unreachable: the
    Rust loops terminate, and within the modelled budget. *)
From Coq Require Import List Arith ZArith QArith Lia Bool.
Import ListNotations.
Require Import Clarabel.Base.Ops Clarabel.Qdldl.Model Clarabel.Qdldl.SpecFactor
        Clarabel.Qdldl.SpecEtree.
Local Close Scope Q_scope.

(** _etree is total on an upper-triangular pattern: neither OutOfFuel nor Panicked *)
Definition stmt_etree_total : Prop :=
  forall n Ap Ai, upper_tri_e n Ap Ai -> exists lnz et, etree n Ap Ai = Ok (lnz, et).

(** the reach walk, at exactly the instance [rowA_step] calls (fuel [S n], start = parent of a
    stored row index [x < k]), never runs out of fuel *)
Definition stmt_reach_walk_total : Prop :=
  forall n k et x marks elim,
    etree_in_range_p n et -> k <= n -> x < k ->
    exists r, reach_walk (S n) k et (nth x et None) marks elim = Ok r.

(** _factor_inner never reports OutOfFuel *)
Definition stmt_factor_inner_no_fuel : Prop :=
  forall T (O : Ops T) n Ap Ai Ax et P,
    upper_tri_e n Ap Ai -> etree_in_range_p n et ->
    factor_inner O n Ap Ai Ax et P <> Err OutOfFuel.

(** ... so its only errors on well-formed input are a zero pivot, or the panic of the numeric
    pass on the empty matrix *)
Definition stmt_factor_inner_errors_wf : Prop :=
  forall T (O : Ops T) n Ap Ai Ax et P e,
    upper_tri_e n Ap Ai -> etree_in_range_p n et ->
    factor_inner O n Ap Ai Ax et P = Err e ->
    e = ZeroPivot \/ (e = Panicked /\ n = 0 /\ fp_logical P = false).

(** non-vacuity: the dense 3x3 upper triangle of SpecFactor *)
Definition stmt_fuel_example_etree : Prop :=
  upper_tri_e 3 ex_Ap ex_Ai /\
  etree 3 ex_Ap ex_Ai = Ok ([2; 1; 0], [Some 1; Some 2; None]) /\
  etree_in_range_p 3 [Some 1; Some 2; None].
