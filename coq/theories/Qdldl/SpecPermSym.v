(** Statements about [permute_symmetric] (qdldl.rs: _permute_symmetric_inner), the
    counting sort that builds P = triu(Π A Πᵀ) together with the index map AtoPAPt.
    Statements only; the proofs are in LemmasPermSym.v. *)
From Coq Require Import List Arith ZArith Lia Bool Permutation.
Import ListNotations.
Require Import Clarabel.Base.Ops Clarabel.Qdldl.Model.

(** * A. abstract counting sort *)

(** first pass: histogram of the keys *)
Definition cs_count (n : nat) (cs : list nat) : list nat :=
  fold_left (fun cnt c => upd cnt c (S (nth c cnt 0))) cs (repeat 0 n).
(** column pointers *)
Definition cs_ptr (n : nat) (cs : list nat) : list nat := cumsum0 (cs_count n cs).
(** second pass: entry i goes to starts[c_i], then starts[c_i] += 1 *)
Fixpoint cs_scan (starts cs : list nat) : list nat :=
  match cs with
  | [] => []
  | c :: r => nth c starts 0 :: cs_scan (upd starts c (S (nth c starts 0))) r
  end.
Definition cs_pos (n : nat) (cs : list nat) : list nat := cs_scan (firstn n (cs_ptr n cs)) cs.

Definition stmt_cs_count : Prop :=
  forall n cs, (forall c, In c cs -> c < n) ->
    length (cs_count n cs) = n /\
    (forall c, nth c (cs_count n cs) 0 = count_occ Nat.eq_dec cs c).

Definition stmt_cs_ptr : Prop :=
  forall n cs, (forall c, In c cs -> c < n) ->
    length (cs_ptr n cs) = S n /\
    nth 0 (cs_ptr n cs) 0 = 0 /\
    (forall c, c < n -> nth (S c) (cs_ptr n cs) 0 = nth c (cs_ptr n cs) 0 + count_occ Nat.eq_dec cs c) /\
    (forall i j, i <= j -> j <= n -> nth i (cs_ptr n cs) 0 <= nth j (cs_ptr n cs) 0) /\
    nth n (cs_ptr n cs) 0 = length cs.

Definition stmt_cs_pos : Prop :=
  forall n cs, (forall c, In c cs -> c < n) ->
    length (cs_pos n cs) = length cs /\
    (forall i, i < length cs ->
       let c := nth i cs 0 in
       nth i (cs_pos n cs) 0 = nth c (cs_ptr n cs) 0 + count_occ Nat.eq_dec (firstn i cs) c /\
       nth c (cs_ptr n cs) 0 <= nth i (cs_pos n cs) 0 /\
       nth i (cs_pos n cs) 0 < nth (S c) (cs_ptr n cs) 0 /\
       nth (S c) (cs_ptr n cs) 0 <= length cs).

Definition stmt_cs_pos_perm : Prop :=
  forall n cs, (forall c, In c cs -> c < n) ->
    NoDup (cs_pos n cs) /\ Permutation (cs_pos n cs) (seq 0 (length cs)).

(** * B. the model *)

Definition nnz {T} (A : spm (T:=T)) := length (nzval A).
Definition wf_csc {T} (A : spm (T:=T)) : Prop :=
  length (colptr A) = S (sn A) /\
  nth 0 (colptr A) 0 = 0 /\
  (forall j, j < sn A -> nth j (colptr A) 0 <= nth (S j) (colptr A) 0) /\
  nth (sn A) (colptr A) 0 = length (rowval A) /\
  length (rowval A) = length (nzval A) /\
  (forall k, k < length (rowval A) -> nth k (rowval A) 0 < sm A).
Definition upper_tri_ps {T} (A : spm (T:=T)) : Prop :=
  forall j idx, j < sn A -> nth j (colptr A) 0 <= idx < nth (S j) (colptr A) 0 ->
                nth idx (rowval A) 0 <= j.
Definition col_of {T} (A : spm (T:=T)) (k c : nat) : Prop :=
  c < sn A /\ nth c (colptr A) 0 <= k < nth (S c) (colptr A) 0.

(** under wf_csc + upper_tri every stored entry is a task, in index order *)
Definition stmt_triu_tasks_all : Prop :=
  forall T (A : spm (T:=T)),
    wf_csc A -> sm A = sn A -> upper_tri_ps A ->
    map fst (triu_tasks A) = seq 0 (nnz A) /\
    (forall k c, In (k, c) (triu_tasks A) -> col_of A k c) /\
    (forall k c, k < nnz A -> col_of A k c -> nth k (triu_tasks A) (0, 0) = (k, c)).

(** the index map is the position list of the abstract counting sort *)
Definition stmt_permute_symmetric_amap : Prop :=
  forall T (O : Ops T) (A : spm (T:=T)) iperm,
    wf_csc A -> sm A = sn A -> upper_tri_ps A ->
    snd (permute_symmetric O A iperm)
    = cs_pos (sn A) (map (task_col A iperm) (triu_tasks A)).

Definition stmt_permute_symmetric_spec : Prop :=
  forall T (O : Ops T) (A : spm (T:=T)) iperm,
    wf_csc A -> sm A = sn A -> upper_tri_ps A -> length iperm = sn A ->
    (forall i, i < sn A -> nth i iperm 0 < sn A) ->
    let P := fst (permute_symmetric O A iperm) in
    let amap := snd (permute_symmetric O A iperm) in
    wf_csc P /\ sm P = sn A /\ sn P = sn A /\ upper_tri_ps P /\ nnz P = nnz A /\
    length amap = nnz A /\ NoDup amap /\
    (forall k c, k < nnz A -> col_of A k c ->
       let r := nth k (rowval A) 0 in
       nth k amap 0 < nnz A /\
       nth (nth k amap 0) (nzval P) (zero O) = nth k (nzval A) (zero O) /\
       nth (nth k amap 0) (rowval P) 0 = Nat.min (nth c iperm 0) (nth r iperm 0) /\
       col_of P (nth k amap 0) (Nat.max (nth r iperm 0) (nth c iperm 0))).

(** * C. values do not influence structure *)

Definition set_nz {T} (A : spm (T:=T)) (v : list T) : spm (T:=T) :=
  mkSpm (sm A) (sn A) (colptr A) (rowval A) v.

(** structure and index map are independent of the stored values *)
Definition stmt_permute_symmetric_structure_indep : Prop :=
  forall T (O : Ops T) (A : spm (T:=T)) iperm (v : list T),
    length v = nnz A ->
    let PA := permute_symmetric O A iperm in
    let PB := permute_symmetric O (set_nz A v) iperm in
    sm (fst PB) = sm (fst PA) /\ sn (fst PB) = sn (fst PA) /\
    colptr (fst PB) = colptr (fst PA) /\ rowval (fst PB) = rowval (fst PA) /\
    snd PB = snd PA.

Definition stmt_update_commutes_with_permute : Prop :=
  forall T (O : Ops T) (A : spm (T:=T)) iperm k v,
    wf_csc A -> sm A = sn A -> upper_tri_ps A -> length iperm = sn A ->
    (forall i, i < sn A -> nth i iperm 0 < sn A) -> k < nnz A ->
    permute_symmetric O (set_nz A (upd (nzval A) k v)) iperm
    = (set_nz (fst (permute_symmetric O A iperm))
              (upd (nzval (fst (permute_symmetric O A iperm)))
                   (nth k (snd (permute_symmetric O A iperm)) 0) v),
       snd (permute_symmetric O A iperm)).

(** * non-vacuity instance: 3x3 upper triangle, cyclic (non-identity) permutation *)
Definition ps_exA : spm (T:=Z) := mkSpm 3 3 [0; 1; 2; 4] [0; 1; 0; 2] [2; 3; 1; 4]%Z.
Definition ps_exIperm : list nat := [2; 0; 1].
Definition stmt_ps_example_hyps : Prop :=
  wf_csc ps_exA /\ sm ps_exA = sn ps_exA /\ upper_tri_ps ps_exA /\
  length ps_exIperm = sn ps_exA /\ (forall i, i < sn ps_exA -> nth i ps_exIperm 0 < sn ps_exA).
