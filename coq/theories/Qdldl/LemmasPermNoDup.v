(** Proofs of the statements in SpecPermNoDup.v. *)
From Coq Require Import List Arith ZArith Lia Bool Permutation.
Import ListNotations.
Require Import Clarabel.Base.Ops Clarabel.Qdldl.Model Clarabel.Qdldl.SpecPermSym
               Clarabel.Qdldl.LemmasPermSym Clarabel.Qdldl.SpecFactorCorrect
               Clarabel.Qdldl.SpecPermNoDup.

(** * list helpers *)
Lemma pnd_map_inj {X Y} (f : X -> Y) (l : list X) :
  NoDup (map f l) -> forall a b, In a l -> In b l -> f a = f b -> a = b.
Proof.
  induction l as [|x r IH]; intros Hnd a b Ha Hb Hab; [destruct Ha|].
  simpl in Hnd. inversion Hnd as [|y ys Hnin Hnd']; subst.
  destruct Ha as [Ha|Ha]; destruct Hb as [Hb|Hb].
  - congruence.
  - subst x. exfalso. apply Hnin. rewrite Hab. now apply in_map.
  - subst x. exfalso. apply Hnin. rewrite <- Hab. now apply in_map.
  - now apply IH.
Qed.

Lemma pnd_NoDup_map {X Y} (f : X -> Y) (l : list X) :
  NoDup l -> (forall a b, In a l -> In b l -> f a = f b -> a = b) -> NoDup (map f l).
Proof.
  induction l as [|x r IH]; intros Hnd Hinj; simpl; [constructor|].
  inversion Hnd as [|y ys Hnin Hnd']; subst.
  constructor.
  - intros Hin. apply in_map_iff in Hin. destruct Hin as (z & Hz & Hzin).
    assert (Hzx : z = x) by (apply Hinj; [now right|now left|assumption]).
    subst z. contradiction.
  - apply IH; [assumption|]. intros a b Ha Hb. apply Hinj; now right.
Qed.

Lemma pnd_in_col_range cp j idx :
  In idx (col_range cp j) <-> nth j cp 0 <= idx < nth (S j) cp 0.
Proof. unfold col_range. rewrite in_seq. lia. Qed.

Lemma pnd_nth_inj (l : list nat) n i j :
  NoDup l -> length l = n -> i < n -> j < n -> nth i l 0 = nth j l 0 -> i = j.
Proof.
  intros Hnd Hlen Hi Hj Heq.
  apply (proj1 (NoDup_nth l 0) Hnd); lia || assumption.
Qed.

Lemma pnd_minmax a1 b1 a2 b2 :
  Nat.max a1 b1 = Nat.max a2 b2 -> Nat.min b1 a1 = Nat.min b2 a2 ->
  (a1 = a2 /\ b1 = b2) \/ (a1 = b2 /\ b1 = a2).
Proof. lia. Qed.

(** * columns *)
Lemma pnd_col_of_below {T} (A : spm (T:=T)) k : wf_csc A ->
  forall m, m <= sn A -> k < nth m (colptr A) 0 -> exists c, col_of A k c.
Proof.
  intros Hwf m. induction m as [|m IH]; intros Hm Hk.
  - destruct Hwf as (_ & H0 & _). lia.
  - destruct (lt_dec k (nth m (colptr A) 0)) as [L|G].
    + apply IH; lia.
    + exists m. unfold col_of. lia.
Qed.

Lemma col_of_exists_ok : stmt_col_of_exists.
Proof.
  intros T A k Hwf Hk.
  apply (pnd_col_of_below A k Hwf (sn A)); [lia|].
  destruct Hwf as (_ & _ & _ & Hn & Hl & _). unfold nnz in Hk. lia.
Qed.

(** * the index map is onto *)
Lemma permute_symmetric_amap_onto_ok : stmt_permute_symmetric_amap_onto.
Proof.
  intros T O A iperm Hwf Hsq Hup Hlen Hrng amap q Hq.
  destruct (permute_symmetric_spec_ok T O A iperm Hwf Hsq Hup Hlen Hrng)
    as (_ & _ & _ & _ & _ & Hal & Hand & Hent).
  fold amap in Hal, Hand, Hent.
  assert (Hlt : forall x, In x amap -> x < nnz A).
  { intros x Hx. destruct (In_nth amap x 0 Hx) as (k & Hk & Hkx).
    rewrite Hal in Hk. destruct (col_of_exists_ok T A k Hwf Hk) as (c & Hc).
    destruct (Hent k c Hk Hc) as (Hb & _). now rewrite Hkx in Hb. }
  pose proof (ps_NoDup_full amap (nnz A) Hand Hal Hlt q Hq) as Hin.
  destruct (In_nth amap q 0 Hin) as (k & Hk & Hkq).
  exists k. split; [lia|assumption].
Qed.

(** * main statement *)
Lemma permute_symmetric_triu_nodup_ok : stmt_permute_symmetric_triu_nodup.
Proof.
  intros T O A iperm Hwf Hsq Hup Htn Hlen Hrng Hind P.
  pose proof (permute_symmetric_amap_onto_ok T O A iperm Hwf Hsq Hup Hlen Hrng) as Honto.
  destruct (permute_symmetric_spec_ok T O A iperm Hwf Hsq Hup Hlen Hrng)
    as (HwfP & HsmP & HsnP & HupP & HnnzP & Hal & Hand & Hent).
  fold P in HwfP, HsmP, HsnP, HupP, HnnzP.
  cbv zeta in Honto, Hent.
  set (amap := snd (permute_symmetric O A iperm)) in *.
  fold P in Hent.
  destruct Htn as (_ & HndA).
  split.
  - intros j idx Hj Hin. apply HupP; [lia|]. now apply pnd_in_col_range.
  - intros j Hj. apply pnd_NoDup_map; [apply seq_NoDup|].
    intros q1 q2 Hq1 Hq2 Heq.
    apply pnd_in_col_range in Hq1. apply pnd_in_col_range in Hq2.
    assert (Hc1 : col_of P q1 j) by (unfold col_of; split; [lia|assumption]).
    assert (Hc2 : col_of P q2 j) by (unfold col_of; split; [lia|assumption]).
    pose proof (ps_col_of_lt P q1 j HwfP Hc1) as Hq1lt.
    pose proof (ps_col_of_lt P q2 j HwfP Hc2) as Hq2lt.
    rewrite HnnzP in Hq1lt, Hq2lt.
    destruct (Honto q1 Hq1lt) as (k1 & Hk1 & Hk1q).
    destruct (Honto q2 Hq2lt) as (k2 & Hk2 & Hk2q).
    destruct (col_of_exists_ok T A k1 Hwf Hk1) as (c1 & Hkc1).
    destruct (col_of_exists_ok T A k2 Hwf Hk2) as (c2 & Hkc2).
    destruct (Hent k1 c1 Hk1 Hkc1) as (_ & _ & Hrow1 & Hcol1).
    destruct (Hent k2 c2 Hk2 Hkc2) as (_ & _ & Hrow2 & Hcol2).
    rewrite Hk1q in Hrow1, Hcol1. rewrite Hk2q in Hrow2, Hcol2.
    pose proof (ps_col_of_unique P q1 _ _ HwfP Hc1 Hcol1) as Hj1.
    pose proof (ps_col_of_unique P q2 _ _ HwfP Hc2 Hcol2) as Hj2.
    rewrite Hrow1, Hrow2 in Heq.
    destruct Hkc1 as (Hc1n & Hk1r). destruct Hkc2 as (Hc2n & Hk2r).
    pose proof (Hup c1 k1 Hc1n Hk1r) as Hr1. pose proof (Hup c2 k2 Hc2n Hk2r) as Hr2.
    set (r1 := nth k1 (rowval A) 0) in *. set (r2 := nth k2 (rowval A) 0) in *.
    assert (Hmax : Nat.max (nth r1 iperm 0) (nth c1 iperm 0)
                   = Nat.max (nth r2 iperm 0) (nth c2 iperm 0)) by lia.
    assert (Hrc : r1 = r2 /\ c1 = c2).
    { destruct (pnd_minmax _ _ _ _ Hmax Heq) as [(Ha & Hb)|(Ha & Hb)].
      - split; apply (pnd_nth_inj iperm (sn A)); assumption || lia.
      - assert (r1 = c2) by (apply (pnd_nth_inj iperm (sn A)); assumption || lia).
        assert (c1 = r2) by (apply (pnd_nth_inj iperm (sn A)); assumption || lia).
        lia. }
    destruct Hrc as (Hrr & Hcc). subst c2.
    assert (Hkk : k1 = k2).
    { apply (pnd_map_inj (fun idx => nth idx (rowval A) 0) (col_range (colptr A) c1)
                         (HndA c1 Hc1n)).
      - now apply pnd_in_col_range.
      - now apply pnd_in_col_range.
      - exact Hrr. }
    subst k2. congruence.
Qed.

(** * non-vacuity *)
Example pnd_example_hyps_ok : stmt_pnd_example_hyps.
Proof.
  destruct ps_example_hyps_ok as (Hwf & Hsq & Hup & Hlen & Hrng).
  unfold stmt_pnd_example_hyps.
  split; [exact Hwf|]. split; [exact Hsq|]. split; [exact Hup|].
  split; [|split; [exact Hlen|split; [exact Hrng|]]].
  - split.
    + intros j idx Hj Hin. apply Hup; [assumption|]. now apply pnd_in_col_range.
    + intros j Hj. unfold ps_exA in *. cbn [sn colptr rowval] in *.
      do 3 (destruct j as [|j]; [cbn; repeat constructor; simpl; intuition lia|]). lia.
  - unfold ps_exIperm. repeat constructor; simpl; intuition lia.
Qed.

Example pnd_example_result :
  triu_nodup (sn ps_exA) (colptr (fst (permute_symmetric OpsZ ps_exA ps_exIperm)))
             (rowval (fst (permute_symmetric OpsZ ps_exA ps_exIperm))).
Proof.
  destruct pnd_example_hyps_ok as (Hwf & Hsq & Hup & Htn & Hlen & Hrng & Hnd).
  exact (permute_symmetric_triu_nodup_ok Z OpsZ ps_exA ps_exIperm Hwf Hsq Hup Htn Hlen Hrng Hnd).
Qed.
