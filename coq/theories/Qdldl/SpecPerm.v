(** Statements about the permutation inversion ([invperm], repaired; [invperm_old], the
    code before the fix of finding F1) and about [check_structure] of the frozen model
    [Clarabel.Qdldl.Model].  Statements only; the proofs are in [LemmasPerm.v]. *)
From Coq Require Import List Arith Lia Bool Permutation.
Import ListNotations.
Require Import Clarabel.Base.Ops Clarabel.Qdldl.Model.

(** ** permutations *)

(** [p] is a permutation of [0 .. |p|-1] *)
Definition is_perm (p : list nat) : Prop := Permutation p (seq 0 (length p)).

(** the repaired [_invperm] accepts exactly the permutations *)
Definition stmt_invperm_ok_iff_perm : Prop :=
  forall p, (exists b, invperm p = Ok b) <-> is_perm p.

(** ... and what it returns is the two-sided inverse, itself a permutation *)
Definition stmt_invperm_inverse : Prop :=
  forall p b, invperm p = Ok b ->
    length b = length p /\
    (forall i, i < length p -> nth (nth i p 0) b 0 = i) /\
    (forall j, j < length p -> nth (nth j b 0) p 0 = j) /\
    is_perm b.

(** the only failure verdict is [InvalidPermutation] *)
Definition stmt_invperm_err_kind : Prop :=
  forall p e, invperm p = Err e -> e = InvalidPermutation.

(** the code before the fix accepted some non-permutations (finding F1) *)
Definition stmt_invperm_refuted : Prop :=
  exists p b, invperm_old p = Ok b /\ ~ is_perm p.

(** ** check_structure *)

(** every stored entry of column [j] (for the [sn A] columns) lies on or above the diagonal *)
Definition upper_tri {T} (A : spm (T:=T)) : Prop :=
  forall j idx, j < sn A ->
    nth j (colptr A) 0 <= idx < nth (S j) (colptr A) 0 ->
    nth idx (rowval A) 0 <= j.

(** consecutive column pointers strictly increase: no column is empty *)
Definition no_empty_col {T} (A : spm (T:=T)) : Prop :=
  forall j, S j < length (colptr A) -> nth j (colptr A) 0 < nth (S j) (colptr A) 0.

(** boolean reflections used by the verdict characterisation *)
Definition stmt_is_triu_iff : Prop :=
  forall T (A : spm (T:=T)), is_triu A = true <-> upper_tri A.
Definition stmt_windows_lt_iff : Prop :=
  forall l, windows_lt l = true <->
            (forall j, S j < length l -> nth j l 0 < nth (S j) l 0).

(** verdicts of [check_structure], in the order the tests are made *)
Definition stmt_check_structure_spec : Prop :=
  forall T (A : spm (T:=T)),
    (check_structure A = Err IncompatibleDimension <-> sm A <> sn A) /\
    (check_structure A = Err NotUpperTriangular <-> sm A = sn A /\ ~ upper_tri A) /\
    (check_structure A = Err EmptyColumn <-> sm A = sn A /\ upper_tri A /\ ~ no_empty_col A) /\
    (check_structure A = Ok tt <-> sm A = sn A /\ upper_tri A /\ no_empty_col A).

(** no other verdict is possible *)
Definition stmt_check_structure_total : Prop :=
  forall T (A : spm (T:=T)),
    check_structure A = Ok tt \/ check_structure A = Err IncompatibleDimension \/
    check_structure A = Err NotUpperTriangular \/ check_structure A = Err EmptyColumn.
