(** Stage 3 of Qdldl/SpecFactorCorrect.v: A = (I+L) D (I+L)' on the upper triangle,
    entrywise, for the numeric factorisation without regularisation, over any commutative
    ring with reciprocals of the non-zero elements.
    Plan: (1) phase A of a row scatters column k of A and collects a duplicate-free reach
    below k; (2) row invariant [f3_Inv]; (3) one row keeps it (phase B is the forward
    substitution of LemmasFactorCorrect.v, re-indexed densely); (4) the row loop. *)
From Coq Require Import List Arith Lia Bool Ring ZArith.
Import ListNotations.
Require Import Clarabel.Base.Ops Clarabel.Qdldl.Model Clarabel.Qdldl.SpecFactor
               Clarabel.Qdldl.LemmasFactor Clarabel.Qdldl.SpecSolve Clarabel.Qdldl.LemmasSolve
               Clarabel.Qdldl.SpecFactorCorrect Clarabel.Qdldl.LemmasFactorCorrect.

(** * list facts *)
Lemma f3_nodup_app {X} (l1 l2 : list X) :
  NoDup l1 -> NoDup l2 -> (forall x, In x l1 -> ~ In x l2) -> NoDup (l1 ++ l2).
Proof.
  induction l1 as [|a l1 IH]; intros H1 H2 Hd; cbn [app]; [exact H2|].
  inversion H1 as [|a' l' Hna Hnd]; subst.
  constructor.
  - intros Hin. apply in_app_or in Hin. destruct Hin as [Hin|Hin]; [contradiction|].
    apply (Hd a); [left; reflexivity|exact Hin].
  - apply IH; [exact Hnd|exact H2|]. intros x Hx. apply Hd. right; exact Hx.
Qed.

Lemma f3_nodup_app_l {X} (l1 l2 : list X) : NoDup (l1 ++ l2) -> NoDup l1.
Proof.
  induction l1 as [|a l1 IH]; intros H; [constructor|].
  cbn [app] in H. inversion H as [|a' l' Hna Hnd]; subst.
  constructor.
  - intros Hin. apply Hna. apply in_or_app. left; exact Hin.
  - apply IH. exact Hnd.
Qed.

Lemma f3_nth_upd_false : forall (m : list bool) a, nth a (upd m a false) false = false.
Proof.
  induction m as [|x m IH]; intros [|a]; cbn [upd nth]; auto.
Qed.

Lemma f3_unmark_fold : forall l (m : list bool) c,
  nth c (fold_left (fun m c => upd m c false) l m) false = true ->
  nth c m false = true /\ ~ In c l.
Proof.
  induction l as [|a l IH]; intros m c H; cbn [fold_left] in H.
  - split; [exact H|intros []].
  - apply IH in H. destruct H as [Hm Hn].
    destruct (Nat.eq_dec c a) as [->|Hne].
    + rewrite f3_nth_upd_false in Hm. discriminate.
    + rewrite sv_nth_upd_neq in Hm by exact Hne. split; [exact Hm|].
      intros [Hx|Hx]; [apply Hne; symmetry; exact Hx|apply Hn; exact Hx].
Qed.

Lemma f3_nth_repeat_nil {X} n c : nth c (repeat (@nil X) n) [] = [].
Proof. revert c; induction n as [|n IH]; intros [|c]; cbn [repeat nth]; auto. Qed.

Lemma f3_nth_repeat {X} (d : X) n c : nth c (repeat d n) d = d.
Proof. revert c; induction n as [|n IH]; intros [|c]; cbn [repeat nth]; auto. Qed.

(** * order predicates *)
Lemma f3_after_in_prefix x c : forall l,
  NoDup l -> after_in x c l = true -> In x (prefix_before c l).
Proof.
  induction l as [|a l IH]; intros Hnd H; cbn [after_in] in H; [discriminate|].
  inversion Hnd as [|a' l' Hna Hnd']; subst.
  cbn [prefix_before].
  destruct (Nat.eqb_spec a x) as [Hax|Hax].
  - apply existsb_exists in H. destruct H as [z [Hz Heq]].
    apply Nat.eqb_eq in Heq. subst z.
    destruct (Nat.eqb_spec a c) as [Hac|Hac]; [exfalso; apply Hna; rewrite Hac; assumption|]. left; exact Hax.
  - pose proof (fc_after_in_In x c l H) as Hc.
    destruct (Nat.eqb_spec a c) as [Hac|Hac]; [exfalso; apply Hna; rewrite Hac; assumption|].
    right. apply IH; assumption.
Qed.

Lemma f3_prefix_nodup c : forall l, NoDup l -> NoDup (prefix_before c l).
Proof.
  induction l as [|a l IH]; intros Hnd; cbn [prefix_before]; [constructor|].
  inversion Hnd as [|a' l' Hna Hnd']; subst.
  destruct (a =? c); [constructor|].
  constructor; [|apply IH; exact Hnd'].
  intros Hin. apply Hna. apply (fc_prefix_before_In c a l Hin).
Qed.

Lemma f3_reach_closed_after {T} k (cols : list (list (nat * T))) yidx c e :
  reach_closed k cols yidx = true -> In c yidx -> In e (nth c cols []) ->
  after_in c (fst e) (rev yidx) = true.
Proof.
  intros Hrc Hc He. unfold reach_closed in Hrc. cbv zeta in Hrc.
  rewrite forallb_forall in Hrc. specialize (Hrc c Hc).
  rewrite forallb_forall in Hrc. apply Hrc. exact He.
Qed.

(** * the elimination-reach walk *)
Lemma f3_reach_base k (marks : list bool) elim :
  NoDup elim -> (forall c, In c elim -> c < k /\ nth c marks false = true) ->
  length marks = length marks /\ NoDup elim /\
  (forall c, In c elim -> c < k) /\
  (forall c, nth c marks false = true <-> (nth c marks false = true \/ In c elim)) /\
  (forall c, In c elim -> In c elim \/ nth c marks false = false) /\
  (forall c, In c elim -> In c elim).
Proof.
  intros Hnd Hel.
  split; [reflexivity|]. split; [exact Hnd|].
  split; [intros c Hc; apply Hel; exact Hc|].
  split; [|split; [intros c Hc; left; exact Hc|intros c Hc; exact Hc]].
  intros c. split; [intros H; left; exact H|].
  intros [H|H]; [exact H|apply Hel; exact H].
Qed.

Lemma f3_reach_walk k et : forall fuel next marks elim marks' elim',
  k <= length marks ->
  NoDup elim ->
  (forall c, In c elim -> c < k /\ nth c marks false = true) ->
  reach_walk fuel k et next marks elim = Ok (marks', elim') ->
  length marks' = length marks /\ NoDup elim' /\
  (forall c, In c elim' -> c < k) /\
  (forall c, nth c marks' false = true <-> (nth c marks false = true \/ In c elim')) /\
  (forall c, In c elim' -> In c elim \/ nth c marks false = false) /\
  (forall c, In c elim -> In c elim').
Proof.
  induction fuel as [|f IH]; intros next marks elim marks' elim' Hk Hnd Hel H;
    cbn [reach_walk] in H; [discriminate|].
  destruct next as [nx|];
    [|inversion H; subst; apply f3_reach_base; assumption].
  destruct (nx <? k) eqn:E;
    [|inversion H; subst; apply f3_reach_base; assumption].
  apply Nat.ltb_lt in E.
  destruct (nth nx marks false) eqn:Em;
    [inversion H; subst; apply f3_reach_base; assumption|].
  apply IH in H.
  - destruct H as (Hl & Hnd' & Hlt & Hiff & Horig & Hincl).
    split; [rewrite Hl; apply sv_upd_length|].
    split; [exact Hnd'|]. split; [exact Hlt|].
    split; [|split].
    + intros c. rewrite Hiff. split.
      * intros [Hm|Hin]; [|right; exact Hin].
        destruct (Nat.eq_dec c nx) as [->|Hne].
        -- right. apply Hincl. left; reflexivity.
        -- left. rewrite sv_nth_upd_neq in Hm by exact Hne. exact Hm.
      * intros [Hm|Hin]; [|right; exact Hin]. left.
        destruct (Nat.eq_dec c nx) as [->|Hne].
        -- apply sv_nth_upd_eq. lia.
        -- rewrite sv_nth_upd_neq by exact Hne. exact Hm.
    + intros c Hin. destruct (Horig c Hin) as [[Hx|Hin']|Hm].
      * right. subst c. exact Em.
      * left; exact Hin'.
      * right. destruct (Nat.eq_dec c nx) as [->|Hne]; [exact Em|].
        rewrite sv_nth_upd_neq in Hm by exact Hne. exact Hm.
    + intros c Hin. apply Hincl. right; exact Hin.
  - rewrite sv_upd_length. exact Hk.
  - constructor; [|exact Hnd]. intros Hin. apply Hel in Hin. destruct Hin as [_ Hin]. congruence.
  - intros c [Hx|Hin].
    + subst c. split; [exact E|]. apply sv_nth_upd_eq. lia.
    + destruct (Hel c Hin) as [Hc Hm]. split; [exact Hc|].
      destruct (Nat.eq_dec c nx) as [->|Hne]; [apply sv_nth_upd_eq; lia|].
      rewrite sv_nth_upd_neq by exact Hne. exact Hm.
Qed.

(** * ring-dependent part *)
Section Ring3.
Context {T : Type} (O : Ops T).
Hypothesis RT : ring_theory (zero O) (one O) (add O) (mul O) (sub O) (neg O) (@eq T).
Add Ring Fc3Ring : RT.

Notation oz := (zero O).
Notation "a [+] b" := (add O a b) (at level 50, left associativity).
Notation "a [-] b" := (sub O a b) (at level 50, left associativity).
Notation "a [*] b" := (mul O a b) (at level 40, left associativity).

(** ** dense sums *)
Lemma f3_isum_seq_extend c k h :
  c <= k -> (forall x, c <= x < k -> h x = oz) ->
  isum O (seq 0 c) h = isum O (seq 0 k) h.
Proof.
  intros Hck Hz.
  assert (Hs : seq 0 k = seq 0 c ++ seq c (k - c)).
  { replace k with (c + (k - c)) at 1 by lia. rewrite seq_app. reflexivity. }
  rewrite Hs, (sv_isum_app O RT).
  rewrite (sv_isum_zero O RT (seq c (k - c))).
  - ring.
  - intros x Hx. apply in_seq in Hx. apply Hz. lia.
Qed.

Lemma f3_isum_reindex m f : forall l, NoDup l -> (forall x, In x l -> x < m) ->
  isum O l f = isum O (seq 0 m) (fun x => if in_dec Nat.eq_dec x l then f x else oz).
Proof.
  induction l as [|a l IH]; intros Hnd Hlt.
  - rewrite fc_isum_nil. symmetry. apply (sv_isum_zero O RT). intros x _.
    destruct (in_dec Nat.eq_dec x []) as [[]|_]. reflexivity.
  - inversion Hnd as [|a' l' Hna Hnd']; subst.
    rewrite fc_isum_cons. rewrite IH; [|exact Hnd'|intros x Hx; apply Hlt; right; exact Hx].
    rewrite (sv_isum_ext O (seq 0 m)
               (fun x => if in_dec Nat.eq_dec x (a :: l) then f x else oz)
               (fun x => (if a =? x then one O else oz) [*] f x
                         [+] (if in_dec Nat.eq_dec x l then f x else oz))).
    + rewrite (sv_isum_add O RT), (sv_isum_delta O RT).
      * ring.
      * apply seq_NoDup.
      * apply in_seq. pose proof (Hlt a (or_introl eq_refl)). lia.
    + intros x _.
      destruct (Nat.eqb_spec a x) as [Hax|Hax].
      * subst x.
        destruct (in_dec Nat.eq_dec a (a :: l)) as [_|Hn]; [|exfalso; apply Hn; left; reflexivity].
        destruct (in_dec Nat.eq_dec a l) as [Hi|_]; [contradiction|]. ring.
      * destruct (in_dec Nat.eq_dec x (a :: l)) as [Hi|Hn];
          destruct (in_dec Nat.eq_dec x l) as [Hi'|Hn'].
        -- ring.
        -- exfalso. destruct Hi as [Hi|Hi]; [contradiction|contradiction].
        -- exfalso. apply Hn. right; exact Hi'.
        -- ring.
Qed.

(** ** dense reading of a column with one more entry *)
Lemma f3_colent_app (es : list (nat * T)) r v i :
  colent O (es ++ [(r, v)]) i = colent O es i [+] (if r =? i then v else oz).
Proof.
  induction es as [|e es IH].
  - cbn [app]. rewrite sv_colent_cons. cbn [fst snd].
    assert (H0 : colent O [] i = oz) by reflexivity. rewrite H0.
    destruct (r =? i); ring.
  - cbn [app]. rewrite !sv_colent_cons, IH. destruct (fst e =? i); ring.
Qed.

(** ** the value of one stored row of a column of A *)
Definition f3_csum (Ai : list nat) (Ax : list T) (b : nat) (l : list nat) : T :=
  isum O (filter (fun idx => nth idx Ai 0 =? b) l) (fun idx => nth idx Ax oz).

Lemma f3_Aent_csum Ap Ai Ax i j : Aent O Ap Ai Ax i j = f3_csum Ai Ax i (col_range Ap j).
Proof. reflexivity. Qed.

Lemma f3_csum_nohit Ai Ax b : forall l,
  (forall x, In x l -> nth x Ai 0 <> b) -> f3_csum Ai Ax b l = oz.
Proof.
  induction l as [|a l IH]; intros H; [reflexivity|].
  unfold f3_csum. cbn [filter].
  destruct (Nat.eqb_spec (nth a Ai 0) b) as [Heq|Hne].
  - exfalso. apply (H a); [left; reflexivity|exact Heq].
  - apply IH. intros x Hx. apply H. right; exact Hx.
Qed.

Lemma f3_csum_app Ai Ax b l1 l2 :
  f3_csum Ai Ax b (l1 ++ l2) = f3_csum Ai Ax b l1 [+] f3_csum Ai Ax b l2.
Proof. unfold f3_csum. rewrite filter_app. apply (sv_isum_app O RT). Qed.

Lemma f3_csum_snoc_eq Ai Ax b done i :
  (forall x, In x done -> nth x Ai 0 <> b) -> nth i Ai 0 = b ->
  f3_csum Ai Ax b (done ++ [i]) = nth i Ax oz.
Proof.
  intros Hno Hi. rewrite f3_csum_app, (f3_csum_nohit Ai Ax b done Hno).
  unfold f3_csum. cbn [filter]. rewrite Hi, Nat.eqb_refl. cbn [isum fold_right]. ring.
Qed.

Lemma f3_csum_snoc_neq Ai Ax b done i :
  nth i Ai 0 <> b -> f3_csum Ai Ax b (done ++ [i]) = f3_csum Ai Ax b done.
Proof.
  intros Hi. rewrite f3_csum_app.
  rewrite (f3_csum_nohit Ai Ax b [i]).
  - ring.
  - intros x [Hx|[]]. subst x. exact Hi.
Qed.

(** ** phase A of row k *)
Definition f3_PA (n k : nat) (Ai : list nat) (Ax : list T) (done : list nat)
           (s : rowA_state (T:=T)) : Prop :=
  let '(dk, yv, marks, yidx) := s in
  dk = f3_csum Ai Ax k done /\ length yv = n /\
  (forall b, b < k -> nth b yv oz = f3_csum Ai Ax b done) /\
  (forall b, k <= b -> nth b yv oz = oz) /\
  length marks = n /\ NoDup yidx /\ (forall c, In c yidx -> c < k) /\
  (forall c, nth c marks false = true <-> In c yidx) /\
  (forall i, In i done -> nth i Ai 0 <> k -> In (nth i Ai 0) yidx).

Lemma f3_rowA_step n k Ai Ax et done s i s' :
  k < n -> f3_PA n k Ai Ax done s ->
  NoDup (map (fun idx => nth idx Ai 0) (done ++ [i])) ->
  nth i Ai 0 <= k ->
  rowA_step O n k Ai Ax et s i = Ok s' ->
  f3_PA n k Ai Ax (done ++ [i]) s'.
Proof.
  intros Hk HPA Hnodup Hle H.
  destruct s as [[[dk yv] marks] yidx].
  destruct HPA as (Hdk & Hlyv & Hlow & Hhigh & Hlm & Hnd & Hlt & Hmk & Hst).
  assert (Hfresh : forall x, In x done -> nth x Ai 0 <> nth i Ai 0).
  { rewrite map_app in Hnodup. cbn [map] in Hnodup. apply NoDup_remove_2 in Hnodup.
    rewrite app_nil_r in Hnodup. intros x Hx Heq. apply Hnodup. rewrite <- Heq.
    exact (in_map (fun idx => nth idx Ai 0) done x Hx). }
  unfold rowA_step in H. cbv zeta in H.
  destruct (Nat.eqb_spec (nth i Ai 0) k) as [Heq|Hne].
  - inversion H; subst s'; clear H.
    split; [symmetry; apply f3_csum_snoc_eq; [rewrite <- Heq; exact Hfresh|exact Heq]|].
    split; [exact Hlyv|].
    split; [intros b Hb; rewrite f3_csum_snoc_neq by lia; apply Hlow; exact Hb|].
    split; [exact Hhigh|]. split; [exact Hlm|]. split; [exact Hnd|]. split; [exact Hlt|].
    split; [exact Hmk|].
    intros i0 Hin Hr. apply in_app_or in Hin. destruct Hin as [Hin|[Hx|[]]].
    + apply Hst; assumption.
    + subst i0. contradiction.
  - set (bidx := nth i Ai 0) in *.
    assert (Hb : bidx < k) by lia.
    assert (Hlyv' : length (upd yv bidx (nth i Ax oz)) = n)
      by (rewrite sv_upd_length; exact Hlyv).
    assert (Hlow' : forall b, b < k ->
              nth b (upd yv bidx (nth i Ax oz)) oz = f3_csum Ai Ax b (done ++ [i])).
    { intros b Hbk. destruct (Nat.eq_dec b bidx) as [->|Hbb].
      - rewrite sv_nth_upd_eq by lia. symmetry. apply f3_csum_snoc_eq; [exact Hfresh|reflexivity].
      - rewrite sv_nth_upd_neq by exact Hbb.
        rewrite f3_csum_snoc_neq by (fold bidx; intros Hx; apply Hbb; symmetry; exact Hx).
        apply Hlow. exact Hbk. }
    assert (Hhigh' : forall b, k <= b -> nth b (upd yv bidx (nth i Ax oz)) oz = oz).
    { intros b Hbk. rewrite sv_nth_upd_neq by lia. apply Hhigh. exact Hbk. }
    assert (Hdk' : dk = f3_csum Ai Ax k (done ++ [i])).
    { rewrite f3_csum_snoc_neq by exact Hne. exact Hdk. }
    destruct (nth bidx marks false) eqn:Em.
    + inversion H; subst s'; clear H.
      split; [exact Hdk'|]. split; [exact Hlyv'|]. split; [exact Hlow'|].
      split; [exact Hhigh'|]. split; [exact Hlm|]. split; [exact Hnd|]. split; [exact Hlt|].
      split; [exact Hmk|].
      intros i0 Hin Hr. apply in_app_or in Hin. destruct Hin as [Hin|[Hx|[]]].
      * apply Hst; assumption.
      * subst i0. fold bidx. apply Hmk. exact Em.
    + destruct (reach_walk (S n) k et (nth bidx et None) (upd marks bidx true) [bidx])
        as [[m el]|e] eqn:ER; cbn [bind] in H; [|discriminate].
      inversion H; subst s'; clear H. cbn [fst snd].
      apply f3_reach_walk in ER.
      * destruct ER as (Hl & Hnd' & Hlt' & Hiff & Horig & Hincl).
        assert (Hbel : In bidx el) by (apply Hincl; left; reflexivity).
        assert (Hun : forall c, In c el -> nth c marks false = false).
        { intros c Hc. destruct (Horig c Hc) as [[Hx|[]]|Hm].
          - subst c. exact Em.
          - destruct (Nat.eq_dec c bidx) as [->|Hcb]; [exact Em|].
            rewrite sv_nth_upd_neq in Hm by exact Hcb. exact Hm. }
        split; [exact Hdk'|]. split; [exact Hlyv'|]. split; [exact Hlow'|].
        split; [exact Hhigh'|].
        split; [rewrite Hl, sv_upd_length; exact Hlm|].
        split.
        { apply f3_nodup_app; [exact Hnd|exact Hnd'|].
          intros x Hx Hx'. apply Hmk in Hx. rewrite (Hun x Hx') in Hx. discriminate. }
        split.
        { intros c Hc. apply in_app_or in Hc. destruct Hc as [Hc|Hc]; [apply Hlt|apply Hlt']; exact Hc. }
        split.
        { intros c. rewrite Hiff. split.
          - intros [Hm|Hin]; [|apply in_or_app; right; exact Hin].
            destruct (Nat.eq_dec c bidx) as [->|Hcb]; [apply in_or_app; right; exact Hbel|].
            rewrite sv_nth_upd_neq in Hm by exact Hcb.
            apply in_or_app. left. apply Hmk. exact Hm.
          - intros Hin. apply in_app_or in Hin. destruct Hin as [Hin|Hin]; [|right; exact Hin].
            left. destruct (Nat.eq_dec c bidx) as [->|Hcb]; [apply sv_nth_upd_eq; lia|].
            rewrite sv_nth_upd_neq by exact Hcb. apply Hmk. exact Hin. }
        intros i0 Hin Hr. apply in_app_or in Hin. destruct Hin as [Hin|[Hx|[]]].
        -- apply in_or_app. left. apply Hst; assumption.
        -- subst i0. fold bidx. apply in_or_app. right. exact Hbel.
      * rewrite sv_upd_length. lia.
      * constructor; [intros []|constructor].
      * intros c [Hx|[]]. subst c. split; [exact Hb|]. apply sv_nth_upd_eq. lia.
Qed.

Lemma f3_phaseA_gen n k Ai Ax et : k < n -> forall l done s s',
  f3_PA n k Ai Ax done s ->
  NoDup (map (fun idx => nth idx Ai 0) (done ++ l)) ->
  (forall i, In i l -> nth i Ai 0 <= k) ->
  foldM (rowA_step O n k Ai Ax et) l (Ok s) = Ok s' ->
  f3_PA n k Ai Ax (done ++ l) s'.
Proof.
  intros Hk. induction l as [|i l IH]; intros done s s' HPA Hnd Hle Hf.
  - rewrite fa_foldM_nil in Hf. inversion Hf; subst. rewrite app_nil_r. exact HPA.
  - rewrite fa_foldM_cons in Hf.
    destruct (rowA_step O n k Ai Ax et s i) as [s1|e] eqn:E;
      [|rewrite fa_foldM_err in Hf; discriminate].
    assert (Hre : done ++ i :: l = (done ++ [i]) ++ l)
      by (rewrite <- app_assoc; reflexivity).
    rewrite Hre in Hnd |- *.
    apply (IH (done ++ [i]) s1 s'); [|exact Hnd| |exact Hf].
    + apply (f3_rowA_step n k Ai Ax et done s i s1 Hk HPA);
        [|apply Hle; left; reflexivity|exact E].
      rewrite map_app in Hnd. apply f3_nodup_app_l in Hnd. exact Hnd.
    + intros i0 Hi0. apply Hle. right; exact Hi0.
Qed.

Lemma f3_phaseA n k Ap Ai Ax et (yv : list T) marks dk a marks1 yidx :
  k < n -> triu_nodup n Ap Ai ->
  length yv = n -> length marks = n ->
  (forall b, nth b yv oz = oz) -> (forall c, nth c marks false = false) ->
  foldM (rowA_step O n k Ai Ax et) (col_range Ap k) (Ok (oz, yv, marks, []))
  = Ok (dk, a, marks1, yidx) ->
  f3_PA n k Ai Ax (col_range Ap k) (dk, a, marks1, yidx).
Proof.
  intros Hk [Htri Hnodup] Hlyv Hlm Hy0 Hm0 Hf.
  apply (f3_phaseA_gen n k Ai Ax et Hk (col_range Ap k) [] (oz, yv, marks, [])).
  - split; [reflexivity|]. split; [exact Hlyv|].
    split; [intros b _; rewrite Hy0; reflexivity|].
    split; [intros b _; apply Hy0|]. split; [exact Hlm|]. split; [constructor|].
    split; [intros c []|].
    split; [|intros i []].
    intros c. rewrite Hm0. split; [discriminate|intros []].
  - cbn [app]. apply Hnodup. exact Hk.
  - intros i Hi. apply (Htri k i Hk Hi).
  - exact Hf.
Qed.

(** ** the reach, read densely *)
Definition f3_ybar (yidx : list nat) (y : nat -> T) (c : nat) : T :=
  if in_dec Nat.eq_dec c yidx then y c else oz.

Lemma f3_ybar_in yidx y c : In c yidx -> f3_ybar yidx y c = y c.
Proof.
  intros H. unfold f3_ybar. destruct (in_dec Nat.eq_dec c yidx); [reflexivity|contradiction].
Qed.

Lemma f3_ybar_notin yidx y c : ~ In c yidx -> f3_ybar yidx y c = oz.
Proof.
  intros H. unfold f3_ybar. destruct (in_dec Nat.eq_dec c yidx); [contradiction|reflexivity].
Qed.

Lemma f3_isum_single a f : isum O [a] f = f a [+] oz.
Proof. reflexivity. Qed.

(** the triangular system of phase B over the whole range 0..k-1 *)
Lemma f3_dense_system k (cols : list (list (nat * T))) (a : list T) yidx y :
  (forall c e, In e (nth c cols []) -> c < fst e) ->
  NoDup yidx -> (forall c, In c yidx -> c < k) ->
  reach_closed k cols yidx = true ->
  (forall c, In c yidx ->
     y c [+] isum O (prefix_before c (rev yidx))
                  (fun c' => colent O (nth c' cols []) c [*] y c') = nth c a oz) ->
  (forall c, c < k -> ~ In c yidx -> nth c a oz = oz) ->
  forall c, c < k ->
    f3_ybar yidx y c
    [+] isum O (seq 0 c) (fun c' => colent O (nth c' cols []) c [*] f3_ybar yidx y c')
    = nth c a oz.
Proof.
  intros Hcols Hnd Hlt Hrc Hsys Ha0 c Hc.
  set (h := fun c' => colent O (nth c' cols []) c [*] f3_ybar yidx y c').
  assert (Hcz : forall x, c <= x -> colent O (nth x cols []) c = oz).
  { intros x Hx. apply sv_colent_zero. intros e He. pose proof (Hcols x e He). lia. }
  rewrite (f3_isum_seq_extend c k h);
    [|lia|intros x Hx; unfold h; rewrite Hcz by lia; ring].
  destruct (in_dec Nat.eq_dec c yidx) as [Hin|Hnin].
  - rewrite (f3_ybar_in yidx y c Hin), <- (Hsys c Hin). f_equal.
    rewrite (f3_isum_reindex k _ (prefix_before c (rev yidx))).
    + apply sv_isum_ext. intros x _. unfold h. cbv beta.
      destruct (in_dec Nat.eq_dec x (prefix_before c (rev yidx))) as [Hp|Hp].
      * rewrite f3_ybar_in; [reflexivity|].
        rewrite in_rev. apply (fc_prefix_before_In c x _ Hp).
      * destruct (in_dec Nat.eq_dec x yidx) as [Hx|Hx].
        -- rewrite (sv_colent_zero O (nth x cols []) c); [ring|].
           intros e He Heq. apply Hp.
           apply f3_after_in_prefix; [apply NoDup_rev; exact Hnd|].
           rewrite <- Heq. apply (f3_reach_closed_after k cols yidx x e Hrc Hx He).
        -- rewrite (f3_ybar_notin yidx y x Hx). ring.
    + apply f3_prefix_nodup. apply NoDup_rev. exact Hnd.
    + intros x Hx. apply Hlt. rewrite in_rev. apply (fc_prefix_before_In c x _ Hx).
  - rewrite (f3_ybar_notin yidx y c Hnin), (Ha0 c Hc Hnin).
    rewrite (sv_isum_zero O RT).
    + ring.
    + intros x _. unfold h. destruct (in_dec Nat.eq_dec x yidx) as [Hx|Hx].
      * rewrite (sv_colent_zero O (nth x cols []) c); [ring|].
        intros e He Heq. apply Hnin. rewrite in_rev.
        apply (fc_after_in_In x c). rewrite <- Heq.
        apply (f3_reach_closed_after k cols yidx x e Hrc Hx He).
      * rewrite (f3_ybar_notin yidx y x Hx). ring.
Qed.

(** ** one more row of L and one more pivot: the identity extends *)
Section Extend.
Variables (n k : nat) (cols cols' : list (list (nat * T))) (Dg Dinv : list T)
          (yidx : list nat) (y : nat -> T) (dk' : T) (A : nat -> nat -> T).
Hypothesis Hk : k < n.
Hypothesis HlD : length Dg = n.
Hypothesis Hcols : forall c e, In e (nth c cols []) -> c < fst e < k.
Hypothesis Hnd : NoDup yidx.
Hypothesis Hlt : forall c, In c yidx -> c < k.
Hypothesis Happ : forall c, In c yidx ->
  nth c cols' [] = nth c cols [] ++ [(k, y c [*] nth c Dinv oz)].
Hypothesis Hsame : forall c, ~ In c yidx -> nth c cols' [] = nth c cols [].
Hypothesis Hrec : forall c, c < k -> nth c Dg oz [*] nth c Dinv oz = one O.
Hypothesis Hdense : forall c, c < k ->
  f3_ybar yidx y c
  [+] isum O (seq 0 c) (fun c' => colent O (nth c' cols []) c [*] f3_ybar yidx y c')
  = A c k.
Hypothesis Hdk :
  dk' = A k k [-] isum O (rev yidx) (fun c => y c [*] (y c [*] nth c Dinv oz)).
Hypothesis Hldl : forall i j, i <= j -> j < k ->
  isum O (seq 0 (S i)) (fun c => Ment O cols i c [*] nth c Dg oz [*] Ment O cols j c)
  = A i j.

Notation yb := (f3_ybar yidx y).

Lemma f3_Ment_old r c : r <> k -> Ment O cols' r c = Ment O cols r c.
Proof.
  intros Hr. unfold Ment. destruct (r =? c); [reflexivity|].
  destruct (in_dec Nat.eq_dec c yidx) as [Hin|Hnin].
  - rewrite (Happ c Hin), f3_colent_app.
    destruct (Nat.eqb_spec k r) as [Hx|_]; [exfalso; apply Hr; symmetry; exact Hx|]. ring.
  - rewrite (Hsame c Hnin). reflexivity.
Qed.

Lemma f3_Ment_new c : c < k -> Ment O cols' k c = yb c [*] nth c Dinv oz.
Proof.
  intros Hc. unfold Ment. destruct (Nat.eqb_spec k c) as [Hx|_]; [lia|].
  assert (Hz : colent O (nth c cols []) k = oz).
  { apply sv_colent_zero. intros e He. pose proof (Hcols c e He). lia. }
  destruct (in_dec Nat.eq_dec c yidx) as [Hin|Hnin].
  - rewrite (Happ c Hin), f3_colent_app, Hz, Nat.eqb_refl, (f3_ybar_in yidx y c Hin). ring.
  - rewrite (Hsame c Hnin), Hz, (f3_ybar_notin yidx y c Hnin). ring.
Qed.

Lemma f3_D_old c : c <> k -> nth c (upd Dg k dk') oz = nth c Dg oz.
Proof. intros Hc. apply sv_nth_upd_neq. exact Hc. Qed.

Lemma f3_ext_old i j : i <= j -> j < k ->
  isum O (seq 0 (S i))
       (fun c => Ment O cols' i c [*] nth c (upd Dg k dk') oz [*] Ment O cols' j c)
  = A i j.
Proof.
  intros Hij Hj. rewrite <- (Hldl i j Hij Hj).
  apply sv_isum_ext. intros c Hc. apply in_seq in Hc.
  rewrite (f3_Ment_old i c) by lia. rewrite (f3_Ment_old j c) by lia.
  rewrite f3_D_old by lia. reflexivity.
Qed.

Lemma f3_ext_offdiag i : i < k ->
  isum O (seq 0 (S i))
       (fun c => Ment O cols' i c [*] nth c (upd Dg k dk') oz [*] Ment O cols' k c)
  = A i k.
Proof.
  intros Hi.
  rewrite (sv_isum_ext O (seq 0 (S i)) _ (fun c => Ment O cols i c [*] yb c)).
  2:{ intros c Hc. apply in_seq in Hc.
      rewrite (f3_Ment_old i c) by lia. rewrite (f3_Ment_new c) by lia.
      rewrite f3_D_old by lia.
      transitivity (Ment O cols i c [*] yb c [*] (nth c Dg oz [*] nth c Dinv oz)); [ring|].
      rewrite Hrec by lia. ring. }
  rewrite seq_S, (sv_isum_app O RT), f3_isum_single. cbn [Nat.add].
  rewrite (sv_isum_ext O (seq 0 i) _ (fun c => colent O (nth c cols []) i [*] yb c)).
  2:{ intros c Hc. apply in_seq in Hc. unfold Ment.
      destruct (Nat.eqb_spec i c) as [Hx|_]; [lia|]. reflexivity. }
  unfold Ment. rewrite Nat.eqb_refl. rewrite <- (Hdense i Hi). ring.
Qed.

Lemma f3_ext_diag :
  isum O (seq 0 (S k))
       (fun c => Ment O cols' k c [*] nth c (upd Dg k dk') oz [*] Ment O cols' k c)
  = A k k.
Proof.
  rewrite seq_S, (sv_isum_app O RT), f3_isum_single. cbn [Nat.add].
  rewrite (sv_isum_ext O (seq 0 k) _ (fun c => yb c [*] (yb c [*] nth c Dinv oz))).
  2:{ intros c Hc. apply in_seq in Hc. rewrite (f3_Ment_new c) by lia.
      rewrite f3_D_old by lia.
      transitivity (yb c [*] (yb c [*] nth c Dinv oz) [*] (nth c Dg oz [*] nth c Dinv oz));
        [ring|].
      rewrite Hrec by lia. ring. }
  unfold Ment. rewrite Nat.eqb_refl.
  rewrite (sv_nth_upd_eq Dg k dk' oz) by (rewrite HlD; exact Hk).
  rewrite (sv_isum_ext O (seq 0 k) (fun c => yb c [*] (yb c [*] nth c Dinv oz))
             (fun x => if in_dec Nat.eq_dec x (rev yidx)
                       then (fun c => y c [*] (y c [*] nth c Dinv oz)) x else oz)).
  - rewrite <- (f3_isum_reindex k (fun c => y c [*] (y c [*] nth c Dinv oz)) (rev yidx)).
    + rewrite Hdk. ring.
    + apply NoDup_rev. exact Hnd.
    + intros x Hx. apply Hlt. rewrite in_rev. exact Hx.
  - intros x _. cbv beta. destruct (in_dec Nat.eq_dec x (rev yidx)) as [Hx|Hx].
    + rewrite f3_ybar_in by (rewrite in_rev; exact Hx). reflexivity.
    + rewrite f3_ybar_notin; [ring|]. intros Hy. apply Hx. rewrite <- in_rev. exact Hy.
Qed.

Lemma f3_extend i j : i <= j -> j < S k ->
  isum O (seq 0 (S i))
       (fun c => Ment O cols' i c [*] nth c (upd Dg k dk') oz [*] Ment O cols' j c)
  = A i j.
Proof.
  intros Hij Hj.
  destruct (Nat.eq_dec j k) as [->|Hjk].
  - destruct (Nat.eq_dec i k) as [->|Hik].
    + apply f3_ext_diag.
    + apply f3_ext_offdiag. lia.
  - apply f3_ext_old; [exact Hij|lia].
Qed.
End Extend.

(** ** the row invariant *)
Definition f3_Inv (n : nat) (Ap Ai : list nat) (Ax : list T) (k : nat)
           (st : fstate (T:=T)) : Prop :=
  length (fs_cols st) = n /\ length (fs_D st) = n /\ length (fs_Dinv st) = n /\
  length (fs_marks st) = n /\ length (fs_yvals st) = n /\
  (forall b, nth b (fs_yvals st) oz = oz) /\
  (forall c, nth c (fs_marks st) false = false) /\
  (forall c e, In e (nth c (fs_cols st) []) -> c < fst e < k) /\
  (forall c, c < k -> nth c (fs_D st) oz [*] nth c (fs_Dinv st) oz = one O) /\
  (forall i j, i <= j -> j < k ->
     isum O (seq 0 (S i))
          (fun c => Ment O (fs_cols st) i c [*] nth c (fs_D st) oz [*] Ment O (fs_cols st) j c)
     = Aent O Ap Ai Ax i j).

Hypothesis Hrecip : forall a, eqb O a oz = false -> a [*] div O (one O) a = one O.

Lemma f3_regularise_off P k d : fp_reg_enable P = false -> regularise O P k d = (d, false).
Proof. intros H. unfold regularise. rewrite H. reflexivity. Qed.

Lemma f3_row_step n Ap Ai Ax et P k st st' :
  fp_logical P = false -> fp_reg_enable P = false -> triu_nodup n Ap Ai -> k < n ->
  f3_Inv n Ap Ai Ax k st -> row_step O n Ap Ai Ax et P st k = Ok st' ->
  row_reach_closed O n Ai Ap Ax et st k = true -> f3_Inv n Ap Ai Ax (S k) st'.
Proof.
  intros Hl Hre Htn Hk HI Hrs Hrrc.
  destruct HI as (Hlc & HlD & HlDi & Hlm & Hly & Hy0 & Hm0 & Hcols & Hrec & Hldl).
  unfold row_step in Hrs. unfold row_reach_closed in Hrrc.
  destruct (foldM (rowA_step O n k Ai Ax et) (col_range Ap k)
                  (Ok (oz, fs_yvals st, fs_marks st, [])))
    as [[[[dk a] marks1] yidx]|e] eqn:EA; [|discriminate].
  cbn [bind] in Hrs.
  pose proof (f3_phaseA n k Ap Ai Ax et _ _ dk a marks1 yidx Hk Htn Hly Hlm Hy0 Hm0 EA) as HPA.
  destruct HPA as (Hdk & Hla & Hlow & Hhigh & Hlm1 & Hnd & Hlt & Hmk & Hst).
  rewrite Hl in Hrs.
  destruct (fold_left (rowB_step O false k (fs_Dinv st)) (rev yidx) (fs_cols st, a, marks1, dk))
    as [[[cols' yv'] marks'] dk'] eqn:EB.
  cbv beta iota in Hrs.
  assert (Hrange : forall c, In c yidx -> c < length (fs_cols st) /\ c < length a).
  { intros c Hc. apply Hlt in Hc. lia. }
  destruct (fc_rowB_forward_subst O RT k (fs_Dinv st) (fs_cols st) a marks1 dk yidx
              cols' yv' marks' dk' Hnd Hrange Hrrc EB)
    as (y & Hsys & Hlc' & Happ & Hsame & Hlyv' & Hyz & Hykeep & Hdk' & Hmarks').
  apply pivot_finish_ok_ok in Hrs. cbv zeta in Hrs.
  rewrite (f3_regularise_off P k dk' Hre) in Hrs.
  cbn [fst snd fs_cols fs_D fs_Dinv fs_marks fs_yvals] in Hrs.
  destruct Hrs as (Hnz & Hc' & Hm' & Hy' & HD' & HDi' & _ & _).
  assert (Ha0 : forall c, c < k -> ~ In c yidx -> nth c a oz = oz).
  { intros c Hc Hn. rewrite (Hlow c Hc). apply f3_csum_nohit.
    intros x Hx Heq. apply Hn. rewrite <- Heq. apply Hst; [exact Hx|lia]. }
  assert (Hcols1 : forall c e, In e (nth c (fs_cols st) []) -> c < fst e).
  { intros c e He. apply Hcols in He. lia. }
  pose proof (f3_dense_system k (fs_cols st) a yidx y Hcols1 Hnd Hlt Hrrc Hsys Ha0) as Hdense.
  unfold f3_Inv. rewrite Hc', Hm', Hy', HD', HDi'.
  split; [rewrite Hlc'; exact Hlc|].
  split; [rewrite sv_upd_length; exact HlD|].
  split; [rewrite sv_upd_length; exact HlDi|].
  split.
  { rewrite Hmarks'. rewrite sv_fold_length; [exact Hlm1|].
    intros s0 a0. apply sv_upd_length. }
  split; [rewrite Hlyv'; exact Hla|].
  split.
  { intros b. destruct (in_dec Nat.eq_dec b yidx) as [Hb|Hb]; [apply Hyz; exact Hb|].
    rewrite (Hykeep b Hb). destruct (le_lt_dec k b) as [Hkb|Hkb].
    - apply Hhigh. exact Hkb.
    - apply Ha0; assumption. }
  split.
  { intros c. destruct (nth c marks' false) eqn:Em; [|reflexivity].
    exfalso. rewrite Hmarks' in Em. apply f3_unmark_fold in Em.
    destruct Em as [Hm1 Hn]. apply Hn. rewrite <- in_rev. apply Hmk. exact Hm1. }
  split.
  { intros c e He. destruct (in_dec Nat.eq_dec c yidx) as [Hc|Hc].
    - rewrite (Happ c Hc) in He. apply in_app_or in He. destruct He as [He|[He|[]]].
      + apply Hcols in He. lia.
      + subst e. cbn [fst]. apply Hlt in Hc. lia.
    - rewrite (Hsame c Hc) in He. apply Hcols in He. lia. }
  split.
  { intros c Hc. destruct (Nat.eq_dec c k) as [->|Hck].
    - rewrite !sv_nth_upd_eq by lia. apply Hrecip. exact Hnz.
    - rewrite !sv_nth_upd_neq by exact Hck. apply Hrec. lia. }
  intros i j Hij Hj.
  apply (f3_extend n k (fs_cols st) cols' (fs_D st) (fs_Dinv st) yidx y dk'
                   (Aent O Ap Ai Ax) Hk HlD Hcols Hnd Hlt Happ Hsame Hrec).
  - intros c Hc. rewrite (Hdense c Hc). rewrite (Hlow c Hc). reflexivity.
  - rewrite Hdk', Hdk. reflexivity.
  - exact Hldl.
  - exact Hij.
  - exact Hj.
Qed.

(** ** row 0 *)
Lemma f3_d0 n Ap Ai Ax : triu_nodup n Ap Ai -> 0 < n ->
  (if nth 0 Ap 0 <? nth 1 Ap 0 then nth (nth 0 Ap 0) Ax oz else oz) = Aent O Ap Ai Ax 0 0.
Proof.
  intros [Htri Hnodup] Hn. specialize (Htri 0). specialize (Hnodup 0 Hn).
  unfold Aent. unfold col_range in *.
  set (a0 := nth 0 Ap 0) in *. set (a1 := nth 1 Ap 0) in *.
  remember (a1 - a0) as len eqn:Ed.
  destruct len as [|[|m]].
  - destruct (Nat.ltb_spec a0 a1); [lia|]. reflexivity.
  - destruct (Nat.ltb_spec a0 a1); [|lia]. cbn [seq filter].
    assert (H0 : nth a0 Ai 0 = 0).
    { assert (Hin : In a0 (seq a0 1)) by (apply in_seq; lia).
      pose proof (Htri a0 Hn Hin). lia. }
    rewrite H0. cbn [Nat.eqb]. rewrite f3_isum_single. ring.
  - exfalso. cbn [seq map] in Hnodup.
    inversion Hnodup as [|x l Hna _]; subst. apply Hna. left.
    assert (Hin0 : In a0 (seq a0 (S (S m)))) by (apply in_seq; lia).
    assert (Hin1 : In (S a0) (seq a0 (S (S m)))) by (apply in_seq; lia).
    pose proof (Htri a0 Hn Hin0). pose proof (Htri (S a0) Hn Hin1). lia.
Qed.

Lemma f3_base n Ap Ai Ax P st1 :
  fp_reg_enable P = false -> triu_nodup n Ap Ai -> 0 < n ->
  pivot_finish O P 0 (if nth 0 Ap 0 <? nth 1 Ap 0 then nth (nth 0 Ap 0) Ax oz else oz)
    (mkFS (repeat [] n) (repeat oz n) (repeat oz n) (repeat false n) (repeat oz n) 0 0)
  = Ok st1 ->
  f3_Inv n Ap Ai Ax 1 st1.
Proof.
  intros Hre Htn Hn H.
  apply pivot_finish_ok_ok in H. cbv zeta in H.
  rewrite (f3_regularise_off P 0 _ Hre) in H.
  cbn [fst snd fs_cols fs_D fs_Dinv fs_marks fs_yvals] in H.
  rewrite (f3_d0 n Ap Ai Ax Htn Hn) in H.
  destruct H as (Hnz & Hc' & Hm' & Hy' & HD' & HDi' & _ & _).
  unfold f3_Inv. rewrite Hc', Hm', Hy', HD', HDi'.
  split; [apply repeat_length|].
  split; [rewrite sv_upd_length; apply repeat_length|].
  split; [rewrite sv_upd_length; apply repeat_length|].
  split; [apply repeat_length|]. split; [apply repeat_length|].
  split; [intros b; apply f3_nth_repeat|].
  split; [intros c; apply f3_nth_repeat|].
  split; [intros c e He; rewrite f3_nth_repeat_nil in He; destruct He|].
  split.
  { intros c Hc. assert (c = 0) by lia. subst c.
    rewrite !sv_nth_upd_eq by (rewrite repeat_length; exact Hn).
    apply Hrecip. exact Hnz. }
  intros i j Hij Hj. assert (j = 0) by lia. subst j. assert (i = 0) by lia. subst i.
  cbn [seq]. rewrite f3_isum_single. unfold Ment. cbn [Nat.eqb].
  rewrite sv_nth_upd_eq by (rewrite repeat_length; exact Hn). ring.
Qed.

(** ** the row loop, together with its instrumented replay *)
Definition f3_F (n : nat) (Ap Ai : list nat) (Ax : list T) (et : list (option nat))
           (P : fparams (T:=T)) :=
  fun (acc : res (fstate (T:=T)) * bool) k =>
    match fst acc with
    | Ok st => (row_step O n Ap Ai Ax et P st k,
                snd acc && row_reach_closed O n Ai Ap Ax et st k)
    | Err _ => acc
    end.

Lemma f3_F_false n Ap Ai Ax et P : forall l r,
  snd (fold_left (f3_F n Ap Ai Ax et P) l (r, false)) = false.
Proof.
  induction l as [|a l IH]; intros r; cbn [fold_left]; [reflexivity|].
  assert (Hx : exists r', f3_F n Ap Ai Ax et P (r, false) a = (r', false)).
  { unfold f3_F. cbn [fst snd]. destruct r; eexists; reflexivity. }
  destruct Hx as [r' Hx]. rewrite Hx. apply IH.
Qed.

Lemma f3_rows n Ap Ai Ax et P :
  fp_logical P = false -> fp_reg_enable P = false -> triu_nodup n Ap Ai ->
  forall m a s s' b, a + m <= n -> f3_Inv n Ap Ai Ax a s ->
    foldM (row_step O n Ap Ai Ax et P) (seq a m) (Ok s) = Ok s' ->
    snd (fold_left (f3_F n Ap Ai Ax et P) (seq a m) (Ok s, b)) = true ->
    f3_Inv n Ap Ai Ax (a + m) s'.
Proof.
  intros Hl Hre Htn. induction m as [|m IH]; intros a s s' b Hle HI Hf Hr.
  - cbn [seq] in Hf. rewrite fa_foldM_nil in Hf. inversion Hf; subst.
    rewrite Nat.add_0_r. exact HI.
  - cbn [seq] in Hf, Hr. rewrite fa_foldM_cons in Hf. cbn [fold_left] in Hr.
    destruct (row_step O n Ap Ai Ax et P s a) as [s1|e] eqn:E;
      [|rewrite fa_foldM_err in Hf; discriminate].
    assert (HF : f3_F n Ap Ai Ax et P (Ok s, b) a
                 = (Ok s1, b && row_reach_closed O n Ai Ap Ax et s a)).
    { unfold f3_F. cbn [fst snd]. rewrite E. reflexivity. }
    rewrite HF in Hr.
    destruct (row_reach_closed O n Ai Ap Ax et s a) eqn:Erc.
    + replace (a + S m) with (S a + m) by lia.
      apply (IH (S a) s1 s' (b && true)); [lia| |exact Hf|exact Hr].
      apply (f3_row_step n Ap Ai Ax et P a s s1 Hl Hre Htn); [lia|exact HI|exact E|exact Erc].
    + rewrite andb_false_r in Hr. rewrite f3_F_false in Hr. discriminate.
Qed.

Lemma f3_factor_inv n Ap Ai Ax et P st :
  fp_logical P = false -> fp_reg_enable P = false -> triu_nodup n Ap Ai ->
  factor_inner O n Ap Ai Ax et P = Ok st ->
  reach_closed_all O n Ap Ai Ax et P = true ->
  f3_Inv n Ap Ai Ax n st.
Proof.
  intros Hl Hre Htn Hf Hrca.
  unfold factor_inner in Hf. cbv zeta in Hf. rewrite Hl in Hf.
  destruct (Nat.eqb_spec n 0) as [Hn0|Hn0]; [discriminate|].
  set (st0 := mkFS (repeat [] n) (repeat oz n) (repeat oz n) (repeat false n) (repeat oz n) 0 0).
  set (d0 := if nth 0 Ap 0 <? nth 1 Ap 0 then nth (nth 0 Ap 0) Ax oz else oz).
  assert (Hf' : bind (pivot_finish O P 0 d0 st0)
                     (fun st1 => foldM (row_step O n Ap Ai Ax et P) (seq 1 (n - 1)) (Ok st1))
                = Ok st) by exact Hf.
  assert (Hr' : match pivot_finish O P 0 d0 st0 with
                | Err _ => true
                | Ok st1 => snd (fold_left (f3_F n Ap Ai Ax et P) (seq 1 (n - 1)) (Ok st1, true))
                end = true) by exact Hrca.
  clear Hf Hrca.
  destruct (pivot_finish O P 0 d0 st0) as [st1|e] eqn:E1; [|discriminate Hf'].
  cbn [bind] in Hf'.
  assert (Hn : 0 < n) by lia.
  pose proof (f3_base n Ap Ai Ax P st1 Hre Htn Hn E1) as HI1.
  pose proof (f3_rows n Ap Ai Ax et P Hl Hre Htn (n - 1) 1 st1 st true) as HR.
  replace (1 + (n - 1)) with n in HR by lia.
  apply HR; [lia|exact HI1|exact Hf'|exact Hr'].
Qed.

End Ring3.

(** * The statement of SpecFactorCorrect.v *)
Lemma factor_correct_partial_ok : stmt_factor_correct_partial.
Proof.
  intros T O n Ap Ai Ax et P st RL Hrecip Hl Hre Htn Hf Hrca i j Hij Hj.
  pose proof (f3_factor_inv O RL Hrecip n Ap Ai Ax et P st Hl Hre Htn Hf Hrca) as HI.
  destruct HI as (_ & _ & _ & _ & _ & _ & _ & _ & _ & Hldl).
  apply Hldl; assumption.
Qed.

(** * Non-vacuity: a 3x3 factorisation over the two-element field.
      [Z] has no reciprocals and [Q] is not a ring for Leibniz equality, so the executable
      instance is GF(2): zero = false, one = true, add = sub = xor, mul = and, 1/a = a.
      A = [[1,1,0],[1,0,1],[0,1,0]] (upper triangle stored with its diagonal), elimination
      tree 0 -> 1 -> 2.  The run gives L[1,0] = 1, L[2,1] = 1, D = (1,1,1). *)
Definition ex3_Ops : Ops bool :=
  mkOps bool false true xorb xorb andb (fun a _ => a) (fun a => a) (fun a => a) (fun a => a)
        (fun a b => negb a && b) (fun a b => negb a || b) Bool.eqb (fun z => Z.odd z).
Definition ex3_Ap : list nat := [0; 1; 3; 5].
Definition ex3_Ai : list nat := [0; 0; 1; 1; 2].
Definition ex3_Ax : list bool := [true; true; false; true; false].
Definition ex3_et : list (option nat) := [Some 1; Some 2; None].
Definition ex3_P : fparams (T:=bool) := mkFP false [] false false false.

Lemma ex3_ring : RingLaws ex3_Ops.
Proof. exact BoolTheory. Qed.

Lemma ex3_recip : forall a, eqb ex3_Ops a (zero ex3_Ops) = false ->
  mul ex3_Ops a (div ex3_Ops (one ex3_Ops) a) = one ex3_Ops.
Proof. intros [|] H; [reflexivity|discriminate H]. Qed.

Lemma ex3_triu : triu_nodup 3 ex3_Ap ex3_Ai.
Proof.
  split.
  - intros j idx Hj Hin. destruct j as [|[|[|j]]]; [| | |lia];
      cbn in Hin; intuition (subst; cbn; lia).
  - intros j Hj. destruct j as [|[|[|j]]]; [| | |lia];
      cbn; repeat constructor; cbn; intuition discriminate.
Qed.

Example ex3_run :
  exists st, factor_inner ex3_Ops 3 ex3_Ap ex3_Ai ex3_Ax ex3_et ex3_P = Ok st /\
             fs_cols st = [[(1, true)]; [(2, true)]; []] /\ fs_D st = [true; true; true].
Proof. eexists. vm_compute. repeat split; reflexivity. Qed.

Example ex3_reach : reach_closed_all ex3_Ops 3 ex3_Ap ex3_Ai ex3_Ax ex3_et ex3_P = true.
Proof. vm_compute. reflexivity. Qed.

(** the theorem instantiated at the example *)
Example ex3_ldl :
  exists st, factor_inner ex3_Ops 3 ex3_Ap ex3_Ai ex3_Ax ex3_et ex3_P = Ok st /\
    forall i j, i <= j -> j < 3 ->
      isum ex3_Ops (seq 0 (S i))
           (fun c => mul ex3_Ops (mul ex3_Ops (Ment ex3_Ops (fs_cols st) i c)
                                              (nth c (fs_D st) (zero ex3_Ops)))
                                 (Ment ex3_Ops (fs_cols st) j c))
      = Aent ex3_Ops ex3_Ap ex3_Ai ex3_Ax i j.
Proof.
  destruct ex3_run as (st & Hst & _). exists st. split; [exact Hst|].
  exact (factor_correct_partial_ok bool ex3_Ops 3 ex3_Ap ex3_Ai ex3_Ax ex3_et ex3_P st
           ex3_ring ex3_recip eq_refl eq_refl ex3_triu Hst ex3_reach).
Qed.
