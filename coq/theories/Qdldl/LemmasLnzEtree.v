(** Proof of [stmt_etree_lnz_count] (SpecLnz.v): the column counts [Lnz] computed by Liu's
    algorithm as transcribed in [etree] are the sizes of the elimination reaches in the final
    tree:  lnz[c] = #{ k < n | c < k and c is an ancestor-or-equal of a stored row of column k }.

    Structure.
    - a parent written during column j is j itself ([wpost], clause "new edges"), so a path of
      the tree after column j that ends at a node c < j only uses edges that were already
      present before column j ([le_anc_back]); hence the reach predicate of the rows k < j is
      the same in every later tree and the count invariant can be stated with the current
      (partial) tree ([linv]);
    - walk lemma [le_walk]: a walk marks exactly the unmarked ancestors of its start node (below
      j), adds one to [lnz] of each newly marked node, and re-establishes the closure "the
      parent of a marked node is marked";
    - column lemma [le_col]: after the stored indices [pre] the marked nodes below j are the
      reach of [pre] ([ccinv]); at the end of the column this is [in_reach .. j];
    - the fold over the columns. *)
From Coq Require Import List Arith Lia Bool.
Import ListNotations.
Require Import Clarabel.Base.Ops Clarabel.Qdldl.Model Clarabel.Qdldl.LemmasFactor
        Clarabel.Qdldl.SpecBounds Clarabel.Qdldl.LemmasBounds Clarabel.Qdldl.SpecEtree
        Clarabel.Qdldl.SpecLnz Clarabel.Qdldl.LemmasEtreeAnc.

(** ** counting *)
Lemma cnt_functional_ok : stmt_cnt_functional.
Proof.
  intros R c m. induction m as [|m IH]; intros v1 v2 H1 H2.
  - inversion H1; inversion H2; subst. reflexivity.
  - inversion H1 as [|m1 a1 Hr1 Hc1|m1 a1 Hr1 Hc1];
      inversion H2 as [|m2 a2 Hr2 Hc2|m2 a2 Hr2 Hc2]; subst.
    + f_equal. eapply IH; eauto.
    + contradiction.
    + contradiction.
    + eapply IH; eauto.
Qed.

Lemma le_cnt_ext (R R' : nat -> nat -> Prop) c : forall m v,
  (forall k, k < m -> (R k c <-> R' k c)) -> cnt R c m v -> cnt R' c m v.
Proof.
  intros m v Heq H. induction H as [|m v Hr Hc IH|m v Hr Hc IH].
  - apply cnt_0.
  - apply cnt_yes.
    + apply (Heq m); [lia|exact Hr].
    + apply IH. intros k Hk. apply Heq. lia.
  - apply cnt_no.
    + intro Hr'. apply Hr. apply (Heq m); [lia|exact Hr'].
    + apply IH. intros k Hk. apply Heq. lia.
Qed.

(** ** paths *)
Lemma le_anc_le (e : list (option nat)) :
  (forall i p, nth i e None = Some p -> i < p) ->
  forall m x r, anc_iter e m x = Some r -> x <= r.
Proof.
  intros Hinc. induction m as [|m IH]; intros x r H; simpl in H.
  - inversion H; lia.
  - destruct (nth x e None) as [p|] eqn:E; [|discriminate].
    apply IH in H. apply Hinc in E. lia.
Qed.

(** a path of the larger tree that ends below [j] lives in the smaller tree, when all the
    additional edges point to nodes >= j *)
Lemma le_anc_back (e e' : list (option nat)) j :
  (forall i p, nth i e' None = Some p -> i < p) ->
  (forall x p, nth x e' None = Some p -> nth x e None = Some p \/ j <= p) ->
  forall m b c, c < j -> anc_iter e' m b = Some c -> anc_iter e m b = Some c.
Proof.
  intros Hinc Hnew. induction m as [|m IH]; intros b c Hc H; simpl in *.
  - exact H.
  - destruct (nth b e' None) as [p|] eqn:E; [|discriminate].
    assert (Hpc : p <= c) by (eapply le_anc_le; eauto).
    destruct (Hnew b p E) as [Hq|Hq]; [|lia].
    rewrite Hq. apply IH; assumption.
Qed.

Lemma le_is_anc_back (e e' : list (option nat)) j b c :
  (forall i p, nth i e' None = Some p -> i < p) ->
  (forall x p, nth x e' None = Some p -> nth x e None = Some p \/ j <= p) ->
  c < j -> is_anc e' b c -> is_anc e b c.
Proof. intros Hinc Hnew Hc [m Hm]. exists m. eapply le_anc_back; eauto. Qed.

(** marks closed under "parent" are closed under "ancestor" *)
Lemma le_closure_anc (w : list nat) (e : list (option nat)) j :
  (forall x p, nth x w 0 = j -> nth x e None = Some p -> nth p w 0 = j) ->
  forall m b x, anc_iter e m b = Some x -> nth b w 0 = j -> nth x w 0 = j.
Proof.
  intros Hcl. induction m as [|m IH]; intros b x H Hb; simpl in H.
  - inversion H as [Hbx]. rewrite <- Hbx. exact Hb.
  - destruct (nth b e None) as [p|] eqn:E; [|discriminate].
    eapply IH; [exact H|]. eapply Hcl; eauto.
Qed.

(** 1 if [x] carries the mark of column [j] *)
Definition vis (j : nat) (w : list nat) (x : nat) : nat := if nth x w 0 =? j then 1 else 0.

Lemma le_vis_eq j w x : nth x w 0 = j -> vis j w x = 1.
Proof. intros H. unfold vis. apply Nat.eqb_eq in H. rewrite H. reflexivity. Qed.

Lemma le_vis_neq j w x : nth x w 0 <> j -> vis j w x = 0.
Proof. intros H. unfold vis. apply Nat.eqb_neq in H. rewrite H. reflexivity. Qed.

Section LnzEtree.
Variables (n : nat) (Ap Ai : list nat).
Hypothesis Htri : upper_tri_e n Ap Ai.

(** ** one walk *)
Definition wpost (j i : nat) (w l : list nat) (e : list (option nat))
           (w' l' : list nat) (e' : list (option nat)) : Prop :=
  et_inv n (S j) (w', l', e') /\ nth j w' 0 = j /\
  (forall x, x < S j -> nth x w' 0 < S j) /\
  (forall x p, nth x w' 0 = j -> nth x e' None = Some p -> nth p w' 0 = j) /\
  et_le e e' /\
  (forall x p, nth x e' None = Some p -> nth x e None = Some p \/ p = j) /\
  (forall x, nth x w 0 = j -> nth x w' 0 = j) /\
  (forall x, nth x w' 0 = j -> nth x w 0 = j \/ is_anc e' i x) /\
  nth i w' 0 = j /\
  (forall x, nth x l' 0 + vis j w x = nth x l 0 + vis j w' x) /\
  (forall x, j <= x -> nth x l' 0 = nth x l 0).

Lemma le_walk j : j < n -> forall fuel i w l e w' l' e',
  i <= j -> et_inv n (S j) (w, l, e) -> nth j w 0 = j ->
  (forall x, x < S j -> nth x w 0 < S j) ->
  (forall x p, nth x w 0 = j -> nth x e None = Some p -> nth p w 0 = j \/ p = i) ->
  etree_walk fuel j i (w, l, e) = Ok (w', l', e') ->
  wpost j i w l e w' l' e'.
Proof.
  intros Hj. induction fuel as [|f IH]; intros i w l e w' l' e' Hi HI Hw HB HC H.
  - simpl in H. discriminate.
  - simpl in H. destruct (nth i w 0 =? j) eqn:E.
    + inversion H; subst; clear H. apply Nat.eqb_eq in E.
      unfold wpost.
      split; [exact HI|]. split; [exact Hw|]. split; [exact HB|].
      split.
      { intros x p Hx Hp. destruct (HC x p Hx Hp) as [Hq|Hq]; [exact Hq|].
        rewrite Hq. exact E. }
      split; [apply ea_et_le_refl|].
      split. { intros x p Hp. left; exact Hp. }
      split. { intros x Hx. exact Hx. }
      split. { intros x Hx. left; exact Hx. }
      split; [exact E|].
      split. { intros x. reflexivity. }
      intros x Hx. reflexivity.
    + apply Nat.eqb_neq in E.
      assert (Hij : i < j).
      { destruct (Nat.eq_dec i j) as [->|Hne]; [congruence|lia]. }
      destruct HI as (Hlw & Hll & Hle & Het).
      set (e1 := match nth i e None with None => upd e i (Some j) | Some _ => e end) in *.
      assert (HI1 : et_inv n (S j) (upd w i j, upd l i (S (nth i l 0)), e1)).
      { unfold et_inv. rewrite !fa_upd_length.
        split; [exact Hlw|]. split; [exact Hll|].
        unfold e1. destruct (nth i e None) as [q|] eqn:Eq.
        - split; [exact Hle|exact Het].
        - rewrite fa_upd_length. split; [exact Hle|].
          intros i0 p Hp. destruct (Nat.eq_dec i i0) as [<-|Hne].
          + rewrite fa_nth_upd_eq in Hp by lia. inversion Hp; subst. lia.
          + rewrite fa_nth_upd_neq in Hp by exact Hne. apply Het; exact Hp. }
      assert (Hle1 : et_le e e1).
      { unfold e1. destruct (nth i e None) as [q|] eqn:Eq.
        - apply ea_et_le_refl.
        - apply ea_et_le_upd. exact Eq. }
      assert (Hnew1 : forall x p, nth x e1 None = Some p -> nth x e None = Some p \/ p = j).
      { unfold e1. destruct (nth i e None) as [q|] eqn:Eq.
        - intros x p Hp. left; exact Hp.
        - intros x p Hp. destruct (Nat.eq_dec i x) as [<-|Hne].
          + rewrite fa_nth_upd_eq in Hp by lia. inversion Hp. right; reflexivity.
          + rewrite fa_nth_upd_neq in Hp by exact Hne. left; exact Hp. }
      destruct (nth i e1 None) as [i1|] eqn:Ei; [|discriminate].
      assert (Hi1 : i < i1 < S j).
      { destruct HI1 as (_ & _ & _ & Het1). apply Het1 in Ei. exact Ei. }
      assert (Hstep : is_anc e1 i i1) by (apply ea_is_anc_step; exact Ei).
      specialize (IH i1 (upd w i j) (upd l i (S (nth i l 0))) e1 w' l' e').
      destruct IH as (R1 & R2 & R3 & R4 & R5 & R6 & R7 & R8 & R9 & R10 & R11);
        [lia|exact HI1| | | |exact H|].
      * rewrite fa_nth_upd_neq by lia. exact Hw.
      * intros x Hx. destruct (Nat.eq_dec i x) as [<-|Hne].
        -- rewrite fa_nth_upd_eq by lia. lia.
        -- rewrite fa_nth_upd_neq by exact Hne. apply HB; exact Hx.
      * intros x p Hx Hp. destruct (Nat.eq_dec i x) as [<-|Hne].
        -- right. rewrite Ei in Hp. inversion Hp; reflexivity.
        -- rewrite fa_nth_upd_neq in Hx by exact Hne.
           destruct (Hnew1 x p Hp) as [Hq|Hq].
           ++ destruct (HC x p Hx Hq) as [Hr|Hr].
              ** left. destruct (Nat.eq_dec i p) as [<-|Hne2]; [congruence|].
                 rewrite fa_nth_upd_neq by exact Hne2. exact Hr.
              ** left. rewrite Hr. apply fa_nth_upd_eq. lia.
           ++ left. rewrite Hq. rewrite fa_nth_upd_neq by lia. exact Hw.
      * unfold wpost.
        split; [exact R1|]. split; [exact R2|]. split; [exact R3|]. split; [exact R4|].
        split; [eapply ea_et_le_trans; eauto|].
        split.
        { intros x p Hp. destruct (R6 x p Hp) as [Hq|Hq]; [apply Hnew1; exact Hq|right; exact Hq]. }
        split.
        { intros x Hx. apply R7. destruct (Nat.eq_dec i x) as [<-|Hne]; [congruence|].
          rewrite fa_nth_upd_neq by exact Hne. exact Hx. }
        split.
        { intros x Hx. destruct (R8 x Hx) as [Hq|Hq].
          - destruct (Nat.eq_dec i x) as [<-|Hne]; [right; apply ea_is_anc_refl|].
            rewrite fa_nth_upd_neq in Hq by exact Hne. left; exact Hq.
          - right. eapply ea_is_anc_trans; [|exact Hq].
            eapply ea_is_anc_mono; [exact R5|exact Hstep]. }
        split.
        { apply R7. apply fa_nth_upd_eq. lia. }
        split.
        { intros x. specialize (R10 x). destruct (Nat.eq_dec i x) as [<-|Hne].
          - rewrite fa_nth_upd_eq in R10 by lia.
            rewrite (le_vis_eq j (upd w i j) i) in R10 by (apply fa_nth_upd_eq; lia).
            rewrite (le_vis_neq j w i) by exact E. lia.
          - rewrite fa_nth_upd_neq in R10 by exact Hne.
            unfold vis in *. rewrite fa_nth_upd_neq in R10 by exact Hne. exact R10. }
        intros x Hx. rewrite (R11 x Hx). apply fa_nth_upd_neq. lia.
Qed.

(** ** one column *)
(** the invariant inside column [j], after the stored indices [pre]; [w0], [lnz], [et] are the
    state at the start of the column (after [work[j] := j]) *)
Definition ccinv (j : nat) (w0 lnz : list nat) (et : list (option nat))
           (pre : list nat) (st : estate) : Prop :=
  et_inv n (S j) st /\ nth j (fst (fst st)) 0 = j /\
  (forall x, x < S j -> nth x (fst (fst st)) 0 < S j) /\
  (forall x p, nth x (fst (fst st)) 0 = j -> nth x (snd st) None = Some p ->
               nth p (fst (fst st)) 0 = j) /\
  et_le et (snd st) /\
  (forall x p, nth x (snd st) None = Some p -> nth x et None = Some p \/ p = j) /\
  (forall x, x < j -> nth x (fst (fst st)) 0 = j ->
             exists idx, In idx pre /\ is_anc (snd st) (nth idx Ai 0) x) /\
  (forall idx, In idx pre -> nth (nth idx Ai 0) (fst (fst st)) 0 = j) /\
  (forall x, nth x (snd (fst st)) 0 + vis j w0 x = nth x lnz 0 + vis j (fst (fst st)) x) /\
  (forall x, j <= x -> nth x (snd (fst st)) 0 = nth x lnz 0).

(** the invariant before column [k] *)
Definition linv (k : nat) (st : estate) : Prop :=
  et_inv n k st /\
  (forall x, x < k -> nth x (fst (fst st)) 0 < k) /\
  (forall c, c < n -> cnt (in_reach (snd st) Ap Ai) c k (nth c (snd (fst st)) 0)).

Lemma le_col j st st' :
  j < n -> linv j st -> etree_col n Ap Ai st j = Ok st' -> linv (S j) st'.
Proof.
  intros Hj (HI & HB & HN) H. destruct st as [[work lnz] et]. unfold etree_col in H.
  cbn [fst snd] in HB, HN.
  assert (HC : ccinv j (upd work j j) lnz et ([] ++ col_range Ap j) st').
  { eapply (ea_foldM_prefix _ (ccinv j (upd work j j) lnz et)); [| |exact H].
    - intros pre idx s1 s2 Hin (C1 & C2 & C3 & C4 & C5 & C6 & C7 & C8 & C9 & C10) Hs.
      destruct s1 as [[w1 l1] e1]. destruct s2 as [[w2 l2] e2]. cbn [fst snd] in *.
      assert (Hb : nth idx Ai 0 <= j).
      { apply Htri; [exact Hj|]. apply bd_in_col_range; exact Hin. }
      destruct (le_walk j Hj (S n) (nth idx Ai 0) w1 l1 e1 w2 l2 e2 Hb C1 C2 C3)
        as (R1 & R2 & R3 & R4 & R5 & R6 & R7 & R8 & R9 & R10 & R11); [|exact Hs|].
      + intros x p Hx Hp. left. eapply C4; eauto.
      + unfold ccinv. cbn [fst snd].
        split; [exact R1|]. split; [exact R2|]. split; [exact R3|]. split; [exact R4|].
        split; [eapply ea_et_le_trans; eauto|].
        split.
        { intros x p Hp. destruct (R6 x p Hp) as [Hq|Hq]; [apply C6; exact Hq|right; exact Hq]. }
        split.
        { intros x Hx Hwx. destruct (R8 x Hwx) as [Hq|Hq].
          - destruct (C7 x Hx Hq) as (idx' & Hin' & Ha). exists idx'.
            split; [apply in_or_app; left; exact Hin'|].
            eapply ea_is_anc_mono; [exact R5|exact Ha].
          - exists idx. split; [apply in_or_app; right; left; reflexivity|exact Hq]. }
        split.
        { intros idx' Hin'. apply in_app_or in Hin'. destruct Hin' as [Hin'|[<-|[]]].
          - apply R7. apply C8. exact Hin'.
          - exact R9. }
        split.
        { intros x. specialize (R10 x). specialize (C9 x). lia. }
        intros x Hx. rewrite (R11 x Hx). apply C10. exact Hx.
    - unfold ccinv. cbn [fst snd]. destruct HI as (Hlw & Hll & Hle & Het).
      split.
      { unfold et_inv. rewrite fa_upd_length. split; [exact Hlw|]. split; [exact Hll|].
        split; [exact Hle|]. intros i p Hp. apply Het in Hp. lia. }
      split; [apply fa_nth_upd_eq; lia|].
      split.
      { intros x Hx. destruct (Nat.eq_dec j x) as [<-|Hne].
        - rewrite fa_nth_upd_eq by lia. lia.
        - rewrite fa_nth_upd_neq by exact Hne. assert (Hx' : x < j) by lia.
          apply HB in Hx'. lia. }
      split.
      { intros x p Hwx Hp. exfalso. apply Het in Hp.
        rewrite fa_nth_upd_neq in Hwx by lia. assert (Hx' : x < j) by lia.
        apply HB in Hx'. lia. }
      split; [apply ea_et_le_refl|].
      split. { intros x p Hp. left; exact Hp. }
      split.
      { intros x Hx Hwx. exfalso. rewrite fa_nth_upd_neq in Hwx by lia.
        apply HB in Hx. lia. }
      split. { intros idx []. }
      split. { intros x. reflexivity. }
      intros x Hx. reflexivity. }
  destruct st' as [[w' l'] e']. simpl app in HC.
  destruct HC as (C1 & C2 & C3 & C4 & C5 & C6 & C7 & C8 & C9 & C10). cbn [fst snd] in *.
  split; [exact C1|]. split; [exact C3|].
  assert (Hinc : forall i p, nth i e' None = Some p -> i < p).
  { intros i p Hp. destruct C1 as (_ & _ & _ & Het1). apply Het1 in Hp. lia. }
  assert (Hnew : forall x p, nth x e' None = Some p -> nth x et None = Some p \/ j <= p).
  { intros x p Hp. destruct (C6 x p Hp) as [Hq|Hq]; [left; exact Hq|right; lia]. }
  intros c Hc. cbn [fst snd].
  (* the rows below j: same reach in the old and in the new tree *)
  assert (Hold : cnt (in_reach e' Ap Ai) c j (nth c lnz 0)).
  { apply (le_cnt_ext (in_reach et Ap Ai)); [|apply HN; exact Hc].
    intros k Hk. unfold in_reach. split.
    - intros (Hck & idx & Hin & Ha). split; [exact Hck|]. exists idx. split; [exact Hin|].
      eapply ea_is_anc_mono; [exact C5|exact Ha].
    - intros (Hck & idx & Hin & Ha). split; [exact Hck|]. exists idx. split; [exact Hin|].
      eapply (le_is_anc_back et e' j); [exact Hinc|exact Hnew|lia|exact Ha]. }
  (* row j *)
  destruct (Nat.lt_ge_cases c j) as [Hcj|Hcj].
  - assert (Hv0 : vis j (upd work j j) c = 0).
    { apply le_vis_neq. rewrite fa_nth_upd_neq by lia. apply HB in Hcj. lia. }
    specialize (C9 c). rewrite Hv0 in C9.
    destruct (Nat.eq_dec (nth c w' 0) j) as [Hwc|Hwc].
    + rewrite (le_vis_eq j w' c Hwc) in C9.
      replace (nth c l' 0) with (S (nth c lnz 0)) by lia.
      apply cnt_yes; [|exact Hold].
      unfold in_reach. split; [exact Hcj|].
      destruct (C7 c Hcj Hwc) as (idx & Hin & Ha). exists idx. split; assumption.
    + rewrite (le_vis_neq j w' c Hwc) in C9.
      replace (nth c l' 0) with (nth c lnz 0) by lia.
      apply cnt_no; [|exact Hold].
      unfold in_reach. intros (_ & idx & Hin & [m Hm]). apply Hwc.
      eapply (le_closure_anc w' e' j C4 m (nth idx Ai 0) c Hm).
      apply C8. exact Hin.
  - rewrite (C10 c Hcj). apply cnt_no; [|exact Hold].
    unfold in_reach. intros (Hlt & _). lia.
Qed.
End LnzEtree.

(** ** all columns *)
Lemma le_main : stmt_etree_lnz_count.
Proof.
  intros n Ap Ai lnz et Htri H. unfold etree in H.
  destruct (foldM (etree_col n Ap Ai) (seq 0 n) (Ok (repeat 0 n, repeat 0 n, repeat None n)))
    as [st|e] eqn:E; [|discriminate].
  cbn [bind] in H. destruct st as [[work lnz'] et']. inversion H; subst; clear H.
  pose proof (fa_foldM_seq_inv (etree_col n Ap Ai) (linv n Ap Ai) n) as HF.
  specialize (HF (fun k s s' Hk HI Hs => le_col n Ap Ai Htri k s s' Hk HI Hs)).
  specialize (HF n 0 (repeat 0 n, repeat 0 n, repeat None n) (work, lnz, et) (le_n _)).
  simpl plus in HF.
  destruct HF as (_ & _ & HN); [|exact E|].
  - split.
    + unfold et_inv. rewrite !repeat_length.
      split; [reflexivity|]. split; [reflexivity|]. split; [reflexivity|].
      intros i p Hp. exfalso. eapply bd_nth_repeat_none; exact Hp.
    + split.
      * intros x Hx. lia.
      * intros c Hc. cbn [fst snd]. rewrite nth_repeat. apply cnt_0.
  - intros c Hc. apply (HN c Hc).
Qed.

(** non-vacuity: the dense 3x3 upper triangle; the tree is the chain 0 -> 1 -> 2, column 0 of
    L has 2 entries, column 1 has 1 *)
Example le_example_hyps :
  upper_tri_e 3 [0; 1; 3; 6] [0; 0; 1; 0; 1; 2] /\
  etree 3 [0; 1; 3; 6] [0; 0; 1; 0; 1; 2] = Ok ([2; 1; 0], [Some 1; Some 2; None]).
Proof. exact ea_example_hyps. Qed.

Example le_example : forall c, c < 3 ->
  cnt (in_reach [Some 1; Some 2; None] [0; 1; 3; 6] [0; 0; 1; 0; 1; 2]) c 3 (nth c [2; 1; 0] 0).
Proof.
  destruct le_example_hyps as [Htri He].
  exact (le_main 3 _ _ _ _ Htri He).
Qed.

(** the instance says something: column 0 is in the reach of row 2 *)
Example le_example_use : in_reach [Some 1; Some 2; None] [0; 1; 3; 6] [0; 0; 1; 0; 1; 2] 2 0.
Proof.
  split; [lia|]. exists 3. split; [unfold col_range; cbn; tauto|]. exists 0. reflexivity.
Qed.

Lemma etree_lnz_count_ok : stmt_etree_lnz_count.
Proof. exact le_main. Qed.
