(** The number of entries [factor_inner] writes into column c of L is the number of rows k
    whose elimination reach contains c ([stmt_factor_cols_count]). *)
From Coq Require Import List Arith Lia Bool.
Import ListNotations.
Require Import Clarabel.Base.Ops Clarabel.Qdldl.Model Clarabel.Qdldl.SpecSolve
        Clarabel.Qdldl.SpecFactor
        Clarabel.Qdldl.SpecFactorCorrect Clarabel.Qdldl.SpecEtree Clarabel.Qdldl.SpecLnz.
Require Import Clarabel.Qdldl.LemmasFactor Clarabel.Qdldl.LemmasBounds
        Clarabel.Qdldl.LemmasEtreeAnc Clarabel.Qdldl.LemmasReach.

(** ** the walk only pushes ancestors of its start, and keeps what was pushed *)
Lemma lz_walk_anc k et b : forall fuel next marks elim marks' elim',
  reach_walk fuel k et next marks elim = Ok (marks', elim') ->
  (forall x, In x elim -> is_anc et b x) ->
  (forall nx, next = Some nx -> is_anc et b nx) ->
  (forall x, In x elim' -> is_anc et b x) /\ (forall x, In x elim -> In x elim').
Proof.
  induction fuel as [|f IH]; intros next marks elim marks' elim' H Hel Hnx; simpl in H;
    [discriminate|].
  destruct next as [nx|].
  2:{ injection H as Hm He. subst. split; [exact Hel|auto]. }
  destruct (nx <? k).
  2:{ injection H as Hm He. subst. split; [exact Hel|auto]. }
  destruct (nth nx marks false).
  { injection H as Hm He. subst. split; [exact Hel|auto]. }
  apply IH in H.
  - destruct H as [H1 H2]. split; [exact H1|]. intros x Hx. apply H2. right; exact Hx.
  - intros x [Hx|Hx]; [subst x; apply Hnx; reflexivity|apply Hel; exact Hx].
  - intros p Hp. eapply ea_is_anc_trans; [apply Hnx; reflexivity|].
    apply ea_is_anc_step. exact Hp.
Qed.

(** ** one row *)
Section Row.
Variables (n : nat) (et : list (option nat)).
Hypothesis Het : etree_in_range_p n et.
Variable k : nat.
Hypothesis Hk : k < n.
Context {T : Type} (O : Ops T).
Variables (Ap Ai : list nat) (Ax : list T).
Hypothesis Htri : upper_tri_e n Ap Ai.
Hypothesis Hdesc : entries_descend n Ap Ai et.

(** invariant of the first loop, with the processed prefix of the column visible *)
Definition RI (pre : list nat) (s : rowA_state (T:=T)) : Prop :=
  Good n et k (snd s) (snd (fst s)) /\
  (forall x, In x (snd s) -> exists idx, In idx pre /\ is_anc et (nth idx Ai 0) x) /\
  (forall idx, In idx pre -> nth idx Ai 0 <> k -> In (nth idx Ai 0) (snd s)).

Lemma lz_rowA_step pre s i s' :
  In i (col_range Ap k) -> RI pre s -> rowA_step O n k Ai Ax et s i = Ok s' ->
  RI (pre ++ [i]) s'.
Proof.
  intros Hi (HG & H5 & H6) H.
  pose proof (rc_rowA_step_good n et Het k Hk O Ap Ai Ax Htri Hdesc s i s' Hi HG H) as HG'.
  unfold GoodS in HG'.
  destruct s as [[[dk yv] marks] yidx]. simpl in HG, H5, H6.
  unfold rowA_step in H. cbv zeta in H.
  pose proof (Htri k i Hk (bd_in_col_range _ _ _ Hi)) as Hbk.
  remember (nth i Ai 0) as b eqn:Eb.
  assert (H5' : forall x, In x yidx ->
            exists idx, In idx (pre ++ [i]) /\ is_anc et (nth idx Ai 0) x).
  { intros x Hx. destruct (H5 x Hx) as (idx & Hin & Ha). exists idx. split; [|exact Ha].
    apply in_or_app. left; exact Hin. }
  destruct (b =? k) eqn:Ebk.
  { injection H as H. subst s'. cbn [fst snd] in *. split; [exact HG'|]. split; [exact H5'|].
    intros idx Hin Hne. apply in_app_or in Hin. destruct Hin as [Hin|[Hin|[]]].
    - apply H6; assumption.
    - subst idx. apply Nat.eqb_eq in Ebk. rewrite <- Eb in Hne. contradiction. }
  apply Nat.eqb_neq in Ebk.
  destruct (nth b marks false) eqn:Em.
  { injection H as H. subst s'. cbn [fst snd] in *. split; [exact HG'|]. split; [exact H5'|].
    intros idx Hin Hne. apply in_app_or in Hin. destruct Hin as [Hin|[Hin|[]]].
    - apply H6; assumption.
    - subst idx. rewrite <- Eb. destruct HG as (_ & _ & _ & _ & Hmk).
      apply Hmk; [lia|exact Em]. }
  destruct (reach_walk (S n) k et (nth b et None) (upd marks b true) [b])
    as [[marks' elim']|e] eqn:EW; cbn [bind] in H; [|discriminate].
  injection H as H. subst s'. cbn [fst snd] in *.
  destruct (lz_walk_anc k et b _ _ _ _ _ _ EW) as [HA HB].
  { intros x [Hx|[]]. subst x. apply ea_is_anc_refl. }
  { intros p Hp. apply ea_is_anc_step. exact Hp. }
  split; [exact HG'|]. split.
  - intros x Hx. apply in_app_or in Hx. destruct Hx as [Hx|Hx]; [apply H5'; exact Hx|].
    exists i. split; [apply in_or_app; right; left; reflexivity|].
    rewrite <- Eb. apply HA. exact Hx.
  - intros idx Hin Hne. apply in_app_or in Hin. apply in_or_app.
    destruct Hin as [Hin|[Hin|[]]].
    + left. apply H6; assumption.
    + subst idx. right. rewrite <- Eb. apply HB. left; reflexivity.
Qed.

Lemma lz_rowA_fold marks a :
  length marks = n -> (forall c, nth c marks false = false) ->
  forall yv,
  foldM (rowA_step O n k Ai Ax et) (col_range Ap k) (Ok (zero O, yv, marks, [])) = Ok a ->
  RI (col_range Ap k) a.
Proof.
  intros Hlen Hf yv H.
  change (RI ([] ++ col_range Ap k) a).
  eapply (ea_foldM_prefix _ RI); [| |exact H].
  - intros pre' x s1 s2 Hin HI Hs. eapply lz_rowA_step; eauto.
  - unfold RI. simpl. split; [|split].
    + unfold Good. split; [constructor|]. split; [intros x []|].
      split; [intros x p []|]. split; [exact Hlen|].
      intros c Hc. rewrite Hf. split; [discriminate|intros []].
    + intros x [].
    + intros idx [].
Qed.

(** the reach list is exactly the specified reach *)
Lemma lz_yidx_char a : RI (col_range Ap k) a ->
  forall c, In c (snd a) <-> in_reach et Ap Ai k c.
Proof.
  intros (HG & H5 & H6) c. split.
  - intros Hc. pose proof HG as (_ & G2 & _). split; [apply G2; exact Hc|].
    destruct (H5 c Hc) as (idx & Hin & Ha). exists idx. split; assumption.
  - intros (Hck & idx & Hin & [m Hm]).
    pose proof (Htri k idx Hk (bd_in_col_range _ _ _ Hin)) as Hbk.
    pose proof (rc_anc_ge n et Het _ _ _ Hm) as Hge.
    assert (Hne : nth idx Ai 0 <> k) by lia.
    pose proof (H6 idx Hin Hne) as Hb.
    destruct m as [|m].
    + simpl in Hm. injection Hm as Hm. rewrite <- Hm. exact Hb.
    + pose proof (rc_anc_closure n et Het k Hk _ _ HG m _ _ Hb Hm Hck) as Hbef.
      apply rc_before_In in Hbef. tauto.
Qed.

(** the second loop appends exactly one entry to each listed column *)
Lemma lz_rowB_fold_len lg Dinv : forall l cols yv marks dk,
  NoDup l -> (forall x, In x l -> x < length cols) ->
  exists cols' yv' marks' dk',
    fold_left (rowB_step O lg k Dinv) l (cols, yv, marks, dk) = (cols', yv', marks', dk') /\
    length cols' = length cols /\
    forall c, (In c l -> length (nth c cols' []) = S (length (nth c cols []))) /\
              (~ In c l -> length (nth c cols' []) = length (nth c cols [])).
Proof.
  induction l as [|cidx l IH]; intros cols yv marks dk Hnd Hlt.
  - exists cols, yv, marks, dk. simpl. split; [reflexivity|]. split; [reflexivity|].
    intros c. split; [intros []|reflexivity].
  - destruct (rc_rowB_step_shape k O lg Dinv cols yv marks dk cidx) as (v & yv1 & dk1 & Hs).
    cbn [fold_left]. rewrite Hs.
    apply NoDup_cons_iff in Hnd. destruct Hnd as [Hni Hnd].
    assert (Hcl : cidx < length cols) by (apply Hlt; left; reflexivity).
    destruct (IH (upd cols cidx (nth cidx cols [] ++ [(k, v)])) yv1 (upd marks cidx false) dk1 Hnd)
      as (cols' & yv' & marks' & dk' & Hf & Hl & Hlen).
    { intros x Hx. rewrite fa_upd_length. apply Hlt. right; exact Hx. }
    exists cols', yv', marks', dk'. split; [exact Hf|].
    split; [rewrite Hl; apply fa_upd_length|].
    intros c. destruct (Hlen c) as [Hy Hn]. destruct (Nat.eq_dec cidx c) as [Hc|Hc].
    + subst c. split.
      * intros _. rewrite (Hn Hni). rewrite fa_nth_upd_eq by exact Hcl.
        rewrite app_length. simpl. lia.
      * intros Hno. exfalso. apply Hno. left; reflexivity.
    + split.
      * intros [Hin|Hin]; [contradiction|]. rewrite (Hy Hin).
        rewrite fa_nth_upd_neq by exact Hc. reflexivity.
      * intros Hno. rewrite Hn by (intro Hin; apply Hno; right; exact Hin).
        rewrite fa_nth_upd_neq by exact Hc. reflexivity.
Qed.

Lemma lz_row_step_len P st st' :
  GInv n et k st -> row_step O n Ap Ai Ax et P st k = Ok st' ->
  forall c,
    (in_reach et Ap Ai k c /\
       length (nth c (fs_cols st') []) = S (length (nth c (fs_cols st) []))) \/
    (~ in_reach et Ap Ai k c /\
       length (nth c (fs_cols st') []) = length (nth c (fs_cols st) [])).
Proof.
  intros (Hcl & Hml & Hmf & Hce) H c. unfold row_step in H.
  destruct (foldM (rowA_step O n k Ai Ax et) (col_range Ap k)
                  (Ok (zero O, fs_yvals st, fs_marks st, []))) as [a|e] eqn:EA; [|discriminate].
  cbn [bind] in H.
  pose proof (lz_rowA_fold _ _ Hml Hmf _ EA) as HR.
  pose proof (lz_yidx_char a HR) as Hchar.
  destruct HR as (HG & _ & _).
  destruct a as [[[dk yv] marks] yidx]. simpl in HG, Hchar.
  pose proof HG as (G1 & G2 & _).
  destruct (lz_rowB_fold_len (fp_logical P) (fs_Dinv st) (rev yidx) (fs_cols st) yv marks dk)
    as (cols' & yv' & marks' & dk' & Hf & Hl & Hlen).
  { apply NoDup_rev. exact G1. }
  { intros x Hx. apply (proj2 (in_rev yidx x)) in Hx. apply G2 in Hx. lia. }
  rewrite Hf in H. cbv beta iota zeta in H.
  assert (Hcols : fs_cols st' = cols').
  { destruct (fp_logical P).
    - injection H as H. subst st'. reflexivity.
    - apply pivot_finish_ok_ok in H. cbv zeta in H. destruct H as (_ & Hc & _). exact Hc. }
  rewrite Hcols. destruct (Hlen c) as [Hy Hn].
  destruct (in_dec Nat.eq_dec c yidx) as [Hin|Hni].
  - left. split; [apply Hchar; exact Hin|]. apply Hy. apply (proj1 (in_rev yidx c)). exact Hin.
  - right. split; [intro Hr; apply Hni; apply Hchar; exact Hr|].
    apply Hn. intro Hr. apply Hni. apply (proj2 (in_rev yidx c)). exact Hr.
Qed.
End Row.

(** ** all rows *)
Lemma lz_initial_ginv {T} n et (st : fstate (T:=T)) :
  fs_cols st = repeat [] n -> fs_marks st = repeat false n -> GInv n et 1 st.
Proof.
  intros Hc Hm. unfold GInv. rewrite Hc, Hm. rewrite !repeat_length.
  split; [reflexivity|]. split; [reflexivity|]. split; [apply rc_nth_repeat_false|].
  intros c e He. rewrite bd_nth_repeat_nil in He. destruct He.
Qed.

Lemma factor_cols_count_ok : stmt_factor_cols_count.
Proof.
  intros T O n Ap Ai Ax et P st Htri Het Hdesc H c Hc.
  unfold factor_inner in H. cbv zeta in H.
  set (st0 := mkFS (repeat [] n) (repeat (zero O) n)
                   (repeat (if fp_logical P then one O else zero O) n)
                   (repeat false n) (repeat (zero O) n) 0 0) in *.
  destruct (if fp_logical P then Ok st0
            else if n =? 0 then Err Panicked
            else pivot_finish O P 0 (if nth 0 Ap 0 <? nth 1 Ap 0
                                     then nth (nth 0 Ap 0) Ax (zero O) else zero O) st0)
    as [st1|e] eqn:E1; cbn [bind] in H; [|discriminate].
  assert (H1 : fs_cols st1 = repeat [] n /\ fs_marks st1 = repeat false n).
  { destruct (fp_logical P).
    - injection E1 as E1. subst st1. split; reflexivity.
    - destruct (n =? 0); [discriminate|].
      apply pivot_finish_ok_ok in E1. cbv zeta in E1. destruct E1 as (_ & Hcc & Hm & _).
      rewrite Hcc, Hm. split; reflexivity. }
  destruct H1 as [Hc1 Hm1].
  set (J := fun (kk : nat) (s : fstate (T:=T)) =>
              GInv n et kk s /\
              forall c, c < n -> cnt (in_reach et Ap Ai) c kk (length (nth c (fs_cols s) []))).
  assert (HJ : J (1 + (n - 1)) st).
  { apply (fa_foldM_seq_inv (row_step O n Ap Ai Ax et P) J n) with (s := st1); [|lia| |exact H].
    - intros kk s s' Hkk [HG Hcnt] Hs. split.
      + eapply rc_row_step_ginv; eauto.
      + intros c' Hc'.
        destruct (lz_row_step_len n et Het kk Hkk O Ap Ai Ax Htri Hdesc P s s' HG Hs c')
          as [[Hr Hl]|[Hr Hl]]; rewrite Hl.
        * apply cnt_yes; [exact Hr|apply Hcnt; exact Hc'].
        * apply cnt_no; [exact Hr|apply Hcnt; exact Hc'].
    - split; [apply lz_initial_ginv; assumption|].
      intros c' Hc'. rewrite Hc1. rewrite bd_nth_repeat_nil. simpl.
      apply cnt_no; [|apply cnt_0]. intros [Hlt _]. lia. }
  replace (1 + (n - 1)) with n in HJ by lia.
  destruct HJ as [_ Hcnt]. apply Hcnt. exact Hc.
Qed.
