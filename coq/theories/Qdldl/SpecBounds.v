(** Index-range statements about the symbolic and numeric factorisation of clarabel::qdldl
    ([etree], [factor_inner], [flatten_cols] of Qdldl/Model.v): the logical content of the
    safety comments on the unchecked indexing in qdldl.rs.  Every index the factorisation
    produces is in range.  Valid for any [Ops T].  Statements only. *)
From Coq Require Import List Arith ZArith QArith Lia Bool.
Import ListNotations.
Require Import Clarabel.Base.Ops Clarabel.Qdldl.Model Clarabel.Qdldl.SpecFactor
               Clarabel.Qdldl.SpecSolve.
Local Close Scope Q_scope.

(** the stored pattern (Ap, Ai) of the first [n] columns is upper triangular *)
Definition upper_tri (n : nat) (Ap Ai : list nat) : Prop :=
  forall j idx, j < n -> nth j Ap 0 <= idx < nth (S j) Ap 0 -> nth idx Ai 0 <= j.

(** every parent in the elimination tree is strictly above its child and in range *)
Definition etree_in_range (n : nat) (et : list (option nat)) : Prop :=
  forall i p, i < n -> nth i et None = Some p -> i < p < n.

(** the columns of L hold only rows strictly below the diagonal and in range *)
Definition cols_in_range {T} (n : nat) (cols : list (list (nat * T))) : Prop :=
  forall c e, c < n -> In e (nth c cols []) -> c < fst e < n.

(** _etree: both outputs have length n, and the tree is strictly increasing and in range *)
Definition stmt_etree_bounds : Prop :=
  forall n Ap Ai lnz et,
    (forall j idx, j < n -> nth j Ap 0 <= idx < nth (S j) Ap 0 -> nth idx Ai 0 <= j) ->
    etree n Ap Ai = Ok (lnz, et) ->
    length lnz = n /\ length et = n /\
    forall i p, i < n -> nth i et None = Some p -> i < p < n.

(** _factor_inner: L is strictly lower triangular with rows in range, whatever [etree]
    was passed in *)
Definition stmt_factor_rows_in_range : Prop :=
  forall T (O : Ops T) n Ap Ai Ax et P st,
    (forall j idx, j < n -> nth j Ap 0 <= idx < nth (S j) Ap 0 -> nth idx Ai 0 <= j) ->
    factor_inner O n Ap Ai Ax et P = Ok st ->
    length (fs_cols st) = n /\
    forall c e, c < n -> In e (nth c (fs_cols st) []) -> c < fst e < n.

(** the flat layout of such columns, when no slot is padded, is a well-formed L in the
    sense of the solve theorems (SpecSolve.wf_L) *)
Definition stmt_flatten_wf_L : Prop :=
  forall T lnz (cols : list (list (nat * T))) pad li lx n,
    length lnz = n -> length cols = n ->
    (forall c e, c < n -> In e (nth c cols []) -> c < fst e < n) ->
    flatten_cols lnz cols pad = Ok (li, lx) ->
    (forall c, c < n -> length (nth c cols []) = nth c lnz 0) ->
    wf_L n (cumsum0 lnz) li.

(** the three together on the factorisation object: if the workspace matrix is upper
    triangular and every column of L fills its Lnz slot exactly, the (Lp, Li) returned by
    [factor_ws] satisfy the hypothesis [wf_L] of the solve theorems *)
Definition stmt_factor_ws_wf_L : Prop :=
  forall T (O : Ops T) perm iperm (w : @wsp T) logical F,
    let A := w_triuA w in
    let P := mkFP logical (w_Dsigns w) (w_reg_enable w) (w_eps w) (w_delta w) in
    upper_tri (sn A) (colptr A) (rowval A) ->
    length (w_Lnz w) = sn A ->
    (forall st, factor_inner O (sn A) (colptr A) (rowval A) (nzval A) (w_etree w) P = Ok st ->
                forall c, c < sn A -> length (nth c (fs_cols st) []) = nth c (w_Lnz w) 0) ->
    factor_ws O perm iperm w logical = Ok F ->
    wf_L (sn A) (f_Lp F) (f_Li F).

(** non-vacuity: the 3x3 dense upper triangle of SpecFactor *)
Definition stmt_bounds_example_etree : Prop :=
  upper_tri 3 ex_Ap ex_Ai /\
  etree 3 ex_Ap ex_Ai = Ok ([2; 1; 0], [Some 1; Some 2; None]).

Definition stmt_bounds_example_factor : Prop :=
  match factor_inner OpsQ 3 ex_Ap ex_Ai ex_Ax ex_et ex_P with
  | Ok st => map (map fst) (fs_cols st) = [[1; 2]; [2]; []] /\
             (forall c, c < 3 -> length (nth c (fs_cols st) []) = nth c [2; 1; 0] 0) /\
             match flatten_cols [2; 1; 0] (fs_cols st) 0%Q with
             | Ok (li, _) => li = [1; 2; 2] /\ cumsum0 [2; 1; 0] = [0; 2; 3; 3]
             | Err _ => False
             end
  | Err _ => False
  end.
