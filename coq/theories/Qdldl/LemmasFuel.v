(** Proofs of the statements in SpecFuel.v.  Purely structural: valid for any [Ops T]. *)
From Coq Require Import List Arith ZArith QArith Lia Bool.
Import ListNotations.
Require Import Clarabel.Base.Ops Clarabel.Qdldl.Model Clarabel.Qdldl.SpecFactor
        Clarabel.Qdldl.LemmasFactor Clarabel.Qdldl.SpecEtree Clarabel.Qdldl.SpecFuel.
Local Close Scope Q_scope.

(** ** foldM helpers: totality under an invariant, errors restricted to the visited elements *)
Lemma fu_foldM_total {S X} (f : S -> X -> res S) (I : S -> Prop) :
  forall l,
  (forall s x, In x l -> I s -> exists s', f s x = Ok s' /\ I s') ->
  forall s, I s -> exists s', foldM f l (Ok s) = Ok s' /\ I s'.
Proof.
  induction l as [|x l IH]; intros Hstep s HI.
  - exists s. rewrite fa_foldM_nil. split; [reflexivity|exact HI].
  - rewrite fa_foldM_cons.
    destruct (Hstep s x (or_introl eq_refl) HI) as (s1 & E1 & HI1). rewrite E1.
    apply IH; [|exact HI1].
    intros s2 x2 Hin H2. apply Hstep; [right; exact Hin|exact H2].
Qed.

Lemma fu_foldM_seq_total {S} (f : S -> nat -> res S) (I : nat -> S -> Prop) (hi : nat) :
  (forall k s, k < hi -> I k s -> exists s', f s k = Ok s' /\ I (Datatypes.S k) s') ->
  forall m a s, a + m <= hi -> I a s ->
  exists s', foldM f (seq a m) (Ok s) = Ok s' /\ I (a + m) s'.
Proof.
  intros Hstep m; induction m as [|m IH]; intros a s Hle HI.
  - exists s. simpl seq. rewrite fa_foldM_nil. replace (a + 0) with a by lia.
    split; [reflexivity|exact HI].
  - simpl seq. rewrite fa_foldM_cons.
    destruct (Hstep a s) as (s1 & E1 & HI1); [lia|exact HI|]. rewrite E1.
    replace (a + Datatypes.S m) with (Datatypes.S a + m) by lia.
    apply IH; [lia|exact HI1].
Qed.

Lemma fu_foldM_errs_in {S X} (f : S -> X -> res S) (Q : qerr -> Prop) :
  forall l,
  (forall s x e, In x l -> f s x = Err e -> Q e) ->
  forall s e, foldM f l (Ok s) = Err e -> Q e.
Proof.
  induction l as [|x l IH]; intros Hf s e H.
  - rewrite fa_foldM_nil in H. discriminate.
  - rewrite fa_foldM_cons in H. destruct (f s x) as [s1|e1] eqn:E.
    + eapply IH; [|exact H]. intros s2 x2 e2 Hin H2. eapply Hf; [right; exact Hin|exact H2].
    + rewrite fa_foldM_err in H. inversion H; subst. eapply Hf; [left; reflexivity|exact E].
Qed.

Lemma fu_in_col_range Ap j idx :
  In idx (col_range Ap j) -> nth j Ap 0 <= idx < nth (S j) Ap 0.
Proof. unfold col_range. intros H. apply in_seq in H. lia. Qed.

Lemma fu_nth_repeat_none {X} m i (p : X) : nth i (repeat None m) None = Some p -> False.
Proof.
  revert i; induction m as [|m IH]; intros [|i] H; simpl in H; try discriminate.
  eapply IH; exact H.
Qed.

(** ** _etree *)
Section Etree.
Variables (n : nat) (Ap Ai : list nat).
Hypothesis Htri : upper_tri_e n Ap Ai.

(** lengths, and every parent stored so far is above its child and below [k] *)
Definition fu_einv (k : nat) (st : estate) : Prop :=
  let '(work, lnz, et) := st in
  length work = n /\ length lnz = n /\ length et = n /\
  forall i p, nth i et None = Some p -> i < p < k.

(** inside column [j]: additionally the walk's sentinel work[j] = j *)
Definition fu_winv (j : nat) (st : estate) : Prop :=
  fu_einv (S j) st /\ nth j (fst (fst st)) 0 = j.

(** the node index strictly increases and is bounded by [j] *)
Lemma fu_etree_walk j : j < n -> forall fuel i st,
  i <= j -> j - i < fuel -> fu_winv j st ->
  exists st', etree_walk fuel j i st = Ok st' /\ fu_winv j st'.
Proof.
  intros Hj. induction fuel as [|f IH]; intros i st Hi Hfuel HI.
  - lia.
  - destruct st as [[work lnz] et]. cbn [etree_walk].
    destruct (nth i work 0 =? j) eqn:E.
    + exists (work, lnz, et). split; [reflexivity|exact HI].
    + apply Nat.eqb_neq in E.
      destruct HI as [(Hlw & Hll & Hle & Het) Hw]. cbn [fst] in Hw.
      assert (Hij : i < j).
      { destruct (Nat.eq_dec i j) as [->|Hne]; [congruence|lia]. }
      set (et' := match nth i et None with None => upd et i (Some j) | Some _ => et end).
      assert (HI' : fu_winv j (upd work i j, upd lnz i (S (nth i lnz 0)), et')).
      { split.
        - unfold fu_einv. rewrite !fa_upd_length.
          split; [exact Hlw|]. split; [exact Hll|].
          unfold et'. destruct (nth i et None) as [q|] eqn:Eq.
          + split; [exact Hle|exact Het].
          + rewrite fa_upd_length. split; [exact Hle|].
            intros i0 p Hp. destruct (Nat.eq_dec i i0) as [<-|Hne].
            * rewrite fa_nth_upd_eq in Hp by lia. inversion Hp; subst. lia.
            * rewrite fa_nth_upd_neq in Hp by exact Hne. apply Het; exact Hp.
        - cbn [fst]. rewrite fa_nth_upd_neq by lia. exact Hw. }
      assert (Hnx : exists i', nth i et' None = Some i').
      { unfold et'. destruct (nth i et None) as [q|] eqn:Eq.
        - exists q. exact Eq.
        - exists j. apply fa_nth_upd_eq. lia. }
      destruct Hnx as [i' Ei]. rewrite Ei.
      assert (Hb : i < i' < S j).
      { destruct HI' as [(_ & _ & _ & Het') _]. apply Het'. exact Ei. }
      apply IH; [lia|lia|exact HI'].
Qed.

Lemma fu_etree_col j st :
  j < n -> fu_einv j st -> exists st', etree_col n Ap Ai st j = Ok st' /\ fu_einv (S j) st'.
Proof.
  intros Hj HI. destruct st as [[work lnz] et]. unfold etree_col.
  destruct (fu_foldM_total (fun st idx => etree_walk (S n) j (nth idx Ai 0) st) (fu_winv j)
              (col_range Ap j)) with (s := (upd work j j, lnz, et)) as (st' & E & HI').
  - intros s x Hin Hs.
    assert (Hle : nth x Ai 0 <= j).
    { apply Htri; [exact Hj|]. apply fu_in_col_range; exact Hin. }
    apply fu_etree_walk; [exact Hj|exact Hle|lia|exact Hs].
  - destruct HI as (Hlw & Hll & Hle & Het). split.
    + unfold fu_einv. rewrite fa_upd_length.
      split; [exact Hlw|]. split; [exact Hll|]. split; [exact Hle|].
      intros i p Hp. apply Het in Hp. lia.
    + cbn [fst]. apply fa_nth_upd_eq. lia.
  - exists st'. split; [exact E|exact (proj1 HI')].
Qed.
End Etree.

Lemma etree_total_ok : stmt_etree_total.
Proof.
  intros n Ap Ai Htri. unfold etree.
  destruct (fu_foldM_seq_total (etree_col n Ap Ai) (fu_einv n) n
              (fun k s Hk HI => fu_etree_col n Ap Ai Htri k s Hk HI)
              n 0 (repeat 0 n, repeat 0 n, repeat None n)) as (st & E & _).
  - lia.
  - unfold fu_einv. rewrite !repeat_length.
    split; [reflexivity|]. split; [reflexivity|]. split; [reflexivity|].
    intros i p Hp. exfalso. eapply fu_nth_repeat_none; exact Hp.
  - assert (Hb : forall (r : res estate) s, r = Ok s ->
              exists lnz et, bind r (fun st0 : estate => let '(_, lnz0, et0) := st0 in Ok (lnz0, et0))
                             = Ok (lnz, et)).
    { intros r [[w l] e0] Hr. rewrite Hr. exists l, e0. reflexivity. }
    eapply Hb. exact E.
Qed.

(** ** the reach walk *)
Section Reach.
Variables (n k : nat) (et : list (option nat)).
Hypothesis Het : etree_in_range_p n et.
Hypothesis Hk : k <= n.

(** [k - next] strictly decreases because every parent is above its child *)
Lemma fu_reach_walk_gen : forall fuel next marks elim,
  match next with Some nx => k - nx | None => 0 end < fuel ->
  exists r, reach_walk fuel k et next marks elim = Ok r.
Proof.
  induction fuel as [|f IH]; intros next marks elim Hm.
  - lia.
  - cbn [reach_walk]. destruct next as [nx|]; [|eexists; reflexivity].
    destruct (nx <? k) eqn:E; [|eexists; reflexivity].
    apply Nat.ltb_lt in E.
    destruct (nth nx marks false); [eexists; reflexivity|].
    apply IH. destruct (nth nx et None) as [p|] eqn:Ep.
    + destruct Het as [_ Hr]. assert (Hp : nx < p < n) by (apply Hr; [lia|exact Ep]). lia.
    + lia.
Qed.
End Reach.

Lemma reach_walk_total_ok : stmt_reach_walk_total.
Proof.
  intros n k et x marks elim Het Hk Hx.
  apply (fu_reach_walk_gen n k et Het Hk).
  destruct (nth x et None) as [p|]; lia.
Qed.

(** ** _factor_inner *)
Section Factor.
Context {T : Type} (O : Ops T).
Variables (n : nat) (Ap Ai : list nat) (Ax : list T) (et : list (option nat)).
Hypothesis Htri : upper_tri_e n Ap Ai.
Hypothesis Het : etree_in_range_p n et.

(** on a stored index of column k the first-loop step cannot fail at all *)
Lemma fu_rowA_step_total k st i :
  k < n -> In i (col_range Ap k) -> exists st', rowA_step O n k Ai Ax et st i = Ok st'.
Proof.
  intros Hk Hin. destruct st as [[[dk yv] marks] yidx]. unfold rowA_step. cbv zeta.
  destruct (nth i Ai 0 =? k) eqn:E; [eexists; reflexivity|].
  apply Nat.eqb_neq in E.
  assert (Hb : nth i Ai 0 < k).
  { pose proof (Htri k i Hk (fu_in_col_range Ap k i Hin)) as Hle. lia. }
  destruct (nth (nth i Ai 0) marks false); [eexists; reflexivity|].
  destruct (reach_walk_total_ok n k et (nth i Ai 0) (upd marks (nth i Ai 0) true) [nth i Ai 0]
              Het (Nat.lt_le_incl _ _ Hk) Hb) as [r Er].
  rewrite Er. cbn [bind]. eexists; reflexivity.
Qed.

Lemma fu_row_step_err P st k e :
  k < n -> row_step O n Ap Ai Ax et P st k = Err e -> fp_logical P = false /\ e = ZeroPivot.
Proof.
  intros Hk H. unfold row_step in H.
  destruct (foldM (rowA_step O n k Ai Ax et) (col_range Ap k)
                  (Ok (zero O, fs_yvals st, fs_marks st, []))) as [a|e1] eqn:E.
  - cbn [bind] in H. destruct a as [[[dk yv] marks] yidx].
    destruct (fold_left _ _ _) as [[[cols yv'] marks'] dk'].
    destruct (fp_logical P); [discriminate|].
    split; [reflexivity|]. eapply fa_pivot_finish_err; exact H.
  - exfalso.
    eapply (fu_foldM_errs_in (rowA_step O n k Ai Ax et) (fun _ => False)); [|exact E].
    intros s x e0 Hin He0.
    destruct (fu_rowA_step_total k s x Hk Hin) as [s' Hs']. congruence.
Qed.

Lemma fu_rows_err P st1 e :
  foldM (row_step O n Ap Ai Ax et P) (seq 1 (n - 1)) (Ok st1) = Err e ->
  fp_logical P = false /\ e = ZeroPivot.
Proof.
  intros H.
  eapply (fu_foldM_errs_in (row_step O n Ap Ai Ax et P)
            (fun e => fp_logical P = false /\ e = ZeroPivot)); [|exact H].
  intros s x e0 Hin He0. apply in_seq in Hin.
  eapply fu_row_step_err; [|exact He0]. lia.
Qed.
End Factor.

Lemma factor_inner_errors_wf_ok : stmt_factor_inner_errors_wf.
Proof.
  intros T O n Ap Ai Ax et P e Htri Het H. unfold factor_inner in H. cbv zeta in H.
  destruct (fp_logical P) eqn:Hl.
  - cbn [bind] in H. apply (fu_rows_err O n Ap Ai Ax et Htri Het) in H.
    destruct H as [Hf _]. congruence.
  - destruct (n =? 0) eqn:En.
    + cbn [bind] in H. inversion H; subst. right. apply Nat.eqb_eq in En. auto.
    + destruct (pivot_finish O P 0 _ _) as [st1|e1] eqn:E1; cbn [bind] in H.
      * apply (fu_rows_err O n Ap Ai Ax et Htri Het) in H. left. exact (proj2 H).
      * inversion H; subst. left. eapply fa_pivot_finish_err; exact E1.
Qed.

Lemma factor_inner_no_fuel_ok : stmt_factor_inner_no_fuel.
Proof.
  intros T O n Ap Ai Ax et P Htri Het H.
  destruct (factor_inner_errors_wf_ok T O n Ap Ai Ax et P OutOfFuel Htri Het H) as [H1|[H1 _]];
    discriminate.
Qed.

(** ** non-vacuity *)
Example fuel_example_etree_ok : stmt_fuel_example_etree.
Proof.
  split; [|split; [vm_compute; reflexivity|]].
  - intros j idx Hj Hr. unfold ex_Ap, ex_Ai in *.
    destruct j as [|[|[|j]]]; simpl in Hr; try lia;
      repeat (destruct idx as [|idx]; simpl; try lia).
  - split; [reflexivity|]. intros i p Hi Hp.
    destruct i as [|[|[|i]]]; simpl in Hp; try discriminate; try lia;
      inversion Hp; subst; lia.
Qed.

(** the total-ness theorem instantiated on the example, and the numeric pass on it *)
Example fuel_example_total :
  exists lnz et, etree 3 ex_Ap ex_Ai = Ok (lnz, et) /\
                 factor_inner OpsQ 3 ex_Ap ex_Ai ex_Ax et ex_P <> Err OutOfFuel.
Proof.
  destruct fuel_example_etree_ok as (Htri & He & Hr).
  exists [2; 1; 0], [Some 1; Some 2; None]. split; [exact He|].
  apply factor_inner_no_fuel_ok; [exact Htri|exact Hr].
Qed.
