(** Statements: soundness of the exact dyadic residual checkers [chk_ldl] / [chk_solve]
    of [Qdldl/Check.v].  A verdict 0 of the boolean test implies the rational inequality
    it is meant to certify, for every index in range.  Statements only; proofs are in
    [LemmasChk.v]. *)
From Coq Require Import List Arith ZArith NArith QArith Qabs Lia Bool.
Import ListNotations.
Require Import Clarabel.Base.Ops Clarabel.Base.Dyadic Clarabel.Qdldl.Model Clarabel.Qdldl.Check.
Local Open Scope nat_scope.

(** rational meaning of dot products of dyadic vectors (plain, |.| on both sides, |.| on the
    left side only) *)
Definition Qdot (x y : list dy) : Q :=
  Qsum (map (fun p => (d2Q (fst p) * d2Q (snd p))%Q) (combine x y)).
Definition Qdot_aa (x y : list dy) : Q :=
  Qsum (map (fun p => (Qabs (d2Q (fst p)) * Qabs (d2Q (snd p)))%Q) (combine x y)).
Definition Qdot_al (x y : list dy) : Q :=
  Qsum (map (fun p => (Qabs (d2Q (fst p)) * d2Q (snd p))%Q) (combine x y)).

(** GOAL 1: | A[perm i, perm j] - sum_k M[i,k] Dg[k] M[j,k] |
            <= (c n 2^-53) * sum_k | M[i,k] Dg[k] M[j,k] |      for all i <= j < n *)
Definition stmt_chk_ldl_sound : Prop :=
  forall (c : Z) (n : N) (perm Acp Arv : list N) (Anz : list dy) (Lp Li : list N) (Lx Dg : list dy),
    chk_ldl c n perm Acp Arv Anz Lp Li Lx Dg = 0%N ->
    forall i j, i <= j < N.to_nat n ->
      let rows := map (lrow (N.to_nat n) (nats Lp) (nats Li) Lx) (seq 0 (N.to_nat n)) in
      let terms := map (fun t => dmul (dmul (fst (fst t)) (snd t)) (snd (fst t)))
                       (combine (combine (nth i rows []) (nth j rows [])) Dg) in
      (Qabs (d2Q (uget (nats Acp) (nats Arv) Anz (nth i (nats perm) 0%nat) (nth j (nats perm) 0%nat))
             - Qsum (map d2Q terms))
       <= d2Q (D (c * Z.of_N n) (-53)) * Qsum (map (fun t => Qabs (d2Q t)) terms))%Q.

(** GOAL 3: with c = 0 the certificate is exact equality *)
Definition stmt_chk_ldl_exact : Prop :=
  forall (n : N) (perm Acp Arv : list N) (Anz : list dy) (Lp Li : list N) (Lx Dg : list dy),
    chk_ldl 0 n perm Acp Arv Anz Lp Li Lx Dg = 0%N ->
    forall i j, i <= j < N.to_nat n ->
      let rows := map (lrow (N.to_nat n) (nats Lp) (nats Li) Lx) (seq 0 (N.to_nat n)) in
      let terms := map (fun t => dmul (dmul (fst (fst t)) (snd t)) (snd (fst t)))
                       (combine (combine (nth i rows []) (nth j rows [])) Dg) in
      (d2Q (uget (nats Acp) (nats Arv) Anz (nth i (nats perm) 0%nat) (nth j (nats perm) 0%nat))
       == Qsum (map d2Q terms))%Q.

(** GOAL 2: row-wise residual bound of a solve, oi = perm i:
      | b[oi] - sum_j A[oi,j] x[j] |
        <= (c n 2^-53) * ( sum_j |A[oi,j]| |x[j]|  +  sum_k |M[i,k]| * dw[k] )
    with  dw[k] = |Dg[k]| * w[k],  w[k] = sum_i' |M[i',k]| * |x[perm i']|
    (all written with the sub-expressions of [chk_solve]); the two length tests are part
    of the verdict. *)
Definition stmt_chk_solve_sound : Prop :=
  forall (c : Z) (n : N) (perm Acp Arv : list N) (Anz : list dy) (Lp Li : list N)
         (Lx Dg b x : list dy),
    chk_solve c n perm Acp Arv Anz Lp Li Lx Dg b x = 0%N ->
    length b = N.to_nat n /\ length x = N.to_nat n /\
    forall i, i < N.to_nat n ->
      let n' := N.to_nat n in
      let p := nats perm in
      let xp := map (fun i => nth (nth i p 0) x d0) (seq 0 n') in
      let rows := map (lrow n' (nats Lp) (nats Li) Lx) (seq 0 n') in
      let axp := map dabs xp in
      let w := map (fun k => dsum (map (fun i => dmul (dabs (nth k (nth i rows []) d0)) (nth i axp d0))
                                       (seq 0 n'))) (seq 0 n') in
      let dw := map (fun kd => dmul (dabs (snd kd)) (fst kd)) (combine w Dg) in
      let oi := nth i p 0 in
      let ai := map (fun oj => uget (nats Acp) (nats Arv) Anz oi oj) (seq 0 n') in
      (Qabs (d2Q (nth oi b d0) - Qdot ai x)
       <= d2Q (D (c * Z.of_N n) (-53)) * (Qdot_aa ai x + Qdot_al (nth i rows []) dw))%Q.
