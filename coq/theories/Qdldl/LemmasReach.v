(** The elimination reach computed by every row of [factor_inner] is closed under the
    structure of L and topologically ordered, given a correct elimination tree. *)
From Coq Require Import List Arith Lia Bool.
Import ListNotations.
Require Import Clarabel.Base.Ops Clarabel.Qdldl.Model Clarabel.Qdldl.SpecSolve
        Clarabel.Qdldl.SpecFactorCorrect Clarabel.Qdldl.SpecEtree.
Require Import Clarabel.Qdldl.LemmasFactor Clarabel.Qdldl.LemmasBounds.

(** ** order in a list *)
Definition before (l : list nat) (p x : nat) : Prop :=
  exists l1 l2, l = l1 ++ x :: l2 /\ In p l1.

Lemma rc_before_app_r l e p x : before l p x -> before (l ++ e) p x.
Proof. intros (l1 & l2 & -> & Hp). exists l1, (l2 ++ e). rewrite <- app_assoc. split; auto. Qed.

Lemma rc_before_In l p x : before l p x -> In p l /\ In x l.
Proof.
  intros (l1 & l2 & -> & Hp). split; apply in_or_app; [left; exact Hp|right; left; reflexivity].
Qed.

Lemma rc_split_unique (l : list nat) x : NoDup l -> forall u1 v1 u2 v2,
  l = u1 ++ x :: v1 -> l = u2 ++ x :: v2 -> u1 = u2 /\ v1 = v2.
Proof.
  intros Hnd u1. revert l Hnd. induction u1 as [|a u1 IH]; intros l Hnd v1 u2 v2 H1 H2.
  - destruct u2 as [|b u2]; simpl in *; rewrite H1 in H2.
    + injection H2 as Hv. auto.
    + exfalso. injection H2 as Hb Hv. subst b.
      rewrite H1 in Hnd. apply NoDup_cons_iff in Hnd. destruct Hnd as [Hni _]. apply Hni.
      rewrite Hv. apply in_or_app. right; left; reflexivity.
  - destruct u2 as [|b u2]; simpl in *.
    + exfalso. rewrite H2 in H1. injection H1 as Ha Hv. subst a.
      rewrite H2 in Hnd. apply NoDup_cons_iff in Hnd. destruct Hnd as [Hni _]. apply Hni.
      rewrite Hv. apply in_or_app. right; left; reflexivity.
    + rewrite H1 in H2. injection H2 as Hb Hv. subst b.
      rewrite H1 in Hnd. apply NoDup_cons_iff in Hnd. destruct Hnd as [_ Hnd'].
      destruct (IH _ Hnd' v1 u2 v2 eq_refl Hv) as [-> ->]. auto.
Qed.

Lemma rc_before_trans l r p x : NoDup l -> before l r p -> before l p x -> before l r x.
Proof.
  intros Hnd (a1 & a2 & Ha & Hr) (b1 & b2 & Hb & Hp).
  apply in_split in Hp. destruct Hp as (c1 & c2 & ->).
  rewrite <- app_assoc in Hb. simpl in Hb.
  destruct (rc_split_unique l p Hnd a1 a2 c1 (c2 ++ x :: b2) Ha Hb) as [-> _].
  exists (c1 ++ p :: c2), b2. split.
  - rewrite <- app_assoc. simpl. exact Hb.
  - apply in_or_app. left; exact Hr.
Qed.

Lemma rc_after_in_skip c r : forall u v, ~ In c u ->
  after_in c r (u ++ c :: v) = existsb (Nat.eqb r) v.
Proof.
  induction u as [|a u IH]; intros v Hni; simpl.
  - rewrite Nat.eqb_refl. reflexivity.
  - destruct (a =? c) eqn:E.
    + apply Nat.eqb_eq in E. exfalso. apply Hni. left; exact E.
    + apply IH. intro H. apply Hni. right; exact H.
Qed.

Lemma rc_bridge l r c : NoDup l -> before l r c -> after_in c r (rev l) = true.
Proof.
  intros Hnd (l1 & l2 & -> & Hr).
  rewrite rev_app_distr. simpl. rewrite <- app_assoc. simpl.
  rewrite rc_after_in_skip.
  - apply existsb_exists. exists r. split; [apply in_rev in Hr; exact Hr|apply Nat.eqb_refl].
  - intro H. apply in_rev in H. apply NoDup_remove_2 in Hnd. apply Hnd.
    apply in_or_app. right; exact H.
Qed.

(** ** tree facts *)
Section Tree.
Variables (n : nat) (et : list (option nat)).
Hypothesis Het : etree_in_range_p n et.

Lemma rc_parent_gt i p : nth i et None = Some p -> i < p < n.
Proof.
  intro H. destruct Het as [Hl Hr].
  destruct (Nat.lt_ge_cases i n) as [Hi|Hi]; [apply Hr; assumption|].
  rewrite nth_overflow in H by lia. discriminate.
Qed.

Lemma rc_anc_ge : forall m x r, anc_iter et m x = Some r -> x + m <= r.
Proof.
  induction m as [|m IH]; intros x r H; simpl in H.
  - inversion H; lia.
  - destruct (nth x et None) as [p|] eqn:E; [|discriminate].
    apply IH in H. apply rc_parent_gt in E. lia.
Qed.

Lemma rc_anc_add : forall a b x y r,
  anc_iter et a x = Some y -> anc_iter et b y = Some r -> anc_iter et (a + b) x = Some r.
Proof.
  induction a as [|a IH]; intros b x y r Ha Hb; simpl in *.
  - inversion Ha; subst. exact Hb.
  - destruct (nth x et None) as [p|]; [|discriminate]. eapply IH; eauto.
Qed.

Lemma rc_is_anc_trans x y r : is_anc et x y -> is_anc et y r -> is_anc et x r.
Proof. intros [a Ha] [b Hb]. exists (a + b). eapply rc_anc_add; eauto. Qed.

(** one step towards an ancestor strictly above *)
Lemma rc_anc_step x r : is_anc et x r -> x < r ->
  exists p, nth x et None = Some p /\ is_anc et p r.
Proof.
  intros [m Hm] Hlt. destruct m as [|m]; simpl in Hm.
  - inversion Hm; lia.
  - destruct (nth x et None) as [p|]; [|discriminate]. exists p. split; [reflexivity|exists m; exact Hm].
Qed.
End Tree.

Lemma rc_nodup_insert (l r : list nat) a :
  NoDup (l ++ r) -> ~ In a (l ++ r) -> NoDup (l ++ a :: r).
Proof.
  intros Hnd Hni. apply (proj2 (NoDup_Add (Add_app a l r))). split; assumption.
Qed.

(** ** the walk of one row *)
Section Reach.
Variables (n : nat) (et : list (option nat)).
Hypothesis Het : etree_in_range_p n et.
Variable k : nat.
Hypothesis Hk : k < n.

Fixpoint chain (l : list nat) : Prop :=
  match l with
  | y :: ((x :: _) as r) => nth x et None = Some y /\ chain r
  | _ => True
  end.

Lemma rc_chain_tail a l : chain (a :: l) -> chain l.
Proof. destruct l as [|b l]; simpl; tauto. Qed.

Lemma rc_chain_mid : forall e1 y x e2, chain (e1 ++ y :: x :: e2) -> nth x et None = Some y.
Proof.
  induction e1 as [|a e1 IH]; intros y x e2 H.
  - simpl in H. exact (proj1 H).
  - apply (IH y x e2). simpl app in H. apply rc_chain_tail in H. exact H.
Qed.

Definition Good (yidx : list nat) (marks : list bool) : Prop :=
  NoDup yidx /\
  (forall x, In x yidx -> x < k /\ is_anc et x k) /\
  (forall x p, In x yidx -> nth x et None = Some p -> p < k -> before yidx p x) /\
  length marks = n /\
  (forall c, c < n -> (nth c marks false = true <-> In c yidx)).

Definition WP (yidx : list nat) (top : nat) (rest : list nat) (marks : list bool) : Prop :=
  chain (top :: rest) /\
  (forall x, In x (top :: rest) -> x < k /\ is_anc et x k /\ x <= top) /\
  NoDup (yidx ++ top :: rest) /\
  length marks = n /\
  (forall c, c < n -> (nth c marks false = true <-> In c (yidx ++ top :: rest))).

Lemma rc_walk yidx : forall fuel top rest marks marks' elim',
  WP yidx top rest marks ->
  reach_walk fuel k et (nth top et None) marks (top :: rest) = Ok (marks', elim') ->
  exists top' rest', elim' = top' :: rest' /\ WP yidx top' rest' marks' /\
    (forall p, nth top' et None = Some p -> p < k -> In p yidx).
Proof.
  induction fuel as [|f IH]; intros top rest marks marks' elim' HW H; simpl in H; [discriminate|].
  destruct (nth top et None) as [nx|] eqn:E.
  2:{ injection H as Hm He. subst. exists top, rest. split; [reflexivity|]. split; [exact HW|].
      intros p Hp. rewrite E in Hp. discriminate. }
  pose proof (rc_parent_gt n et Het _ _ E) as Hnx.
  pose proof HW as (Hch & Hel & Hnd & Hlen & Hmk).
  destruct (nx <? k) eqn:Elt.
  2:{ apply Nat.ltb_ge in Elt. injection H as Hm He. subst. exists top, rest.
      split; [reflexivity|]. split; [exact HW|].
      intros p Hp Hpk. rewrite E in Hp. injection Hp as Hp. lia. }
  apply Nat.ltb_lt in Elt.
  destruct (nth nx marks false) eqn:Em.
  - injection H as Hm He. subst. exists top, rest. split; [reflexivity|]. split; [exact HW|].
    intros p Hp Hpk. rewrite E in Hp. injection Hp as Hp. subst p.
    apply Hmk in Em; [|lia]. apply in_app_or in Em. destruct Em as [Hy|He]; [exact Hy|].
    apply Hel in He. lia.
  - apply (IH nx (top :: rest) (upd marks nx true)); [|exact H].
    assert (Hni : ~ In nx (yidx ++ top :: rest)).
    { intro Hin. apply Hmk in Hin; [|lia]. rewrite Em in Hin. discriminate. }
    unfold WP. split; [|split; [|split; [|split]]].
    + split; [exact E|exact Hch].
    + intros x [Hx|Hx].
      * subst x. split; [exact Elt|]. split; [|lia].
        destruct (Hel top (or_introl eq_refl)) as (Htk & Hta & _).
        destruct (rc_anc_step et top k Hta Htk) as (p & Hp & Hpa).
        rewrite E in Hp. injection Hp as Hp. subst p. exact Hpa.
      * destruct (Hel x Hx) as (H1 & H2 & H3). split; [exact H1|]. split; [exact H2|lia].
    + apply rc_nodup_insert; assumption.
    + rewrite fa_upd_length. exact Hlen.
    + intros c Hc. destruct (Nat.eq_dec c nx) as [Hcn|Hne].
      * subst c. rewrite fa_nth_upd_eq by lia. split; intros _; [|reflexivity].
        apply in_or_app. right; left; reflexivity.
      * rewrite fa_nth_upd_neq by auto.
        rewrite (Hmk c Hc). rewrite !in_app_iff. simpl. intuition congruence.
Qed.

Lemma rc_walk_good yidx marks0 top rest marks :
  Good yidx marks0 -> WP yidx top rest marks ->
  (forall p, nth top et None = Some p -> p < k -> In p yidx) ->
  Good (yidx ++ top :: rest) marks.
Proof.
  intros (G1 & G2 & G3 & _ & _) (Hch & Hel & Hnd & Hlen & Hmk) Hstop.
  unfold Good. split; [exact Hnd|]. split; [|split; [|split; [exact Hlen|exact Hmk]]].
  - intros x Hx. apply in_app_or in Hx. destruct Hx as [Hx|Hx]; [apply G2; exact Hx|].
    destruct (Hel x Hx) as (H1 & H2 & _). split; assumption.
  - intros x p Hx Hp Hpk. apply in_app_or in Hx. destruct Hx as [Hx|Hx].
    + apply rc_before_app_r. eapply G3; eauto.
    + apply in_split in Hx. destruct Hx as (e1 & e2 & He).
      destruct e1 as [|a e1].
      * simpl in He. injection He as Ht Hr. subst top rest.
        exists yidx, e2. split; [reflexivity|]. apply Hstop; assumption.
      * destruct (@exists_last _ (a :: e1)) as (e1' & y & Hl); [discriminate|].
        rewrite Hl in He. rewrite <- app_assoc in He. simpl in He.
        rewrite He in Hch. apply rc_chain_mid in Hch. rewrite Hch in Hp.
        injection Hp as Hp. subst p.
        exists (yidx ++ e1' ++ [y]), e2. split.
        -- rewrite He. rewrite <- !app_assoc. reflexivity.
        -- apply in_or_app. right. apply in_or_app. right. left. reflexivity.
Qed.

(** ancestor closure of a good list *)
Lemma rc_anc_closure yidx marks : Good yidx marks ->
  forall m x r, In x yidx -> anc_iter et (S m) x = Some r -> r < k -> before yidx r x.
Proof.
  intros (G1 & G2 & G3 & _ & _).
  induction m as [|m IH]; intros x r Hx Ha Hr.
  - simpl in Ha. destruct (nth x et None) as [p|] eqn:E; [|discriminate].
    injection Ha as Ha. subst p. eapply G3; eauto.
  - change (anc_iter et (S (S m)) x) with
      (match nth x et None with Some p => anc_iter et (S m) p | None => None end) in Ha.
    destruct (nth x et None) as [p|] eqn:E; [|discriminate].
    pose proof (rc_anc_ge n et Het _ _ _ Ha) as Hge.
    assert (Hpx : before yidx p x) by (eapply G3; eauto; lia).
    pose proof (rc_before_In _ _ _ Hpx) as [Hpin _].
    pose proof (IH p r Hpin Ha Hr) as Hrp.
    eapply rc_before_trans; eauto.
Qed.

Section RowA.
Context {T : Type} (O : Ops T).
Variables (Ap Ai : list nat) (Ax : list T).
Hypothesis Htri : upper_tri_e n Ap Ai.
Hypothesis Hdesc : entries_descend n Ap Ai et.

Definition GoodS (s : rowA_state (T:=T)) : Prop := Good (snd s) (snd (fst s)).

Lemma rc_rowA_step_good s i s' :
  In i (col_range Ap k) -> GoodS s -> rowA_step O n k Ai Ax et s i = Ok s' -> GoodS s'.
Proof.
  intros Hi HG H. destruct s as [[[dk yv] marks] yidx]. unfold GoodS in *. simpl in HG.
  unfold rowA_step in H. cbv zeta in H.
  pose proof (Htri k i Hk (bd_in_col_range _ _ _ Hi)) as Hbk.
  pose proof (Hdesc k i Hk Hi) as Hba.
  remember (nth i Ai 0) as b eqn:Eb.
  destruct (b =? k) eqn:Ebk.
  { injection H as H. subst s'. simpl. exact HG. }
  apply Nat.eqb_neq in Ebk.
  destruct (nth b marks false) eqn:Em.
  { injection H as H. subst s'. simpl. exact HG. }
  destruct (reach_walk (S n) k et (nth b et None) (upd marks b true) [b]) as [[marks' elim']|e] eqn:EW;
    cbn [bind] in H; [|discriminate].
  injection H as H. subst s'. simpl.
  pose proof HG as (G1 & G2 & G3 & Hlen & Hmk).
  assert (Hbn : ~ In b yidx).
  { intro Hin. apply Hmk in Hin; [|lia]. rewrite Em in Hin. discriminate. }
  destruct (rc_walk yidx (S n) b [] (upd marks b true) marks' elim') as (top' & rest' & He & HW & Hstop).
  - unfold WP. split; [exact I|]. split; [|split; [|split]].
    + intros x [Hx|[]]. subst x. split; [lia|]. split; [exact Hba|lia].
    + apply rc_nodup_insert; rewrite app_nil_r; assumption.
    + rewrite fa_upd_length. exact Hlen.
    + intros c Hc. destruct (Nat.eq_dec c b) as [Hcb|Hne].
      * subst c. rewrite fa_nth_upd_eq by lia. split; intros _; [|reflexivity].
        apply in_or_app. right; left; reflexivity.
      * rewrite fa_nth_upd_neq by auto.
        rewrite (Hmk c Hc). rewrite in_app_iff. simpl. intuition congruence.
  - exact EW.
  - subst elim'. eapply rc_walk_good; eauto.
Qed.

Lemma rc_rowA_fold_good marks a :
  length marks = n -> (forall c, nth c marks false = false) ->
  forall yv,
  foldM (rowA_step O n k Ai Ax et) (col_range Ap k) (Ok (zero O, yv, marks, [])) = Ok a ->
  GoodS a.
Proof.
  intros Hlen Hf yv H.
  eapply (bd_foldM_pres_in _ GoodS); [| |exact H].
  - intros s x s' Hin HG Hs. eapply rc_rowA_step_good; eauto.
  - unfold GoodS, Good. simpl. split; [constructor|]. split; [intros x []|].
    split; [intros x p []|]. split; [exact Hlen|].
    intros c Hc. rewrite Hf. split; [discriminate|intros []].
Qed.

(** ** the global invariant before row [kk] *)
Definition GInv (kk : nat) (st : fstate (T:=T)) : Prop :=
  length (fs_cols st) = n /\ length (fs_marks st) = n /\
  (forall c, nth c (fs_marks st) false = false) /\
  (forall c e, In e (nth c (fs_cols st) []) -> c < fst e < kk /\ is_anc et c (fst e)).

Lemma rc_row_test st : GInv k st -> row_reach_closed O n Ai Ap Ax et st k = true.
Proof.
  intros (Hcl & Hml & Hmf & Hce). unfold row_reach_closed.
  destruct (foldM (rowA_step O n k Ai Ax et) (col_range Ap k)
                  (Ok (zero O, fs_yvals st, fs_marks st, []))) as [a|e] eqn:EA; [|reflexivity].
  pose proof (rc_rowA_fold_good _ _ Hml Hmf _ EA) as HG.
  destruct a as [[[dk yv] marks] yidx]. unfold GoodS in HG. simpl in HG.
  unfold reach_closed. cbv zeta.
  apply forallb_forall. intros c Hc. apply forallb_forall. intros e He.
  destruct (Hce c e He) as (Hlt & [m Hm]).
  destruct m as [|m].
  { simpl in Hm. injection Hm as Hm. lia. }
  apply rc_bridge; [exact (proj1 HG)|].
  eapply rc_anc_closure; eauto. lia.
Qed.

Lemma rc_rowB_step_shape lg Dinv cols yv marks dk cidx :
  exists v yv' dk', rowB_step O lg k Dinv (cols, yv, marks, dk) cidx
    = (upd cols cidx (nth cidx cols [] ++ [(k, v)]), yv', upd marks cidx false, dk').
Proof. unfold rowB_step. destruct lg; do 3 eexists; reflexivity. Qed.

Lemma rc_rowB_fold_shape lg Dinv : forall l cols yv marks dk,
  exists cols' yv' dk',
    fold_left (rowB_step O lg k Dinv) l (cols, yv, marks, dk)
      = (cols', yv', fold_left (fun m c => upd m c false) l marks, dk') /\
    length cols' = length cols /\
    forall c e, In e (nth c cols' []) -> In e (nth c cols []) \/ (fst e = k /\ In c l).
Proof.
  induction l as [|cidx l IH]; intros cols yv marks dk.
  - exists cols, yv, dk. simpl. split; [reflexivity|]. split; [reflexivity|].
    intros c e H; left; exact H.
  - destruct (rc_rowB_step_shape lg Dinv cols yv marks dk cidx) as (v & yv1 & dk1 & Hs).
    cbn [fold_left]. rewrite Hs.
    destruct (IH (upd cols cidx (nth cidx cols [] ++ [(k, v)])) yv1 (upd marks cidx false) dk1)
      as (cols' & yv' & dk' & Hf & Hl & Hin).
    exists cols', yv', dk'. split; [exact Hf|]. split; [rewrite Hl; apply fa_upd_length|].
    intros c e He. destruct (Hin c e He) as [H1|[H1 H2]].
    + destruct (Nat.eq_dec c cidx) as [Hc|Hc].
      * subst c. destruct (Nat.lt_ge_cases cidx (length cols)) as [Hlt|Hge].
        -- rewrite fa_nth_upd_eq in H1 by exact Hlt. apply in_app_or in H1.
           destruct H1 as [H1|[H1|[]]].
           ++ left; exact H1.
           ++ right. subst e. split; [reflexivity|left; reflexivity].
        -- rewrite nth_overflow in H1 by (rewrite fa_upd_length; exact Hge). destruct H1.
      * rewrite fa_nth_upd_neq in H1 by auto. left; exact H1.
    + right. split; [exact H1|right; exact H2].
Qed.

Lemma rc_reset_length : forall l (m : list bool),
  length (fold_left (fun m c => upd m c false) l m) = length m.
Proof.
  induction l as [|a l IH]; intros m; simpl; [reflexivity|]. rewrite IH. apply fa_upd_length.
Qed.

Lemma rc_reset_true : forall l (m : list bool), (forall x, In x l -> x < length m) ->
  forall c, nth c (fold_left (fun m x => upd m x false) l m) false = true ->
            nth c m false = true /\ ~ In c l.
Proof.
  induction l as [|a l IH]; intros m Hl c H; simpl in *.
  - split; [exact H|tauto].
  - apply IH in H.
    2:{ intros x Hx. rewrite fa_upd_length. apply Hl. right; exact Hx. }
    destruct H as [H1 H2]. destruct (Nat.eq_dec a c) as [Hac|Hac].
    + subst a. rewrite fa_nth_upd_eq in H1 by (apply Hl; left; reflexivity). discriminate.
    + rewrite fa_nth_upd_neq in H1 by exact Hac. split; [exact H1|].
      intros [A|B]; [exact (Hac A)|exact (H2 B)].
Qed.

Lemma rc_row_step_ginv P st st' :
  GInv k st -> row_step O n Ap Ai Ax et P st k = Ok st' -> GInv (S k) st'.
Proof.
  intros (Hcl & Hml & Hmf & Hce) H. unfold row_step in H.
  destruct (foldM (rowA_step O n k Ai Ax et) (col_range Ap k)
                  (Ok (zero O, fs_yvals st, fs_marks st, []))) as [a|e] eqn:EA; [|discriminate].
  cbn [bind] in H.
  pose proof (rc_rowA_fold_good _ _ Hml Hmf _ EA) as HG.
  destruct a as [[[dk yv] marks] yidx]. unfold GoodS in HG. simpl in HG.
  destruct (rc_rowB_fold_shape (fp_logical P) (fs_Dinv st) (rev yidx) (fs_cols st) yv marks dk)
    as (cols' & yv' & dk' & Hf & Hl & Hin).
  rewrite Hf in H. cbv beta iota zeta in H.
  set (mk' := fold_left (fun m c => upd m c false) (rev yidx) marks) in *.
  pose proof HG as (G1 & G2 & G3 & Hlen & Hmk).
  assert (HI : length cols' = n /\ length mk' = n /\
               (forall c, nth c mk' false = false) /\
               (forall c e, In e (nth c cols' []) -> c < fst e < S k /\ is_anc et c (fst e))).
  { split; [rewrite Hl; exact Hcl|]. split; [unfold mk'; rewrite rc_reset_length; exact Hlen|].
    split.
    - intros c. destruct (nth c mk' false) eqn:E; [|reflexivity]. exfalso.
      unfold mk' in E. apply rc_reset_true in E.
      + destruct E as [E1 E2].
        destruct (Nat.lt_ge_cases c n) as [Hc|Hc];
          [|rewrite nth_overflow in E1 by lia; discriminate].
        apply E2. apply (proj1 (in_rev yidx c)). apply Hmk; assumption.
      + intros x Hx. apply (proj2 (in_rev yidx x)) in Hx. apply G2 in Hx. lia.
    - intros c e He. destruct (Hin c e He) as [H1|[H1 H2]].
      + destruct (Hce c e H1) as [Ha Hb]. split; [lia|exact Hb].
      + apply (proj2 (in_rev yidx c)) in H2. apply G2 in H2. rewrite H1. split; [lia|tauto]. }
  destruct (fp_logical P).
  - injection H as H. subst st'. exact HI.
  - apply pivot_finish_ok_ok in H. cbv zeta in H. destruct H as (_ & Hc & Hm & _).
    unfold GInv. rewrite Hc, Hm. exact HI.
Qed.
End RowA.
End Reach.

(** ** all rows *)
Section AllRows.
Context {T : Type} (O : Ops T).
Variables (n : nat) (Ap Ai : list nat) (Ax : list T) (et : list (option nat)) (P : fparams (T:=T)).
Hypothesis Htri : upper_tri_e n Ap Ai.
Hypothesis Het : etree_in_range_p n et.
Hypothesis Hdesc : entries_descend n Ap Ai et.

Definition rc_F (acc : res (fstate (T:=T)) * bool) (k : nat) : res (fstate (T:=T)) * bool :=
  match fst acc with
  | Ok st => (row_step O n Ap Ai Ax et P st k,
              snd acc && row_reach_closed O n Ai Ap Ax et st k)
  | Err _ => acc
  end.

Lemma rc_fold_err : forall l e b, fold_left rc_F l (Err e, b) = (Err e, b).
Proof. induction l as [|x l IH]; intros e b; simpl; [reflexivity|]. apply IH. Qed.

Lemma rc_fold_all : forall m a st, a + m <= n -> GInv n et a st ->
  snd (fold_left rc_F (seq a m) (Ok st, true)) = true.
Proof.
  induction m as [|m IH]; intros a st Hle HI; [reflexivity|].
  assert (Ha : a < n) by lia.
  cbn [seq fold_left]. unfold rc_F at 2. cbn [fst snd].
  rewrite (rc_row_test n et Het a Ha O Ap Ai Ax Htri Hdesc st HI). cbn [andb].
  destruct (row_step O n Ap Ai Ax et P st a) as [st'|e] eqn:ER.
  - apply IH; [lia|]. eapply rc_row_step_ginv; eauto.
  - rewrite rc_fold_err. reflexivity.
Qed.
End AllRows.

Lemma rc_nth_repeat_false m : forall c, nth c (repeat false m) false = false.
Proof. induction m as [|m IH]; intros [|c]; simpl; auto. Qed.

Lemma reach_closed_from_etree_ok : stmt_reach_closed_from_etree.
Proof.
  intros T O n Ap Ai Ax et P Htri Het Hdesc. unfold reach_closed_all. cbv zeta.
  destruct (pivot_finish O P 0 _ _) as [st1|e] eqn:E1; [|reflexivity].
  destruct n as [|n']; [reflexivity|].
  apply pivot_finish_ok_ok in E1. cbv zeta in E1. destruct E1 as (_ & Hc & Hm & _).
  cbn [fs_cols fs_marks] in Hc, Hm.
  apply (rc_fold_all O (S n') Ap Ai Ax et P Htri Het Hdesc (S n' - 1) 1 st1); [lia|].
  unfold GInv. rewrite Hc, Hm. rewrite !repeat_length.
  split; [reflexivity|]. split; [reflexivity|]. split; [apply rc_nth_repeat_false|].
  intros c e He. rewrite bd_nth_repeat_nil in He. destruct He.
Qed.
