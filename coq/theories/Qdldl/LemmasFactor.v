(** Proofs of the statements in SpecFactor.v.  Purely structural: valid for any [Ops T]. *)
From Coq Require Import List Arith ZArith QArith Lia Bool.
Import ListNotations.
Require Import Clarabel.Base.Ops Clarabel.Qdldl.Model Clarabel.Qdldl.SpecFactor.
Local Close Scope Q_scope.

(** ** list helpers *)
Lemma fa_upd_length {X} (l : list X) i v : length (upd l i v) = length l.
Proof. revert i; induction l as [|x l IH]; intros [|i]; simpl; auto. Qed.

Lemma fa_nth_upd_eq {X} (l : list X) i v d : i < length l -> nth i (upd l i v) d = v.
Proof.
  revert i; induction l as [|x l IH]; intros [|i] Hi; simpl in *; try lia; auto.
  apply IH; lia.
Qed.

Lemma fa_nth_upd_neq {X} (l : list X) i j v d : i <> j -> nth j (upd l i v) d = nth j l d.
Proof.
  revert i j; induction l as [|x l IH]; intros [|i] [|j] Hij; simpl; auto; try lia;
    try (apply IH; lia).
Qed.

Lemma fa_count_true_app l1 l2 : count_true (l1 ++ l2) = count_true l1 + count_true l2.
Proof. unfold count_true. rewrite filter_app, app_length. reflexivity. Qed.

Lemma fa_count_true_le l : count_true l <= length l.
Proof.
  unfold count_true. induction l as [|b l IH]; simpl; auto.
  destruct b; simpl; lia.
Qed.

Lemma fa_count_true_all_false {X} (f : X -> bool) l :
  (forall x, f x = false) -> count_true (map f l) = 0.
Proof.
  intros Hf. unfold count_true. induction l as [|x l IH]; simpl; auto.
  rewrite Hf. exact IH.
Qed.

Lemma fa_count_snoc (f g : nat -> bool) k :
  (forall j, j < k -> f j = g j) ->
  count_true (map f (seq 0 (S k))) = count_true (map g (seq 0 k)) + (if f k then 1 else 0).
Proof.
  intros H. rewrite seq_S, map_app, fa_count_true_app. f_equal.
  - f_equal. apply map_ext_in. intros j Hj. apply in_seq in Hj. apply H. lia.
  - unfold count_true. simpl. destruct (f k); reflexivity.
Qed.

(** ** foldM helpers *)
Lemma fa_foldM_err {S X} (f : S -> X -> res S) l e : foldM f l (Err e) = Err e.
Proof. unfold foldM. induction l as [|x l IH]; simpl; auto. Qed.

Lemma fa_foldM_nil {S X} (f : S -> X -> res S) s : foldM f [] s = s.
Proof. reflexivity. Qed.

Lemma fa_foldM_cons {S X} (f : S -> X -> res S) x l s :
  foldM f (x :: l) (Ok s) = foldM f l (f s x).
Proof. reflexivity. Qed.

Lemma fa_foldM_seq_inv {S} (f : S -> nat -> res S) (I : nat -> S -> Prop) (hi : nat) :
  (forall k s s', k < hi -> I k s -> f s k = Ok s' -> I (Datatypes.S k) s') ->
  forall m a s s', a + m <= hi -> I a s -> foldM f (seq a m) (Ok s) = Ok s' -> I (a + m) s'.
Proof.
  intros Hstep m; induction m as [|m IH]; intros a s s' Hle HI Hf.
  - simpl seq in Hf. rewrite fa_foldM_nil in Hf. inversion Hf; subst.
    replace (a + 0) with a by lia. exact HI.
  - simpl seq in Hf. rewrite fa_foldM_cons in Hf. destruct (f s a) as [s1|e] eqn:E.
    + replace (a + Datatypes.S m) with (Datatypes.S a + m) by lia.
      eapply IH; [lia| |exact Hf]. eapply Hstep; eauto. lia.
    + rewrite fa_foldM_err in Hf. discriminate.
Qed.

Lemma fa_foldM_pres {S X} (f : S -> X -> res S) (I : S -> Prop) :
  (forall s x s', I s -> f s x = Ok s' -> I s') ->
  forall l s s', I s -> foldM f l (Ok s) = Ok s' -> I s'.
Proof.
  intros Hstep l; induction l as [|x l IH]; intros s s' HI Hf.
  - rewrite fa_foldM_nil in Hf. inversion Hf; subst. exact HI.
  - rewrite fa_foldM_cons in Hf. destruct (f s x) as [s1|e] eqn:E.
    + eapply IH; [|exact Hf]. eapply Hstep; eauto.
    + rewrite fa_foldM_err in Hf. discriminate.
Qed.

Lemma fa_foldM_errs {S X} (f : S -> X -> res S) (Q : qerr -> Prop) :
  (forall s x e, f s x = Err e -> Q e) ->
  forall l s e, foldM f l (Ok s) = Err e -> Q e.
Proof.
  intros Hf l; induction l as [|x l IH]; intros s e H.
  - rewrite fa_foldM_nil in H. discriminate.
  - rewrite fa_foldM_cons in H. destruct (f s x) as [s1|e1] eqn:E.
    + eapply IH; eauto.
    + rewrite fa_foldM_err in H. inversion H; subst. eapply Hf; eauto.
Qed.

(** ** regularise / pivot_finish *)
Lemma regularise_only_below_eps_ok : stmt_regularise_only_below_eps.
Proof.
  intros T O P k d d' r H. unfold regularise in H. cbv zeta in H.
  destruct (fp_reg_enable P) eqn:En.
  - destruct (ltb O (mul O d (ofZ O (nth k (fp_Dsigns P) 1%Z))) (fp_eps P)) eqn:L;
      inversion H; subst; split; intros Hr; try discriminate; auto.
  - inversion H; subst; split; intros Hr; try discriminate.
    split; auto. intros Hen; discriminate.
Qed.

Lemma zero_pivot_is_error_ok : stmt_zero_pivot_is_error.
Proof.
  intros T O P k d st H. unfold pivot_finish.
  destruct (regularise O P k d) as [d' r]. simpl in H. rewrite H. reflexivity.
Qed.

Lemma pivot_finish_ok_ok : stmt_pivot_finish_ok.
Proof.
  intros T O P k d st st' H. cbv zeta. unfold pivot_finish in H.
  destruct (regularise O P k d) as [d' r]. simpl fst. simpl snd.
  destruct (eqb O d' (zero O)) eqn:E; [discriminate|].
  inversion H; subst; clear H. simpl. repeat split; auto.
Qed.

Lemma fa_pivot_finish_err {T} (O : Ops T) P k d st e :
  pivot_finish O P k d st = Err e -> e = ZeroPivot.
Proof.
  unfold pivot_finish. destruct (regularise O P k d) as [d' r].
  destruct (eqb O d' (zero O)); intros H; [inversion H; auto|discriminate].
Qed.

(** ** row_step, seen only through its tail *)
Lemma fa_row_step_nonlogical {T} (O : Ops T) n Ap Ai Ax et P st k st' :
  fp_logical P = false -> row_step O n Ap Ai Ax et P st k = Ok st' ->
  exists d st0, fs_D st0 = fs_D st /\ fs_Dinv st0 = fs_Dinv st /\
                fs_pos st0 = fs_pos st /\ fs_reg st0 = fs_reg st /\
                pivot_finish O P k d st0 = Ok st'.
Proof.
  intros Hl H. unfold row_step in H.
  destruct (foldM (rowA_step O n k Ai Ax et) (col_range Ap k)
                  (Ok (zero O, fs_yvals st, fs_marks st, []))) as [a|e]; [|discriminate].
  cbn [bind] in H. destruct a as [[[dk yv] marks] yidx].
  destruct (fold_left _ _ _) as [[[cols yv'] marks'] dk'].
  rewrite Hl in H.
  exists dk', (mkFS cols (fs_D st) (fs_Dinv st) marks' yv' (fs_pos st) (fs_reg st)).
  simpl. repeat split; auto.
Qed.

Lemma fa_row_step_logical {T} (O : Ops T) n Ap Ai Ax et P st k st' :
  fp_logical P = true -> row_step O n Ap Ai Ax et P st k = Ok st' ->
  fs_pos st' = fs_pos st /\ fs_reg st' = fs_reg st.
Proof.
  intros Hl H. unfold row_step in H.
  destruct (foldM (rowA_step O n k Ai Ax et) (col_range Ap k)
                  (Ok (zero O, fs_yvals st, fs_marks st, []))) as [a|e]; [|discriminate].
  cbn [bind] in H. destruct a as [[[dk yv] marks] yidx].
  destruct (fold_left _ _ _) as [[[cols yv'] marks'] dk'].
  rewrite Hl in H. inversion H; subst. simpl. auto.
Qed.

Lemma fa_reach_walk_err fuel k et : forall next marks elim e,
  reach_walk fuel k et next marks elim = Err e -> e = OutOfFuel.
Proof.
  induction fuel as [|f IH]; intros next marks elim e H; simpl in H.
  - inversion H; auto.
  - destruct next as [nx|]; [|discriminate].
    destruct (nx <? k); [|discriminate].
    destruct (nth nx marks false); [discriminate|].
    eapply IH; eauto.
Qed.

Lemma fa_rowA_step_err {T} (O : Ops T) n k Ai Ax et st i e :
  rowA_step O n k Ai Ax et st i = Err e -> e = OutOfFuel.
Proof.
  unfold rowA_step. destruct st as [[[dk yv] marks] yidx]. cbv zeta.
  destruct (nth i Ai 0 =? k); [discriminate|].
  destruct (nth (nth i Ai 0) marks false); [discriminate|].
  destruct (reach_walk _ _ _ _ _ _) as [me|e1] eqn:E; cbn [bind]; intros H; [discriminate|].
  inversion H; subst. eapply fa_reach_walk_err; eauto.
Qed.

Lemma fa_row_step_err {T} (O : Ops T) n Ap Ai Ax et P st k e :
  row_step O n Ap Ai Ax et P st k = Err e ->
  e = OutOfFuel \/ (fp_logical P = false /\ e = ZeroPivot).
Proof.
  intros H. unfold row_step in H.
  destruct (foldM (rowA_step O n k Ai Ax et) (col_range Ap k)
                  (Ok (zero O, fs_yvals st, fs_marks st, []))) as [a|e1] eqn:E.
  - cbn [bind] in H. destruct a as [[[dk yv] marks] yidx].
    destruct (fold_left _ _ _) as [[[cols yv'] marks'] dk'].
    destruct (fp_logical P); [discriminate|].
    right. split; auto. eapply fa_pivot_finish_err; eauto.
  - cbn [bind] in H. inversion H; subst. left.
    eapply (fa_foldM_errs _ (fun e => e = OutOfFuel)); [|exact E].
    intros s x e0 He0. eapply fa_rowA_step_err; eauto.
Qed.

(** ** the invariant of the row loop *)
Section Inv.
Context {T : Type} (O : Ops T) (P : fparams (T:=T)) (n : nat).

Definition fa_inv (k : nat) (st : fstate (T:=T)) : Prop :=
  exists piv : list T,
    length piv = k /\ length (fs_D st) = n /\ length (fs_Dinv st) = n /\
    (forall j, j < k ->
       nth j (fs_D st) (zero O) = fst (regularise O P j (nth j piv (zero O))) /\
       eqb O (nth j (fs_D st) (zero O)) (zero O) = false /\
       nth j (fs_Dinv st) (zero O) = div O (one O) (nth j (fs_D st) (zero O))) /\
    fs_reg st = count_true (map (fun j => snd (regularise O P j (nth j piv (zero O)))) (seq 0 k)) /\
    fs_pos st = count_true (map (fun j => ltb O (zero O) (nth j (fs_D st) (zero O))) (seq 0 k)).

Lemma fa_inv_ext k st st0 :
  fs_D st0 = fs_D st -> fs_Dinv st0 = fs_Dinv st -> fs_pos st0 = fs_pos st ->
  fs_reg st0 = fs_reg st -> fa_inv k st -> fa_inv k st0.
Proof.
  intros H1 H2 H3 H4 HI. unfold fa_inv in *. rewrite H1, H2, H3, H4. exact HI.
Qed.

Lemma fa_inv_step k d st st' :
  k < n -> fa_inv k st -> pivot_finish O P k d st = Ok st' -> fa_inv (S k) st'.
Proof.
  intros Hk (piv & Hlen & HD & HDi & Hall & Hreg & Hpos) Hpf.
  apply pivot_finish_ok_ok in Hpf. cbv zeta in Hpf.
  destruct Hpf as (Hnz & _ & _ & _ & HD' & HDi' & Hpos' & Hreg').
  exists (piv ++ [d]).
  assert (Hk_piv : nth k (piv ++ [d]) (zero O) = d).
  { rewrite app_nth2 by lia. rewrite Hlen, Nat.sub_diag. reflexivity. }
  assert (HDk : nth k (fs_D st') (zero O) = fst (regularise O P k d)).
  { rewrite HD'. apply fa_nth_upd_eq. lia. }
  assert (Hlt_piv : forall j, j < k -> nth j (piv ++ [d]) (zero O) = nth j piv (zero O)).
  { intros j Hj. apply app_nth1. lia. }
  assert (Hlt_D : forall j, j < k -> nth j (fs_D st') (zero O) = nth j (fs_D st) (zero O)).
  { intros j Hj. rewrite HD'. apply fa_nth_upd_neq. lia. }
  assert (Hlt_Di : forall j, j < k -> nth j (fs_Dinv st') (zero O) = nth j (fs_Dinv st) (zero O)).
  { intros j Hj. rewrite HDi'. apply fa_nth_upd_neq. lia. }
  split; [rewrite app_length; simpl; lia|].
  split; [rewrite HD', fa_upd_length; exact HD|].
  split; [rewrite HDi', fa_upd_length; exact HDi|].
  split; [|split].
  - intros j Hj. destruct (Nat.eq_dec j k) as [->|Hne].
    + rewrite Hk_piv, HDk. split; auto. split; auto.
      rewrite HDi'. apply fa_nth_upd_eq. lia.
    + assert (Hjk : j < k) by lia.
      rewrite (Hlt_piv j Hjk), (Hlt_D j Hjk), (Hlt_Di j Hjk). apply Hall; exact Hjk.
  - rewrite (fa_count_snoc _ (fun j => snd (regularise O P j (nth j piv (zero O)))) k).
    + cbv beta. rewrite Hk_piv, <- Hreg, Hreg'.
      destruct (snd (regularise O P k d)); lia.
    + intros j Hj. cbv beta. rewrite (Hlt_piv j Hj). reflexivity.
  - rewrite (fa_count_snoc _ (fun j => ltb O (zero O) (nth j (fs_D st) (zero O))) k).
    + cbv beta. rewrite HDk, <- Hpos, Hpos'.
      destruct (ltb O (zero O) (fst (regularise O P k d))); lia.
    + intros j Hj. cbv beta. rewrite (Hlt_D j Hj). reflexivity.
Qed.

Lemma fa_inv_row_step Ap Ai Ax et k st st' :
  fp_logical P = false -> k < n -> fa_inv k st ->
  row_step O n Ap Ai Ax et P st k = Ok st' -> fa_inv (S k) st'.
Proof.
  intros Hl Hk HI H.
  destruct (fa_row_step_nonlogical O n Ap Ai Ax et P st k st' Hl H)
    as (d & st0 & H1 & H2 & H3 & H4 & Hpf).
  eapply fa_inv_step; [exact Hk| |exact Hpf].
  eapply fa_inv_ext; eauto.
Qed.

Lemma fa_inv_init cols marks yv :
  fa_inv 0 (mkFS cols (repeat (zero O) n) (repeat (zero O) n) marks yv 0 0).
Proof.
  exists []. simpl. rewrite !repeat_length.
  split; [reflexivity|]. split; [reflexivity|]. split; [reflexivity|].
  split; [|split; reflexivity]. intros j Hj. lia.
Qed.
End Inv.

(** ** the trace theorem *)
Lemma factor_inner_pivots_ok : stmt_factor_inner_pivots.
Proof.
  intros T O n Ap Ai Ax et P st Hl H. unfold factor_inner in H. cbv zeta in H.
  rewrite Hl in H.
  destruct (n =? 0) eqn:En; [discriminate|]. apply Nat.eqb_neq in En.
  destruct (pivot_finish O P 0 _ _) as [st1|e] eqn:E1; [|discriminate].
  cbn [bind] in H.
  assert (HI1 : fa_inv O P n 1 st1).
  { eapply fa_inv_step; [lia| |exact E1]. apply fa_inv_init. }
  pose proof (fa_foldM_seq_inv (row_step O n Ap Ai Ax et P) (fa_inv O P n) n) as HF.
  specialize (HF (fun k s s' Hk HI Hs => fa_inv_row_step O P n Ap Ai Ax et k s s' Hl Hk HI Hs)).
  specialize (HF (n - 1) 1 st1 st).
  replace (1 + (n - 1)) with n in HF by lia.
  apply HF; auto.
Qed.

Lemma fa_factor_inner_n_pos {T} (O : Ops T) n Ap Ai Ax et P st :
  fp_logical P = false -> factor_inner O n Ap Ai Ax et P = Ok st -> 1 <= n.
Proof.
  intros Hl H. unfold factor_inner in H. cbv zeta in H. rewrite Hl in H.
  destruct n as [|n]; [discriminate|lia].
Qed.

Lemma factor_inner_counts_le_ok : stmt_factor_inner_counts_le.
Proof.
  intros T O n Ap Ai Ax et P st Hl H.
  pose proof (fa_factor_inner_n_pos O n Ap Ai Ax et P st Hl H) as Hn.
  destruct (factor_inner_pivots_ok T O n Ap Ai Ax et P st Hl H)
    as (piv & Hlen & HD & HDi & Hall & Hreg & Hpos).
  split; [exact Hn|]. split; [|split].
  - rewrite Hreg. etransitivity; [apply fa_count_true_le|]. rewrite map_length, seq_length. lia.
  - rewrite Hpos. etransitivity; [apply fa_count_true_le|]. rewrite map_length, seq_length. lia.
  - intros Hen. rewrite Hreg. apply fa_count_true_all_false.
    intros k. unfold regularise. rewrite Hen. reflexivity.
Qed.

(** ** errors *)
Lemma factor_inner_errors_ok : stmt_factor_inner_errors.
Proof.
  intros T O n Ap Ai Ax et P e H. unfold factor_inner in H. cbv zeta in H.
  assert (Hrows : forall s l e0, foldM (row_step O n Ap Ai Ax et P) l (Ok s) = Err e0 ->
                  e0 = ZeroPivot \/ e0 = OutOfFuel \/ e0 = Panicked).
  { intros s l e0 H0.
    eapply (fa_foldM_errs _ (fun e => e = ZeroPivot \/ e = OutOfFuel \/ e = Panicked)); [|exact H0].
    intros s' x e1 He1. apply fa_row_step_err in He1. destruct He1 as [->|[_ ->]]; auto. }
  destruct (fp_logical P) eqn:Hl.
  - cbn [bind] in H. eapply Hrows; eauto.
  - destruct (n =? 0).
    + cbn [bind] in H. inversion H; auto.
    + destruct (pivot_finish O P 0 _ _) as [st1|e1] eqn:E1; cbn [bind] in H.
      * eapply Hrows; eauto.
      * inversion H; subst. left. eapply fa_pivot_finish_err; eauto.
Qed.

(** ** logical mode *)
Lemma factor_inner_logical_ok : stmt_factor_inner_logical.
Proof.
  intros T O n Ap Ai Ax et P st Hl H. unfold factor_inner in H. cbv zeta in H.
  rewrite Hl in H. cbn [bind] in H.
  eapply (fa_foldM_pres (row_step O n Ap Ai Ax et P) (fun s => fs_pos s = 0 /\ fs_reg s = 0));
    [| |exact H].
  - intros s x s' [Hp Hr] Hs.
    destruct (fa_row_step_logical O n Ap Ai Ax et P s x s' Hl Hs) as [Hp' Hr'].
    split; congruence.
  - simpl. auto.
Qed.

Lemma factor_inner_logical_errors_ok : stmt_factor_inner_logical_errors.
Proof.
  intros T O n Ap Ai Ax et P e Hl H. unfold factor_inner in H. cbv zeta in H.
  rewrite Hl in H. cbn [bind] in H.
  eapply (fa_foldM_errs _ (fun e => e = OutOfFuel)); [|exact H].
  intros s x e1 He1. apply fa_row_step_err in He1.
  destruct He1 as [->|[Hf _]]; auto. congruence.
Qed.

(** ** non-vacuity *)
Example factor_example_ok : stmt_factor_example.
Proof. vm_compute. repeat split; reflexivity. Qed.

Example factor_example_zero_pivot_ok : stmt_factor_example_zero_pivot.
Proof. vm_compute. reflexivity. Qed.

(** the hypotheses of the trace theorem are met by the example *)
Example factor_example_trace :
  exists st, fp_logical ex_P = false /\
             factor_inner OpsQ 3 ex_Ap ex_Ai ex_Ax ex_et ex_P = Ok st /\ fs_reg st = 1 /\ fs_pos st = 2.
Proof.
  destruct (factor_inner OpsQ 3 ex_Ap ex_Ai ex_Ax ex_et ex_P) as [st|e] eqn:E.
  - exists st. pose proof factor_example_ok as H. unfold stmt_factor_example in H.
    rewrite E in H. destruct H as (H1 & H2 & H3 & _). repeat split; auto.
  - pose proof factor_example_ok as H. unfold stmt_factor_example in H. rewrite E in H. contradiction.
Qed.
