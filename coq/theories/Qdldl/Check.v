(** Executable correspondence checkers for C12.

    A case is a script: one call of [QDLDLFactorisation::new] followed by a list of
    operations (solve / update_values / scale_values / offset_values / refactor) together
    with everything the Rust code returned.  [run] replays the script on the model and
    compares.  Codes: 0 agree, 1 property-level disagreement, 2 same observable (dense L,
    D, Dinv, inertia, counts, verdict kinds, solutions, meaning of the permuted copy and of
    AtoPAPt) but a private array (storage order, etree, Lnz) differs from the model's.

    The section is generic in the scalar type: it is instantiated at exact rationals
    (exactness-domain stream: equality) and at binary64 primitive floats (general floats:
    the model executes the same operations, compared with a relative tolerance).
    [chk_ldl]/[chk_solve] are the exact dyadic residual checkers (backward-error bounds)
    that do not go through the model at all. *)
From Coq Require Import List Arith ZArith NArith QArith Qabs Lia Bool Floats.
Import ListNotations.
Require Import Clarabel.Base.Ops Clarabel.Base.Dyadic Clarabel.Qdldl.Model Clarabel.Qdldl.ModelHistory.
Local Open Scope nat_scope.

(** combination of result codes: 1 (violation candidate) dominates 2 (information), 2 dominates 0 *)
Definition andc (a b : N) : N := if N.eqb a 1 || N.eqb b 1 then 1%N else N.max a b.
Definition ofb (b : bool) : N := if b then 0%N else 1%N.
Definition maxl (l : list N) : N := fold_left andc l 0%N.
Definition nats (l : list N) : list nat := map N.to_nat l.
Fixpoint fails (k : N) (l : list N) : list (N * N) :=
  match l with
  | [] => []
  | c :: r => if N.eqb c 0 then fails (N.succ k) r else (k, c) :: fails (N.succ k) r
  end.
Fixpoint list_eqb {X} (f : X -> X -> bool) (a b : list X) : bool :=
  match a, b with
  | [], [] => true
  | x :: a', y :: b' => f x y && list_eqb f a' b'
  | _, _ => false
  end.
Definition nlist_eqb := list_eqb Nat.eqb.
Definition optn_eqb (a b : option nat) : bool :=
  match a, b with Some x, Some y => x =? y | None, None => true | _, _ => false end.
Definition etree_of (l : list Z) : list (option nat) :=
  map (fun z => if (z <? 0)%Z then None else Some (Z.to_nat z)) l.

Definition err_code (e : qerr) : N :=
  match e with
  | IncompatibleDimension => 1 | EmptyColumn => 2 | NotUpperTriangular => 3 | ZeroPivot => 4
  | InvalidPermutation => 5 | OutOfFuel => 90 | Panicked => 99 | LayoutOverflow => 91
  end%N.

(** is [p] a permutation of 0..|p|-1 ?  (independent of the model: counting) *)
Definition is_perm_b (p : list nat) : bool :=
  forallb (fun i => count_occ Nat.eq_dec p i =? 1) (seq 0 (length p)).

(** reduced exact rationals *)
Definition OpsQr : Ops Q := {|
  zero := 0%Q; one := 1%Q;
  add := fun a b => Qred (a + b)%Q; sub := fun a b => Qred (a - b)%Q;
  mul := fun a b => Qred (a * b)%Q; div := fun a b => Qred (a / b)%Q;
  neg := fun a => Qred (- a)%Q; abs := Qabs; sqrt := fun x => x;
  ltb := Qltb; leb := Qle_bool; eqb := Qeq_bool; ofZ := inject_Z |}.
Definition qd (d : dy) : Q := Qred (d2Q d).

Section Run.
Context {T : Type} (O : Ops T) (veq : T -> T -> bool).
(** [strict]: a disagreement of computed VALUES with the model (D, Dinv, L values, inertia and
    regularisation count, solutions) is a violation candidate (exact-rational stream) or only
    information, code 2 (binary64 streams: the model transcribes one operation order; the
    binding checks there are the order-independent ones added by the harness: exact dyadic
    residuals, pivot rule, inertia, Rust-vs-Rust bitwise refactor == fresh) *)
Context (strict : bool).
Definition soft : N := if strict then 1%N else 2%N.

Definition vlist_eqb := list_eqb veq.

(** what the Rust side reports after new / refactor *)
Inductive snap : Type :=
  | SOk (Lp Li : list nat) (Lx Dg Dinv : list T) (pos reg : nat)
        (et : list (option nat)) (lnz amap Pc Pr : list nat) (Pv : list T)
  | SErr (code : N)
  | SPanic.

Inductive op : Type :=
  | OSolve (b : list T) (out : option (list T))          (* None: the call panicked *)
  | OUpdate (idx : list nat) (vals : list T)
  | OScale (idx : list nat) (s : T)
  | OOffset (idx : list nat) (off : T) (signs : list Z) (panicked : bool)
  | ORefactor (out : snap).

(** dense reading of a strictly lower triangular factor stored by columns *)
Definition lget (Lp Li : list nat) (Lx : list T) (i j : nat) : T :=
  fold_left (fun acc e => if fst e =? i then add O acc (snd e) else acc) (lcol O Lp Li Lx j) (zero O).
Definition ldense (n : nat) (Lp Li : list nat) (Lx : list T) : list (list T) :=
  map (fun i => map (fun j => lget Lp Li Lx i j) (seq 0 n)) (seq 0 n).

(** meaning of the permuted copy: the Rust P/AtoPAPt are acceptable iff AtoPAPt is
    injective on the stored upper entries of A, lands in the right column of P, and P
    carries the right row index and the value there *)
Definition pmap_ok (A : spm (T:=T)) (iperm amap Pc Pr : list nat) (Pv : list T) : bool :=
  let ts := triu_tasks A in
  let pos := map (fun t => nth (fst t) amap 0) ts in
  (length Pv =? length ts) && (length Pr =? length ts) &&
  forallb (fun t =>
             let p := nth (fst t) amap 0 in
             let c := task_col A iperm t in
             (nth c Pc 0 <=? p) && (p <? nth (S c) Pc 0)
             && (nth p Pr 0 =? task_row A iperm t)
             && veq (nth p Pv (zero O)) (nth (fst t) (nzval A) (zero O))) ts
  && forallb (fun p => count_occ Nat.eq_dec pos p =? 1) pos.

Definition cmp_snap (Ain : spm (T:=T)) (F : res (fact (T:=T))) (s : snap) : N :=
  match F, s with
  | Ok F, SOk Lp Li Lx Dg Dinv pos reg et lnz amap Pc Pr Pv =>
      let n := length (f_D F) in
      let w := f_ws F in
      let PA := w_triuA w in
      let obs :=
        vlist_eqb (f_D F) Dg && vlist_eqb (f_Dinv F) Dinv
        && (positive_inertia F =? pos) && (regularize_count F =? reg) in
      let lsame := nlist_eqb (f_Lp F) Lp && nlist_eqb (f_Li F) Li in
      let lobs := if lsame then vlist_eqb (f_Lx F) Lx
                  else list_eqb vlist_eqb (ldense n (f_Lp F) (f_Li F) (f_Lx F)) (ldense n Lp Li Lx) in
      let psame := nlist_eqb (colptr PA) Pc && nlist_eqb (rowval PA) Pr && nlist_eqb (w_AtoPAPt w) amap in
      let pobs := if psame then vlist_eqb (nzval PA) Pv
                  else nlist_eqb (colptr PA) Pc && pmap_ok Ain (f_iperm F) amap Pc Pr Pv in
      let priv := list_eqb optn_eqb (w_etree w) et && nlist_eqb (w_Lnz w) lnz in
      if negb pobs then 1%N
      else if negb (obs && lobs) then soft
      else if lsame && psame && priv then 0%N else 2%N
  | Err Panicked, SPanic => 0%N
  | Err e, SErr c => ofb (N.eqb (err_code e) c)
  | _, _ => 1%N
  end.

(** the input matrix after the same updates, applied directly to its stored entries (the
    meaning of update/scale/offset that the property refers to) *)
Definition set_vals (A : spm (T:=T)) (v : list T) : spm (T:=T) :=
  mkSpm (sm A) (sn A) (colptr A) (rowval A) v.

(** the script is replayed on the history state machine of ModelHistory.v: [r_st] = (object,
    "held factors are meaningful"); after a failed refactor the script goes on (a refactor with no
    change must fail again, a repaired matrix must refactor to the fresh factorisation, a solve in
    between is unspecified) *)
Record rstate : Type := mkRS { r_st : hstate (T:=T); r_A : spm (T:=T); r_code : N }.

Definition step (S : settings (T:=T)) (st : rstate) (o : op) : rstate :=
  let F := h_F (r_st st) in
  let A := r_A st in
  match o with
  | OSolve b out =>
      match h_step O (r_st st) (HSolve b) with
      | (_, HoSolve r) =>
          let c := match r, out with
                   | Ok x, Some x' => if vlist_eqb x x' then 0%N else soft
                   | Err Panicked, None => 0%N
                   | _, _ => 1%N
                   end in
          mkRS (r_st st) A (andc (r_code st) c)
      | _ => st   (* after a failed refactor: unspecified *)
      end
  | OUpdate idx vals =>
      mkRS (fst (h_step O (r_st st) (HUpdate idx vals))) (hop_on_A O A (HUpdate idx vals)) (r_code st)
  | OScale idx s =>
      mkRS (fst (h_step O (r_st st) (HScale idx s))) (hop_on_A O A (HScale idx s)) (r_code st)
  | OOffset idx off signs panicked =>
      match h_step O (r_st st) (HOffset idx off signs) with
      | (st', HoPanic) => mkRS st' A (andc (r_code st) (ofb panicked))
      | (st', _) => mkRS st' (hop_on_A O A (HOffset idx off signs)) (andc (r_code st) (ofb (negb panicked)))
      end
  | ORefactor out =>
      let F' := refactor O F in
      (* the property's claim: the same as factoring the updated matrix from scratch *)
      let S' := mkSet (s_perm S) false (s_Dsigns S) (s_reg_enable S) (s_eps S) (s_delta S) in
      let fresh := qnew O A S' in
      let c := andc (cmp_snap A F' out) (cmp_snap A fresh out) in
      mkRS (fst (h_step O (r_st st) HRefactor)) A (andc (r_code st) c)
  end.

Definition run (A : spm (T:=T)) (S : settings (T:=T)) (first : snap) (ops : list op) : N :=
  let F := qnew O A S in
  let c0 := cmp_snap A F first in
  match F with
  | Err _ => andc c0 (ofb (match ops with [] => true | _ => false end))
  | Ok F0 => r_code (fold_left (step S) ops (mkRS (mkH F0 true) A c0))
  end.

End Run.

(** ** instantiation at exact rationals (inputs and outputs printed as dyadics) *)
Definition qs (l : list dy) : list Q := map qd l.
Definition spmQ (m n : N) (cp rv : list N) (nz : list dy) : spm (T:=Q) :=
  mkSpm (N.to_nat m) (N.to_nat n) (nats cp) (nats rv) (qs nz).
Definition setQ (perm : list N) (logical : bool) (ds : option (list Z)) (en : bool) (eps delta : dy)
  : settings (T:=Q) := mkSet (nats perm) logical ds en (qd eps) (qd delta).
Definition sokQ (Lp Li : list N) (Lx Dg Dinv : list dy) (pos reg : N) (et : list Z)
           (lnz amap Pc Pr : list N) (Pv : list dy) : snap (T:=Q) :=
  SOk (nats Lp) (nats Li) (qs Lx) (qs Dg) (qs Dinv) (N.to_nat pos) (N.to_nat reg) (etree_of et)
      (nats lnz) (nats amap) (nats Pc) (nats Pr) (qs Pv).
Definition oSolveQ (b : list dy) (x : option (list dy)) : op (T:=Q) := OSolve (qs b) (option_map qs x).
Definition oUpdateQ (idx : list N) (v : list dy) : op (T:=Q) := OUpdate (nats idx) (qs v).
Definition oScaleQ (idx : list N) (s : dy) : op (T:=Q) := OScale (nats idx) (qd s).
Definition oOffsetQ (idx : list N) (off : dy) (sg : list Z) (p : bool) : op (T:=Q) :=
  OOffset (nats idx) (qd off) sg p.
Definition runQ := run OpsQr Qeq_bool true.

(** ** instantiation at binary64 *)
Definition tolF : float := 0x1p-30%float.
Definition closeF (a b : float) : bool :=
  PrimFloat.eqb a b || (PrimFloat.is_nan a && PrimFloat.is_nan b)
  || PrimFloat.leb (PrimFloat.abs (PrimFloat.sub a b))
                   (PrimFloat.mul tolF (PrimFloat.add 1%float (PrimFloat.add (PrimFloat.abs a) (PrimFloat.abs b)))).
Definition spmF (m n : N) (cp rv : list N) (nz : list float) : spm (T:=float) :=
  mkSpm (N.to_nat m) (N.to_nat n) (nats cp) (nats rv) nz.
Definition setF (perm : list N) (logical : bool) (ds : option (list Z)) (en : bool) (eps delta : float)
  : settings (T:=float) := mkSet (nats perm) logical ds en eps delta.
Definition sokF (Lp Li : list N) (Lx Dg Dinv : list float) (pos reg : N) (et : list Z)
           (lnz amap Pc Pr : list N) (Pv : list float) : snap (T:=float) :=
  SOk (nats Lp) (nats Li) Lx Dg Dinv (N.to_nat pos) (N.to_nat reg) (etree_of et)
      (nats lnz) (nats amap) (nats Pc) (nats Pr) Pv.
Definition oSolveF (b : list float) (x : option (list float)) : op (T:=float) := OSolve b x.
Definition oUpdateF (idx : list N) (v : list float) : op (T:=float) := OUpdate (nats idx) v.
Definition oScaleF (idx : list N) (s : float) : op (T:=float) := OScale (nats idx) s.
Definition oOffsetF (idx : list N) (off : float) (sg : list Z) (p : bool) : op (T:=float) :=
  OOffset (nats idx) off sg p.
Definition runF := run OpsF closeF false.

(** ** permutation vectors: accepted iff a permutation (spec side, not the model), and the
    model agrees *)
Definition c_invperm (p : list N) (accepted : bool) (b : list N) : N :=
  let p' := nats p in
  andc (ofb (Bool.eqb accepted (is_perm_b p')))
       (match invperm p', accepted with
        | Ok b', true => ofb (nlist_eqb b' (nats b))
        | Err _, false => 0%N
        | _, _ => 1%N
        end).

(** ** exact residual checkers over dyadics (no model involved) *)
Definition OpsD : Ops dy := {|
  zero := d0; one := d1; add := dadd; sub := dsub; mul := dmul;
  div := fun a _ => a (* unused *); neg := dneg; abs := dabs; sqrt := fun x => x;
  ltb := dltb; leb := dleb; eqb := deqb; ofZ := dofZ |}.

(** symmetric dense reading of an upper-triangular CSC (duplicates add) *)
Definition uget (cp rv : list nat) (nz : list dy) (i j : nat) : dy :=
  let (r, c) := if i <=? j then (i, j) else (j, i) in
  fold_left (fun acc idx => if nth idx rv 0 =? r then dadd acc (nth idx nz d0) else acc)
            (col_range cp c) d0.

(** row i of (I+L) as a dense list of length n *)
Definition lrow (n : nat) (Lp Li : list nat) (Lx : list dy) (i : nat) : list dy :=
  map (fun j => if j =? i then d1 else if j <? i then lget OpsD Lp Li Lx i j else d0) (seq 0 n).

(** | PAP' - (I+L) D (I+L)' |_ij  <=  g * ( |I+L| |D| |I+L|' )_ij  for all i <= j, g = c n 2^-53;
    (PAP')_ij = A[perm i, perm j] is read from the INPUT matrix and the ordering *)
Definition chk_ldl (c : Z) (n : N) (perm Acp Arv : list N) (Anz : list dy)
           (Lp Li : list N) (Lx Dg : list dy) : N :=
  let n' := N.to_nat n in
  let p := nats perm in
  let Acp' := nats Acp in let Arv' := nats Arv in let Lp' := nats Lp in let Li' := nats Li in
  let rows := map (lrow n' Lp' Li' Lx) (seq 0 n') in
  let g := D (c * Z.of_N n) (-53) in
  ofb (forallb (fun i =>
        forallb (fun j =>
          let ri := nth i rows [] in let rj := nth j rows [] in
          let terms := map (fun t => dmul (dmul (fst (fst t)) (snd t)) (snd (fst t))) (combine (combine ri rj) Dg) in
          let s := dsum terms in
          let sa := dsum (map dabs terms) in
          dleb (dabs (dsub (uget Acp' Arv' Anz (nth i p 0) (nth j p 0)) s)) (dmul g sa))
          (seq i (n' - i))) (seq 0 n')).

(** | b - A x |_oi <= g * ( |A||x| )_oi + g * ( |I+L||D||I+L|' |x[perm]| )_i   with oi = perm i *)
Definition chk_solve (c : Z) (n : N) (perm Acp Arv : list N) (Anz : list dy)
           (Lp Li : list N) (Lx Dg : list dy) (b x : list dy) : N :=
  let n' := N.to_nat n in
  let p := nats perm in
  let Acp' := nats Acp in let Arv' := nats Arv in let Lp' := nats Lp in let Li' := nats Li in
  let xp := map (fun i => nth (nth i p 0) x d0) (seq 0 n') in
  let rows := map (lrow n' Lp' Li' Lx) (seq 0 n') in
  let g := D (c * Z.of_N n) (-53) in
  let ax := map dabs x in
  let axp := map dabs xp in
  let w := map (fun k => dsum (map (fun i => dmul (dabs (nth k (nth i rows []) d0)) (nth i axp d0)) (seq 0 n'))) (seq 0 n') in
  let dw := map (fun kd => dmul (dabs (snd kd)) (fst kd)) (combine w Dg) in
  ofb ((length b =? n') && (length x =? n') &&
       forallb (fun i =>
        let oi := nth i p 0 in
        let ai := map (fun oj => uget Acp' Arv' Anz oi oj) (seq 0 n') in
        let r := dsub (nth oi b d0) (ddot ai x) in
        let bound := dadd (ddot (map dabs ai) ax) (ddot (map dabs (nth i rows [])) dw) in
        dleb (dabs r) (dmul g bound)) (seq 0 n')).
