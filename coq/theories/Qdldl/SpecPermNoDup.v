(** Statement: [permute_symmetric] preserves "upper triangular without duplicate entries"
    ([triu_nodup] of SpecFactorCorrect.v) when the index map is injective.
    Statements only; the proofs are in LemmasPermNoDup.v. *)
From Coq Require Import List Arith ZArith Lia Bool Permutation.
Import ListNotations.
Require Import Clarabel.Base.Ops Clarabel.Qdldl.Model Clarabel.Qdldl.SpecPermSym
               Clarabel.Qdldl.SpecFactorCorrect.

(** every position below nnz lies in some column *)
Definition stmt_col_of_exists : Prop :=
  forall T (A : spm (T:=T)) k, wf_csc A -> k < nnz A -> exists c, col_of A k c.

(** the index map AtoPAPt is onto the positions of P *)
Definition stmt_permute_symmetric_amap_onto : Prop :=
  forall T (O : Ops T) (A : spm (T:=T)) iperm,
    wf_csc A -> sm A = sn A -> upper_tri_ps A -> length iperm = sn A ->
    (forall i, i < sn A -> nth i iperm 0 < sn A) ->
    let amap := snd (permute_symmetric O A iperm) in
    forall q, q < nnz A -> exists k, k < nnz A /\ nth k amap 0 = q.

Definition stmt_permute_symmetric_triu_nodup : Prop :=
  forall T (O : Ops T) (A : spm (T:=T)) iperm,
    wf_csc A -> sm A = sn A -> upper_tri_ps A -> triu_nodup (sn A) (colptr A) (rowval A) ->
    length iperm = sn A -> (forall i, i < sn A -> nth i iperm 0 < sn A) -> NoDup iperm ->
    let P := fst (permute_symmetric O A iperm) in
    triu_nodup (sn A) (colptr P) (rowval P).

(** non-vacuity: the 3x3 instance of SpecPermSym.v meets all hypotheses *)
Definition stmt_pnd_example_hyps : Prop :=
  wf_csc ps_exA /\ sm ps_exA = sn ps_exA /\ upper_tri_ps ps_exA /\
  triu_nodup (sn ps_exA) (colptr ps_exA) (rowval ps_exA) /\
  length ps_exIperm = sn ps_exA /\
  (forall i, i < sn ps_exA -> nth i ps_exIperm 0 < sn ps_exA) /\ NoDup ps_exIperm.
