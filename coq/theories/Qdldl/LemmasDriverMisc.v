(** Proofs of the statements of Qdldl/SpecDriverMisc.v. *)
From Coq Require Import String.
From Coq Require Import List Arith ZArith Reals Lra Lia Bool Ring Permutation.
Import ListNotations.
Require Import Clarabel.Base.Ops Clarabel.Qdldl.Model Clarabel.Qdldl.ModelDriver
        Clarabel.Qdldl.SpecSolve Clarabel.Qdldl.SpecFactor Clarabel.Qdldl.SpecFactorCorrect
        Clarabel.Qdldl.SpecPermSym Clarabel.Qdldl.SpecPermEntries
        Clarabel.Qdldl.LemmasFactor Clarabel.Qdldl.LemmasSolve Clarabel.Qdldl.LemmasGlue
        Clarabel.Qdldl.SpecDriverMisc.
Local Open Scope nat_scope.

(** * C. dispatch *)
Section Dispatch.
Local Open Scope string_scope.

Lemma dm_eqb_neq_false (s t : string) : s <> t -> String.eqb s t = false.
Proof. intros H. apply String.eqb_neq. exact H. Qed.

Lemma dispatch_valid_ok : stmt_dispatch_valid.
Proof.
  intros f s r. unfold validate_method, dispatch.
  destruct (String.eqb s "auto"); [split; [intros _; discriminate | reflexivity]|].
  destruct (String.eqb s "qdldl"); [split; [intros _; discriminate | reflexivity]|].
  destruct (String.eqb s "faer").
  - destruct f; split; intros H; try discriminate; try reflexivity.
    exfalso. apply H. reflexivity.
  - split; intros H; [discriminate|]. exfalso. apply H. reflexivity.
Qed.

Lemma dispatch_cases_ok : stmt_dispatch_cases.
Proof.
  unfold stmt_dispatch_cases.
  split; [intros f r; reflexivity|].
  split; [intros r; reflexivity|].
  split; [intros r; reflexivity|].
  split; [intros f r; destruct f, r; reflexivity|].
  intros f s r Ha Hq Hf. unfold dispatch.
  rewrite (dm_eqb_neq_false _ _ Ha), (dm_eqb_neq_false _ _ Hq), (dm_eqb_neq_false _ _ Hf).
  reflexivity.
Qed.

Lemma dispatch_faer_needs_feature_ok : stmt_dispatch_faer_needs_feature.
Proof.
  intros f s r. unfold dispatch.
  destruct (String.eqb s "auto").
  - destruct f; [reflexivity|]. intros H; discriminate.
  - destruct (String.eqb s "qdldl"); [intros H; discriminate|].
    destruct (String.eqb s "faer"); [|intros H; discriminate].
    destruct f; [reflexivity|intros H; discriminate].
Qed.

Lemma validate_cases_ok : stmt_validate_cases.
Proof.
  intros f s. unfold validate_method.
  destruct (String.eqb_spec s "auto") as [Ha|Ha]; [split; auto|].
  destruct (String.eqb_spec s "qdldl") as [Hq|Hq]; [split; auto|].
  destruct (String.eqb_spec s "faer") as [Hf|Hf].
  - split; [intros H; right; right; split; assumption|].
    intros [H|[H|[_ H]]]; [contradiction|contradiction|exact H].
  - split; [intros H; discriminate|].
    intros [H|[H|[H _]]]; contradiction.
Qed.

(** non-vacuity / sanity by computation *)
Example dm_ex_auto_small : dispatch true "auto" true = DOk BQdldl.
Proof. reflexivity. Qed.
Example dm_ex_auto_big : dispatch true "auto" false = DOk BFaer.
Proof. reflexivity. Qed.
Example dm_ex_auto_nofeature : dispatch false "auto" false = DOk BQdldl.
Proof. reflexivity. Qed.
Example dm_ex_faer_nofeature :
  validate_method false "faer" = false /\ dispatch false "faer" true = DPanic.
Proof. split; reflexivity. Qed.
Example dm_ex_unknown :
  validate_method true "mkl" = false /\ dispatch true "mkl" false = DPanic.
Proof. split; reflexivity. Qed.
End Dispatch.

(** * A. dynamic regularisation over the reals *)
Section DynReg.
Local Open Scope R_scope.

Lemma dm_sign_sq (z : Z) : z = 1%Z \/ z = (-1)%Z -> IZR z * IZR z = 1.
Proof. intros [->| ->]; lra. Qed.

Lemma dm_nth_map_seq {X} (f : nat -> X) n k d : (k < n)%nat -> nth k (map f (seq 0 n)) d = f k.
Proof.
  intros Hk. rewrite (nth_indep _ d (f 0%nat)) by (rewrite map_length, seq_length; exact Hk).
  rewrite map_nth. rewrite seq_nth by exact Hk. reflexivity.
Qed.

Lemma dynamic_reg_split_ok : stmt_dynamic_reg_split.
Proof.
  intros n Ap Ai Ax et P st Hlog Hen Hsg Hrun.
  destruct (factor_inner_pivots_ok R OpsR n Ap Ai Ax et P st Hlog Hrun)
    as [piv [Hlp [HlD [_ [Hk [Hreg _]]]]]].
  cbn [zero OpsR] in Hk, Hreg.
  exists piv, (map (fun k => snd (regularise OpsR P k (nth k piv 0))) (seq 0 n)).
  split; [exact Hlp|]. split; [rewrite map_length, seq_length; reflexivity|].
  split; [exact HlD|]. split; [exact Hreg|].
  intros k Hkn s. rewrite (dm_nth_map_seq _ n k false Hkn).
  destruct (Hk k Hkn) as [HD _].
  destruct (regularise OpsR P k (nth k piv 0)) as [d' r] eqn:Ereg.
  destruct (regularise_only_below_eps_ok R OpsR P k (nth k piv 0) d' r Ereg) as [Ht Hf].
  cbn [fst] in HD. cbn [snd]. cbn [ltb mul ofZ OpsR] in Ht, Hf.
  fold (sgnR P k) in Ht, Hf. fold s in Ht, Hf.
  pose proof (dm_sign_sq _ (Hsg k Hkn)) as Hss. fold (sgnR P k) in Hss. fold s in Hss.
  split; intros Hr.
  - destruct (Ht Hr) as [_ [Hlt Hd']]. apply Rltb_true in Hlt.
    split; [exact Hlt|]. rewrite HD, Hd'. split; [reflexivity|].
    rewrite Rmult_assoc, Hss. ring.
  - destruct (Hf Hr) as [Hd' Hge]. specialize (Hge Hen). apply Rltb_false in Hge.
    rewrite HD, Hd'. split; [reflexivity|exact Hge].
Qed.

Lemma dm_split_cases n Ap Ai Ax et (P : fparams (T:=R)) st :
  fp_logical P = false -> fp_reg_enable P = true -> signs_pm1 n (fp_Dsigns P) ->
  factor_inner OpsR n Ap Ai Ax et P = Ok st ->
  forall k, (k < n)%nat ->
    nth k (fs_D st) 0 * sgnR P k = fp_delta P \/ fp_eps P <= nth k (fs_D st) 0 * sgnR P k.
Proof.
  intros Hlog Hen Hsg Hrun k Hkn.
  destruct (dynamic_reg_split_ok n Ap Ai Ax et P st Hlog Hen Hsg Hrun)
    as [piv [pert [_ [_ [_ [_ Hk]]]]]].
  destruct (Hk k Hkn) as [Ht Hf].
  destruct (nth k pert false).
  - left. apply Ht. reflexivity.
  - right. apply Hf. reflexivity.
Qed.

Lemma dynamic_reg_signs_ok : stmt_dynamic_reg_signs.
Proof.
  intros n Ap Ai Ax et P st Hlog Hen Heps Hdel Hsg Hrun k Hkn s.
  destruct (dm_split_cases n Ap Ai Ax et P st Hlog Hen Hsg Hrun k Hkn) as [H|H];
    unfold sgnR in H; fold s in H.
  - rewrite H. apply Rmin_r.
  - eapply Rle_trans; [apply Rmin_l|exact H].
Qed.

Lemma dynamic_reg_sign_strict_ok : stmt_dynamic_reg_sign_strict.
Proof.
  intros n Ap Ai Ax et P st Hlog Hen Heps Hdel Hsg Hrun k Hkn.
  assert (Hpos : 0 < nth k (fs_D st) 0 * sgnR P k).
  { destruct (dm_split_cases n Ap Ai Ax et P st Hlog Hen Hsg Hrun k Hkn) as [H|H]; lra. }
  split; [exact Hpos|]. unfold sgnR in Hpos.
  split; intros Hz; rewrite Hz in Hpos; lra.
Qed.

Lemma dynamic_reg_delta_bound_ok : stmt_dynamic_reg_delta_bound.
Proof.
  intros n Ap Ai Ax et P st Hlog Hen Hle Hsg Hrun k Hkn.
  destruct (dm_split_cases n Ap Ai Ax et P st Hlog Hen Hsg Hrun k Hkn) as [H|H]; lra.
Qed.

(** ** a concrete run over the reals *)
Lemma dm_reg_pert (P : fparams (T:=R)) k d :
  fp_reg_enable P = true -> d * sgnR P k < fp_eps P ->
  regularise OpsR P k d = (fp_delta P * sgnR P k, true).
Proof.
  intros Hen Hlt. unfold regularise. rewrite Hen. cbn [ltb mul ofZ OpsR].
  fold (sgnR P k). apply Rltb_true in Hlt. rewrite Hlt. reflexivity.
Qed.
Lemma dm_reg_keep (P : fparams (T:=R)) k d :
  fp_reg_enable P = true -> fp_eps P <= d * sgnR P k ->
  regularise OpsR P k d = (d, false).
Proof.
  intros Hen Hge. unfold regularise. rewrite Hen. cbn [ltb mul ofZ OpsR].
  fold (sgnR P k). apply Rltb_false in Hge. rewrite Hge. reflexivity.
Qed.
Lemma dm_pivot_finish_R (P : fparams (T:=R)) k d st d' r :
  regularise OpsR P k d = (d', r) -> d' <> 0 ->
  pivot_finish OpsR P k d st
  = Ok (mkFS (fs_cols st) (upd (fs_D st) k d') (upd (fs_Dinv st) k (1 / d'))
             (fs_marks st) (fs_yvals st)
             (if Rltb 0 d' then S (fs_pos st) else fs_pos st)
             (if r then S (fs_reg st) else fs_reg st)).
Proof.
  intros Hreg Hnz. unfold pivot_finish. rewrite Hreg. cbn [eqb zero OpsR].
  apply Reqb_false in Hnz. rewrite Hnz. reflexivity.
Qed.

Lemma dynamic_reg_example_ok : stmt_dynamic_reg_example.
Proof.
  unfold stmt_dynamic_reg_example.
  assert (Hen : fp_reg_enable dr_exP = true) by reflexivity.
  assert (Hs0 : sgnR dr_exP 0 = 1) by reflexivity.
  assert (Hs1 : sgnR dr_exP 1 = -1) by reflexivity.
  assert (He : fp_eps dr_exP = 1) by reflexivity.
  assert (Hd : fp_delta dr_exP = 2) by reflexivity.
  assert (Hr0 : regularise OpsR dr_exP 0 0 = (2 * 1, true)).
  { rewrite (dm_reg_pert dr_exP 0%nat 0 Hen); [rewrite Hs0, Hd; reflexivity|].
    rewrite Hs0, He. lra. }
  assert (Hr1 : regularise OpsR dr_exP 1 (-(3/2)) = (-(3/2), false)).
  { apply (dm_reg_keep dr_exP 1%nat (-(3/2)) Hen). rewrite Hs1, He. lra. }
  set (st0 := mkFS (repeat [] 2) (repeat 0 2) (repeat 0 2) (repeat false 2) (repeat 0 2) 0 0
              : fstate (T:=R)).
  assert (H1 : factor_inner OpsR 2 dr_exAp dr_exAi dr_exAx dr_exEt dr_exP
               = bind (pivot_finish OpsR dr_exP 0 0 st0)
                      (fun st1 => row_step OpsR 2 dr_exAp dr_exAi dr_exAx dr_exEt dr_exP st1 1)).
  { reflexivity. }
  rewrite H1.
  rewrite (dm_pivot_finish_R dr_exP 0%nat 0 st0 (2 * 1) true Hr0) by lra.
  cbn [bind].
  match goal with |- exists st, row_step _ _ _ _ _ _ _ ?s1 _ = _ /\ _ =>
    set (st1 := s1);
    assert (H2 : row_step OpsR 2 dr_exAp dr_exAi dr_exAx dr_exEt dr_exP st1 1
                 = pivot_finish OpsR dr_exP 1 (-(3/2))
                     (mkFS (fs_cols st1) (fs_D st1) (fs_Dinv st1) (fs_marks st1)
                           (fs_yvals st1) (fs_pos st1) (fs_reg st1))) by reflexivity
  end.
  rewrite H2.
  rewrite (dm_pivot_finish_R dr_exP 1%nat (-(3/2)) _ (-(3/2)) false Hr1) by lra.
  eexists. split; [reflexivity|].
  split; [reflexivity|]. split; [reflexivity|].
  split; [rewrite He; lra|]. split; [rewrite Hd; lra|].
  split; [intros k Hk; destruct k as [|[|k]]; [left; reflexivity|right; reflexivity|lia]|].
  split; reflexivity.
Qed.

Lemma dynamic_reg_delta_bound_refuted_ok : stmt_dynamic_reg_delta_bound_refuted.
Proof.
  destruct dynamic_reg_example_ok as [st [Hrun [Hlog [Hen [He [Hd [Hsg [HD _]]]]]]]].
  exists 2%nat, dr_exAp, dr_exAi, dr_exAx, dr_exEt, dr_exP, st, 1%nat.
  split; [exact Hlog|]. split; [exact Hen|]. split; [exact He|]. split; [exact Hd|].
  split; [exact Hsg|]. split; [exact Hrun|]. split; [lia|].
  rewrite HD. cbn [nth].
  replace (sgnR dr_exP 1) with (-1) by reflexivity.
  replace (fp_delta dr_exP) with 2 by reflexivity. lra.
Qed.

(** the general theorems applied to the concrete run (non-vacuity of their hypotheses) *)
Example dm_ex_dynamic_reg_used :
  exists st, factor_inner OpsR 2 dr_exAp dr_exAi dr_exAx dr_exEt dr_exP = Ok st /\
    forall k, (k < 2)%nat ->
      Rmin (fp_eps dr_exP) (fp_delta dr_exP) <= nth k (fs_D st) 0 * sgnR dr_exP k.
Proof.
  destruct dynamic_reg_example_ok as [st [Hrun [Hlog [Hen [He [Hd [Hsg _]]]]]]].
  exists st. split; [exact Hrun|]. intros k Hk.
  exact (dynamic_reg_signs_ok 2%nat dr_exAp dr_exAi dr_exAx dr_exEt dr_exP st
           Hlog Hen He Hd Hsg Hrun k Hk).
Qed.

End DynReg.

(** * B. symv *)
Section Symv.
Context {T : Type} (O : Ops T).
Hypothesis RT : ring_theory (zero O) (one O) (add O) (mul O) (sub O) (neg O) (@eq T).
Add Ring DmRing : RT.

Notation oz := (zero O).
Notation "a [+] b" := (add O a b) (at level 50, left associativity).
Notation "a [*] b" := (mul O a b) (at level 40, left associativity).

Lemma dm_isum_filter (p : nat -> bool) l f :
  isum O (filter p l) f = isum O l (fun k => if p k then f k else oz).
Proof.
  induction l as [|k l IH]; [reflexivity|].
  cbn [filter]. rewrite (gl_isum_cons O k l). destruct (p k).
  - rewrite gl_isum_cons, IH. reflexivity.
  - rewrite IH. ring.
Qed.

Lemma dm_isum_pick l r g : NoDup l -> In r l ->
  isum O l (fun j => if j =? r then g j else oz) = g r.
Proof.
  intros Hnd Hin.
  rewrite (sv_isum_ext O l _ (fun j => (if r =? j then one O else oz) [*] g j)).
  - rewrite (sv_isum_delta O RT l r (one O) g Hnd Hin). ring.
  - intros j _. rewrite (Nat.eqb_sym r j). destruct (j =? r); ring.
Qed.

Variables (K : spm (T:=T)) (x : list T) (a : T).
Notation Rw idx := (nth idx (rowval K) 0).
Notation Vl idx := (nth idx (nzval K) oz).
Notation Xv j := (nth j x oz).
Notation CR col := (col_range (colptr K) col).

(** the body of the inner loop of [symv] *)
Definition dm_step (col : nat) (y : list T) (idx : nat) : list T :=
  let row := Rw idx in
  let Aij := Vl idx in
  let y1 := upd y row (nth row y oz [+] (a [*] Aij) [*] Xv col) in
  if row =? col then y1
  else upd y1 col (nth col y1 oz [+] (a [*] Aij) [*] Xv row).

Lemma dm_symv_unfold (y : list T) b :
  symv O K y x a b
  = fold_left (fun y col => fold_left (dm_step col) (CR col) y)
              (seq 0 (length x)) (map (fun v => v [*] b) y).
Proof. reflexivity. Qed.

Lemma dm_step_length col y idx : length (dm_step col y idx) = length y.
Proof.
  unfold dm_step. destruct (Rw idx =? col); rewrite ?sv_upd_length; reflexivity.
Qed.

Lemma dm_step_nth col y idx i :
  Rw idx < length y -> col < length y ->
  nth i (dm_step col y idx) oz = nth i y oz [+] symv_contrib O K x a i col idx.
Proof.
  intros Hr Hc. unfold dm_step, symv_contrib.
  set (row := Rw idx) in *. set (av := a [*] Vl idx).
  destruct (Nat.eqb_spec row col) as [Erc|Nrc]; cbn [negb andb].
  - destruct (Nat.eqb_spec row i) as [Eri|Nri].
    + rewrite <- Eri. rewrite sv_nth_upd_eq by exact Hr. ring.
    + rewrite sv_nth_upd_neq by (intros E; apply Nri; symmetry; exact E). ring.
  - destruct (Nat.eqb_spec col i) as [Eci|Nci].
    + rewrite <- Eci. rewrite sv_nth_upd_eq by (rewrite sv_upd_length; exact Hc).
      rewrite sv_nth_upd_neq by (intros E; apply Nrc; symmetry; exact E).
      destruct (Nat.eqb_spec row col) as [E|_]; [contradiction|]. ring.
    + rewrite sv_nth_upd_neq by (intros E; apply Nci; symmetry; exact E).
      destruct (Nat.eqb_spec row i) as [Eri|Nri].
      * rewrite <- Eri. rewrite sv_nth_upd_eq by exact Hr. ring.
      * rewrite sv_nth_upd_neq by (intros E; apply Nri; symmetry; exact E). ring.
Qed.

Lemma dm_inner_fold col : forall l y,
  (forall idx, In idx l -> Rw idx < length y) -> col < length y ->
  length (fold_left (dm_step col) l y) = length y /\
  forall i, nth i (fold_left (dm_step col) l y) oz
            = nth i y oz [+] isum O l (symv_contrib O K x a i col).
Proof.
  induction l as [|idx l IH]; intros y Hr Hc.
  - split; [reflexivity|]. intros i. cbn [fold_left]. rewrite gl_isum_nil. ring.
  - cbn [fold_left].
    destruct (IH (dm_step col y idx)) as [Hl Hn].
    + intros k Hk. rewrite dm_step_length. apply Hr. right; exact Hk.
    + rewrite dm_step_length. exact Hc.
    + split; [rewrite Hl; apply dm_step_length|].
      intros i. rewrite Hn, gl_isum_cons.
      rewrite dm_step_nth by (try exact Hc; apply Hr; left; reflexivity). ring.
Qed.

Lemma dm_outer_fold : forall cols y,
  (forall col, In col cols ->
     col < length y /\ forall idx, In idx (CR col) -> Rw idx < length y) ->
  length (fold_left (fun y col => fold_left (dm_step col) (CR col) y) cols y) = length y /\
  forall i, nth i (fold_left (fun y col => fold_left (dm_step col) (CR col) y) cols y) oz
            = nth i y oz
              [+] isum O cols (fun col => isum O (CR col) (symv_contrib O K x a i col)).
Proof.
  induction cols as [|col cols IH]; intros y H.
  - split; [reflexivity|]. intros i. cbn [fold_left]. rewrite gl_isum_nil. ring.
  - cbn [fold_left].
    destruct (H col (or_introl eq_refl)) as [Hc Hr].
    destruct (dm_inner_fold col (CR col) y Hr Hc) as [Hl1 Hn1].
    destruct (IH (fold_left (dm_step col) (CR col) y)) as [Hl Hn].
    + intros c Hin. rewrite Hl1. apply H. right; exact Hin.
    + split; [rewrite Hl; exact Hl1|].
      intros i. rewrite Hn, Hn1, gl_isum_cons. ring.
Qed.

Lemma dm_symv_length (y : list T) b : length (symv O K y x a b) = length y.
Proof.
  rewrite dm_symv_unfold.
  rewrite (sv_fold_length (fun y col => fold_left (dm_step col) (CR col) y)).
  - apply map_length.
  - intros s c. apply sv_fold_length. intros s' e. apply dm_step_length.
Qed.

Lemma dm_symv_entries n (y : list T) b :
  length x = n -> length y = n -> rows_in_range n (colptr K) (rowval K) ->
  forall i, i < n ->
    nth i (symv O K y x a b) oz
    = (nth i y oz [*] b)
      [+] vsum O n (fun col => isum O (CR col) (fun idx => symv_contrib O K x a i col idx)).
Proof.
  intros Hx Hy Hrows i Hi. rewrite dm_symv_unfold, Hx.
  destruct (dm_outer_fold (seq 0 n) (map (fun v => v [*] b) y)) as [_ Hn].
  - intros col Hin. apply in_seq in Hin. rewrite map_length, Hy.
    split; [lia|]. intros idx Hidx. apply (Hrows col idx); [lia|exact Hidx].
  - rewrite Hn. unfold vsum. f_equal.
    rewrite (nth_indep _ oz (oz [*] b)) by (rewrite map_length; lia).
    rewrite (map_nth (fun v => v [*] b)). reflexivity.
Qed.

(** ** from stored entries to the dense symmetric reading *)
Variable n : nat.
Hypothesis Hup : upper_cols n (colptr K) (rowval K).

Lemma dm_part1 i col : col < n ->
  isum O (CR col) (fun idx => if Rw idx =? i then (a [*] Vl idx) [*] Xv col else oz)
  = a [*] ((if i <=? col then Aent O (colptr K) (rowval K) (nzval K) i col else oz) [*] Xv col).
Proof.
  intros Hc. destruct (Nat.leb_spec i col) as [Hle|Hlt].
  - unfold Aent. rewrite dm_isum_filter.
    rewrite <- (gl_isum_scal_r O RT), <- (gl_isum_scal_l O RT).
    apply sv_isum_ext. intros idx _. destruct (Rw idx =? i); ring.
  - rewrite (sv_isum_zero O RT); [ring|].
    intros idx Hin. pose proof (Hup col idx Hc Hin) as Hle.
    destruct (Nat.eqb_spec (Rw idx) i) as [E|_]; [lia|reflexivity].
Qed.

Lemma dm_part2 i col : col < n ->
  isum O (CR col) (fun idx => if negb (Rw idx =? col) && (col =? i)
                              then (a [*] Vl idx) [*] Xv (Rw idx) else oz)
  = if col =? i
    then isum O (CR i) (fun idx => if Rw idx <? i then (a [*] Vl idx) [*] Xv (Rw idx) else oz)
    else oz.
Proof.
  intros Hc. destruct (Nat.eqb_spec col i) as [E|N].
  - subst col. apply sv_isum_ext. intros idx Hin.
    pose proof (Hup i idx Hc Hin) as Hle. rewrite andb_true_r.
    destruct (Nat.eqb_spec (Rw idx) i) as [E|N]; destruct (Nat.ltb_spec (Rw idx) i) as [L|G];
      cbn [negb]; try reflexivity; lia.
  - apply (sv_isum_zero O RT). intros idx _. rewrite andb_false_r. reflexivity.
Qed.

Lemma dm_lower_row i j : i < n ->
  (if i <=? j then oz else Aent O (colptr K) (rowval K) (nzval K) j i) [*] Xv j
  = isum O (CR i) (fun idx => if Rw idx =? j
                              then (if j <? i then Vl idx [*] Xv j else oz) else oz).
Proof.
  intros Hi. destruct (Nat.leb_spec i j) as [Hle|Hlt].
  - rewrite (sv_isum_zero O RT); [ring|].
    intros idx _. destruct (Rw idx =? j); [|reflexivity].
    destruct (Nat.ltb_spec j i) as [L|_]; [lia|reflexivity].
  - unfold Aent. rewrite <- (gl_isum_scal_r O RT), dm_isum_filter.
    apply sv_isum_ext. intros idx _. destruct (Rw idx =? j); [|reflexivity].
    destruct (Nat.ltb_spec j i) as [_|G]; [reflexivity|lia].
Qed.

Lemma dm_lower_sum i : i < n ->
  isum O (CR i) (fun idx => if Rw idx <? i then (a [*] Vl idx) [*] Xv (Rw idx) else oz)
  = a [*] vsum O n (fun j => (if i <=? j then oz
                              else Aent O (colptr K) (rowval K) (nzval K) j i) [*] Xv j).
Proof.
  intros Hi. unfold vsum.
  rewrite (sv_isum_ext O (seq 0 n) _
             (fun j => isum O (CR i) (fun idx => if Rw idx =? j
                          then (if j <? i then Vl idx [*] Xv j else oz) else oz)))
    by (intros j _; apply dm_lower_row; exact Hi).
  rewrite (gl_isum_swap O RT (seq 0 n) (CR i)
             (fun j idx => if Rw idx =? j then (if j <? i then Vl idx [*] Xv j else oz) else oz)).
  rewrite <- (gl_isum_scal_l O RT).
  apply sv_isum_ext. intros idx Hin.
  pose proof (Hup i idx Hi Hin) as Hle.
  rewrite (sv_isum_ext O (seq 0 n) _
             (fun j => if j =? Rw idx then (if j <? i then Vl idx [*] Xv j else oz) else oz))
    by (intros j _; rewrite (Nat.eqb_sym (Rw idx) j); reflexivity).
  rewrite (dm_isum_pick (seq 0 n) (Rw idx)
             (fun j => if j <? i then Vl idx [*] Xv j else oz)).
  - destruct (Rw idx <? i); ring.
  - apply seq_NoDup.
  - apply in_seq. lia.
Qed.

Lemma dm_dense_sum i : i < n ->
  vsum O n (fun col => isum O (CR col) (fun idx => symv_contrib O K x a i col idx))
  = a [*] symrow O K n x i.
Proof.
  intros Hi. unfold vsum at 1.
  rewrite (sv_isum_ext O (seq 0 n) _
     (fun col =>
        (a [*] ((if i <=? col then Aent O (colptr K) (rowval K) (nzval K) i col else oz)
                [*] Xv col))
        [+] (if col =? i
             then isum O (CR i) (fun idx => if Rw idx <? i
                                            then (a [*] Vl idx) [*] Xv (Rw idx) else oz)
             else oz))).
  2:{ intros col Hin. apply in_seq in Hin.
      rewrite <- (dm_part1 i col) by lia. rewrite <- (dm_part2 i col) by lia.
      rewrite <- (sv_isum_add O RT). apply sv_isum_ext. intros idx _. reflexivity. }
  rewrite (sv_isum_add O RT).
  rewrite (dm_isum_pick (seq 0 n) i (fun _ => isum O (CR i) _)) by
    (try apply seq_NoDup; apply in_seq; lia).
  rewrite (gl_isum_scal_l O RT), (dm_lower_sum i Hi).
  unfold symrow, vsum.
  rewrite (sv_isum_ext O (seq 0 n)
             (fun j => Asym O (colptr K) (rowval K) (nzval K) i j [*] Xv j)
             (fun j => ((if i <=? j then Aent O (colptr K) (rowval K) (nzval K) i j else oz)
                        [*] Xv j)
                       [+] ((if i <=? j then oz
                             else Aent O (colptr K) (rowval K) (nzval K) j i) [*] Xv j))).
  2:{ intros j _. unfold Asym. destruct (i <=? j); ring. }
  rewrite (sv_isum_add O RT). ring.
Qed.

End Symv.

Section SymvFinal.
Context {T : Type} (O : Ops T).
Hypothesis RT : ring_theory (zero O) (one O) (add O) (mul O) (sub O) (neg O) (@eq T).
Add Ring DmRing2 : RT.

Lemma dm_upper_rows_in_range n Ap Ai : upper_cols n Ap Ai -> rows_in_range n Ap Ai.
Proof.
  intros Hup j idx Hj Hin. pose proof (Hup j idx Hj Hin). lia.
Qed.

Lemma dm_symv_dense (K : spm (T:=T)) n (y x : list T) a b :
  length x = n -> length y = n -> upper_cols n (colptr K) (rowval K) ->
  forall i, i < n ->
    nth i (symv O K y x a b) (zero O)
    = add O (mul O a (symrow O K n x i)) (mul O b (nth i y (zero O))).
Proof.
  intros Hx Hy Hup i Hi.
  rewrite (dm_symv_entries O RT K x a n y b Hx Hy (dm_upper_rows_in_range _ _ _ Hup) i Hi).
  rewrite (dm_dense_sum O RT K x a n Hup i Hi). ring.
Qed.

Lemma dm_refine_error_dense (FL : FlOps T) (K : spm (T:=T)) n (b xi : list T) :
  length xi = n -> length b = n -> upper_cols n (colptr K) (rowval K) ->
  forall i, i < n ->
    nth i (fst (refine_error O FL K b xi)) (zero O)
    = sub O (nth i b (zero O)) (symrow O K n xi i).
Proof.
  intros Hx Hb Hup i Hi. unfold refine_error. cbn [fst].
  rewrite (dm_symv_dense K n b xi (neg O (one O)) (one O) Hx Hb Hup i Hi). ring.
Qed.
End SymvFinal.

Lemma symv_length_ok : stmt_symv_length.
Proof. intros T O K y x a b. apply dm_symv_length. Qed.

Lemma symv_entries_ok : stmt_symv_entries.
Proof.
  intros T O K n y x a b RL Hx Hy Hrows.
  split; [rewrite dm_symv_length; exact Hy|].
  intros i Hi. exact (dm_symv_entries O RL K x a n y b Hx Hy Hrows i Hi).
Qed.

Lemma symv_dense_ok : stmt_symv_dense.
Proof.
  intros T O K n y x a b RL Hx Hy Hup.
  split; [rewrite dm_symv_length; exact Hy|].
  intros i Hi. exact (dm_symv_dense O RL K n y x a b Hx Hy Hup i Hi).
Qed.

Lemma dm_upper_tri_ps_cols {T} (K : spm (T:=T)) n :
  sn K = n -> upper_tri_ps K -> upper_cols n (colptr K) (rowval K).
Proof.
  intros Hn Hut j idx Hj Hin. unfold col_range in Hin. apply in_seq in Hin.
  apply (Hut j idx); [lia|]. lia.
Qed.

Lemma symv_dense_wf_ok : stmt_symv_dense_wf.
Proof.
  intros T O K n y x a b RL _ _ Hsn Hut Hx Hy.
  exact (symv_dense_ok T O K n y x a b RL Hx Hy (dm_upper_tri_ps_cols K n Hsn Hut)).
Qed.

Lemma refine_error_dense_ok : stmt_refine_error_dense.
Proof.
  intros T O FL K n b xi RL Hx Hb Hup.
  split; [unfold refine_error; cbn [fst]; rewrite dm_symv_length; exact Hb|].
  split; [reflexivity|].
  intros i Hi. exact (dm_refine_error_dense O RL FL K n b xi Hx Hb Hup i Hi).
Qed.

(** non-vacuity of B: the 2x2 upper triangle [[2,3],[.,5]] over Z,
    sym(K) (1,10) = (32, 53);  y' = 1*sym(K) x + 2*y with y = (100, 200) *)
Definition dm_exK : spm (T:=Z) := mkSpm 2 2 [0; 1; 3] [0; 0; 1] [2; 3; 5]%Z.
Example dm_ex_symv_hyps :
  upper_cols 2 (colptr dm_exK) (rowval dm_exK) /\ wf_csc dm_exK /\ upper_tri_ps dm_exK.
Proof.
  split; [|split].
  - intros j idx Hj Hin. destruct j as [|[|j]]; [| |lia]; cbn in Hin.
    + destruct Hin as [<-|[]]. cbn. lia.
    + destruct Hin as [<-|[<-|[]]]; cbn; lia.
  - unfold wf_csc. cbn.
    split; [reflexivity|]. split; [reflexivity|].
    split; [intros j Hj; destruct j as [|[|j]]; cbn; lia|].
    split; [reflexivity|]. split; [reflexivity|].
    intros k Hk. destruct k as [|[|[|k]]]; cbn; lia.
  - intros j idx Hj Hr. cbn in Hj.
    destruct j as [|[|j]]; [| |lia]; cbn in Hr.
    + assert (idx = 0) by lia. subst idx. cbn. lia.
    + assert (idx = 1 \/ idx = 2) as [-> | ->] by lia; cbn; lia.
Qed.
Example dm_ex_symv_run :
  symv OpsZ dm_exK [100; 200]%Z [1; 10]%Z 1%Z 2%Z = [232; 453]%Z /\
  fst (refine_error OpsZ (FlField 0%Z) dm_exK [100; 200]%Z [1; 10]%Z) = [68; 147]%Z.
Proof. split; vm_compute; reflexivity. Qed.
