(** Proofs of the statements of [SpecPerm.v]: [invperm] accepts exactly the permutations
    and returns the inverse; [invperm_old] does not; verdicts of [check_structure]. *)
From Coq Require Import List Arith Lia Bool Permutation.
Import ListNotations.
Require Import Clarabel.Base.Ops Clarabel.Qdldl.Model Clarabel.Qdldl.SpecPerm.

(** ** [upd] *)
Lemma upd_length {X} (l : list X) i v : length (upd l i v) = length l.
Proof.
  revert i; induction l as [|x r IH]; intros [|i]; cbn; auto.
Qed.

Lemma nth_upd_eq {X} (l : list X) i v d : i < length l -> nth i (upd l i v) d = v.
Proof.
  revert i; induction l as [|x r IH]; intros [|i] H; cbn in *; try lia; auto.
  apply IH; lia.
Qed.

Lemma nth_upd_neq {X} (l : list X) i j v d : i <> j -> nth j (upd l i v) d = nth j l d.
Proof.
  revert i j; induction l as [|x r IH]; intros [|i] [|j] H; cbn; auto; try lia.
Qed.

Lemma nth_repeat_any {X} (a d : X) n j : nth j (repeat a n) d = a \/ nth j (repeat a n) d = d.
Proof.
  revert j; induction n as [|n IH]; intros [|j]; cbn; auto.
Qed.

(** ** the loop of [invperm] *)
Lemma invperm_go_sound p : forall n i b seen b',
  length b = n -> length seen = n ->
  invperm_go n i p b seen = Ok b' ->
  NoDup p /\ (forall j, In j p -> j < n /\ nth j seen false = false) /\
  length b' = n /\
  (forall k, k < length p -> nth (nth k p 0) b' 0 = i + k) /\
  (forall j, ~ In j p -> nth j b' 0 = nth j b 0).
Proof.
  induction p as [|j p' IH]; intros n i b seen b' Hb Hs Hgo; cbn [invperm_go] in Hgo.
  - inversion Hgo; subst b'.
    split; [constructor|]. split; [intros j [] |]. split; [exact Hb|].
    split; [intros k Hk; cbn in Hk; lia | intros j _; reflexivity].
  - destruct (j <? n) eqn:Hjn; cbn in Hgo; [|discriminate].
    destruct (nth j seen false) eqn:Hjs; cbn in Hgo; [discriminate|].
    apply Nat.ltb_lt in Hjn.
    apply IH in Hgo; [|rewrite upd_length; auto|rewrite upd_length; auto].
    destruct Hgo as (Hnd & Hin & Hlen & Hval & Hkeep).
    assert (Hnotin : ~ In j p').
    { intros Hc. apply Hin in Hc. destruct Hc as [_ Hc].
      rewrite nth_upd_eq in Hc by lia. discriminate. }
    split; [constructor; auto|].
    split; [|split; [exact Hlen|split]].
    + intros j0 [H|H].
      * subst j0; auto.
      * assert (Hne : j0 <> j) by (intros ->; contradiction).
        apply Hin in H. destruct H as [H1 H2].
        rewrite nth_upd_neq in H2 by auto. auto.
    + intros [|k] Hk; cbn in *.
      * rewrite Hkeep by auto. rewrite nth_upd_eq by lia. lia.
      * rewrite Hval by lia. lia.
    + intros j0 Hj0. cbn in Hj0.
      rewrite Hkeep by tauto. apply nth_upd_neq. tauto.
Qed.

Lemma invperm_go_complete p : forall n i b seen,
  length b = n -> length seen = n -> NoDup p ->
  (forall j, In j p -> j < n /\ nth j seen false = false) ->
  exists b', invperm_go n i p b seen = Ok b'.
Proof.
  induction p as [|j p' IH]; intros n i b seen Hb Hs Hnd Hin; cbn [invperm_go].
  - eauto.
  - destruct (Hin j (or_introl eq_refl)) as [Hjn Hjs].
    apply Nat.ltb_lt in Hjn. rewrite Hjn, Hjs. cbn.
    inversion Hnd as [|x l Hnotin Hnd']; subst.
    apply IH; auto; try (rewrite upd_length; auto).
    intros j0 Hj0. destruct (Hin j0 (or_intror Hj0)) as [H1 H2]. split; auto.
    rewrite nth_upd_neq; auto. intros ->; contradiction.
Qed.

Lemma invperm_go_err p : forall n i b seen e,
  invperm_go n i p b seen = Err e -> e = InvalidPermutation.
Proof.
  induction p as [|j p' IH]; intros n i b seen e Hgo; cbn [invperm_go] in Hgo.
  - discriminate.
  - destruct ((j <? n) && negb (nth j seen false)).
    + eapply IH; eauto.
    + inversion Hgo; auto.
Qed.

(** ** permutations of [0..n-1] as duplicate-free lists of small numbers *)
Lemma is_perm_iff p : is_perm p <-> NoDup p /\ (forall j, In j p -> j < length p).
Proof.
  unfold is_perm; split.
  - intros HP; split.
    + apply (Permutation_NoDup (Permutation_sym HP)). apply seq_NoDup.
    + intros j Hj. apply (Permutation_in _ HP) in Hj. apply in_seq in Hj. lia.
  - intros [Hnd Hlt]. apply NoDup_Permutation_bis; auto.
    + rewrite seq_length; auto.
    + intros j Hj. apply in_seq. apply Hlt in Hj. lia.
Qed.

Lemma nth_repeat_false n j : nth j (repeat false n) false = false.
Proof. destruct (nth_repeat_any false false n j); auto. Qed.

Lemma invperm_ok_iff_perm_ok : stmt_invperm_ok_iff_perm.
Proof.
  intros p. rewrite is_perm_iff. unfold invperm. split.
  - intros [b Hb]. apply invperm_go_sound in Hb; try apply repeat_length.
    destruct Hb as (Hnd & Hin & _). split; auto. intros j Hj. apply Hin; auto.
  - intros [Hnd Hlt]. apply invperm_go_complete; auto; try apply repeat_length.
    intros j Hj; split; auto. apply nth_repeat_false.
Qed.

Lemma invperm_inverse_ok : stmt_invperm_inverse.
Proof.
  intros p b Hb.
  assert (Hperm : is_perm p) by (apply invperm_ok_iff_perm_ok; eauto).
  unfold invperm in Hb. apply invperm_go_sound in Hb; try apply repeat_length.
  destruct Hb as (Hnd & Hin & Hlen & Hval & _).
  assert (Hinv1 : forall i, i < length p -> nth (nth i p 0) b 0 = i).
  { intros i Hi. rewrite Hval; auto. }
  assert (Hex : forall j, j < length p -> exists k, k < length p /\ nth k p 0 = j).
  { intros j Hj. apply (In_nth p j 0).
    apply (Permutation_in _ (Permutation_sym Hperm)). apply in_seq. lia. }
  assert (Hinv2 : forall j, j < length p -> nth (nth j b 0) p 0 = j).
  { intros j Hj. destruct (Hex j Hj) as (k & Hk & Hkj). subst j. rewrite Hinv1; auto. }
  assert (Hrange : forall j, j < length p -> nth j b 0 < length p).
  { intros j Hj. destruct (Hex j Hj) as (k & Hk & Hkj). subst j. rewrite Hinv1; auto. }
  repeat split; auto.
  apply is_perm_iff. rewrite Hlen. split.
  - apply (NoDup_nth b 0). rewrite Hlen. intros i j Hi Hj Heq.
    rewrite <- (Hinv2 i Hi), <- (Hinv2 j Hj), Heq. reflexivity.
  - intros x Hx. apply (In_nth b x 0) in Hx. destruct Hx as (k & Hk & Hkx).
    subst x. apply Hrange. lia.
Qed.

Lemma invperm_err_kind_ok : stmt_invperm_err_kind.
Proof.
  intros p e He. unfold invperm in He. eapply invperm_go_err; eauto.
Qed.

(** ** the defect that was fixed, and non-vacuity *)
Lemma invperm_refuted_ok : stmt_invperm_refuted.
Proof.
  exists [1;1], [0;1]. split; [reflexivity|].
  intros HP. apply is_perm_iff in HP. destruct HP as [Hnd _].
  inversion Hnd as [|x l Hnotin _]; subst. apply Hnotin. left; reflexivity.
Qed.

Example invperm_example : invperm [2;0;1] = Ok [1;2;0].
Proof. reflexivity. Qed.

Example invperm_rejects_dup : invperm [1;1] = Err InvalidPermutation.
Proof. reflexivity. Qed.

(** ** [check_structure] *)
Lemma is_triu_iff_ok : stmt_is_triu_iff.
Proof.
  intros T A. unfold is_triu, upper_tri, col_range. rewrite forallb_forall. split.
  - intros H j idx Hj Hidx.
    assert (Hc : In j (seq 0 (sn A))) by (apply in_seq; lia).
    apply H in Hc. rewrite forallb_forall in Hc.
    assert (Hi : In idx (seq (nth j (colptr A) 0) (nth (S j) (colptr A) 0 - nth j (colptr A) 0)))
      by (apply in_seq; lia).
    apply Hc in Hi. apply negb_true_iff in Hi. apply Nat.ltb_ge in Hi. exact Hi.
  - intros H j Hj. apply in_seq in Hj. apply forallb_forall. intros idx Hidx.
    apply in_seq in Hidx. apply negb_true_iff. apply Nat.ltb_ge. apply H; lia.
Qed.

Lemma windows_lt_iff_ok : stmt_windows_lt_iff.
Proof.
  intros l. induction l as [|a r IH].
  - cbn. split; auto. intros _ j Hj. lia.
  - destruct r as [|b r'].
    + cbn. split; auto. intros _ j Hj. lia.
    + change (windows_lt (a :: b :: r')) with ((a <? b) && windows_lt (b :: r')).
      rewrite andb_true_iff, IH, Nat.ltb_lt. split.
      * intros [Hab Hr] [|j] Hj; [exact Hab|].
        change (nth j (b :: r') 0 < nth (S j) (b :: r') 0). apply Hr. cbn in *; lia.
      * intros H. split; [apply (H 0); cbn; lia|].
        intros j Hj. apply (H (S j)). cbn in *; lia.
Qed.

Lemma check_structure_spec_ok : stmt_check_structure_spec.
Proof.
  intros T A.
  pose proof (is_triu_iff_ok T A) as Htri.
  pose proof (windows_lt_iff_ok (colptr A)) as Hwin.
  fold (no_empty_col A) in Hwin.
  unfold check_structure.
  destruct (sm A =? sn A) eqn:Hmn; cbn [negb].
  2:{ apply Nat.eqb_neq in Hmn.
      (split; [|split; [|split]]); (split; intros H0); try discriminate; try tauto. }
  apply Nat.eqb_eq in Hmn.
  destruct (is_triu A) eqn:Ht; cbn [negb].
  2:{ assert (Hnu : ~ upper_tri A) by (intros Hc; apply Htri in Hc; discriminate).
      (split; [|split; [|split]]); (split; intros H0); try discriminate; try tauto. }
  assert (Hu : upper_tri A) by (apply Htri; reflexivity).
  destruct (windows_lt (colptr A)) eqn:Hw; cbn [negb].
  2:{ assert (Hnn : ~ no_empty_col A) by (intros Hc; apply Hwin in Hc; discriminate).
      (split; [|split; [|split]]); (split; intros H0); try discriminate; try tauto. }
  assert (Hne : no_empty_col A) by (apply Hwin; reflexivity).
  (split; [|split; [|split]]); (split; intros H0); try discriminate; try tauto.
Qed.

Lemma check_structure_total_ok : stmt_check_structure_total.
Proof.
  intros T A. unfold check_structure.
  destruct (sm A =? sn A); cbn [negb]; auto.
  destruct (is_triu A); cbn [negb]; auto.
  destruct (windows_lt (colptr A)); cbn [negb]; auto.
Qed.

(** non-vacuity: one instance per verdict *)
Example check_structure_ok_ex :
  check_structure (mkSpm 2 2 [0;1;3] [0;0;1] [1;2;3]) = Ok tt.
Proof. reflexivity. Qed.
Example check_structure_dim_ex :
  check_structure (mkSpm 2 3 [0;1;3;4] [0;0;1;2] [1;2;3;4]) = Err IncompatibleDimension.
Proof. reflexivity. Qed.
Example check_structure_triu_ex :
  check_structure (mkSpm 2 2 [0;2;3] [0;1;1] [1;2;3]) = Err NotUpperTriangular.
Proof. reflexivity. Qed.
Example check_structure_empty_ex :
  check_structure (mkSpm 2 2 [0;1;1] [0] [1]) = Err EmptyColumn.
Proof. reflexivity. Qed.
