(** Statements about value updates and refactor (statements only). *)
From Coq Require Import List Arith ZArith Lia Bool.
Import ListNotations.
Require Import Clarabel.Base.Ops Clarabel.Qdldl.Model.

Section SpecRefactor.
Context {T : Type} (O : Ops T).

Definition set_nzval (A : spm (T:=T)) (v : list T) : spm (T:=T) :=
  mkSpm (sm A) (sn A) (colptr A) (rowval A) v.

(** a batch of point updates "entry i becomes g (entry i)" applied to a value vector *)
Definition apply_updates (us : list (nat * (T -> T))) (nz : list T) : list T :=
  fold_left (fun nz u => upd nz (fst u) (snd u (nth (fst u) nz (zero O)))) us nz.

(** the three public update calls as batches of point updates on the INPUT matrix entries *)
Definition ups_update (idx : list nat) (vals : list T) : list (nat * (T -> T)) :=
  map (fun iv => (fst iv, fun _ : T => snd iv)) (combine idx vals).
Definition ups_scale (idx : list nat) (s : T) : list (nat * (T -> T)) :=
  map (fun i => (i, fun x : T => mul O x s)) idx.
Definition ups_offset (idx : list nat) (off : T) (signs : list Z) : list (nat * (T -> T)) :=
  map (fun is_ => (fst is_, fun x : T => match Z.sgn (snd is_) with
                                         | 1%Z => add O x off
                                         | (-1)%Z => sub O x off
                                         | _ => x
                                         end)) (combine idx signs).

Definition nonlogical (S : settings (T:=T)) : settings (T:=T) :=
  mkSet (s_perm S) false (s_Dsigns S) (s_reg_enable S) (s_eps S) (s_delta S).

(** what is assumed about the symmetric permutation (proved in LemmasPermSym for well-formed
    upper-triangular inputs): [Good A iperm] is a structural condition preserved by changing
    values; one point update of the input moves to the mapped entry of the permuted copy; the
    permuted copy holds the input value at the mapped position *)
Definition permsym_contract (Good : spm (T:=T) -> list nat -> Prop) : Prop :=
  (forall A ip v, length v = length (nzval A) -> Good A ip -> Good (set_nzval A v) ip) /\
  (forall A ip k v, Good A ip -> k < length (nzval A) ->
     permute_symmetric O (set_nzval A (upd (nzval A) k v)) ip
     = (set_nzval (fst (permute_symmetric O A ip))
                  (upd (nzval (fst (permute_symmetric O A ip))) (nth k (snd (permute_symmetric O A ip)) 0) v),
        snd (permute_symmetric O A ip))) /\
  (forall A ip k, Good A ip -> k < length (nzval A) ->
     nth (nth k (snd (permute_symmetric O A ip)) 0) (nzval (fst (permute_symmetric O A ip))) (zero O)
     = nth k (nzval A) (zero O) /\
     nth k (snd (permute_symmetric O A ip)) 0 < length (nzval (fst (permute_symmetric O A ip)))).

(** refactor after any batch of point updates (routed through AtoPAPt) is THE SAME VALUE as
    factoring the updated input matrix from scratch — for any scalar type, floats included *)
Definition stmt_refactor_is_fresh_factor_gen : Prop :=
  forall (Good : spm (T:=T) -> list nat -> Prop), permsym_contract Good ->
  forall A S F iperm us,
    qnew O A S = Ok F -> invperm (s_perm S) = Ok iperm -> Good A iperm ->
    (forall u, In u us -> fst u < length (nzval A)) ->
    refactor O (set_triu_vals F (apply_updates (map (fun u => (amap F (fst u), snd u)) us) (triu_vals F)))
    = qnew O (set_nzval A (apply_updates us (nzval A))) (nonlogical S).

(** the three public calls are such batches *)
Definition stmt_update_values_is_batch : Prop :=
  forall (F : fact (T:=T)) idx vals,
    update_values F idx vals
    = set_triu_vals F (apply_updates (map (fun u => (amap F (fst u), snd u)) (ups_update idx vals)) (triu_vals F)).
Definition stmt_scale_values_is_batch : Prop :=
  forall (F : fact (T:=T)) idx s,
    scale_values O F idx s
    = set_triu_vals F (apply_updates (map (fun u => (amap F (fst u), snd u)) (ups_scale idx s)) (triu_vals F)).
Definition stmt_offset_values_is_batch : Prop :=
  forall (F : fact (T:=T)) idx off signs,
    length idx = length signs ->
    offset_values O F idx off signs
    = Ok (set_triu_vals F (apply_updates (map (fun u => (amap F (fst u), snd u)) (ups_offset idx off signs)) (triu_vals F))).

End SpecRefactor.
