(** Proofs of the statements of Qdldl/SpecFactorCorrect.v (stages 1 and 2: one [rowB_step]
    in algebraic form, phase B of a row as a forward substitution over the reach). *)
From Coq Require Import List Arith Lia Bool Ring ZArith.
Import ListNotations.
Require Import Clarabel.Base.Ops Clarabel.Qdldl.Model Clarabel.Qdldl.SpecSolve
               Clarabel.Qdldl.LemmasSolve Clarabel.Qdldl.SpecFactorCorrect.

(** * order predicates *)
Lemma fc_after_in_In c r : forall l, after_in c r l = true -> In r l.
Proof.
  induction l as [|x l IH]; intros H; cbn [after_in] in H; [discriminate|].
  destruct (x =? c).
  - apply existsb_exists in H. destruct H as [z [Hz Heq]].
    apply Nat.eqb_eq in Heq. subst z. right; exact Hz.
  - right. apply IH. exact H.
Qed.

Lemma fc_prefix_before_In c x : forall l, In x (prefix_before c l) -> In x l.
Proof.
  induction l as [|a l IH]; intros H; cbn [prefix_before] in H; [destruct H|].
  destruct (a =? c); [destruct H|].
  destruct H as [H|H]; [left; exact H|right; apply IH; exact H].
Qed.

Lemma fc_marks_fold_nil (marks : list bool) :
  marks = fold_left (fun m c => upd m c false) (@nil nat) marks.
Proof. reflexivity. Qed.

(** * ring-dependent part *)
Section Ring.
Context {T : Type} (O : Ops T).
Hypothesis RT : ring_theory (zero O) (one O) (add O) (mul O) (sub O) (neg O) (@eq T).
Add Ring FcRing : RT.

Notation oz := (zero O).
Notation "a [+] b" := (add O a b) (at level 50, left associativity).
Notation "a [-] b" := (sub O a b) (at level 50, left associativity).
Notation "a [*] b" := (mul O a b) (at level 40, left associativity).

Lemma fc_isum_cons a l f : isum O (a :: l) f = f a [+] isum O l f.
Proof. reflexivity. Qed.

Lemma fc_isum_nil f : isum O [] f = oz.
Proof. reflexivity. Qed.

(** ** stage 1 *)
Lemma fc_rowB_step k Dinv cols (yv : list T) marks dk cidx :
  cidx < length yv ->
  (forall e, In e (nth cidx cols []) -> fst e < length yv) ->
  exists yv',
    rowB_step O false k Dinv (cols, yv, marks, dk) cidx
    = (upd cols cidx (nth cidx cols [] ++ [(k, nth cidx yv oz [*] nth cidx Dinv oz)]), yv',
       upd marks cidx false,
       dk [-] nth cidx yv oz [*] (nth cidx yv oz [*] nth cidx Dinv oz)) /\
    length yv' = length yv /\
    nth cidx yv' oz = oz /\
    forall r, r <> cidx ->
      nth r yv' oz = nth r yv oz [-] colent O (nth cidx cols []) r [*] nth cidx yv oz.
Proof.
  intros Hc Hrows. unfold rowB_step. cbv beta iota zeta.
  eexists. split; [reflexivity|].
  assert (Hlen : length (fold_left
                   (fun y e => upd y (fst e) (nth (fst e) y oz [-] snd e [*] nth cidx yv oz))
                   (nth cidx cols []) yv) = length yv).
  { apply sv_fold_length. intros s a. apply sv_upd_length. }
  split; [|split].
  - rewrite sv_upd_length. exact Hlen.
  - apply sv_nth_upd_eq. rewrite Hlen. exact Hc.
  - intros r Hr. rewrite sv_nth_upd_neq by exact Hr.
    apply (sv_col_apply O RT). exact Hrows.
Qed.

(** ** stage 2, for an arbitrary processing order *)
Lemma fc_rowB_fold k Dinv : forall todo cols (yv : list T) marks dk cols' yv' marks' dk',
  NoDup todo ->
  (forall c, In c todo -> c < length cols /\ c < length yv) ->
  (forall c, In c todo -> forall e, In e (nth c cols []) -> after_in c (fst e) todo = true) ->
  fold_left (rowB_step O false k Dinv) todo (cols, yv, marks, dk) = (cols', yv', marks', dk') ->
  exists y : nat -> T,
    (forall c, In c todo ->
       y c [+] isum O (prefix_before c todo) (fun c' => colent O (nth c' cols []) c [*] y c')
       = nth c yv oz) /\
    length cols' = length cols /\
    (forall c, In c todo -> nth c cols' [] = nth c cols [] ++ [(k, y c [*] nth c Dinv oz)]) /\
    (forall c, ~ In c todo -> nth c cols' [] = nth c cols []) /\
    length yv' = length yv /\
    (forall c, In c todo -> nth c yv' oz = oz) /\
    (forall r, ~ In r todo -> nth r yv' oz = nth r yv oz) /\
    dk' = dk [-] isum O todo (fun c => y c [*] (y c [*] nth c Dinv oz)) /\
    marks' = fold_left (fun m c => upd m c false) todo marks.
Proof.
  induction todo as [|c rest IH];
    intros cols yv marks dk cols' yv' marks' dk' Hnd Hlt Hclosed Hfold.
  - cbn [fold_left] in Hfold. inversion Hfold; subst.
    exists (fun _ => oz).
    split; [intros c []|]. split; [reflexivity|]. split; [intros c []|].
    split; [reflexivity|]. split; [reflexivity|]. split; [intros c []|].
    split; [reflexivity|]. split; [rewrite fc_isum_nil; ring|reflexivity].
  - inversion Hnd as [|c0 rest0 Hnotin Hnd']; subst c0 rest0.
    destruct (Hlt c (or_introl eq_refl)) as [Hc_cols Hc_yv].
    (* rows of column c lie in rest *)
    assert (Hcol_rest : forall e, In e (nth c cols []) -> In (fst e) rest).
    { intros e He. pose proof (Hclosed c (or_introl eq_refl) e He) as Ha.
      cbn [after_in] in Ha. rewrite Nat.eqb_refl in Ha.
      apply existsb_exists in Ha. destruct Ha as [z [Hz Heq]].
      apply Nat.eqb_eq in Heq. subst z. exact Hz. }
    assert (Hne : forall c', In c' rest -> c' <> c).
    { intros c' Hc' Heq. subst c'. contradiction. }
    assert (Hrows : forall e, In e (nth c cols []) -> fst e < length yv).
    { intros e He. apply (Hlt (fst e)). right. apply Hcol_rest. exact He. }
    destruct (fc_rowB_step k Dinv cols yv marks dk c Hc_yv Hrows)
      as (yv1 & Hstep & Hlen1 & Hc0 & Hother).
    cbn [fold_left] in Hfold. rewrite Hstep in Hfold.
    set (yc := nth c yv oz) in *.
    set (col := nth c cols []) in *.
    set (cols1 := upd cols c (col ++ [(k, yc [*] nth c Dinv oz)])) in *.
    assert (Hcols1 : forall c', c' <> c -> nth c' cols1 [] = nth c' cols []).
    { intros c' Hc'. unfold cols1. apply sv_nth_upd_neq. exact Hc'. }
    assert (Hcols1len : length cols1 = length cols).
    { unfold cols1. apply sv_upd_length. }
    assert (Hlt1 : forall c', In c' rest -> c' < length cols1 /\ c' < length yv1).
    { intros c' Hc'. rewrite Hcols1len, Hlen1. apply Hlt. right; exact Hc'. }
    assert (Hclosed1 : forall c', In c' rest -> forall e, In e (nth c' cols1 []) ->
                                  after_in c' (fst e) rest = true).
    { intros c' Hc' e He. rewrite (Hcols1 c' (Hne c' Hc')) in He.
      pose proof (Hclosed c' (or_intror Hc') e He) as Ha.
      cbn [after_in] in Ha.
      destruct (Nat.eqb_spec c c') as [Heq|_]; [|exact Ha].
      exfalso. apply (Hne c' Hc'). symmetry; exact Heq. }
    destruct (IH cols1 yv1 (upd marks c false)
                 (dk [-] yc [*] (yc [*] nth c Dinv oz)) cols' yv' marks' dk'
                 Hnd' Hlt1 Hclosed1 Hfold)
      as (y1 & Heq1 & Hlc & Happ & Hsame & Hlyv & Hzero & Hkeep & Hdk & Hmarks).
    set (y := fun x => if x =? c then yc else y1 x).
    assert (Hyc : y c = yc). { unfold y. rewrite Nat.eqb_refl. reflexivity. }
    assert (Hy1 : forall x, x <> c -> y x = y1 x).
    { intros x Hx. unfold y. destruct (Nat.eqb_spec x c) as [Heq|_]; [contradiction|reflexivity]. }
    exists y.
    split; [|split; [|split; [|split; [|split; [|split; [|split; [|split]]]]]]].
    + intros c0 Hin. destruct (Nat.eq_dec c0 c) as [->|Hc0c].
      * cbn [prefix_before]. rewrite Nat.eqb_refl, fc_isum_nil, Hyc. fold yc. ring.
      * assert (Hin' : In c0 rest) by (destruct Hin as [Hin|Hin]; [congruence|exact Hin]).
        cbn [prefix_before].
        destruct (Nat.eqb_spec c c0) as [Heq|_]; [exfalso; apply Hc0c; symmetry; exact Heq|].
        rewrite fc_isum_cons, Hyc, (Hy1 c0 Hc0c).
        rewrite (sv_isum_ext O (prefix_before c0 rest) _
                   (fun c' => colent O (nth c' cols1 []) c0 [*] y1 c')).
        2:{ intros c' Hc'. apply fc_prefix_before_In in Hc'.
            rewrite (Hcols1 c' (Hne c' Hc')), (Hy1 c' (Hne c' Hc')). reflexivity. }
        pose proof (Heq1 c0 Hin') as HI. rewrite (Hother c0 Hc0c) in HI.
        fold col.
        replace (nth c0 yv oz)
          with ((nth c0 yv oz [-] colent O col c0 [*] yc) [+] colent O col c0 [*] yc) by ring.
        rewrite <- HI. ring.
    + rewrite Hlc. exact Hcols1len.
    + intros c0 Hin. destruct (Nat.eq_dec c0 c) as [->|Hc0c].
      * rewrite (Hsame c Hnotin), Hyc. unfold cols1. apply sv_nth_upd_eq. exact Hc_cols.
      * assert (Hin' : In c0 rest) by (destruct Hin as [Hin|Hin]; [congruence|exact Hin]).
        rewrite (Happ c0 Hin'), (Hcols1 c0 Hc0c), (Hy1 c0 Hc0c). reflexivity.
    + intros c0 Hnin.
      assert (Hc0c : c0 <> c) by (intros ->; apply Hnin; left; reflexivity).
      assert (Hnin' : ~ In c0 rest) by (intros Hx; apply Hnin; right; exact Hx).
      rewrite (Hsame c0 Hnin'). apply Hcols1. exact Hc0c.
    + rewrite Hlyv. exact Hlen1.
    + intros c0 Hin. destruct (Nat.eq_dec c0 c) as [->|Hc0c].
      * rewrite (Hkeep c Hnotin). exact Hc0.
      * apply Hzero. destruct Hin as [Hin|Hin]; [congruence|exact Hin].
    + intros r Hnin.
      assert (Hrc : r <> c) by (intros ->; apply Hnin; left; reflexivity).
      assert (Hnin' : ~ In r rest) by (intros Hx; apply Hnin; right; exact Hx).
      rewrite (Hkeep r Hnin'), (Hother r Hrc).
      rewrite (sv_colent_zero O col r).
      * ring.
      * intros e He Heq. apply Hnin'. rewrite <- Heq. apply Hcol_rest. exact He.
    + rewrite Hdk, fc_isum_cons, Hyc.
      rewrite (sv_isum_ext O rest (fun c0 => y c0 [*] (y c0 [*] nth c0 Dinv oz))
                 (fun c0 => y1 c0 [*] (y1 c0 [*] nth c0 Dinv oz))).
      * ring.
      * intros c' Hc'. rewrite (Hy1 c' (Hne c' Hc')). reflexivity.
    + cbn [fold_left]. exact Hmarks.
Qed.

Lemma fc_rowB_forward_subst k Dinv cols (a : list T) marks dk yidx cols' yv' marks' dk' :
  NoDup yidx ->
  (forall c, In c yidx -> c < length cols /\ c < length a) ->
  reach_closed k cols yidx = true ->
  fold_left (rowB_step O false k Dinv) (rev yidx) (cols, a, marks, dk)
  = (cols', yv', marks', dk') ->
  rowB_spec O k Dinv cols a marks dk yidx cols' yv' marks' dk'.
Proof.
  intros Hnd Hlt Hrc Hfold.
  assert (Hclosed : forall c, In c (rev yidx) -> forall e, In e (nth c cols []) ->
                              after_in c (fst e) (rev yidx) = true).
  { intros c Hc e He. apply in_rev in Hc.
    unfold reach_closed in Hrc. cbv zeta in Hrc.
    rewrite forallb_forall in Hrc. specialize (Hrc c Hc).
    rewrite forallb_forall in Hrc. apply Hrc. exact He. }
  assert (Hlt' : forall c, In c (rev yidx) -> c < length cols /\ c < length a).
  { intros c Hc. apply Hlt. apply in_rev. exact Hc. }
  destruct (fc_rowB_fold k Dinv (rev yidx) cols a marks dk cols' yv' marks' dk'
              (NoDup_rev Hnd) Hlt' Hclosed Hfold)
    as (y & H1 & H2 & H3 & H4 & H5 & H6 & H7 & H8 & H9).
  exists y.
  split; [intros c Hc; apply H1; apply in_rev in Hc; exact Hc|].
  split; [exact H2|].
  split; [intros c Hc; apply H3; apply in_rev in Hc; exact Hc|].
  split; [intros c Hc; apply H4; intros Hx; apply Hc; apply in_rev; exact Hx|].
  split; [exact H5|].
  split; [intros c Hc; apply H6; apply in_rev in Hc; exact Hc|].
  split; [intros r Hr; apply H7; intros Hx; apply Hr; apply in_rev; exact Hx|].
  split; [exact H8|exact H9].
Qed.

End Ring.

(** * The statements of SpecFactorCorrect.v *)
Lemma rowB_step_algebraic_ok : stmt_rowB_step_algebraic.
Proof.
  intros T O k Dinv cols yv marks dk cidx RL Hc Hrows. cbv zeta.
  exact (fc_rowB_step O RL k Dinv cols yv marks dk cidx Hc Hrows).
Qed.

Lemma rowB_forward_subst_ok : stmt_rowB_forward_subst.
Proof.
  intros T O k Dinv cols a marks dk yidx cols' yv' marks' dk' RL Hnd Hlt Hrc Hfold.
  exact (fc_rowB_forward_subst O RL k Dinv cols a marks dk yidx cols' yv' marks' dk'
           Hnd Hlt Hrc Hfold).
Qed.

(** * Non-vacuity: row k = 3 of a 4x4 factorisation over Z.
      L so far has L[1,0] = 2; y_idx = [1;0] (processed as 0 then 1); a = (3,5,0,0);
      Dinv = (1,-1,1,1).  Forward substitution: y0 = 3, y1 = 5 - 2*3 = -1;
      appended entries (3, 3*1) and (3, (-1)*(-1)); dk' = 7 - 3*3 - (-1)*1 = -1. *)
Definition exc_cols : list (list (nat * Z)) := [[(1, 2%Z)]; []; []; []].
Definition exc_a : list Z := [3; 5; 0; 0]%Z.
Definition exc_Dinv : list Z := [1; -1; 1; 1]%Z.
Definition exc_marks : list bool := [true; true; false; false].

Example exc_reach_closed : reach_closed 3 exc_cols [1; 0] = true.
Proof. vm_compute. reflexivity. Qed.

(** a reach in the wrong order, or one that misses a row, is rejected *)
Example exc_reach_not_closed :
  reach_closed 3 exc_cols [0; 1] = false /\ reach_closed 3 exc_cols [0] = false.
Proof. vm_compute. split; reflexivity. Qed.

Example exc_run :
  fold_left (rowB_step OpsZ false 3 exc_Dinv) (rev [1; 0]) (exc_cols, exc_a, exc_marks, 7%Z)
  = ([[(1, 2%Z); (3, 3%Z)]; [(3, 1%Z)]; []; []], [0; 0; 0; 0]%Z,
     [false; false; false; false], (-1)%Z).
Proof. vm_compute. reflexivity. Qed.

(** the theorem instantiated at the example *)
Example exc_rowB_spec :
  rowB_spec OpsZ 3 exc_Dinv exc_cols exc_a exc_marks 7%Z [1; 0]
            [[(1, 2%Z); (3, 3%Z)]; [(3, 1%Z)]; []; []] [0; 0; 0; 0]%Z
            [false; false; false; false] (-1)%Z.
Proof.
  apply (rowB_forward_subst_ok Z OpsZ 3 exc_Dinv exc_cols exc_a exc_marks 7%Z [1; 0]).
  - exact RingLawsZ.
  - repeat constructor; cbn; intuition lia.
  - intros c Hc. cbn in Hc. cbn. intuition lia.
  - exact exc_reach_closed.
  - exact exc_run.
Qed.
