(** Statements: the column counts [Lnz] predicted by [_etree] are exactly the numbers of
    entries [_factor_inner] writes into the columns of L (so the flat layout has no padding and
    never overflows).  Statements only. *)
From Coq Require Import List Arith Lia Bool.
Import ListNotations.
Require Import Clarabel.Base.Ops Clarabel.Qdldl.Model Clarabel.Qdldl.SpecSolve
        Clarabel.Qdldl.SpecFactorCorrect Clarabel.Qdldl.SpecEtree.

(** column c is in the elimination reach of row k: c < k and c is an ancestor (or equal) of a
    stored row of column k of A, in the FINAL tree *)
Definition in_reach (et : list (option nat)) (Ap Ai : list nat) (k c : nat) : Prop :=
  c < k /\ exists idx, In idx (col_range Ap k) /\ is_anc et (nth idx Ai 0) c.

(** [cnt R c m v]: v = #{ k < m | R k c } *)
Inductive cnt (R : nat -> nat -> Prop) (c : nat) : nat -> nat -> Prop :=
  | cnt_0 : cnt R c 0 0
  | cnt_yes m v : R m c -> cnt R c m v -> cnt R c (S m) (S v)
  | cnt_no m v : ~ R m c -> cnt R c m v -> cnt R c (S m) v.

Definition stmt_cnt_functional : Prop :=
  forall R c m v1 v2, cnt R c m v1 -> cnt R c m v2 -> v1 = v2.

Definition stmt_etree_lnz_count : Prop :=
  forall n Ap Ai lnz et,
    upper_tri_e n Ap Ai -> etree n Ap Ai = Ok (lnz, et) ->
    forall c, c < n -> cnt (in_reach et Ap Ai) c n (nth c lnz 0).

Definition stmt_factor_cols_count : Prop :=
  forall T (O : Ops T) n Ap Ai Ax et P st,
    upper_tri_e n Ap Ai -> etree_in_range_p n et -> entries_descend n Ap Ai et ->
    factor_inner O n Ap Ai Ax et P = Ok st ->
    forall c, c < n -> cnt (in_reach et Ap Ai) c n (length (nth c (fs_cols st) [])).

(** no padding, no overflow *)
Definition stmt_lnz_exact : Prop :=
  forall T (O : Ops T) n Ap Ai Ax lnz et P st,
    upper_tri_e n Ap Ai -> etree n Ap Ai = Ok (lnz, et) ->
    factor_inner O n Ap Ai Ax et P = Ok st ->
    forall c, c < n -> length (nth c (fs_cols st) []) = nth c lnz 0.
