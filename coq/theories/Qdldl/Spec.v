(** C12 statements (statements only).  The parts live in SpecPerm / SpecPermSym / SpecFactor /
    SpecSolve / SpecRefactor / SpecBounds / SpecChk; this file re-exports them and adds the
    composed statements that the Props file pins. *)
From Coq Require Import List Arith ZArith Lia Bool.
Import ListNotations.
Require Import Clarabel.Base.Ops Clarabel.Qdldl.Model.
Require Export Clarabel.Qdldl.SpecPerm Clarabel.Qdldl.SpecPermSym Clarabel.Qdldl.SpecFactor
        Clarabel.Qdldl.SpecSolve Clarabel.Qdldl.SpecRefactor.
(* further parts, imported directly by Props/C12.v: SpecBounds, SpecChk, SpecFactorCorrect, SpecEtree,
   SpecFuel, SpecPermNoDup, SpecLnz, SpecPermEntries, SpecEndToEnd *)

(** refactor after any batch of point updates of input entries equals factoring the updated
    input from scratch, as values of type [res fact] — for ANY scalar type (binary64 included).
    The three public calls are such batches ([stmt_update_values_is_batch] etc.). *)
Definition stmt_refactor_is_fresh_factor : Prop :=
  forall T (O : Ops T) (A : spm (T:=T)) S F us,
    wf_csc A -> qnew O A S = Ok F ->
    (forall u, In u us -> fst u < nnz A) ->
    refactor O (set_triu_vals F (apply_updates O (map (fun u => (amap F (fst u), snd u)) us) (triu_vals F)))
    = qnew O (set_nzval A (apply_updates O us (nzval A))) (nonlogical S).

(** specialisations to the public calls *)
Definition stmt_refactor_after_update_values : Prop :=
  forall T (O : Ops T) (A : spm (T:=T)) S F idx vals,
    wf_csc A -> qnew O A S = Ok F -> (forall i, In i idx -> i < nnz A) ->
    refactor O (update_values F idx vals)
    = qnew O (set_nzval A (apply_updates O (ups_update idx vals) (nzval A))) (nonlogical S).
Definition stmt_refactor_after_scale_values : Prop :=
  forall T (O : Ops T) (A : spm (T:=T)) S F idx s,
    wf_csc A -> qnew O A S = Ok F -> (forall i, In i idx -> i < nnz A) ->
    refactor O (scale_values O F idx s)
    = qnew O (set_nzval A (apply_updates O (ups_scale O idx s) (nzval A))) (nonlogical S).
Definition stmt_refactor_after_offset_values : Prop :=
  forall T (O : Ops T) (A : spm (T:=T)) S F idx off signs F',
    wf_csc A -> qnew O A S = Ok F -> (forall i, In i idx -> i < nnz A) ->
    offset_values O F idx off signs = Ok F' ->
    refactor O F'
    = qnew O (set_nzval A (apply_updates O (ups_offset O idx off signs) (nzval A))) (nonlogical S).

(** a factorisation returned by [new] comes from a permutation and its inverse *)
Definition stmt_qnew_perm : Prop :=
  forall T (O : Ops T) (A : spm (T:=T)) S F,
    qnew O A S = Ok F ->
    sm A = sn A /\ upper_tri A /\ no_empty_col A /\
    f_perm F = s_perm S /\ length (f_perm F) = sn A /\ SpecPerm.is_perm (f_perm F) /\
    invperm (f_perm F) = Ok (f_iperm F).
(** and malformed input is reported with the documented error, in priority order *)
Definition stmt_qnew_errors : Prop :=
  forall T (O : Ops T) (A : spm (T:=T)) S,
    (sm A <> sn A -> qnew O A S = Err IncompatibleDimension) /\
    (sm A = sn A -> ~ upper_tri A -> qnew O A S = Err NotUpperTriangular) /\
    (sm A = sn A -> upper_tri A -> ~ no_empty_col A -> qnew O A S = Err EmptyColumn) /\
    (sm A = sn A -> upper_tri A -> no_empty_col A ->
       (length (s_perm S) <> sn A \/ ~ SpecPerm.is_perm (s_perm S)) -> qnew O A S = Err InvalidPermutation).
