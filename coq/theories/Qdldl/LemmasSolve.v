(** Proofs of the statements of Qdldl/SpecSolve.v: the sparse triangular solves of QDLDL
    compute (I+L) y = b, D (I+L)' x = y, their composition, and the permuted [solve]. *)
From Coq Require Import List Arith Lia Bool Ring ZArith.
Import ListNotations.
Require Import Clarabel.Base.Ops Clarabel.Qdldl.Model Clarabel.Qdldl.SpecSolve.

(** * Pure list facts *)
Section Lists.
Context {X : Type}.

Lemma sv_upd_length (l : list X) i v : length (upd l i v) = length l.
Proof.
  revert i; induction l as [|a l IH]; intros [|i]; cbn [upd length]; auto.
Qed.

Lemma sv_nth_upd_eq (l : list X) i v d : i < length l -> nth i (upd l i v) d = v.
Proof.
  revert i; induction l as [|a l IH]; intros i Hi; cbn [length] in Hi; [lia|].
  destruct i as [|i]; cbn [upd nth]; auto. apply IH; lia.
Qed.

Lemma sv_nth_upd_neq (l : list X) i v r d : r <> i -> nth r (upd l i v) d = nth r l d.
Proof.
  revert i r; induction l as [|a l IH]; intros i r Hne; [destruct i; reflexivity|].
  destruct i as [|i]; destruct r as [|r]; cbn [upd nth]; auto; try lia.
Qed.

Lemma sv_fold_length {E} (F : list X -> E -> list X) :
  (forall s a, length (F s a) = length s) ->
  forall l s, length (fold_left F l s) = length s.
Proof.
  intros HF l; induction l as [|a l IH]; intros s; cbn [fold_left]; auto.
  rewrite IH. apply HF.
Qed.

Lemma sv_fold_seq_inv {S} (f : S -> nat -> S) (P : nat -> S -> Prop) n s :
  P 0 s -> (forall k s', k < n -> P k s' -> P (Datatypes.S k) (f s' k)) ->
  P n (fold_left f (seq 0 n) s).
Proof.
  induction n as [|n IH]; intros H0 Hs; [exact H0|].
  rewrite seq_S, fold_left_app. cbn [fold_left Nat.add]. apply Hs; [lia|].
  apply IH; auto.
Qed.

Lemma sv_fold_rev_seq_inv {S} (f : S -> nat -> S) (P : nat -> S -> Prop) n :
  forall s, P n s -> (forall i s', i < n -> P (Datatypes.S i) s' -> P i (f s' i)) ->
  P 0 (fold_left f (rev (seq 0 n)) s).
Proof.
  induction n as [|n IH]; intros s Hn Hs; [exact Hn|].
  rewrite seq_S, rev_app_distr. cbn [rev app fold_left Nat.add].
  apply IH.
  - apply Hs; auto.
  - intros i s' Hi HP. apply Hs; auto.
Qed.

(** ** permute / ipermute *)
Lemma sv_permute_length (d : X) : forall p (x b : list X),
  length (permute d x b p) = length x.
Proof.
  induction p as [|a p IH]; intros x b; [destruct x; reflexivity|].
  destruct x as [|x0 x]; cbn [permute length]; auto.
Qed.

Lemma sv_permute_nth (d : X) : forall p (x b : list X) i,
  i < length p -> i < length x -> nth i (permute d x b p) d = nth (nth i p 0) b d.
Proof.
  induction p as [|a p IH]; intros x b i Hp Hx; cbn [length] in Hp; [lia|].
  destruct x as [|x0 x]; cbn [length] in Hx; [lia|].
  destruct i as [|i]; cbn [permute nth]; auto. apply IH; lia.
Qed.

Lemma sv_ipermute_length (x b : list X) p : length (ipermute x b p) = length x.
Proof.
  unfold ipermute. apply sv_fold_length. intros s a. apply sv_upd_length.
Qed.

Lemma sv_ipermute_notin (d : X) : forall p (b x : list X) r,
  ~ In r p -> nth r (ipermute x b p) d = nth r x d.
Proof.
  unfold ipermute.
  induction p as [|a p IH]; intros b x r Hr; [reflexivity|].
  destruct b as [|b0 b]; [reflexivity|].
  cbn [combine fold_left fst snd]. rewrite IH.
  - apply sv_nth_upd_neq. intros ->. apply Hr. left; reflexivity.
  - intros Hin. apply Hr. right; exact Hin.
Qed.

Lemma sv_ipermute_nth (d : X) : forall p (b x : list X) i,
  NoDup p -> (forall j, In j p -> j < length x) -> i < length p -> i < length b ->
  nth (nth i p 0) (ipermute x b p) d = nth i b d.
Proof.
  induction p as [|a p IH]; intros b x i Hnd Hlt Hip Hib; cbn [length] in Hip; [lia|].
  destruct b as [|b0 b]; cbn [length] in Hib; [lia|].
  inversion Hnd as [|a' p' Hnotin Hnd']; subst.
  destruct i as [|i]; cbn [nth].
  - pose proof (sv_ipermute_notin d p b (upd x a b0) a Hnotin) as H.
    unfold ipermute in *. cbn [combine fold_left fst snd]. rewrite H.
    apply sv_nth_upd_eq. apply Hlt. left; reflexivity.
  - pose proof (IH b (upd x a b0) i Hnd') as H.
    unfold ipermute in *. cbn [combine fold_left fst snd]. apply H.
    + intros j Hj. rewrite sv_upd_length. apply Hlt. right; exact Hj.
    + lia.
    + lia.
Qed.

End Lists.

(** * Length preservation of the solves (no hypotheses) *)
Section Lengths.
Context {T : Type} (O : Ops T).

Lemma sv_lsolve_length Lp Li Lx (b : list T) : length (lsolve O Lp Li Lx b) = length b.
Proof.
  unfold lsolve. apply sv_fold_length. intros s a.
  apply sv_fold_length. intros s' e. apply sv_upd_length.
Qed.

Lemma sv_dltsolve_length Lp Li Lx Dinv (y : list T) :
  length (dltsolve O Lp Li Lx Dinv y) = length y.
Proof.
  unfold dltsolve. apply sv_fold_length. intros s a. apply sv_upd_length.
Qed.

Lemma sv_solve_factors_length Lp Li Lx Dinv (b : list T) :
  length (solve_factors O Lp Li Lx Dinv b) = length b.
Proof.
  unfold solve_factors. rewrite sv_dltsolve_length. apply sv_lsolve_length.
Qed.

End Lengths.

(** * Ring-dependent facts *)
Section Ring.
Context {T : Type} (O : Ops T).
Hypothesis RT : ring_theory (zero O) (one O) (add O) (mul O) (sub O) (neg O) (@eq T).
Add Ring SvRing : RT.

Notation oz := (zero O).
Notation "a [+] b" := (add O a b) (at level 50, left associativity).
Notation "a [-] b" := (sub O a b) (at level 50, left associativity).
Notation "a [*] b" := (mul O a b) (at level 40, left associativity).

(** ** dense sums *)
Lemma sv_isum_ext l f g : (forall k, In k l -> f k = g k) -> isum O l f = isum O l g.
Proof.
  induction l as [|a l IH]; intros H; cbn [isum fold_right]; auto.
  fold (isum O l f). fold (isum O l g).
  rewrite H by (left; reflexivity). rewrite IH; auto.
  intros k Hk. apply H. right; exact Hk.
Qed.

Lemma sv_isum_zero l f : (forall k, In k l -> f k = oz) -> isum O l f = oz.
Proof.
  induction l as [|a l IH]; intros H; cbn [isum fold_right]; auto.
  fold (isum O l f). rewrite H by (left; reflexivity). rewrite IH.
  - ring.
  - intros k Hk. apply H. right; exact Hk.
Qed.

Lemma sv_isum_add l f g :
  isum O l (fun k => f k [+] g k) = isum O l f [+] isum O l g.
Proof.
  induction l as [|a l IH]; cbn [isum fold_right].
  - ring.
  - fold (isum O l f). fold (isum O l g). fold (isum O l (fun k => f k [+] g k)).
    rewrite IH. ring.
Qed.

Lemma sv_isum_app l1 l2 f : isum O (l1 ++ l2) f = isum O l1 f [+] isum O l2 f.
Proof.
  induction l1 as [|a l1 IH]; cbn [app isum fold_right].
  - fold (isum O l2 f). ring.
  - fold (isum O (l1 ++ l2) f). fold (isum O l1 f). fold (isum O l2 f).
    rewrite IH. ring.
Qed.

Lemma sv_vsum_S n f : vsum O (S n) f = vsum O n f [+] f n.
Proof.
  unfold vsum. rewrite seq_S, sv_isum_app. cbn [isum fold_right Nat.add]. ring.
Qed.

Lemma sv_isum_delta l k0 c g : NoDup l -> In k0 l ->
  isum O l (fun j => (if k0 =? j then c else oz) [*] g j) = c [*] g k0.
Proof.
  induction l as [|a l IH]; intros Hnd Hin; [destruct Hin|].
  inversion Hnd as [|a' l' Hnotin Hnd']; subst.
  cbn [isum fold_right].
  fold (isum O l (fun j => (if k0 =? j then c else oz) [*] g j)).
  destruct (Nat.eq_dec k0 a) as [->|Hne].
  - rewrite Nat.eqb_refl. rewrite sv_isum_zero.
    + ring.
    + intros k Hk. destruct (Nat.eqb_spec a k) as [->|Hak]; [contradiction|]. ring.
  - destruct (Nat.eqb_spec k0 a) as [Heq|_]; [contradiction|].
    rewrite IH; auto.
    + ring.
    + destruct Hin as [Hin|Hin]; [congruence|exact Hin].
Qed.

(** ** dense reading of a column *)
Lemma sv_colent_cons e es r :
  colent O (e :: es) r = if fst e =? r then snd e [+] colent O es r else colent O es r.
Proof.
  unfold colent. cbn [filter]. destruct (fst e =? r); reflexivity.
Qed.

Lemma sv_colent_zero es r : (forall e, In e es -> fst e <> r) -> colent O es r = oz.
Proof.
  induction es as [|e es IH]; intros H; [reflexivity|].
  rewrite sv_colent_cons.
  destruct (Nat.eqb_spec (fst e) r) as [Heq|Hne].
  - exfalso. apply (H e); [left; reflexivity|exact Heq].
  - apply IH. intros e' He'. apply H. right; exact He'.
Qed.

Lemma sv_in_lcol n Lp Li Lx k e :
  wf_L n Lp Li -> k < n -> In e (lcol O Lp Li Lx k) -> k < fst e < n.
Proof.
  intros [HlenLp [Hmono Hrow]] Hk Hin.
  unfold lcol, col_range in Hin. apply in_map_iff in Hin.
  destruct Hin as [idx [He Hidx]]. apply in_seq in Hidx.
  subst e. cbn [fst]. apply (Hrow k idx Hk).
  pose proof (Hmono k Hk). lia.
Qed.

Lemma sv_lent_upper n Lp Li Lx r k :
  wf_L n Lp Li -> k < n -> r <= k -> lent O Lp Li Lx r k = oz.
Proof.
  intros Hwf Hk Hr. unfold lent. apply sv_colent_zero.
  intros e He. pose proof (sv_in_lcol n Lp Li Lx k e Hwf Hk He). lia.
Qed.

(** ** the inner loop of [lsolve]: x_r -= L[r,i] * xi for every stored entry *)
Lemma sv_col_apply xi : forall es (x : list T) r,
  (forall e, In e es -> fst e < length x) ->
  nth r (fold_left (fun x e => upd x (fst e) (nth (fst e) x oz [-] snd e [*] xi)) es x) oz
  = nth r x oz [-] colent O es r [*] xi.
Proof.
  induction es as [|e es IH]; intros x r Hlt.
  - cbn [fold_left]. unfold colent. cbn [filter fold_right]. ring.
  - cbn [fold_left]. rewrite IH.
    + rewrite sv_colent_cons.
      destruct (Nat.eqb_spec (fst e) r) as [Heq|Hne].
      * subst r. rewrite sv_nth_upd_eq by (apply Hlt; left; reflexivity). ring.
      * rewrite sv_nth_upd_neq by (intros Hx; apply Hne; symmetry; exact Hx).
        reflexivity.
    + intros e' He'. rewrite sv_upd_length. apply Hlt. right; exact He'.
Qed.

(** ** [lsolve] *)
Definition lsolve_inv (n : nat) Lp Li Lx (b : list T) (k : nat) (x : list T) : Prop :=
  length x = n /\
  forall r, r < n ->
    nth r x oz [+] vsum O (Nat.min r k) (fun j => lent O Lp Li Lx r j [*] nth j x oz)
    = nth r b oz.

Lemma sv_lsolve_correct n Lp Li Lx (b : list T) :
  wf_L n Lp Li -> length b = n -> lsolve_spec O n Lp Li Lx b (lsolve O Lp Li Lx b).
Proof.
  intros Hwf Hb.
  assert (Hinv : lsolve_inv n Lp Li Lx b n (lsolve O Lp Li Lx b)).
  { unfold lsolve. rewrite Hb.
    apply (sv_fold_seq_inv _ (lsolve_inv n Lp Li Lx b)).
    - split; [exact Hb|]. intros r Hr. rewrite Nat.min_0_r.
      unfold vsum. cbn [seq isum fold_right]. ring.
    - intros k x Hk [Hlen Hrows].
      set (xi := nth k x oz).
      set (x' := fold_left (fun x0 e => upd x0 (fst e) (nth (fst e) x0 oz [-] snd e [*] xi))
                           (lcol O Lp Li Lx k) x).
      assert (Hx' : forall r, nth r x' oz = nth r x oz [-] lent O Lp Li Lx r k [*] xi).
      { intros r. unfold x', lent. apply sv_col_apply.
        intros e He. pose proof (sv_in_lcol n Lp Li Lx k e Hwf Hk He). lia. }
      assert (Hlow : forall r, r <= k -> nth r x' oz = nth r x oz).
      { intros r Hr. rewrite Hx'. rewrite (sv_lent_upper n Lp Li Lx r k Hwf Hk Hr). ring. }
      split.
      + unfold x'. rewrite sv_fold_length; [exact Hlen|].
        intros s a. apply sv_upd_length.
      + intros r Hr. specialize (Hrows r Hr).
        destruct (le_lt_dec r k) as [Hrk|Hrk].
        * replace (Nat.min r (S k)) with r by lia.
          replace (Nat.min r k) with r in Hrows by lia.
          rewrite (Hlow r Hrk). unfold vsum in Hrows |- *.
          rewrite (sv_isum_ext (seq 0 r) _
                     (fun j => lent O Lp Li Lx r j [*] nth j x oz)); [exact Hrows|].
          intros j Hj. apply in_seq in Hj. rewrite Hlow by lia. reflexivity.
        * replace (Nat.min r (S k)) with (S k) by lia.
          replace (Nat.min r k) with k in Hrows by lia.
          rewrite sv_vsum_S.
          unfold vsum.
          rewrite (sv_isum_ext (seq 0 k) _
                     (fun j => lent O Lp Li Lx r j [*] nth j x oz)).
          2:{ intros j Hj. apply in_seq in Hj. rewrite Hlow by lia. reflexivity. }
          rewrite (Hlow k) by lia. rewrite Hx'. fold xi.
          unfold vsum in Hrows. rewrite <- Hrows. ring. }
  destruct Hinv as [Hlen Hrows]. split; [exact Hlen|].
  intros i Hi. specialize (Hrows i Hi).
  replace (Nat.min i n) with i in Hrows by lia. exact Hrows.
Qed.

(** ** the inner loop of [dltsolve]: a sparse dot product, read densely *)
Definition dotes (g : nat -> T) (es : list (nat * T)) : T :=
  fold_right (fun e acc => snd e [*] g (fst e) [+] acc) oz es.

Lemma sv_dot_fold g : forall es a,
  fold_left (fun s e => s [+] snd e [*] g (fst e)) es a = a [+] dotes g es.
Proof.
  induction es as [|e es IH]; intros a; cbn [fold_left dotes fold_right].
  - ring.
  - rewrite IH. fold (dotes g es). ring.
Qed.

Lemma sv_dotes_dense g l : NoDup l -> forall es,
  (forall e, In e es -> In (fst e) l) ->
  dotes g es = isum O l (fun j => colent O es j [*] g j).
Proof.
  intros Hnd. induction es as [|e es IH]; intros Hin.
  - cbn [dotes fold_right]. symmetry. apply sv_isum_zero.
    intros k _. unfold colent. cbn [filter fold_right]. ring.
  - cbn [dotes fold_right]. fold (dotes g es).
    rewrite (sv_isum_ext l _
               (fun j => (if fst e =? j then snd e else oz) [*] g j
                         [+] colent O es j [*] g j)).
    + rewrite sv_isum_add. rewrite sv_isum_delta; auto.
      * rewrite IH; auto. intros e' He'. apply Hin. right; exact He'.
      * apply Hin. left; reflexivity.
    + intros k _. rewrite sv_colent_cons. destruct (fst e =? k); ring.
Qed.

(** ** [dltsolve] *)
Definition dlt_inv (n : nat) Lp Li Lx (Dg y : list T) (m : nat) (x : list T) : Prop :=
  length x = n /\
  (forall r, r < m -> nth r x oz = nth r y oz) /\
  (forall r, m <= r < n -> nth r Dg oz [*] ltrow O n Lp Li Lx x r = nth r y oz).

Lemma sv_dltsolve_correct n Lp Li Lx Dinv Dg (y : list T) :
  wf_L n Lp Li -> length y = n ->
  (forall k, k < n -> nth k Dg oz [*] nth k Dinv oz = one O) ->
  dltsolve_spec O n Lp Li Lx Dg y (dltsolve O Lp Li Lx Dinv y).
Proof.
  intros Hwf Hy Hrec.
  assert (Hinv : dlt_inv n Lp Li Lx Dg y 0 (dltsolve O Lp Li Lx Dinv y)).
  { unfold dltsolve. rewrite Hy.
    apply (sv_fold_rev_seq_inv _ (dlt_inv n Lp Li Lx Dg y)).
    - split; [exact Hy|]. split; [reflexivity|]. intros r Hr. lia.
    - intros i x Hi [Hlen [Hlow Hhigh]].
      set (s := fold_left (fun s0 e => s0 [+] snd e [*] nth (fst e) x oz)
                          (lcol O Lp Li Lx i) oz).
      set (v := nth i x oz [*] nth i Dinv oz [-] s).
      assert (Hs : s = vsum_range O (S i) n
                         (fun j => lent O Lp Li Lx j i [*] nth j x oz)).
      { unfold s. rewrite (sv_dot_fold (fun j => nth j x oz)).
        rewrite (sv_dotes_dense (fun j => nth j x oz) (seq (S i) (n - S i))).
        - unfold vsum_range, lent. ring.
        - apply seq_NoDup.
        - intros e He. pose proof (sv_in_lcol n Lp Li Lx i e Hwf Hi He).
          apply in_seq. lia. }
      split; [rewrite sv_upd_length; exact Hlen|]. split.
      + intros r Hr. rewrite sv_nth_upd_neq by lia. apply Hlow. lia.
      + intros r Hr.
        assert (Hext : forall r', i <= r' ->
                  vsum_range O (S r') n
                    (fun j => lent O Lp Li Lx j r' [*] nth j (upd x i v) oz)
                  = vsum_range O (S r') n
                    (fun j => lent O Lp Li Lx j r' [*] nth j x oz)).
        { intros r' Hr'. unfold vsum_range. apply sv_isum_ext.
          intros j Hj. apply in_seq in Hj. rewrite sv_nth_upd_neq by lia. reflexivity. }
        unfold ltrow. rewrite Hext by lia.
        destruct (Nat.eq_dec r i) as [->|Hne].
        * rewrite sv_nth_upd_eq by lia. rewrite <- Hs. unfold v.
          rewrite (Hlow i) by lia.
          transitivity ((nth i Dg oz [*] nth i Dinv oz) [*] nth i y oz); [ring|].
          rewrite Hrec by exact Hi. ring.
        * rewrite sv_nth_upd_neq by exact Hne.
          apply (Hhigh r). lia. }
  destruct Hinv as [Hlen [_ Hhigh]]. split; [exact Hlen|].
  intros i Hi. apply Hhigh. lia.
Qed.

(** ** composition *)
Lemma sv_solve_factors_correct n Lp Li Lx Dinv Dg (b : list T) :
  wf_L n Lp Li -> length b = n -> recip_of O n Dg Dinv ->
  (exists y, lsolve_spec O n Lp Li Lx b y /\
             dltsolve_spec O n Lp Li Lx Dg y (solve_factors O Lp Li Lx Dinv b)) /\
  ldlt_spec O n Lp Li Lx Dg b (solve_factors O Lp Li Lx Dinv b).
Proof.
  intros Hwf Hb [HDinv [HDg Hrec]].
  pose proof (sv_lsolve_correct n Lp Li Lx b Hwf Hb) as Hl.
  set (y := lsolve O Lp Li Lx b) in *.
  assert (Hylen : length y = n) by (destruct Hl as [Hlen _]; exact Hlen).
  pose proof (sv_dltsolve_correct n Lp Li Lx Dinv Dg y Hwf Hylen Hrec) as Hd.
  unfold solve_factors. fold y.
  set (x := dltsolve O Lp Li Lx Dinv y) in *.
  split.
  - exists y. split; assumption.
  - destruct Hl as [_ Hl]. destruct Hd as [Hxlen Hd].
    split; [exact Hxlen|]. intros i Hi.
    unfold dltrow. rewrite (Hd i Hi).
    unfold vsum.
    rewrite (sv_isum_ext (seq 0 i) _ (fun j => lent O Lp Li Lx i j [*] nth j y oz)).
    + apply (Hl i Hi).
    + intros j Hj. apply in_seq in Hj. rewrite Hd by lia. reflexivity.
Qed.

End Ring.

(** * The permutation wrapper (no ring laws needed) *)
Section Perm.
Context {T : Type} (O : Ops T).

Lemma sv_permute_perm_vec n p (b : list T) :
  length p = n -> permute (zero O) (repeat (zero O) n) b p = perm_vec O n p b.
Proof.
  intros Hp. unfold perm_vec.
  apply (nth_ext _ _ (zero O) (zero O)).
  - rewrite sv_permute_length, repeat_length, map_length, seq_length. reflexivity.
  - intros i Hi. rewrite sv_permute_length, repeat_length in Hi.
    rewrite sv_permute_nth by (rewrite ?repeat_length; lia).
    rewrite (nth_indep (map (fun i0 => nth (nth i0 p 0) b (zero O)) (seq 0 n))
                       (zero O) (nth (nth 0 p 0) b (zero O)))
      by (rewrite map_length, seq_length; exact Hi).
    rewrite (map_nth (fun i0 => nth (nth i0 p 0) b (zero O)) (seq 0 n) 0 i).
    rewrite seq_nth by exact Hi. reflexivity.
Qed.

Lemma sv_solve_correct (F : @fact T) (b : list T) n :
  f_symbolic F = false -> length (f_D F) = n -> length b = n -> is_perm n (f_perm F) ->
  exists x, solve O F b = Ok x /\ length x = n /\
    forall i, i < n ->
      nth (nth i (f_perm F) 0) x (zero O)
      = nth i (solve_factors O (f_Lp F) (f_Li F) (f_Lx F) (f_Dinv F)
                 (perm_vec O n (f_perm F) b)) (zero O).
Proof.
  intros Hsym HD Hb [Hplen [Hnd Hrange]].
  unfold solve. rewrite Hsym, HD, Hb, Nat.eqb_refl. cbn [negb].
  rewrite (sv_permute_perm_vec n (f_perm F) b Hplen).
  eexists. split; [reflexivity|]. split.
  - rewrite sv_ipermute_length. exact Hb.
  - intros i Hi. apply sv_ipermute_nth.
    + exact Hnd.
    + intros j Hj. rewrite Hb. apply Hrange. exact Hj.
    + lia.
    + rewrite sv_solve_factors_length. unfold perm_vec.
      rewrite map_length, seq_length. exact Hi.
Qed.

End Perm.

(** * The statements of SpecSolve.v *)
Lemma lsolve_correct_ok : stmt_lsolve_correct.
Proof.
  intros T O n Lp Li Lx b RL Hwf Hb y.
  exact (sv_lsolve_correct O RL n Lp Li Lx b Hwf Hb).
Qed.

Lemma dltsolve_correct_ok : stmt_dltsolve_correct.
Proof.
  intros T O n Lp Li Lx Dinv Dg y RL Hwf Hy HDinv HDg Hrec x.
  exact (sv_dltsolve_correct O RL n Lp Li Lx Dinv Dg y Hwf Hy Hrec).
Qed.

Lemma solve_factors_correct_ok : stmt_solve_factors_correct.
Proof.
  intros T O n Lp Li Lx Dinv Dg b RL Hwf Hb Hrec x.
  exact (sv_solve_factors_correct O RL n Lp Li Lx Dinv Dg b Hwf Hb Hrec).
Qed.

Lemma solve_factors_length_ok : stmt_solve_factors_length.
Proof. intros T O Lp Li Lx Dinv b. apply sv_solve_factors_length. Qed.

Lemma solve_correct_ok : stmt_solve_correct.
Proof.
  intros T O F b n Hsym HD Hb Hperm. apply sv_solve_correct; assumption.
Qed.

Lemma solve_ldlt_ok : stmt_solve_ldlt.
Proof.
  intros T O F Dg b n RL Hsym HD Hb Hperm Hwf Hrec.
  destruct (sv_solve_correct O F b n Hsym HD Hb Hperm) as [x [Hx [Hlen Hpt]]].
  exists x, (solve_factors O (f_Lp F) (f_Li F) (f_Lx F) (f_Dinv F)
               (perm_vec O n (f_perm F) b)).
  split; [exact Hx|]. split; [exact Hlen|]. split; [exact Hpt|].
  apply (sv_solve_factors_correct O RL n); auto.
  unfold perm_vec. rewrite map_length, seq_length. reflexivity.
Qed.

(** * Non-vacuity: a concrete 3x3 factor over Z
      L = [[0,0,0],[2,0,0],[-1,3,0]] stored by columns, D = diag(1,-1,-1) (its own
      inverse over Z). *)
Definition exLp : list nat := [0; 2; 3; 3].
Definition exLi : list nat := [1; 2; 2].
Definition exLx : list Z := [2; -1; 3]%Z.
Definition exD : list Z := [1; -1; -1]%Z.
Definition exb : list Z := [1; 4; -2]%Z.

Example ex_wf_L : wf_L 3 exLp exLi.
Proof.
  split; [reflexivity|]. split.
  - intros j Hj. destruct j as [|[|[|j]]]; cbn; lia.
  - intros j idx Hj Hidx.
    destruct j as [|[|[|j]]]; cbn in Hidx; try lia.
    + destruct idx as [|[|idx]]; cbn; lia.
    + destruct idx as [|[|[|idx]]]; cbn; lia.
Qed.

Example ex_recip : recip_of OpsZ 3 exD exD.
Proof.
  split; [reflexivity|]. split; [reflexivity|].
  intros k Hk. destruct k as [|[|[|k]]]; try lia; reflexivity.
Qed.

Example ex_lsolve : lsolve OpsZ exLp exLi exLx exb = [1; 2; -7]%Z.
Proof. vm_compute. reflexivity. Qed.

Example ex_solve_factors : solve_factors OpsZ exLp exLi exLx exD exb = [54; -23; 7]%Z.
Proof. vm_compute. reflexivity. Qed.

(** the theorem instantiated at the example, and the dense equation checked directly *)
Example ex_ldlt : ldlt_spec OpsZ 3 exLp exLi exLx exD exb
                            (solve_factors OpsZ exLp exLi exLx exD exb).
Proof.
  apply (solve_factors_correct_ok Z OpsZ 3 exLp exLi exLx exD exD exb
           RingLawsZ ex_wf_L eq_refl ex_recip).
Qed.

Example ex_ldlt_direct :
  map (fun i => (dltrow OpsZ 3 exLp exLi exLx exD [54; -23; 7]%Z i +
                 vsum OpsZ i (fun j => lent OpsZ exLp exLi exLx i j *
                                       dltrow OpsZ 3 exLp exLi exLx exD [54; -23; 7]%Z j))%Z)
      [0; 1; 2] = exb.
Proof. vm_compute. reflexivity. Qed.

(** the permuted solve on the same factor, p = [2;0;1] *)
Definition exF : @fact Z :=
  mkF [2; 0; 1] [1; 2; 0] exLp exLi exLx exD exD
      (mkW [] [] (mkSpm 0 0 [] [] []) [] [] false 0%Z 0%Z 0 0) false.

Example ex_is_perm : is_perm 3 (f_perm exF).
Proof.
  split; [reflexivity|]. split.
  - cbn. repeat constructor; cbn; intuition lia.
  - cbn. intros j Hj. intuition lia.
Qed.

Example ex_solve : solve OpsZ exF [4; -2; 1]%Z = Ok [-23; 7; 54]%Z.
Proof. vm_compute. reflexivity. Qed.

(** all hypotheses of the end-to-end statement are met by the example *)
Example ex_solve_ldlt :
  exists x z, solve OpsZ exF [4; -2; 1]%Z = Ok x /\ length x = 3 /\
    (forall i, i < 3 -> nth (nth i (f_perm exF) 0) x 0%Z = nth i z 0%Z) /\
    ldlt_spec OpsZ 3 exLp exLi exLx exD (perm_vec OpsZ 3 (f_perm exF) [4; -2; 1]%Z) z.
Proof.
  apply (solve_ldlt_ok Z OpsZ exF exD [4; -2; 1]%Z 3 RingLawsZ eq_refl eq_refl eq_refl
           ex_is_perm ex_wf_L ex_recip).
Qed.
