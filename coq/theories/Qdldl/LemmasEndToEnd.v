(** C12 end to end: composition of the part lemmas into [stmt_lnz_exact] and
    [stmt_qnew_solve_correct]. *)
From Coq Require Import List Arith ZArith Lia Bool Permutation.
Import ListNotations.
Require Import Clarabel.Base.Ops Clarabel.Qdldl.Model.
Require Import Clarabel.Qdldl.SpecSolve Clarabel.Qdldl.SpecPerm Clarabel.Qdldl.SpecPermSym Clarabel.Qdldl.SpecFactorCorrect Clarabel.Qdldl.SpecEtree Clarabel.Qdldl.SpecLnz Clarabel.Qdldl.SpecPermEntries Clarabel.Qdldl.SpecEndToEnd.
Require Import Clarabel.Qdldl.LemmasPerm Clarabel.Qdldl.LemmasPermSym Clarabel.Qdldl.LemmasCompose Clarabel.Qdldl.LemmasPermNoDup Clarabel.Qdldl.LemmasFactorCorrectFinal Clarabel.Qdldl.LemmasBounds Clarabel.Qdldl.LemmasEtreeAnc Clarabel.Qdldl.LemmasLnzEtree Clarabel.Qdldl.LemmasLnzFactor Clarabel.Qdldl.LemmasGlue Clarabel.Qdldl.LemmasFactor Clarabel.Qdldl.LemmasSolve Clarabel.Qdldl.LemmasPermEntries.

Lemma qnew_full_inv {T} (O : Ops T) (A : spm (T:=T)) S F :
  qnew O A S = Ok F ->
  exists iperm PA am le st l P,
    check_structure A = Ok tt /\ length (s_perm S) = sm A /\
    invperm (s_perm S) = Ok iperm /\
    permute_symmetric O A iperm = (PA, am) /\
    etree (sm PA) (colptr PA) (rowval PA) = Ok le /\
    fp_logical P = s_logical S /\ fp_reg_enable P = s_reg_enable S /\
    factor_inner O (sn PA) (colptr PA) (rowval PA) (nzval PA) (snd le) P = Ok st /\
    flatten_cols (fst le) (fs_cols st) (if s_logical S then one O else zero O) = Ok l /\
    f_perm F = s_perm S /\ f_Lp F = cumsum0 (fst le) /\ f_Li F = fst l /\ f_Lx F = snd l /\
    f_D F = fs_D st /\ f_Dinv F = fs_Dinv st /\ f_symbolic F = s_logical S.
Proof.
  intro HQ. unfold qnew in HQ.
  destruct (check_structure A) as [[]|e] eqn:HCS; cbn [bind] in HQ; [|discriminate].
  destruct (length (s_perm S) =? sm A) eqn:HL; cbn [bind] in HQ; [|discriminate].
  destruct (invperm (s_perm S)) as [ip|e] eqn:HIP; cbn [bind] in HQ; [|discriminate].
  destruct (permute_symmetric O A ip) as [PA am] eqn:HPS.
  destruct (etree (sm PA) (colptr PA) (rowval PA)) as [le|e] eqn:HET; cbn [bind] in HQ; [|discriminate].
  unfold factor_ws in HQ. cbv zeta in HQ.
  cbn [w_triuA w_etree w_Lnz w_Dsigns w_reg_enable w_eps w_delta w_AtoPAPt] in HQ.
  match type of HQ with bind ?x _ = _ => destruct x as [st|e] eqn:HFI; cbn [bind] in HQ; [|discriminate] end.
  match type of HQ with bind ?x _ = _ => destruct x as [l|e] eqn:HFL; cbn [bind] in HQ; [|discriminate] end.
  injection HQ as HQ. subst F. cbn [f_perm f_Lp f_Li f_Lx f_D f_Dinv f_symbolic].
  eexists ip, PA, am, le, st, l, _.
  split; [reflexivity|]. split; [apply Nat.eqb_eq; exact HL|].
  split; [reflexivity|]. split; [exact HPS|]. split; [exact HET|].
  split; [|split; [|split; [exact HFI|]]]; [reflexivity|reflexivity|].
  split; [exact HFL|]. repeat split; reflexivity.
Qed.

(** ** no padding *)
Lemma lnz_exact_ok : stmt_lnz_exact.
Proof.
  intros T O n Ap Ai Ax lnz et P st Hut Het Hfi c Hc.
  destruct (etree_bounds_ok n Ap Ai lnz et Hut Het) as [Hl [Hle Hr]].
  pose proof (etree_ancestor_ok n Ap Ai lnz et Hut Het) as Hd.
  pose proof (etree_lnz_count_ok n Ap Ai lnz et Hut Het c Hc) as H1.
  pose proof (factor_cols_count_ok T O n Ap Ai Ax et P st Hut (conj Hle Hr) Hd Hfi c Hc) as H2.
  exact (cnt_functional_ok _ _ _ _ _ H2 H1).
Qed.

(** ** small bridges *)
Lemma Asym_sym {T} (O : Ops T) Ap Ai (Ax : list T) a b :
  Asym O Ap Ai Ax a b = Asym O Ap Ai Ax b a.
Proof.
  unfold Asym.
  destruct (a <=? b) eqn:E1; destruct (b <=? a) eqn:E2; try reflexivity.
  - apply Nat.leb_le in E1. apply Nat.leb_le in E2.
    assert (Hab : a = b) by lia. subst b. reflexivity.
  - apply Nat.leb_gt in E1. apply Nat.leb_gt in E2. lia.
Qed.

Lemma perm_vec_nth {T} (O : Ops T) n p (b : list T) i :
  i < n -> nth i (perm_vec O n p b) (zero O) = nth (nth i p 0) b (zero O).
Proof.
  intro Hi. unfold perm_vec.
  rewrite (nth_indep _ (zero O) ((fun i => nth (nth i p 0) b (zero O)) 0))
    by (rewrite map_length, seq_length; exact Hi).
  rewrite (map_nth (fun i => nth (nth i p 0) b (zero O)) (seq 0 n) 0 i).
  rewrite seq_nth by exact Hi. reflexivity.
Qed.

Lemma isum_map {T} (O : Ops T) (h : nat -> nat) (l : list nat) (g : nat -> T) :
  isum O (map h l) g = isum O l (fun x => g (h x)).
Proof.
  induction l as [|a l IH]; cbn; [reflexivity|]. unfold isum in IH. rewrite IH. reflexivity.
Qed.

Lemma map_nth_seq (p : list nat) :
  map (fun j => nth j p 0) (seq 0 (length p)) = p.
Proof.
  induction p as [|a p IH]; [reflexivity|].
  cbn [length seq map nth]. f_equal.
  rewrite <- seq_shift, map_map. cbn [nth]. exact IH.
Qed.

Lemma vsum_reindex {T} (O : Ops T) n (p : list nat) (g : nat -> T) :
  RingLaws O -> SpecPerm.is_perm p -> length p = n ->
  vsum O n (fun j => g (nth j p 0)) = vsum O n g.
Proof.
  intros HR Hp Hl. unfold vsum.
  rewrite <- (isum_map O (fun j => nth j p 0) (seq 0 n) g).
  rewrite <- Hl, map_nth_seq.
  apply isum_perm_ok; [exact HR|]. exact Hp.
Qed.

Lemma recip_of_pivots {T} (O : Ops T) n Ap Ai Ax et P st :
  (forall a, eqb O a (zero O) = false -> mul O a (div O (one O) a) = one O) ->
  fp_logical P = false ->
  factor_inner O n Ap Ai Ax et P = Ok st ->
  recip_of O n (fs_D st) (fs_Dinv st).
Proof.
  intros Hrec Hlog HFI.
  destruct (factor_inner_pivots_ok T O n Ap Ai Ax et P st Hlog HFI)
    as [piv [_ [HD [HDi [Hk _]]]]].
  split; [exact HDi|]. split; [exact HD|].
  intros k Hkn. destruct (Hk k Hkn) as [_ [Hnz Hinv]].
  rewrite Hinv. apply Hrec. exact Hnz.
Qed.

(** ** END TO END *)
Lemma qnew_solve_correct_ok : stmt_qnew_solve_correct.
Proof.
  intros T O A S F b HR Hrec Hwf Hnd Hlog Hreg HQ Hb.
  destruct (qnew_full_inv O A S F HQ)
    as (iperm & PA & am & le & st & l & P & HCS & HL & HIP & HPS & HET & HPl & HPr & HFI & HFL
        & Hfp & HfLp & HfLi & HfLx & HfD & HfDi & Hfs).
  destruct le as [lnz et]. destruct l as [li lx]. cbn [fst snd] in *.
  rewrite Hlog in HPl, Hfs, HFL. rewrite Hreg in HPr.
  (* structure of A *)
  destruct (check_structure_spec_ok T A) as [_ [_ [_ HOk]]].
  destruct (proj1 HOk HCS) as [Hsq [Hut _]].
  (* the permutation *)
  destruct (invperm_inverse_ok _ _ HIP) as [Hlen [Hinv1 [Hinv2 Hpb]]].
  assert (Hlp : length (s_perm S) = sn A) by lia.
  assert (Hli : length iperm = sn A) by lia.
  assert (Hri : forall i, i < sn A -> nth i iperm 0 < sn A).
  { intros i Hi. pose proof (is_perm_range iperm Hpb i) as Hr. lia. }
  assert (HndI : NoDup iperm) by (apply (proj1 (is_perm_iff iperm) Hpb)).
  assert (Hpp : SpecPerm.is_perm (s_perm S)).
  { apply invperm_ok_iff_perm_ok. exists iperm. exact HIP. }
  assert (Hps : SpecSolve.is_perm (sn A) (s_perm S)).
  { destruct (proj1 (is_perm_iff (s_perm S)) Hpp) as [Hn1 Hn2].
    split; [exact Hlp|]. split; [exact Hn1|]. intros j Hj. rewrite <- Hlp. apply Hn2; exact Hj. }
  (* the permuted matrix *)
  pose proof (permute_symmetric_spec_ok T O A iperm Hwf Hsq Hut Hli Hri) as HP.
  cbv zeta in HP. rewrite HPS in HP. cbn [fst snd] in HP.
  destruct HP as [HwfP [HsmP [HsnP [HutP _]]]].
  pose proof (permute_symmetric_triu_nodup_ok T O A iperm Hwf Hsq Hut Hnd Hli Hri HndI) as HndP.
  cbv zeta in HndP. rewrite HPS in HndP. cbn [fst snd] in HndP.
  pose proof (permuted_entries_ok T O A (s_perm S) iperm Hwf Hsq Hut Hnd Hlp HIP) as Hent.
  cbv zeta in Hent. rewrite HPS in Hent. cbn [fst snd] in Hent.
  rewrite HsmP in HET. rewrite HsnP in HFI.
  pose proof (triu_nodup_upper HndP) as HutE.
  (* symbolic + numeric factorisation *)
  destruct (etree_bounds_ok _ _ _ _ _ HutE HET) as [Hlnz _].
  destruct (factor_rows_in_range_ok T O _ _ _ _ _ _ _ HutE HFI) as [Hcols Hrows].
  pose proof (lnz_exact_ok T O _ _ _ _ _ _ _ _ HutE HET HFI) as Hex.
  pose proof (flatten_wf_L_ok T lnz (fs_cols st) (zero O) li lx (sn A) Hlnz Hcols Hrows HFL Hex) as HwfL.
  pose proof (flatten_lcol_ok T O (sn A) lnz (fs_cols st) (zero O) li lx Hlnz Hcols Hex HFL) as Hlcol.
  pose proof (factor_correct_ok T O _ _ _ _ _ _ _ _ HR Hrec HPl HPr HndP HET HFI) as Hfc.
  pose proof (recip_of_pivots O _ _ _ _ _ _ _ Hrec HPl HFI) as Hrcp.
  assert (HDn : length (fs_D st) = sn A) by (destruct Hrcp as [_ [HD _]]; exact HD).
  (* the solve *)
  assert (HwfLF : wf_L (sn A) (f_Lp F) (f_Li F)) by (rewrite HfLp, HfLi; exact HwfL).
  assert (HrcpF : recip_of O (sn A) (fs_D st) (f_Dinv F)) by (rewrite HfDi; exact Hrcp).
  assert (HpsF : SpecSolve.is_perm (sn A) (f_perm F)) by (rewrite Hfp; exact Hps).
  assert (HDF : length (f_D F) = sn A) by (rewrite HfD; exact HDn).
  destruct (solve_ldlt_ok T O F (fs_D st) b (sn A) HR Hfs HDF Hb HpsF HwfLF HrcpF)
    as [x [z [Hsol [Hlx [Hxz Hldlt]]]]].
  rewrite Hfp in Hxz, Hldlt. rewrite HfLp, HfLi, HfLx in Hldlt.
  exists x. split; [exact Hsol|]. split; [exact Hlx|].
  (* dense identity in flat form *)
  assert (Hid : forall i j, i <= j -> j < sn A ->
     isum O (seq 0 (Datatypes.S i))
       (fun c => mul O (mul O (Mflat O (cumsum0 lnz) li lx i c) (nth c (fs_D st) (zero O)))
                       (Mflat O (cumsum0 lnz) li lx j c))
     = Aent O (colptr PA) (rowval PA) (nzval PA) i j).
  { intros i j Hij Hj. rewrite <- (Hfc i j Hij Hj).
    apply sv_isum_ext. intros c Hc. apply in_seq in Hc.
    assert (Hcn : c < sn A) by lia.
    unfold Mflat, Ment, lent. rewrite (Hlcol c Hcn). reflexivity. }
  pose proof (ldlt_dense_ok T O (sn A) (cumsum0 lnz) li lx (fs_D st)
                (perm_vec O (sn A) (s_perm S) b) z
                (fun i j => Aent O (colptr PA) (rowval PA) (nzval PA) i j)
                HR HwfL Hid Hldlt) as Hdense.
  cbv beta in Hdense.
  intros a Ha.
  assert (Hi : nth a iperm 0 < sn A) by (apply Hri; exact Ha).
  assert (Hpa : nth (nth a iperm 0) (s_perm S) 0 = a) by (apply Hinv2; lia).
  pose proof (Hdense (nth a iperm 0) Hi) as Hrow.
  rewrite (perm_vec_nth O (sn A) (s_perm S) b _ Hi), Hpa in Hrow.
  rewrite <- Hrow.
  rewrite <- (vsum_reindex O (sn A) (s_perm S)
               (fun c => mul O (Asym O (colptr A) (rowval A) (nzval A) a c) (nth c x (zero O)))
               HR Hpp Hlp).
  unfold vsum. apply sv_isum_ext. intros j Hj. apply in_seq in Hj.
  assert (Hjn : j < sn A) by lia.
  cbv beta. rewrite (Hxz j Hjn). f_equal.
  destruct (nth a iperm 0 <=? j) eqn:E.
  - apply Nat.leb_le in E. rewrite (Hent _ _ E Hjn), Hpa. reflexivity.
  - apply Nat.leb_gt in E.
    assert (E' : j <= nth a iperm 0) by lia.
    rewrite (Hent _ _ E' Hi), Hpa. apply Asym_sym.
Qed.
